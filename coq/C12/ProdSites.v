(* C12 — async producer: the safety statements site by site, read off the inductive invariant ProdP.Inv. *)
From Coq Require Import List Arith Bool Lia.
From SV Require Import C12.Lts C12.LtsProofs C12.Tac C12.Prod C12.ProdProofs C12.ProdSafety.
Import ListNotations.

Module ProdSites.
  Import Prod. Import ProdP.

  Ltac open_inv s I :=
    destr_inv I; pose proof (s_spec (sp s)); pose proof (d_spec (dp s)); pose proof (t_spec (tp s)); pose proof (p_spec (pp s));
    pose proof (b_spec (bp s) (b_after s)); pose proof (br_spec (br s)).

  (* whoever is about to close finds the channel open: the four closes of shutdown(), the dispatcher's and the topic
     producer's close of their handlers' inputs, the worker's close of output and stopchan, the bridge's close of
     responses; the worker's input is open as long as the partition producer holds its reference *)
  Theorem prod_no_double_close : forall c l s, run (step c) (init c) l = Some s ->
    (sp s = SCloseIn -> in_closed s = false) /\ (sp s = SCloseRet -> ret_closed s = false) /\
    (sp s = SCloseErr -> err_closed s = false) /\ (sp s = SCloseSucc -> succ_closed s = false) /\
    (dp s = DCloseH -> tpq_closed s = false) /\ (tp s = TCloseH -> ppq_closed s = false) /\
    (bp s = BShutCloseOut -> out_closed s = false) /\ (br s = BrClose -> resp_closed s = false) /\
    (bp s = BShutStop -> stop_closed s = false) /\
    (pp_ref s = true -> b_in_closed s = false).
  Proof.
    intros c l s H. assert (I : Inv s) by (apply (ProdS.reach_inv c s); now exists l). open_inv s I.
    repeat split; intro D; rewrite D in *; cbn in *; apply b2n_0; lia.
  Qed.

  (* whoever can send finds the channel open: everything that is sent on errors / successes / retries (and what the
     application may still have written to input) is a counted token, and while there is one the four public channels
     are open; the dispatcher's / topic producer's handler inputs are open until their feeder has returned; the worker's
     input while the partition producer holds its reference; the worker's output until the worker has closed it;
     responses until the bridge has returned *)
  Theorem prod_no_send_on_closed : forall c l s, run (step c) (init c) l = Some s ->
    (1 <= tokens s -> in_closed s = false /\ ret_closed s = false /\ err_closed s = false /\ succ_closed s = false) /\
    (dp s <> DDone -> tpq_closed s = false) /\ (tp s <> TDone -> ppq_closed s = false) /\
    (pp_ref s = true -> b_in_closed s = false) /\
    (bLate (bp s) (b_after s) = 0 -> out_closed s = false) /\
    (br s <> BrDone -> resp_closed s = false).
  Proof.
    intros c l s H. pose proof (ProdS.prod_closed_after_last_event c l s H) as [_ L].
    assert (I : Inv s) by (apply (ProdS.reach_inv c s); now exists l). open_inv s I.
    repeat split.
    - destruct (in_closed s) eqn:E; auto. assert (tokens s = 0) by auto. lia.
    - destruct (ret_closed s) eqn:E; auto. assert (tokens s = 0) by auto. lia.
    - destruct (err_closed s) eqn:E; auto. assert (tokens s = 0) by auto. lia.
    - destruct (succ_closed s) eqn:E; auto. assert (tokens s = 0) by auto. lia.
    - intro D. apply b2n_0. destruct (dp s); cbn in *; try congruence; lia.
    - intro D. apply b2n_0. destruct (tp s); cbn in *; try congruence; lia.
    - intro D. rewrite D in *. cbn in *. apply b2n_0. lia.
    - intro D. rewrite D in *. apply b2n_0. lia.
    - intro D. apply b2n_0. destruct (br s); cbn in *; try congruence; lia.
  Qed.
End ProdSites.
