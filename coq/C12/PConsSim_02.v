(* C12 — partition consumer, simulation by the observer automaton: application, dispatcher and feeder actions. One lemma per action, by [PCSim.sim_go]. *)
(* part 2 of 2; lemmas packed by proof time so that no file of the family takes much over a minute *)
From Coq Require Import List Arith Bool Lia.
From SV Require Import C12.Lts C12.LtsProofs C12.Tac C12.PCons C12.PConsProofs C12.PConsSafety C12.PConsSim.
Import ListNotations. Import PC. Import PCP. Import PCSim.

Lemma sim_ASCUpd c s q s'  : R c s q -> step c s ASCUpd = Some s' ->
  match lbl ASCUpd with None => R c s' q | Some o => exists q', ostep c true q o = Some q' /\ R c s' q' end.
Proof. intros HR H. sim_go. Qed.
Lemma sim_ASCLen c s q s'  : R c s q -> step c s ASCLen = Some s' ->
  match lbl ASCLen with None => R c s' q | Some o => exists q', ostep c true q o = Some q' /\ R c s' q' end.
Proof. intros HR H. sim_go. Qed.
Lemma sim_ADNet c s q s' ok : R c s q -> step c s (ADNet ok) = Some s' ->
  match lbl (ADNet ok) with None => R c s' q | Some o => exists q', ostep c true q o = Some q' /\ R c s' q' end.
Proof. intros HR H. sim_go. Qed.
Lemma sim_ADTimer c s q s'  : R c s q -> step c s ADTimer = Some s' ->
  match lbl ADTimer with None => R c s' q | Some o => exists q', ostep c true q o = Some q' /\ R c s' q' end.
Proof. intros HR H. sim_go. Qed.
Lemma sim_ASCFetch c s q s' ok : R c s q -> step c s (ASCFetch ok) = Some s' ->
  match lbl (ASCFetch ok) with None => R c s' q | Some o => exists q', ostep c true q o = Some q' /\ R c s' q' end.
Proof. intros HR H. sim_go. Qed.
Lemma sim_ASCAbort c s q s'  : R c s q -> step c s ASCAbort = Some s' ->
  match lbl ASCAbort with None => R c s' q | Some o => exists q', ostep c true q o = Some q' /\ R c s' q' end.
Proof. intros HR H. sim_go. Qed.
Lemma sim_ASCRangeClosed c s q s'  : R c s q -> step c s ASCRangeClosed = Some s' ->
  match lbl ASCRangeClosed with None => R c s' q | Some o => exists q', ostep c true q o = Some q' /\ R c s' q' end.
Proof. intros HR H. sim_go. Qed.
Lemma sim_AFLEnd c s q s'  : R c s q -> step c s AFLEnd = Some s' ->
  match lbl AFLEnd with None => R c s' q | Some o => exists q', ostep c true q o = Some q' /\ R c s' q' end.
Proof. intros HR H. sim_go. Qed.
Lemma sim_AFTick c s q s'  : R c s q -> step c s AFTick = Some s' ->
  match lbl AFTick with None => R c s' q | Some o => exists q', ostep c true q o = Some q' /\ R c s' q' end.
Proof. intros HR H. sim_go. Qed.
Lemma sim_ARecvMsg c s q s'  : R c s q -> step c s ARecvMsg = Some s' ->
  match lbl ARecvMsg with None => R c s' q | Some o => exists q', ostep c true q o = Some q' /\ R c s' q' end.
Proof. intros HR H. sim_go. Qed.
Lemma sim_AFLSend c s q s' hand : R c s q -> step c s (AFLSend hand) = Some s' ->
  match lbl (AFLSend hand) with None => R c s' q | Some o => exists q', ostep c true q o = Some q' /\ R c s' q' end.
Proof. intros HR H. sim_go. Qed.
Lemma sim_ADSeeClosed c s q s'  : R c s q -> step c s ADSeeClosed = Some s' ->
  match lbl ADSeeClosed with None => R c s' q | Some o => exists q', ostep c true q o = Some q' /\ R c s' q' end.
Proof. intros HR H. sim_go. Qed.
Lemma sim_ASeeClosedM c s q s'  : R c s q -> step c s ASeeClosedM = Some s' ->
  match lbl ASeeClosedM with None => R c s' q | Some o => exists q', ostep c true q o = Some q' /\ R c s' q' end.
Proof. intros HR H. sim_go. Qed.
Lemma sim_ASCHTok c s q s'  : R c s q -> step c s ASCHTok = Some s' ->
  match lbl ASCHTok with None => R c s' q | Some o => exists q', ostep c true q o = Some q' /\ R c s' q' end.
Proof. intros HR H. sim_go. Qed.
Lemma sim_ASCAbNTok c s q s'  : R c s q -> step c s ASCAbNTok = Some s' ->
  match lbl ASCAbNTok with None => R c s' q | Some o => exists q', ostep c true q o = Some q' /\ R c s' q' end.
Proof. intros HR H. sim_go. Qed.
Lemma sim_ACloseCall c s q s'  : R c s q -> step c s ACloseCall = Some s' ->
  match lbl ACloseCall with None => R c s' q | Some o => exists q', ostep c true q o = Some q' /\ R c s' q' end.
Proof. intros HR H. sim_go. Qed.
Lemma sim_ASMCloseWait c s q s'  : R c s q -> step c s ASMCloseWait = Some s' ->
  match lbl ASMCloseWait with None => R c s' q | Some o => exists q', ostep c true q o = Some q' /\ R c s' q' end.
Proof. intros HR H. sim_go. Qed.
Lemma sim_ADTok c s q s'  : R c s q -> step c s ADTok = Some s' ->
  match lbl ADTok with None => R c s' q | Some o => exists q', ostep c true q o = Some q' /\ R c s' q' end.
Proof. intros HR H. sim_go. Qed.
Lemma sim_ADCloseF c s q s'  : R c s q -> step c s ADCloseF = Some s' ->
  match lbl ADCloseF with None => R c s' q | Some o => exists q', ostep c true q o = Some q' /\ R c s' q' end.
Proof. intros HR H. sim_go. Qed.
Lemma sim_AFCloseM c s q s'  : R c s q -> step c s AFCloseM = Some s' ->
  match lbl AFCloseM with None => R c s' q | Some o => exists q', ostep c true q o = Some q' /\ R c s' q' end.
Proof. intros HR H. sim_go. Qed.
Lemma sim_ASCAbTok c s q s'  : R c s q -> step c s ASCAbTok = Some s' ->
  match lbl ASCAbTok with None => R c s' q | Some o => exists q', ostep c true q o = Some q' /\ R c s' q' end.
Proof. intros HR H. sim_go. Qed.
Lemma sim_AFCloseE c s q s'  : R c s q -> step c s AFCloseE = Some s' ->
  match lbl AFCloseE with None => R c s' q | Some o => exists q', ostep c true q o = Some q' /\ R c s' q' end.
Proof. intros HR H. sim_go. Qed.
Lemma sim_ASeeClosedE c s q s'  : R c s q -> step c s ASeeClosedE = Some s' ->
  match lbl ASeeClosedE with None => R c s' q | Some o => exists q', ostep c true q o = Some q' /\ R c s' q' end.
Proof. intros HR H. sim_go. Qed.
Lemma sim_ASMCloseNS c s q s'  : R c s q -> step c s ASMCloseNS = Some s' ->
  match lbl ASMCloseNS with None => R c s' q | Some o => exists q', ostep c true q o = Some q' /\ R c s' q' end.
Proof. intros HR H. sim_go. Qed.
Lemma sim_ADTake c s q s'  : R c s q -> step c s ADTake = Some s' ->
  match lbl ADTake with None => R c s' q | Some o => exists q', ostep c true q o = Some q' /\ R c s' q' end.
Proof. intros HR H. sim_go. Qed.
Lemma sim_ASCAcks c s q s'  : R c s q -> step c s ASCAcks = Some s' ->
  match lbl ASCAcks with None => R c s' q | Some o => exists q', ostep c true q o = Some q' /\ R c s' q' end.
Proof. intros HR H. sim_go. Qed.
Lemma sim_ASMFlush c s q s'  : R c s q -> step c s ASMFlush = Some s' ->
  match lbl ASMFlush with None => R c s' q | Some o => exists q', ostep c true q o = Some q' /\ R c s' q' end.
Proof. intros HR H. sim_go. Qed.
Lemma sim_ASMSeeClosed c s q s'  : R c s q -> step c s ASMSeeClosed = Some s' ->
  match lbl ASMSeeClosed with None => R c s' q | Some o => exists q', ostep c true q o = Some q' /\ R c s' q' end.
Proof. intros HR H. sim_go. Qed.
Lemma sim_ASCUpdClose c s q s'  : R c s q -> step c s ASCUpdClose = Some s' ->
  match lbl ASCUpdClose with None => R c s' q | Some o => exists q', ostep c true q o = Some q' /\ R c s' q' end.
Proof. intros HR H. sim_go. Qed.
Lemma sim_ADDying c s q s'  : R c s q -> step c s ADDying = Some s' ->
  match lbl ADDying with None => R c s' q | Some o => exists q', ostep c true q o = Some q' /\ R c s' q' end.
Proof. intros HR H. sim_go. Qed.
Lemma sim_ASCFeed c s q s'  : R c s q -> step c s ASCFeed = Some s' ->
  match lbl ASCFeed with None => R c s' q | Some o => exists q', ostep c true q o = Some q' /\ R c s' q' end.
Proof. intros HR H. sim_go. Qed.
Lemma sim_ARet c s q s' n : R c s q -> step c s (ARet n) = Some s' ->
  match lbl (ARet n) with None => R c s' q | Some o => exists q', ostep c true q o = Some q' /\ R c s' q' end.
Proof. intros HR H. sim_go. Qed.
Lemma sim_AFSeeClosed c s q s'  : R c s q -> step c s AFSeeClosed = Some s' ->
  match lbl AFSeeClosed with None => R c s' q | Some o => exists q', ostep c true q o = Some q' /\ R c s' q' end.
Proof. intros HR H. sim_go. Qed.
Lemma sim_AFAck c s q s'  : R c s q -> step c s AFAck = Some s' ->
  match lbl AFAck with None => R c s' q | Some o => exists q', ostep c true q o = Some q' /\ R c s' q' end.
Proof. intros HR H. sim_go. Qed.
Lemma sim_AFDying c s q s'  : R c s q -> step c s AFDying = Some s' ->
  match lbl AFDying with None => R c s' q | Some o => exists q', ostep c true q o = Some q' /\ R c s' q' end.
Proof. intros HR H. sim_go. Qed.
Lemma sim_ADSub c s q s'  : R c s q -> step c s ADSub = Some s' ->
  match lbl ADSub with None => R c s' q | Some o => exists q', ostep c true q o = Some q' /\ R c s' q' end.
Proof. intros HR H. sim_go. Qed.
Lemma sim_ASCHClose c s q s'  : R c s q -> step c s ASCHClose = Some s' ->
  match lbl ASCHClose with None => R c s' q | Some o => exists q', ostep c true q o = Some q' /\ R c s' q' end.
Proof. intros HR H. sim_go. Qed.
Lemma sim_AFLDying c s q s'  : R c s q -> step c s AFLDying = Some s' ->
  match lbl AFLDying with None => R c s' q | Some o => exists q', ostep c true q o = Some q' /\ R c s' q' end.
Proof. intros HR H. sim_go. Qed.
Lemma sim_AFResub c s q s'  : R c s q -> step c s AFResub = Some s' ->
  match lbl AFResub with None => R c s' q | Some o => exists q', ostep c true q o = Some q' /\ R c s' q' end.
Proof. intros HR H. sim_go. Qed.
Lemma sim_ARecvErr c s q s'  : R c s q -> step c s ARecvErr = Some s' ->
  match lbl ARecvErr with None => R c s' q | Some o => exists q', ostep c true q o = Some q' /\ R c s' q' end.
Proof. intros HR H. sim_go. Qed.
Lemma sim_ACloseRecv c s q s'  : R c s q -> step c s ACloseRecv = Some s' ->
  match lbl ACloseRecv with None => R c s' q | Some o => exists q', ostep c true q o = Some q' /\ R c s' q' end.
Proof. intros HR H. sim_go. Qed.
Lemma sim_ACloseSeeClosed c s q s'  : R c s q -> step c s ACloseSeeClosed = Some s' ->
  match lbl ACloseSeeClosed with None => R c s' q | Some o => exists q', ostep c true q o = Some q' /\ R c s' q' end.
Proof. intros HR H. sim_go. Qed.
