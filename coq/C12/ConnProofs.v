(* C12 — proofs about the client and broker-connection shutdown models (Conn.v). *)
From Coq Require Import List Arith Bool Lia Wellfounded.
From SV Require Import C12.Lts C12.LtsProofs C12.Tac C12.Conn.
Import ListNotations.

Lemma terminates_weaken {st act} (step : st -> act -> option st) (ph1 ph2 fin : st -> Prop) :
  (forall s, ph1 s -> ph2 s) -> Terminates step ph2 fin -> Terminates step ph1 fin.
Proof.
  intros Hsub [Hacc Hst]. split.
  - intros s Hp. specialize (Hacc s (Hsub _ Hp)). clear Hp.
    induction Hacc as [s _ IH]. constructor. intros s' [Hp [a Ha]].
    apply IH. split; [now apply Hsub | eauto].
  - intros s Hp. now apply Hst, Hsub.
Qed.

(* ============================================================================================= *)
Module ClientP.
  Import Client.

  Definition Inv (s : st) : Prop :=
    panic s = false /\
    (closer s = true -> cl s <> CIdle \/ brokers_nil s = true) /\
    (forall r, cl s = CRet r -> brokers_nil s = true) /\
    (closedch s = true <-> up s = UDone) /\
    (closer s = false -> cl s = CIdle /\ brokers_nil s = false) /\
    ((cl s = CWait \/ cl s = CFin) -> closer s = true /\ brokers_nil s = false).

  Lemma inv_init c : Inv (init c).
  Proof. unfold Inv, init; cbn. repeat split; intros; try congruence; try discriminate; intuition congruence. Qed.

  Lemma inv_step c s a s' : Inv s -> step c s a = Some s' -> Inv s'.
  Proof.
    intros (Hp & Hc & Hr & Hd & Hn & Hw) H.
    destruct a; scbn H; step_cases H; unfold Inv, set_cl, set_up in *; cbn in *; bool_hyps.
    all: repeat split; intros; subst; try congruence; try discriminate; try (intuition congruence).
    all: try (rewrite Hp; cbn).
    all: try (destruct (closer s) eqn:Ec; [exfalso; destruct (Hc eq_refl); congruence | reflexivity]).
    all: try (destruct (closedch s) eqn:Ed; [exfalso; apply proj1 in Hd; specialize (Hd eq_refl); congruence | reflexivity]).
    all: try (destruct Hn; congruence).
    all: try (right; eapply Hr; eauto; fail).
    all: try (eapply Hr; eauto; fail).
  Qed.

  Lemma reach_inv c s : Reach (step c) (init c) s -> Inv s.
  Proof. apply reach_inv; [apply inv_init | apply inv_step]. Qed.

  (* no panic: closer and closed are each closed once, for every schedule and every Close moment *)
  Theorem client_no_panic : forall c l s, run (step c) (init c) l = Some s -> panic s = false.
  Proof. intros c l s H. apply (reach_inv c s). now exists l. Qed.

  (* observable behaviour: the first Close returns nil, every later one ErrClosedClient *)
  Definition R (s : st) (q : os) : Prop :=
    match q with
    | QOpen => cl s = CIdle /\ brokers_nil s = false
    | QCalling1 => ((cl s = CWait \/ cl s = CFin) /\ brokers_nil s = false) \/ (cl s = CRet rNil /\ brokers_nil s = true)
    | QClosed => cl s = CIdle /\ brokers_nil s = true
    | QCallingN => cl s = CRet rErrClosedClient /\ brokers_nil s = true
    end.

  Lemma sim c s q a s' : R s q -> step c s a = Some s' ->
    match lbl a with
    | None => R s' q
    | Some o => exists q', ostep q o = Some q' /\ R s' q'
    end.
  Proof.
    intros HR H. destruct a; scbn H; step_cases H; cbn [lbl]; unfold set_cl, set_up in *; bool_hyps.
    all: destruct q; cbn in HR |- *; try (intuition congruence).
    all: try (eexists; split; [reflexivity|]; cbn; intuition congruence).
    all: unfold rNil, rErrClosedClient in *.
    - destruct HR as [[[E|E] ?]|[E ?]]; rewrite E in *; try discriminate.
      injection Heqc0 as <-. subst r. eexists; split; [reflexivity|]. cbn. auto.
    - destruct HR as [E ?]. rewrite E in *. injection Heqc0 as <-. subst r.
      eexists; split; [reflexivity|]. cbn. auto.
  Qed.

  Theorem client_trace_accepted : forall c l s, run (step c) (init c) l = Some s ->
    accepts (trace lbl l) = true.
  Proof.
    intros c l s H. unfold accepts. eapply (sim_accepts (step c) lbl ostep R (sim c)); [|exact H].
    cbn. auto.
  Qed.

  (* termination of Close *)
  Definition uprank (u : upc) : nat := match u with USel => 1 | UNet => 2 | UDone => 0 end.
  Definition clrank (p : cpc) : nat := match p with CWait => 3 | CFin => 2 | CRet _ => 1 | CIdle => 0 end.
  Definition mu (c : cfg) (s : st) : nat :=
    3 * fuel s + uprank (up s) + clrank (cl s) + 4 * (max_calls c - calls s).

  Definition ph (c : cfg) (s : st) : Prop := Inv s /\ closer s = true.

  Lemma ph_step c s a s' : ph c s -> step c s a = Some s' -> ph c s'.
  Proof.
    intros [Hi Hc] H. split; [eapply inv_step; eauto|].
    destruct a; scbn H; step_cases H; unfold set_cl, set_up; cbn; auto; congruence.
  Qed.

  Lemma mu_dec c s a s' : ph c s -> step c s a = Some s' -> mu c s' < mu c s.
  Proof.
    intros [Hi Hc] H. unfold mu.
    destruct a; scbn H; step_cases H; unfold set_cl, set_up; gcbn; bool_hyps; try lia; try congruence.
  Qed.

  Lemma stuck_final c s : ph c s -> stuck (step c) s ->
    final s \/ (cl s = CIdle /\ False).
  Proof.
    intros [(Hp & Hcl & Hr & Hd & Hn & Hw) Hc] Hs. left. unfold final.
    assert (Hup : up s = UDone).
    { destruct (up s) eqn:Eu; auto.
      - destruct (refresh_on c) eqn:Er.
        + specialize (Hs ASeeCloser). cbn in Hs. rewrite Eu, Er, Hc in Hs. discriminate.
        + specialize (Hs AUpExit). cbn in Hs. rewrite Eu, Er in Hs. discriminate.
      - specialize (Hs ANetDone). cbn in Hs. rewrite Eu in Hs. discriminate. }
    assert (Hcd : closedch s = true) by (apply Hd; exact Hup).
    assert (Hci : cl s = CIdle).
    { destruct (cl s) eqn:Ec; auto.
      - specialize (Hs AWaited). cbn in Hs. rewrite Ec, Hcd in Hs. discriminate.
      - specialize (Hs AFin). cbn in Hs. rewrite Ec in Hs. discriminate.
      - specialize (Hs (ARet r)). cbn in Hs. rewrite Ec, Nat.eqb_refl in Hs. discriminate. }
    repeat split; auto. destruct (Hcl Hc); congruence.
  Qed.

  Theorem client_terminates : forall c,
    Terminates (step c) (fun s => Reach (step c) (init c) s /\ closer s = true) final.
  Proof.
    intro c. apply terminates_weaken with (ph2 := ph c).
    - intros s [Hr Hc]. split; [now apply reach_inv with c | exact Hc].
    - apply terminates_by_measure with (R := lt) (mu := mu c).
      + apply lt_wf.
      + intros. eapply mu_dec; eauto.
      + intros s Hp Hs. destruct (stuck_final c s Hp Hs) as [F|[_ []]]. exact F.
  Qed.
End ClientP.

(* ============================================================================================= *)
Module BrokerP.
  Import Broker.

  Definition Inv (s : st) : Prop :=
    panic s = false /\
    (conn s = true -> (lk s = LFree \/ lk s = LSend) ->
       closed (resp s) = false /\ done s = false /\ (rc s = RIdle \/ rc s = RBusy)) /\
    (lk s = LSend -> conn s = true) /\
    (lk s = LClose -> conn s = true /\ closed (resp s) = true) /\
    ((rc s = RIdle \/ rc s = RBusy) -> done s = false /\ conn s = true) /\
    (lk s = LCloseFin -> conn s = true /\ rc s = RDone) /\
    (lk s = LDial -> conn s = false) /\
    (rc s = RDone -> done s = true /\ closed (resp s) = true /\ len (resp s) = 0) /\
    (conn s = true -> lk s <> LAuth -> rc s <> RNone) /\
    (* the SASL step: connection dialled, channels not created, no receiver *)
    (lk s = LAuth -> conn s = true /\ rc s = RNone) /\
    (* responses / done exist exactly while the connection is open and authenticated, and then a receiver exists *)
    (made s = true <-> (conn s = true /\ lk s <> LAuth)) /\
    (conn s = false -> rc s = RNone).

  Lemma inv_init c : Inv (init c).
  Proof. unfold Inv, init; cbn. repeat split; intros; try congruence; try discriminate; intuition congruence. Qed.

  Lemma inv_step c s a s' : Inv s -> step c s a = Some s' -> Inv s'.
  Proof.
    intros (Hp & Hopen & Hsend & Hclose & Hrc & Hfin & Hdial & Hdone & Hrn & Hauth & Hmade & Hnc) H.
    destruct a; scbn H; step_cases H; unfold Inv, upd, set_made in *; cbn in *; bool_hyps.
    all: repeat match goal with
         | H : ?x = ?x -> _ |- _ => specialize (H eq_refl)
         | H : ?x = ?x \/ _ -> _ |- _ => specialize (H (or_introl eq_refl))
         | H : _ \/ ?x = ?x -> _ |- _ => specialize (H (or_intror eq_refl))
         end.
    all: rewrite ?Hp; cbn.
    all: destruct (conn s) eqn:Ecn; destruct (lk s) eqn:Elk; destruct (rc s) eqn:Erc; try discriminate;
         repeat match goal with
         | H : ?x = ?x -> _ |- _ => specialize (H eq_refl)
         | H : ?x = ?x \/ _ -> _ |- _ => specialize (H (or_introl eq_refl))
         | H : _ \/ ?x = ?x -> _ |- _ => specialize (H (or_intror eq_refl))
         | H : ?x <> ?y -> _ |- _ => assert (x <> y) as Hneq by discriminate; specialize (H Hneq); clear Hneq
         end.
    all: try (intuition (try congruence; try discriminate); fail).
    all: try (intuition (try congruence; try discriminate; try lia); fail).
  Qed.

  Lemma reach_inv c s : Reach (step c) (init c) s -> Inv s.
  Proof. apply reach_inv; [apply inv_init | apply inv_step]. Qed.

  Theorem broker_no_panic : forall c l s, run (step c) (init c) l = Some s -> panic s = false.
  Proof. intros c l s H. apply (reach_inv c s). now exists l. Qed.

  (* Close on a connection that is not open returns ErrNotConnected and changes nothing else *)
  Theorem broker_close_not_open : forall c s s', conn s = false -> step c s ACloseCall = Some s' ->
    ret s' = Some rErrNotConnected /\ conn s' = false /\ resp s' = resp s /\ done s' = done s /\ panic s' = panic s.
  Proof.
    intros c s s' Hc H. cbn in H. step_cases H; try congruence. cbn. auto.
  Qed.

  (* b.done / b.responses exist exactly while the connection is open and past its SASL step; whenever they exist a
     receiver goroutine exists that closes done once responses is closed and drained (or has done so); a Close that is
     waiting on done therefore waits on a channel that exists.  Open whose SASL step fails leaves the broker exactly
     as a failed dial does: no connection, no channels, no receiver — Close answers ErrNotConnected *)
  Theorem broker_done_has_receiver : forall c l s, run (step c) (init c) l = Some s ->
    (made s = true <-> (conn s = true /\ lk s <> LAuth)) /\
    (made s = true -> rc s <> RNone) /\
    (lk s = LClose -> made s = true /\ rc s <> RNone) /\
    (lk s = LAuth -> conn s = true /\ made s = false /\ rc s = RNone) /\
    (conn s = false -> made s = false /\ rc s = RNone).
  Proof.
    intros c l s H. assert (I : Inv s) by (apply (reach_inv c s); now exists l).
    destruct I as (Hp & Hopen & Hsend & Hclose & Hrc & Hfin & Hdial & Hdone & Hrn & Hauth & Hmade & Hnc).
    split; [exact Hmade|].
    split. { intro M. apply Hmade in M. destruct M as [A B]. apply Hrn; auto. }
    split. { intro E. destruct (Hclose E) as [A _]. split.
             - apply Hmade. split; [auto | rewrite E; discriminate].
             - apply Hrn; [auto | rewrite E; discriminate]. }
    split. { intro E. destruct (Hauth E) as [A B]. split; [auto|]. split; [|auto].
             destruct Hmade as [Hm1 _]. destruct (made s) eqn:M; auto. destruct (Hm1 eq_refl) as [_ X]. congruence. }
    intro E. split; [|auto]. destruct Hmade as [Hm1 _]. destruct (made s) eqn:M; auto. destruct (Hm1 eq_refl) as [X _]. congruence.
  Qed.

  Theorem broker_auth_fail_not_connected : forall c s s', lk s = LAuth -> step c s AAuthFail = Some s' ->
    conn s' = false /\ lk s' = LFree /\ made s' = made s /\ rc s' = rc s.
  Proof. intros c s s' E H. cbn in H. rewrite E in H. injection H as <-. cbn. auto. Qed.

  (* observable behaviour *)
  Definition R (s : st) (q : os) : Prop :=
    match q with
    | QOpen => conn s = true /\ ret s = None /\ (lk s = LFree \/ lk s = LSend)
    | QCall1 => (conn s = true /\ ret s = None /\ (lk s = LClose \/ lk s = LCloseFin)) \/
                (conn s = false /\ ret s = Some rNil /\ lk s = LFree)
    | QNot => conn s = false /\ ret s = None /\ lk s = LFree
    | QCallN => conn s = false /\ ret s = Some rErrNotConnected /\ lk s = LFree
    end.

  (* the scenarios observe one connection that is not re-opened: the simulation is stated for runs
     without AOpen (re-opening is covered by the safety theorem above) *)
  Definition step_noopen (c : cfg) (s : st) (a : act) : option st :=
    match a with AOpen => None | _ => step c s a end.

  Lemma sim c s q a s' : R s q -> step_noopen c s a = Some s' ->
    match lbl a with
    | None => R s' q
    | Some o => exists q', ostep q o = Some q' /\ R s' q'
    end.
  Proof.
    intros HR H. destruct a; scbn H; step_cases H; cbn [lbl]; unfold upd in *; bool_hyps.
    all: destruct q; cbn in HR |- *; try (intuition congruence).
    all: unfold rNil, rErrNotConnected in *.
    all: try (eexists; split; [reflexivity|]; cbn; intuition congruence).
    - destruct HR as [(?&E&?)|(?&E&?)]; rewrite E in *; try discriminate.
      injection Heqo as <-. subst r. eexists; split; [reflexivity|]. cbn. auto.
    - destruct HR as (?&E&?). rewrite E in *. injection Heqo as <-. subst r.
      eexists; split; [reflexivity|]. cbn. auto.
  Qed.

  Theorem broker_trace_accepted : forall c l s s', R s QOpen \/ R s QNot ->
    run (step_noopen c) s l = Some s' ->
    accepts (conn s) (trace lbl l) = true.
  Proof.
    intros c l s s' HR H. unfold accepts.
    destruct HR as [HR|HR]; pose proof HR as HR'; cbn in HR'; destruct HR' as (-> & _).
    - eapply (sim_accepts (step_noopen c) lbl ostep R (sim c)); eauto.
    - eapply (sim_accepts (step_noopen c) lbl ostep R (sim c)); eauto.
  Qed.

  (* termination of Close: the receiver drains the promises, closes done, Close finishes *)
  Definition rcrank (r : rpc) : nat := match r with RBusy => 2 | RIdle => 1 | _ => 0 end.
  Definition lkrank (l : lockpc) : nat := match l with LClose => 4 | LCloseFin => 2 | _ => 0 end.
  Definition mu (s : st) : nat := 3 * len (resp s) + rcrank (rc s) + lkrank (lk s) + (match ret s with Some _ => 1 | None => 0 end).

  Definition ph (s : st) : Prop := Inv s /\ closing s.

  Lemma mu_dec c s a s' : ph s -> step c s a = Some s' -> mu s' < mu s.
  Proof.
    intros [Hi Hc] H. unfold mu. destruct Hc as [Hc|Hc].
    all: destruct a; scbn H; rewrite ?Hc in H; step_cases H; unfold upd; cbn; bool_hyps; try lia; try congruence.
    all: rewrite ?Hc; cbn; try lia.
    all: destruct (resp s) as [cl ln]; cbn in *; subst; cbn; lia.
  Qed.

  Lemma never_stuck c s : ph s -> stuck (step c) s -> False.
  Proof.
    intros [(Hp & Hopen & Hsend & Hclose & Hrc & Hfin & Hdial & Hdone & Hrn & Hauth & Hmade & Hnc) [Hc|Hc]] Hs.
    - destruct (Hclose Hc) as [Hconn Hcl].
      destruct (rc s) eqn:Er.
      + exfalso. apply (Hrn Hconn); [rewrite Hc; discriminate | reflexivity].
      + destruct (len (resp s)) eqn:El.
        * specialize (Hs ARExit). cbn in Hs. rewrite Er, Hcl, El in Hs. cbn in Hs. discriminate.
        * specialize (Hs ARTake). cbn in Hs. rewrite Er, El in Hs. discriminate.
      + specialize (Hs ARFinish). cbn in Hs. rewrite Er in Hs. discriminate.
      + destruct (Hdone eq_refl) as (Hd & _). specialize (Hs ACloseDone). cbn in Hs. rewrite Hc, Hd in Hs. discriminate.
    - specialize (Hs ACloseFin). cbn in Hs. rewrite Hc in Hs. discriminate.
  Qed.

  Definition final (s : st) : Prop := conn s = false /\ lk s = LFree.

  (* a Close that found the connection open always completes: no infinite run while it holds the
     lock, and it is never blocked for good *)
  Theorem broker_close_terminates : forall c,
    Terminates (step c) (fun s => Reach (step c) (init c) s /\ closing s) final.
  Proof.
    intro c. apply terminates_weaken with (ph2 := ph).
    - intros s [Hr Hc]. split; [now apply reach_inv with c | exact Hc].
    - apply terminates_by_measure with (R := lt) (mu := mu).
      + apply lt_wf.
      + intros. eapply mu_dec; eauto.
      + intros s Hp Hs. exfalso. eapply never_stuck; eauto.
  Qed.
End BrokerP.
