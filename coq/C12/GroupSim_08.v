(* C12 — consumer group, simulation by the observer automaton : one lemma per action, by [GrpSim.sim_go]. *)
(* part 8 of 9; lemmas packed by proof time so that no file of the family takes much over a minute *)
From Coq Require Import List Arith Bool Lia.
From SV Require Import C12.Lts C12.LtsProofs C12.Tac C12.Group C12.GroupProofs C12.GroupSafety C12.GroupSim.
Import ListNotations. Import Grp. Import GrpP. Import GrpSim.

Lemma sim_ALTick c s q s'  : (elock c = true \/ ~ GrpS.racy s ALTick) -> R s q -> step c s ALTick = Some s' ->
  match lbl ALTick with None => R s' q | Some o => exists q', ostep q o = Some q' /\ R s' q' end.
Proof. intros G HR H. sim_go. Qed.
Lemma sim_ALExit c s q s'  : (elock c = true \/ ~ GrpS.racy s ALExit) -> R s q -> step c s ALExit = Some s' ->
  match lbl ALExit with None => R s' q | Some o => exists q', ostep q o = Some q' /\ R s' q' end.
Proof. intros G HR H. sim_go. Qed.
Lemma sim_AHExit c s q s'  : (elock c = true \/ ~ GrpS.racy s AHExit) -> R s q -> step c s AHExit = Some s' ->
  match lbl AHExit with None => R s' q | Some o => exists q', ostep q o = Some q' /\ R s' q' end.
Proof. intros G HR H. sim_go. Qed.
Lemma sim_AGWaitEnd c s q s'  : (elock c = true \/ ~ GrpS.racy s AGWaitEnd) -> R s q -> step c s AGWaitEnd = Some s' ->
  match lbl AGWaitEnd with None => R s' q | Some o => exists q', ostep q o = Some q' /\ R s' q' end.
Proof. intros G HR H. sim_go. Qed.
Lemma sim_ACRet c s q s' r : (elock c = true \/ ~ GrpS.racy s (ACRet r)) -> R s q -> step c s (ACRet r) = Some s' ->
  match lbl (ACRet r) with None => R s' q | Some o => exists q', ostep q o = Some q' /\ R s' q' end.
Proof. intros G HR H. sim_go. Qed.
Lemma sim_AHDying c s q s'  : (elock c = true \/ ~ GrpS.racy s AHDying) -> R s q -> step c s AHDying = Some s' ->
  match lbl AHDying with None => R s' q | Some o => exists q', ostep q o = Some q' /\ R s' q' end.
Proof. intros G HR H. sim_go. Qed.
Lemma sim_AHBackDying c s q s'  : (elock c = true \/ ~ GrpS.racy s AHBackDying) -> R s q -> step c s AHBackDying = Some s' ->
  match lbl AHBackDying with None => R s' q | Some o => exists q', ostep q o = Some q' /\ R s' q' end.
Proof. intros G HR H. sim_go. Qed.
Lemma sim_AKClient c s q s' r : (elock c = true \/ ~ GrpS.racy s (AKClient r)) -> R s q -> step c s (AKClient r) = Some s' ->
  match lbl (AKClient r) with None => R s' q | Some o => exists q', ostep q o = Some q' /\ R s' q' end.
Proof. intros G HR H. sim_go. Qed.
