(* C12 — preservation of the producer invariant (ProdProofs.Inv) : one lemma per action, by [ProdP.go]. *)
(* part 3 of 13; lemmas packed by proof time so that no file of the family takes much over a minute *)
From Coq Require Import List Arith Bool Lia.
From SV Require Import C12.Lts C12.LtsProofs C12.Tac C12.Prod C12.ProdProofs.
Import ListNotations. Import Prod. Import ProdP.

Lemma step_ADErr c s s' k : Inv s -> step c s (ADErr k) = Some s' -> Inv s'.
Proof. intros I H. go s H I. Qed.
