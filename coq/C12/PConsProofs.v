(* C12 — safety of the partition-consumer shutdown model (PCons.v): for every schedule and every
   moment of AsyncClose/Close, nothing closes a closed channel, sends on a closed channel or drives
   acks negative.  The invariant is the ownership discipline of the child (exactly one owner, or the
   trigger is closed) together with the feeder / worker hand-shake.

   Proof engineering: program points are numbered so that every class the invariant speaks about is a
   range; booleans are read through [b2n].  All invariant clauses are then linear arithmetic over these
   numbers, and preservation by each action is discharged by [lia] after the case analysis of [step]. *)
From Coq Require Import List Arith Bool Lia.
From SV Require Import C12.Lts C12.LtsProofs C12.Tac C12.PCons.
Import ListNotations.

Module PCP.
  Import PC.

  Definition b2n (b : bool) : nat := if b then 1 else 0.
  Lemma b2n_le1 b : b2n b <= 1. Proof. destruct b; cbn; lia. Qed.

  (* ---- numbering of program points ---- *)
  Definition dN (d : dpc) : nat :=
    match d with DWait => 0 | DSel => 1 | DUnref => 2 | DNet => 3 | DSub => 4 | DErr => 5 | DTok => 6
               | DExit => 7 | DCloseF => 8 | DDone => 9 end.
  Definition fN (f : fpc) : nat :=
    match f with FWait => 0 | FParseErr => 1 | FMsgs _ _ => 2 | FAck => 3 | FLimbo _ => 4 | FResub => 5
               | FCloseM => 6 | FCloseE => 7 | FDone => 8 end.
  Definition mN (p : smpc) : nat :=
    match p with SMLoop => 0 | SMCloseWait => 1 | SMFlush => 2 | SMCloseNS => 3 | SMDone => 4 end.
  Definition cN (p : scpc) : nat :=
    match p with
    | SCFirst => 0 | SCRange => 1 | SCUpd => 2 | SCLen => 3 | SCIdle => 4 | SCAbort => 5 | SCAbLoop => 6 | SCAbWait => 7 | SCDone => 8
    | SCUpdClose => 10 | SCFetch => 11 | SCFeed => 12 | SCAcks => 13 | SCHandle => 14 | SCHErr _ => 15 | SCHTok => 16 | SCHClose => 17
    | SCAbErr => 18 | SCAbTok => 19 | SCAbNErr => 20 | SCAbNTok => 21
    end.
  Definition rN (r : rr) : nat := match r with RNone => 0 | RTimedOut => 1 | ROOR => 2 | RRedispatch => 3 | ROther => 4 end.

  (* indicators of the ranges used in sums *)
  Definition dI (d : dpc) : nat := match d with DSel | DUnref | DNet | DSub | DErr | DTok => 1 | _ => 0 end.
  Definition fI (f : fpc) : nat := match f with FLimbo _ | FResub => 1 | _ => 0 end.
  Definition nI (p : scpc) : nat := match p with SCAbNErr | SCAbNTok => 1 | _ => 0 end.
  Definition tI (r : rr) : nat := match r with RTimedOut => 1 | _ => 0 end.

  Lemma dI_spec d : (dI d = 1 /\ 1 <= dN d <= 6) \/ (dI d = 0 /\ (dN d = 0 \/ 7 <= dN d <= 9)).
  Proof. destruct d; cbn; lia. Qed.
  Lemma fI_spec f : (fI f = 1 /\ 4 <= fN f <= 5) \/ (fI f = 0 /\ (fN f <= 3 \/ 6 <= fN f <= 8)).
  Proof. destruct f; cbn; lia. Qed.
  Lemma nI_spec p : (nI p = 1 /\ 20 <= cN p <= 21) \/ (nI p = 0 /\ cN p <= 19 /\ cN p <> 9).
  Proof. destruct p; cbn; lia. Qed.
  Lemma tI_spec r : (tI r = 1 /\ rN r = 1) \/ (tI r = 0 /\ rN r <> 1 /\ rN r <= 4).
  Proof. destruct r; cbn; lia. Qed.
  Lemma mN_le p : mN p <= 4. Proof. destruct p; cbn; lia. Qed.

  (* SC's subscription entry is current (not the stale one left behind by an expired hand-over):
     subs && not timed out, as a 0/1 number *)
  Definition fresh (s : st) : nat := b2n (subs (w s)) - tI (rres s).
  Definition own (s : st) : nat :=
    dI (dp s) + b2n (trig_tok (ch s)) + b2n (buf (w s)) + fresh s + fI (fp s) + nI (sc (w s)).

  Record Inv (s : st) : Prop := {
    i_panic : b2n (panic s) = 0;
    (* exactly one owner, or the trigger is closed *)
    i_own : own s + b2n (trig_closed (ch s)) = 1;
    (* SC works on its subscription only while it has it *)
    i_scsubs : 10 <= cN (sc (w s)) <= 19 -> b2n (subs (w s)) = 1;
    (* child.responseResult is set only while SC waits for / handles the hand-over *)
    i_rres : rN (rres s) <> 0 -> 13 <= cN (sc (w s)) <= 14 /\ b2n (subs (w s)) = 1;
    (* a response in the feeder's hands: SC is in acks.Wait() *)
    i_busy : (b2n (feed_full (ch s)) = 1 \/ 1 <= fN (fp s) <= 3) ->
             cN (sc (w s)) = 13 /\ acks (w s) = 1 /\ rN (rres s) <> 1;
    i_acks0 : b2n (feed_full (ch s)) = 0 -> (fN (fp s) = 0 \/ 4 <= fN (fp s)) -> cN (sc (w s)) <> 12 -> acks (w s) = 0;
    i_feed : cN (sc (w s)) = 12 -> acks (w s) = 1 /\ b2n (feed_full (ch s)) = 0 /\ (fN (fp s) = 0 \/ 4 <= fN (fp s)) /\ rN (rres s) = 0;
    i_limbo : 4 <= fN (fp s) <= 5 -> b2n (feed_full (ch s)) = 0;
    (* the dispatcher's exit and what follows it *)
    i_dexit : 7 <= dN (dp s) -> b2n (trig_closed (ch s)) = 1 /\ b2n (trig_tok (ch s)) = 0;
    i_fclosed : b2n (feed_closed (ch s)) = 1 -> dN (dp s) = 9;
    i_fgone : 6 <= fN (fp s) -> b2n (feed_closed (ch s)) = 1 /\ b2n (feed_full (ch s)) = 0;
    i_msgs : b2n (closed (msgs (ch s))) = 1 -> 7 <= fN (fp s);
    i_errs : b2n (closed (errs (ch s))) = 1 -> fN (fp s) = 8;
    (* the reference on the worker *)
    i_ref1 : b2n (has_broker s) = 1 -> refs (w s) = 1 /\ b2n (in_closed (w s)) = 0;
    i_ref0 : b2n (has_broker s) = 0 ->
             dI (dp s) + b2n (trig_tok (ch s)) + b2n (trig_closed (ch s)) = 1 /\ dN (dp s) <> 4;
    (* the manager's own closes *)
    i_wait : b2n (wait_closed (w s)) = 1 -> 2 <= mN (sm (w s));
    i_ns : b2n (ns_closed (w s)) = 1 -> mN (sm (w s)) = 4;
    i_smloop : 1 <= mN (sm (w s)) -> b2n (in_closed (w s)) = 1;
    (* dying is closed under closeOnce *)
    i_once : b2n (dying (ch s)) = b2n (once (ch s))
  }.

  Lemma inv_init c : Inv (init c).
  Proof. constructor; cbn; lia. Qed.

  Ltac unf := unfold mk, with_ch, with_dp, with_fp, with_w, with_ap, with_rr, with_panic,
                     c_dying, c_trig, c_feed, c_msgs, c_errs, c_seen,
                     w_sm, w_sc, w_buf, w_subs, w_acks, w_waitc, w_nsc, wk_fresh, own, fresh in *.

  (* rewrite with the equations [proj s = constant] produced by the case analysis of the step *)
  Ltac rew_eqs s :=
    repeat match goal with
    | H : ?l = ?r |- _ =>
      lazymatch r with
      | context [s] => fail
      | _ => lazymatch l with context [s] => progress (rewrite H in * ) end
      end
    end.

  Ltac destr_inv I :=
    destruct I as [Ipanic Iown Iscsubs Irres Ibusy Iacks0 Ifeed Ilimbo Idexit Ifclosed Ifgone Imsgs Ierrs Iref1 Iref0 Iwait Ins Ismloop Ionce].

  (* facts about the numbers of the program points that are still unknown *)
  Ltac pose_specs s :=
    pose proof (dI_spec (dp s)); pose proof (fI_spec (fp s)); pose proof (nI_spec (sc (w s)));
    pose proof (tI_spec (rres s)); pose proof (mN_le (sm (w s)));
    pose proof (b2n_le1 (trig_tok (ch s))); pose proof (b2n_le1 (trig_closed (ch s)));
    pose proof (b2n_le1 (buf (w s))); pose proof (b2n_le1 (subs (w s)));
    pose proof (b2n_le1 (feed_full (ch s))); pose proof (b2n_le1 (feed_closed (ch s)));
    pose proof (b2n_le1 (has_broker s)); pose proof (b2n_le1 (in_closed (w s)));
    pose proof (b2n_le1 (wait_closed (w s))); pose proof (b2n_le1 (ns_closed (w s)));
    pose proof (b2n_le1 (closed (msgs (ch s)))); pose proof (b2n_le1 (closed (errs (ch s))));
    pose proof (b2n_le1 (panic s)); pose proof (b2n_le1 (dying (ch s))); pose proof (b2n_le1 (once (ch s))).

  Ltac go s H I :=
    scbn H; unfold send_err, send_msg, put_token, w_unref, parse_ok, draining in H;
    step_cases H; bool_hyps; pose_specs s; destr_inv I; unf; rew_eqs s;
    (constructor; unf; cbn -[Nat.sub] in * ); rew_eqs s; cbn -[Nat.sub] in *; try lia.
End PCP.
