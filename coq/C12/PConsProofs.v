(* C12 — safety of the partition-consumer shutdown model (PCons.v): for every schedule and every
   moment of AsyncClose/Close, nothing closes a closed channel, sends on a closed channel or drives
   acks negative.  The invariant is the ownership discipline of the child (exactly one owner, or the
   trigger is closed) together with the feeder / worker hand-shake.

   Proof engineering: program points are numbered so that every class the invariant speaks about is a
   range; booleans are read through [b2n].  All invariant clauses are then linear arithmetic over these
   numbers, and preservation by each action is discharged by [lia] after the case analysis of [step]. *)
From Coq Require Import List Arith Bool Lia.
From SV Require Import C12.Lts C12.LtsProofs C12.Tac C12.PCons.
Import ListNotations.

Module PCP.
  Import PC.

  Definition b2n (b : bool) : nat := if b then 1 else 0.
  Lemma b2n_le1 b : b2n b <= 1. Proof. destruct b; cbn; lia. Qed.

  Lemma b2n_0 b : b2n b = 0 -> b = false. Proof. destruct b; cbn; congruence. Qed.

  (* ---- 0/1 indicators of the classes of program points the invariant speaks about ---- *)
  Definition dI (d : dpc) : nat := match d with DSel | DUnref | DNet | DSub | DErr | DTok => 1 | _ => 0 end.  (* D owns the child *)
  Definition dX (d : dpc) : nat := match d with DExit | DCloseF | DDone => 1 | _ => 0 end.                    (* left its loop *)
  Definition dD (d : dpc) : nat := match d with DDone => 1 | _ => 0 end.
  Definition dS (d : dpc) : nat := match d with DSub => 1 | _ => 0 end.
  Definition fB (f : fpc) : nat := match f with FParseErr | FMsgs _ _ | FAck => 1 | _ => 0 end.             (* a response in hand *)
  Definition fL (f : fpc) : nat := match f with FLimbo _ | FResub => 1 | _ => 0 end.                        (* expired hand-over *)
  Definition fG (f : fpc) : nat := match f with FCloseM | FCloseE | FDone => 1 | _ => 0 end.                (* left its loop *)
  Definition fE (f : fpc) : nat := match f with FCloseE | FDone => 1 | _ => 0 end.
  Definition fD (f : fpc) : nat := match f with FDone => 1 | _ => 0 end.
  Definition cS (p : scpc) : nat :=                                                                          (* works on its subscription *)
    match p with SCUpdClose | SCFetch | SCFeed | SCAcks | SCHandle | SCHErr _ | SCHTok | SCHClose | SCAbErr | SCAbTok => 1 | _ => 0 end.
  Definition cW (p : scpc) : nat := match p with SCAcks | SCHandle => 1 | _ => 0 end.
  Definition cA (p : scpc) : nat := match p with SCAcks => 1 | _ => 0 end.
  Definition cF (p : scpc) : nat := match p with SCFeed => 1 | _ => 0 end.
  Definition nI (p : scpc) : nat := match p with SCAbNErr | SCAbNTok => 1 | _ => 0 end.                    (* child of a new batch, in abort *)
  Definition m1 (p : smpc) : nat := match p with SMLoop => 0 | _ => 1 end.
  Definition m2 (p : smpc) : nat := match p with SMLoop | SMCloseWait => 0 | _ => 1 end.
  Definition m4 (p : smpc) : nat := match p with SMDone => 1 | _ => 0 end.
  Definition mF (p : smpc) : nat := match p with SMFlush => 1 | _ => 0 end.
  Definition rZ (r : rr) : nat := match r with RNone => 0 | _ => 1 end.
  Definition tI (r : rr) : nat := match r with RTimedOut => 1 | _ => 0 end.

  Lemma d_spec d : dI d + dX d <= 1 /\ dD d <= dX d /\ dS d <= dI d.
  Proof. destruct d; cbn; lia. Qed.
  Lemma f_spec f : fB f + fL f + fG f <= 1 /\ fD f <= fE f /\ fE f <= fG f.
  Proof. destruct f; cbn; lia. Qed.
  Lemma c_spec p : cW p <= cS p /\ cA p <= cW p /\ cF p <= cS p /\ cF p + cW p <= 1 /\ cS p + nI p <= 1.
  Proof. destruct p; cbn; lia. Qed.
  Lemma m_spec p : m4 p <= m2 p /\ m2 p <= m1 p /\ m1 p <= 1 /\ mF p <= m2 p /\ mF p + m4 p <= 1.
  Proof. destruct p; cbn; lia. Qed.
  Lemma r_spec r : tI r <= rZ r /\ rZ r <= 1.
  Proof. destruct r; cbn; lia. Qed.

  (* who owns the child: D, the trigger buffer, SM's buffer, SC's subscription map (unless the entry is the
     stale one left behind by an expired hand-over: then F owns it), F, SC's abort loop *)
  Definition own (s : st) : nat :=
    dI (dp s) + b2n (trig_tok (ch s)) + b2n (buf (w s)) + b2n (subs (w s)) + fL (fp s) + nI (sc (w s)).

  Record Inv (s : st) : Prop := {
    i_panic : b2n (panic s) = 0;
    (* exactly one owner, or the trigger is closed *)
    i_own : own s + b2n (trig_closed (ch s)) = 1 + tI (rres s);
    (* SC works on its subscription only while it has it *)
    i_scsubs : cS (sc (w s)) <= b2n (subs (w s));
    (* child.responseResult is set only while SC waits for / handles the hand-over *)
    i_rres : rZ (rres s) <= cW (sc (w s));
    (* a response in the feeder's hands: SC is in acks.Wait(), acks = 1, no time-out recorded *)
    i_busy : b2n (feed_full (ch s)) + fB (fp s) <= cA (sc (w s)) /\ b2n (feed_full (ch s)) + fB (fp s) + tI (rres s) <= 1;
    i_acks : acks (w s) = b2n (feed_full (ch s)) + fB (fp s) + cF (sc (w s));
    i_feed : cF (sc (w s)) + rZ (rres s) <= 1;
    i_limbo : fL (fp s) + b2n (feed_full (ch s)) <= 1 /\ tI (rres s) <= fL (fp s) + b2n (buf (w s));
    (* the dispatcher's exit and what follows it *)
    i_dexit : dX (dp s) <= b2n (trig_closed (ch s)) /\ dX (dp s) + b2n (trig_tok (ch s)) <= 1;
    i_fclosed : b2n (feed_closed (ch s)) <= dD (dp s);
    i_fgone : fG (fp s) <= b2n (feed_closed (ch s)) /\ fG (fp s) + b2n (feed_full (ch s)) <= 1;
    i_msgs : b2n (closed (msgs (ch s))) <= fE (fp s);
    i_errs : b2n (closed (errs (ch s))) <= fD (fp s);
    (* the reference on the worker *)
    i_ref : refs (w s) = b2n (has_broker s) /\ b2n (has_broker s) + b2n (in_closed (w s)) = 1;
    i_ref0 : 1 <= b2n (has_broker s) + dI (dp s) + b2n (trig_tok (ch s)) + b2n (trig_closed (ch s)) /\
             dS (dp s) <= b2n (has_broker s);
    (* the manager's own closes *)
    i_wait : b2n (wait_closed (w s)) <= m2 (sm (w s));
    i_ns : b2n (ns_closed (w s)) <= m4 (sm (w s));
    i_smloop : m1 (sm (w s)) <= b2n (in_closed (w s));
    i_flush : mF (sm (w s)) <= b2n (buf (w s));
    (* dying is closed under closeOnce *)
    i_once : b2n (dying (ch s)) = b2n (once (ch s))
  }.

  Lemma inv_init c : Inv (init c).
  Proof. constructor; cbn; lia. Qed.

  Ltac unf := unfold mk, with_ch, with_dp, with_fp, with_w, with_ap, with_rr, with_panic,
                     c_dying, c_trig, c_feed, c_msgs, c_errs, c_seen,
                     w_sm, w_sc, w_buf, w_subs, w_acks, w_waitc, w_nsc, wk_fresh, own in *.

  (* rewrite with the equations [proj s = constant] produced by the case analysis of the step *)
  Ltac rew_eqs s :=
    repeat match goal with
    | H : ?l = ?r |- _ =>
      lazymatch r with
      | context [s] => fail
      | _ => lazymatch l with context [s] => progress (rewrite H in * ) end
      end
    end.

  Ltac destr_inv I :=
    destruct I as [Ipanic Iown Iscsubs Irres Ibusy Iacks Ifeed Ilimbo Idexit Ifclosed Ifgone Imsgs Ierrs Iref Iref0 Iwait Ins Ismloop Iflush Ionce].

  (* facts about the numbers of the program points that are still unknown *)
  Ltac pose_specs s :=
    pose proof (d_spec (dp s)); pose proof (f_spec (fp s)); pose proof (c_spec (sc (w s)));
    pose proof (m_spec (sm (w s))); pose proof (r_spec (rres s));
    pose proof (b2n_le1 (trig_tok (ch s))); pose proof (b2n_le1 (trig_closed (ch s)));
    pose proof (b2n_le1 (buf (w s))); pose proof (b2n_le1 (subs (w s)));
    pose proof (b2n_le1 (feed_full (ch s))); pose proof (b2n_le1 (feed_closed (ch s)));
    pose proof (b2n_le1 (has_broker s)); pose proof (b2n_le1 (in_closed (w s)));
    pose proof (b2n_le1 (wait_closed (w s))); pose proof (b2n_le1 (ns_closed (w s)));
    pose proof (b2n_le1 (closed (msgs (ch s)))); pose proof (b2n_le1 (closed (errs (ch s))));
    pose proof (b2n_le1 (dying (ch s))); pose proof (b2n_le1 (once (ch s))).

  Ltac pair_cases :=
    repeat match goal with
    | H : None = Some _ |- _ => discriminate H
    | H : (match ?x with _ => _ end) = (_, _) |- _ => destruct x eqn:?
    | H : (match ?x with _ => _ end) = Some _ |- _ => destruct x eqn:?
    | H : (match ?x with _ => _ end) = true |- _ => destruct x eqn:?; try discriminate H
    | H : Some _ = Some _ |- _ => injection H as ?; subst
    | H : (_, _) = (_, _) |- _ => injection H as ? ?; subst
    end.

  Ltac bool_goal :=
    repeat match goal with
    | |- context [b2n (?a || ?b)] => destruct a eqn:?; destruct b eqn:?; cbn in *
    | |- context [b2n (?a && ?b)] => destruct a eqn:?; destruct b eqn:?; cbn in *
    | |- context [b2n (?a =? ?b)] => destruct (a =? b) eqn:?; bool_hyps; cbn in *
    end.

  Ltac go s H I :=
    scbn H; unfold send_err, send_msg, put_token, w_unref, parse_ok, draining in H;
    step_cases H; pair_cases; bool_hyps; pair_cases; bool_hyps; pose_specs s; destr_inv I;
    match goal with Hpn : b2n (panic _) = 0 |- _ =>
      let Hp := fresh "Hp" in pose proof (b2n_0 _ Hpn) as Hp; try rewrite Hp in * end;
    unf; rew_eqs s;
    (constructor; unf; cbn in * ); rew_eqs s; cbn in *; try lia; bool_goal; try lia.
End PCP.
