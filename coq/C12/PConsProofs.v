(* C12 — safety of the partition-consumer shutdown model (PCons.v): for every schedule and every
   moment of AsyncClose/Close, nothing closes a closed channel, sends on a closed channel or drives
   acks negative.  The invariant is the ownership discipline of the child (exactly one owner, or the
   trigger is closed) together with the feeder / worker hand-shake. *)
From Coq Require Import List Arith Bool Lia.
From SV Require Import C12.Lts C12.LtsProofs C12.Tac C12.PCons.
Import ListNotations.

Module PCP.
  Import PC.

  (* ---- classification of program points ---- *)
  Definition dI (d : dpc) : nat := match d with DSel | DUnref | DNet | DSub | DErr | DTok => 1 | _ => 0 end.
  Definition dexit (d : dpc) : bool := match d with DExit | DCloseF | DDone => true | _ => false end.
  Definition fI (f : fpc) : nat := match f with FLimbo _ | FResub => 1 | _ => 0 end.
  Definition fbusy (f : fpc) : bool := match f with FParseErr | FMsgs _ _ | FAck => true | _ => false end.
  Definition fgone (f : fpc) : bool := match f with FCloseM | FCloseE | FDone => true | _ => false end.
  Definition nI (p : scpc) : nat := match p with SCAbNErr | SCAbNTok => 1 | _ => 0 end.
  (* program points at which SC works on its subscription *)
  Definition sc_subs (p : scpc) : bool :=
    match p with
    | SCUpdClose | SCFetch | SCFeed | SCAcks | SCHandle | SCHErr _ | SCHTok | SCHClose | SCAbErr | SCAbTok => true
    | _ => false
    end.
  Definition sc_wait (p : scpc) : bool := match p with SCAcks | SCHandle => true | _ => false end.
  Definition b2n (b : bool) : nat := if b then 1 else 0.
  Definition timedout (r : rr) : bool := match r with RTimedOut => true | _ => false end.
  Definition rnone (r : rr) : bool := match r with RNone => true | _ => false end.

  (* SC's subscription entry is current (not the stale one left behind by an expired hand-over) *)
  Definition fresh (s : st) : bool := subs (w s) && negb (timedout (rres s)).
  Definition own (s : st) : nat :=
    dI (dp s) + b2n (trig_tok (ch s)) + b2n (buf (w s)) + b2n (fresh s) + fI (fp s) + nI (sc (w s)).

  Record Inv (s : st) : Prop := {
    i_panic : panic s = false;
    (* exactly one owner, or the trigger is closed *)
    i_own : own s + b2n (trig_closed (ch s)) = 1;
    (* SC-local *)
    i_scsubs : sc_subs (sc (w s)) = true -> subs (w s) = true;
    (* child.responseResult is set only while SC waits for / handles the hand-over *)
    i_rres : rnone (rres s) = false -> sc_wait (sc (w s)) = true /\ subs (w s) = true;
    (* a response in the feeder's hands: SC is in acks.Wait() *)
    i_busy : (feed_full (ch s) = true \/ fbusy (fp s) = true) ->
             sc (w s) = SCAcks /\ acks (w s) = 1 /\ timedout (rres s) = false;
    i_acks0 : (feed_full (ch s) = false /\ fbusy (fp s) = false) -> sc (w s) <> SCFeed -> acks (w s) = 0;
    i_feed : sc (w s) = SCFeed -> acks (w s) = 1 /\ feed_full (ch s) = false /\ fbusy (fp s) = false /\ rnone (rres s) = true;
    i_limbo : fI (fp s) = 1 -> feed_full (ch s) = false;
    (* the dispatcher's exit and what follows it *)
    i_dexit : dexit (dp s) = true -> trig_closed (ch s) = true /\ trig_tok (ch s) = false;
    i_fclosed : feed_closed (ch s) = true -> dp s = DDone;
    i_fgone : fgone (fp s) = true -> feed_closed (ch s) = true /\ feed_full (ch s) = false;
    i_msgs : closed (msgs (ch s)) = true -> fp s = FCloseE \/ fp s = FDone;
    i_errs : closed (errs (ch s)) = true -> fp s = FDone;
    (* the reference on the worker *)
    i_ref : if has_broker s then refs (w s) = 1 /\ in_closed (w s) = false
            else dI (dp s) + b2n (trig_tok (ch s)) + b2n (trig_closed (ch s)) = 1;
    i_refs0 : has_broker s = false -> dp s <> DSub;
    (* the manager's own closes *)
    i_wait : wait_closed (w s) = true -> sm (w s) <> SMLoop /\ sm (w s) <> SMCloseWait;
    i_ns : ns_closed (w s) = true -> sm (w s) = SMDone;
    i_smloop : sm (w s) <> SMLoop -> in_closed (w s) = true;
    (* dying is closed under closeOnce *)
    i_once : dying (ch s) = once (ch s)
  }.

  Lemma inv_init c : Inv (init c).
  Proof.
    constructor; cbn; try reflexivity; try discriminate; intros; try congruence; try (intuition congruence); auto.
  Qed.

  Ltac unf := unfold mk, with_ch, with_dp, with_fp, with_w, with_ap, with_rr, with_panic,
                     c_dying, c_trig, c_feed, c_msgs, c_errs, c_seen,
                     w_sm, w_sc, w_buf, w_subs, w_acks, w_waitc, w_nsc, wk_fresh, own, fresh in *.
  (* rewrite with the equations [proj s = constant] produced by the case analysis of the step *)
  Ltac rew_eqs s :=
    repeat match goal with
    | H : ?l = ?r |- _ =>
      lazymatch r with
      | context [s] => fail
      | _ => lazymatch l with context [s] => progress (rewrite H in * ) end
      end
    end.

  Ltac destr_inv I :=
    destruct I as [Ipanic Iown Iscsubs Irres Ibusy Iacks0 Ifeed Ilimbo Idexit Ifclosed Ifgone Imsgs Ierrs Iref Irefs0 Iwait Ins Ismloop Ionce].

  Ltac fin0 := try reflexivity; try assumption; try discriminate; try congruence; try lia;
               try (intuition (try congruence; try discriminate; try lia)).
  Ltac b2n_cases :=
    repeat match goal with
    | |- context [b2n ?b] => destruct b eqn:?
    | H : context [b2n ?b] |- _ => destruct b eqn:?
    end; cbn in *.
  Ltac fin := fin0; try (b2n_cases; fin0).

  Lemma test_ADTake c s s' : Inv s -> step c s ADTake = Some s' -> Inv s'.
  Proof.
    intros I H. scbn H. step_cases H. destr_inv I. unf. rew_eqs s.
    constructor; unf; cbn in *.
    all: try (destruct (has_broker s)).
    all: fin.
  Qed.
End PCP.
