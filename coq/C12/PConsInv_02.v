(* C12 — preservation of the partition-consumer invariant (PConsProofs.Inv), application, dispatcher and feeder actions.
   One lemma per action, all by the tactic [PCP.go] (case analysis of the step, then linear arithmetic). *)
(* part 2 of 2; lemmas packed by proof time so that no file of the family takes much over a minute *)
From Coq Require Import List Arith Bool Lia.
From SV Require Import C12.Lts C12.LtsProofs C12.Tac C12.PCons C12.PConsProofs.
Import ListNotations. Import PC. Import PCP.

Lemma step_ACloseCall c s s'  : Inv s -> step c s ACloseCall = Some s' -> Inv s'.
Proof. intros I H. go s H I. Qed.
Lemma step_ASCAbTok c s s'  : Inv s -> step c s ASCAbTok = Some s' -> Inv s'.
Proof. intros I H. go s H I. Qed.
Lemma step_ASMCloseWait c s s'  : Inv s -> step c s ASMCloseWait = Some s' -> Inv s'.
Proof. intros I H. go s H I. Qed.
Lemma step_ADTimer c s s'  : Inv s -> step c s ADTimer = Some s' -> Inv s'.
Proof. intros I H. go s H I. Qed.
Lemma step_ASCAbNTok c s s'  : Inv s -> step c s ASCAbNTok = Some s' -> Inv s'.
Proof. intros I H. go s H I. Qed.
Lemma step_AFLEnd c s s'  : Inv s -> step c s AFLEnd = Some s' -> Inv s'.
Proof. intros I H. go s H I. Qed.
Lemma step_ASCAbort c s s'  : Inv s -> step c s ASCAbort = Some s' -> Inv s'.
Proof. intros I H. go s H I. Qed.
Lemma step_ASCFetch c s s' ok : Inv s -> step c s (ASCFetch ok) = Some s' -> Inv s'.
Proof. intros I H. go s H I. Qed.
Lemma step_AFTick c s s'  : Inv s -> step c s AFTick = Some s' -> Inv s'.
Proof. intros I H. go s H I. Qed.
Lemma step_AFLSend c s s' hand : Inv s -> step c s (AFLSend hand) = Some s' -> Inv s'.
Proof. intros I H. go s H I. Qed.
Lemma step_ADTok c s s'  : Inv s -> step c s ADTok = Some s' -> Inv s'.
Proof. intros I H. go s H I. Qed.
Lemma step_ASCRangeClosed c s s'  : Inv s -> step c s ASCRangeClosed = Some s' -> Inv s'.
Proof. intros I H. go s H I. Qed.
Lemma step_ADNet c s s' ok : Inv s -> step c s (ADNet ok) = Some s' -> Inv s'.
Proof. intros I H. go s H I. Qed.
Lemma step_ASCUpd c s s'  : Inv s -> step c s ASCUpd = Some s' -> Inv s'.
Proof. intros I H. go s H I. Qed.
Lemma step_ASeeClosedM c s s'  : Inv s -> step c s ASeeClosedM = Some s' -> Inv s'.
Proof. intros I H. go s H I. Qed.
Lemma step_AFResub c s s'  : Inv s -> step c s AFResub = Some s' -> Inv s'.
Proof. intros I H. go s H I. Qed.
Lemma step_AFAck c s s'  : Inv s -> step c s AFAck = Some s' -> Inv s'.
Proof. intros I H. go s H I. Qed.
Lemma step_ADTake c s s'  : Inv s -> step c s ADTake = Some s' -> Inv s'.
Proof. intros I H. go s H I. Qed.
Lemma step_ARecvErr c s s'  : Inv s -> step c s ARecvErr = Some s' -> Inv s'.
Proof. intros I H. go s H I. Qed.
Lemma step_ADSeeClosed c s s'  : Inv s -> step c s ADSeeClosed = Some s' -> Inv s'.
Proof. intros I H. go s H I. Qed.
Lemma step_ACloseRecv c s s'  : Inv s -> step c s ACloseRecv = Some s' -> Inv s'.
Proof. intros I H. go s H I. Qed.
Lemma step_ACloseSeeClosed c s s'  : Inv s -> step c s ACloseSeeClosed = Some s' -> Inv s'.
Proof. intros I H. go s H I. Qed.
Lemma step_AFLDying c s s'  : Inv s -> step c s AFLDying = Some s' -> Inv s'.
Proof. intros I H. go s H I. Qed.
Lemma step_ADDying c s s'  : Inv s -> step c s ADDying = Some s' -> Inv s'.
Proof. intros I H. go s H I. Qed.
Lemma step_ARet c s s' n : Inv s -> step c s (ARet n) = Some s' -> Inv s'.
Proof. intros I H. go s H I. Qed.
Lemma step_ASCHClose c s s'  : Inv s -> step c s ASCHClose = Some s' -> Inv s'.
Proof. intros I H. go s H I. Qed.
Lemma step_ADCloseF c s s'  : Inv s -> step c s ADCloseF = Some s' -> Inv s'.
Proof. intros I H. go s H I. Qed.
Lemma step_ASCFeed c s s'  : Inv s -> step c s ASCFeed = Some s' -> Inv s'.
Proof. intros I H. go s H I. Qed.
Lemma step_ARecvMsg c s s'  : Inv s -> step c s ARecvMsg = Some s' -> Inv s'.
Proof. intros I H. go s H I. Qed.
Lemma step_ASCUpdClose c s s'  : Inv s -> step c s ASCUpdClose = Some s' -> Inv s'.
Proof. intros I H. go s H I. Qed.
Lemma step_AFDying c s s'  : Inv s -> step c s AFDying = Some s' -> Inv s'.
Proof. intros I H. go s H I. Qed.
Lemma step_ASMSeeClosed c s s'  : Inv s -> step c s ASMSeeClosed = Some s' -> Inv s'.
Proof. intros I H. go s H I. Qed.
Lemma step_AFCloseM c s s'  : Inv s -> step c s AFCloseM = Some s' -> Inv s'.
Proof. intros I H. go s H I. Qed.
Lemma step_AFSeeClosed c s s'  : Inv s -> step c s AFSeeClosed = Some s' -> Inv s'.
Proof. intros I H. go s H I. Qed.
Lemma step_ADSub c s s'  : Inv s -> step c s ADSub = Some s' -> Inv s'.
Proof. intros I H. go s H I. Qed.
Lemma step_AFCloseE c s s'  : Inv s -> step c s AFCloseE = Some s' -> Inv s'.
Proof. intros I H. go s H I. Qed.
Lemma step_ASMCloseNS c s s'  : Inv s -> step c s ASMCloseNS = Some s' -> Inv s'.
Proof. intros I H. go s H I. Qed.
Lemma step_ASCAcks c s s'  : Inv s -> step c s ASCAcks = Some s' -> Inv s'.
Proof. intros I H. go s H I. Qed.
