(* C12 — partition consumer: the measure of PConsMeasure.v decreases with every action once dying is closed  ([PCM.pmgo]). *)
(* part 5 of 7; lemmas packed by proof time so that no file of the family takes much over a minute *)
From Coq Require Import List Arith Bool Lia.
From SV Require Import C12.Lts C12.LtsProofs C12.Tac C12.PCons C12.PConsProofs C12.PConsSafety C12.PConsMeasure.
Import ListNotations. Import PC. Import PCP. Import PCM.

Lemma m_ADTok c s s'  : Inv s -> dying (ch s) = true -> step c s ADTok = Some s' -> lt2 (mu c s') (mu c s).
Proof. intros I P H. pmgo. Qed.
Lemma m_ASMGive c s s'  : Inv s -> dying (ch s) = true -> step c s ASMGive = Some s' -> lt2 (mu c s') (mu c s).
Proof. intros I P H. pmgo. Qed.
Lemma m_ASCLen c s s'  : Inv s -> dying (ch s) = true -> step c s ASCLen = Some s' -> lt2 (mu c s') (mu c s).
Proof. intros I P H. pmgo. Qed.
Lemma m_AFLEnd c s s'  : Inv s -> dying (ch s) = true -> step c s AFLEnd = Some s' -> lt2 (mu c s') (mu c s).
Proof. intros I P H. pmgo. Qed.
Lemma m_ASCAbort c s s'  : Inv s -> dying (ch s) = true -> step c s ASCAbort = Some s' -> lt2 (mu c s') (mu c s).
Proof. intros I P H. pmgo. Qed.
Lemma m_ACloseCall c s s'  : Inv s -> dying (ch s) = true -> step c s ACloseCall = Some s' -> lt2 (mu c s') (mu c s).
Proof. intros I P H. pmgo. Qed.
Lemma m_ADTimer c s s'  : Inv s -> dying (ch s) = true -> step c s ADTimer = Some s' -> lt2 (mu c s') (mu c s).
Proof. intros I P H. pmgo. Qed.
Lemma m_ADCloseF c s s'  : Inv s -> dying (ch s) = true -> step c s ADCloseF = Some s' -> lt2 (mu c s') (mu c s).
Proof. intros I P H. pmgo. Qed.
Lemma m_ACloseRecv c s s'  : Inv s -> dying (ch s) = true -> step c s ACloseRecv = Some s' -> lt2 (mu c s') (mu c s).
Proof. intros I P H. pmgo. Qed.
Lemma m_AFLDying c s s'  : Inv s -> dying (ch s) = true -> step c s AFLDying = Some s' -> lt2 (mu c s') (mu c s).
Proof. intros I P H. pmgo. Qed.
Lemma m_ARecvMsg c s s'  : Inv s -> dying (ch s) = true -> step c s ARecvMsg = Some s' -> lt2 (mu c s') (mu c s).
Proof. intros I P H. pmgo. Qed.
Lemma m_AFResub c s s'  : Inv s -> dying (ch s) = true -> step c s AFResub = Some s' -> lt2 (mu c s') (mu c s).
Proof. intros I P H. pmgo. Qed.
