(* C12 — consumer group, simulation by the observer automaton, part 4: one lemma per action, by [GrpSim.sim_go]. *)
From Coq Require Import List Arith Bool Lia.
From SV Require Import C12.Lts C12.LtsProofs C12.Tac C12.Group C12.GroupProofs C12.GroupSafety C12.GroupSim.
Import ListNotations. Import Grp. Import GrpP. Import GrpSim.

Lemma sim_ACRelHe c s q s' h : (elock c = true \/ ~ GrpS.racy s (ACRelHe h)) -> R s q -> step c s (ACRelHe h) = Some s' ->
  match lbl (ACRelHe h) with None => R s' q | Some o => exists q', ostep q o = Some q' /\ R s' q' end.
Proof. intros G HR H. sim_go. Qed.
Lemma sim_ACRel3 c s q s'  : (elock c = true \/ ~ GrpS.racy s ACRel3) -> R s q -> step c s ACRel3 = Some s' ->
  match lbl ACRel3 with None => R s' q | Some o => exists q', ostep q o = Some q' /\ R s' q' end.
Proof. intros G HR H. sim_go. Qed.
Lemma sim_ACRel4 c s q s'  : (elock c = true \/ ~ GrpS.racy s ACRel4) -> R s q -> step c s ACRel4 = Some s' ->
  match lbl ACRel4 with None => R s' q | Some o => exists q', ostep q o = Some q' /\ R s' q' end.
Proof. intros G HR H. sim_go. Qed.
Lemma sim_AHNet c s q s' x : (elock c = true \/ ~ GrpS.racy s (AHNet x)) -> R s q -> step c s (AHNet x) = Some s' ->
  match lbl (AHNet x) with None => R s' q | Some o => exists q', ostep q o = Some q' /\ R s' q' end.
Proof. intros G HR H. sim_go. Qed.
Lemma sim_AHBackDying c s q s'  : (elock c = true \/ ~ GrpS.racy s AHBackDying) -> R s q -> step c s AHBackDying = Some s' ->
  match lbl AHBackDying with None => R s' q | Some o => exists q', ostep q o = Some q' /\ R s' q' end.
Proof. intros G HR H. sim_go. Qed.
Lemma sim_AHBackTimer c s q s'  : (elock c = true \/ ~ GrpS.racy s AHBackTimer) -> R s q -> step c s AHBackTimer = Some s' ->
  match lbl AHBackTimer with None => R s' q | Some o => exists q', ostep q o = Some q' /\ R s' q' end.
Proof. intros G HR H. sim_go. Qed.
Lemma sim_AHTick c s q s'  : (elock c = true \/ ~ GrpS.racy s AHTick) -> R s q -> step c s AHTick = Some s' ->
  match lbl AHTick with None => R s' q | Some o => exists q', ostep q o = Some q' /\ R s' q' end.
Proof. intros G HR H. sim_go. Qed.
Lemma sim_AHDying c s q s'  : (elock c = true \/ ~ GrpS.racy s AHDying) -> R s q -> step c s AHDying = Some s' ->
  match lbl AHDying with None => R s' q | Some o => exists q', ostep q o = Some q' /\ R s' q' end.
Proof. intros G HR H. sim_go. Qed.
