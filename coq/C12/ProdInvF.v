(* C12 — preservation of the producer invariant (ProdProofs.Inv), part 6: one lemma per action, by [ProdP.go]. *)
From Coq Require Import List Arith Bool Lia.
From SV Require Import C12.Lts C12.LtsProofs C12.Tac C12.Prod C12.ProdProofs.
Import ListNotations. Import Prod. Import ProdP.

Lemma step_APErr c s s' k : Inv s -> step c s (APErr k) = Some s' -> Inv s'.
Proof. intros I H. go s H I. Qed.
Lemma step_APSend c s s'  : Inv s -> step c s APSend = Some s' -> Inv s'.
Proof. intros I H. go s H I. Qed.
Lemma step_APMark c s s'  : Inv s -> step c s APMark = Some s' -> Inv s'.
Proof. intros I H. go s H I. Qed.
Lemma step_APMarkSend c s s'  : Inv s -> step c s APMarkSend = Some s' -> Inv s'.
Proof. intros I H. go s H I. Qed.
Lemma step_APUnref c s s'  : Inv s -> step c s APUnref = Some s' -> Inv s'.
Proof. intros I H. go s H I. Qed.
Lemma step_APGetBp c s s'  : Inv s -> step c s APGetBp = Some s' -> Inv s'.
Proof. intros I H. go s H I. Qed.
