(* C12 — safety of the offset-manager shutdown model (OffMgr.v): closing, closed and every POM's errors
   channel are closed at most once, and no error is sent to a POM after its release. *)
From Coq Require Import List Arith Bool Lia.
From SV Require Import C12.Lts C12.LtsProofs C12.Tac C12.OffMgr.
Import ListNotations.

Module OMP.
  Import OM.

  (* a managed POM has not been released; a released one has its errors channel closed, once *)
  Definition pom_ok (p : pom) : Prop :=
    managed p = negb (rel_once p) /\ closed (errs p) = rel_once p.

  Definition Inv (s : st) : Prop :=
    panic s = false /\
    closing_ch s = once s /\
    (closed_ch s = true -> ml s = MDone) /\
    (kc s <> KIdle -> once s = true) /\
    Forall pom_ok (poms s).

  Lemma forall_repeat {A} (P : A -> Prop) x n : P x -> Forall P (repeat x n).
  Proof. intro H. induction n; cbn; constructor; auto. Qed.

  Lemma forall_upd_nth {A} (P : A -> Prop) f : (forall x, P x -> P (f x)) ->
    forall l i, Forall P l -> Forall P (upd_nth i f l).
  Proof.
    intros Hf l. induction l as [|x l IH]; intros [|i] H; cbn; auto; inversion H; subst; constructor; auto.
  Qed.

  Lemma forall_map {A} (P : A -> Prop) f : (forall x, P x -> P (f x)) -> forall l, Forall P l -> Forall P (map f l).
  Proof. intros Hf l H. induction H; cbn; constructor; auto. Qed.

  Lemma release1_ok force p : pom_ok p -> pom_ok (fst (release1 force p)) /\ snd (release1 force p) = false.
  Proof.
    intros [Hm Hc]. unfold release1, pom_ok.
    destruct (managed p) eqn:Em; cbn; [|split; [split; congruence|reflexivity]].
    destruct (pdone p); cbn; [|split; [split; congruence|reflexivity]].
    destruct (force || negb (dirty p)); cbn; [|split; [split; congruence|reflexivity]].
    destruct (rel_once p) eqn:Er; cbn in *; [discriminate|].
    split; [split; cbn; auto|]. exact Hc.
  Qed.

  Lemma release_all_ok force l : Forall pom_ok l ->
    Forall pom_ok (fst (release_all force l)) /\ snd (release_all force l) = false.
  Proof.
    intro H. unfold release_all; cbn. induction H as [|p l Hp Hl [IH1 IH2]]; cbn; [auto|].
    destruct (release1_ok force p Hp) as [A B]. rewrite B. cbn. split; [constructor; auto | exact IH2].
  Qed.

  Lemma nth_error_forall {A} (P : A -> Prop) l i x : Forall P l -> nth_error l i = Some x -> P x.
  Proof. intros H E. apply nth_error_In in E. rewrite Forall_forall in H. auto. Qed.

  Lemma inv_init c : Inv (init c).
  Proof.
    unfold Inv, init; cbn. repeat split; auto; try discriminate; try congruence.
    all: try (apply forall_repeat; split; reflexivity).
    all: try (destruct (auto c); intros; try discriminate; auto).
  Qed.

  Ltac set_ok := unfold pom_ok, set_dirty, set_done, set_errs, set_seen; cbn; intros ? [? ?]; split; auto.

  Lemma set_flush_inv s f : Inv s -> Inv (set_flush s f).
  Proof.
    intros (Hp & Hc & Hcl & Hk & Hf). unfold set_flush.
    destruct (ml s) eqn:Em; try (destruct (kc s) eqn:Ek); unfold Inv, set_ml, set_kc, mk; cbn; rewrite ?Em, ?Ek;
      repeat split; auto; try discriminate; try congruence; intros; try (apply Hk; congruence).
    all: try (match goal with X : closed_ch _ = true |- _ => specialize (Hcl X); discriminate end).
  Qed.

  Lemma set_flush_fields s f :
    poms (set_flush s f) = poms s /\ panic (set_flush s f) = panic s /\ closing_ch (set_flush s f) = closing_ch s /\
    closed_ch (set_flush s f) = closed_ch s /\ once (set_flush s f) = once s /\ calls (set_flush s f) = calls s /\ fuel (set_flush s f) = fuel s.
  Proof. unfold set_flush. destruct (ml s); try destruct (kc s); cbn; auto 10. Qed.

  Lemma inv_set_poms s ps : Inv s -> Forall pom_ok ps -> Inv (set_poms s ps).
  Proof. intros (Hp & Hc & Hcl & Hk & Hf) H. unfold Inv, set_poms, mk; cbn. repeat split; auto. Qed.

  (* a flush in progress means its owner is past the points the other clauses constrain *)
  Lemma cur_flush_ml s f : cur_flush s = Some f -> (exists g, ml s = MFlush g) \/ (exists a g, kc s = KFlush a g).
  Proof. unfold cur_flush. destruct (ml s); eauto; destruct (kc s); try discriminate; eauto. Qed.

  Lemma forall_upd_nth_at {A} (P : A -> Prop) f : forall l i x,
    Forall P l -> nth_error l i = Some x -> P (f x) -> Forall P (upd_nth i f l).
  Proof.
    induction l as [|y l IH]; intros [|i] x H E Hx; cbn in *; try discriminate.
    - injection E as ->. inversion H; subst. constructor; auto.
    - inversion H; subst. constructor; eauto.
  Qed.

  Ltac simple_inv Hp Hc Hcl Hk :=
    unfold Inv, set_ml, set_kc, set_poms, mk; cbn; rewrite ?Hp; cbn;
    repeat split; auto; try discriminate; try congruence;
    try (let Hx := fresh "Hx" in intro Hx; specialize (Hcl Hx); congruence);
    try (intros _; apply Hk; congruence).

  Lemma inv_step c s a s' : Inv s -> step c s a = Some s' -> Inv s'.
  Proof.
    intros I H. pose proof I as (Hp & Hc & Hcl & Hk & Hf).
    destruct a; scbn H.
    - (* AMark *) destruct (nth_error (poms s) i); [|discriminate]. injection H as <-.
      apply inv_set_poms; auto. apply forall_upd_nth; auto; try set_ok.
    - (* APomClose *) destruct (nth_error (poms s) i); [|discriminate]. injection H as <-.
      apply inv_set_poms; auto. apply forall_upd_nth; auto; try set_ok.
    - (* ATick *) destruct (ml s) eqn:Em; try discriminate.
      destruct (closing_ch s) eqn:Ec; [destruct (fuel s); [discriminate|]|]; injection H as <-;
        simple_inv Hp Hc Hcl Hk.
    - (* AMSeeClosing *) destruct (ml s) eqn:Em; try discriminate. destruct (closing_ch s) eqn:Ec; [|discriminate].
      injection H as <-.
      assert (Hcc : closed_ch s = false).
      { destruct (closed_ch s) eqn:E; auto. specialize (Hcl eq_refl). congruence. }
      unfold Inv, mk; cbn. rewrite Hp, Hcc. repeat split; auto.
    - (* AMRel *) destruct (ml s) eqn:Em; try discriminate.
      pose proof (release_all_ok false (poms s) Hf) as [A B]. unfold release_all in A, B; cbn in A, B.
      injection H as <-. unfold Inv, mk; cbn. rewrite Hp, B. cbn.
      repeat split; auto; try discriminate; try congruence;
        try (let Hx := fresh "Hx" in intro Hx; specialize (Hcl Hx); congruence);
        try (intros _; apply Hk; congruence).
    - (* AFl *) destruct (cur_flush s) as [f|] eqn:Ef; [|discriminate].
      unfold flush_step in H. destruct f.
      + injection H as <-. now apply set_flush_inv.
      + injection H as <-. now apply set_flush_inv.
      + injection H as <-. now apply set_flush_inv.
      + destruct (npom c <=? i); [injection H as <-; now apply set_flush_inv|].
        destruct (nth_error (poms s) i) as [p|] eqn:En; [|injection H as <-; now apply set_flush_inv].
        destruct (managed p && ret_err c) eqn:Em; [|injection H as <-; now apply set_flush_inv].
        destruct (len (errs p) <? ecap c); [|discriminate]. injection H as <-.
        apply andb_true_iff in Em as [Em _].
        pose proof (nth_error_forall _ _ _ _ Hf En) as [Pm Pc]. rewrite Em in Pm.
        assert (Hcl' : closed (errs p) = false) by (destruct (rel_once p); cbn in *; congruence).
        pose proof (set_flush_inv s (FlErrs (S i)) I) as (Hp2 & Hc2 & Hcl2 & Hk2 & Hf2).
        pose proof (set_flush_fields s (FlErrs (S i))) as (F1 & F2 & F3 & F4 & F5 & F6 & F7).
        unfold Inv, mk; cbn. rewrite Hp, Hcl'. cbn. rewrite <- ?F3, <- ?F4, <- ?F5. repeat split; auto.
        eapply forall_upd_nth_at; eauto. unfold pom_ok, set_errs; cbn. split; congruence.
      + injection H as <-. apply set_flush_inv. apply inv_set_poms; auto.
        apply forall_map; auto. intros x [X1 X2]. destruct (managed x) eqn:Emx; unfold pom_ok, set_dirty; cbn; split; congruence.
      + destruct (ml s) eqn:Em; try (destruct (kc s) eqn:Ek); try discriminate; injection H as <-;
          simple_inv Hp Hc Hcl Hk.
    - (* AFlHand *) destruct (cur_flush s) as [[| | |j| |]|] eqn:Ef; try discriminate.
      destruct (negb (j =? i)); [discriminate|]. destruct (npom c <=? j); [discriminate|].
      destruct (nth_error (poms s) j) as [p|] eqn:En; [|discriminate].
      destruct (managed p && ret_err c && (len (errs p) =? 0)) eqn:Em; [|discriminate]. injection H as <-.
      apply andb_true_iff in Em as [Em _]. apply andb_true_iff in Em as [Em _].
      pose proof (nth_error_forall _ _ _ _ Hf En) as [Pm Pc]. rewrite Em in Pm.
      assert (Hcl' : closed (errs p) = false) by (destruct (rel_once p); cbn in *; congruence).
      pose proof (set_flush_inv s (FlErrs (S j)) I) as (Hp2 & Hc2 & Hcl2 & Hk2 & Hf2).
      pose proof (set_flush_fields s (FlErrs (S j))) as (F1 & F2 & F3 & F4 & F5 & F6 & F7).
      unfold Inv, mk; cbn. rewrite Hp, Hcl'. cbn. rewrite <- ?F3, <- ?F4, <- ?F5. repeat split; auto.
    - (* ACall *) destruct (kc s) eqn:Ek; try discriminate.
      destruct (negb (calls s <? max_calls c)); [discriminate|].
      destruct (once s) eqn:Eo; injection H as <-.
      + simple_inv Hp Hc Hcl Hk.
      + unfold Inv, mk; cbn. rewrite Hp. rewrite Hc. cbn. repeat split; auto.
    - (* AKWaited *) destruct (kc s) eqn:Ek; try discriminate. destruct (closed_ch s); [|discriminate].
      injection H as <-. simple_inv Hp Hc Hcl Hk.
    - (* AKAsync *) destruct (kc s) eqn:Ek; try discriminate. injection H as <-.
      unfold Inv, mk; cbn. repeat split; auto.
      + intros _. apply Hk. congruence.
      + apply forall_map; auto; try set_ok.
    - (* AKRel *) destruct (kc s) eqn:Ek; try discriminate.
      pose proof (release_all_ok false (poms s) Hf) as [A B]. unfold release_all in A, B; cbn in A, B.
      injection H as <-. unfold Inv, mk; cbn. rewrite Hp, B. cbn.
      repeat split; auto; try discriminate; try congruence;
        try (let Hx := fresh "Hx" in intro Hx; specialize (Hcl Hx); congruence);
        try (intros _; apply Hk; congruence).
    - (* AKForce *) destruct (kc s) eqn:Ek; try discriminate.
      pose proof (release_all_ok true (poms s) Hf) as [A B]. unfold release_all in A, B; cbn in A, B.
      injection H as <-. unfold Inv, mk; cbn. rewrite Hp, B. cbn.
      repeat split; auto; try discriminate; try congruence;
        try (let Hx := fresh "Hx" in intro Hx; specialize (Hcl Hx); congruence);
        try (intros _; apply Hk; congruence).
    - (* ARet *) destruct (kc s) eqn:Ek; try discriminate. injection H as <-.
      simple_inv Hp Hc Hcl Hk.
    - (* ARecv *) destruct (nth_error (poms s) i) as [p|] eqn:En; [|discriminate].
      destruct (len (errs p)); [discriminate|]. injection H as <-.
      apply inv_set_poms; auto. eapply forall_upd_nth_at; eauto.
      pose proof (nth_error_forall _ _ _ _ Hf En) as [Pm Pc]. unfold pom_ok, set_errs; cbn. auto.
    - (* ASeeClosed *) destruct (nth_error (poms s) i) as [p|] eqn:En; [|discriminate].
      destruct (closed (errs p) && (len (errs p) =? 0) && negb (seen_closed p)); [|discriminate]. injection H as <-.
      apply inv_set_poms; auto. apply forall_upd_nth; auto; try set_ok.
  Qed.

  Lemma reach_inv c s : Reach (step c) (init c) s -> Inv s.
  Proof. apply reach_inv; [apply inv_init | apply inv_step]. Qed.

  Theorem om_no_panic : forall c l s, run (step c) (init c) l = Some s -> panic s = false.
  Proof. intros c l s H. apply (reach_inv c s). now exists l. Qed.

  (* a released POM's channel is closed, a managed one's is open: nothing is sent after the release *)
  Theorem om_released_closed : forall c l s p, run (step c) (init c) l = Some s -> In p (poms s) ->
    closed (errs p) = negb (managed p).
  Proof.
    intros c l s p H Hin. assert (I : Inv s) by (apply (reach_inv c s); now exists l).
    destruct I as (_ & _ & _ & _ & Hf). rewrite Forall_forall in Hf. destruct (Hf p Hin) as [A B].
    rewrite B, A. now rewrite negb_involutive.
  Qed.
End OMP.
