(* C12 — consumer group, simulation by the observer automaton : one lemma per action, by [GrpSim.sim_go]. *)
(* part 9 of 9; lemmas packed by proof time so that no file of the family takes much over a minute *)
From Coq Require Import List Arith Bool Lia.
From SV Require Import C12.Lts C12.LtsProofs C12.Tac C12.Group C12.GroupProofs C12.GroupSafety C12.GroupSim.
Import ListNotations. Import Grp. Import GrpP. Import GrpSim.

Lemma sim_AECloseErrs c s q s'  : (elock c = true \/ ~ GrpS.racy s AECloseErrs) -> R s q -> step c s AECloseErrs = Some s' ->
  match lbl AECloseErrs with None => R s' q | Some o => exists q', ostep q o = Some q' /\ R s' q' end.
Proof. intros G HR H. sim_go. Qed.
Lemma sim_ACJoin c s q s' j : (elock c = true \/ ~ GrpS.racy s (ACJoin j)) -> R s q -> step c s (ACJoin j) = Some s' ->
  match lbl (ACJoin j) with None => R s' q | Some o => exists q', ostep q o = Some q' /\ R s' q' end.
Proof. intros G HR H. sim_go. Qed.
Lemma sim_ACRel2 c s q s' e : (elock c = true \/ ~ GrpS.racy s (ACRel2 e)) -> R s q -> step c s (ACRel2 e) = Some s' ->
  match lbl (ACRel2 e) with None => R s' q | Some o => exists q', ostep q o = Some q' /\ R s' q' end.
Proof. intros G HR H. sim_go. Qed.
Lemma sim_ARecvErr c s q s'  : (elock c = true \/ ~ GrpS.racy s ARecvErr) -> R s q -> step c s ARecvErr = Some s' ->
  match lbl ARecvErr with None => R s' q | Some o => exists q', ostep q o = Some q' /\ R s' q' end.
Proof. intros G HR H. sim_go. Qed.
Lemma sim_AKLeaveNet c s q s' ok r : (elock c = true \/ ~ GrpS.racy s (AKLeaveNet ok r)) -> R s q -> step c s (AKLeaveNet ok r) = Some s' ->
  match lbl (AKLeaveNet ok r) with None => R s' q | Some o => exists q', ostep q o = Some q' /\ R s' q' end.
Proof. intros G HR H. sim_go. Qed.
Lemma sim_AKRet c s q s' r : (elock c = true \/ ~ GrpS.racy s (AKRet r)) -> R s q -> step c s (AKRet r) = Some s' ->
  match lbl (AKRet r) with None => R s' q | Some o => exists q', ostep q o = Some q' /\ R s' q' end.
Proof. intros G HR H. sim_go. Qed.
Lemma sim_ACRel1 c s q s'  : (elock c = true \/ ~ GrpS.racy s ACRel1) -> R s q -> step c s ACRel1 = Some s' ->
  match lbl ACRel1 with None => R s' q | Some o => exists q', ostep q o = Some q' /\ R s' q' end.
Proof. intros G HR H. sim_go. Qed.
Lemma sim_ASeeClosed c s q s'  : (elock c = true \/ ~ GrpS.racy s ASeeClosed) -> R s q -> step c s ASeeClosed = Some s' ->
  match lbl ASeeClosed with None => R s' q | Some o => exists q', ostep q o = Some q' /\ R s' q' end.
Proof. intros G HR H. sim_go. Qed.
Lemma sim_ACCall c s q s'  : (elock c = true \/ ~ GrpS.racy s ACCall) -> R s q -> step c s ACCall = Some s' ->
  match lbl ACCall with None => R s' q | Some o => exists q', ostep q o = Some q' /\ R s' q' end.
Proof. intros G HR H. sim_go. Qed.
Lemma sim_ACBackTimer c s q s'  : (elock c = true \/ ~ GrpS.racy s ACBackTimer) -> R s q -> step c s ACBackTimer = Some s' ->
  match lbl ACBackTimer with None => R s' q | Some o => exists q', ostep q o = Some q' /\ R s' q' end.
Proof. intros G HR H. sim_go. Qed.
Lemma sim_ACRefresh c s q s' ok : (elock c = true \/ ~ GrpS.racy s (ACRefresh ok)) -> R s q -> step c s (ACRefresh ok) = Some s' ->
  match lbl (ACRefresh ok) with None => R s' q | Some o => exists q', ostep q o = Some q' /\ R s' q' end.
Proof. intros G HR H. sim_go. Qed.
Lemma sim_ACRelWait c s q s'  : (elock c = true \/ ~ GrpS.racy s ACRelWait) -> R s q -> step c s ACRelWait = Some s' ->
  match lbl ACRelWait with None => R s' q | Some o => exists q', ostep q o = Some q' /\ R s' q' end.
Proof. intros G HR H. sim_go. Qed.
Lemma sim_AKDrainRecv c s q s'  : (elock c = true \/ ~ GrpS.racy s AKDrainRecv) -> R s q -> step c s AKDrainRecv = Some s' ->
  match lbl AKDrainRecv with None => R s' q | Some o => exists q', ostep q o = Some q' /\ R s' q' end.
Proof. intros G HR H. sim_go. Qed.
Lemma sim_AKCloseCh c s q s'  : (elock c = true \/ ~ GrpS.racy s AKCloseCh) -> R s q -> step c s AKCloseCh = Some s' ->
  match lbl AKCloseCh with None => R s' q | Some o => exists q', ostep q o = Some q' /\ R s' q' end.
Proof. intros G HR H. sim_go. Qed.
Lemma sim_ACBackClosed c s q s'  : (elock c = true \/ ~ GrpS.racy s ACBackClosed) -> R s q -> step c s ACBackClosed = Some s' ->
  match lbl ACBackClosed with None => R s' q | Some o => exists q', ostep q o = Some q' /\ R s' q' end.
Proof. intros G HR H. sim_go. Qed.
Lemma sim_ACLock c s q s'  : (elock c = true \/ ~ GrpS.racy s ACLock) -> R s q -> step c s ACLock = Some s' ->
  match lbl ACLock with None => R s' q | Some o => exists q', ostep q o = Some q' /\ R s' q' end.
Proof. intros G HR H. sim_go. Qed.
Lemma sim_AKDrainEnd c s q s'  : (elock c = true \/ ~ GrpS.racy s AKDrainEnd) -> R s q -> step c s AKDrainEnd = Some s' ->
  match lbl AKDrainEnd with None => R s' q | Some o => exists q', ostep q o = Some q' /\ R s' q' end.
Proof. intros G HR H. sim_go. Qed.
