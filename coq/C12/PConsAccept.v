(* C12 — partition consumer: every run's observable trace is accepted by the observer automaton. *)
From Coq Require Import List Arith Bool Lia.
From SV Require Import C12.Lts C12.LtsProofs C12.Tac C12.PCons C12.PConsProofs C12.PConsSafety C12.PConsSim C12.PConsSim_01 C12.PConsSim_02.
Import ListNotations.

Module PCA.
  Import PC. Import PCP. Import PCSim.

  Lemma sim c s q a s' : R c s q -> step c s a = Some s' ->
    match lbl a with None => R c s' q | Some o => exists q', ostep c true q o = Some q' /\ R c s' q' end.
  Proof.
    intros HR H. destruct a.
    - eapply sim_AAsyncClose; eauto.
    - eapply sim_ACloseCall; eauto.
    - eapply sim_ACloseRecv; eauto.
    - eapply sim_ACloseSeeClosed; eauto.
    - eapply sim_ARet; eauto.
    - eapply sim_ARecvMsg; eauto.
    - eapply sim_ARecvErr; eauto.
    - eapply sim_ASeeClosedM; eauto.
    - eapply sim_ASeeClosedE; eauto.
    - eapply sim_ADTake; eauto.
    - eapply sim_ADSeeClosed; eauto.
    - eapply sim_ADDying; eauto.
    - eapply sim_ADTimer; eauto.
    - eapply sim_ADUnref; eauto.
    - eapply sim_ADNet; eauto.
    - eapply sim_ADSub; eauto.
    - eapply sim_ADErr; eauto.
    - eapply sim_ADTok; eauto.
    - eapply sim_ADExit; eauto.
    - eapply sim_ADCloseF; eauto.
    - eapply sim_AFTake; eauto.
    - eapply sim_AFSeeClosed; eauto.
    - eapply sim_AFPErr; eauto.
    - eapply sim_AFDying; eauto.
    - eapply sim_AFSend; eauto.
    - eapply sim_AFTick; eauto.
    - eapply sim_AFLSend; eauto.
    - eapply sim_AFLDying; eauto.
    - eapply sim_AFLEnd; eauto.
    - eapply sim_AFResub; eauto.
    - eapply sim_AFAck; eauto.
    - eapply sim_AFCloseM; eauto.
    - eapply sim_AFCloseE; eauto.
    - eapply sim_ASMSeeClosed; eauto.
    - eapply sim_ASMGive; eauto.
    - eapply sim_ASMWait; eauto.
    - eapply sim_ASMCloseWait; eauto.
    - eapply sim_ASMFlush; eauto.
    - eapply sim_ASMCloseNS; eauto.
    - eapply sim_ASCWaitClosed; eauto.
    - eapply sim_ASCRangeClosed; eauto.
    - eapply sim_ASCUpd; eauto.
    - eapply sim_ASCUpdClose; eauto.
    - eapply sim_ASCLen; eauto.
    - eapply sim_ASCFetch; eauto.
    - eapply sim_ASCFeed; eauto.
    - eapply sim_ASCAcks; eauto.
    - eapply sim_ASCHandle; eauto.
    - eapply sim_ASCHErr; eauto.
    - eapply sim_ASCHTok; eauto.
    - eapply sim_ASCHClose; eauto.
    - eapply sim_ASCAbort; eauto.
    - eapply sim_ASCAbErr; eauto.
    - eapply sim_ASCAbTok; eauto.
    - eapply sim_ASCAbNErr; eauto.
    - eapply sim_ASCAbNTok; eauto.
  Qed.

  (* for every schedule and every moment of AsyncClose / Close: what the application observes is accepted:
     no event on a channel after its close was seen, no error reaches the application while its Close()
     drains, Close() returns only after errors was closed and drained — and then messages is closed too and
     holds at most its buffer —, a second Close() returns no errors *)
  Theorem pc_trace_accepted : forall c l s, run (step c) (init c) l = Some s ->
    accepts c true (trace lbl l) = true.
  Proof.
    intros c l s H. unfold accepts.
    eapply (sim_accepts (step c) lbl (ostep c true) (R c) (sim c)); [apply R_init | exact H].
  Qed.
End PCA.
