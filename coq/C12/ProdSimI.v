(* C12 — async producer, simulation by the observer automaton, part 9: one lemma per action, by [ProdSim.sim_go]. *)
From Coq Require Import List Arith Bool Lia.
From SV Require Import C12.Lts C12.LtsProofs C12.Tac C12.Prod C12.ProdProofs C12.ProdSafety C12.ProdSim.
Import ListNotations. Import Prod. Import ProdP. Import ProdSim.

Lemma sim_ABSeeClosed c s q s'  : R c s q -> step c s ABSeeClosed = Some s' ->
  match lbl c ABSeeClosed with None => R c s' q | Some o => exists q', ostep c q o = Some q' /\ R c s' q' end.
Proof. intros HR H. sim_go. Qed.
Lemma sim_ABShutFlushed c s q s'  : R c s q -> step c s ABShutFlushed = Some s' ->
  match lbl c ABShutFlushed with None => R c s' q | Some o => exists q', ostep c q o = Some q' /\ R c s' q' end.
Proof. intros HR H. sim_go. Qed.
Lemma sim_ABCloseOut c s q s'  : R c s q -> step c s ABCloseOut = Some s' ->
  match lbl c ABCloseOut with None => R c s' q | Some o => exists q', ostep c q o = Some q' /\ R c s' q' end.
Proof. intros HR H. sim_go. Qed.
Lemma sim_ABDrained c s q s'  : R c s q -> step c s ABDrained = Some s' ->
  match lbl c ABDrained with None => R c s' q | Some o => exists q', ostep c q o = Some q' /\ R c s' q' end.
Proof. intros HR H. sim_go. Qed.
Lemma sim_ABCloseStop c s q s'  : R c s q -> step c s ABCloseStop = Some s' ->
  match lbl c ABCloseStop with None => R c s' q | Some o => exists q', ostep c q o = Some q' /\ R c s' q' end.
Proof. intros HR H. sim_go. Qed.
Lemma sim_ABrNet c s q s'  : R c s q -> step c s ABrNet = Some s' ->
  match lbl c ABrNet with None => R c s' q | Some o => exists q', ostep c q o = Some q' /\ R c s' q' end.
Proof. intros HR H. sim_go. Qed.
