(* C12 — partition consumer, simulation by the observer automaton: feeder (rest), subscription manager and subscription consumer actions. One lemma per action, by [PCSim.sim_go]. *)
From Coq Require Import List Arith Bool Lia.
From SV Require Import C12.Lts C12.LtsProofs C12.Tac C12.PCons C12.PConsProofs C12.PConsSafety C12.PConsSim.
Import ListNotations. Import PC. Import PCP. Import PCSim.

Lemma sim_AFLEnd c s q s'  : R c s q -> step c s AFLEnd = Some s' ->
  match lbl AFLEnd with None => R c s' q | Some o => exists q', ostep c true q o = Some q' /\ R c s' q' end.
Proof. intros HR H. sim_go. Qed.
Lemma sim_AFResub c s q s'  : R c s q -> step c s AFResub = Some s' ->
  match lbl AFResub with None => R c s' q | Some o => exists q', ostep c true q o = Some q' /\ R c s' q' end.
Proof. intros HR H. sim_go. Qed.
Lemma sim_AFAck c s q s'  : R c s q -> step c s AFAck = Some s' ->
  match lbl AFAck with None => R c s' q | Some o => exists q', ostep c true q o = Some q' /\ R c s' q' end.
Proof. intros HR H. sim_go. Qed.
Lemma sim_AFCloseM c s q s'  : R c s q -> step c s AFCloseM = Some s' ->
  match lbl AFCloseM with None => R c s' q | Some o => exists q', ostep c true q o = Some q' /\ R c s' q' end.
Proof. intros HR H. sim_go. Qed.
Lemma sim_AFCloseE c s q s'  : R c s q -> step c s AFCloseE = Some s' ->
  match lbl AFCloseE with None => R c s' q | Some o => exists q', ostep c true q o = Some q' /\ R c s' q' end.
Proof. intros HR H. sim_go. Qed.
Lemma sim_ASMSeeClosed c s q s'  : R c s q -> step c s ASMSeeClosed = Some s' ->
  match lbl ASMSeeClosed with None => R c s' q | Some o => exists q', ostep c true q o = Some q' /\ R c s' q' end.
Proof. intros HR H. sim_go. Qed.
Lemma sim_ASMGive c s q s'  : R c s q -> step c s ASMGive = Some s' ->
  match lbl ASMGive with None => R c s' q | Some o => exists q', ostep c true q o = Some q' /\ R c s' q' end.
Proof. intros HR H. sim_go. Qed.
Lemma sim_ASMWait c s q s'  : R c s q -> step c s ASMWait = Some s' ->
  match lbl ASMWait with None => R c s' q | Some o => exists q', ostep c true q o = Some q' /\ R c s' q' end.
Proof. intros HR H. sim_go. Qed.
Lemma sim_ASMCloseWait c s q s'  : R c s q -> step c s ASMCloseWait = Some s' ->
  match lbl ASMCloseWait with None => R c s' q | Some o => exists q', ostep c true q o = Some q' /\ R c s' q' end.
Proof. intros HR H. sim_go. Qed.
Lemma sim_ASMFlush c s q s'  : R c s q -> step c s ASMFlush = Some s' ->
  match lbl ASMFlush with None => R c s' q | Some o => exists q', ostep c true q o = Some q' /\ R c s' q' end.
Proof. intros HR H. sim_go. Qed.
Lemma sim_ASMCloseNS c s q s'  : R c s q -> step c s ASMCloseNS = Some s' ->
  match lbl ASMCloseNS with None => R c s' q | Some o => exists q', ostep c true q o = Some q' /\ R c s' q' end.
Proof. intros HR H. sim_go. Qed.
Lemma sim_ASCWaitClosed c s q s'  : R c s q -> step c s ASCWaitClosed = Some s' ->
  match lbl ASCWaitClosed with None => R c s' q | Some o => exists q', ostep c true q o = Some q' /\ R c s' q' end.
Proof. intros HR H. sim_go. Qed.
Lemma sim_ASCRangeClosed c s q s'  : R c s q -> step c s ASCRangeClosed = Some s' ->
  match lbl ASCRangeClosed with None => R c s' q | Some o => exists q', ostep c true q o = Some q' /\ R c s' q' end.
Proof. intros HR H. sim_go. Qed.
Lemma sim_ASCUpd c s q s'  : R c s q -> step c s ASCUpd = Some s' ->
  match lbl ASCUpd with None => R c s' q | Some o => exists q', ostep c true q o = Some q' /\ R c s' q' end.
Proof. intros HR H. sim_go. Qed.
Lemma sim_ASCUpdClose c s q s'  : R c s q -> step c s ASCUpdClose = Some s' ->
  match lbl ASCUpdClose with None => R c s' q | Some o => exists q', ostep c true q o = Some q' /\ R c s' q' end.
Proof. intros HR H. sim_go. Qed.
Lemma sim_ASCLen c s q s'  : R c s q -> step c s ASCLen = Some s' ->
  match lbl ASCLen with None => R c s' q | Some o => exists q', ostep c true q o = Some q' /\ R c s' q' end.
Proof. intros HR H. sim_go. Qed.
Lemma sim_ASCFetch c s q s' ok : R c s q -> step c s (ASCFetch ok) = Some s' ->
  match lbl (ASCFetch ok) with None => R c s' q | Some o => exists q', ostep c true q o = Some q' /\ R c s' q' end.
Proof. intros HR H. sim_go. Qed.
Lemma sim_ASCFeed c s q s'  : R c s q -> step c s ASCFeed = Some s' ->
  match lbl ASCFeed with None => R c s' q | Some o => exists q', ostep c true q o = Some q' /\ R c s' q' end.
Proof. intros HR H. sim_go. Qed.
Lemma sim_ASCAcks c s q s'  : R c s q -> step c s ASCAcks = Some s' ->
  match lbl ASCAcks with None => R c s' q | Some o => exists q', ostep c true q o = Some q' /\ R c s' q' end.
Proof. intros HR H. sim_go. Qed.
Lemma sim_ASCHandle c s q s' moved : R c s q -> step c s (ASCHandle moved) = Some s' ->
  match lbl (ASCHandle moved) with None => R c s' q | Some o => exists q', ostep c true q o = Some q' /\ R c s' q' end.
Proof. intros HR H. sim_go. Qed.
Lemma sim_ASCHErr c s q s' hand : R c s q -> step c s (ASCHErr hand) = Some s' ->
  match lbl (ASCHErr hand) with None => R c s' q | Some o => exists q', ostep c true q o = Some q' /\ R c s' q' end.
Proof. intros HR H. sim_go. Qed.
Lemma sim_ASCHTok c s q s'  : R c s q -> step c s ASCHTok = Some s' ->
  match lbl ASCHTok with None => R c s' q | Some o => exists q', ostep c true q o = Some q' /\ R c s' q' end.
Proof. intros HR H. sim_go. Qed.
Lemma sim_ASCHClose c s q s'  : R c s q -> step c s ASCHClose = Some s' ->
  match lbl ASCHClose with None => R c s' q | Some o => exists q', ostep c true q o = Some q' /\ R c s' q' end.
Proof. intros HR H. sim_go. Qed.
Lemma sim_ASCAbort c s q s'  : R c s q -> step c s ASCAbort = Some s' ->
  match lbl ASCAbort with None => R c s' q | Some o => exists q', ostep c true q o = Some q' /\ R c s' q' end.
Proof. intros HR H. sim_go. Qed.
Lemma sim_ASCAbErr c s q s' hand : R c s q -> step c s (ASCAbErr hand) = Some s' ->
  match lbl (ASCAbErr hand) with None => R c s' q | Some o => exists q', ostep c true q o = Some q' /\ R c s' q' end.
Proof. intros HR H. sim_go. Qed.
Lemma sim_ASCAbTok c s q s'  : R c s q -> step c s ASCAbTok = Some s' ->
  match lbl ASCAbTok with None => R c s' q | Some o => exists q', ostep c true q o = Some q' /\ R c s' q' end.
Proof. intros HR H. sim_go. Qed.
Lemma sim_ASCAbNErr c s q s' hand : R c s q -> step c s (ASCAbNErr hand) = Some s' ->
  match lbl (ASCAbNErr hand) with None => R c s' q | Some o => exists q', ostep c true q o = Some q' /\ R c s' q' end.
Proof. intros HR H. sim_go. Qed.
Lemma sim_ASCAbNTok c s q s'  : R c s q -> step c s ASCAbNTok = Some s' ->
  match lbl ASCAbNTok with None => R c s' q | Some o => exists q', ostep c true q o = Some q' /\ R c s' q' end.
Proof. intros HR H. sim_go. Qed.
