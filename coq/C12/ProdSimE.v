(* C12 — async producer, simulation by the observer automaton, part 5: one lemma per action, by [ProdSim.sim_go]. *)
From Coq Require Import List Arith Bool Lia.
From SV Require Import C12.Lts C12.LtsProofs C12.Tac C12.Prod C12.ProdProofs C12.ProdSafety C12.ProdSim.
Import ListNotations. Import Prod. Import ProdP. Import ProdSim.

Lemma sim_ATSeeClosed c s q s'  : R c s q -> step c s ATSeeClosed = Some s' ->
  match lbl c ATSeeClosed with None => R c s' q | Some o => exists q', ostep c q o = Some q' /\ R c s' q' end.
Proof. intros HR H. sim_go. Qed.
Lemma sim_ATCloseH c s q s'  : R c s q -> step c s ATCloseH = Some s' ->
  match lbl c ATCloseH with None => R c s' q | Some o => exists q', ostep c q o = Some q' /\ R c s' q' end.
Proof. intros HR H. sim_go. Qed.
Lemma sim_APStart c s q s'  : R c s q -> step c s APStart = Some s' ->
  match lbl c APStart with None => R c s' q | Some o => exists q', ostep c q o = Some q' /\ R c s' q' end.
Proof. intros HR H. sim_go. Qed.
Lemma sim_APTake c s q s'  : R c s q -> step c s APTake = Some s' ->
  match lbl c APTake with None => R c s' q | Some o => exists q', ostep c q o = Some q' /\ R c s' q' end.
Proof. intros HR H. sim_go. Qed.
Lemma sim_APConsume c s q s'  : R c s q -> step c s APConsume = Some s' ->
  match lbl c APConsume with None => R c s' q | Some o => exists q', ostep c q o = Some q' /\ R c s' q' end.
Proof. intros HR H. sim_go. Qed.
Lemma sim_APBuffer c s q s'  : R c s q -> step c s APBuffer = Some s' ->
  match lbl c APBuffer with None => R c s' q | Some o => exists q', ostep c q o = Some q' /\ R c s' q' end.
Proof. intros HR H. sim_go. Qed.
