(* C12 — partition consumer: the measure of PConsMeasure.v decreases with every action once dying is closed  ([PCM.pmgo]). *)
(* part 4 of 7; lemmas packed by proof time so that no file of the family takes much over a minute *)
From Coq Require Import List Arith Bool Lia.
From SV Require Import C12.Lts C12.LtsProofs C12.Tac C12.PCons C12.PConsProofs C12.PConsSafety C12.PConsMeasure.
Import ListNotations. Import PC. Import PCP. Import PCM.

Lemma m_ASCHandle c s s' moved : Inv s -> dying (ch s) = true -> step c s (ASCHandle moved) = Some s' -> lt2 (mu c s') (mu c s).
Proof. intros I P H. pmgo. Qed.
Lemma m_ASCWaitClosed c s s'  : Inv s -> dying (ch s) = true -> step c s ASCWaitClosed = Some s' -> lt2 (mu c s') (mu c s).
Proof. intros I P H. pmgo. Qed.
Lemma m_AFDying c s s'  : Inv s -> dying (ch s) = true -> step c s AFDying = Some s' -> lt2 (mu c s') (mu c s).
Proof. intros I P H. pmgo. Qed.
Lemma m_AFTick c s s'  : Inv s -> dying (ch s) = true -> step c s AFTick = Some s' -> lt2 (mu c s') (mu c s).
Proof. intros I P H. pmgo. Qed.
Lemma m_AFLSend c s s' hand : Inv s -> dying (ch s) = true -> step c s (AFLSend hand) = Some s' -> lt2 (mu c s') (mu c s).
Proof. intros I P H. pmgo. Qed.
Lemma m_ASCAbErr c s s' hand : Inv s -> dying (ch s) = true -> step c s (ASCAbErr hand) = Some s' -> lt2 (mu c s') (mu c s).
Proof. intros I P H. pmgo. Qed.
Lemma m_AAsyncClose c s s'  : Inv s -> dying (ch s) = true -> step c s AAsyncClose = Some s' -> lt2 (mu c s') (mu c s).
Proof. intros I P H. pmgo. Qed.
