(* C12 — consumer group, simulation by the observer automaton, part 6: one lemma per action, by [GrpSim.sim_go]. *)
From Coq Require Import List Arith Bool Lia.
From SV Require Import C12.Lts C12.LtsProofs C12.Tac C12.Group C12.GroupProofs C12.GroupSafety C12.GroupSim.
Import ListNotations. Import Grp. Import GrpP. Import GrpSim.

Lemma sim_AGRunEnd c s q s' err : (elock c = true \/ ~ GrpS.racy s (AGRunEnd err)) -> R s q -> step c s (AGRunEnd err) = Some s' ->
  match lbl (AGRunEnd err) with None => R s' q | Some o => exists q', ostep q o = Some q' /\ R s' q' end.
Proof. intros G HR H. sim_go. Qed.
Lemma sim_AGWaitErr c s q s'  : (elock c = true \/ ~ GrpS.racy s AGWaitErr) -> R s q -> step c s AGWaitErr = Some s' ->
  match lbl AGWaitErr with None => R s' q | Some o => exists q', ostep q o = Some q' /\ R s' q' end.
Proof. intros G HR H. sim_go. Qed.
Lemma sim_AGWaitEnd c s q s'  : (elock c = true \/ ~ GrpS.racy s AGWaitEnd) -> R s q -> step c s AGWaitEnd = Some s' ->
  match lbl AGWaitEnd with None => R s' q | Some o => exists q', ostep q o = Some q' /\ R s' q' end.
Proof. intros G HR H. sim_go. Qed.
Lemma sim_AGHe c s q s' h : (elock c = true \/ ~ GrpS.racy s (AGHe h)) -> R s q -> step c s (AGHe h) = Some s' ->
  match lbl (AGHe h) with None => R s' q | Some o => exists q', ostep q o = Some q' /\ R s' q' end.
Proof. intros G HR H. sim_go. Qed.
Lemma sim_AGDefer c s q s'  : (elock c = true \/ ~ GrpS.racy s AGDefer) -> R s q -> step c s AGDefer = Some s' ->
  match lbl AGDefer with None => R s' q | Some o => exists q', ostep q o = Some q' /\ R s' q' end.
Proof. intros G HR H. sim_go. Qed.
Lemma sim_AFwCheck c s q s'  : (elock c = true \/ ~ GrpS.racy s AFwCheck) -> R s q -> step c s AFwCheck = Some s' ->
  match lbl AFwCheck with None => R s' q | Some o => exists q', ostep q o = Some q' /\ R s' q' end.
Proof. intros G HR H. sim_go. Qed.
Lemma sim_AFwSend c s q s' h : (elock c = true \/ ~ GrpS.racy s (AFwSend h)) -> R s q -> step c s (AFwSend h) = Some s' ->
  match lbl (AFwSend h) with None => R s' q | Some o => exists q', ostep q o = Some q' /\ R s' q' end.
Proof. intros G HR H. sim_go. Qed.
