(* C12 — partition consumer: the measure of PConsMeasure.v decreases with every action once dying is closed, part 1 ([PCM.pmgo]). *)
From Coq Require Import List Arith Bool Lia.
From SV Require Import C12.Lts C12.LtsProofs C12.Tac C12.PCons C12.PConsProofs C12.PConsSafety C12.PConsMeasure.
Import ListNotations. Import PC. Import PCP. Import PCM.

Lemma m_AAsyncClose c s s'  : Inv s -> dying (ch s) = true -> step c s AAsyncClose = Some s' -> lt2 (mu c s') (mu c s).
Proof. intros I P H. pmgo. Qed.
Lemma m_ACloseCall c s s'  : Inv s -> dying (ch s) = true -> step c s ACloseCall = Some s' -> lt2 (mu c s') (mu c s).
Proof. intros I P H. pmgo. Qed.
Lemma m_ACloseRecv c s s'  : Inv s -> dying (ch s) = true -> step c s ACloseRecv = Some s' -> lt2 (mu c s') (mu c s).
Proof. intros I P H. pmgo. Qed.
Lemma m_ACloseSeeClosed c s s'  : Inv s -> dying (ch s) = true -> step c s ACloseSeeClosed = Some s' -> lt2 (mu c s') (mu c s).
Proof. intros I P H. pmgo. Qed.
Lemma m_ARet c s s' n : Inv s -> dying (ch s) = true -> step c s (ARet n) = Some s' -> lt2 (mu c s') (mu c s).
Proof. intros I P H. pmgo. Qed.
Lemma m_ARecvMsg c s s'  : Inv s -> dying (ch s) = true -> step c s ARecvMsg = Some s' -> lt2 (mu c s') (mu c s).
Proof. intros I P H. pmgo. Qed.
Lemma m_ARecvErr c s s'  : Inv s -> dying (ch s) = true -> step c s ARecvErr = Some s' -> lt2 (mu c s') (mu c s).
Proof. intros I P H. pmgo. Qed.
Lemma m_ASeeClosedM c s s'  : Inv s -> dying (ch s) = true -> step c s ASeeClosedM = Some s' -> lt2 (mu c s') (mu c s).
Proof. intros I P H. pmgo. Qed.
Lemma m_ASeeClosedE c s s'  : Inv s -> dying (ch s) = true -> step c s ASeeClosedE = Some s' -> lt2 (mu c s') (mu c s).
Proof. intros I P H. pmgo. Qed.
Lemma m_ADTake c s s'  : Inv s -> dying (ch s) = true -> step c s ADTake = Some s' -> lt2 (mu c s') (mu c s).
Proof. intros I P H. pmgo. Qed.
Lemma m_ADSeeClosed c s s'  : Inv s -> dying (ch s) = true -> step c s ADSeeClosed = Some s' -> lt2 (mu c s') (mu c s).
Proof. intros I P H. pmgo. Qed.
Lemma m_ADDying c s s'  : Inv s -> dying (ch s) = true -> step c s ADDying = Some s' -> lt2 (mu c s') (mu c s).
Proof. intros I P H. pmgo. Qed.
Lemma m_ADTimer c s s'  : Inv s -> dying (ch s) = true -> step c s ADTimer = Some s' -> lt2 (mu c s') (mu c s).
Proof. intros I P H. pmgo. Qed.
Lemma m_ADUnref c s s'  : Inv s -> dying (ch s) = true -> step c s ADUnref = Some s' -> lt2 (mu c s') (mu c s).
Proof. intros I P H. pmgo. Qed.
