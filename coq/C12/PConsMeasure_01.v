(* C12 — partition consumer: the measure of PConsMeasure.v decreases with every action once dying is closed  ([PCM.pmgo]). *)
(* part 1 of 7; lemmas packed by proof time so that no file of the family takes much over a minute *)
From Coq Require Import List Arith Bool Lia.
From SV Require Import C12.Lts C12.LtsProofs C12.Tac C12.PCons C12.PConsProofs C12.PConsSafety C12.PConsMeasure.
Import ListNotations. Import PC. Import PCP. Import PCM.

Lemma m_AFSend c s s' hand : Inv s -> dying (ch s) = true -> step c s (AFSend hand) = Some s' -> lt2 (mu c s') (mu c s).
Proof. intros I P H. pmgo. Qed.
Lemma m_ADExit c s s'  : Inv s -> dying (ch s) = true -> step c s ADExit = Some s' -> lt2 (mu c s') (mu c s).
Proof. intros I P H. pmgo. Qed.
Lemma m_ASMFlush c s s'  : Inv s -> dying (ch s) = true -> step c s ASMFlush = Some s' -> lt2 (mu c s') (mu c s).
Proof. intros I P H. pmgo. Qed.
