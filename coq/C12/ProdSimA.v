(* C12 — async producer, simulation by the observer automaton, part 1: one lemma per action, by [ProdSim.sim_go]. *)
From Coq Require Import List Arith Bool Lia.
From SV Require Import C12.Lts C12.LtsProofs C12.Tac C12.Prod C12.ProdProofs C12.ProdSafety C12.ProdSim.
Import ListNotations. Import Prod. Import ProdP. Import ProdSim.

Lemma sim_AInput c s q s'  : R c s q -> step c s AInput = Some s' ->
  match lbl c AInput with None => R c s' q | Some o => exists q', ostep c q o = Some q' /\ R c s' q' end.
Proof. intros HR H. sim_go. Qed.
Lemma sim_AAsyncClose c s q s'  : R c s q -> step c s AAsyncClose = Some s' ->
  match lbl c AAsyncClose with None => R c s' q | Some o => exists q', ostep c q o = Some q' /\ R c s' q' end.
Proof. intros HR H. sim_go. Qed.
Lemma sim_ASeeClosedErr c s q s'  : R c s q -> step c s ASeeClosedErr = Some s' ->
  match lbl c ASeeClosedErr with None => R c s' q | Some o => exists q', ostep c q o = Some q' /\ R c s' q' end.
Proof. intros HR H. sim_go. Qed.
Lemma sim_ASeeClosedSucc c s q s'  : R c s q -> step c s ASeeClosedSucc = Some s' ->
  match lbl c ASeeClosedSucc with None => R c s' q | Some o => exists q', ostep c q o = Some q' /\ R c s' q' end.
Proof. intros HR H. sim_go. Qed.
Lemma sim_ACloseSeeClosed c s q s'  : R c s q -> step c s ACloseSeeClosed = Some s' ->
  match lbl c ACloseSeeClosed with None => R c s' q | Some o => exists q', ostep c q o = Some q' /\ R c s' q' end.
Proof. intros HR H. sim_go. Qed.
Lemma sim_ARet c s q s' n : R c s q -> step c s (ARet n) = Some s' ->
  match lbl c (ARet n) with None => R c s' q | Some o => exists q', ostep c q o = Some q' /\ R c s' q' end.
Proof. intros HR H. sim_go. Qed.
