(* C12 — consumer group: the invariant holds in every reachable state; consequences. *)
From Coq Require Import List Arith Bool Lia.
From SV Require Import C12.Lts C12.LtsProofs C12.Tac C12.Group C12.GroupProofs C12.GroupInv_01 C12.GroupInv_02.
Import ListNotations.

Module GrpS.
  Import Grp. Import GrpP.

  (* the one step that is dangerous without errorsLock *)
  Definition racy (s : st) (a : act) : Prop := a = AECloseErrs /\ fw_checked s <> 0.

  Lemma inv_step c s a s' : (elock c = true \/ ~ racy s a) -> Inv s -> step c s a = Some s' -> Inv s'.
  Proof.
    intros G I H.
    assert (G' : a = AECloseErrs -> elock c = true \/ fw_checked s = 0).
    { intros ->. destruct G as [G|G]; [now left|]. right. destruct (fw_checked s) eqn:E; [reflexivity|].
      exfalso. apply G. split; [reflexivity | lia]. }
    destruct a.
    - eapply step_AKCall; eauto.
    - eapply step_AKRet; eauto.
    - eapply step_ACCall; eauto.
    - eapply step_ACRet; eauto.
    - eapply step_ARecvErr; eauto.
    - eapply step_ASeeClosed; eauto.
    - eapply step_AKCloseCh; eauto.
    - eapply step_AKLeaveLock; eauto.
    - eapply step_AKLeaveNet; eauto.
    - eapply step_AKSpawn; eauto.
    - eapply step_AECloseErrs; eauto.
    - eapply step_AKDrainRecv; eauto.
    - eapply step_AKDrainEnd; eauto.
    - eapply step_AKClient; eauto.
    - eapply step_ACLock; eauto.
    - eapply step_ACRefresh; eauto.
    - eapply step_ACJoin; eauto.
    - eapply step_ACBackClosed; eauto.
    - eapply step_ACBackTimer; eauto.
    - eapply step_ACSetup; eauto.
    - eapply step_ACCtxDone; eauto.
    - eapply step_ACRel1; eauto.
    - eapply step_ACRelWait; eauto.
    - eapply step_ACRel2; eauto.
    - eapply step_ACRelHe; eauto.
    - eapply step_ACRel3; eauto.
    - eapply step_ACRel4; eauto.
    - eapply step_AHNet; eauto.
    - eapply step_AHBackDying; eauto.
    - eapply step_AHBackTimer; eauto.
    - eapply step_AHTick; eauto.
    - eapply step_AHDying; eauto.
    - eapply step_AHHe; eauto.
    - eapply step_AHExit; eauto.
    - eapply step_ALNet; eauto.
    - eapply step_ALTick; eauto.
    - eapply step_ALStop; eauto.
    - eapply step_ALExit; eauto.
    - eapply step_AGStart; eauto.
    - eapply step_AGNew; eauto.
    - eapply step_AGRunEnd; eauto.
    - eapply step_AGWaitErr; eauto.
    - eapply step_AGWaitEnd; eauto.
    - eapply step_AGHe; eauto.
    - eapply step_AGDefer; eauto.
    - eapply step_AFwCheck; eauto.
    - eapply step_AFwSend; eauto.
  Qed.

  (* repaired tree: every schedule, Close at every moment *)
  Theorem group_no_panic_fixed : forall c l s, elock c = true -> run (step c) (init c) l = Some s -> panic s = false.
  Proof.
    intros c l s E H. apply b2n_0. apply (@i_panic s).
    apply (reach_inv (step c) Inv (init c)); [apply inv_init | | now exists l].
    intros s0 a s1 I S. eapply inv_step; eauto.
  Qed.

  (* pinned tree: schedules in which close(c.errors) never happens while a forwarder is inside handleError *)
  Fixpoint avoids (c : cfg) (s : st) (l : list act) : Prop :=
    match l with
    | [] => True
    | a :: r => ~ racy s a /\ match step c s a with Some s' => avoids c s' r | None => True end
    end.

  Lemma avoids_inv c : forall l s s', Inv s -> avoids c s l -> run (step c) s l = Some s' -> Inv s'.
  Proof.
    induction l as [|a l IH]; intros s s' I A H; cbn in *.
    - now injection H as <-.
    - destruct A as [A1 A2]. destruct (step c s a) as [s1|] eqn:E; [|discriminate].
      eapply IH; [|exact A2|exact H]. eapply inv_step; eauto.
  Qed.

  Theorem group_no_panic_partial : forall c l s, avoids c (init c) l -> run (step c) (init c) l = Some s -> panic s = false.
  Proof.
    intros c l s A H. apply b2n_0. apply (@i_panic s). eapply avoids_inv; eauto. apply inv_init.
  Qed.

  (* pinned tree: the full statement is false — a forwarder passes handleError's closed check, Close runs to
     completion of close(c.errors), the forwarder sends *)
  Definition racy_cfg : cfg :=
    {| ret_err := true; ecap := 1; nclaims := 1; retry := 1; elock := false; hctx := false; fuel0 := 5; work0 := 5; max_calls := 2; max_consume := 2 |}.
  Definition racy_schedule : list act :=
    [ACCall; ACLock; ACRefresh true; ACJoin JOk; ACSetup SOk;      (* a session with one claim is running *)
     AFwCheck;                                                       (* a forwarder passes `select { case <-c.closed ... default }` *)
     AKCall; AKCloseCh;                                              (* Close: close(c.closed) *)
     AGStart; AGDefer;                                               (* the claim's goroutine sees closed and leaves *)
     ALNet true; ALStop; ALExit;                                     (* partition-count loop sees closed: cancel *)
     ACCtxDone; ACRel1; ACRelWait; ACRel2 false; ACRel3;             (* Consume: release *)
     AHNet HbOk; AHDying; AHExit; ACRel4; ACRet 0;                   (* heartbeat stops; Consume returns *)
     AKLeaveLock; AKLeaveNet true 0; AKSpawn; AECloseErrs;           (* leave; go close(c.errors) *)
     AFwSend HBuf].                                                  (* the forwarder's `case c.errors <- err` *)

  Theorem group_send_on_closed_refuted :
    exists l s, run (step racy_cfg) (init racy_cfg) l = Some s /\ panic s = true.
  Proof. exists racy_schedule. eexists. split; [vm_compute; reflexivity | reflexivity]. Qed.
End GrpS.
