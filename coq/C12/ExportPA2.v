(* C12 — Print Assumptions of the statements of Export.v, part 2 (see the header of Export.v). *)
From SV Require Import C12.Export.
Redirect "C12/Export_c12_no_double_close" Print Assumptions C12X.c12_no_double_close.
Redirect "C12/Export_c12_closed_after_last_event" Print Assumptions C12X.c12_closed_after_last_event.
Redirect "C12/Export_c12_no_send_on_closed_group_refuted" Print Assumptions C12X.c12_no_send_on_closed_group_refuted.
Redirect "C12/Export_c12_client_broker_terminate" Print Assumptions C12X.c12_client_broker_terminate.
Redirect "C12/Export_c12_broker_done_has_receiver" Print Assumptions C12X.c12_broker_done_has_receiver.
