(* C12 — async producer: the additional invariant Inv4 of ProdTerm.v is preserved by every action ([ProdT.qgo]), part 1. *)
From Coq Require Import List Arith Bool Lia.
From SV Require Import C12.Lts C12.LtsProofs C12.Tac C12.Prod C12.ProdProofs C12.ProdSafety C12.ProdTerm.
Import ListNotations. Import Prod. Import ProdP. Import ProdT.

Lemma q_AInput c s s'  : Inv4 s -> Inv s -> step c s AInput = Some s' -> Inv4 s'.
Proof. intros Q I H. qgo. Qed.
Lemma q_AAsyncClose c s s'  : Inv4 s -> Inv s -> step c s AAsyncClose = Some s' -> Inv4 s'.
Proof. intros Q I H. qgo. Qed.
Lemma q_ASeeClosedErr c s s'  : Inv4 s -> Inv s -> step c s ASeeClosedErr = Some s' -> Inv4 s'.
Proof. intros Q I H. qgo. Qed.
Lemma q_ASeeClosedSucc c s s'  : Inv4 s -> Inv s -> step c s ASeeClosedSucc = Some s' -> Inv4 s'.
Proof. intros Q I H. qgo. Qed.
Lemma q_ACloseSeeClosed c s s'  : Inv4 s -> Inv s -> step c s ACloseSeeClosed = Some s' -> Inv4 s'.
Proof. intros Q I H. qgo. Qed.
Lemma q_ARet c s s' n : Inv4 s -> Inv s -> step c s (ARet n) = Some s' -> Inv4 s'.
Proof. intros Q I H. qgo. Qed.
Lemma q_ASMarker c s s'  : Inv4 s -> Inv s -> step c s ASMarker = Some s' -> Inv4 s'.
Proof. intros Q I H. qgo. Qed.
Lemma q_ASWait c s s'  : Inv4 s -> Inv s -> step c s ASWait = Some s' -> Inv4 s'.
Proof. intros Q I H. qgo. Qed.
Lemma q_ASClient c s s'  : Inv4 s -> Inv s -> step c s ASClient = Some s' -> Inv4 s'.
Proof. intros Q I H. qgo. Qed.
Lemma q_ASCloseIn c s s'  : Inv4 s -> Inv s -> step c s ASCloseIn = Some s' -> Inv4 s'.
Proof. intros Q I H. qgo. Qed.
Lemma q_ASCloseRet c s s'  : Inv4 s -> Inv s -> step c s ASCloseRet = Some s' -> Inv4 s'.
Proof. intros Q I H. qgo. Qed.
Lemma q_ASCloseErr c s s'  : Inv4 s -> Inv s -> step c s ASCloseErr = Some s' -> Inv4 s'.
Proof. intros Q I H. qgo. Qed.
Lemma q_ASCloseSucc c s s'  : Inv4 s -> Inv s -> step c s ASCloseSucc = Some s' -> Inv4 s'.
Proof. intros Q I H. qgo. Qed.
Lemma q_ADErr c s s' k : Inv4 s -> Inv s -> step c s (ADErr k) = Some s' -> Inv4 s'.
Proof. intros Q I H. qgo. Qed.
Lemma q_ADNewTp c s s'  : Inv4 s -> Inv s -> step c s ADNewTp = Some s' -> Inv4 s'.
Proof. intros Q I H. qgo. Qed.
Lemma q_ADFwd c s s' hand : Inv4 s -> Inv s -> step c s (ADFwd hand) = Some s' -> Inv4 s'.
Proof. intros Q I H. qgo. Qed.
Lemma q_ADSeeClosed c s s'  : Inv4 s -> Inv s -> step c s ADSeeClosed = Some s' -> Inv4 s'.
Proof. intros Q I H. qgo. Qed.
Lemma q_ADCloseH c s s'  : Inv4 s -> Inv s -> step c s ADCloseH = Some s' -> Inv4 s'.
Proof. intros Q I H. qgo. Qed.
Lemma q_ARhFeed c s s'  : Inv4 s -> Inv s -> step c s ARhFeed = Some s' -> Inv4 s'.
Proof. intros Q I H. qgo. Qed.
Lemma q_ARhExit c s s'  : Inv4 s -> Inv s -> step c s ARhExit = Some s' -> Inv4 s'.
Proof. intros Q I H. qgo. Qed.
Lemma q_ATTake c s s'  : Inv4 s -> Inv s -> step c s ATTake = Some s' -> Inv4 s'.
Proof. intros Q I H. qgo. Qed.
Lemma q_ATErr c s s' k : Inv4 s -> Inv s -> step c s (ATErr k) = Some s' -> Inv4 s'.
Proof. intros Q I H. qgo. Qed.
Lemma q_ATNewPp c s s'  : Inv4 s -> Inv s -> step c s ATNewPp = Some s' -> Inv4 s'.
Proof. intros Q I H. qgo. Qed.
Lemma q_ATFwd c s s' hand : Inv4 s -> Inv s -> step c s (ATFwd hand) = Some s' -> Inv4 s'.
Proof. intros Q I H. qgo. Qed.
Lemma q_ATSeeClosed c s s'  : Inv4 s -> Inv s -> step c s ATSeeClosed = Some s' -> Inv4 s'.
Proof. intros Q I H. qgo. Qed.
Lemma q_ATCloseH c s s'  : Inv4 s -> Inv s -> step c s ATCloseH = Some s' -> Inv4 s'.
Proof. intros Q I H. qgo. Qed.
Lemma q_APStart c s s'  : Inv4 s -> Inv s -> step c s APStart = Some s' -> Inv4 s'.
Proof. intros Q I H. qgo. Qed.
Lemma q_APTake c s s'  : Inv4 s -> Inv s -> step c s APTake = Some s' -> Inv4 s'.
Proof. intros Q I H. qgo. Qed.
