(* C12 — async producer, simulation by the observer automaton, part 4: one lemma per action, by [ProdSim.sim_go]. *)
From Coq Require Import List Arith Bool Lia.
From SV Require Import C12.Lts C12.LtsProofs C12.Tac C12.Prod C12.ProdProofs C12.ProdSafety C12.ProdSim.
Import ListNotations. Import Prod. Import ProdP. Import ProdSim.

Lemma sim_ARhFeed c s q s'  : R c s q -> step c s ARhFeed = Some s' ->
  match lbl c ARhFeed with None => R c s' q | Some o => exists q', ostep c q o = Some q' /\ R c s' q' end.
Proof. intros HR H. sim_go. Qed.
Lemma sim_ARhExit c s q s'  : R c s q -> step c s ARhExit = Some s' ->
  match lbl c ARhExit with None => R c s' q | Some o => exists q', ostep c q o = Some q' /\ R c s' q' end.
Proof. intros HR H. sim_go. Qed.
Lemma sim_ATTake c s q s'  : R c s q -> step c s ATTake = Some s' ->
  match lbl c ATTake with None => R c s' q | Some o => exists q', ostep c q o = Some q' /\ R c s' q' end.
Proof. intros HR H. sim_go. Qed.
Lemma sim_ATErr c s q s' k : R c s q -> step c s (ATErr k) = Some s' ->
  match lbl c (ATErr k) with None => R c s' q | Some o => exists q', ostep c q o = Some q' /\ R c s' q' end.
Proof. intros HR H. sim_go. Qed.
Lemma sim_ATNewPp c s q s'  : R c s q -> step c s ATNewPp = Some s' ->
  match lbl c ATNewPp with None => R c s' q | Some o => exists q', ostep c q o = Some q' /\ R c s' q' end.
Proof. intros HR H. sim_go. Qed.
Lemma sim_ATFwd c s q s' hand : R c s q -> step c s (ATFwd hand) = Some s' ->
  match lbl c (ATFwd hand) with None => R c s' q | Some o => exists q', ostep c q o = Some q' /\ R c s' q' end.
Proof. intros HR H. sim_go. Qed.
