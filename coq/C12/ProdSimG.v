(* C12 — async producer, simulation by the observer automaton, part 7: one lemma per action, by [ProdSim.sim_go]. *)
From Coq Require Import List Arith Bool Lia.
From SV Require Import C12.Lts C12.LtsProofs C12.Tac C12.Prod C12.ProdProofs C12.ProdSafety C12.ProdSim.
Import ListNotations. Import Prod. Import ProdP. Import ProdSim.

Lemma sim_APFlush c s q s'  : R c s q -> step c s APFlush = Some s' ->
  match lbl c APFlush with None => R c s' q | Some o => exists q', ostep c q o = Some q' /\ R c s' q' end.
Proof. intros HR H. sim_go. Qed.
Lemma sim_APSeeClosed c s q s'  : R c s q -> step c s APSeeClosed = Some s' ->
  match lbl c APSeeClosed with None => R c s' q | Some o => exists q', ostep c q o = Some q' /\ R c s' q' end.
Proof. intros HR H. sim_go. Qed.
Lemma sim_APExit c s q s'  : R c s q -> step c s APExit = Some s' ->
  match lbl c APExit with None => R c s' q | Some o => exists q', ostep c q o = Some q' /\ R c s' q' end.
Proof. intros HR H. sim_go. Qed.
Lemma sim_ABSyn c s q s'  : R c s q -> step c s ABSyn = Some s' ->
  match lbl c ABSyn with None => R c s' q | Some o => exists q', ostep c q o = Some q' /\ R c s' q' end.
Proof. intros HR H. sim_go. Qed.
Lemma sim_ABKeep c s q s'  : R c s q -> step c s ABKeep = Some s' ->
  match lbl c ABKeep with None => R c s' q | Some o => exists q', ostep c q o = Some q' /\ R c s' q' end.
Proof. intros HR H. sim_go. Qed.
Lemma sim_ABNeedSpace c s q s'  : R c s q -> step c s ABNeedSpace = Some s' ->
  match lbl c ABNeedSpace with None => R c s' q | Some o => exists q', ostep c q o = Some q' /\ R c s' q' end.
Proof. intros HR H. sim_go. Qed.
