(* C12 — partition consumer: the measure of PConsMeasure.v decreases with every action once dying is closed, part 4 ([PCM.pmgo]). *)
From Coq Require Import List Arith Bool Lia.
From SV Require Import C12.Lts C12.LtsProofs C12.Tac C12.PCons C12.PConsProofs C12.PConsSafety C12.PConsMeasure.
Import ListNotations. Import PC. Import PCP. Import PCM.

Lemma m_ASCUpdClose c s s'  : Inv s -> dying (ch s) = true -> step c s ASCUpdClose = Some s' -> lt2 (mu c s') (mu c s).
Proof. intros I P H. pmgo. Qed.
Lemma m_ASCLen c s s'  : Inv s -> dying (ch s) = true -> step c s ASCLen = Some s' -> lt2 (mu c s') (mu c s).
Proof. intros I P H. pmgo. Qed.
Lemma m_ASCFetch c s s' ok : Inv s -> dying (ch s) = true -> step c s (ASCFetch ok) = Some s' -> lt2 (mu c s') (mu c s).
Proof. intros I P H. pmgo. Qed.
Lemma m_ASCFeed c s s'  : Inv s -> dying (ch s) = true -> step c s ASCFeed = Some s' -> lt2 (mu c s') (mu c s).
Proof. intros I P H. pmgo. Qed.
Lemma m_ASCAcks c s s'  : Inv s -> dying (ch s) = true -> step c s ASCAcks = Some s' -> lt2 (mu c s') (mu c s).
Proof. intros I P H. pmgo. Qed.
Lemma m_ASCHandle c s s' moved : Inv s -> dying (ch s) = true -> step c s (ASCHandle moved) = Some s' -> lt2 (mu c s') (mu c s).
Proof. intros I P H. pmgo. Qed.
Lemma m_ASCHErr c s s' hand : Inv s -> dying (ch s) = true -> step c s (ASCHErr hand) = Some s' -> lt2 (mu c s') (mu c s).
Proof. intros I P H. pmgo. Qed.
Lemma m_ASCHTok c s s'  : Inv s -> dying (ch s) = true -> step c s ASCHTok = Some s' -> lt2 (mu c s') (mu c s).
Proof. intros I P H. pmgo. Qed.
Lemma m_ASCHClose c s s'  : Inv s -> dying (ch s) = true -> step c s ASCHClose = Some s' -> lt2 (mu c s') (mu c s).
Proof. intros I P H. pmgo. Qed.
Lemma m_ASCAbort c s s'  : Inv s -> dying (ch s) = true -> step c s ASCAbort = Some s' -> lt2 (mu c s') (mu c s).
Proof. intros I P H. pmgo. Qed.
Lemma m_ASCAbErr c s s' hand : Inv s -> dying (ch s) = true -> step c s (ASCAbErr hand) = Some s' -> lt2 (mu c s') (mu c s).
Proof. intros I P H. pmgo. Qed.
Lemma m_ASCAbTok c s s'  : Inv s -> dying (ch s) = true -> step c s ASCAbTok = Some s' -> lt2 (mu c s') (mu c s).
Proof. intros I P H. pmgo. Qed.
Lemma m_ASCAbNErr c s s' hand : Inv s -> dying (ch s) = true -> step c s (ASCAbNErr hand) = Some s' -> lt2 (mu c s') (mu c s).
Proof. intros I P H. pmgo. Qed.
Lemma m_ASCAbNTok c s s'  : Inv s -> dying (ch s) = true -> step c s ASCAbNTok = Some s' -> lt2 (mu c s') (mu c s).
Proof. intros I P H. pmgo. Qed.
