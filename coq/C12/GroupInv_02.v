(* C12 — preservation of the consumer-group invariant (GroupProofs.Inv), application, Close and Consume actions.
   One lemma per action, by the tactic [GrpP.go] (case analysis of the step, then linear arithmetic). *)
(* part 2 of 2; lemmas packed by proof time so that no file of the family takes much over a minute *)
From Coq Require Import List Arith Bool Lia.
From SV Require Import C12.Lts C12.LtsProofs C12.Tac C12.Group C12.GroupProofs.
Import ListNotations. Import Grp. Import GrpP.

Lemma step_AFwSend c s s' h : Inv s -> step c s (AFwSend h) = Some s' -> Inv s'.
Proof. intros I H. go s H I. Qed.

(* close(c.errors): with errorsLock it waits for everybody inside handleError; without it the step is
   harmless only if no forwarder is between the check and the send *)
Lemma step_AGHe c s s' h : Inv s -> step c s (AGHe h) = Some s' -> Inv s'.
Proof. intros I H. go s H I. Qed.
Lemma step_AHNet c s s' x : Inv s -> step c s (AHNet x) = Some s' -> Inv s'.
Proof. intros I H. go s H I. Qed.
Lemma step_ACJoin c s s' j : Inv s -> step c s (ACJoin j) = Some s' -> Inv s'.
Proof. intros I H. go s H I. Qed.
Lemma step_AKCall c s s'  : Inv s -> step c s AKCall = Some s' -> Inv s'.
Proof. intros I H. go s H I. Qed.
Lemma step_ACRel2 c s s' e : Inv s -> step c s (ACRel2 e) = Some s' -> Inv s'.
Proof. intros I H. go s H I. Qed.
Lemma step_AGRunEnd c s s' err : Inv s -> step c s (AGRunEnd err) = Some s' -> Inv s'.
Proof. intros I H. go s H I. Qed.
Lemma step_AGNew c s s' ok : Inv s -> step c s (AGNew ok) = Some s' -> Inv s'.
Proof. intros I H. go s H I. Qed.
Lemma step_AHTick c s s'  : Inv s -> step c s AHTick = Some s' -> Inv s'.
Proof. intros I H. go s H I. Qed.
Lemma step_AHBackTimer c s s'  : Inv s -> step c s AHBackTimer = Some s' -> Inv s'.
Proof. intros I H. go s H I. Qed.
Lemma step_AGWaitErr c s s'  : Inv s -> step c s AGWaitErr = Some s' -> Inv s'.
Proof. intros I H. go s H I. Qed.
Lemma step_AFwCheck c s s'  : Inv s -> step c s AFwCheck = Some s' -> Inv s'.
Proof. intros I H. go s H I. Qed.
Lemma step_ALTick c s s'  : Inv s -> step c s ALTick = Some s' -> Inv s'.
Proof. intros I H. go s H I. Qed.
Lemma step_AGStart c s s'  : Inv s -> step c s AGStart = Some s' -> Inv s'.
Proof. intros I H. go s H I. Qed.
Lemma step_ACBackTimer c s s'  : Inv s -> step c s ACBackTimer = Some s' -> Inv s'.
Proof. intros I H. go s H I. Qed.
Lemma step_AKLeaveLock c s s'  : Inv s -> step c s AKLeaveLock = Some s' -> Inv s'.
Proof. intros I H. go s H I. Qed.
Lemma step_AKLeaveNet c s s' ok r : Inv s -> step c s (AKLeaveNet ok r) = Some s' -> Inv s'.
Proof. intros I H. go s H I. Qed.
Lemma step_ACCall c s s'  : Inv s -> step c s ACCall = Some s' -> Inv s'.
Proof. intros I H. go s H I. Qed.
Lemma step_AGDefer c s s'  : Inv s -> step c s AGDefer = Some s' -> Inv s'.
Proof. intros I H. go s H I. Qed.
Lemma step_ALNet c s s' same : Inv s -> step c s (ALNet same) = Some s' -> Inv s'.
Proof. intros I H. go s H I. Qed.
Lemma step_ACRel3 c s s'  : Inv s -> step c s ACRel3 = Some s' -> Inv s'.
Proof. intros I H. go s H I. Qed.
Lemma step_ACRefresh c s s' ok : Inv s -> step c s (ACRefresh ok) = Some s' -> Inv s'.
Proof. intros I H. go s H I. Qed.
Lemma step_AHExit c s s'  : Inv s -> step c s AHExit = Some s' -> Inv s'.
Proof. intros I H. go s H I. Qed.
Lemma step_AHBackDying c s s'  : Inv s -> step c s AHBackDying = Some s' -> Inv s'.
Proof. intros I H. go s H I. Qed.
Lemma step_ALExit c s s'  : Inv s -> step c s ALExit = Some s' -> Inv s'.
Proof. intros I H. go s H I. Qed.
Lemma step_ACRet c s s' r : Inv s -> step c s (ACRet r) = Some s' -> Inv s'.
Proof. intros I H. go s H I. Qed.
Lemma step_ASeeClosed c s s'  : Inv s -> step c s ASeeClosed = Some s' -> Inv s'.
Proof. intros I H. go s H I. Qed.
Lemma step_ARecvErr c s s'  : Inv s -> step c s ARecvErr = Some s' -> Inv s'.
Proof. intros I H. go s H I. Qed.
Lemma step_AGWaitEnd c s s'  : Inv s -> step c s AGWaitEnd = Some s' -> Inv s'.
Proof. intros I H. go s H I. Qed.
Lemma step_AKDrainRecv c s s'  : Inv s -> step c s AKDrainRecv = Some s' -> Inv s'.
Proof. intros I H. go s H I. Qed.
Lemma step_AKCloseCh c s s'  : Inv s -> step c s AKCloseCh = Some s' -> Inv s'.
Proof. intros I H. go s H I. Qed.
Lemma step_AHDying c s s'  : Inv s -> step c s AHDying = Some s' -> Inv s'.
Proof. intros I H. go s H I. Qed.
Lemma step_ACRel1 c s s'  : Inv s -> step c s ACRel1 = Some s' -> Inv s'.
Proof. intros I H. go s H I. Qed.
Lemma step_AKRet c s s' r : Inv s -> step c s (AKRet r) = Some s' -> Inv s'.
Proof. intros I H. go s H I. Qed.
Lemma step_ACRelWait c s s'  : Inv s -> step c s ACRelWait = Some s' -> Inv s'.
Proof. intros I H. go s H I. Qed.
Lemma step_AKClient c s s' r : Inv s -> step c s (AKClient r) = Some s' -> Inv s'.
Proof. intros I H. go s H I. Qed.
Lemma step_ACRel4 c s s'  : Inv s -> step c s ACRel4 = Some s' -> Inv s'.
Proof. intros I H. go s H I. Qed.
Lemma step_ACBackClosed c s s'  : Inv s -> step c s ACBackClosed = Some s' -> Inv s'.
Proof. intros I H. go s H I. Qed.
Lemma step_ALStop c s s'  : Inv s -> step c s ALStop = Some s' -> Inv s'.
Proof. intros I H. go s H I. Qed.
Lemma step_ACCtxDone c s s'  : Inv s -> step c s ACCtxDone = Some s' -> Inv s'.
Proof. intros I H. go s H I. Qed.
Lemma step_AKSpawn c s s'  : Inv s -> step c s AKSpawn = Some s' -> Inv s'.
Proof. intros I H. go s H I. Qed.
Lemma step_AKDrainEnd c s s'  : Inv s -> step c s AKDrainEnd = Some s' -> Inv s'.
Proof. intros I H. go s H I. Qed.
Lemma step_ACLock c s s'  : Inv s -> step c s ACLock = Some s' -> Inv s'.
Proof. intros I H. go s H I. Qed.
