(* C12 — shutdown model of a partition consumer and the broker worker it is subscribed to
   (consumer.go: AsyncClose, Close, dispatcher, responseFeeder, subscriptionManager,
   subscriptionConsumer, updateSubscriptions, handleResponses, abort, ref/unrefBrokerConsumer).
   Definitions only.

   Goroutines: D = child.dispatcher, F = child.responseFeeder, SM = bc.subscriptionManager,
   SC = bc.subscriptionConsumer, plus the application.  Channels: dying (closed by AsyncClose under
   closeOnce), trigger (cap 1), feeder (cap 1), messages / errors (cap ChannelBufferSize), bc.input,
   bc.newSubscriptions, bc.wait (unbuffered).  One partition consumer per broker worker (sharing a
   worker only adds the acks.Wait coupling; reference counting for any number of holders is the
   separate model Refs.v).  When the dispatcher re-subscribes after having dropped its reference, the
   old worker is retired (its input is closed, it no longer knows the child) and a fresh worker takes its
   place in the state; a retired worker's own run-down is the same SM/SC code started from a state
   without subscription.

   The child is "owned" by exactly one party: D (holding a trigger token), the trigger buffer, SM's
   buffer, SC's subscription map, or F between an expired hand-over and its re-subscription. Only the
   owner closes trigger or puts a token in. *)
From Coq Require Import List Arith Bool.
From SV Require Import C12.Lts.
Import ListNotations.

Module PC.
  Record cfg := {
    ret_err : bool;       (* Consumer.Return.Errors *)
    cap : nat;            (* ChannelBufferSize: capacity of messages and errors *)
    maxb : nat;           (* most messages one fetch response carries for the partition *)
    fuel0 : nat;          (* fairness: how often D's select prefers the back-off timer although dying is closed *)
    max_calls : nat }.    (* AsyncClose / Close calls the application makes *)

  (* what the feeder leaves for the broker worker in child.responseResult *)
  Inductive rr := RNone | RTimedOut | ROOR | RRedispatch | ROther.

  Inductive dpc :=
  | DWait        (* for range child.trigger *)
  | DSel         (* select { <-dying ; <-time.After(backoff) } *)
  | DUnref       (* if child.broker != nil { unref; broker = nil } *)
  | DNet         (* dispatch(): RefreshMetadata, preferredBroker (network) *)
  | DSub         (* child.broker.input <- child *)
  | DErr         (* sendError(err) *)
  | DTok         (* child.trigger <- none{} *)
  | DExit        (* loop left: unref, removeChild *)
  | DCloseF      (* close(child.feeder) *)
  | DDone.

  Inductive fpc :=
  | FWait                          (* for response := range child.feeder *)
  | FParseErr                      (* parseResponse: sendError(ErrMessageTooLarge) *)
  | FMsgs (n : nat) (first : bool) (* select { <-dying ; messages <- msg ; <-expiryTicker.C }, n messages left *)
  | FLimbo (n : nat)               (* expired: acks.Done() done; select { messages <- msg ; <-dying } over the rest *)
  | FResub                         (* child.broker.input <- child *)
  | FAck                           (* child.broker.acks.Done() *)
  | FCloseM | FCloseE | FDone.

  Inductive smpc := SMLoop | SMCloseWait | SMFlush | SMCloseNS | SMDone.

  Inductive scpc :=
  | SCFirst                  (* <-bc.wait (first piece of work) *)
  | SCRange                  (* for newSubscriptions := range bc.newSubscriptions *)
  | SCUpd                    (* updateSubscriptions: select { <-child.dying ... default } *)
  | SCUpdClose               (* close(child.trigger); delete(subscriptions, child) *)
  | SCLen                    (* len(subscriptions) == 0 ? *)
  | SCIdle                   (* <-bc.wait; continue *)
  | SCFetch                  (* fetchNewMessages (network) *)
  | SCFeed                   (* acks.Add; child.feeder <- response *)
  | SCAcks                   (* acks.Wait() *)
  | SCHandle                 (* handleResponses: read child.responseResult *)
  | SCHErr (oor : bool)      (* child.sendError(result) *)
  | SCHTok                   (* child.trigger <- none{}; delete *)
  | SCHClose                 (* close(child.trigger); delete  (offset out of range) *)
  | SCAbort                  (* abort: abandonBrokerConsumer; broker.Close() *)
  | SCAbErr | SCAbTok        (* abort, for the subscribed child: sendError; trigger <- none{} *)
  | SCAbLoop                 (* abort: for newSubscriptions := range bc.newSubscriptions *)
  | SCAbWait                 (* abort: <-bc.wait; continue *)
  | SCAbNErr | SCAbNTok      (* abort, for a child of a new batch *)
  | SCDone.

  (* how a send completes: into a free buffer slot, directly into the hands of the receiving application
     (unbuffered or empty channel), or directly into the hands of the application's draining Close() *)
  Inductive hnd := HBuf | HApp | HClose.

  (* the application's Close() (AsyncClose; for err := range child.errors; return) *)
  Inductive apc := ApIdle | ApDrain (n : nat) | ApRet (n : nat).

  Record chs := {
    dying : bool;           (* closed *)
    once : bool;            (* closeOnce consumed *)
    trig_closed : bool; trig_tok : bool;
    feed_closed : bool; feed_full : bool;
    msgs : chan; errs : chan;
    seen_m : bool; seen_e : bool }.   (* the application has observed the close *)

  Record wk := {
    refs : nat;             (* bc.refs *)
    in_closed : bool;       (* bc.input closed *)
    sm : smpc;
    buf : bool;             (* SM's buffer holds the child *)
    wait_closed : bool;
    ns_closed : bool;
    sc : scpc;
    subs : bool;            (* the child is in bc.subscriptions *)
    acks : nat }.           (* bc.acks counter *)

  Record st := {
    ch : chs;
    dp : dpc;
    has_broker : bool;      (* child.broker != nil (a reference on the worker is held) *)
    fp : fpc;
    rres : rr;              (* child.responseResult *)
    w : wk;
    ap : apc;
    calls : nat;
    fuel : nat;
    panic : bool }.

  Definition ch_init : chs :=
    {| dying := false; once := false; trig_closed := false; trig_tok := false; feed_closed := false; feed_full := false;
       msgs := ch0; errs := ch0; seen_m := false; seen_e := false |}.
  (* a fresh worker on which the child holds the only reference; [b] = the child is already in SM's buffer *)
  Definition wk_fresh (b : bool) : wk :=
    {| refs := 1; in_closed := false; sm := SMLoop; buf := b; wait_closed := false; ns_closed := false;
       sc := SCFirst; subs := false; acks := 0 |}.

  (* ConsumePartition has returned: goroutines started, child handed to the worker's input *)
  Definition init (c : cfg) : st :=
    {| ch := ch_init; dp := DWait; has_broker := true; fp := FWait; rres := RNone; w := wk_fresh true;
       ap := ApIdle; calls := 0; fuel := fuel0 c; panic := false |}.

  (* ---- setters ---- *)
  Definition mk (s : st) ch' dp' hb' fp' rr' w' ap' n' f' pn' : st :=
    {| ch := ch'; dp := dp'; has_broker := hb'; fp := fp'; rres := rr'; w := w'; ap := ap'; calls := n'; fuel := f'; panic := pn' |}.
  Definition with_ch (s : st) x (pn : bool) := mk s x (dp s) (has_broker s) (fp s) (rres s) (w s) (ap s) (calls s) (fuel s) (panic s || pn).
  Definition with_dp (s : st) x := mk s (ch s) x (has_broker s) (fp s) (rres s) (w s) (ap s) (calls s) (fuel s) (panic s).
  Definition with_fp (s : st) x := mk s (ch s) (dp s) (has_broker s) x (rres s) (w s) (ap s) (calls s) (fuel s) (panic s).
  Definition with_w (s : st) x := mk s (ch s) (dp s) (has_broker s) (fp s) (rres s) x (ap s) (calls s) (fuel s) (panic s).
  Definition with_ap (s : st) x := mk s (ch s) (dp s) (has_broker s) (fp s) (rres s) (w s) x (calls s) (fuel s) (panic s).
  Definition with_rr (s : st) x := mk s (ch s) (dp s) (has_broker s) (fp s) x (w s) (ap s) (calls s) (fuel s) (panic s).
  Definition with_panic (s : st) (pn : bool) := mk s (ch s) (dp s) (has_broker s) (fp s) (rres s) (w s) (ap s) (calls s) (fuel s) (panic s || pn).

  Definition c_dying (x : chs) := {| dying := true; once := true; trig_closed := trig_closed x; trig_tok := trig_tok x;
    feed_closed := feed_closed x; feed_full := feed_full x; msgs := msgs x; errs := errs x; seen_m := seen_m x; seen_e := seen_e x |}.
  Definition c_trig (x : chs) (cl tk : bool) := {| dying := dying x; once := once x; trig_closed := cl; trig_tok := tk;
    feed_closed := feed_closed x; feed_full := feed_full x; msgs := msgs x; errs := errs x; seen_m := seen_m x; seen_e := seen_e x |}.
  Definition c_feed (x : chs) (cl fl : bool) := {| dying := dying x; once := once x; trig_closed := trig_closed x; trig_tok := trig_tok x;
    feed_closed := cl; feed_full := fl; msgs := msgs x; errs := errs x; seen_m := seen_m x; seen_e := seen_e x |}.
  Definition c_msgs (x : chs) (m : chan) := {| dying := dying x; once := once x; trig_closed := trig_closed x; trig_tok := trig_tok x;
    feed_closed := feed_closed x; feed_full := feed_full x; msgs := m; errs := errs x; seen_m := seen_m x; seen_e := seen_e x |}.
  Definition c_errs (x : chs) (e : chan) := {| dying := dying x; once := once x; trig_closed := trig_closed x; trig_tok := trig_tok x;
    feed_closed := feed_closed x; feed_full := feed_full x; msgs := msgs x; errs := e; seen_m := seen_m x; seen_e := seen_e x |}.
  Definition c_seen (x : chs) (m e : bool) := {| dying := dying x; once := once x; trig_closed := trig_closed x; trig_tok := trig_tok x;
    feed_closed := feed_closed x; feed_full := feed_full x; msgs := msgs x; errs := errs x; seen_m := m; seen_e := e |}.

  Definition w_sm (x : wk) (p : smpc) := {| refs := refs x; in_closed := in_closed x; sm := p; buf := buf x;
    wait_closed := wait_closed x; ns_closed := ns_closed x; sc := sc x; subs := subs x; acks := acks x |}.
  Definition w_sc (x : wk) (p : scpc) := {| refs := refs x; in_closed := in_closed x; sm := sm x; buf := buf x;
    wait_closed := wait_closed x; ns_closed := ns_closed x; sc := p; subs := subs x; acks := acks x |}.
  Definition w_buf (x : wk) (b : bool) := {| refs := refs x; in_closed := in_closed x; sm := sm x; buf := b;
    wait_closed := wait_closed x; ns_closed := ns_closed x; sc := sc x; subs := subs x; acks := acks x |}.
  Definition w_subs (x : wk) (b : bool) := {| refs := refs x; in_closed := in_closed x; sm := sm x; buf := buf x;
    wait_closed := wait_closed x; ns_closed := ns_closed x; sc := sc x; subs := b; acks := acks x |}.
  Definition w_acks (x : wk) (n : nat) := {| refs := refs x; in_closed := in_closed x; sm := sm x; buf := buf x;
    wait_closed := wait_closed x; ns_closed := ns_closed x; sc := sc x; subs := subs x; acks := n |}.
  Definition w_waitc (x : wk) := {| refs := refs x; in_closed := in_closed x; sm := sm x; buf := buf x;
    wait_closed := true; ns_closed := ns_closed x; sc := sc x; subs := subs x; acks := acks x |}.
  Definition w_nsc (x : wk) := {| refs := refs x; in_closed := in_closed x; sm := sm x; buf := buf x;
    wait_closed := wait_closed x; ns_closed := true; sc := sc x; subs := subs x; acks := acks x |}.
  (* unrefBrokerConsumer: refs--; at zero close(bc.input). Returns the worker and "closed a closed channel". *)
  Definition w_unref (x : wk) : wk * bool :=
    match refs x with
    | 1 => ({| refs := 0; in_closed := true; sm := sm x; buf := buf x; wait_closed := wait_closed x;
               ns_closed := ns_closed x; sc := sc x; subs := subs x; acks := acks x |}, in_closed x)
    | n => ({| refs := pred n; in_closed := in_closed x; sm := sm x; buf := buf x; wait_closed := wait_closed x;
               ns_closed := ns_closed x; sc := sc x; subs := subs x; acks := acks x |}, false)
    end.

  Inductive act :=
  (* application *)
  | AAsyncClose                 (* AsyncClose(): closeOnce.Do(close(dying)) *)
  | ACloseCall                  (* Close(): AsyncClose, then drains errors *)
  | ACloseRecv                  (* Close() receives a buffered error *)
  | ACloseSeeClosed             (* Close(): errors closed -> returns *)
  | ARet (n : nat)              (* the application sees Close return with n errors *)
  | ARecvMsg | ARecvErr         (* the application receives a buffered message / error *)
  | ASeeClosedM | ASeeClosedE
  (* dispatcher *)
  | ADTake | ADSeeClosed | ADDying | ADTimer | ADUnref | ADNet (ok : bool) | ADSub
  | ADErr (hand : hnd) | ADTok | ADExit | ADCloseF
  (* feeder *)
  | AFTake (o : rr) (n : nat) (toolarge : bool) | AFSeeClosed
  | AFPErr (hand : hnd)
  | AFDying | AFSend (hand : bool) | AFTick
  | AFLSend (hand : bool) | AFLDying | AFLEnd
  | AFResub | AFAck | AFCloseM | AFCloseE
  (* subscription manager *)
  | ASMSeeClosed | ASMGive | ASMWait | ASMCloseWait | ASMFlush | ASMCloseNS
  (* subscription consumer *)
  | ASCWaitClosed | ASCRangeClosed | ASCUpd | ASCUpdClose | ASCLen
  | ASCFetch (ok : bool) | ASCFeed | ASCAcks | ASCHandle (moved : bool)
  | ASCHErr (hand : hnd) | ASCHTok | ASCHClose
  | ASCAbort | ASCAbErr (hand : hnd) | ASCAbTok | ASCAbNErr (hand : hnd) | ASCAbNTok.

  (* sendError: if Return.Errors, errors <- err (needs a slot, or a receiver taking it directly);
     otherwise only logged (modelled as HBuf without effect).
     Result: new channel state, new Close() state and "sent on a closed channel". None = blocked. *)
  Definition draining (s : st) : bool := match ap s with ApDrain _ => true | _ => false end.
  Definition send_err (c : cfg) (s : st) (hand : hnd) : option (chs * apc * bool) :=
    if ret_err c then
      match hand with
      | HBuf => if len (errs (ch s)) <? cap c
                then Some (c_errs (ch s) (ch_push (errs (ch s))), ap s, closed (errs (ch s))) else None
      | HApp => match ap s with
                | ApIdle => if len (errs (ch s)) =? 0 then Some (ch s, ap s, closed (errs (ch s))) else None
                | _ => None
                end
      | HClose => match ap s with
                  | ApDrain n => if len (errs (ch s)) =? 0 then Some (ch s, ApDrain (S n), closed (errs (ch s))) else None
                  | _ => None
                  end
      end
    else match hand with HBuf => Some (ch s, ap s, false) | _ => None end.

  (* parseResponse outcomes: messages (at most maxb) only without an error; ErrMessageTooLarge is sent
     from inside parseResponse and leaves no messages and no error for the worker; errTimedOut is set by
     the expiry path only *)
  Definition parse_ok (c : cfg) (o : rr) (n : nat) (toolarge : bool) : bool :=
    match o with
    | RNone => (n <=? maxb c) && (negb toolarge || (n =? 0))
    | RTimedOut => false
    | _ => (n =? 0) && negb toolarge
    end.

  (* messages <- msg *)
  Definition send_msg (c : cfg) (s : st) (hand : bool) : option (chs * bool) :=
    if hand then if len (msgs (ch s)) =? 0 then Some (ch s, closed (msgs (ch s))) else None
    else if len (msgs (ch s)) <? cap c then Some (c_msgs (ch s) (ch_push (msgs (ch s))), closed (msgs (ch s)))
    else None.

  (* child.trigger <- none{} *)
  Definition put_token (x : chs) : option (chs * bool) :=
    if trig_closed x then Some (x, true)
    else if trig_tok x then None
    else Some (c_trig x false true, false).

  Definition step (c : cfg) (s : st) (a : act) : option st :=
    let x := ch s in
    let wk0 := w s in
    match a with
    (* ---------------- application ---------------- *)
    | AAsyncClose =>
      if negb (calls s <? max_calls c) then None else
      if once x then Some (mk s x (dp s) (has_broker s) (fp s) (rres s) wk0 (ap s) (S (calls s)) (fuel s) (panic s))
      else Some (mk s (c_dying x) (dp s) (has_broker s) (fp s) (rres s) wk0 (ap s) (S (calls s)) (fuel s) (panic s || dying x))
    | ACloseCall =>
      match ap s with
      | ApIdle =>
        if negb (calls s <? max_calls c) then None else
        if once x then Some (mk s x (dp s) (has_broker s) (fp s) (rres s) wk0 (ApDrain 0) (S (calls s)) (fuel s) (panic s))
        else Some (mk s (c_dying x) (dp s) (has_broker s) (fp s) (rres s) wk0 (ApDrain 0) (S (calls s)) (fuel s) (panic s || dying x))
      | _ => None
      end
    | ACloseRecv =>
      match ap s, len (errs x) with
      | ApDrain n, S _ => Some (mk s (c_errs x (ch_pop (errs x))) (dp s) (has_broker s) (fp s) (rres s) wk0 (ApDrain (S n)) (calls s) (fuel s) (panic s))
      | _, _ => None
      end
    | ACloseSeeClosed =>
      match ap s with
      | ApDrain n => if closed (errs x) && (len (errs x) =? 0) then Some (with_ap s (ApRet n)) else None
      | _ => None
      end
    | ARet n => match ap s with ApRet m => if n =? m then Some (with_ap s ApIdle) else None | _ => None end
    | ARecvMsg => match len (msgs x) with S _ => Some (with_ch s (c_msgs x (ch_pop (msgs x))) false) | 0 => None end
    | ARecvErr =>
      (* the application itself reads Errors() only while none of its Close() calls is in progress *)
      match ap s, len (errs x) with
      | ApIdle, S _ => Some (with_ch s (c_errs x (ch_pop (errs x))) false)
      | _, _ => None
      end
    | ASeeClosedM => if closed (msgs x) && (len (msgs x) =? 0) && negb (seen_m x)
                     then Some (with_ch s (c_seen x true (seen_e x)) false) else None
    | ASeeClosedE => if closed (errs x) && (len (errs x) =? 0) && negb (seen_e x)
                     then match ap s with ApIdle => Some (with_ch s (c_seen x (seen_m x) true) false) | _ => None end
                     else None
    (* ---------------- dispatcher ---------------- *)
    | ADTake => match dp s with
                | DWait => if trig_tok x then Some (mk s (c_trig x (trig_closed x) false) DSel (has_broker s) (fp s) (rres s) wk0 (ap s) (calls s) (fuel s) (panic s))
                           else None
                | _ => None end
    | ADSeeClosed => match dp s with
                     | DWait => if trig_closed x && negb (trig_tok x) then Some (with_dp s DExit) else None
                     | _ => None end
    | ADDying => match dp s with
                 | DSel => if dying x
                           then Some (mk s (c_trig x true (trig_tok x)) DWait (has_broker s) (fp s) (rres s) wk0 (ap s) (calls s) (fuel s) (panic s || trig_closed x))
                           else None
                 | _ => None end
    | ADTimer => match dp s with
                 | DSel => if dying x
                           then match fuel s with
                                | 0 => None
                                | S f => Some (mk s x DUnref (has_broker s) (fp s) (rres s) wk0 (ap s) (calls s) f (panic s))
                                end
                           else Some (with_dp s DUnref)
                 | _ => None end
    | ADUnref => match dp s with
                 | DUnref => if has_broker s
                             then let '(w', dbl) := w_unref wk0 in
                                  Some (mk s x DNet false (fp s) (rres s) w' (ap s) (calls s) (fuel s) (panic s || dbl))
                             else Some (with_dp s DNet)
                 | _ => None end
    | ADNet ok => match dp s with
                  | DNet => if ok
                            then (* refBrokerConsumer: the worker found or made for the broker; the child's previous
                                    worker was retired at ADUnref, so it is a fresh one *)
                                 Some (mk s x DSub true (fp s) (rres s) (wk_fresh false) (ap s) (calls s) (fuel s) (panic s))
                            else Some (with_dp s DErr)
                  | _ => None end
    | ADSub => match dp s, sm wk0 with
               | DSub, SMLoop => Some (mk s x DWait (has_broker s) (fp s) (rres s) (w_buf wk0 true) (ap s) (calls s) (fuel s) (panic s || in_closed wk0))
               | _, _ => None end
    | ADErr hand => match dp s with
                    | DErr => match send_err c s hand with
                              | Some (x', ap', bad) => Some (mk s x' DTok (has_broker s) (fp s) (rres s) wk0 ap' (calls s) (fuel s) (panic s || bad))
                              | None => None end
                    | _ => None end
    | ADTok => match dp s with
               | DTok => match put_token x with
                         | Some (x', bad) => Some (mk s x' DWait (has_broker s) (fp s) (rres s) wk0 (ap s) (calls s) (fuel s) (panic s || bad))
                         | None => None end
               | _ => None end
    | ADExit => match dp s with
                | DExit => if has_broker s
                           then let '(w', dbl) := w_unref wk0 in
                                Some (mk s x DCloseF false (fp s) (rres s) w' (ap s) (calls s) (fuel s) (panic s || dbl))
                           else Some (with_dp s DCloseF)
                | _ => None end
    | ADCloseF => match dp s with
                  | DCloseF => Some (mk s (c_feed x true (feed_full x)) DDone (has_broker s) (fp s) (rres s) wk0 (ap s) (calls s) (fuel s) (panic s || feed_closed x))
                  | _ => None end
    (* ---------------- feeder ---------------- *)
    | AFTake o n toolarge =>
      match fp s with
      | FWait =>
        if feed_full x && parse_ok c o n toolarge then
          let next := if toolarge then FParseErr else match n with 0 => FAck | _ => FMsgs n true end in
          Some (mk s (c_feed x (feed_closed x) false) (dp s) (has_broker s) next o wk0 (ap s) (calls s) (fuel s) (panic s))
        else None
      | _ => None
      end
    | AFSeeClosed => match fp s with
                     | FWait => if feed_closed x && negb (feed_full x) then Some (with_fp s FCloseM) else None
                     | _ => None end
    | AFPErr hand => match fp s with
                     | FParseErr => match send_err c s hand with
                                    | Some (x', ap', bad) => Some (mk s x' (dp s) (has_broker s) FAck (rres s) wk0 ap' (calls s) (fuel s) (panic s || bad))
                                    | None => None end
                     | _ => None end
    | AFDying => match fp s with
                 | FMsgs _ _ => if dying x
                                then Some (mk s x (dp s) (has_broker s) FWait (rres s) (w_acks wk0 (pred (acks wk0))) (ap s) (calls s) (fuel s)
                                              (panic s || (acks wk0 =? 0)))
                                else None
                 | _ => None end
    | AFSend hand => match fp s with
                     | FMsgs (S n) _ => match send_msg c s hand with
                                        | Some (x', bad) => Some (mk s x' (dp s) (has_broker s) (match n with 0 => FAck | _ => FMsgs n true end)
                                                                     (rres s) wk0 (ap s) (calls s) (fuel s) (panic s || bad))
                                        | None => None end
                     | _ => None end
    | AFTick => match fp s with
                | FMsgs n true => Some (with_fp s (FMsgs n false))
                | FMsgs n false =>
                  (* child.responseResult = errTimedOut; acks.Done() *)
                  Some (mk s x (dp s) (has_broker s) (FLimbo n) RTimedOut (w_acks wk0 (pred (acks wk0))) (ap s) (calls s) (fuel s)
                           (panic s || (acks wk0 =? 0)))
                | _ => None end
    | AFLSend hand => match fp s with
                      | FLimbo (S n) => match send_msg c s hand with
                                        | Some (x', bad) => Some (mk s x' (dp s) (has_broker s) (FLimbo n) (rres s) wk0 (ap s) (calls s) (fuel s) (panic s || bad))
                                        | None => None end
                      | _ => None end
    | AFLDying => match fp s with
                  | FLimbo (S _) => if dying x then Some (with_fp s FResub) else None
                  | _ => None end
    | AFLEnd => match fp s with FLimbo 0 => Some (with_fp s FResub) | _ => None end
    | AFResub => match fp s, sm wk0 with
                 | FResub, SMLoop => Some (mk s x (dp s) (has_broker s) FWait (rres s) (w_buf wk0 true) (ap s) (calls s) (fuel s) (panic s || in_closed wk0))
                 | _, _ => None end
    | AFAck => match fp s with
               | FAck => Some (mk s x (dp s) (has_broker s) FWait (rres s) (w_acks wk0 (pred (acks wk0))) (ap s) (calls s) (fuel s)
                                  (panic s || (acks wk0 =? 0)))
               | _ => None end
    | AFCloseM => match fp s with
                  | FCloseM => Some (mk s (c_msgs x (ch_close (msgs x))) (dp s) (has_broker s) FCloseE (rres s) wk0 (ap s) (calls s) (fuel s) (panic s || closed (msgs x)))
                  | _ => None end
    | AFCloseE => match fp s with
                  | FCloseE => Some (mk s (c_errs x (ch_close (errs x))) (dp s) (has_broker s) FDone (rres s) wk0 (ap s) (calls s) (fuel s) (panic s || closed (errs x)))
                  | _ => None end
    (* ---------------- subscription manager ---------------- *)
    | ASMSeeClosed => match sm wk0 with
                      | SMLoop => if in_closed wk0 then Some (with_w s (w_sm wk0 SMCloseWait)) else None
                      | _ => None end
    | ASMGive =>
      (* bc.newSubscriptions <- buffer (or nil), received by SC's range (main loop or abort loop) *)
      match sm wk0, sc wk0 with
      | SMLoop, SCRange =>
        Some (with_w s (w_sc (w_subs (w_buf wk0 false) (subs wk0 || buf wk0)) SCUpd))
      | SMLoop, SCAbLoop =>
        Some (with_w s (w_sc (w_buf wk0 false) (if buf wk0 then SCAbNErr else SCAbWait)))
      | _, _ => None
      end
    | ASMWait =>
      (* bc.wait <- none{} : only offered while the buffer is not empty *)
      match sm wk0, buf wk0, sc wk0 with
      | SMLoop, true, SCFirst => Some (with_w s (w_sc wk0 SCRange))
      | SMLoop, true, SCIdle => Some (with_w s (w_sc wk0 SCRange))
      | SMLoop, true, SCAbWait => Some (with_w s (w_sc wk0 SCAbLoop))
      | _, _, _ => None
      end
    | ASMCloseWait => match sm wk0 with
                      | SMCloseWait => Some (mk s x (dp s) (has_broker s) (fp s) (rres s)
                                               (w_sm (w_waitc wk0) (if buf wk0 then SMFlush else SMCloseNS)) (ap s) (calls s) (fuel s)
                                               (panic s || wait_closed wk0))
                      | _ => None end
    | ASMFlush =>
      match sm wk0, sc wk0 with
      | SMFlush, SCRange => Some (with_w s (w_sm (w_sc (w_subs (w_buf wk0 false) true) SCUpd) SMCloseNS))
      | SMFlush, SCAbLoop => Some (with_w s (w_sm (w_sc (w_buf wk0 false) SCAbNErr) SMCloseNS))
      | _, _ => None
      end
    | ASMCloseNS => match sm wk0 with
                    | SMCloseNS => Some (mk s x (dp s) (has_broker s) (fp s) (rres s) (w_sm (w_nsc wk0) SMDone) (ap s) (calls s) (fuel s)
                                           (panic s || ns_closed wk0))
                    | _ => None end
    (* ---------------- subscription consumer ---------------- *)
    | ASCWaitClosed =>
      if wait_closed wk0 then
        match sc wk0 with
        | SCFirst | SCIdle => Some (with_w s (w_sc wk0 SCRange))
        | SCAbWait => Some (with_w s (w_sc wk0 SCAbLoop))
        | _ => None
        end
      else None
    | ASCRangeClosed =>
      if ns_closed wk0 then
        match sc wk0 with
        | SCRange | SCAbLoop => Some (with_w s (w_sc wk0 SCDone))
        | _ => None
        end
      else None
    | ASCUpd => match sc wk0 with
                | SCUpd => Some (with_w s (w_sc wk0 (if subs wk0 && dying x then SCUpdClose else SCLen)))
                | _ => None end
    | ASCUpdClose => match sc wk0 with
                     | SCUpdClose => Some (mk s (c_trig x true (trig_tok x)) (dp s) (has_broker s) (fp s) (rres s)
                                              (w_sc (w_subs wk0 false) SCLen) (ap s) (calls s) (fuel s) (panic s || trig_closed x))
                     | _ => None end
    | ASCLen => match sc wk0 with
                | SCLen => Some (with_w s (w_sc wk0 (if subs wk0 then SCFetch else SCIdle)))
                | _ => None end
    | ASCFetch ok => match sc wk0 with
                     | SCFetch => if ok then Some (with_w s (w_sc (w_acks wk0 (S (acks wk0))) SCFeed))
                                  else Some (with_w s (w_sc wk0 SCAbort))
                     | _ => None end
    | ASCFeed => match sc wk0 with
                 | SCFeed => if feed_full x then None
                             else Some (mk s (c_feed x (feed_closed x) true) (dp s) (has_broker s) (fp s) (rres s) (w_sc wk0 SCAcks)
                                           (ap s) (calls s) (fuel s) (panic s || feed_closed x))
                 | _ => None end
    | ASCAcks => match sc wk0 with
                 | SCAcks => if acks wk0 =? 0 then Some (with_w s (w_sc wk0 SCHandle)) else None
                 | _ => None end
    | ASCHandle moved =>
      match sc wk0 with
      | SCHandle =>
        match rres s with
        | RNone => if moved then Some (with_w s (w_sc wk0 SCHTok)) else Some (with_w s (w_sc wk0 SCRange))
        | RTimedOut => Some (mk s x (dp s) (has_broker s) (fp s) RNone (w_sc (w_subs wk0 false) SCRange) (ap s) (calls s) (fuel s) (panic s))
        | ROOR => Some (mk s x (dp s) (has_broker s) (fp s) RNone (w_sc wk0 (SCHErr true)) (ap s) (calls s) (fuel s) (panic s))
        | RRedispatch => Some (mk s x (dp s) (has_broker s) (fp s) RNone (w_sc wk0 SCHTok) (ap s) (calls s) (fuel s) (panic s))
        | ROther => Some (mk s x (dp s) (has_broker s) (fp s) RNone (w_sc wk0 (SCHErr false)) (ap s) (calls s) (fuel s) (panic s))
        end
      | _ => None
      end
    | ASCHErr hand => match sc wk0 with
                      | SCHErr oor => match send_err c s hand with
                                      | Some (x', ap', bad) => Some (mk s x' (dp s) (has_broker s) (fp s) (rres s) (w_sc wk0 (if oor then SCHClose else SCHTok))
                                                                   ap' (calls s) (fuel s) (panic s || bad))
                                      | None => None end
                      | _ => None end
    | ASCHTok => match sc wk0 with
                 | SCHTok => match put_token x with
                             | Some (x', bad) => Some (mk s x' (dp s) (has_broker s) (fp s) (rres s) (w_sc (w_subs wk0 false) SCRange) (ap s) (calls s) (fuel s) (panic s || bad))
                             | None => None end
                 | _ => None end
    | ASCHClose => match sc wk0 with
                   | SCHClose => Some (mk s (c_trig x true (trig_tok x)) (dp s) (has_broker s) (fp s) (rres s)
                                          (w_sc (w_subs wk0 false) SCRange) (ap s) (calls s) (fuel s) (panic s || trig_closed x))
                   | _ => None end
    | ASCAbort => match sc wk0 with
                  | SCAbort => Some (with_w s (w_sc wk0 (if subs wk0 then SCAbErr else SCAbLoop)))
                  | _ => None end
    | ASCAbErr hand => match sc wk0 with
                       | SCAbErr => match send_err c s hand with
                                    | Some (x', ap', bad) => Some (mk s x' (dp s) (has_broker s) (fp s) (rres s) (w_sc wk0 SCAbTok) ap' (calls s) (fuel s) (panic s || bad))
                                    | None => None end
                       | _ => None end
    | ASCAbTok => match sc wk0 with
                  | SCAbTok => match put_token x with
                               | Some (x', bad) => Some (mk s x' (dp s) (has_broker s) (fp s) (rres s) (w_sc (w_subs wk0 false) SCAbLoop) (ap s) (calls s) (fuel s) (panic s || bad))
                               | None => None end
                  | _ => None end
    | ASCAbNErr hand => match sc wk0 with
                        | SCAbNErr => match send_err c s hand with
                                      | Some (x', ap', bad) => Some (mk s x' (dp s) (has_broker s) (fp s) (rres s) (w_sc wk0 SCAbNTok) ap' (calls s) (fuel s) (panic s || bad))
                                      | None => None end
                        | _ => None end
    | ASCAbNTok => match sc wk0 with
                   | SCAbNTok => match put_token x with
                                 | Some (x', bad) => Some (mk s x' (dp s) (has_broker s) (fp s) (rres s) (w_sc wk0 SCAbLoop) (ap s) (calls s) (fuel s) (panic s || bad))
                                 | None => None end
                   | _ => None end
    end.

  (* ---- observations ---- *)
  Definition fAsync : nat := 0.
  Definition fClose : nat := 1.
  Definition chM : nat := 0.
  Definition chE : nat := 1.

  Definition lbl_err (h : hnd) : option obs := match h with HApp => Some (OEv chE) | _ => None end.

  Definition lbl (a : act) : option obs :=
    match a with
    | AAsyncClose => Some (OCall fAsync)
    | ACloseCall => Some (OCall fClose)
    | ARet n => Some (ORet fClose n)
    | ARecvMsg => Some (OEv chM)
    | ARecvErr => Some (OEv chE)
    | ASeeClosedM => Some (OClosed chM)
    | ASeeClosedE => Some (OClosed chE)
    | AFSend true | AFLSend true => Some (OEv chM)
    | ADErr h | AFPErr h | ASCHErr h | ASCAbErr h | ASCAbNErr h => lbl_err h
    | _ => None
    end.

  (* ---- observer automaton ----
     q_called: AsyncClose/Close was called; q_m / q_e: close of messages / errors observed;
     q_in: a Close() call is in progress; q_ret: some Close() has returned.
     - an event on a channel only before its close was observed, and (errors) not while Close() drains;
     - a close is observed only after a call, unless the partition consumer may shut itself down
       (offset out of range; [self] = the scenario allows it);
     - Close() returns only after having been called; once a Close() has returned, errors yields
       nothing any more and messages at most what its buffer holds (cap). *)
  Record os := { q_called : bool; q_m : bool; q_e : bool; q_in : bool; q_ret : bool; q_left : nat }.
  Definition oinit : os := {| q_called := false; q_m := false; q_e := false; q_in := false; q_ret := false; q_left := 0 |}.

  Definition ostep (c : cfg) (self : bool) (q : os) (o : obs) : option os :=
    match o with
    | OCall 0 => Some {| q_called := true; q_m := q_m q; q_e := q_e q; q_in := q_in q; q_ret := q_ret q; q_left := q_left q |}
    | OCall 1 => if q_in q then None
                 else Some {| q_called := true; q_m := q_m q; q_e := q_e q; q_in := true; q_ret := q_ret q; q_left := q_left q |}
    | ORet 1 n => if q_in q
                  then if q_ret q && negb (n =? 0) then None   (* a later Close finds errors closed and empty *)
                       else Some {| q_called := true; q_m := q_m q; q_e := q_e q; q_in := false; q_ret := true;
                                    q_left := if q_ret q then q_left q else cap c |}
                  else None
    | OEv 0 => if q_m q then None
               else if q_ret q then
                 match q_left q with
                 | 0 => None
                 | S k => Some {| q_called := q_called q; q_m := q_m q; q_e := q_e q; q_in := q_in q; q_ret := q_ret q; q_left := k |}
                 end
               else Some q
    | OEv 1 => if q_e q || q_in q || q_ret q then None else Some q
    | OClosed 0 => if q_m q || negb (q_called q || self) then None
                   else Some {| q_called := q_called q; q_m := true; q_e := q_e q; q_in := q_in q; q_ret := q_ret q; q_left := q_left q |}
    | OClosed 1 => if q_e q || q_in q || negb (q_called q || self) then None
                   else Some {| q_called := q_called q; q_m := q_m q; q_e := true; q_in := q_in q; q_ret := q_ret q; q_left := q_left q |}
    | _ => None
    end.
  Definition accepts (c : cfg) (self : bool) (l : list obs) : bool := oaccepts (ostep c self) oinit l.

  (* shutdown phase and final states *)
  Definition closing (s : st) : Prop := dying (ch s) = true.
  Definition final (s : st) : Prop :=
    dp s = DDone /\ fp s = FDone /\ closed (msgs (ch s)) = true /\ closed (errs (ch s)) = true /\
    sm (w s) = SMDone /\ sc (w s) = SCDone.
End PC.
