(* C12 — preservation of the producer invariant (ProdProofs.Inv), part 10: one lemma per action, by [ProdP.go]. *)
From Coq Require Import List Arith Bool Lia.
From SV Require Import C12.Lts C12.LtsProofs C12.Tac C12.Prod C12.ProdProofs.
Import ListNotations. Import Prod. Import ProdP.

Lemma step_ABrSeeClosed c s s'  : Inv s -> step c s ABrSeeClosed = Some s' -> Inv s'.
Proof. intros I H. go s H I. Qed.
Lemma step_ABrCloseResp c s s'  : Inv s -> step c s ABrCloseResp = Some s' -> Inv s'.
Proof. intros I H. go s H I. Qed.
Lemma step_AOld c s s' f : Inv s -> step c s (AOld f) = Some s' -> Inv s'.
Proof. intros I H. go s H I. Qed.
