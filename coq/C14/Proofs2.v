(* C14 — invariants, part 2: what the receiver hands out.  The server's byte stream is consumed frame by
   frame, the i-th promise gets the i-th frame and only if the frame's id is the promise's; after the
   first fault nothing but the fault's error is handed out. *)
From Coq Require Import List ZArith Bool Lia Arith.
From Hammer Require Import Tactics.
From SV Require Import C14.Model C14.Basics C14.Proofs1.
Import ListNotations.
Open Scope Z_scope.

(* ---------- the receiver's work on one promise ---------- *)
(* [rw] is a complete well-formed frame answering promise [p] with body [buf] *)
Definition frame_for (maxresp : Z) (p : promise) (rw buf : list Z) : Prop :=
  exists hdr len, rw = hdr ++ buf /\ decode_header (p_hv p) maxresp hdr = inl (len, p_id p) /\
                  Z.of_nat (length rw) = 4 + len.

Lemma read_full_ok n st t bs :
  0 <= n -> read_full n st t = inl bs ->
  bs = firstn (Z.to_nat n) st /\ st = bs ++ skipn (Z.to_nat n) st /\ Z.of_nat (length bs) = n.
Proof.
  unfold read_full. intros Hn H. destruct (n <=? Z.of_nat (length st)) eqn:E; [|discriminate].
  injection H as <-. apply Z.leb_le in E. split; [reflexivity|split].
  - now rewrite firstn_skipn.
  - rewrite firstn_length. lia.
Qed.

Lemma header_len_pos hv : header_len hv = 8 \/ header_len hv = 9.
Proof. unfold header_len. destruct (hv <? 1); auto. Qed.

Lemma decode_header_len hv mr h len id : decode_header hv mr h = inl (len, id) -> 4 < len /\ len <= mr.
Proof.
  unfold decode_header. intro H.
  do 8 (destruct h as [|? h]; [discriminate|]).
  destruct ((_ <=? 4) || (_ <? _)) eqn:E; try discriminate.
  apply orb_false_iff in E as [E1 E2]; apply Z.leb_gt in E1; apply Z.ltb_ge in E2.
  repeat match type of H with
         | context [if ?x then _ else _] => destruct x
         | context [match ?x with _ => _ end] => destruct x
         end; try discriminate; injection H as <- <-; lia.
Qed.

Lemma serve_packet mr t p st buf d st' raw :
  serve mr t p st = (RPacket buf, d, st', raw) ->
  d = None /\ frame_for mr p raw buf /\ st = raw ++ st'.
Proof.
  unfold serve. intro H.
  destruct (read_full (header_len (p_hv p)) st t) as [h|e] eqn:E1; [|discriminate].
  destruct (decode_header (p_hv p) mr h) as [[len id]|e] eqn:E2; [|discriminate].
  destruct (negb (id =? p_id p)) eqn:E3; [discriminate|].
  destruct (read_full (body_len (p_hv p) len) (skipn (Z.to_nat (header_len (p_hv p))) st) t) as [b|e] eqn:E4; [|discriminate].
  injection H as <- <- <- <-.
  apply negb_false_iff, Z.eqb_eq in E3. subst id.
  pose proof (decode_header_len _ _ _ _ _ E2) as [Hl1 Hl2].
  assert (Hh : 0 <= header_len (p_hv p)) by (destruct (header_len_pos (p_hv p)); lia).
  assert (Hb : 0 <= body_len (p_hv p) len) by (unfold body_len; destruct (header_len_pos (p_hv p)); lia).
  destruct (read_full_ok _ _ _ _ Hh E1) as (A1 & A2 & A3).
  destruct (read_full_ok _ _ _ _ Hb E4) as (B1 & B2 & B3).
  split; [reflexivity|split].
  - exists h, len. split; [reflexivity|split; [exact E2|]]. rewrite app_length. unfold body_len in *. lia.
  - rewrite <- app_assoc, <- B2. exact A2.
Qed.

Lemma serve_err mr t p st e d st' raw : serve mr t p st = (RErr e, d, st', raw) -> d = Some e.
Proof.
  unfold serve. intro H.
  repeat match type of H with
         | context [match ?x with _ => _ end] => destruct x; try discriminate
         end; congruence.
Qed.

Lemma serve_not_none mr t p st d st' raw : serve mr t p st = (RNone, d, st', raw) -> False.
Proof.
  unfold serve. intro H.
  repeat match type of H with
         | context [match ?x with _ => _ end] => destruct x; try discriminate
         end.
Qed.

(* a readable, well-formed header that carries another id than the promise's: the promise fails, the connection is dead *)
Lemma serve_mismatch mr t p st h len id :
  read_full (header_len (p_hv p)) st t = inl h -> decode_header (p_hv p) mr h = inl (len, id) -> id <> p_id p ->
  exists st' raw, serve mr t p st = (RErr 5, Some 5, st', raw).
Proof.
  intros H1 H2 H3. unfold serve. rewrite H1, H2.
  destruct (id =? p_id p) eqn:E; [apply Z.eqb_eq in E; contradiction|]. cbn. eauto.
Qed.

(* ---------- how steps change the list of promises ---------- *)
Lemma all_promises_step c s ch s' :
  InvLock s -> step c s ch = Some s' ->
  all_promises s' = all_promises s \/
  exists k cl hv, ch = CWrite k None /\ nth_error (s_callers s) k = Some cl /\ cpc cl = PLocked /\ ck cl = KReq hv /\
                  all_promises s' = all_promises s ++ [{| p_k := k; p_id := s_corr s; p_hv := hv |}].
Proof.
  intros IL H. unfold all_promises.
  destruct ch; step_inv H; bool_hyps;
    cbn [s_hist s_recv s_fifo s_inhand serving_part inhand_part];
    rewrite ?E, ?E0, ?E1, ?E2, ?E3; cbn [serving_part inhand_part]; auto.
  - right. exists k, c0, hv. rewrite (inhand_none_if_locked _ _ _ IL E E0). cbn [inhand_part].
    repeat split; auto. now rewrite !app_nil_r, <- !app_assoc.
  - left. now rewrite (inhand_none_if_locked _ _ _ IL E E0).
  - left. now rewrite <- !app_assoc.
  - left. rewrite map_app. cbn. now rewrite <- !app_assoc.
  - left. rewrite map_app. cbn. now rewrite <- !app_assoc.
Qed.

(* ---------- promises and their owners ---------- *)
Definition owners (s : state) : list nat := map p_k (all_promises s).

Record InvOwner (s : state) : Prop := {
  io_fresh : forall k cl, nth_error (s_callers s) k = Some cl -> cpc cl = PStart \/ cpc cl = PLocked -> ~ In k (owners s);
  io_id : forall p, In p (all_promises s) ->
                    exists cl, nth_error (s_callers s) (p_k p) = Some cl /\ cid cl = Some (p_id p) /\ ck cl = KReq (p_hv p);
  io_nodup : NoDup (owners s) }.

Lemma invowner_init c : InvOwner (init c).
Proof. split; cbn; intros; try contradiction; auto. constructor. Qed.

Lemma callers_step_other c s ch s' j :
  step c s ch = Some s' ->
  nth_error (s_callers s') j = nth_error (s_callers s) j \/
  exists cl pc', nth_error (s_callers s) j = Some cl /\
    (nth_error (s_callers s') j = Some (set_pc cl pc') \/
     (cpc cl = PLocked /\ nth_error (s_callers s') j = Some (set_pc_id cl pc' (s_corr s)) /\ (pc' = PWrote \/ pc' = PEnqd)))
    /\ pc' <> PStart /\ (pc' = PLocked -> cpc cl = PStart).
Proof.
  intro H. destruct ch; step_inv H; cbn [s_callers]; auto.
  all: destruct (Nat.eq_dec j k) as [->|N]; [|left; now apply nth_upd_other].
  all: right; eexists; eexists; split; [eassumption|]; split;
    [first [left; eapply nth_upd_same; eassumption
           | right; split; [assumption|split; [eapply nth_upd_same; eassumption|auto]]]
    | split; [discriminate| try discriminate; auto]].
Qed.

Lemma invowner_step c s ch s' : InvLock s -> InvOwner s -> step c s ch = Some s' -> InvOwner s'.
Proof.
  intros IL [I1 I2 I3] H. unfold owners in *.
  destruct (all_promises_step c s ch s' IL H) as [Eq | (k & cl & hv & -> & Hk & Hpc & Hck & Eq)].
  - split; unfold owners; rewrite Eq; auto.
    + intros j cl' Hn Hp. destruct (callers_step_other c s ch s' j H) as [E | (cl & pc' & Hc & Hs & Hne & Hlk)].
      * rewrite E in Hn. eauto.
      * destruct Hs as [Hs | (Hl & Hs & Hw)]; rewrite Hs in Hn; injection Hn as <-; cbn [cpc set_pc set_pc_id] in Hp.
        -- destruct Hp as [Hp|Hp]; [contradiction|]. eapply I1; [exact Hc|left; auto].
        -- destruct Hp as [Hp|Hp], Hw; congruence.
    + intros p Hin. destruct (I2 p Hin) as (cl & Hn & Hid & Hk).
      destruct (callers_step_other c s ch s' (p_k p) H) as [E | (cl0 & pc' & Hc & Hs & Hne & Hlk)].
      * rewrite E. eauto.
      * rewrite Hc in Hn. injection Hn as ->. destruct Hs as [Hs | (Hl & Hs & Hw)].
        -- eexists; split; [exact Hs|]. cbn. auto.
        -- exfalso. eapply I1; [exact Hc|right; exact Hl|]. apply in_map. exact Hin.
  - (* CWrite: a new promise, owned by a caller that had none *)
    assert (Hfresh : ~ In k (map p_k (all_promises s))) by (eapply I1; [exact Hk|right; exact Hpc]).
    pose proof Hk as Hk0.
    step_inv H; bool_hyps; try congruence.
    assert (c0 = cl) by congruence. subst c0. assert (hv0 = hv) by congruence. subst hv0.
    split; unfold owners; rewrite Eq; cbn [s_callers].
    + intros j cl' Hn Hp. rewrite map_app, in_app_iff. cbn [map p_k In].
      apply nth_upd_inv in Hn as [(-> & -> & _) | (Hne & Hn)].
      * cbn in Hp. destruct Hp; discriminate.
      * intros [Hin | [Hin | []]]; [eapply I1; eauto | congruence].
    + intros p Hin. apply in_app_iff in Hin as [Hin | [<- | []]].
      * destruct (I2 p Hin) as (cl' & Hn & Hid & Hkk). exists cl'. split; [|auto].
        rewrite nth_upd_other; [exact Hn|]. intro Hkk'. apply Hfresh. rewrite <- Hkk'. apply in_map. exact Hin.
      * cbn [p_k p_id p_hv]. eexists; split; [eapply nth_upd_same; eassumption|]. cbn. auto.
    + rewrite map_app. cbn [map p_k]. apply NoDup_app_one; auto.
Qed.

Lemma invowner_reachable c s : reachable c s -> InvOwner s.
Proof.
  intro Hr. enough (InvLock s /\ InvOwner s) by tauto. revert s Hr. apply invariant.
  - split; [apply invlock_init|apply invowner_init].
  - intros s0 ch s1 (A & B) Hs. split; [eapply invlock_step; eauto|eapply invowner_step; eauto].
Qed.

(* ---------- the history of answers against the server's stream ---------- *)
Definition good (mr : Z) (x : promise * result) (rw : list Z) : Prop :=
  exists b, snd x = RPacket b /\ frame_for mr (fst x) rw b.

Record InvHist (c : cfg) (s : state) : Prop := {
  ih_split : exists gh bh gr br post,
      s_hist s = gh ++ bh /\ s_raw s = gr ++ br /\ Forall2 (good (c_maxresp c)) gh gr /\
      c_stream c = concat gr ++ post /\ length br = length bh /\
      (s_dead s = None -> bh = [] /\ post = s_stream s) /\
      (forall e, s_dead s = Some e -> bh <> [] /\ Forall (fun x => snd x = RErr e) bh);
  ih_deliv : forall p r, s_recv s = RDeliv p r -> exists h, s_hist s = h ++ [(p, r)];
  ih_deadpkt : forall p buf, s_recv s = RDeliv p (RPacket buf) -> s_dead s = None }.

Lemma invhist_init c : InvHist c (init c).
Proof.
  split; cbn; try discriminate.
  exists [], [], [], [], (c_stream c). repeat split; auto; try discriminate.
Qed.

Lemma invhist_step c s ch s' : InvHist c s -> step c s ch = Some s' -> InvHist c s'.
Proof.
  intros [I1 I2 I3] H.
  destruct ch; step_inv H; try (split; cbn [s_hist s_raw s_dead s_stream s_recv]; auto; fail).
  - (* CRecv *) split; cbn [s_hist s_raw s_dead s_stream s_recv]; auto; discriminate.
  - (* RDeq *) split; cbn [s_hist s_raw s_dead s_stream s_recv]; auto; discriminate.
  - (* RServe, dead *)
    destruct I1 as (gh & bh & gr & br & post & A1 & A2 & A3 & A4 & A5 & A6 & A7).
    destruct (A7 _ eq_refl) as [B1 B2].
    split; cbn [s_hist s_raw s_dead s_stream s_recv].
    + exists gh, (bh ++ [(p, RErr z)]), gr, (br ++ [[]]), post. rewrite A1, A2, <- !app_assoc.
      repeat split; auto; try discriminate.
      * rewrite !app_length. cbn. lia.
      * destruct bh; discriminate.
      * injection H as <-. apply Forall_app; split; auto.
    + intros p0 r0 Hq. injection Hq as <- <-. eauto.
    + intros p0 buf Hq. discriminate.
  - (* RServe *)
    destruct I1 as (gh & bh & gr & br & post & A1 & A2 & A3 & A4 & A5 & A6 & A7).
    destruct (A6 eq_refl) as [-> ->]. destruct br; [|discriminate]. rewrite app_nil_r in A1, A2.
    split; cbn [s_hist s_raw s_dead s_stream s_recv].
    + destruct r as [buf|e|].
      * destruct (serve_packet _ _ _ _ _ _ _ _ E1) as (-> & Hf & Hst).
        exists (gh ++ [(p, RPacket buf)]), [], (gr ++ [l]), [], l0. rewrite A1, A2, !app_nil_r.
        repeat split; auto; try discriminate.
        -- apply Forall2_app; auto. constructor; [|constructor]. exists buf. split; auto.
        -- rewrite concat_app. cbn. rewrite app_nil_r, <- app_assoc, <- Hst. exact A4.
      * pose proof (serve_err _ _ _ _ _ _ _ _ E1) as ->.
        exists gh, [(p, RErr e)], gr, [l], (s_stream s). rewrite A1, A2.
        repeat split; auto; try discriminate.
        injection H as <-. constructor; auto.
      * exfalso. eapply serve_not_none; eauto.
    + intros p0 r0 Hq. injection Hq as <- <-. eauto.
    + intros p0 buf Hq. injection Hq as <- ->. now destruct (serve_packet _ _ _ _ _ _ _ _ E1) as (-> & _).
  - (* RExit *) split; cbn [s_hist s_raw s_dead s_stream s_recv]; auto; discriminate.
Qed.

Lemma invhist_reachable c s : reachable c s -> InvHist c s.
Proof. apply invariant; [apply invhist_init | intros; eapply invhist_step; eauto]. Qed.

(* a caller that returned a packet got it from the receiver *)
Definition InvRes (s : state) : Prop :=
  forall k cl buf, nth_error (s_callers s) k = Some cl -> cpc cl = PDone (RPacket buf) ->
                   exists p, p_k p = k /\ In (p, RPacket buf) (s_hist s).

Lemma invres_step c s ch s' : InvHist c s -> InvRes s -> step c s ch = Some s' -> InvRes s'.
Proof.
  intros IH IR H. unfold InvRes in *.
  destruct ch; step_inv H; bool_hyps; cbn [s_callers s_hist]; intros j cl' buf Hn Hp.
  all: try (upd_inv; cbn [cpc set_pc set_pc_id] in Hp; try discriminate; eauto; fail).
  - (* CRecv *)
    upd_inv; [|eauto]. cbn [cpc set_pc] in Hp. injection Hp as ->.
    destruct (ih_deliv _ _ IH _ _ E0) as (h & Hh). exists p. split; auto. rewrite Hh. apply in_app_iff. right. left. auto.
  - destruct (IR _ _ _ Hn Hp) as (q & Hq & Hin). exists q. split; auto. apply in_app_iff. auto.
  - destruct (IR _ _ _ Hn Hp) as (q & Hq & Hin). exists q. split; auto. apply in_app_iff. auto.
Qed.

Lemma invres_reachable c s : reachable c s -> InvRes s.
Proof.
  intro Hr. enough (InvHist c s /\ InvRes s) by tauto. revert s Hr. apply invariant.
  - split; [apply invhist_init|]. intros k cl buf Hn Hp. cbn in Hn. apply nth_map_mk in Hn as [Hn _]. congruence.
  - intros s0 ch s1 (A & B) Hs. split; [eapply invhist_step; eauto|eapply invres_step; eauto].
Qed.

(* ---------- small list facts ---------- *)
Lemma nth_error_middle {A} (l1 l2 : list A) x : nth_error (l1 ++ x :: l2) (length l1) = Some x.
Proof. induction l1; cbn; auto. Qed.

Lemma firstn_exact {A} (l1 l2 : list A) : firstn (length l1) (l1 ++ l2) = l1.
Proof. induction l1; cbn; [now destruct l2|]. now f_equal. Qed.

Lemma good_frames mr g r :
  Forall2 (good mr) g r -> Forall2 (fun q rw => exists b, frame_for mr q rw b) (map fst g) r.
Proof. induction 1 as [|x rw g r (b & _ & Hf) _ IH]; cbn; constructor; eauto. Qed.

(* ---------- each call gets its own response ---------- *)
Theorem own_response c s k buf :
  reachable c s -> result_of s k = Some (RPacket buf) ->
  exists i p pre_raws rw post,
    nth_error (all_promises s) i = Some p /\ p_k p = k /\ call_id s k = Some (p_id p) /\
    nth_error (resp_ids (s_wire s)) i = Some (p_id p) /\
    Forall2 (fun q r => exists b, frame_for (c_maxresp c) q r b) (firstn i (all_promises s)) pre_raws /\
    frame_for (c_maxresp c) p rw buf /\
    c_stream c = concat pre_raws ++ rw ++ post.
Proof.
  intros Hr Hres.
  pose proof (invres_reachable c s Hr) as IR. pose proof (invhist_reachable c s Hr) as IH.
  pose proof (invowner_reachable c s Hr) as IO. pose proof (invorder_reachable c s Hr) as IW.
  unfold result_of in Hres. destruct (nth_error (s_callers s) k) as [cl|] eqn:Hn; [|discriminate].
  destruct (cpc cl) eqn:Hp; try discriminate. injection Hres as ->.
  destruct (IR _ _ _ Hn Hp) as (p & Hk & Hin).
  destruct (ih_split _ _ IH) as (gh & bh & gr & br & post & A1 & A2 & A3 & A4 & A5 & A6 & A7).
  rewrite A1 in Hin. apply in_app_iff in Hin as [Hin|Hin].
  2:{ exfalso. destruct (s_dead s) as [e|] eqn:Hd.
      - destruct (A7 _ eq_refl) as [_ HF]. rewrite Forall_forall in HF. specialize (HF _ Hin). discriminate.
      - destruct (A6 eq_refl) as [-> _]. contradiction. }
  apply in_split in Hin as (g1 & g2 & ->).
  apply Forall2_app_inv_l in A3 as (r1 & r2' & F1 & F2 & ->).
  inversion F2 as [|x rw g2' r2 Hg F3]; subst. destruct Hg as (b & Hb & Hf). cbn in Hb, Hf. injection Hb as <-.
  assert (Hall : all_promises s = map fst g1 ++ p :: (map fst g2 ++ map fst bh ++ serving_part (s_recv s) ++ s_fifo s ++ inhand_part (s_inhand s))).
  { unfold all_promises. rewrite A1, !map_app. cbn. now rewrite <- !app_assoc. }
  exists (length (map fst g1)), p, r1, rw, (concat r2 ++ post).
  split; [rewrite Hall; apply nth_error_middle|]. split; [reflexivity|]. split.
  - destruct (io_id _ IO p) as (cl' & Hn' & Hid & _).
    { rewrite Hall. apply in_app_iff. right. left. reflexivity. }
    unfold call_id. rewrite Hn'. exact Hid.
  - split.
    + rewrite <- IW, Hall, map_app. cbn [map]. rewrite <- (map_length p_id (map fst g1)). apply nth_error_middle.
    + split; [rewrite Hall, firstn_exact; now apply good_frames|]. split; [exact Hf|].
      rewrite A4, concat_app. cbn. now rewrite <- !app_assoc.
Qed.

Theorem one_promise_per_call c s : reachable c s -> NoDup (map p_k (all_promises s)).
Proof. intro Hr. exact (io_nodup _ (invowner_reachable c s Hr)). Qed.

(* ---------- a response for another request is a connection fault ---------- *)
Theorem mismatch_is_fault c s p :
  reachable c s -> s_recv s = RServing p -> s_dead s = None ->
  nth_error (resp_ids (s_wire s)) (length (s_hist s)) = Some (p_id p) /\
  forall h len id s',
    read_full (header_len (p_hv p)) (s_stream s) (c_term c) = inl h ->
    decode_header (p_hv p) (c_maxresp c) h = inl (len, id) -> id <> p_id p ->
    step c s RServe = Some s' ->
    s_recv s' = RDeliv p (RErr 5) /\ s_dead s' = Some 5.
Proof.
  intros Hr Hs Hd. split.
  - rewrite <- (invorder_reachable c s Hr). unfold all_promises. rewrite Hs. cbn [serving_part].
    rewrite map_app. cbn [map app]. rewrite <- (map_length fst (s_hist s)), <- (map_length p_id (map fst (s_hist s))).
    apply nth_error_middle.
  - intros h len id s' H1 H2 H3 Hstep. destruct (serve_mismatch _ _ _ _ _ _ _ H1 H2 H3) as (st' & raw & Hsv).
    unfold step in Hstep. rewrite Hs, Hd, Hsv in Hstep. injection Hstep as <-. cbn. auto.
Qed.

(* ---------- after the first fault ---------- *)
Lemma dead_step c s ch s' e : s_dead s = Some e -> step c s ch = Some s' -> s_dead s' = Some e.
Proof. intros Hd H. destruct ch; step_inv H; cbn [s_dead]; auto; congruence. Qed.

Lemma packet_step c s ch s' e k buf :
  InvHist c s -> s_dead s = Some e -> step c s ch = Some s' ->
  result_of s' k = Some (RPacket buf) -> result_of s k = Some (RPacket buf).
Proof.
  intros IH Hd H Hres. unfold result_of in *.
  destruct ch; step_inv H; cbn [s_callers] in Hres; auto.
  all: destruct (Nat.eq_dec k k0) as [->|N]; [|rewrite nth_upd_other in Hres by exact N; exact Hres].
  all: try (erewrite nth_upd_same in Hres by eassumption; cbn [cpc set_pc set_pc_id] in Hres; discriminate).
  (* CRecv: the packet would have been in the receiver's hands while dead *)
  erewrite nth_upd_same in Hres by eassumption. cbn [cpc set_pc] in Hres. injection Hres as ->.
  pose proof (ih_deadpkt _ _ IH _ _ E0). congruence.
Qed.

Theorem dead_sticky_safe c s1 e :
  reachable c s1 -> s_dead s1 = Some e ->
  (exists good bad, s_hist s1 = good ++ bad /\ bad <> [] /\
                    Forall (fun x => exists b, snd x = RPacket b) good /\ Forall (fun x => snd x = RErr e) bad) /\
  forall sched s2, run_from c s1 sched = Some s2 ->
    s_dead s2 = Some e /\
    forall k buf, result_of s2 k = Some (RPacket buf) -> result_of s1 k = Some (RPacket buf).
Proof.
  intros Hr Hd. split.
  - destruct (ih_split _ _ (invhist_reachable c s1 Hr)) as (gh & bh & gr & br & post & A1 & A2 & A3 & A4 & A5 & A6 & A7).
    destruct (A7 _ Hd) as [B1 B2]. exists gh, bh. repeat split; auto.
    clear -A3. induction A3 as [|x rw g r (b & Hb & _) _ IH]; constructor; eauto.
  - intros sched. revert s1 Hr Hd. induction sched as [|ch r IH]; intros s1 Hr Hd s2 Hrun; cbn in Hrun.
    + injection Hrun as <-. auto.
    + destruct (step c s1 ch) as [s1'|] eqn:Hs; [|discriminate].
      assert (Hd' := dead_step _ _ _ _ _ Hd Hs).
      destruct (IH s1' (reachable_step _ _ _ _ Hr Hs) Hd' s2 Hrun) as [C1 C2]. split; [exact C1|].
      intros k buf Hres. eapply packet_step; eauto using invhist_reachable.
Qed.
