(* C14 — invariants, part 2: what the receiver hands out.  The server's byte stream is consumed frame by
   frame, the i-th promise gets the i-th frame and only if the frame's id is the promise's; after the
   first fault nothing but the fault's error is handed out. *)
From Coq Require Import List ZArith Bool Lia Arith.
From Hammer Require Import Tactics.
From SV Require Import C14.Model C14.Basics C14.Proofs1.
Import ListNotations.
Open Scope Z_scope.

(* ---------- the receiver's work on one promise ---------- *)
(* [rw] is a complete well-formed frame answering promise [p] with body [buf] *)
Definition frame_for (maxresp : Z) (p : promise) (rw buf : list Z) : Prop :=
  exists hdr len, rw = hdr ++ buf /\ decode_header (p_hv p) maxresp hdr = inl (len, p_id p) /\
                  Z.of_nat (length rw) = 4 + len.

Lemma read_full_ok n st t bs :
  0 <= n -> read_full n st t = inl bs ->
  bs = firstn (Z.to_nat n) st /\ st = bs ++ skipn (Z.to_nat n) st /\ Z.of_nat (length bs) = n.
Proof.
  unfold read_full. intros Hn H. destruct (n <=? Z.of_nat (length st)) eqn:E; [|discriminate].
  injection H as <-. apply Z.leb_le in E. split; [reflexivity|split].
  - now rewrite firstn_skipn.
  - rewrite firstn_length. lia.
Qed.

Lemma header_len_pos hv : header_len hv = 8 \/ header_len hv = 9.
Proof. unfold header_len. destruct (hv <? 1); auto. Qed.

Lemma decode_header_len hv mr h len id : decode_header hv mr h = inl (len, id) -> 4 < len /\ len <= mr.
Proof.
  unfold decode_header. intro H.
  repeat (destruct h as [|? h]; try discriminate).
  all: destruct ((_ <=? 4) || (_ <? _)) eqn:E; try discriminate;
    apply orb_false_iff in E as [E1 E2]; apply Z.leb_gt in E1; apply Z.ltb_ge in E2.
  all: repeat match type of H with context [if ?x then _ else _] => destruct x end; try discriminate;
    injection H as <- <-; lia.
Qed.

Lemma serve_packet mr t p st buf d st' raw :
  serve mr t p st = (RPacket buf, d, st', raw) ->
  d = None /\ frame_for mr p raw buf /\ st = raw ++ st'.
Proof.
  unfold serve. intro H.
  destruct (read_full (header_len (p_hv p)) st t) as [h|e] eqn:E1; [|discriminate].
  destruct (decode_header (p_hv p) mr h) as [[len id]|e] eqn:E2; [|discriminate].
  destruct (negb (id =? p_id p)) eqn:E3; [discriminate|].
  destruct (read_full (body_len (p_hv p) len) (skipn (Z.to_nat (header_len (p_hv p))) st) t) as [b|e] eqn:E4; [|discriminate].
  injection H as <- <- <- <-.
  apply negb_false_iff, Z.eqb_eq in E3. subst id.
  pose proof (decode_header_len _ _ _ _ _ E2) as [Hl1 Hl2].
  assert (Hh : 0 <= header_len (p_hv p)) by (destruct (header_len_pos (p_hv p)); lia).
  assert (Hb : 0 <= body_len (p_hv p) len) by (unfold body_len; destruct (header_len_pos (p_hv p)); lia).
  destruct (read_full_ok _ _ _ _ Hh E1) as (A1 & A2 & A3).
  destruct (read_full_ok _ _ _ _ Hb E4) as (B1 & B2 & B3).
  split; [reflexivity|split].
  - exists h, len. split; [reflexivity|split; [exact E2|]]. rewrite app_length. unfold body_len in *. lia.
  - rewrite <- app_assoc, <- B2. exact A2.
Qed.

Lemma serve_err mr t p st e d st' raw : serve mr t p st = (RErr e, d, st', raw) -> d = Some e.
Proof.
  unfold serve. intro H.
  repeat match type of H with
         | context [match ?x with _ => _ end] => destruct x; try discriminate
         end; congruence.
Qed.

Lemma serve_not_none mr t p st d st' raw : serve mr t p st = (RNone, d, st', raw) -> False.
Proof.
  unfold serve. intro H.
  repeat match type of H with
         | context [match ?x with _ => _ end] => destruct x; try discriminate
         end.
Qed.

(* a readable, well-formed header that carries another id than the promise's: the promise fails, the connection is dead *)
Lemma serve_mismatch mr t p st h len id :
  read_full (header_len (p_hv p)) st t = inl h -> decode_header (p_hv p) mr h = inl (len, id) -> id <> p_id p ->
  exists st' raw, serve mr t p st = (RErr 5, Some 5, st', raw).
Proof.
  intros H1 H2 H3. unfold serve. rewrite H1, H2.
  destruct (id =? p_id p) eqn:E; [apply Z.eqb_eq in E; contradiction|]. cbn. eauto.
Qed.

(* ---------- how steps change the list of promises ---------- *)
Lemma all_promises_step c s ch s' :
  InvLock s -> step c s ch = Some s' ->
  all_promises s' = all_promises s \/
  exists k cl hv, ch = CWrite k None /\ nth_error (s_callers s) k = Some cl /\ cpc cl = PLocked /\ ck cl = KReq hv /\
                  all_promises s' = all_promises s ++ [{| p_k := k; p_id := s_corr s; p_hv := hv |}].
Proof.
  intros IL H. unfold all_promises.
  destruct ch; step_inv H; bool_hyps;
    cbn [s_hist s_recv s_fifo s_inhand serving_part inhand_part];
    rewrite ?E, ?E0, ?E1, ?E2, ?E3; cbn [serving_part inhand_part]; auto.
  - right. exists k, c0, hv. rewrite (inhand_none_if_locked _ _ _ IL E E0). cbn [inhand_part].
    repeat split; auto. now rewrite !app_nil_r, <- !app_assoc.
  - left. now rewrite (inhand_none_if_locked _ _ _ IL E E0).
  - left. now rewrite <- !app_assoc.
  - left. rewrite map_app. cbn. now rewrite <- !app_assoc.
  - left. rewrite map_app. cbn. now rewrite <- !app_assoc.
Qed.

(* ---------- promises and their owners ---------- *)
Definition owners (s : state) : list nat := map p_k (all_promises s).

Record InvOwner (s : state) : Prop := {
  io_fresh : forall k cl, nth_error (s_callers s) k = Some cl -> cpc cl = PStart \/ cpc cl = PLocked -> ~ In k (owners s);
  io_id : forall p, In p (all_promises s) ->
                    exists cl, nth_error (s_callers s) (p_k p) = Some cl /\ cid cl = Some (p_id p) /\ ck cl = KReq (p_hv p);
  io_nodup : NoDup (owners s) }.

Lemma invowner_init c : InvOwner (init c).
Proof. split; cbn; intros; try contradiction; auto. constructor. Qed.

Lemma callers_step_other c s ch s' j :
  step c s ch = Some s' ->
  nth_error (s_callers s') j = nth_error (s_callers s) j \/
  exists cl pc', nth_error (s_callers s) j = Some cl /\
    (nth_error (s_callers s') j = Some (set_pc cl pc') \/
     (cpc cl = PLocked /\ nth_error (s_callers s') j = Some (set_pc_id cl pc' (s_corr s)) /\ (pc' = PWrote \/ pc' = PEnqd)))
    /\ pc' <> PStart /\ (pc' = PLocked -> cpc cl = PStart).
Proof.
  intro H. destruct ch; step_inv H; cbn [s_callers]; auto.
  all: destruct (Nat.eq_dec j k) as [->|N]; [|left; now apply nth_upd_other].
  all: right; eexists; eexists; split; [eassumption|]; split;
    [first [left; eapply nth_upd_same; eassumption
           | right; split; [assumption|split; [eapply nth_upd_same; eassumption|auto]]]
    | split; [discriminate| try discriminate; auto]].
Qed.

Lemma invowner_step c s ch s' : InvLock s -> InvOwner s -> step c s ch = Some s' -> InvOwner s'.
Proof.
  intros IL [I1 I2 I3] H. unfold owners in *.
  destruct (all_promises_step c s ch s' IL H) as [Eq | (k & cl & hv & -> & Hk & Hpc & Hck & Eq)]; rewrite Eq.
  - split; auto.
    + intros j cl' Hn Hp. destruct (callers_step_other c s ch s' j H) as [E | (cl & pc' & Hc & Hs & Hne & Hlk)].
      * rewrite E in Hn. eauto.
      * destruct Hs as [Hs | (Hl & Hs & Hw)]; rewrite Hs in Hn; injection Hn as <-; cbn [cpc set_pc set_pc_id] in Hp.
        -- destruct Hp as [Hp|Hp]; [contradiction|]. eapply I1; [exact Hc|left; auto].
        -- destruct Hp as [Hp|Hp], Hw; congruence.
    + intros p Hin. destruct (I2 p Hin) as (cl & Hn & Hid & Hk).
      destruct (callers_step_other c s ch s' (p_k p) H) as [E | (cl0 & pc' & Hc & Hs & Hne & Hlk)].
      * rewrite E. eauto.
      * rewrite Hc in Hn. injection Hn as ->. destruct Hs as [Hs | (Hl & Hs & Hw)].
        -- eexists; split; [exact Hs|]. cbn. auto.
        -- exfalso. eapply I1; [exact Hc|right; exact Hl|]. apply in_map. exact Hin.
  - (* CWrite: a new promise, owned by a caller that had none *)
    step_inv H; bool_hyps; try congruence.
    assert (Hfresh : ~ In k (map p_k (all_promises s))) by (eapply I1; [exact Hk|right; exact Hpc]).
    assert (c0 = cl) by congruence. subst c0. assert (hv0 = hv) by congruence. subst hv0.
    split; cbn [s_callers].
    + intros j cl' Hn Hp. rewrite map_app, in_app_iff. cbn [map p_k In].
      apply nth_upd_inv in Hn as [(-> & -> & _) | (Hne & Hn)].
      * cbn in Hp. destruct Hp; discriminate.
      * intros [Hin | [Hin | []]]; [eapply I1; eauto | congruence].
    + intros p Hin. apply in_app_iff in Hin as [Hin | [<- | []]].
      * destruct (I2 p Hin) as (cl' & Hn & Hid & Hkk). exists cl'. split; [|auto].
        rewrite nth_upd_other; [exact Hn|]. intros ->. apply Hfresh. apply in_map. exact Hin.
      * cbn [p_k p_id p_hv]. eexists; split; [eapply nth_upd_same; eassumption|]. cbn. auto.
    + rewrite map_app. cbn [map p_k]. apply NoDup_app_one; auto.
Qed.
