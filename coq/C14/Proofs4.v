(* C14 — the trace replay used by the correspondence only ever produces runs of the model; the wire-bound
   witness; examples showing that the hypotheses of the theorems are satisfiable on non-trivial states. *)
From Coq Require Import List ZArith Bool Lia Arith.
From SV Require Import C14.Model C14.Basics C14.Proofs1 C14.Proofs2 C14.Proofs3.
Import ListNotations.
Open Scope Z_scope.

(* ---------- replay soundness ---------- *)
Lemma apply_event_run c s e s' : apply_event c s e = Some s' -> run_from c s (event_choices s e) = Some s'.
Proof.
  unfold apply_event, opt_bind, guard. destruct (run_from c s (event_choices s e)) as [s1|]; [|discriminate].
  destruct (event_check s s1 e); [|discriminate]. congruence.
Qed.

Lemma replay_reachable c fuel : forall s ns ls lr s', reachable c s -> replay c fuel s ns ls lr = Some s' -> reachable c s'.
Proof.
  induction fuel as [|f IH]; intros s ns ls lr s' Hr H; cbn in H; [discriminate|].
  destruct ls as [|e ls'].
  - destruct lr as [|r lr']; [injection H as <-; exact Hr|].
    destruct (sync_ok ns r); [|discriminate].
    unfold opt_bind in H. destruct (apply_event c s r) as [s1|] eqn:E; [|discriminate].
    eapply IH; [|exact H]. eapply reachable_run_from; [exact Hr|apply apply_event_run; exact E].
  - destruct (apply_event c s e) as [s1|] eqn:E.
    + eapply IH; [|exact H]. eapply reachable_run_from; [exact Hr|apply apply_event_run; exact E].
    + destruct lr as [|r lr']; [discriminate|].
      destruct (sync_ok ns r); [|discriminate].
      unfold opt_bind in H. destruct (apply_event c s r) as [s1|] eqn:E'; [|discriminate].
      eapply IH; [|exact H]. eapply reachable_run_from; [exact Hr|apply apply_event_run; exact E'].
Qed.

Theorem replay_log_reachable c log s : replay_log c log = Some s -> reachable c s.
Proof. unfold replay_log. apply replay_reachable. exists []. reflexivity. Qed.

(* ---------- the wire bound ---------- *)
Definition wire_bound_full : Prop :=
  forall c sched s, 1 <= c_max c -> run c sched = Some s -> outstanding s <= c_max c.

(* MaxOpenRequests = 1, four callers, silent server: the receiver holds the first promise, the second
   caller has written its request and waits for room in the (unbuffered) channel *)
Definition witness_cfg : cfg :=
  {| c_max := 1; c_maxresp := 104857600; c_corr0 := 0; c_kinds := [KReq 0; KReq 0; KReq 0; KReq 0];
     c_stream := []; c_term := TStall |}.
Definition witness_sched : list choice :=
  [CLock 0; CWrite 0 None; CEnq 0; CUnlock 0; RDeq; CLock 1; CWrite 1 None].

Theorem wire_bound_refuted :
  exists c sched s, c_max c = 1 /\ run c sched = Some s /\ outstanding s = 2 /\
                    map fst (s_wire s) = [0; 1] /\ all_done s = false.
Proof.
  exists witness_cfg, witness_sched. eexists. split; [reflexivity|]. split; [vm_compute; reflexivity|].
  repeat split; vm_compute; reflexivity.
Qed.

Theorem wire_bound_full_false : ~ wire_bound_full.
Proof.
  intro H. destruct wire_bound_refuted as (c & sched & s & Hm & Hr & Ho & _).
  specialize (H c sched s ltac:(lia) Hr). lia.
Qed.

(* the bound max+1 is reached for every MaxOpenRequests, e.g. 3 *)
Example wire_bound_tight_3 :
  exists sched s,
    run {| c_max := 3; c_maxresp := 1000; c_corr0 := 7; c_kinds := [KReq 0; KReq 1; KReq 0; KReq 0; KReq 0];
           c_stream := []; c_term := TStall |} sched = Some s /\ outstanding s = 4.
Proof.
  exists [CLock 0; CWrite 0 None; CEnq 0; CUnlock 0; RDeq; CLock 1; CWrite 1 None; CEnq 1; CUnlock 1;
          CLock 2; CWrite 2 None; CEnq 2; CUnlock 2; CLock 3; CWrite 3 None].
  eexists. split; vm_compute; reflexivity.
Qed.

(* ---------- examples: the hypotheses of the theorems hold on non-trivial states ---------- *)
(* two heartbeat-like calls (ids 5 and 6) and one with a version-1 header, three correct frames *)
Definition ex_cfg : cfg :=
  {| c_max := 2; c_maxresp := 1000; c_corr0 := 5; c_kinds := [KReq 0; KReq 0; KReq 1];
     c_stream := [0;0;0;6; 0;0;0;5; 3;233] ++ [0;0;0;6; 0;0;0;6; 3;234] ++ [0;0;0;8; 0;0;0;7; 0; 1;2;3];
     c_term := TStall |}.
Definition ex_sched : list choice :=
  [CLock 1; CWrite 1 None; CEnq 1; CUnlock 1; CLock 0; CWrite 0 None; RDeq; CEnq 0; RServe; CUnlock 0;
   CRecv 1; RDeq; CLock 2; CWrite 2 None; RServe; CRecv 0; CEnq 2; CUnlock 2; RDeq; RServe; CRecv 2].

Example own_response_ex :
  exists s, run ex_cfg ex_sched = Some s /\
            result_of s 0 = Some (RPacket [3; 234]) /\ result_of s 1 = Some (RPacket [3; 233]) /\
            result_of s 2 = Some (RPacket [1; 2; 3]) /\ call_id s 0 = Some 6 /\ all_done s = true.
Proof. eexists. split; [vm_compute; reflexivity|]. repeat split; vm_compute; reflexivity. Qed.

(* the server answers the first request with the id of the second: nothing is delivered, everybody gets error 5 *)
Definition ex_bad_cfg : cfg :=
  {| c_max := 2; c_maxresp := 1000; c_corr0 := 5; c_kinds := [KReq 0; KReq 0; KReq 0];
     c_stream := [0;0;0;6; 0;0;0;6; 3;234] ++ [0;0;0;6; 0;0;0;5; 3;233]; c_term := TStall |}.
Definition ex_bad_sched1 : list choice :=
  [CLock 0; CWrite 0 None; CEnq 0; CUnlock 0; CLock 1; CWrite 1 None; CEnq 1; CUnlock 1; RDeq].

Example mismatch_ex :
  exists s p, run ex_bad_cfg ex_bad_sched1 = Some s /\ s_recv s = RServing p /\ s_dead s = None /\
    exists h, read_full (header_len (p_hv p)) (s_stream s) (c_term ex_bad_cfg) = inl h /\
              decode_header (p_hv p) (c_maxresp ex_bad_cfg) h = inl (6, 6) /\ 6 <> p_id p.
Proof.
  eexists. eexists. split; [vm_compute; reflexivity|]. split; [reflexivity|]. split; [reflexivity|].
  eexists. split; [vm_compute; reflexivity|]. split; [vm_compute; reflexivity|]. cbn. lia.
Qed.

Example dead_sticky_ex :
  exists s1 s2, run ex_bad_cfg (ex_bad_sched1 ++ [RServe]) = Some s1 /\ s_dead s1 = Some 5 /\ all_done s1 = false /\
    run_from ex_bad_cfg s1 [CRecv 0; RDeq; RServe; CRecv 1; CLock 2; CWrite 2 None; CEnq 2; CUnlock 2; RDeq; RServe; CRecv 2] = Some s2 /\
    all_done s2 = true /\
    result_of s2 0 = Some (RErr 5) /\ result_of s2 1 = Some (RErr 5) /\ result_of s2 2 = Some (RErr 5).
Proof.
  eexists. eexists. split; [vm_compute; reflexivity|]. split; [reflexivity|]. split; [reflexivity|].
  split; [vm_compute; reflexivity|]. repeat split; vm_compute; reflexivity.
Qed.

(* Close racing two calls: the one before it is answered, the one after it gets ErrNotConnected *)
Example close_ex :
  exists s, run {| c_max := 1; c_maxresp := 1000; c_corr0 := 2147483647; c_kinds := [KReq 0; KClose; KReq 0; KNoResp];
                   c_stream := [0;0;0;6; 127;255;255;255; 0;9]; c_term := TClose |}
                [CLock 3; CWrite 3 None; CUnlock 3; CLock 0; CWrite 0 None; CEnq 0; CUnlock 0; CLock 1; RDeq; RServe; CRecv 0; RExit; CCloseEnd 1; CLock 2]
            = Some s /\ all_done s = true /\ result_of s 0 = Some (RErr 5) /\ result_of s 2 = Some (RErr 6) /\
            map fst (s_wire s) = [2147483647; -2147483648].
Proof. eexists. split; [vm_compute; reflexivity|]. repeat split; vm_compute; reflexivity. Qed.

(* ---------- the statements in the form exported by Properties/C14.v ---------- *)
Lemma run_reachable c sched s : run c sched = Some s -> reachable c s.
Proof. intro H. exists sched. exact H. Qed.

Lemma order_stmt : forall c sched s, run c sched = Some s -> map p_id (all_promises s) = resp_ids (s_wire s).
Proof. intros c sched s H. exact (invorder_reachable c s (run_reachable _ _ _ H)). Qed.

Lemma own_response_stmt : forall c sched s k buf,
  run c sched = Some s -> result_of s k = Some (RPacket buf) ->
  exists i p pre_raws rw post,
    nth_error (all_promises s) i = Some p /\ p_k p = k /\ call_id s k = Some (p_id p) /\
    nth_error (resp_ids (s_wire s)) i = Some (p_id p) /\
    Forall2 (fun q r => exists b, frame_for (c_maxresp c) q r b) (firstn i (all_promises s)) pre_raws /\
    frame_for (c_maxresp c) p rw buf /\
    c_stream c = concat pre_raws ++ rw ++ post.
Proof. intros c sched s k buf H. apply own_response. exact (run_reachable _ _ _ H). Qed.

Lemma one_promise_stmt : forall c sched s, run c sched = Some s -> NoDup (map p_k (all_promises s)).
Proof. intros c sched s H. exact (one_promise_per_call c s (run_reachable _ _ _ H)). Qed.

Lemma mismatch_stmt : forall c sched s p,
  run c sched = Some s -> s_recv s = RServing p -> s_dead s = None ->
  nth_error (resp_ids (s_wire s)) (length (s_hist s)) = Some (p_id p) /\
  forall h len id s',
    read_full (header_len (p_hv p)) (s_stream s) (c_term c) = inl h ->
    decode_header (p_hv p) (c_maxresp c) h = inl (len, id) -> id <> p_id p ->
    step c s RServe = Some s' ->
    s_recv s' = RDeliv p (RErr 5) /\ s_dead s' = Some 5.
Proof. intros c sched s p H. apply mismatch_is_fault. exact (run_reachable _ _ _ H). Qed.

Lemma no_hang_stmt : forall c sched s,
  1 <= c_max c -> run c sched = Some s ->
  (length sched + measure s <= measure (init c))%nat /\
  (all_done s = false -> exists ch s', step c s ch = Some s') /\
  (exists more s', run_from c s more = Some s' /\ all_done s' = true).
Proof.
  intros c sched s Hm H. split; [exact (run_bounded c sched _ _ H)|]. split.
  - apply no_hang; [exact Hm|exact (run_reachable _ _ _ H)].
  - apply completes; [exact Hm|exact (run_reachable _ _ _ H)].
Qed.

Lemma dead_sticky_stmt : forall c sched1 s1 e,
  1 <= c_max c -> run c sched1 = Some s1 -> s_dead s1 = Some e ->
  (exists good bad, s_hist s1 = good ++ bad /\ bad <> [] /\
                    Forall (fun x => exists b, snd x = RPacket b) good /\ Forall (fun x => snd x = RErr e) bad) /\
  (forall sched2 s2, run_from c s1 sched2 = Some s2 ->
     s_dead s2 = Some e /\
     (forall k buf, result_of s2 k = Some (RPacket buf) -> result_of s1 k = Some (RPacket buf)) /\
     (length sched2 + measure s2 <= measure s1)%nat /\
     (all_done s2 = false -> exists ch s3, step c s2 ch = Some s3)) /\
  (exists more s', run_from c s1 more = Some s' /\ all_done s' = true).
Proof.
  intros c sched1 s1 e Hm H Hd. pose proof (run_reachable _ _ _ H) as Hr.
  destruct (dead_sticky_safe c s1 e Hr Hd) as [A B]. split; [exact A|]. split.
  - intros sched2 s2 H2. destruct (B sched2 s2 H2) as [B1 B2]. split; [exact B1|]. split; [exact B2|]. split.
    + exact (run_bounded c sched2 _ _ H2).
    + apply no_hang; [exact Hm|]. eapply reachable_run_from; eauto.
  - apply completes; assumption.
Qed.

Lemma wire_bound_partial_stmt : forall c sched s, 1 <= c_max c -> run c sched = Some s -> outstanding s <= c_max c + 1.
Proof. intros c sched s Hm H. apply wire_bound_partial; [exact Hm|exact (run_reachable _ _ _ H)]. Qed.

Lemma replay_stmt : forall c log s, replay_log c log = Some s -> exists sched, run c sched = Some s.
Proof. intros c log s H. exact (replay_log_reachable c log s H). Qed.
