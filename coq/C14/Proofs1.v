(* C14 — invariants of the connection model, part 1: lock discipline, wire order = promise order,
   channel capacity, and the bound on requests awaiting a response. *)
From Coq Require Import List ZArith Bool Lia Arith.
From Hammer Require Import Tactics.
From SV Require Import C14.Model C14.Basics.
Import ListNotations.
Open Scope Z_scope.

Definition holds (p : pc) : bool := match p with PLocked | PWrote | PEnqd | PClosing => true | _ => false end.

(* b.lock: exactly the callers between Lock and Unlock hold it; the written-but-not-enqueued promise belongs to the holder *)
Record InvLock (s : state) : Prop := {
  il_holder : forall k cl, nth_error (s_callers s) k = Some cl -> holds (cpc cl) = true -> s_lock s = Some k;
  il_lock : forall k, s_lock s = Some k -> exists cl, nth_error (s_callers s) k = Some cl /\ holds (cpc cl) = true;
  il_wrote : forall k cl, nth_error (s_callers s) k = Some cl -> cpc cl = PWrote -> exists p, s_inhand s = Some p /\ p_k p = k;
  il_inhand : forall p, s_inhand s = Some p -> exists cl, nth_error (s_callers s) (p_k p) = Some cl /\ cpc cl = PWrote }.

Ltac upd_inv :=
  repeat match goal with
         | H : nth_error (upd _ _ _) _ = Some _ |- _ =>
           apply nth_upd_inv in H; destruct H as [(-> & -> & ?old & ?Hold) | (?Hne & H)]
         end.

Ltac ex_upd :=
  match goal with
  | |- exists cl, nth_error (upd ?k ?v ?l) ?j = Some cl /\ _ =>
    let Heq := fresh "Heq" in
    destruct (Nat.eq_dec j k) as [Heq|Heq];
    [ rewrite ?Heq in *; eexists; split; [eapply nth_upd_same; eassumption | cbn [cpc ck cid set_pc set_pc_id holds] ]
    | rewrite (nth_upd_other l k j v Heq) ]
  end.

Lemma nth_map_mk k l cl : nth_error (map mkcaller l) k = Some cl -> cpc cl = PStart /\ cid cl = None.
Proof. revert k; induction l; intros [|k] H; simpl in *; try discriminate; eauto. injection H as <-. split; reflexivity. Qed.

Lemma invlock_init c : InvLock (init c).
Proof.
  split; simpl; intros.
  - apply nth_map_mk in H as [H _]. rewrite H in H0. discriminate.
  - discriminate.
  - apply nth_map_mk in H as [H _]. congruence.
  - discriminate.
Qed.

Lemma invlock_step c s ch s' : InvLock s -> step c s ch = Some s' -> InvLock s'.
Proof.
  intros [I1 I2 I3 I4] H. destruct ch; step_inv H; bool_hyps; split; cbn [s_lock s_callers s_inhand]; intros.
  all: upd_inv; cbn [cpc set_pc set_pc_id holds] in *; try discriminate; try congruence; eauto.
  all: try match goal with Hh : s_inhand _ = Some ?p |- _ =>
         let cl := fresh "cl" in let Hn := fresh "Hn" in let Hp := fresh "Hp" in
         destruct (I4 _ Hh) as (cl & Hn & Hp);
         assert (s_lock _ = Some (p_k p)) by (eapply I1; [exact Hn | rewrite Hp; reflexivity]) end.
  all: try congruence.
  all: try (ex_upd; eauto; try congruence).
  all: try (timeout 20 hauto unfold: holds).
  all: try (match goal with I : forall k, _ = Some k -> exists _, _, Hl : _ = Some _ |- _ => destruct (I _ Hl) as (? & ? & ?) end; timeout 20 hauto unfold: holds).
Qed.

Lemma invlock_reachable c s : reachable c s -> InvLock s.
Proof. apply invariant; [apply invlock_init | intros; eapply invlock_step; eauto]. Qed.

(* ---------- wire order = promise order (the single lock) ---------- *)
Definition InvOrder (s : state) : Prop := map p_id (all_promises s) = resp_ids (s_wire s).

Lemma resp_ids_app w1 w2 : resp_ids (w1 ++ w2) = resp_ids w1 ++ resp_ids w2.
Proof. unfold resp_ids. now rewrite filter_app, map_app. Qed.

Lemma inhand_none_if_locked s k cl :
  InvLock s -> nth_error (s_callers s) k = Some cl -> cpc cl = PLocked -> s_inhand s = None.
Proof.
  intros [I1 I2 I3 I4] Hn Hp. destruct (s_inhand s) as [p|] eqn:E; [|reflexivity].
  destruct (I4 _ eq_refl) as (cl' & Hn' & Hp').
  assert (s_lock s = Some (p_k p)) by (eapply I1; [exact Hn'|rewrite Hp'; reflexivity]).
  assert (s_lock s = Some k) by (eapply I1; [exact Hn|rewrite Hp; reflexivity]).
  assert (p_k p = k) by congruence. subst k. congruence.
Qed.

Lemma invorder_step c s ch s' : InvLock s -> InvOrder s -> step c s ch = Some s' -> InvOrder s'.
Proof.
  intros IL IO H. unfold InvOrder, all_promises in *.
  destruct ch; step_inv H; bool_hyps;
    cbn [s_hist s_recv s_fifo s_inhand s_wire serving_part inhand_part] in *;
    rewrite ?E, ?E0, ?E1, ?E2, ?E3 in IO; cbn [serving_part inhand_part] in IO; auto.
  all: try rewrite (inhand_none_if_locked _ _ _ IL E E0) in IO.
  all: rewrite ?resp_ids_app, <- IO; cbn [resp_ids filter map snd fst inhand_part app];
    repeat (rewrite ?map_app, ?app_nil_r, <- ?app_assoc; cbn [map fst app p_id]); reflexivity.
Qed.

(* ---------- channel capacity and counting ---------- *)
Definition idle_slot (r : rstate) : Z := match r with RIdle => 1 | _ => 0 end.
Definition busy (r : rstate) : nat := match r with RServing _ | RDeliv _ _ => 1%nat | _ => 0%nat end.
Definition delivering (r : rstate) : nat := match r with RDeliv _ _ => 1%nat | _ => 0%nat end.

Record InvCount (c : cfg) (s : state) : Prop := {
  ic_room : Z.of_nat (length (s_fifo s)) <= cap c + idle_slot (s_recv s);
  ic_hist : length (s_hist s) = (s_ndone s + delivering (s_recv s))%nat }.

Lemma invcount_init c : 1 <= c_max c -> InvCount c (init c).
Proof. intro H. split; simpl; unfold cap; lia. Qed.

Lemma invcount_step c s ch s' : 1 <= c_max c -> InvCount c s -> step c s ch = Some s' -> InvCount c s'.
Proof.
  intros Hm [I1 I2] H.
  destruct ch; step_inv H; bool_hyps; split; cbn [s_fifo s_recv s_hist s_ndone idle_slot delivering] in *;
    rewrite ?E, ?E0, ?E1, ?E2 in *; cbn [idle_slot delivering length] in *;
    unfold cap, has_room in *; rewrite ?app_length; cbn [length];
    repeat match goal with Hr : (_ <? _) = true |- _ => apply Z.ltb_lt in Hr end;
    rewrite ?E, ?E0, ?E1, ?E2 in *; cbn [idle_slot delivering length] in *; try lia.
  unfold cap, idle_slot in *. destruct (s_recv s); lia.
Qed.

(* requests awaiting a response = promise in service + channel + the one written but not yet enqueued *)
Lemma outstanding_eq s :
  InvOrder s -> length (s_hist s) = (s_ndone s + delivering (s_recv s))%nat ->
  outstanding s = Z.of_nat (busy (s_recv s)) + Z.of_nat (length (s_fifo s)) + Z.of_nat (length (inhand_part (s_inhand s))).
Proof.
  intros IO IH. unfold outstanding. rewrite <- IO. unfold all_promises.
  rewrite map_length, !app_length, map_length, IH.
  destruct (s_recv s); cbn [serving_part busy delivering length] in *; lia.
Qed.

Lemma wire_bound_partial c s :
  1 <= c_max c -> reachable c s -> outstanding s <= c_max c + 1.
Proof.
  intros Hm Hr.
  assert (IO : InvOrder s /\ InvCount c s).
  { enough (InvLock s /\ InvOrder s /\ InvCount c s) by tauto. revert s Hr. apply (invariant c (fun s => InvLock s /\ InvOrder s /\ InvCount c s)).
    - split; [apply invlock_init|split; [reflexivity|apply invcount_init; exact Hm]].
    - intros s0 ch s1 (A & B & C) Hs. split; [eapply invlock_step; eauto|split].
      + eapply invorder_step; eauto.
      + eapply invcount_step; eauto. }
  destruct IO as [IO [I1 I2]].
  rewrite (outstanding_eq s IO I2). unfold cap in I1.
  destruct (s_recv s), (s_inhand s); cbn [busy idle_slot inhand_part length] in *; lia.
Qed.

Lemma invorder_reachable c s : reachable c s -> InvOrder s.
Proof.
  intro Hr. enough (InvLock s /\ InvOrder s) by tauto. revert s Hr. apply invariant.
  - split; [apply invlock_init|reflexivity].
  - intros s0 ch s1 (A & B) Hs. split; [eapply invlock_step; eauto|eapply invorder_step; eauto].
Qed.
