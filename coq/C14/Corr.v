(* C14 — correspondence: the harness (go/harness/cmd/c14corr) runs a real sarama.Broker against a
   scripted TCP server with concurrent callers and logs the verifPoint events of broker.go.  A case
   carries the configuration, every byte the server sent, the event log and what each call returned.
   [ok_c14] replays the log through the model's step function (Model.replay_log: every step must be
   enabled and must reproduce the logged ids / outcomes) and compares the projected observables:
   each call's return value, the request ids in the order the server read them, nobody left waiting. *)
From Coq Require Import List ZArith Bool.
From SV Require Import Base.Corr C14.Model.
Import ListNotations.
Open Scope Z_scope.

Inductive obs := OPacket (tag : Z) | OBadBody | OErr (e : Z) | ONone | OHung.

Record ccase := {
  cc_cfg : cfg;
  cc_api : list Z;        (* per call: 0 Heartbeat v0, 1 ApiVersions v0, 2 ListPartitionReassignments v0, 9 n/a *)
  cc_log : list event;
  cc_res : list obs;      (* what each call returned *)
  cc_wire : list Z }.     (* correlation ids in the order the server read the requests *)

(* the serial tag the harness server puts into a well-formed response body of each api *)
Definition tag_of (api : Z) (buf : list Z) : option Z :=
  match api, buf with
  | 0, [a; b] => Some (a * 256 + b)
  | 1, [a; b; 0; 0; 0; 0] => Some (a * 256 + b)
  | 2, [a; b; c; d; 0; 0; 0; 1; 0] => Some (((a * 256 + b) * 256 + c) * 256 + d)
  | _, _ => None
  end.

Definition res_ok (api : Z) (r : option result) (o : obs) : bool :=
  match r, o with
  | Some (RPacket buf), OPacket t => match tag_of api buf with Some t' => t =? t' | None => false end
  | Some (RPacket buf), OBadBody => match tag_of api buf with None => true | Some _ => false end
  | Some (RErr e), OErr e' => e =? e'
  | Some RNone, ONone => true
  | _, _ => false
  end.

Fixpoint results_ok (s : state) (k : nat) (apis : list Z) (os : list obs) : bool :=
  match apis, os with
  | [], [] => true
  | a :: apis', o :: os' => res_ok a (result_of s k) o && results_ok s (S k) apis' os'
  | _, _ => false
  end.

Fixpoint is_prefix (a b : list Z) : bool :=
  match a, b with
  | [], _ => true
  | x :: a', y :: b' => (x =? y) && is_prefix a' b'
  | _ :: _, [] => false
  end.

Definition ok_c14 (a : ccase) : bool :=
  match replay_log (cc_cfg a) (cc_log a) with
  | None => false
  | Some s =>
    all_done s && Nat.eqb (length (cc_res a)) (length (s_callers s)) &&
    results_ok s 0 (cc_api a) (cc_res a) &&
    is_prefix (cc_wire a) (map fst (s_wire s))
  end.
Definition mismatches_c14 := mismatches ok_c14.
