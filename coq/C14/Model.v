(* C14 — executable model of one Broker connection (broker.go: send, responseReceiver, Close;
   response_header.go: responseHeader.decode).  No proofs here.

   Concurrent callers and the single receiver goroutine are a labelled transition system with an
   explicit schedule: [step cfg s c] is the effect of choice [c] in state [s] ([None] = not enabled),
   [run cfg sched] folds a schedule.  [send] is split at its shared accesses:
     take lock / write request / enqueue promise (needs room, lock still held) / release lock.
   The server is the byte stream it sends plus what happens once the bytes are exhausted
   (silence, i.e. the read deadline fires, or connection close).  Delays are schedules.
   Errors are small integers (the harness maps Go errors to the same ids):
     1 io.EOF  2 io.ErrUnexpectedEOF  3 read timeout  4 "message of length N too large or too small"
     5 "correlation ID didn't match"  6 ErrNotConnected  8 header decode error (tagged-field byte)
     other ids: failures of send before/at the write (encode error, unsupported version, write error). *)
From Coq Require Import List ZArith Bool Lia.
Import ListNotations.
Open Scope Z_scope.

(* ---------- integers / bytes ---------- *)
Definition wrap32 (x : Z) : Z := (x + 2147483648) mod 4294967296 - 2147483648.
(* big-endian signed 32-bit (real_decoder.getInt32) *)
Definition be32s (b0 b1 b2 b3 : Z) : Z := wrap32 (b0 * 16777216 + b1 * 65536 + b2 * 256 + b3).

(* ---------- configuration ---------- *)
Inductive term := TStall | TClose.                 (* after the last byte: silence (deadline) | peer closed *)
Inductive ckind :=
| KReq (hv : Z)      (* a call expecting a response whose header has version hv *)
| KNoResp            (* a request without response (Produce with RequiredAcks = NoResponse) *)
| KClose.            (* Broker.Close *)

Record cfg := {
  c_max : Z;                 (* conf.Net.MaxOpenRequests *)
  c_maxresp : Z;             (* MaxResponseSize *)
  c_corr0 : Z;               (* b.correlationID when the connection opens *)
  c_kinds : list ckind;      (* the calls (one caller = one call) *)
  c_stream : list Z;         (* every byte the server sends, in order *)
  c_term : term }.

Definition cap (c : cfg) : Z := c_max c - 1.      (* make(chan responsePromise, MaxOpenRequests-1) *)

(* ---------- state ---------- *)
Record promise := { p_k : nat; p_id : Z; p_hv : Z }.     (* owner, correlationID, headerVersion *)
Inductive result := RPacket (buf : list Z) | RErr (e : Z) | RNone.   (* RNone: nil without a response *)
Inductive pc := PStart | PLocked | PWrote | PEnqd | PWait | PClosing | PDone (r : result).
Record caller := { ck : ckind; cpc : pc; cid : option Z }.
Inductive rstate := RIdle | RServing (p : promise) | RDeliv (p : promise) (r : result) | RExited.

Record state := {
  s_corr : Z;                         (* b.correlationID *)
  s_lock : option nat;                (* holder of b.lock *)
  s_callers : list caller;
  s_inhand : option promise;          (* request written, promise not yet enqueued (holder is between the two) *)
  s_fifo : list promise;              (* b.responses *)
  s_chclosed : bool;                  (* close(b.responses) done *)
  s_recv : rstate;                    (* responseReceiver *)
  s_dead : option Z;                  (* its local `dead` *)
  s_wire : list (Z * bool);           (* requests written, in order: (correlation id, expects a response) *)
  s_stream : list Z;                  (* bytes not yet read by the receiver *)
  s_connnil : bool;                   (* b.conn == nil (after Close) *)
  (* ghost history, not read by any step *)
  s_hist : list (promise * result);   (* promises served by the receiver, oldest first *)
  s_raw : list (list Z);              (* bytes consumed by each service *)
  s_ndone : nat }.                    (* promises whose caller has received the answer *)

Definition mkcaller (k : ckind) : caller := {| ck := k; cpc := PStart; cid := None |}.

Definition init (c : cfg) : state := {|
  s_corr := c_corr0 c; s_lock := None; s_callers := map mkcaller (c_kinds c); s_inhand := None;
  s_fifo := []; s_chclosed := false; s_recv := RIdle; s_dead := None; s_wire := [];
  s_stream := c_stream c; s_connnil := false; s_hist := []; s_raw := []; s_ndone := 0 |}.

(* ---------- the receiver's work on one promise (pure) ---------- *)
Definition header_len (hv : Z) : Z := if hv <? 1 then 8 else 9.      (* getHeaderLength *)

(* Broker.readFull on the remaining stream: n bytes or an error *)
Definition read_full (n : Z) (st : list Z) (t : term) : list Z + Z :=
  if n <=? Z.of_nat (length st) then inl (firstn (Z.to_nat n) st)
  else inr (match t with
            | TStall => 3
            | TClose => match st with [] => 1 | _ => 2 end
            end).

(* versionedDecode(header, &responseHeader{}, hv): (length, correlationID) or an error *)
Definition decode_header (hv maxresp : Z) (h : list Z) : (Z * Z) + Z :=
  match h with
  | b0 :: b1 :: b2 :: b3 :: c0 :: c1 :: c2 :: c3 :: r =>
    let len := be32s b0 b1 b2 b3 in
    if (len <=? 4) || (maxresp <? len) then inr 4
    else
      let id := be32s c0 c1 c2 c3 in
      if hv <? 1 then inl (len, id)
      else match r with
           | t :: _ => if t =? 0 then inl (len, id) else inr 8
           | [] => inr 8
           end
  | _ => inr 8
  end.

Definition body_len (hv len : Z) : Z := len - header_len hv + 4.

(* one loop iteration of responseReceiver with dead == nil:
   (answer for the promise, new value of dead, remaining stream, bytes consumed) *)
Definition serve (maxresp : Z) (t : term) (p : promise) (st : list Z) : result * option Z * list Z * list Z :=
  let hl := header_len (p_hv p) in
  match read_full hl st t with
  | inr e => (RErr e, Some e, st, [])
  | inl h =>
    let st1 := skipn (Z.to_nat hl) st in
    match decode_header (p_hv p) maxresp h with
    | inr e => (RErr e, Some e, st1, h)
    | inl (len, id) =>
      if negb (id =? p_id p) then (RErr 5, Some 5, st1, h)
      else
        let bl := body_len (p_hv p) len in
        match read_full bl st1 t with
        | inr e => (RErr e, Some e, st1, h)
        | inl buf => (RPacket buf, None, skipn (Z.to_nat bl) st1, h ++ buf)
        end
    end
  end.

(* ---------- steps ---------- *)
Inductive choice :=
| CLock (k : nat)                  (* caller k gets b.lock (send or Close); with conn == nil it returns ErrNotConnected *)
| CWrite (k : nat) (fail : option Z)  (* holder k writes its request (None) or fails before/at the write with error e *)
| CEnq (k : nat)                   (* b.responses <- promise: only when there is room *)
| CUnlock (k : nat)                (* send returns: unlock, then wait on the promise *)
| CRecv (k : nat)                  (* caller k takes its answer from promise.packets / promise.errors *)
| CCloseEnd (k : nat)              (* Close: <-b.done returned; conn.Close, conn = nil, unlock *)
| RDeq                             (* receiver: next promise from b.responses *)
| RServe                           (* receiver: dead / read header / decode / compare id / read body *)
| RExit.                           (* receiver: channel closed and drained; close(b.done) *)

Fixpoint upd {A} (k : nat) (v : A) (l : list A) : list A :=
  match l, k with
  | [], _ => []
  | _ :: r, O => v :: r
  | x :: r, S j => x :: upd j v r
  end.

Definition set_pc (c : caller) (p : pc) : caller := {| ck := ck c; cpc := p; cid := cid c |}.
Definition set_pc_id (c : caller) (p : pc) (i : Z) : caller := {| ck := ck c; cpc := p; cid := Some i |}.

Definition with_callers (s : state) (l : list caller) : state := {|
  s_corr := s_corr s; s_lock := s_lock s; s_callers := l; s_inhand := s_inhand s; s_fifo := s_fifo s;
  s_chclosed := s_chclosed s; s_recv := s_recv s; s_dead := s_dead s; s_wire := s_wire s;
  s_stream := s_stream s; s_connnil := s_connnil s; s_hist := s_hist s; s_raw := s_raw s; s_ndone := s_ndone s |}.
Definition with_lock (s : state) (l : option nat) : state := {|
  s_corr := s_corr s; s_lock := l; s_callers := s_callers s; s_inhand := s_inhand s; s_fifo := s_fifo s;
  s_chclosed := s_chclosed s; s_recv := s_recv s; s_dead := s_dead s; s_wire := s_wire s;
  s_stream := s_stream s; s_connnil := s_connnil s; s_hist := s_hist s; s_raw := s_raw s; s_ndone := s_ndone s |}.
Definition with_recv (s : state) (r : rstate) : state := {|
  s_corr := s_corr s; s_lock := s_lock s; s_callers := s_callers s; s_inhand := s_inhand s; s_fifo := s_fifo s;
  s_chclosed := s_chclosed s; s_recv := r; s_dead := s_dead s; s_wire := s_wire s;
  s_stream := s_stream s; s_connnil := s_connnil s; s_hist := s_hist s; s_raw := s_raw s; s_ndone := s_ndone s |}.

Definition eqb_nat_opt (o : option nat) (k : nat) : bool :=
  match o with Some j => Nat.eqb j k | None => false end.

(* room for a channel send: buffer not full, or the receiver is waiting in `range` (hand-off slot) *)
Definition has_room (c : cfg) (s : state) : bool :=
  Z.of_nat (length (s_fifo s)) <? cap c + (match s_recv s with RIdle => 1 | _ => 0 end).

Definition step (c : cfg) (s : state) (ch : choice) : option state :=
  match ch with
  | CLock k =>
    match s_lock s, nth_error (s_callers s) k with
    | None, Some cl =>
      match cpc cl with
      | PStart =>
        if s_connnil s then Some (with_callers s (upd k (set_pc cl (PDone (RErr 6))) (s_callers s)))
        else match ck cl with
             | KClose =>     (* close(b.responses) follows at once *)
               Some {| s_corr := s_corr s; s_lock := Some k; s_callers := upd k (set_pc cl PClosing) (s_callers s);
                       s_inhand := s_inhand s; s_fifo := s_fifo s; s_chclosed := true; s_recv := s_recv s;
                       s_dead := s_dead s; s_wire := s_wire s; s_stream := s_stream s; s_connnil := false;
                       s_hist := s_hist s; s_raw := s_raw s; s_ndone := s_ndone s |}
             | _ => Some (with_lock (with_callers s (upd k (set_pc cl PLocked) (s_callers s))) (Some k))
             end
      | _ => None
      end
    | _, _ => None
    end
  | CWrite k fail =>
    match nth_error (s_callers s) k with
    | Some cl =>
      match cpc cl with
      | PLocked =>
        if eqb_nat_opt (s_lock s) k then
          match fail with
          | Some e => Some (with_lock (with_callers s (upd k (set_pc cl (PDone (RErr e))) (s_callers s))) None)
          | None =>
            let id := s_corr s in
            match ck cl with
            | KReq hv =>
              Some {| s_corr := wrap32 (id + 1); s_lock := s_lock s;
                      s_callers := upd k (set_pc_id cl PWrote id) (s_callers s);
                      s_inhand := Some {| p_k := k; p_id := id; p_hv := hv |}; s_fifo := s_fifo s;
                      s_chclosed := s_chclosed s; s_recv := s_recv s; s_dead := s_dead s;
                      s_wire := s_wire s ++ [(id, true)]; s_stream := s_stream s; s_connnil := s_connnil s;
                      s_hist := s_hist s; s_raw := s_raw s; s_ndone := s_ndone s |}
            | KNoResp =>
              Some {| s_corr := wrap32 (id + 1); s_lock := s_lock s;
                      s_callers := upd k (set_pc_id cl PEnqd id) (s_callers s);
                      s_inhand := None; s_fifo := s_fifo s;
                      s_chclosed := s_chclosed s; s_recv := s_recv s; s_dead := s_dead s;
                      s_wire := s_wire s ++ [(id, false)]; s_stream := s_stream s; s_connnil := s_connnil s;
                      s_hist := s_hist s; s_raw := s_raw s; s_ndone := s_ndone s |}
            | KClose => None
            end
          end
        else None
      | _ => None
      end
    | None => None
    end
  | CEnq k =>
    match nth_error (s_callers s) k, s_inhand s with
    | Some cl, Some p =>
      match cpc cl with
      | PWrote =>
        if eqb_nat_opt (s_lock s) k && Nat.eqb (p_k p) k && has_room c s && negb (s_chclosed s) then
          Some {| s_corr := s_corr s; s_lock := s_lock s; s_callers := upd k (set_pc cl PEnqd) (s_callers s);
                  s_inhand := None; s_fifo := s_fifo s ++ [p]; s_chclosed := s_chclosed s; s_recv := s_recv s;
                  s_dead := s_dead s; s_wire := s_wire s; s_stream := s_stream s; s_connnil := s_connnil s;
                  s_hist := s_hist s; s_raw := s_raw s; s_ndone := s_ndone s |}
        else None
      | _ => None
      end
    | _, _ => None
    end
  | CUnlock k =>
    match nth_error (s_callers s) k with
    | Some cl =>
      match cpc cl with
      | PEnqd =>
        if eqb_nat_opt (s_lock s) k then
          let next := match ck cl with KReq _ => PWait | _ => PDone RNone end in
          Some (with_lock (with_callers s (upd k (set_pc cl next) (s_callers s))) None)
        else None
      | _ => None
      end
    | None => None
    end
  | CRecv k =>
    match nth_error (s_callers s) k, s_recv s with
    | Some cl, RDeliv p r =>
      match cpc cl with
      | PWait =>
        if Nat.eqb (p_k p) k then
          Some {| s_corr := s_corr s; s_lock := s_lock s; s_callers := upd k (set_pc cl (PDone r)) (s_callers s);
                  s_inhand := s_inhand s; s_fifo := s_fifo s; s_chclosed := s_chclosed s; s_recv := RIdle;
                  s_dead := s_dead s; s_wire := s_wire s; s_stream := s_stream s; s_connnil := s_connnil s;
                  s_hist := s_hist s; s_raw := s_raw s; s_ndone := S (s_ndone s) |}
        else None
      | _ => None
      end
    | _, _ => None
    end
  | CCloseEnd k =>
    match nth_error (s_callers s) k, s_recv s with
    | Some cl, RExited =>
      match cpc cl with
      | PClosing =>
        if eqb_nat_opt (s_lock s) k then
          Some {| s_corr := s_corr s; s_lock := None; s_callers := upd k (set_pc cl (PDone RNone)) (s_callers s);
                  s_inhand := s_inhand s; s_fifo := s_fifo s; s_chclosed := s_chclosed s; s_recv := RExited;
                  s_dead := s_dead s; s_wire := s_wire s; s_stream := s_stream s; s_connnil := true;
                  s_hist := s_hist s; s_raw := s_raw s; s_ndone := s_ndone s |}
        else None
      | _ => None
      end
    | _, _ => None
    end
  | RDeq =>
    match s_recv s, s_fifo s with
    | RIdle, p :: rest =>
      Some {| s_corr := s_corr s; s_lock := s_lock s; s_callers := s_callers s; s_inhand := s_inhand s;
              s_fifo := rest; s_chclosed := s_chclosed s; s_recv := RServing p; s_dead := s_dead s;
              s_wire := s_wire s; s_stream := s_stream s; s_connnil := s_connnil s;
              s_hist := s_hist s; s_raw := s_raw s; s_ndone := s_ndone s |}
    | _, _ => None
    end
  | RServe =>
    match s_recv s with
    | RServing p =>
      match s_dead s with
      | Some e =>
        Some {| s_corr := s_corr s; s_lock := s_lock s; s_callers := s_callers s; s_inhand := s_inhand s;
                s_fifo := s_fifo s; s_chclosed := s_chclosed s; s_recv := RDeliv p (RErr e); s_dead := Some e;
                s_wire := s_wire s; s_stream := s_stream s; s_connnil := s_connnil s;
                s_hist := s_hist s ++ [(p, RErr e)]; s_raw := s_raw s ++ [[]]; s_ndone := s_ndone s |}
      | None =>
        let '(r, d, st', raw) := serve (c_maxresp c) (c_term c) p (s_stream s) in
        Some {| s_corr := s_corr s; s_lock := s_lock s; s_callers := s_callers s; s_inhand := s_inhand s;
                s_fifo := s_fifo s; s_chclosed := s_chclosed s; s_recv := RDeliv p r; s_dead := d;
                s_wire := s_wire s; s_stream := st'; s_connnil := s_connnil s;
                s_hist := s_hist s ++ [(p, r)]; s_raw := s_raw s ++ [raw]; s_ndone := s_ndone s |}
      end
    | _ => None
    end
  | RExit =>
    match s_recv s, s_fifo s with
    | RIdle, [] => if s_chclosed s then Some (with_recv s RExited) else None
    | _, _ => None
    end
  end.

Fixpoint run_from (c : cfg) (s : state) (sched : list choice) : option state :=
  match sched with
  | [] => Some s
  | ch :: r => match step c s ch with Some s' => run_from c s' r | None => None end
  end.
Definition run (c : cfg) (sched : list choice) : option state := run_from c (init c) sched.

(* ---------- observables ---------- *)
Definition resp_ids (w : list (Z * bool)) : list Z := map fst (filter snd w).
Definition serving_part (r : rstate) : list promise := match r with RServing p => [p] | _ => [] end.
Definition inhand_part (o : option promise) : list promise := match o with Some p => [p] | None => [] end.
(* every promise ever made, oldest first *)
Definition all_promises (s : state) : list promise :=
  map fst (s_hist s) ++ serving_part (s_recv s) ++ s_fifo s ++ inhand_part (s_inhand s).
(* requests written that expect a response and whose call has not been answered yet *)
Definition outstanding (s : state) : Z := Z.of_nat (length (resp_ids (s_wire s))) - Z.of_nat (s_ndone s).

Definition result_of (s : state) (k : nat) : option result :=
  match nth_error (s_callers s) k with
  | Some cl => match cpc cl with PDone r => Some r | _ => None end
  | None => None
  end.
Definition call_id (s : state) (k : nat) : option Z :=
  match nth_error (s_callers s) k with Some cl => cid cl | None => None end.
Definition is_done (cl : caller) : bool := match cpc cl with PDone _ => true | _ => false end.
Definition all_done (s : state) : bool := forallb is_done (s_callers s).

(* maximum of [outstanding] along a schedule (for the wire-bound witness and the correspondence) *)
Fixpoint max_outstanding (c : cfg) (s : state) (sched : list choice) : option Z :=
  match sched with
  | [] => Some (outstanding s)
  | ch :: r => match step c s ch with
               | Some s' => match max_outstanding c s' r with Some m => Some (Z.max (outstanding s) m) | None => None end
               | None => None
               end
  end.

(* ---------- hook events (local trace validation) ----------
   What the harness logs at the verifPoint call sites, each translated to the model steps it stands for.
   Events of the lock holders (EWrote/EEnq/EFail/ECloseBegin/ECloseEnd/ENotConn) are totally ordered by
   b.lock, the receiver's (EDeq/EAns/EExit) by its single goroutine; the interleaving of the two
   sequences is not fixed by the log (a point is logged after its action) and is chosen greedily. *)
Inductive event :=
| EWrote (k : nat) (id : Z)          (* broker.send.wrote: request written with this correlation id *)
| EEnq (k : nat) (id : Z)            (* broker.send.enqueued *)
| EFail (k : nat) (e : Z)            (* send returned error e without writing *)
| ENotConn (k : nat)                 (* send / Close returned ErrNotConnected *)
| ECloseBegin (k : nat)              (* broker.close.begin: channel closed *)
| ECloseEnd (k : nat)                (* Close returned nil *)
| EDeq (id : Z)                      (* broker.recv.dequeued *)
| EAns (id : Z) (ok : bool) (e : Z)  (* broker.recv.delivered (ok) / broker.recv.failed (error id e); the caller has it *)
| EExit                              (* receiver left its loop (inferred from Close returning nil) *)
| ESync (n : nat).                   (* steering: the receiver was held here until n lock-holder events had been logged *)

Definition is_recv_event (e : event) : bool :=
  match e with EDeq _ | EAns _ _ _ | EExit | ESync _ => true | _ => false end.

Definition opt_bind {A B} (o : option A) (f : A -> option B) : option B :=
  match o with Some x => f x | None => None end.
Definition guard (b : bool) (s : state) : option state := if b then Some s else None.

Definition opt_Z_eqb (o : option Z) (v : Z) : bool := match o with Some x => x =? v | None => false end.

Definition kind_of (s : state) (k : nat) : option ckind :=
  match nth_error (s_callers s) k with Some cl => Some (ck cl) | None => None end.

(* the schedule fragment an event stands for *)
Definition event_choices (s : state) (e : event) : list choice :=
  match e with
  | EWrote k _ => match kind_of s k with
                  | Some KNoResp => [CLock k; CWrite k None; CUnlock k]
                  | _ => [CLock k; CWrite k None]
                  end
  | EEnq k _ => [CEnq k; CUnlock k]
  | EFail k e => [CLock k; CWrite k (Some e)]
  | ENotConn k => [CLock k]
  | ECloseBegin k => [CLock k]
  | ECloseEnd k => [CCloseEnd k]
  | EDeq _ => [RDeq]
  | EAns _ _ _ => match s_recv s with RServing p => [RServe; CRecv (p_k p)] | _ => [RServe] end
  | EExit => [RExit]
  | ESync _ => []
  end.

(* the observed values the event carries must be the model's *)
Definition event_check (s0 s : state) (e : event) : bool :=
  match e with
  | EWrote k id => opt_Z_eqb (call_id s k) id && (s_corr s0 =? id)
  | EEnq k id => opt_Z_eqb (call_id s k) id
  | EFail k e => match result_of s k with Some (RErr x) => x =? e | _ => false end
  | ENotConn k => match result_of s k with Some (RErr 6) => true | _ => false end
  | ECloseBegin k => s_chclosed s && eqb_nat_opt (s_lock s) k
  | ECloseEnd k => s_connnil s
  | EDeq id => match s_recv s with RServing p => p_id p =? id | _ => false end
  | EAns id ok e =>
    match s_recv s0 with
    | RServing p =>
      (p_id p =? id) &&
      match result_of s (p_k p) with
      | Some (RPacket _) => ok
      | Some (RErr x) => negb ok && (x =? e)
      | _ => false
      end
    | _ => false
    end
  | EExit => true
  | ESync _ => true
  end.

Definition apply_event (c : cfg) (s : state) (e : event) : option state :=
  opt_bind (run_from c s (event_choices s e)) (fun s' => guard (event_check s s' e) s').

(* greedy merge of the lock holders' sequence with the receiver's sequence; [ns] counts the lock-holder
   events applied so far: [ESync n] in the receiver's sequence can be passed only when ns >= n (what was
   logged before the harness released the held receiver happened before the receiver went on) *)
Definition sync_ok (ns : nat) (r : event) : bool :=
  match r with ESync n => Nat.leb n ns | _ => true end.

Fixpoint replay (c : cfg) (fuel : nat) (s : state) (ns : nat) (ls lr : list event) : option state :=
  match fuel with
  | O => None
  | S f =>
    match ls, lr with
    | [], [] => Some s
    | e :: ls', _ =>
      match apply_event c s e with
      | Some s' => replay c f s' (S ns) ls' lr
      | None => match lr with
                | r :: lr' => if sync_ok ns r then opt_bind (apply_event c s r) (fun s' => replay c f s' ns ls lr') else None
                | [] => None
                end
      end
    | [], r :: lr' => if sync_ok ns r then opt_bind (apply_event c s r) (fun s' => replay c f s' ns [] lr') else None
    end
  end.

Definition replay_log (c : cfg) (log : list event) : option state :=
  replay c (S (length log)) (init c) 0
         (filter (fun e => negb (is_recv_event e)) log) (filter is_recv_event log).
