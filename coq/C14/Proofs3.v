(* C14 — invariants, part 3: nobody is left waiting.  Every reachable state in which some call has not
   returned has an enabled step, and every step decreases a measure: whatever the schedule, a run that
   keeps taking enabled steps ends with every call answered. *)
From Coq Require Import List ZArith Bool Lia Arith.
From Hammer Require Import Tactics.
From SV Require Import C14.Model C14.Basics C14.Proofs1.
Import ListNotations.
Open Scope Z_scope.

Definition recv_part (r : rstate) : list promise :=
  match r with RServing p | RDeliv p _ => [p] | _ => [] end.
Definition pending_list (s : state) : list promise := recv_part (s_recv s) ++ s_fifo s.

Record InvProg (s : state) : Prop := {
  ip_pend : forall p, In p (pending_list s) ->
                      exists cl, nth_error (s_callers s) (p_k p) = Some cl /\ (cpc cl = PEnqd \/ cpc cl = PWait) /\
                                 exists hv, ck cl = KReq hv;
  ip_nodup : NoDup (map p_k (pending_list s));
  ip_wait : forall k cl, nth_error (s_callers s) k = Some cl ->
                         (cpc cl = PWait \/ (cpc cl = PEnqd /\ exists hv, ck cl = KReq hv)) ->
                         In k (map p_k (pending_list s));
  ip_wrote : forall k cl, nth_error (s_callers s) k = Some cl -> cpc cl = PWrote -> exists hv, ck cl = KReq hv;
  ip_closing : forall k cl, nth_error (s_callers s) k = Some cl -> cpc cl = PClosing -> s_chclosed s = true;
  ip_closed : s_chclosed s = true ->
              (exists k cl, s_lock s = Some k /\ nth_error (s_callers s) k = Some cl /\ cpc cl = PClosing) \/ s_connnil s = true;
  ip_exited : s_recv s = RExited -> s_chclosed s = true /\ s_fifo s = [];
  ip_nil : s_connnil s = true -> s_lock s = None }.

Lemma invprog_init c : InvProg (init c).
Proof.
  split; cbn; intros; try contradiction; try discriminate; try constructor.
  all: apply nth_map_mk in H as [H _]; sauto.
Qed.

Lemma invprog_step c s ch s' : InvLock s -> InvProg s -> step c s ch = Some s' -> InvProg s'.
Proof.
  intros [L1 L2 L3 L4] [I1 I2 I3 I4 I5 I6 I7 I8] H.
  destruct ch; step_inv H; bool_hyps; split; unfold pending_list in *;
    cbn [s_lock s_callers s_inhand s_fifo s_recv s_chclosed s_connnil recv_part] in *;
    rewrite ?E, ?E0, ?E1, ?E2, ?E3 in *; cbn [recv_part app] in *; intros.
  all: try discriminate; try assumption; try congruence.
  all: upd_inv; cbn [cpc ck cid set_pc set_pc_id] in *; try discriminate; try congruence; eauto.
  all: try (ex_upd; eauto; try congruence).
  (* Close begins: the closer holds the lock *)
  all: try solve [left; eexists; eexists; split; [reflexivity|split; [eapply nth_upd_same; eassumption|reflexivity]]].
  (* enqueue: the new promise goes to the end of the channel *)
  all: try solve [match goal with
                  | Hin : In _ (_ ++ _ ++ [_]) |- _ =>
                    rewrite app_assoc in Hin; apply in_app_iff in Hin as [Hin|[<-|[]]]; [eapply I1; exact Hin | congruence]
                  end].
  all: try solve [match goal with
                  | Hpk : p_k ?p = ?k, Hc : nth_error _ ?k = Some ?c0 |- NoDup (map p_k (_ ++ _ ++ [?p])) =>
                    rewrite app_assoc, map_app; apply NoDup_app_one; [exact I2|];
                    let Hin := fresh in let q := fresh in let Hq := fresh in
                    intro Hin; apply in_map_iff in Hin as (q & Hq & Hin);
                    let cl := fresh in let Hn := fresh in let Hpc := fresh in
                    destruct (I1 q Hin) as (cl & Hn & Hpc & _);
                    rewrite Hq, Hpk in Hn; assert (cl = c0) by congruence; subst cl; destruct Hpc; congruence
                  end].
  all: try solve [rewrite app_assoc, map_app; apply in_app_iff; right; left; assumption].
  all: try solve [rewrite app_assoc, map_app; apply in_app_iff; left; eapply I3; eassumption].
  (* the caller takes its answer: its promise leaves the receiver *)
  all: try solve [exfalso; cbn [map] in I2; inversion I2 as [|? ? Hnin Hnd]; apply Hnin;
                  match goal with Hp : p_k ?p = ?k, Hq : p_k ?q = ?k, Hin : In ?q _ |- In (p_k ?p) _ =>
                                  rewrite Hp, <- Hq; apply in_map; exact Hin end].
  all: try solve [cbn [map] in I2; inversion I2; assumption].
  all: try solve [match goal with Hn : nth_error _ ?k0 = Some ?cl, Hw : cpc ?cl = PWait \/ _ |- In ?k0 _ =>
                                  specialize (I3 _ _ Hn Hw); cbn [map] in I3; destruct I3 as [I3|I3]; [congruence|exact I3] end].
  all: try solve [match goal with Hc : s_chclosed _ = true, Hk : nth_error _ ?k = Some ?c0 |- _ =>
                    let k' := fresh in let cl' := fresh in let Hl := fresh in let Hn := fresh in let Hp := fresh in
                    destruct (I6 Hc) as [(k' & cl' & Hl & Hn & Hp)|Hcn];
                    [left; exists k', cl'; split; [exact Hl|split; [|exact Hp]]; rewrite nth_upd_other; [exact Hn|];
                     intros ->; rewrite Hk in Hn; injection Hn as <-; congruence
                    | right; exact Hcn] end].
  all: match goal with |- _ => timeout 20 hauto unfold: holds end.
Qed.

Lemma invprog_reachable c s : reachable c s -> InvLock s /\ InvProg s.
Proof.
  revert s. apply (invariant c (fun s => InvLock s /\ InvProg s)).
  - split; [apply invlock_init|apply invprog_init].
  - intros s0 ch s1 (A & B) Hs. split; [eapply invlock_step; eauto|eapply invprog_step; eauto].
Qed.

(* ---------- enabledness of the individual steps ---------- *)
Lemma eqb_nat_opt_refl k : eqb_nat_opt (Some k) k = true.
Proof. cbn. apply Nat.eqb_refl. Qed.

Lemma en_write_fail c s k cl :
  nth_error (s_callers s) k = Some cl -> cpc cl = PLocked -> s_lock s = Some k ->
  exists s', step c s (CWrite k (Some 7)) = Some s'.
Proof. intros Hn Hp Hl. unfold step. rewrite Hn, Hp, Hl, eqb_nat_opt_refl. eauto. Qed.

Lemma en_unlock c s k cl :
  nth_error (s_callers s) k = Some cl -> cpc cl = PEnqd -> s_lock s = Some k ->
  exists s', step c s (CUnlock k) = Some s'.
Proof. intros Hn Hp Hl. unfold step. rewrite Hn, Hp, Hl, eqb_nat_opt_refl. eauto. Qed.

Lemma en_lock c s k cl :
  nth_error (s_callers s) k = Some cl -> cpc cl = PStart -> s_lock s = None ->
  exists s', step c s (CLock k) = Some s'.
Proof. intros Hn Hp Hl. unfold step. rewrite Hn, Hp, Hl. destruct (s_connnil s), (ck cl); eauto. Qed.

Lemma en_serve c s p : s_recv s = RServing p -> exists s', step c s RServe = Some s'.
Proof.
  intro Hr. unfold step. rewrite Hr. destruct (s_dead s); [eauto|].
  destruct (serve (c_maxresp c) (c_term c) p (s_stream s)) as [[[? ?] ?] ?]. eauto.
Qed.

Lemma en_recv c s p r cl :
  s_recv s = RDeliv p r -> nth_error (s_callers s) (p_k p) = Some cl -> cpc cl = PWait ->
  exists s', step c s (CRecv (p_k p)) = Some s'.
Proof. intros Hr Hn Hp. unfold step. rewrite Hn, Hr, Hp, Nat.eqb_refl. eauto. Qed.

Lemma en_close_end c s k cl :
  s_recv s = RExited -> nth_error (s_callers s) k = Some cl -> cpc cl = PClosing -> s_lock s = Some k ->
  exists s', step c s (CCloseEnd k) = Some s'.
Proof. intros Hr Hn Hp Hl. unfold step. rewrite Hn, Hr, Hp, Hl, eqb_nat_opt_refl. eauto. Qed.

Lemma en_enq c s k cl p :
  nth_error (s_callers s) k = Some cl -> cpc cl = PWrote -> s_lock s = Some k -> s_inhand s = Some p -> p_k p = k ->
  has_room c s = true -> s_chclosed s = false -> exists s', step c s (CEnq k) = Some s'.
Proof.
  intros Hn Hp Hl Hi Hk Hroom Hc. unfold step. rewrite Hn, Hi, Hp, Hl, eqb_nat_opt_refl, Hk, Nat.eqb_refl, Hroom, Hc. cbn. eauto.
Qed.

(* nobody sends on the closed channel: while a request is written but not enqueued the channel is open *)
Lemma wrote_not_closed s k cl :
  InvLock s -> InvProg s -> nth_error (s_callers s) k = Some cl -> cpc cl = PWrote -> s_chclosed s = false.
Proof.
  intros IL IP Hn Hp. destruct (s_chclosed s) eqn:Ec; [exfalso|reflexivity].
  assert (Hl : s_lock s = Some k) by (eapply (il_holder _ IL); [exact Hn|rewrite Hp; reflexivity]).
  destruct (ip_closed _ IP Ec) as [(k' & cl' & Hl' & Hn' & Hp')|Hnil].
  - assert (k' = k) by congruence. subst k'. congruence.
  - pose proof (ip_nil _ IP Hnil). congruence.
Qed.

Lemma not_all_done s : all_done s = false -> exists k cl, nth_error (s_callers s) k = Some cl /\ is_done cl = false.
Proof.
  unfold all_done. induction (s_callers s) as [|x l IH]; cbn; [discriminate|].
  destruct (is_done x) eqn:E; cbn; intro H.
  - destruct (IH H) as (k & cl & Hn & Hd). exists (S k), cl. auto.
  - exists 0%nat, x. auto.
Qed.

(* ---------- no call is left waiting ---------- *)
Theorem no_hang c s :
  1 <= c_max c -> reachable c s -> all_done s = false -> exists ch s', step c s ch = Some s'.
Proof.
  intros Hm Hr Hnd. destruct (invprog_reachable c s Hr) as [IL IP].
  destruct (not_all_done s Hnd) as (k0 & cl0 & Hn0 & Hd0).
  (* what a caller that has not returned and does not hold the lock can do *)
  assert (Hfree : s_lock s = None -> s_fifo s = [] -> recv_part (s_recv s) = [] -> exists ch s', step c s ch = Some s').
  { intros Hl Hf Hrp. destruct (cpc cl0) eqn:Ep; try (cbn in Hd0; unfold is_done in Hd0; rewrite Ep in Hd0; discriminate).
    - exists (CLock k0). eapply en_lock; eauto.
    - pose proof (il_holder _ IL _ _ Hn0) as X. rewrite Ep in X. specialize (X eq_refl). congruence.
    - pose proof (il_holder _ IL _ _ Hn0) as X. rewrite Ep in X. specialize (X eq_refl). congruence.
    - pose proof (il_holder _ IL _ _ Hn0) as X. rewrite Ep in X. specialize (X eq_refl). congruence.
    - exfalso. pose proof (ip_wait _ IP _ _ Hn0 (or_introl Ep)) as X. unfold pending_list in X. rewrite Hf, Hrp in X. exact X.
    - pose proof (il_holder _ IL _ _ Hn0) as X. rewrite Ep in X. specialize (X eq_refl). congruence. }
  (* what the holder of the lock can do when the receiver cannot take a promise from it *)
  assert (Hheld : forall k, s_lock s = Some k ->
                            (has_room c s = true \/ s_chclosed s = true) ->
                            (forall cl, nth_error (s_callers s) k = Some cl -> cpc cl = PClosing -> exists ch s', step c s ch = Some s') ->
                            exists ch s', step c s ch = Some s').
  { intros k Hl Hroom Hclosing. destruct (il_lock _ IL _ Hl) as (cl & Hn & Hh).
    destruct (cpc cl) eqn:Ep; try discriminate.
    - exists (CWrite k (Some 7)). eapply en_write_fail; eauto.
    - destruct (il_wrote _ IL _ _ Hn Ep) as (p & Hi & Hk). pose proof (wrote_not_closed _ _ _ IL IP Hn Ep) as Hc.
      destruct Hroom as [Hroom|Hcl]; [|congruence].
      exists (CEnq k). eapply en_enq; eauto.
    - exists (CUnlock k). eapply en_unlock; eauto.
    - eauto. }
  destruct (s_recv s) eqn:Er.
  - (* receiver waits in range *)
    destruct (s_fifo s) as [|q rest] eqn:Ef.
    + destruct (s_lock s) as [k|] eqn:El; [|apply Hfree; auto].
      apply (Hheld k eq_refl).
      * left. unfold has_room, cap. rewrite Ef, Er. cbn [length]. apply Z.ltb_lt. lia.
      * intros cl Hn Hp. exists RExit. unfold step. rewrite Er, Ef, (ip_closing _ IP _ _ Hn Hp). eauto.
    + exists RDeq. unfold step. rewrite Er, Ef. eauto.
  - exists RServe. eapply en_serve; eauto.
  - (* the answer is ready: its caller takes it, after leaving send *)
    destruct (ip_pend _ IP p) as (cl & Hn & [Hp|Hp] & _).
    { unfold pending_list. rewrite Er. left. reflexivity. }
    + exists (CUnlock (p_k p)). eapply en_unlock; eauto. eapply (il_holder _ IL); [exact Hn|rewrite Hp; reflexivity].
    + exists (CRecv (p_k p)). eapply en_recv; eauto.
  - (* receiver has left its loop *)
    destruct (ip_exited _ IP Er) as [Hc Hf].
    destruct (s_lock s) as [k|] eqn:El; [|apply Hfree; auto].
    apply (Hheld k eq_refl); [right; exact Hc|].
    intros cl Hn Hp. exists (CCloseEnd k). eapply en_close_end; eauto.
Qed.

(* ---------- every step makes progress ---------- *)
Definition pc_w (p : pc) : nat :=
  match p with PStart => 8 | PLocked => 7 | PWrote => 6 | PEnqd => 2 | PWait => 1 | PClosing => 1 | PDone _ => 0 end%nat.
Fixpoint callers_w (l : list caller) : nat :=
  match l with [] => 0 | x :: r => pc_w (cpc x) + callers_w r end%nat.
Definition recv_w (r : rstate) : nat :=
  match r with RIdle => 1 | RServing _ => 2 | RDeliv _ _ => 1 | RExited => 0 end%nat.
Definition measure (s : state) : nat :=
  (callers_w (s_callers s) + 2 * length (s_fifo s) + recv_w (s_recv s))%nat.

Lemma callers_w_upd l k x y :
  nth_error l k = Some x -> (callers_w (upd k y l) + pc_w (cpc x) = callers_w l + pc_w (cpc y))%nat.
Proof.
  revert k; induction l as [|z l IH]; intros [|k] H; cbn in *; try discriminate.
  - injection H as ->. lia.
  - specialize (IH _ H). lia.
Qed.

Theorem step_decreases c s ch s' : step c s ch = Some s' -> (measure s' < measure s)%nat.
Proof.
  intro H. unfold measure.
  destruct ch; step_inv H; cbn [s_callers s_fifo s_recv];
    rewrite ?E, ?E0, ?E1, ?E2, ?E3; cbn [recv_w length]; rewrite ?app_length; cbn [length];
    try match goal with
        | Hn : nth_error (s_callers s) ?k = Some ?x |- context [callers_w (upd ?k ?y _)] =>
          pose proof (callers_w_upd _ _ _ y Hn) as Hw; cbn [cpc set_pc set_pc_id pc_w] in Hw;
          match goal with Hp : cpc x = _ |- _ => rewrite Hp in Hw; cbn [pc_w] in Hw end
        end; try lia.
  all: destruct (ck c0); cbn [pc_w] in *; lia.
Qed.

Lemma run_bounded c sched : forall s s', run_from c s sched = Some s' -> (length sched + measure s' <= measure s)%nat.
Proof.
  induction sched as [|ch r IH]; intros s s' H; cbn in H.
  - injection H as <-. cbn. lia.
  - destruct (step c s ch) as [s1|] eqn:E; [|discriminate].
    pose proof (step_decreases _ _ _ _ E). specialize (IH _ _ H). cbn. lia.
Qed.

(* from every reachable state the calls can all be completed, and no schedule can avoid it for more than
   [measure s] steps: a schedule that cannot be extended ends with every call answered *)
Theorem completes c s :
  1 <= c_max c -> reachable c s -> exists sched s', run_from c s sched = Some s' /\ all_done s' = true.
Proof.
  intros Hm. remember (measure s) as n eqn:Hn. revert s Hn.
  induction n as [n IH] using lt_wf_ind. intros s Hn Hr.
  destruct (all_done s) eqn:Hd.
  - exists [], s. auto.
  - destruct (no_hang c s Hm Hr Hd) as (ch & s1 & Hs).
    pose proof (step_decreases _ _ _ _ Hs) as Hlt.
    destruct (IH (measure s1) ltac:(lia) s1 eq_refl (reachable_step _ _ _ _ Hr Hs)) as (sched & s' & Hrun & Hdone).
    exists (ch :: sched), s'. cbn. rewrite Hs. auto.
Qed.
