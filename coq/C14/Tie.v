(* C14 — the receiver's per-response decisions of the hand model against the definitions regenerated
   from broker.go / response_header.go by decgen (coq/Gen/DecC14.v; every check regenerates them from the
   current source and compares).  source =(regenerate)=> SVB.DecC14 = SV.Gen.DecC14 =(these lemmas)= Model. *)
From Coq Require Import List ZArith Bool Lia.
From SV Require Import Gen.GoInt Gen.DecTypes Gen.DecC14 C14.Model.
Import ListNotations.
Open Scope Z_scope.

(* getHeaderLength *)
Lemma tie_header_length hv : header_len hv = get_header_length hv.
Proof. reflexivity. Qed.

(* responseHeader.decode: the two int32 reads succeed on a complete header; the tagged-field read of a
   version >= 1 header fails unless the byte is 0 *)
Definition tag_err (rest : list Z) : gerr :=
  match rest with t :: _ => if t =? 0 then ENil else EDecode | [] => EDecode end.

Lemma tie_header_decode hv mr b0 b1 b2 b3 c0 c1 c2 c3 rest :
  decode_header hv mr (b0 :: b1 :: b2 :: b3 :: c0 :: c1 :: c2 :: c3 :: rest) =
  let '(len, id, _, err) :=
      response_header_decode 0 0 [(be32s b0 b1 b2 b3, ENil); (be32s c0 c1 c2 c3, ENil)] hv mr (tag_err rest) in
  if gerr_eqb err ENil then inl (len, id)
  else inr (if (len <=? 4) || (len >? mr) then 4 else 8).
Proof.
  unfold decode_header, response_header_decode, pop, tag_err. cbn [fst snd gerr_eqb negb].
  rewrite !Z.gtb_ltb, Z.geb_leb.
  destruct ((be32s b0 b1 b2 b3 <=? 4) || (mr <? be32s b0 b1 b2 b3)) eqn:E; cbv beta iota zeta; cbn [gerr_eqb]; [now rewrite ?Z.gtb_ltb, E|].
  destruct (hv <? 1) eqn:Hv.
  - apply Z.ltb_lt in Hv. destruct (1 <=? hv) eqn:Hv'; [apply Z.leb_le in Hv'; lia|]. reflexivity.
  - apply Z.ltb_ge in Hv. destruct (1 <=? hv) eqn:Hv'; [|apply Z.leb_gt in Hv'; lia].
    destruct rest as [|t r]; cbn [gerr_eqb negb]; cbv beta iota zeta; cbn [gerr_eqb]; [now rewrite ?Z.gtb_ltb, E|].
    destruct (t =? 0); cbn [gerr_eqb negb]; cbv beta iota zeta; cbn [gerr_eqb]; [reflexivity|now rewrite ?Z.gtb_ltb, E].
Qed.

(* one iteration of responseReceiver with dead == nil: the model's [serve] equals the outcome computed
   by the regenerated [receive_one] from the results of the same reads *)
Definition err_of {A} (x : A + Z) : gerr := match x with inl _ => ENil | inr e => EOther e end.
Definition id_of (e : gerr) : Z := match e with EOther x => x | EDecode => 5 | _ => 0 end.

Definition serve_dec (mr : Z) (t : term) (p : promise) (st : list Z) : result * option Z :=
  let hl := get_header_length (p_hv p) in
  let rh := read_full hl st t in
  let st1 := skipn (Z.to_nat hl) st in
  let dh := match rh with inl h => decode_header (p_hv p) mr h | inr _ => inr 0 end in
  let '(len, id) := match dh with inl x => x | inr _ => (0, 0) end in
  let rb := read_full (body_len (p_hv p) len) st1 t in
  let '(dead', acts, _) := receive_one ENil (p_hv p) (err_of rh) (err_of dh) id len (p_id p) (err_of rb) in
  (match acts with
   | [BR_packets n] => RPacket (firstn (Z.to_nat n) st1)
   | [BR_error e] => RErr (id_of e)
   | _ => RNone
   end,
   match dead' with ENil => None | e => Some (id_of e) end).

Lemma decode_header_range hv mr h len id : decode_header hv mr h = inl (len, id) -> 4 < len <= mr.
Proof.
  unfold decode_header. intro H.
  do 8 (destruct h as [|? h]; [discriminate|]).
  destruct ((_ <=? 4) || (_ <? _)) eqn:E; try discriminate.
  apply orb_false_iff in E as [E1 E2]; apply Z.leb_gt in E1; apply Z.ltb_ge in E2.
  repeat match type of H with
         | context [if ?x then _ else _] => destruct x
         | context [match ?x with _ => _ end] => destruct x
         end; try discriminate; injection H as <- <-; lia.
Qed.

Lemma tie_receive_one mr t p st :
  mr < 2147483648 ->
  serve_dec mr t p st = (let '(r, d, _, _) := serve mr t p st in (r, d)).
Proof.
  intro Hmr. unfold serve_dec, serve, receive_one. rewrite <- tie_header_length.
  destruct (read_full (header_len (p_hv p)) st t) as [h|e]; cbn [err_of gerr_eqb negb]; [|reflexivity].
  destruct (decode_header (p_hv p) mr h) as [[len id]|e] eqn:Ed; cbn [err_of gerr_eqb negb]; [|reflexivity].
  destruct (negb (id =? p_id p)); cbn [id_of]; [reflexivity|].
  pose proof (decode_header_range _ _ _ _ _ Ed) as Hl.
  assert (Hw : GoInt.wrap32 (GoInt.wrap32 (len - header_len (p_hv p)) + 4) = body_len (p_hv p) len).
  { unfold body_len. assert (header_len (p_hv p) = 8 \/ header_len (p_hv p) = 9) as [-> | ->]
      by (unfold header_len; destruct (p_hv p <? 1); auto);
      rewrite (wrap32_small (len - _)) by lia; rewrite wrap32_small by lia; reflexivity. }
  destruct (read_full (body_len (p_hv p) len) _ t) as [b|e] eqn:Eb; cbn [err_of gerr_eqb negb id_of]; [|reflexivity].
  rewrite Hw. unfold read_full in Eb. destruct (_ <=? _); [|discriminate]. now injection Eb as <-.
Qed.

(* with dead != nil the promise gets that error and dead stays *)
Lemma tie_receive_dead e hv a b c d w x :
  e <> 0 -> receive_one (EOther e) hv a b c d w x = (EOther e, [BR_inflight_dec; BR_error (EOther e)], ExContinue).
Proof. intro He. unfold receive_one. cbn. destruct (e =? e) eqn:E; [reflexivity|]. apply Z.eqb_neq in E. congruence. Qed.
