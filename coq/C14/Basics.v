(* C14 — proof infrastructure: list update lemmas, step inversion tactic, the invariant rule. *)
From Coq Require Import List ZArith Bool Lia Arith.
From SV Require Import C14.Model.
Import ListNotations.
Open Scope Z_scope.

Arguments wrap32 : simpl never.

Lemma nth_upd_same {A} (l : list A) k v old :
  nth_error l k = Some old -> nth_error (upd k v l) k = Some v.
Proof.
  revert k; induction l as [|x l IH]; intros [|k] H; simpl in *; try discriminate; auto.
Qed.

Lemma nth_upd_other {A} (l : list A) k j v : j <> k -> nth_error (upd k v l) j = nth_error l j.
Proof.
  revert k j; induction l as [|x l IH]; intros [|k] [|j] H; simpl; auto; try congruence.
Qed.

Lemma nth_upd_inv {A} (l : list A) k j v c :
  nth_error (upd k v l) j = Some c ->
  (j = k /\ c = v /\ exists old, nth_error l k = Some old) \/ (j <> k /\ nth_error l j = Some c).
Proof.
  intro H. destruct (Nat.eq_dec j k) as [->|N].
  - left. destruct (nth_error l k) as [old|] eqn:E.
    + rewrite (nth_upd_same _ _ _ _ E) in H. injection H as <-. eauto.
    + exfalso. revert k H E. induction l as [|x l IH]; intros [|k] H E; simpl in *; try discriminate; eauto.
  - right. rewrite nth_upd_other in H by assumption. auto.
Qed.

Lemma upd_length {A} (l : list A) k v : length (upd k v l) = length l.
Proof. revert k; induction l as [|x l IH]; intros [|k]; simpl; auto. Qed.

Lemma eqb_nat_opt_true o k : eqb_nat_opt o k = true -> o = Some k.
Proof. destruct o as [j|]; simpl; [|discriminate]. intro H. apply Nat.eqb_eq in H. now subst. Qed.

(* invert [step c s ch = Some s'] into its guards; leaves s' as an explicit record *)
Ltac step_inv H :=
  unfold step, with_lock, with_callers, with_recv in H;
  repeat match type of H with
         | context [match ?x with _ => _ end] => let E := fresh "E" in destruct x eqn:E; try discriminate H
         end;
  try (injection H as H; subst).

Ltac bool_hyps :=
  repeat match goal with
         | H : _ && _ = true |- _ => apply andb_true_iff in H; destruct H
         | H : negb _ = true |- _ => apply negb_true_iff in H
         | H : eqb_nat_opt _ _ = true |- _ => apply eqb_nat_opt_true in H
         | H : Nat.eqb _ _ = true |- _ => apply Nat.eqb_eq in H
         end.

Definition reachable (c : cfg) (s : state) : Prop := exists sched, run c sched = Some s.

Lemma run_from_app c s l1 l2 :
  run_from c s (l1 ++ l2) = match run_from c s l1 with Some s1 => run_from c s1 l2 | None => None end.
Proof. revert s; induction l1 as [|ch l1 IH]; intro s; simpl; auto. destruct (step c s ch); auto. Qed.

(* the invariant rule *)
Lemma invariant_from (c : cfg) (P : state -> Prop) :
  (forall s ch s', P s -> step c s ch = Some s' -> P s') ->
  forall sched s0 s, P s0 -> run_from c s0 sched = Some s -> P s.
Proof.
  intros Hstep sched; induction sched as [|ch r IH]; intros s0 s H0 Hr; simpl in Hr.
  - injection Hr as <-. exact H0.
  - destruct (step c s0 ch) as [s1|] eqn:E; [|discriminate]. eapply IH; [|exact Hr]. eapply Hstep; eauto.
Qed.

Lemma invariant (c : cfg) (P : state -> Prop) :
  P (init c) -> (forall s ch s', P s -> step c s ch = Some s' -> P s') ->
  forall s, reachable c s -> P s.
Proof. intros H0 Hs s [sched Hr]. eapply invariant_from; eauto. Qed.

Lemma reachable_step c s ch s' : reachable c s -> step c s ch = Some s' -> reachable c s'.
Proof.
  intros [sched H] Hs. exists (sched ++ [ch]). unfold run in *. rewrite run_from_app, H. simpl. now rewrite Hs.
Qed.

Lemma reachable_run_from c s sched s' : reachable c s -> run_from c s sched = Some s' -> reachable c s'.
Proof.
  intros [s0 H] Hs. exists (s0 ++ sched). unfold run in *. now rewrite run_from_app, H.
Qed.

Lemma NoDup_app_one {A} (l : list A) x : NoDup l -> ~ In x l -> NoDup (l ++ [x]).
Proof.
  induction l as [|y l IH]; intros Hn Hx; cbn.
  - constructor; [intros []|constructor].
  - inversion Hn; subst. constructor.
    + rewrite in_app_iff. intros [H|[H|[]]]; [contradiction|]. apply Hx. left. auto.
    + apply IH; auto. intro. apply Hx. right. auto.
Qed.
