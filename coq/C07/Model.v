(* C07 — executable model of one consumer-group member (consumer_group.go: Consume, newSession,
   retryNewSession, newConsumerGroupSession, consume, release, heartbeatLoop, leave, Close) together
   with the parts of offset_manager.go / consumer.go that fix the start offset of a claim and the
   final commit.  No proofs here.

   The member is a labelled transition system.  Everything the environment decides is an [input]:
   the coordinator's verdict on each request, the moment the parent context is cancelled, Close,
   which claim goroutine moves next, how many messages a handler gets, timer expiry.  An input that
   is not enabled in the current state is ignored (stutter), so "for every list of inputs" is "for
   every coordinator script, handler behaviour and schedule", and every prefix of an execution is an
   execution.  Time is abstract.  Partitions are integers chosen by the harness (topic*100+partition). *)
From Coq Require Import List ZArith Bool.
Import ListNotations.
Open Scope Z_scope.

Definition part := Z.
Definition OffsetNewest : Z := -1.
Definition OffsetOldest : Z := -2.

(* Consumer.Group.Rebalance.Retry.Max, Consumer.Offsets.Initial, Metadata.Retry.Max (heartbeat loop),
   Consumer.Offsets.Retry.Max + 1 (flush attempts of offsetManager.Close) *)
Record cfg := { c_retries : Z; c_initial : Z; c_hb_retries : Z; c_commit_attempts : nat }.

(* ---- coordinator verdict classes ---- *)
Inductive jv := JOk (m g : Z) (leader : bool) | JUnknownMember | JIllegalGen | JNotCoord | JRebalance | JFatal | JDrop.
Inductive sv := SOk (plan : list part) | SUnknownMember | SIllegalGen | SNotCoord | SRebalance | SFatal | SDrop.
Inductive hv := HOk | HRebalance | HUnknownMember | HIllegalGen | HFatal | HDrop.
Inductive lv := LOk | LErr | LDrop.

(* ---- handler behaviour (user code: a parameter) ----
   h_quota = Some n : ConsumeClaim returns after n messages (Some 0 = returns at once);  None : loops until Messages() closes
   h_mark  = k      : MarkMessage on the first k messages it receives *)
Record hbeh := { h_quota : option nat; h_mark : nat }.
Record handler := { hd_setup_ok : bool; hd_cleanup_ok : bool; hd_beh : list (part * hbeh); hd_default : hbeh }.

Fixpoint beh_lookup (l : list (part * hbeh)) (d : hbeh) (p : part) : hbeh :=
  match l with [] => d | (q, b) :: r => if Z.eqb p q then b else beh_lookup r d p end.
Definition beh_of (h : handler) (p : part) : hbeh := beh_lookup (hd_beh h) (hd_default h) p.

(* what Consume returns *)
Inductive cres := RNil | RClosed | RNoCoord | RKErr (code : Z) | RFatal | RDrop | RFetchErr | RSetupErr | RCleanupErr.

(* why a session starts ending *)
Inductive cause := CauseCtx | CauseRebalance | CauseFenced | CauseClaim | CauseClose | CauseHbError | CausePartitions
                 | CauseSetupErr | CauseFetchErr.

Inductive rkind := RFindCoord | RJoin | RSync (leader : bool) | RHeartbeat | RFetch (p : part)
                 | RCommit (blocks : list (part * Z)) | RLeave.

Inductive event :=
| EvCall                          (* Consume called *)
| EvReq (k : rkind) (m g : Z)     (* request sent, with the member id / generation it carries (0 0 where the request has none) *)
| EvJoined (m g : Z)              (* JoinGroup answered without error: identity issued *)
| EvFenced                        (* join or sync answered UnknownMemberId / IllegalGeneration *)
| EvLeft                          (* LeaveGroup answered: member id forgotten *)
| EvAssigned (ps : list part)     (* SyncGroup answered without error: the claims of the session *)
| EvSetup
| EvEnd (c : cause)
| EvClaimStart (p : part) (init : Z)   (* ConsumeClaim called; claim.InitialOffset() *)
| EvClaimSkip (p : part)               (* claim goroutine found the session already ending *)
| EvClaimFail (p : part)               (* the claim could not be created *)
| EvDeliver (p : part) (o : Z)         (* the handler receives the record at offset o *)
| EvClaimReturn (p : part)
| EvClaimError (p : part) (delivered : bool)   (* an error of the claim's partition consumer reaches handleError; delivered: it got onto Errors() *)
| EvPomError (p : part) (delivered : bool)     (* an error of partition p's offset manager reaches handleError *)
| EvCleanup
| EvStored (p : part) (o : Z)          (* the coordinator stored o as the group's position *)
| EvFinalCommit                        (* offsetManager.Close finished *)
| EvReturn (r : cres).                 (* Consume returns *)

(* ---- state ---- *)
Inductive jstage := JCoord | JJoin | JSync (m g : Z) (leader : bool) | JBackoff (refresh : bool) | JRefresh.
Inductive phase :=
| PIdle
| PJoin (r : Z) (s : jstage)      (* newSession / retryNewSession with [r] retries left *)
| PManage (todo : list part)      (* ManagePartition loop of newConsumerGroupSession *)
| PSetup
| PRunning                        (* Consume blocked on <-sess.ctx.Done() *)
| PReleasing                      (* release(true): cancel done, waitGroup.Wait() *)
| PCommit (n : nat)               (* offsets.Close(): up to n more flush attempts *)
| PHbStop.                        (* close(hbDying); <-hbDead *)

Inductive cstate := CSpawned | CRunning | CDone.
(* cl_pom / cl_dirty: offset and dirty flag of the partition's offset manager; cl_start: offset of the first
   record the claim delivers; cl_consumed: records handed to the handler so far *)
Record claim := { cl_part : part; cl_state : cstate; cl_pom : Z; cl_dirty : bool; cl_start : Z; cl_consumed : nat }.

Record world := {
  w_member : Z;                   (* consumerGroup.memberID, 0 = "" *)
  w_closed : bool; w_left : bool;
  w_coord : bool;                 (* the client has a cached coordinator *)
  w_store : list (part * Z);      (* the coordinator's committed offsets *)
  w_log : list (part * (Z * Z));  (* per partition: oldest offset, newest offset (= next to be produced) *)
  w_phase : phase;
  s_member : Z; s_gen : Z; s_handler : handler; s_claims : list claim;
  s_ctx : bool;                   (* the session context is done (parent cancelled or sess.cancel()) *)
  s_hb : bool; s_hbretries : Z;   (* heartbeat goroutine alive; its retries *)
  s_spawned : bool;               (* the claim goroutines exist *)
  s_res : cres }.

Fixpoint store_get (s : list (part * Z)) (p : part) : option Z :=
  match s with [] => None | (q, o) :: r => if Z.eqb p q then Some o else store_get r p end.
(* what an OffsetFetch answers: the stored offset, -1 when there is none *)
Definition committed (s : list (part * Z)) (p : part) : Z := match store_get s p with Some o => o | None => -1 end.
Definition store_set (s : list (part * Z)) (p : part) (o : Z) : list (part * Z) :=
  (p, o) :: filter (fun x => negb (Z.eqb (fst x) p)) s.
Fixpoint store_set_all (s : list (part * Z)) (bs : list (part * Z)) : list (part * Z) :=
  match bs with [] => s | (p, o) :: r => store_set_all (store_set s p o) r end.
Fixpoint log_get (l : list (part * (Z * Z))) (p : part) : Z * Z :=
  match l with [] => (0, 0) | (q, b) :: r => if Z.eqb p q then b else log_get r p end.
Fixpoint log_produce (l : list (part * (Z * Z))) (p : part) : list (part * (Z * Z)) :=
  match l with [] => [] | (q, (lo, hi)) :: r => if Z.eqb p q then (q, (lo, hi + 1)) :: r else (q, (lo, hi)) :: log_produce r p end.

(* ---- field updates ---- *)
Definition set_phase (w : world) (ph : phase) : world :=
  {| w_member := w_member w; w_closed := w_closed w; w_left := w_left w; w_coord := w_coord w; w_store := w_store w;
     w_log := w_log w; w_phase := ph; s_member := s_member w; s_gen := s_gen w; s_handler := s_handler w;
     s_claims := s_claims w; s_ctx := s_ctx w; s_hb := s_hb w; s_hbretries := s_hbretries w; s_spawned := s_spawned w; s_res := s_res w |}.
Definition set_member (w : world) (m : Z) : world :=
  {| w_member := m; w_closed := w_closed w; w_left := w_left w; w_coord := w_coord w; w_store := w_store w;
     w_log := w_log w; w_phase := w_phase w; s_member := s_member w; s_gen := s_gen w; s_handler := s_handler w;
     s_claims := s_claims w; s_ctx := s_ctx w; s_hb := s_hb w; s_hbretries := s_hbretries w; s_spawned := s_spawned w; s_res := s_res w |}.
Definition set_closed (w : world) : world :=
  {| w_member := w_member w; w_closed := true; w_left := w_left w; w_coord := w_coord w; w_store := w_store w;
     w_log := w_log w; w_phase := w_phase w; s_member := s_member w; s_gen := s_gen w; s_handler := s_handler w;
     s_claims := s_claims w; s_ctx := s_ctx w; s_hb := s_hb w; s_hbretries := s_hbretries w; s_spawned := s_spawned w; s_res := s_res w |}.
Definition set_left (w : world) : world :=
  {| w_member := w_member w; w_closed := w_closed w; w_left := true; w_coord := w_coord w; w_store := w_store w;
     w_log := w_log w; w_phase := w_phase w; s_member := s_member w; s_gen := s_gen w; s_handler := s_handler w;
     s_claims := s_claims w; s_ctx := s_ctx w; s_hb := s_hb w; s_hbretries := s_hbretries w; s_spawned := s_spawned w; s_res := s_res w |}.
Definition set_coord (w : world) : world :=
  {| w_member := w_member w; w_closed := w_closed w; w_left := w_left w; w_coord := true; w_store := w_store w;
     w_log := w_log w; w_phase := w_phase w; s_member := s_member w; s_gen := s_gen w; s_handler := s_handler w;
     s_claims := s_claims w; s_ctx := s_ctx w; s_hb := s_hb w; s_hbretries := s_hbretries w; s_spawned := s_spawned w; s_res := s_res w |}.
Definition set_store (w : world) (s : list (part * Z)) : world :=
  {| w_member := w_member w; w_closed := w_closed w; w_left := w_left w; w_coord := w_coord w; w_store := s;
     w_log := w_log w; w_phase := w_phase w; s_member := s_member w; s_gen := s_gen w; s_handler := s_handler w;
     s_claims := s_claims w; s_ctx := s_ctx w; s_hb := s_hb w; s_hbretries := s_hbretries w; s_spawned := s_spawned w; s_res := s_res w |}.
Definition set_log (w : world) (l : list (part * (Z * Z))) : world :=
  {| w_member := w_member w; w_closed := w_closed w; w_left := w_left w; w_coord := w_coord w; w_store := w_store w;
     w_log := l; w_phase := w_phase w; s_member := s_member w; s_gen := s_gen w; s_handler := s_handler w;
     s_claims := s_claims w; s_ctx := s_ctx w; s_hb := s_hb w; s_hbretries := s_hbretries w; s_spawned := s_spawned w; s_res := s_res w |}.
Definition set_claims (w : world) (cs : list claim) : world :=
  {| w_member := w_member w; w_closed := w_closed w; w_left := w_left w; w_coord := w_coord w; w_store := w_store w;
     w_log := w_log w; w_phase := w_phase w; s_member := s_member w; s_gen := s_gen w; s_handler := s_handler w;
     s_claims := cs; s_ctx := s_ctx w; s_hb := s_hb w; s_hbretries := s_hbretries w; s_spawned := s_spawned w; s_res := s_res w |}.
Definition set_ctx (w : world) : world :=
  {| w_member := w_member w; w_closed := w_closed w; w_left := w_left w; w_coord := w_coord w; w_store := w_store w;
     w_log := w_log w; w_phase := w_phase w; s_member := s_member w; s_gen := s_gen w; s_handler := s_handler w;
     s_claims := s_claims w; s_ctx := true; s_hb := s_hb w; s_hbretries := s_hbretries w; s_spawned := s_spawned w; s_res := s_res w |}.
Definition set_hb (w : world) (alive : bool) (r : Z) : world :=
  {| w_member := w_member w; w_closed := w_closed w; w_left := w_left w; w_coord := w_coord w; w_store := w_store w;
     w_log := w_log w; w_phase := w_phase w; s_member := s_member w; s_gen := s_gen w; s_handler := s_handler w;
     s_claims := s_claims w; s_ctx := s_ctx w; s_hb := alive; s_hbretries := r; s_spawned := s_spawned w; s_res := s_res w |}.
Definition set_spawned (w : world) : world :=
  {| w_member := w_member w; w_closed := w_closed w; w_left := w_left w; w_coord := w_coord w; w_store := w_store w;
     w_log := w_log w; w_phase := w_phase w; s_member := s_member w; s_gen := s_gen w; s_handler := s_handler w;
     s_claims := s_claims w; s_ctx := s_ctx w; s_hb := s_hb w; s_hbretries := s_hbretries w; s_spawned := true; s_res := s_res w |}.
Definition set_res (w : world) (r : cres) : world :=
  {| w_member := w_member w; w_closed := w_closed w; w_left := w_left w; w_coord := w_coord w; w_store := w_store w;
     w_log := w_log w; w_phase := w_phase w; s_member := s_member w; s_gen := s_gen w; s_handler := s_handler w;
     s_claims := s_claims w; s_ctx := s_ctx w; s_hb := s_hb w; s_hbretries := s_hbretries w; s_spawned := s_spawned w; s_res := r |}.
(* Consume called: fresh per-call state; c0 = the caller's context is already cancelled *)
Definition new_call (w : world) (c0 : bool) (h : handler) : world :=
  {| w_member := w_member w; w_closed := w_closed w; w_left := w_left w; w_coord := w_coord w; w_store := w_store w;
     w_log := w_log w; w_phase := w_phase w; s_member := 0; s_gen := 0; s_handler := h;
     s_claims := []; s_ctx := c0; s_hb := false; s_hbretries := 0; s_spawned := false; s_res := RNil |}.
(* newConsumerGroupSession: identity of the session, heartbeat goroutine started *)
Definition new_session (cf : cfg) (w : world) (m g : Z) : world :=
  {| w_member := w_member w; w_closed := w_closed w; w_left := w_left w; w_coord := w_coord w; w_store := w_store w;
     w_log := w_log w; w_phase := w_phase w; s_member := m; s_gen := g; s_handler := s_handler w;
     s_claims := []; s_ctx := s_ctx w; s_hb := true; s_hbretries := c_hb_retries cf; s_spawned := false; s_res := RNil |}.

Definition init_world (store : list (part * Z)) (log : list (part * (Z * Z))) : world :=
  {| w_member := 0; w_closed := false; w_left := false; w_coord := false; w_store := store; w_log := log;
     w_phase := PIdle; s_member := 0; s_gen := 0;
     s_handler := {| hd_setup_ok := true; hd_cleanup_ok := true; hd_beh := []; hd_default := {| h_quota := None; h_mark := 0%nat |} |};
     s_claims := []; s_ctx := false; s_hb := false; s_hbretries := 0; s_spawned := false; s_res := RNil |}.

(* ---- start offset of a claim (consume + newConsumerGroupClaim + chooseStartingOffset) ---- *)
(* partitionOffsetManager.NextOffset *)
Definition next_offset (cf : cfg) (pom : Z) : Z := if pom >=? 0 then pom else c_initial cf.
(* chooseStartingOffset accepts o *)
Definition in_range (o lo hi : Z) : bool := (o =? OffsetNewest) || (o =? OffsetOldest) || ((lo <=? o) && (o <=? hi)).
(* claim.InitialOffset(): the next offset, or Consumer.Offsets.Initial when that is out of range; None: no claim *)
Definition claim_offset (cf : cfg) (pom lo hi : Z) : option Z :=
  let o := next_offset cf pom in
  if in_range o lo hi then Some o else if in_range (c_initial cf) lo hi then Some (c_initial cf) else None.
(* newConsumerGroupClaim, with the outcome of its ConsumePartition attempts as inputs: a1 = false: the first attempt fails
   with an error other than ErrOffsetOutOfRange (leader unknown, ListOffsets refused, connection lost ...): no fallback,
   no claim.  Out of range: a second attempt at Consumer.Offsets.Initial, which a2 = false makes fail the same way. *)
Definition claim_try (cf : cfg) (pom lo hi : Z) (a1 a2 : bool) : option Z :=
  if a1 then
    let o := next_offset cf pom in
    if in_range o lo hi then Some o else if a2 && in_range (c_initial cf) lo hi then Some (c_initial cf) else None
  else None.
(* offset of the first record delivered *)
Definition resolve (o lo hi : Z) : Z := if o =? OffsetNewest then hi else if o =? OffsetOldest then lo else o.

(* ---- claims ---- *)
Definition mk_claim (p : part) (pom : Z) : claim :=
  {| cl_part := p; cl_state := CSpawned; cl_pom := pom; cl_dirty := false; cl_start := 0; cl_consumed := 0%nat |}.
Fixpoint claim_find (cs : list claim) (p : part) : option claim :=
  match cs with [] => None | c :: r => if Z.eqb (cl_part c) p then Some c else claim_find r p end.
Fixpoint claim_put (cs : list claim) (c' : claim) : list claim :=
  match cs with [] => [] | c :: r => if Z.eqb (cl_part c) (cl_part c') then c' :: r else c :: claim_put r c' end.
Definition with_state (c : claim) (s : cstate) : claim :=
  {| cl_part := cl_part c; cl_state := s; cl_pom := cl_pom c; cl_dirty := cl_dirty c; cl_start := cl_start c; cl_consumed := cl_consumed c |}.
Definition started_at (c : claim) (start : Z) : claim :=
  {| cl_part := cl_part c; cl_state := CRunning; cl_pom := cl_pom c; cl_dirty := cl_dirty c; cl_start := start; cl_consumed := 0%nat |}.
(* MarkOffset(o): only forwards *)
Definition mark (c : claim) (o : Z) : claim :=
  if o >? cl_pom c then {| cl_part := cl_part c; cl_state := cl_state c; cl_pom := o; cl_dirty := true; cl_start := cl_start c; cl_consumed := cl_consumed c |}
  else c.
Definition consumed_one (c : claim) : claim :=
  {| cl_part := cl_part c; cl_state := cl_state c; cl_pom := cl_pom c; cl_dirty := cl_dirty c; cl_start := cl_start c; cl_consumed := S (cl_consumed c) |}.
Definition clean (c : claim) : claim :=
  {| cl_part := cl_part c; cl_state := cl_state c; cl_pom := cl_pom c; cl_dirty := false; cl_start := cl_start c; cl_consumed := cl_consumed c |}.
Definition quota_open (b : hbeh) (n : nat) : bool := match h_quota b with None => true | Some q => (n <? q)%nat end.
Definition next_off (c : claim) : Z := cl_start c + Z.of_nat (cl_consumed c).
Definition is_done (c : claim) : bool := match cl_state c with CDone => true | _ => false end.
Definition all_done (w : world) : bool := negb (s_spawned w) || forallb is_done (s_claims w).
Definition dirty_blocks (cs : list claim) : list (part * Z) :=
  flat_map (fun c => if cl_dirty c then [(cl_part c, cl_pom c)] else []) cs.
Definition stored_events (bs : list (part * Z)) : list event := map (fun b => EvStored (fst b) (snd b)) bs.

Definition ending (w : world) : bool := s_ctx w || w_closed w.
Definition in_call (w : world) : bool := match w_phase w with PIdle => false | _ => true end.
Definition session_live (w : world) : bool :=
  match w_phase w with PManage _ | PSetup | PRunning | PReleasing => true | _ => false end.
Definition claims_live (w : world) : bool :=
  s_spawned w && match w_phase w with PRunning | PReleasing => true | _ => false end.

(* ---- inputs ---- *)
Inductive input :=
| IConsume (c0 : bool) (h : handler)
| ICoord (ok : bool)              (* answer to a FindCoordinator request *)
| IJoin (v : jv)
| ISync (v : sv)
| IBackoff                        (* Rebalance.Retry.Backoff elapsed *)
| IBackoffClosed                  (* retryNewSession's select takes <-c.closed *)
| IFetch (ok : bool)              (* answer to the OffsetFetch of ManagePartition *)
| ISetup
| IClaimGo (p : part) (a1 a2 : bool)    (* claim goroutine p runs up to the call of ConsumeClaim; a1 a2: see claim_try *)
| IDeliver (p : part)
| IClaimReturn (p : part)
| IPomError (p : part) (delivered : bool)     (* the offset manager of p reports an error (a commit answered with one) *)
| IClaimError (p : part) (delivered : bool)   (* the partition consumer of claim p reports an error (Consumer.Return.Errors) *)
| IHeartbeat (v : hv)
| ICancel
| IClose
| IWatch                          (* loopCheckPartitionNumbers sees c.closed *)
| IPartChange                     (* loopCheckPartitionNumbers sees a changed partition count *)
| IRelease                        (* Consume wakes up from <-sess.ctx.Done() *)
| ICleanup                        (* waitGroup.Wait() returned *)
| ICommit (ok : bool)             (* answer to an OffsetCommit of offsets.Close *)
| IHbStop
| ILeave (v : lv)
| IProduce (p : part).

(* ---- helpers of the join phase ---- *)
Definition ret (w : world) (r : cres) : world * list event := (set_phase w PIdle, [EvReturn r]).
Definition enter_new_session (w : world) (r : Z) : world :=
  set_phase w (PJoin r (if w_coord w then JJoin else JCoord)).
Definition retry_or (w : world) (r : Z) (refresh : bool) (code : Z) : world * list event :=
  if r <=? 0 then ret w (RKErr code) else (set_phase w (PJoin r (JBackoff refresh)), []).
Definition enter_commit (w : world) (n : nat) : world * list event :=
  match n, dirty_blocks (s_claims w) with
  | S _, _ :: _ => (set_phase w (PCommit n), [])
  | _, _ => (set_phase w PHbStop, [EvFinalCommit])
  end.
Definition enter_manage (w : world) (plan : list part) : world :=
  match plan with [] => set_phase w PSetup | _ => set_phase w (PManage plan) end.
(* a claim goroutine exits: defer sess.cancel(); defer waitGroup.Done() *)
Definition claim_exit (w : world) (c : claim) : world := set_ctx (set_claims w (claim_put (s_claims w) (with_state c CDone))).
Definition hb_exit (w : world) : world := set_ctx (set_hb w false (s_hbretries w)).

Definition step (cf : cfg) (w : world) (i : input) : world * list event :=
  match i with
  | IConsume c0 h =>
    match w_phase w with
    | PIdle => if w_closed w then (w, [EvCall; EvReturn RClosed])
               else (enter_new_session (new_call w c0 h) (c_retries cf), EvCall :: (if c0 then [EvEnd CauseCtx] else []))
    | _ => (w, [])
    end
  | ICoord ok =>
    match w_phase w with
    | PJoin r JCoord =>                       (* client.Coordinator with nothing cached *)
      if ok then (set_phase (set_coord w) (PJoin r JJoin), [EvReq RFindCoord 0 0])
      else if r <=? 0 then let '(w', e) := ret w RNoCoord in (w', EvReq RFindCoord 0 0 :: e)
      else (set_phase w (PJoin r (JBackoff true)), [EvReq RFindCoord 0 0])
    | PJoin r JRefresh =>                     (* RefreshCoordinator in retryNewSession: a failure does not use up a retry *)
      if ok then (enter_new_session (set_coord w) (r - 1), [EvReq RFindCoord 0 0])
      else (set_phase w (PJoin r (JBackoff true)), [EvReq RFindCoord 0 0])
    | _ => (w, [])
    end
  | IJoin v =>
    match w_phase w with
    | PJoin r JJoin =>
      let rq := EvReq RJoin (w_member w) 0 in
      match v with
      | JOk m g leader => (set_phase (set_member w m) (PJoin r (JSync m g leader)), [rq; EvJoined m g])
      | JUnknownMember | JIllegalGen => (enter_new_session (set_member w 0) r, [rq; EvFenced])
      | JNotCoord => let '(w', e) := retry_or w r true 16 in (w', rq :: e)
      | JRebalance => let '(w', e) := retry_or w r false 27 in (w', rq :: e)
      | JFatal => let '(w', e) := ret w RFatal in (w', rq :: e)
      | JDrop => let '(w', e) := ret w RDrop in (w', rq :: e)
      end
    | _ => (w, [])
    end
  | ISync v =>
    match w_phase w with
    | PJoin r (JSync m g leader) =>
      let rq := EvReq (RSync leader) (w_member w) g in
      match v with
      | SOk plan => (enter_manage (new_session cf w m g) plan, [rq; EvAssigned plan])
      | SUnknownMember | SIllegalGen => (enter_new_session (set_member w 0) r, [rq; EvFenced])
      | SNotCoord => let '(w', e) := retry_or w r true 16 in (w', rq :: e)
      | SRebalance => let '(w', e) := retry_or w r false 27 in (w', rq :: e)
      | SFatal => let '(w', e) := ret w RFatal in (w', rq :: e)
      | SDrop => let '(w', e) := ret w RDrop in (w', rq :: e)
      end
    | _ => (w, [])
    end
  | IBackoff =>
    match w_phase w with
    | PJoin r (JBackoff refresh) =>
      if refresh then (set_phase w (PJoin r JRefresh), []) else (enter_new_session w (r - 1), [])
    | _ => (w, [])
    end
  | IBackoffClosed =>
    match w_phase w with
    | PJoin r (JBackoff _) => if w_closed w then ret w RClosed else (w, [])
    | _ => (w, [])
    end
  | IFetch ok =>
    match w_phase w with
    | PManage (p :: todo) =>
      (* ManagePartition fails when the fetch fails or the partition is already managed (a plan naming it twice) *)
      if ok && match claim_find (s_claims w) p with None => true | Some _ => false end then
        (enter_manage (set_claims w (s_claims w ++ [mk_claim p (committed (w_store w) p)])) todo, [EvReq (RFetch p) 0 0])
      else                                    (* release(false): no Cleanup *)
        let '(w', e) := enter_commit (set_res (set_ctx w) RFetchErr) (c_commit_attempts cf) in
        (w', EvReq (RFetch p) 0 0 :: EvEnd CauseFetchErr :: e)
    | _ => (w, [])
    end
  | ISetup =>
    match w_phase w with
    | PSetup =>
      if hd_setup_ok (s_handler w) then (set_phase (set_spawned w) PRunning, [EvSetup])
      else (set_phase (set_res (set_ctx w) RSetupErr) PReleasing, [EvSetup; EvEnd CauseSetupErr])   (* release(true) *)
    | _ => (w, [])
    end
  | IClaimGo p a1 a2 =>
    if claims_live w then
      match claim_find (s_claims w) p with
      | Some c =>
        match cl_state c with
        | CSpawned =>
          if ending w then (claim_exit w c, [EvClaimSkip p; EvEnd CauseClaim])
          else
            let '(lo, hi) := log_get (w_log w) p in
            match claim_try cf (cl_pom c) lo hi a1 a2 with
            | Some o => (set_claims w (claim_put (s_claims w) (started_at c (resolve o lo hi))), [EvClaimStart p o])
            | None => (claim_exit w c, [EvClaimFail p; EvEnd CauseClaim])
            end
        | _ => (w, [])
        end
      | None => (w, [])
      end
    else (w, [])
  | IDeliver p =>
    if claims_live w then
      match claim_find (s_claims w) p with
      | Some c =>
        match cl_state c with
        | CRunning =>
          let b := beh_of (s_handler w) p in
          if (next_off c <? snd (log_get (w_log w) p)) && quota_open b (cl_consumed c) then
            let c1 := if (cl_consumed c <? h_mark b)%nat then mark c (next_off c + 1) else c in
            (set_claims w (claim_put (s_claims w) (consumed_one c1)), [EvDeliver p (next_off c)])
          else (w, [])
        | _ => (w, [])
        end
      | None => (w, [])
      end
    else (w, [])
  | IClaimError p delivered =>
    (* the claim's forwarder goroutines drain the partition consumer's error channel as long as the claim lives and hand
       each error to handleError, which never blocks (select with default on the group's Errors() channel): the member's
       state does not change, whether or not the application reads Errors() *)
    if claims_live w then
      match claim_find (s_claims w) p with
      | Some c => match cl_state c with CRunning => (w, [EvClaimError p delivered]) | _ => (w, []) end
      | None => (w, [])
      end
    else (w, [])
  | IPomError p delivered =>
    (* the per-partition forwarder started by newConsumerGroupSession reads pom.Errors() until that channel is closed, which
       offsets.Close does only after the final flush; handleError never blocks: nothing changes in the member, whether or not
       the application reads Errors() — in particular the final commit attempts do not wait for it *)
    match w_phase w with
    | PRunning | PReleasing | PCommit _ => (w, [EvPomError p delivered])
    | _ => (w, [])
    end
  | IClaimReturn p =>
    if claims_live w then
      match claim_find (s_claims w) p with
      | Some c =>
        match cl_state c with
        | CRunning =>
          if ending w || negb (quota_open (beh_of (s_handler w) p) (cl_consumed c))
          then (claim_exit w c, [EvClaimReturn p; EvEnd CauseClaim]) else (w, [])
        | _ => (w, [])
        end
      | None => (w, [])
      end
    else (w, [])
  | IHeartbeat v =>
    if s_hb w then
      let rq := EvReq RHeartbeat (s_member w) (s_gen w) in
      match v with
      | HOk => (set_hb w true (c_hb_retries cf), [rq])
      | HRebalance => (hb_exit w, [rq; EvEnd CauseRebalance])
      | HUnknownMember | HIllegalGen => (hb_exit w, [rq; EvEnd CauseFenced])
      | HFatal => (hb_exit w, [rq; EvEnd CauseHbError])
      | HDrop => if s_hbretries w <=? 0 then (hb_exit w, [rq; EvEnd CauseHbError])
                 else (set_hb w true (s_hbretries w - 1), [rq])
      end
    else (w, [])
  | ICancel => if in_call w then (set_ctx w, [EvEnd CauseCtx]) else (w, [])
  | IClose => if w_closed w then (w, []) else (set_closed w, if in_call w then [EvEnd CauseClose] else [])
  | IWatch =>
    match w_phase w with
    | PRunning | PReleasing => if w_closed w then (set_ctx w, []) else (w, [])
    | _ => (w, [])
    end
  | IPartChange =>
    match w_phase w with
    | PRunning | PReleasing => (set_ctx w, [EvEnd CausePartitions])
    | _ => (w, [])
    end
  | IRelease =>
    match w_phase w with
    | PRunning => if s_ctx w then (set_phase w PReleasing, []) else (w, [])
    | _ => (w, [])
    end
  | ICleanup =>
    match w_phase w with
    | PReleasing =>
      if all_done w then
        let w1 := if hd_cleanup_ok (s_handler w) then w
                  else match s_res w with RNil => set_res w RCleanupErr | _ => w end in
        let '(w', e) := enter_commit w1 (c_commit_attempts cf) in (w', EvCleanup :: e)
      else (w, [])
    | _ => (w, [])
    end
  | ICommit ok =>
    match w_phase w with
    | PCommit (S n) =>
      let bs := dirty_blocks (s_claims w) in
      let rq := EvReq (RCommit bs) (s_member w) (s_gen w) in
      if ok then
        let '(w', e) := enter_commit (set_store (set_claims w (map clean (s_claims w))) (store_set_all (w_store w) bs)) n in
        (w', rq :: stored_events bs ++ e)
      else let '(w', e) := enter_commit w n in (w', rq :: e)
    | _ => (w, [])
    end
  | IHbStop =>
    match w_phase w with
    | PHbStop => (set_phase (set_hb w false (s_hbretries w)) PIdle, [EvReturn (s_res w)])
    | _ => (w, [])
    end
  | ILeave v =>
    match w_phase w with
    | PIdle =>
      if w_closed w && negb (w_left w) then
        if w_member w =? 0 then (set_left w, [])
        else match v with
             | LDrop => (set_left w, [EvReq RLeave (w_member w) 0])
             | _ => (set_member (set_left w) 0, [EvReq RLeave (w_member w) 0; EvLeft])
             end
      else (w, [])
    | _ => (w, [])
    end
  | IProduce p => (set_log w (log_produce (w_log w) p), [])
  end.

Fixpoint run (cf : cfg) (w : world) (ins : list input) : world * list event :=
  match ins with
  | [] => (w, [])
  | i :: r => let '(w1, e1) := step cf w i in let '(w2, e2) := run cf w1 r in (w2, e1 ++ e2)
  end.
Definition trace (cf : cfg) (w : world) (ins : list input) : list event := snd (run cf w ins).
Definition final (cf : cfg) (w : world) (ins : list input) : world := fst (run cf w ins).
