(* C07 — Consume returns: once the session context is done, every step the member can take leaves a measure
   unchanged or smaller, and there is always an enabled step that makes it smaller, until Consume has returned.
   Premise built into the model: a handler's ConsumeClaim returns once its claim's Messages() is closed
   ([IClaimReturn] is enabled when the session is ending); a handler that never returns is outside the model. *)
From Coq Require Import List ZArith Bool Lia Arith.
From SV Require Import C07.Model C07.Spec C07.ProofsHook C07.ProofsOffsets C07.ProofsEnds.
Import ListNotations.
Open Scope Z_scope.

Definition parts (w : world) : list part := map cl_part (s_claims w).
Definition commit_ok (w : world) : Prop := match w_phase w with PCommit O => False | _ => True end.

Lemma parts_put cls c' : map cl_part (claim_put cls c') = map cl_part cls.
Proof.
  induction cls as [|x r IH]; cbn; [reflexivity|]. destruct (Z.eqb (cl_part x) (cl_part c')) eqn:E; cbn.
  - apply Z.eqb_eq in E. now rewrite E.
  - now rewrite IH.
Qed.
Lemma parts_clean cls : map cl_part (map clean cls) = map cl_part cls.
Proof. induction cls as [|x r IH]; cbn; [reflexivity|]. now rewrite IH. Qed.
Lemma find_none_notin cls p : claim_find cls p = None -> ~ In p (map cl_part cls).
Proof.
  induction cls as [|x r IH]; cbn; [tauto|]. destruct (Z.eqb (cl_part x) p) eqn:E; [discriminate|].
  intros H [H1|H1]; [apply Z.eqb_neq in E; contradiction | now apply IH].
Qed.
Lemma NoDup_app_single (l : list part) q : NoDup l -> ~ In q l -> NoDup (l ++ [q]).
Proof.
  induction l as [|x r IH]; cbn; intros Hn Hq; [constructor; [tauto|constructor]|].
  inversion Hn; subst. constructor; [|apply IH; tauto].
  intros H. apply in_app_or in H as [H|[H|[]]]; [contradiction|subst; tauto].
Qed.
Lemma enter_commit_parts w n : parts (fst (enter_commit w n)) = parts w /\ commit_ok (fst (enter_commit w n)).
Proof. unfold enter_commit, parts, commit_ok. destruct n; [|destruct (dirty_blocks _)]; cbn; auto. Qed.

(* the claims of a session name each partition once; offsets.Close is never left with zero attempts *)
Definition U (w : world) : Prop := NoDup (parts w) /\ commit_ok w.

Lemma U_step cf w i : U w -> U (fst (step cf w i)).
Proof.
  intros [Hn Hc]. unfold U, parts, commit_ok in *.
  destruct i; cbn [step]; unfold claims_live; destruct (w_phase w) eqn:Hph; rewrite ?andb_false_r; try (cbn [fst]; rewrite ?Hph; auto; fail).
  all: unfold retry_or, ret, enter_new_session, enter_manage, hb_exit, claim_exit, new_call, new_session.
  all: try solve [repeat (rewrite ?fst_let, ?Hph; cbn; rewrite ?Hph; cbn; try dmatch); rewrite ?fst_let; cbn; rewrite ?Hph; cbn;
                  repeat match goal with |- context [enter_commit ?w1 ?n] => destruct (enter_commit_parts w1 n) as [-> ?]; unfold parts, commit_ok in * end;
                  cbn; rewrite ?parts_put, ?parts_clean; auto using NoDup_nil].
  - (* IFetch *) destruct todo as [|q todo]; [cbn; rewrite Hph; auto|].
    destruct (claim_find (s_claims w) q) eqn:Hf; destruct ok; cbn [andb];
      try (rewrite fst_let; match goal with |- context [enter_commit ?w1 ?n] => destruct (enter_commit_parts w1 n) as [E1 E2]; unfold parts, commit_ok in *; rewrite E1 end; cbn; auto).
    cbn [fst]. destruct todo; cbn; rewrite map_app; cbn; (split; [|exact I]);
      (apply NoDup_app_single; [exact Hn | now apply find_none_notin]).
  - (* ICleanup *) destruct (all_done w); [|cbn; rewrite Hph; auto].
    rewrite fst_let. match goal with |- context [enter_commit ?w1 ?n] => destruct (enter_commit_parts w1 n) as [E1 E2]; unfold parts, commit_ok in *; rewrite E1 end.
    split; [|exact E2]. destruct (hd_cleanup_ok _); [|destruct (s_res w)]; cbn; auto.
  - (* ICommit *) destruct n as [|n]; [contradiction|].
    destruct ok; rewrite fst_let; match goal with |- context [enter_commit ?w1 ?n] => destruct (enter_commit_parts w1 n) as [E1 E2]; unfold parts, commit_ok in *; rewrite E1 end;
      (split; [|exact E2]); cbn; rewrite ?parts_clean; auto.
Qed.


Lemma U_run cf ins : forall w, U w -> U (fst (run cf w ins)).
Proof.
  induction ins as [|i r IH]; intros w HU; cbn; [exact HU|].
  pose proof (U_step cf w i HU) as H1. destruct (step cf w i) as [w1 e1]. cbn in H1.
  pose proof (IH w1 H1) as H2. destruct (run cf w1 r) as [w2 e2]. exact H2.
Qed.

(* ---- the measure ---- *)
Definition notdone (c : claim) : bool := negb (is_done c).
Definition pending (w : world) : nat := if s_spawned w then length (filter notdone (s_claims w)) else 0%nat.
Definition mu (cf : cfg) (w : world) : nat :=
  match w_phase w with
  | PRunning => pending w + c_commit_attempts cf + 4
  | PReleasing => pending w + c_commit_attempts cf + 3
  | PCommit n => n + 2
  | PHbStop => 1
  | _ => 0
  end%nat.
(* the session context is done and Consume has not returned yet *)
Definition winding (w : world) : Prop :=
  match w_phase w with PRunning => s_ctx w = true | PReleasing | PCommit _ | PHbStop => True | _ => False end.
(* a step that is enabled and makes progress: Consume's own next step, or the next move of a claim goroutine that
   is still alive (it finds the session ending: skip; its handler sees Messages() closed: return) *)
Definition next (w : world) : input :=
  match w_phase w with
  | PRunning => IRelease
  | PReleasing =>
    if s_spawned w then
      match find notdone (s_claims w) with
      | Some c => match cl_state c with CSpawned => IClaimGo (cl_part c) true true | _ => IClaimReturn (cl_part c) end
      | None => ICleanup
      end
    else ICleanup
  | PCommit _ => ICommit true
  | _ => IHbStop
  end.

Lemma find_first cls c : NoDup (map cl_part cls) -> find notdone cls = Some c ->
  claim_find cls (cl_part c) = Some c /\ notdone c = true.
Proof.
  induction cls as [|x r IH]; cbn; [discriminate|]. intros Hn Hf. inversion Hn as [|? ? Hx Hr]; subst.
  destruct (notdone x) eqn:E.
  - injection Hf as <-. now rewrite Z.eqb_refl.
  - destruct (IH Hr Hf) as [H1 H2]. split; [|exact H2].
    destruct (Z.eqb (cl_part x) (cl_part c)) eqn:E2; [|exact H1].
    exfalso. apply Z.eqb_eq in E2. apply Hx. rewrite E2. apply in_map. eapply claim_find_in; eauto.
Qed.
Lemma find_none cls : find notdone cls = None -> forallb is_done cls = true.
Proof.
  induction cls as [|x r IH]; cbn; [reflexivity|]. unfold notdone at 1. destruct (is_done x); cbn; [exact IH|discriminate].
Qed.
Lemma count_put cls p c c' : claim_find cls p = Some c -> cl_part c' = p ->
  (length (filter notdone (claim_put cls c')) + (if notdone c then 1 else 0) = length (filter notdone cls) + (if notdone c' then 1 else 0))%nat.
Proof.
  intros Hf Hp. subst p. revert Hf. induction cls as [|x r IH]; cbn; [discriminate|].
  destruct (Z.eqb (cl_part x) (cl_part c')) eqn:E.
  - intros H; injection H as ->. cbn. destruct (notdone c), (notdone c'); cbn; lia.
  - intros H. specialize (IH H). cbn. destruct (notdone x); cbn; lia.
Qed.

Lemma enter_commit_mu cf w n :
  (mu cf (fst (enter_commit w n)) <= n + 2)%nat /\ winding (fst (enter_commit w n)).
Proof. unfold enter_commit, mu, winding. destruct n; [|destruct (dirty_blocks _)]; cbn; split; auto; lia. Qed.

Lemma mu_put cf w c c' p : claim_find (s_claims w) p = Some c -> cl_part c' = p -> (notdone c' = true -> notdone c = true) ->
  winding w -> (w_phase w = PRunning \/ w_phase w = PReleasing) ->
  let w1 := set_claims w (claim_put (s_claims w) c') in
  (mu cf w1 <= mu cf w)%nat /\ winding w1 /\ (mu cf (set_ctx w1) <= mu cf w)%nat /\ winding (set_ctx w1) /\
  (notdone c = true -> notdone c' = false -> s_spawned w = true -> (mu cf (set_ctx w1) < mu cf w)%nat).
Proof.
  intros Hf Hp Hnd Hw Hph. pose proof (count_put _ _ _ _ Hf Hp) as Hc.
  unfold mu, winding, pending in *. cbn. destruct Hph as [Hph|Hph]; rewrite Hph in *; destruct (s_spawned w); cbn;
    destruct (notdone c) eqn:E1, (notdone c') eqn:E2; try (specialize (Hnd eq_refl); discriminate); repeat split; auto; try lia; intros; try discriminate; lia.
Qed.

Lemma mu_deliver cf w p : winding w ->
  (mu cf (fst (step cf w (IDeliver p))) <= mu cf w)%nat /\ (winding (fst (step cf w (IDeliver p))) \/ w_phase (fst (step cf w (IDeliver p))) = PIdle).
Proof.
  intros Hw. cbn [step]. destruct (claims_live w) eqn:Hl; [|cbn; auto].
  destruct (live_inv w Hl) as [Hpp _].
  destruct (claim_find (s_claims w) p) as [c|] eqn:Hf; [|cbn; auto].
  destruct (cl_state c) eqn:Hst; try (cbn; auto; fail).
  match goal with |- context [if ?b then _ else _] => destruct b end; [|cbn; auto]. cbn [fst].
  match goal with |- context [claim_put (s_claims _) ?c1] =>
      assert (Hc1 : cl_part c1 = p /\ cl_state c1 = cl_state c) end.
  { pose proof (claim_find_part _ _ _ Hf). cbn. match goal with |- context [if ?b then _ else _] => destruct b end; cbn; [unfold mark; match goal with |- context [if ?b then _ else _] => destruct b end; cbn|]; auto. }
  destruct Hc1 as [Hc1 Hc2].
  match goal with |- context [claim_put (s_claims _) ?c1] =>
    destruct (mu_put cf w c c1 p Hf Hc1) as (M1 & M2 & _); auto end.
  unfold notdone, is_done. now rewrite Hc2.
Qed.

Lemma mu_main cf w i : U w -> hside w -> winding w ->
  match i with IRelease | ICleanup | ICommit _ | IHbStop => True | _ => False end ->
  (mu cf (fst (step cf w i)) <= mu cf w)%nat /\ (winding (fst (step cf w i)) \/ w_phase (fst (step cf w i)) = PIdle) /\
  (i = next w -> (mu cf (fst (step cf w i)) < mu cf w)%nat).
Proof.
  intros [Hn Hc] Hs Hw Hi. unfold hside, winding, commit_ok, next in *.
  destruct i; try contradiction; cbn [step]; destruct (w_phase w) eqn:Hph; try contradiction;
    try (cbn [fst]; unfold mu, winding; rewrite Hph; repeat split; auto; intros X; try discriminate X; fail).
  all: try (cbn [fst]; unfold mu, winding; rewrite Hph; repeat split; auto; intros X;
            destruct (s_spawned w); [destruct (find _ _) as [c|]; [destruct (cl_state c)|]|]; discriminate X).
  - (* IRelease *) rewrite Hw. cbn [fst]. unfold mu, winding, pending; cbn. rewrite Hph. repeat split; auto; lia.
  - (* ICleanup *)
    destruct (all_done w) eqn:Hd.
    + rewrite fst_let. match goal with |- context [enter_commit ?w1 ?n] => destruct (enter_commit_mu cf w1 n) as [M1 M2] end.
      unfold mu at 2 4. rewrite Hph. repeat split; auto; lia.
    + cbn [fst]. unfold mu, winding; rewrite Hph. repeat split; auto. intros X. exfalso.
      unfold all_done in Hd. destruct (s_spawned w); [|discriminate Hd]. cbn in Hd.
      destruct (find notdone (s_claims w)) as [c|] eqn:Hf; [destruct (cl_state c); discriminate X|].
      apply find_none in Hf. congruence.
  - (* ICommit *)
    destruct n as [|n]; [contradiction|].
    destruct ok; rewrite fst_let; match goal with |- context [enter_commit ?w1 ?n] => destruct (enter_commit_mu cf w1 n) as [M1 M2] end;
      unfold mu at 2 4; rewrite Hph; repeat split; auto; lia.
Qed.


(* no step makes the measure larger, and none leaves the winding-down phases except by returning *)
Lemma mu_step cf w i : U w -> hside w -> winding w ->
  (mu cf (fst (step cf w i)) <= mu cf w)%nat /\ (winding (fst (step cf w i)) \/ w_phase (fst (step cf w i)) = PIdle).
Proof.
  intros HU Hs Hw.
  destruct i; try (now apply mu_deliver); try (match goal with |- context [step cf w ?ii] => destruct (mu_main cf w ii HU Hs Hw I) as (M1 & M2 & _) end; auto; fail).
  all: destruct HU as [Hn Hc]; unfold hside, winding, commit_ok in *.
  all: cbn [step]; unfold claims_live; destruct (w_phase w) eqn:Hph; try contradiction; rewrite ?andb_false_r, ?andb_true_r;
    try (cbn [fst]; unfold mu, winding; rewrite Hph; auto; fail).
  all: unfold hb_exit.
  all: try solve [unfold mu, winding, pending; repeat (cbn; rewrite ?Hph; try dmatch); cbn; rewrite ?Hph; cbn; auto].
  all: try match goal with |- context [claim_find (s_claims ?ww) ?q] =>
    destruct (s_spawned ww) eqn:Hsp; [|cbn [fst]; unfold mu, winding; rewrite Hph; auto];
    destruct (claim_find (s_claims ww) q) as [c|] eqn:Hf; [|cbn [fst]; unfold mu, winding; rewrite Hph; auto];
    pose proof (claim_find_part _ _ _ Hf) as Hq;
    assert (Hww : winding ww) by (unfold winding; rewrite Hph; auto);
    destruct (cl_state c) eqn:Hst; try (cbn [fst]; unfold mu, winding; rewrite Hph; auto; fail) end.
  all: try (assert (Hend : ending w = true) by (unfold ending; first [rewrite Hw | (destruct Hs as [_ Hs2]; rewrite Hs2)]; reflexivity)).
  all: try (assert (Hpp : w_phase w = PRunning \/ w_phase w = PReleasing) by (rewrite Hph; auto)).
  (* IClaimGo / IClaimReturn: the goroutine exits *)
  all: try (match goal with |- context [if ending ?ww then _ else _] => rewrite Hend end; cbn [fst orb]; unfold claim_exit;
         destruct (mu_put cf w c (with_state c CDone) _ Hf Hq (fun H => ltac:(discriminate H)) Hww Hpp) as (_ & _ & M1 & M2 & _); auto; fail).
  all: try (match goal with |- context [ending ?ww || _] => rewrite Hend end; cbn [fst orb]; unfold claim_exit;
         destruct (mu_put cf w c (with_state c CDone) _ Hf Hq (fun H => ltac:(discriminate H)) Hww Hpp) as (_ & _ & M1 & M2 & _); auto; fail).
Qed.


(* the step [next w] is enabled and strictly decreases the measure *)
Lemma progress cf w : U w -> hside w -> winding w -> (mu cf (fst (step cf w (next w))) < mu cf w)%nat.
Proof.
  intros HU Hs Hw. pose proof HU as [Hn Hc].
  assert (Hmain : forall i, match i with IRelease | ICleanup | ICommit _ | IHbStop => True | _ => False end -> i = next w ->
                  (mu cf (fst (step cf w i)) < mu cf w)%nat).
  { intros i Hi He. destruct (mu_main cf w i HU Hs Hw Hi) as (_ & _ & M). auto. }
  unfold next in *. unfold winding, hside in Hw, Hs. destruct (w_phase w) eqn:Hph; try contradiction.
  - now apply Hmain.
  - destruct (s_spawned w) eqn:Hsp; [|now apply Hmain].
    destruct (find notdone (s_claims w)) as [c|] eqn:Hfd; [|now apply Hmain].
    destruct (find_first _ _ Hn Hfd) as [Hf Hnd]. destruct Hs as [_ Hctx].
    assert (Hend : ending w = true) by (unfold ending; now rewrite Hctx).
    assert (Hww : winding w) by (unfold winding; now rewrite Hph).
    assert (Hl : claims_live w = true) by (unfold claims_live; now rewrite Hsp, Hph).
    destruct (mu_put cf w c (with_state c CDone) (cl_part c) Hf eq_refl (fun H => ltac:(discriminate H)) Hww (or_intror Hph)) as (_ & _ & _ & _ & M).
    specialize (M Hnd eq_refl Hsp).
    destruct (cl_state c) eqn:Hst.
    + cbn [step]. rewrite Hl, Hf, Hst, Hend. exact M.
    + cbn [step]. rewrite Hl, Hf, Hst, Hend. exact M.
    + unfold notdone, is_done in Hnd. rewrite Hst in Hnd. discriminate Hnd.
  - now apply Hmain.
  - now apply Hmain.
Qed.

Lemma return_event cf w i : winding w -> w_phase (fst (step cf w i)) = PIdle -> exists r, In (EvReturn r) (snd (step cf w i)).
Proof.
  intros Hw. unfold winding in Hw.
  destruct i; cbn [step]; unfold claims_live; destruct (w_phase w) eqn:Hph; try contradiction; rewrite ?andb_false_r, ?andb_true_r;
    try (cbn [fst]; intros X; rewrite Hph in X; discriminate X).
  all: unfold hb_exit, claim_exit.
  all: try solve [repeat (rewrite ?fst_let; cbn; try dmatch); rewrite ?fst_let; cbn; rewrite ?Hph;
                  repeat match goal with |- context [enter_commit ?w1 ?n] => pose proof (enter_commit_mu cf w1 n) as [_ E]; unfold winding in E; destruct (w_phase (fst (enter_commit w1 n))) end;
                  try contradiction; intros X; try discriminate X; eauto].
  - (* ICleanup *) destruct (all_done w); [|cbn [fst]; intros X; rewrite Hph in X; discriminate X].
    rewrite fst_let. match goal with |- context [enter_commit ?w1 ?n] => pose proof (enter_commit_mu cf w1 n) as [_ E]; unfold winding in E end.
    intros X. rewrite X in E. contradiction.
  - (* ICommit *) destruct n as [|n]; [cbn [fst]; intros X; rewrite Hph in X; discriminate X|].
    destruct ok; rewrite fst_let; match goal with |- context [enter_commit ?w1 ?n] => pose proof (enter_commit_mu cf w1 n) as [_ E]; unfold winding in E end;
      intros X; rewrite X in E; contradiction.
Qed.

(* Consume returns: from every reachable state in which the session context is done, at most [mu] further steps of the
   member (its own and those of the claim goroutines still alive) bring Consume to its return. *)
Theorem consume_returns_holds cf st lg ins :
  let w := final cf (init_world st lg) ins in
  winding w ->
  (forall i, (mu cf (fst (step cf w i)) <= mu cf w)%nat) /\
  exists ins', (length ins' <= mu cf w)%nat /\ w_phase (final cf w ins') = PIdle /\ exists r, In (EvReturn r) (trace cf w ins').
Proof.
  intros w Hw.
  assert (HU : U w) by (apply U_run; unfold U, parts, commit_ok; cbn; split; [constructor | exact I]).
  assert (Hs : hside w) by (destruct (hook_run cf ins (init_world st lg) I) as [_ H]; exact H).
  split; [intros i; now apply mu_step|].
  clearbody w. clear ins. remember (mu cf w) as m eqn:Hm. revert w Hm Hw HU Hs.
  induction m as [m IH] using lt_wf_ind. intros w Hm Hw HU Hs.
  pose proof (progress cf w HU Hs Hw) as Hp.
  destruct (mu_step cf w (next w) HU Hs Hw) as [_ Hnext].
  pose proof (U_step cf w (next w) HU) as HU'. destruct (hook_sim cf w (next w) Hs) as [_ Hs'].
  destruct Hnext as [Hw'|Hidle].
  - destruct (IH (mu cf (fst (step cf w (next w)))) ltac:(lia) _ eq_refl Hw' HU' Hs') as (ins' & L & P & r & R).
    exists (next w :: ins'). unfold final, trace in *. cbn. destruct (step cf w (next w)) as [w1 e1]. cbn in *.
    destruct (run cf w1 ins') as [w2 e2]. cbn in *. repeat split; [lia | exact P | exists r; apply in_or_app; now right].
  - destruct (return_event cf w (next w) Hw Hidle) as [r R].
    exists [next w]. unfold final, trace. cbn. destruct (step cf w (next w)) as [w1 e1]. cbn in *.
    repeat split; [lia | exact Hidle | exists r; now rewrite app_nil_r].
Qed.

(* ---- errors of the partition consumers ----
   Whether an error gets onto Errors() (the application reads it / there is buffer space) or is dropped is the
   [delivered] flag of IClaimError.  The member's state — hence every session-end cause, [winding], [mu], the
   enabledness of every step and Consume's return — does not depend on it. *)
Definition undeliver (i : input) : input :=
  match i with IClaimError p _ => IClaimError p false | IPomError p _ => IPomError p false | _ => i end.
Theorem errors_never_block cf :
  (forall w p d, fst (step cf w (IClaimError p d)) = w /\ fst (step cf w (IPomError p d)) = w) /\
  (forall ins w, final cf w (map undeliver ins) = final cf w ins).
Proof.
  split; [intros; split; [apply step_claimerr_state | apply step_pomerr_state]|].
  unfold final. induction ins as [|i r IH]; intros w; [reflexivity|]. cbn [map run].
  assert (H : fst (step cf w (undeliver i)) = fst (step cf w i)).
  { destruct i; try reflexivity; cbn [undeliver]; [now rewrite !step_pomerr_state | now rewrite !step_claimerr_state]. }
  destruct (step cf w (undeliver i)) as [w1 e1], (step cf w i) as [w2 e2]. cbn in H. subst w2.
  specialize (IH w1). destruct (run cf w1 (map undeliver r)), (run cf w1 r). cbn in *. exact IH.
Qed.
