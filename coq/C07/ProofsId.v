(* C07 — identity: every request of a session carries the identity issued by the join that opened it. *)
From Coq Require Import List ZArith Bool Lia.
From SV Require Import C07.Model C07.Spec C07.ProofsHook.
Import ListNotations.
Open Scope Z_scope.

Lemma sim_accept_rel {S} (f : S -> event -> option S) (R : world -> S -> Prop) cf :
  (forall w s i, R w s -> exists s', accept f s (snd (step cf w i)) = Some s' /\ R (fst (step cf w i)) s') ->
  forall ins w s, R w s -> exists s', accept f s (snd (run cf w ins)) = Some s' /\ R (fst (run cf w ins)) s'.
Proof.
  intros H ins; induction ins as [|i r IH]; intros w s HR; cbn; [eauto|].
  destruct (H w s i HR) as [s1 [Ha HR1]]. destruct (step cf w i) as [w1 e1]; cbn in *.
  destruct (IH w1 s1 HR1) as [s2 [Hb HR2]]. destruct (run cf w1 r) as [w2 e2]; cbn in *.
  exists s2. rewrite accept_app, Ha. auto.
Qed.

Definition in_session (w : world) : bool :=
  match w_phase w with PIdle | PJoin _ _ => false | _ => true end.
Definition idR (w : world) (s : ids) : Prop :=
  i_last s = w_member w /\
  (s_hb w = true -> in_session w = true) /\
  match w_phase w with
  | PIdle => i_sess s = None
  | PJoin _ (JSync m g _) => i_sess s = None /\ i_pend s = Some (m, g) /\ w_member w = m
  | PJoin _ _ => i_sess s = None
  | _ => i_sess s = Some (s_member w, s_gen w)
  end.

Lemma same_refl m g : same (Some (m, g)) m g = true.
Proof. cbn. now rewrite !Z.eqb_refl. Qed.

Lemma accept_stored_id s bs : accept id_step s (stored_events bs) = Some s.
Proof. induction bs as [|b r IH]; cbn; auto. Qed.

Lemma ec_events w n s : accept id_step s (snd (enter_commit w n)) = Some s.
Proof. unfold enter_commit. destruct n as [|n]; [|destruct (dirty_blocks (s_claims w))]; reflexivity. Qed.
Lemma ec_idR w n s : idR w s -> in_session w = true -> idR (fst (enter_commit w n)) s.
Proof.
  unfold enter_commit, idR, in_session. intros (Hl & Hh & Hp) Hs.
  destruct n as [|n]; [|destruct (dirty_blocks (s_claims w))]; cbn;
    (repeat split; auto); destruct (w_phase w); try discriminate; auto.
Qed.
Ltac ufi := unfold idR, in_session, ret, retry_or, enter_new_session, enter_manage, claim_exit, hb_exit, in_call, claims_live, new_call, new_session in *.
Ltac split_step2 :=
  repeat (cbn [fst snd]; match goal with
  | |- context [snd ?X] =>
    match X with
    | context [match ?x with _ => _ end] =>
      lazymatch x with
      | context [match _ with _ => _ end] => fail
      | context [enter_commit] => fail
      | _ => destruct x eqn:?
      end
    end
  end).
Definition nxt (s : ids) (evs : list event) : ids := match accept id_step s evs with Some s' => s' | None => s end.
Ltac id_fin Hph HR0 :=
  cbn [fst snd]; repeat dmatch; unfold nxt; cbn; rewrite ?Z.eqb_refl, ?same_refl; cbn;
  repeat match goal with H : ?x = _ |- context [?x] => rewrite H end; cbn;
  (split; [discriminate|]); try clear HR0; ufi; cbn; rewrite ?Hph; cbn; repeat match goal with |- _ /\ _ => split end; auto; try congruence;
    try (repeat dmatch; cbn in *; intuition (try congruence); fail).
Lemma id_sim' cf w s i : idR w s -> accept id_step s (snd (step cf w i)) <> None /\ idR (fst (step cf w i)) (nxt s (snd (step cf w i))).
Proof.
  intros HR. pose proof HR as HR0. destruct s as [last pend sess].
  destruct HR as (Hl & Hh & Hp). cbn in Hl, Hp. subst last.
  destruct i; cbn [step]; unfold claims_live; destruct (w_phase w) eqn:Hph; rewrite ?andb_false_r;
    try (cbn [fst snd]; split; [discriminate | exact HR0]).
  all: unfold retry_or, ret.
  all: try solve [unfold in_session in Hh; rewrite Hph in Hh; split_step2; repeat match goal with H : _ /\ _ |- _ => destruct H end; subst; id_fin Hph HR0].
  all: try solve [destruct (s_hb w) eqn:Hb; [specialize (Hh eq_refl); unfold in_session in Hh; rewrite Hph in Hh; discriminate | cbn; split; [discriminate | exact HR0]]].
  - (* IFetch *)
    destruct todo as [|p todo]; [cbn; split; [discriminate | exact HR0]|].
    match goal with |- context [if ?b then _ else _] => destruct b end.
    + cbn [fst snd]. unfold nxt. cbn. split; [discriminate|]. clear HR0. subst sess.
      unfold enter_manage, idR, in_session. destruct todo; cbn; auto.
    + match goal with |- context [enter_commit ?w1 ?n] => pose proof (ec_events w1 n) as He; pose proof (ec_idR w1 n) as Hi; destruct (enter_commit w1 n) as [w' e] end.
      cbn [fst snd] in *. unfold nxt. cbn. rewrite He. split; [discriminate|]. apply Hi.
      * subst sess. unfold idR, in_session in *. cbn. rewrite Hph in *. auto.
      * unfold in_session. cbn. now rewrite Hph.
  - (* ICleanup *)
    destruct (all_done w); [|cbn; split; [discriminate | exact HR0]].
    match goal with |- context [enter_commit ?w1 ?n] => pose proof (ec_events w1 n) as He; pose proof (ec_idR w1 n) as Hi; destruct (enter_commit w1 n) as [w' e] end.
    cbn [fst snd] in *. unfold nxt. cbn. rewrite He. split; [discriminate|]. apply Hi.
    * subst sess. unfold idR, in_session in *. destruct (hd_cleanup_ok _); [|destruct (s_res w)]; cbn; rewrite Hph in *; auto.
    * unfold in_session. destruct (hd_cleanup_ok _); [|destruct (s_res w)]; cbn; now rewrite Hph.
  - (* ICommit *)
    destruct n as [|n]; [cbn; split; [discriminate | exact HR0]|]. subst sess.
    destruct ok; match goal with |- context [enter_commit ?w1 ?n] => pose proof (ec_events w1 n) as He; pose proof (ec_idR w1 n) as Hi; destruct (enter_commit w1 n) as [w' e] end;
    cbn [fst snd] in *; unfold nxt; cbn [accept id_step i_sess]; rewrite ?same_refl; rewrite ?accept_app, ?accept_stored_id, He; (split; [discriminate|]); apply Hi;
      unfold idR, in_session in *; cbn; rewrite Hph in *; auto.
Qed.

Lemma id_sim cf w s i : idR w s -> exists s', accept id_step s (snd (step cf w i)) = Some s' /\ idR (fst (step cf w i)) s'.
Proof.
  intros HR. destruct (id_sim' cf w s i HR) as [Ha Hb]. unfold nxt in Hb.
  destruct (accept id_step s (snd (step cf w i))) as [s'|]; [eauto | congruence].
Qed.

Theorem identity_holds cf st lg ins : identity_ok (trace cf (init_world st lg) ins).
Proof.
  unfold identity_ok, trace.
  destruct (sim_accept_rel id_step idR cf (id_sim cf) ins (init_world st lg) ids0) as [s' [H _]].
  - unfold idR, in_session; cbn. repeat split; auto; discriminate.
  - rewrite H. discriminate.
Qed.

