(* C07 — the statements are not vacuous: concrete runs that exercise them, and traces the acceptors reject. *)
From Coq Require Import List ZArith Bool Lia.
From SV Require Import C07.Model C07.Spec C07.ProofsHook C07.ProofsId C07.ProofsOffsets C07.ProofsEnds C07.ProofsReturns.
Import ListNotations.
Open Scope Z_scope.

Definition ex_cfg : cfg := {| c_retries := 1; c_initial := OffsetOldest; c_hb_retries := 1; c_commit_attempts := 2%nat |}.
Definition ex_handler : handler :=
  {| hd_setup_ok := true; hd_cleanup_ok := true;
     hd_beh := [(0, {| h_quota := None; h_mark := 2%nat |}); (1, {| h_quota := Some 2%nat; h_mark := 1%nat |})];
     hd_default := {| h_quota := None; h_mark := 0%nat |} |}.
(* session 1: fenced on the first join, rejoins with a fresh id, two claims, a rebalance ends it, commit;
   session 2: resumes from the committed offsets *)
Definition ex_inputs : list input :=
  [IConsume false ex_handler; ICoord true; IJoin JUnknownMember; IJoin (JOk 7 3 false); ISync (SOk [0; 1]);
   IHeartbeat HOk; IFetch true; IFetch true; ISetup;
   IClaimGo 0 true true; IClaimGo 1 true true; IDeliver 0; IDeliver 0; IDeliver 0; IDeliver 1; IDeliver 1;
   IHeartbeat HRebalance; IClaimReturn 1; IClaimReturn 0; IRelease; ICleanup; ICommit false; ICommit true; IHbStop;
   IProduce 0;
   IConsume false ex_handler; IJoin (JOk 7 4 true); ISync (SOk [0; 1]); IFetch true; IFetch true; ISetup;
   IClaimGo 1 true true; IClaimGo 0 true true; IDeliver 0; IDeliver 1; ICancel; IClaimReturn 0; IClaimReturn 1; IRelease; ICleanup; ICommit true; IHbStop;
   IClose; ILeave LOk].
Definition ex_store : list (part * Z) := [(0, 2)].
Definition ex_log : list (part * (Z * Z)) := [(0, (0, 6)); (1, (0, 3))].
Definition ex_run := run ex_cfg (init_world ex_store ex_log) ex_inputs.

(* the run is the intended one: both sessions reach every stage *)
Example ex_trace_has_hooks :
  filter (fun e => match e with EvSetup | EvCleanup | EvFinalCommit | EvReturn _ | EvClaimStart _ _ | EvStored _ _ => true | _ => false end) (snd ex_run) =
  [EvSetup; EvClaimStart 0 2; EvClaimStart 1 (-2); EvCleanup; EvStored 0 4; EvStored 1 1; EvFinalCommit; EvReturn RNil;
   EvSetup; EvClaimStart 1 1; EvClaimStart 0 4; EvCleanup; EvStored 0 5; EvStored 1 2; EvFinalCommit; EvReturn RNil].
Proof. vm_compute. reflexivity. Qed.
Example ex_requests :
  filter (fun e => match e with EvReq RJoin _ _ | EvReq (RSync _) _ _ | EvReq (RCommit _) _ _ | EvReq RLeave _ _ => true | _ => false end) (snd ex_run) =
  [EvReq RJoin 0 0; EvReq RJoin 0 0; EvReq (RSync false) 7 3; EvReq (RCommit [(0, 4); (1, 1)]) 7 3; EvReq (RCommit [(0, 4); (1, 1)]) 7 3;
   EvReq RJoin 7 0; EvReq (RSync true) 7 4; EvReq (RCommit [(0, 5); (1, 2)]) 7 4; EvReq RLeave 7 0].
Proof. vm_compute. reflexivity. Qed.
(* c07_no_skip: the hypothesis holds for both partitions and the conclusion speaks about real records *)
Example ex_noskip_wf : wf0 ex_cfg ex_store ex_log 0 /\ wf0 ex_cfg ex_store ex_log 1.
Proof. unfold wf0; cbn; repeat split; try lia; reflexivity. Qed.
Example ex_noskip_nonvacuous :
  store_get (w_store (fst ex_run)) 0 = Some 5 /\ base ex_store ex_log 0 = 2 /\
  store_get (w_store (fst ex_run)) 1 = Some 2 /\ base ex_store ex_log 1 = 0.
Proof. vm_compute. repeat split. Qed.
(* c07_claim_start: a ConsumeClaim does start in the state reached before the 10th input *)
Example ex_claim_start :
  In (EvClaimStart 0 2) (snd (step ex_cfg (final ex_cfg (init_world ex_store ex_log) (firstn 9 ex_inputs)) (IClaimGo 0 true true))).
Proof. vm_compute. auto. Qed.
(* a transient failure of the first ConsumePartition (a1 = false) with a valid committed offset: no fallback to Initial,
   no ConsumeClaim; the claim goroutine ends the session *)
Example ex_transient_no_fallback :
  snd (step ex_cfg (final ex_cfg (init_world ex_store ex_log) (firstn 9 ex_inputs)) (IClaimGo 0 false true)) = [EvClaimFail 0; EvEnd CauseClaim].
Proof. vm_compute. reflexivity. Qed.
(* c07_session_ends: a state with phase PRunning is reachable *)
Example ex_running : w_phase (final ex_cfg (init_world ex_store ex_log) (firstn 16 ex_inputs)) = PRunning.
Proof. vm_compute. reflexivity. Qed.

(* c07_consume_returns: after the rebalance announcement the state is winding down with two claims still running *)
Example ex_winding :
  let w := final ex_cfg (init_world ex_store ex_log) (firstn 17 ex_inputs) in winding w /\ mu ex_cfg w = 8%nat.
Proof. vm_compute. auto. Qed.

(* the acceptors have teeth *)
Example hook_rejects_claim_before_setup : accept hook_step hs_idle [EvCall; EvAssigned [1]; EvClaimStart 1 0] = None.
Proof. reflexivity. Qed.
Example hook_rejects_two_setups : accept hook_step hs_idle [EvCall; EvAssigned [1]; EvSetup; EvSetup] = None.
Proof. reflexivity. Qed.
Example hook_rejects_second_claim : accept hook_step hs_idle [EvCall; EvAssigned [1]; EvSetup; EvClaimStart 1 0; EvClaimStart 1 0] = None.
Proof. reflexivity. Qed.
Example hook_rejects_cleanup_before_return :
  accept hook_step hs_idle [EvCall; EvAssigned [1]; EvSetup; EvClaimStart 1 0; EvEnd CauseCtx; EvCleanup] = None.
Proof. reflexivity. Qed.
Example hook_rejects_missing_claim :
  accept hook_step hs_idle [EvCall; EvAssigned [1; 2]; EvSetup; EvClaimStart 1 0; EvEnd CauseCtx; EvClaimReturn 1; EvCleanup] = None.
Proof. reflexivity. Qed.
Example hook_rejects_skip_when_not_ending : accept hook_step hs_idle [EvCall; EvAssigned [1]; EvSetup; EvClaimSkip 1] = None.
Proof. reflexivity. Qed.
Example hook_rejects_cleanup_while_session_live :
  accept hook_step hs_idle [EvCall; EvAssigned []; EvSetup; EvCleanup] = None.
Proof. reflexivity. Qed.
Example hook_rejects_commit_before_cleanup :
  accept hook_step hs_idle [EvCall; EvAssigned []; EvSetup; EvEnd CauseCtx; EvFinalCommit] = None.
Proof. reflexivity. Qed.
Example hook_rejects_return_before_commit :
  accept hook_step hs_idle [EvCall; EvAssigned []; EvSetup; EvEnd CauseCtx; EvCleanup; EvReturn RNil] = None.
Proof. reflexivity. Qed.
Example hook_rejects_claim_after_return :
  accept hook_step hs_idle [EvCall; EvAssigned [1]; EvSetup; EvEnd CauseCtx; EvClaimSkip 1; EvCleanup; EvFinalCommit; EvReturn RNil; EvClaimStart 1 0] = None.
Proof. reflexivity. Qed.
Example id_rejects_stale_generation :
  accept id_step ids0 [EvReq RJoin 0 0; EvJoined 7 3; EvReq (RSync false) 7 3; EvAssigned []; EvReq RHeartbeat 7 2] = None.
Proof. reflexivity. Qed.
Example id_rejects_old_id_after_fencing :
  accept id_step ids0 [EvReq RJoin 0 0; EvJoined 7 3; EvReq (RSync false) 7 3; EvFenced; EvReq RJoin 7 0] = None.
Proof. reflexivity. Qed.
Example id_rejects_commit_with_other_member :
  accept id_step ids0 [EvReq RJoin 0 0; EvJoined 7 3; EvReq (RSync false) 7 3; EvAssigned []; EvReq (RCommit []) 8 3] = None.
Proof. reflexivity. Qed.

(* Observation (not a defect claim): newSession retries at once, without using up a retry, when the coordinator
   answers UnknownMemberId / IllegalGeneration, and retryNewSession loops without using one up while
   RefreshCoordinator fails.  Against a script that keeps fencing, the join phase never ends: after n fencing
   answers the member is still joining with all its retries. *)
Fixpoint fencing (n : nat) : list input := match n with O => [] | S k => IJoin JUnknownMember :: fencing k end.
Lemma fencing_forever n r w : w_phase w = PJoin r JJoin -> w_coord w = true ->
  let w' := final ex_cfg w (fencing n) in w_phase w' = PJoin r JJoin /\ w_coord w' = true.
Proof.
  revert w; induction n as [|n IH]; intros w Hp Hc; [cbn; auto|].
  unfold final in *. cbn [fencing run]. cbn [step]. rewrite Hp. unfold enter_new_session. cbn. rewrite Hc.
  match goal with |- context [run ex_cfg ?w1 (fencing n)] => specialize (IH w1); destruct (run ex_cfg w1 (fencing n)) end.
  cbn in *. apply IH; [reflexivity | exact Hc].
Qed.
