(* C07 — the five causes end the session; the error-class switches agree with the regenerated code. *)
From Coq Require Import List ZArith Bool Lia String.
From SV Require Import C07.Model C07.Spec C07.ProofsHook C07.ProofsOffsets.
From SV Require Import Gen.GoInt Gen.DecTypes Gen.DecC07.
Import ListNotations.
Open Scope Z_scope.

(* once the session context is done it stays done until Consume returns *)
Lemma enter_commit_ctx w n : s_ctx (fst (enter_commit w n)) = s_ctx w.
Proof. unfold enter_commit. destruct n; [|destruct (dirty_blocks _)]; reflexivity. Qed.
Lemma ctx_stable cf w i : s_ctx w = true -> w_phase w <> PIdle -> s_ctx (fst (step cf w i)) = true.
Proof.
  intros Hc Hp. destruct i; cbn [step]; unfold claims_live; destruct (w_phase w) eqn:Hph; try congruence; try (cbn; exact Hc).
  all: unfold retry_or, ret, enter_new_session, enter_manage, hb_exit, claim_exit, new_session;
    repeat (rewrite ?fst_let, ?enter_commit_ctx; cbn; try dmatch); rewrite ?fst_let, ?enter_commit_ctx; cbn; auto; try congruence.
Qed.

(* Each of the five causes, arriving while Consume waits on the session (PRunning), makes the session context done;
   then the waiting Consume proceeds to release (PReleasing).  Group closed: the claims see c.closed at once
   ([ending]), the partition-count watcher turns it into a cancellation. *)
Theorem session_ends_holds cf w :
  w_phase w = PRunning ->
  (* context cancelled *)
  s_ctx (fst (step cf w ICancel)) = true /\
  (* rebalance announced / member fenced, by a heartbeat answer *)
  (s_hb w = true -> forall v, v = HRebalance \/ v = HUnknownMember \/ v = HIllegalGen -> s_ctx (fst (step cf w (IHeartbeat v))) = true) /\
  (* a claim ends *)
  (forall p, In (EvClaimReturn p) (snd (step cf w (IClaimReturn p))) -> s_ctx (fst (step cf w (IClaimReturn p))) = true) /\
  (forall p a1 a2, (In (EvClaimSkip p) (snd (step cf w (IClaimGo p a1 a2))) \/ In (EvClaimFail p) (snd (step cf w (IClaimGo p a1 a2)))) ->
               s_ctx (fst (step cf w (IClaimGo p a1 a2))) = true) /\
  (* group closed *)
  (ending (fst (step cf w IClose)) = true /\ s_ctx (fst (step cf (fst (step cf w IClose)) IWatch)) = true) /\
  (* and in each case the phase is still PRunning with IRelease enabled *)
  (forall w', w_phase w' = PRunning -> s_ctx w' = true -> w_phase (fst (step cf w' IRelease)) = PReleasing).
Proof.
  intros Hph. repeat split.
  - cbn. unfold in_call. now rewrite Hph.
  - intros Hb v [-> | [-> | ->]]; cbn; rewrite Hb; reflexivity.
  - intros p. cbn [step]. destruct (claims_live w); [|intros []]. destruct (claim_find _ _); [|intros []].
    destruct (cl_state c); try (intros []; fail). destruct (_ || _); [|intros []]. reflexivity.
  - intros p a1 a2. cbn [step]. destruct (claims_live w); [|intros [[]|[]]]. destruct (claim_find _ _); [|intros [[]|[]]].
    destruct (cl_state c); try (intros [[]|[]]; fail). destruct (ending w); [reflexivity|].
    destruct (log_get _ _). destruct (claim_try _ _ _ _ _ _); [|reflexivity].
    cbn. intros [[H|[]]|[H|[]]]; discriminate H.
  - cbn. destruct (w_closed w) eqn:E; unfold ending; cbn; [now rewrite E, orb_true_r | now rewrite orb_true_r].
  - cbn [step]. destruct (w_closed w) eqn:E; cbn; rewrite Hph; cbn; [now rewrite E | reflexivity].
  - intros w' Hp Hc. cbn. now rewrite Hp, Hc.
Qed.

(* ---- tie to the regenerated error-class switches (coq/Gen/DecC07.v, re-derived from consumer_group.go on every check) ---- *)
Definition jv_code (v : jv) (code : Z) : Prop :=
  match v with
  | JOk _ _ _ => code = 0 | JUnknownMember => code = 25 | JIllegalGen => code = 22 | JNotCoord => code = 16 | JRebalance => code = 27
  | JFatal => code <> 0 /\ code <> 25 /\ code <> 22 /\ code <> 16 /\ code <> 27
  | JDrop => False
  end.
Definition sv_code (v : sv) (code : Z) : Prop :=
  match v with
  | SOk _ => code = 0 | SUnknownMember => code = 25 | SIllegalGen => code = 22 | SNotCoord => code = 16 | SRebalance => code = 27
  | SFatal => code <> 0 /\ code <> 25 /\ code <> 22 /\ code <> 16 /\ code <> 27
  | SDrop => False
  end.
Definition hv_code (v : hv) (code : Z) : Prop :=
  match v with
  | HOk => code = 0 | HRebalance => code = 27 | HUnknownMember => code = 25 | HIllegalGen => code = 22
  | HFatal => code <> 0 /\ code <> 25 /\ code <> 22 /\ code <> 27
  | HDrop => False
  end.
(* what the generated switch says happens next, read on the model's state *)
Definition ns_agrees (w : world) (ex : exit (ns_next * gerr)) (fall : world -> Prop) (w' : world) (evs : list event) : Prop :=
  match ex with
  | ExFall => fall w'
  | ExReturn (NS_again r', ENil) => w_phase w' = w_phase (enter_new_session w r') /\ w_member w' = 0 /\ In EvFenced evs
  | ExReturn (NS_backoff r' refresh, ENil) => w_phase w' = PJoin r' (JBackoff refresh) /\ w_member w' = w_member w
  | ExReturn (NS_nil, EK e) => w_phase w' = PIdle /\ w_member w' = w_member w /\
                                 In (EvReturn (if (e =? 16) || (e =? 27) then RKErr e else RFatal)) evs
  | _ => False
  end.

Ltac codes := repeat match goal with
  | H : _ /\ _ |- _ => destruct H
  | H : ?c <> ?k |- context [?c =? ?k] => rewrite (proj2 (Z.eqb_neq c k) H)
  end.

Theorem tie_join cf w r v code mid jmid :
  w_phase w = PJoin r JJoin -> jv_code v code ->
  let '(w', evs) := step cf w (IJoin v) in
  ns_agrees w (snd (join_error_class mid r code jmid))
    (fun w' => exists m g l, v = JOk m g l /\ w_phase w' = PJoin r (JSync m g l) /\ w_member w' = m) w' evs /\
  (* the member id: taken from the answer, cleared, or kept *)
  match v with
  | JOk _ _ _ => fst (join_error_class mid r code jmid) = jmid
  | JUnknownMember | JIllegalGen => fst (join_error_class mid r code jmid) = ""%string
  | _ => fst (join_error_class mid r code jmid) = mid
  end.
Proof.
  intros Hph Hc. cbn [step]. rewrite Hph. unfold join_error_class, retry_or, ret, ns_agrees, enter_new_session.
  destruct v; cbn in Hc; try contradiction; subst; cbn; eauto 10.
  - destruct (r <=? 0); cbn; auto 10.
  - destruct (r <=? 0); cbn; auto 10.
  - codes. cbn. codes. cbn. auto 10.
Qed.

Theorem tie_sync cf w r m g l v code mid :
  w_phase w = PJoin r (JSync m g l) -> sv_code v code ->
  let '(w', evs) := step cf w (ISync v) in
  ns_agrees w (snd (sync_error_class mid r code))
    (fun w' => exists plan, v = SOk plan /\ s_member w' = m /\ s_gen w' = g /\ s_hb w' = true /\ In (EvAssigned plan) evs) w' evs /\
  match v with
  | SUnknownMember | SIllegalGen => fst (sync_error_class mid r code) = ""%string
  | _ => fst (sync_error_class mid r code) = mid
  end.
Proof.
  intros Hph Hc. cbn [step]. rewrite Hph. unfold sync_error_class, retry_or, ret, ns_agrees, enter_new_session, enter_manage.
  destruct v; cbn in Hc; try contradiction; subst; cbn; eauto 10.
  - split; [|reflexivity]. exists plan. destruct plan; cbn; auto 10.
  - destruct (r <=? 0); cbn; auto 10.
  - destruct (r <=? 0); cbn; auto 10.
  - codes. cbn. codes. cbn. auto 10.
Qed.

Theorem tie_heartbeat cf w v code :
  s_hb w = true -> hv_code v code ->
  let '(r', acts, ex) := heartbeat_error_class (s_hbretries w) code (c_hb_retries cf) in
  let w' := fst (step cf w (IHeartbeat v)) in
  match ex with
  | ExFall => s_hb w' = true /\ s_hbretries w' = r' /\ s_ctx w' = s_ctx w           (* keeps beating, retries reset *)
  | ExReturn _ => s_hb w' = false /\ s_ctx w' = true /\                              (* loop exits: defer s.cancel() *)
                    (acts = [] <-> (v = HRebalance \/ v = HUnknownMember \/ v = HIllegalGen))   (* silently, or after handleError *)
  | _ => False
  end.
Proof.
  intros Hb Hc. unfold heartbeat_error_class. cbn [step]. rewrite Hb.
  destruct v; cbn in Hc; try contradiction; subst; cbn; auto.
  - repeat split; auto.
  - repeat split; auto.
  - repeat split; auto.
  - codes. cbn. repeat split; auto; try discriminate. intros [X|[X|X]]; discriminate X.
Qed.

(* ---- tie of the claim-creation step to the regenerated error test of newConsumerGroupClaim (DecC07.claim_start) ----
   The model's inputs a1 / a2 say whether a ConsumePartition attempt fails for a reason other than the offset; what
   ConsumePartition answers is then fixed by chooseStartingOffset: nil inside the log, ErrOffsetOutOfRange (EK 1) outside. *)
Definition consume_result (lo hi : Z) (ok : bool) (e : gerr) (o : Z) : gerr :=
  if ok then (if in_range o lo hi then ENil else EK 1) else e.

Theorem tie_claim_start cf pom lo hi a1 a2 e1 e2 :
  gerr_eqb e1 ENil = false -> gerr_eqb e1 (EK 1) = false -> gerr_eqb e2 ENil = false ->
  let o := next_offset cf pom in
  let script := [(tt, consume_result lo hi a1 e1 o); (tt, consume_result lo hi a2 e2 (c_initial cf))] in
  match claim_start o script (c_initial cf) with
  | (off, _, ExFall) => claim_try cf pom lo hi a1 a2 = Some off          (* the claim exists, InitialOffset = off *)
  | (_, _, ExReturn (_, err)) => claim_try cf pom lo hi a1 a2 = None /\ err <> ENil   (* no claim: the error is returned *)
  | _ => False
  end.
Proof.
  intros H1 H2 H3. unfold claim_start, claim_try, consume_result, pop. cbn.
  destruct a1; cbn.
  - destruct (in_range (next_offset cf pom) lo hi); cbn; [reflexivity|].
    destruct a2; cbn.
    + destruct (in_range (c_initial cf) lo hi); cbn; [reflexivity|]. split; [reflexivity|discriminate].
    + rewrite H3. cbn. split; [reflexivity|]. intros ->. discriminate H3.
  - rewrite H2, H1. cbn. split; [reflexivity|]. intros ->. discriminate H1.
Qed.
