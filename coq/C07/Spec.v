(* C07 — the property as small acceptors over event traces (definitions only, no proofs).
   An acceptor reads the trace left to right; [None] = the trace violates the property.  Since every
   prefix of a model trace is a model trace (inputs are a list, disabled inputs stutter), acceptance
   of all traces is an "at every moment" statement: e.g. a Cleanup that came before a ConsumeClaim
   returned would be rejected at the Cleanup. *)
From Coq Require Import List ZArith Bool.
From SV Require Import C07.Model.
Import ListNotations.
Open Scope Z_scope.

Fixpoint accept {S : Type} (f : S -> event -> option S) (s : S) (tr : list event) : option S :=
  match tr with
  | [] => Some s
  | e :: r => match f s e with Some s' => accept f s' r | None => None end
  end.

(* ------------------------------------------------------------------------------------------------
   Hook order.  Per Consume call:
     SNone --EvAssigned--> SAssigned --EvSetup--> SSetup --EvCleanup--> SCleanup --EvFinalCommit--> SCommitted --EvReturn--> idle
   (SAssigned --EvEnd CauseFetchErr--> SAborted --EvFinalCommit--> SCommitted: a claim's offset could not be fetched, no hooks run;
    SNone --EvReturn--> idle: the group could not be joined).
   Per assigned partition, inside SSetup:  CSpawned --ClaimStart--> CRunning --ClaimReturn--> CDone,
     CSpawned --ClaimSkip (only when the session is already ending)--> CDone,  CSpawned --ClaimFail--> CDone.
   Cleanup needs: the session is ending, and every assigned partition is CDone (or Setup failed, in which
   case no ConsumeClaim may run at all).  Hence: Setup exactly once before any ConsumeClaim; at most one
   ConsumeClaim per assigned partition and exactly one unless skipped-when-ending / not creatable; Cleanup
   once, after every started ConsumeClaim returned; final commit after Cleanup; Consume returns last. *)
Inductive stage := SNone | SAssigned | SSetup | SCleanup | SAborted | SCommitted.
Record hs := { h_open : bool; h_stage : stage; h_ending : bool; h_failed : bool; h_claims : list (part * cstate) }.
Definition hs_idle : hs := {| h_open := false; h_stage := SNone; h_ending := false; h_failed := false; h_claims := [] |}.

Fixpoint sfind (l : list (part * cstate)) (p : part) : option cstate :=
  match l with [] => None | (q, s) :: r => if Z.eqb q p then Some s else sfind r p end.
Fixpoint sput (l : list (part * cstate)) (p : part) (s : cstate) : list (part * cstate) :=
  match l with [] => [] | (q, s0) :: r => if Z.eqb q p then (q, s) :: r else (q, s0) :: sput r p s end.
Definition sdone (x : part * cstate) : bool := match snd x with CDone => true | _ => false end.
Definition is_spawned (o : option cstate) : bool := match o with Some CSpawned => true | _ => false end.
Definition is_running (o : option cstate) : bool := match o with Some CRunning => true | _ => false end.
Definition in_setup (h : hs) : bool := match h_stage h with SSetup => true | _ => false end.

Definition with_claims (h : hs) (l : list (part * cstate)) : hs :=
  {| h_open := h_open h; h_stage := h_stage h; h_ending := h_ending h; h_failed := h_failed h; h_claims := l |}.
Definition with_stage (h : hs) (s : stage) : hs :=
  {| h_open := h_open h; h_stage := s; h_ending := h_ending h; h_failed := h_failed h; h_claims := h_claims h |}.

Definition hook_step (h : hs) (e : event) : option hs :=
  match e with
  | EvCall => if h_open h then None
              else Some {| h_open := true; h_stage := SNone; h_ending := false; h_failed := false; h_claims := [] |}
  | EvAssigned ps =>
    match h_open h, h_stage h with
    | true, SNone => Some {| h_open := true; h_stage := SAssigned; h_ending := h_ending h; h_failed := false;
                             h_claims := map (fun p => (p, CSpawned)) ps |}
    | _, _ => None
    end
  | EvSetup => match h_stage h with SAssigned => Some (with_stage h SSetup) | _ => None end
  | EvEnd c =>
    if h_open h then
      match c with
      | CauseFetchErr =>
        match h_stage h with
        | SAssigned => Some {| h_open := true; h_stage := SAborted; h_ending := true; h_failed := false; h_claims := [] |}
        | _ => None
        end
      | CauseSetupErr =>
        match h_stage h with
        | SSetup => Some {| h_open := true; h_stage := SSetup; h_ending := true; h_failed := true; h_claims := h_claims h |}
        | _ => None
        end
      | _ => Some {| h_open := true; h_stage := h_stage h; h_ending := true; h_failed := h_failed h; h_claims := h_claims h |}
      end
    else Some h
  | EvClaimStart p _ =>
    if in_setup h && negb (h_failed h) && is_spawned (sfind (h_claims h) p) then Some (with_claims h (sput (h_claims h) p CRunning)) else None
  | EvClaimSkip p =>
    if in_setup h && negb (h_failed h) && h_ending h && is_spawned (sfind (h_claims h) p) then Some (with_claims h (sput (h_claims h) p CDone)) else None
  | EvClaimFail p =>
    if in_setup h && negb (h_failed h) && is_spawned (sfind (h_claims h) p) then Some (with_claims h (sput (h_claims h) p CDone)) else None
  | EvDeliver p _ => if in_setup h && is_running (sfind (h_claims h) p) then Some h else None
  | EvPomError _ _ =>     (* offset-manager errors are forwarded from the start of the session until the final flush is over *)
    match h_stage h with SSetup | SCleanup | SAborted => Some h | _ => None end
  | EvClaimError p _ => if in_setup h && is_running (sfind (h_claims h) p) then Some h else None
  | EvClaimReturn p =>
    if in_setup h && is_running (sfind (h_claims h) p) then Some (with_claims h (sput (h_claims h) p CDone)) else None
  | EvCleanup =>
    if in_setup h && h_ending h && (h_failed h || forallb sdone (h_claims h)) then Some (with_stage h SCleanup) else None
  | EvFinalCommit =>
    match h_stage h with SCleanup | SAborted => Some (with_stage h SCommitted) | _ => None end
  | EvReturn _ =>
    match h_open h, h_stage h with
    | true, SNone | true, SCommitted => Some hs_idle
    | _, _ => None
    end
  | _ => Some h
  end.
Definition hook_ok (tr : list event) : Prop := accept hook_step hs_idle tr <> None.

(* ------------------------------------------------------------------------------------------------
   Identity.  i_last: the member id the group object holds (0 = none); i_pend: identity issued by the
   last successful JoinGroup; i_sess: identity of the open session. *)
Record ids := { i_last : Z; i_pend : option (Z * Z); i_sess : option (Z * Z) }.
Definition ids0 : ids := {| i_last := 0; i_pend := None; i_sess := None |}.
Definition same (o : option (Z * Z)) (m g : Z) : bool :=
  match o with Some (m', g') => Z.eqb m m' && Z.eqb g g' | None => false end.

Definition id_step (s : ids) (e : event) : option ids :=
  match e with
  | EvReq RJoin m _ => if Z.eqb m (i_last s) then Some s else None           (* a join carries the id the member holds *)
  | EvJoined m g => Some {| i_last := m; i_pend := Some (m, g); i_sess := i_sess s |}
  | EvFenced => Some {| i_last := 0; i_pend := None; i_sess := i_sess s |}    (* fenced: the id is forgotten *)
  | EvReq (RSync _) m g => if same (i_pend s) m g then Some s else None
  | EvAssigned _ => Some {| i_last := i_last s; i_pend := i_pend s; i_sess := i_pend s |}
  | EvReq RHeartbeat m g => if same (i_sess s) m g then Some s else None
  | EvReq (RCommit _) m g => if same (i_sess s) m g then Some s else None
  | EvReq RLeave m _ => if Z.eqb m (i_last s) && negb (Z.eqb m 0) then Some s else None
  | EvLeft => Some {| i_last := 0; i_pend := i_pend s; i_sess := i_sess s |}
  | EvReturn _ => Some {| i_last := i_last s; i_pend := None; i_sess := None |}
  | _ => Some s
  end.
Definition identity_ok (tr : list event) : Prop := accept id_step ids0 tr <> None.

(* ------------------------------------------------------------------------------------------------
   Start offset of a claim: the committed offset when it lies inside the log, else Consumer.Offsets.Initial. *)
Definition start_spec (cf : cfg) (c lo hi : Z) : Z :=
  if (0 <=? c) && (lo <=? c) && (c <=? hi) then c else c_initial cf.
Definition valid_initial (cf : cfg) : Prop := c_initial cf = OffsetNewest \/ c_initial cf = OffsetOldest.
