(* C07 — hook order and identity: the model's traces are accepted by the acceptors of Spec.v.
   Proof: an abstraction function from model states to acceptor states that commutes with every step. *)
From Coq Require Import List ZArith Bool Lia.
From SV Require Import C07.Model C07.Spec.
Import ListNotations.
Open Scope Z_scope.

Lemma accept_app {S} (f : S -> event -> option S) s a b :
  accept f s (a ++ b) = match accept f s a with Some s' => accept f s' b | None => None end.
Proof. revert s; induction a as [|e a IH]; intros s; cbn; [reflexivity|]. destruct (f s e); auto. Qed.

Lemma run_app cf w a b :
  run cf w (a ++ b) = let '(w1, e1) := run cf w a in let '(w2, e2) := run cf w1 b in (w2, e1 ++ e2).
Proof.
  revert w; induction a as [|i a IH]; intros w; cbn.
  - destruct (run cf w b); reflexivity.
  - destruct (step cf w i) as [w1 e1]. rewrite IH. destruct (run cf w1 a) as [w2 e2].
    destruct (run cf w2 b) as [w3 e3]. now rewrite app_assoc.
Qed.

(* generic: a step-wise simulation gives acceptance of every trace *)
Lemma sim_accept {S} (f : S -> event -> option S) (abs : world -> S) (side : world -> Prop) cf :
  (forall w i, side w -> accept f (abs w) (snd (step cf w i)) = Some (abs (fst (step cf w i))) /\ side (fst (step cf w i))) ->
  forall ins w, side w -> accept f (abs w) (snd (run cf w ins)) = Some (abs (fst (run cf w ins))) /\ side (fst (run cf w ins)).
Proof.
  intros H ins; induction ins as [|i r IH]; intros w Hs; cbn; [auto|].
  destruct (H w i Hs) as [Ha Hs']. destruct (step cf w i) as [w1 e1]; cbn in *.
  destruct (IH w1 Hs') as [Hb Hs'']. destruct (run cf w1 r) as [w2 e2]; cbn in *.
  rewrite accept_app, Ha. auto.
Qed.

(* ---- claims bookkeeping: the acceptor's list mirrors the model's ---- *)
Definition proj (c : claim) : part * cstate := (cl_part c, cl_state c).
Definition pend (p : part) : part * cstate := (p, CSpawned).

Lemma sfind_proj cls p : sfind (map proj cls) p = option_map cl_state (claim_find cls p).
Proof. induction cls as [|c r IH]; cbn; [reflexivity|]. destruct (Z.eqb (cl_part c) p); auto. Qed.

Lemma claim_find_part cls p c : claim_find cls p = Some c -> cl_part c = p.
Proof.
  induction cls as [|x r IH]; cbn; [discriminate|]. destruct (Z.eqb (cl_part x) p) eqn:E; auto.
  intros H; injection H as <-. now apply Z.eqb_eq.
Qed.

Lemma proj_put cls c' : map proj (claim_put cls c') = sput (map proj cls) (cl_part c') (cl_state c').
Proof.
  induction cls as [|x r IH]; cbn; [reflexivity|]. destruct (Z.eqb (cl_part x) (cl_part c')) eqn:E; cbn.
  - unfold proj at 1. apply Z.eqb_eq in E. now rewrite E.
  - now rewrite IH.
Qed.

Lemma sput_same l p s : sfind l p = Some s -> sput l p s = l.
Proof.
  induction l as [|[q s0] r IH]; cbn; [reflexivity|]. destruct (Z.eqb q p); intros H.
  - now injection H as ->.
  - now rewrite IH.
Qed.

Lemma forallb_sdone cls : forallb sdone (map proj cls) = forallb is_done cls.
Proof. induction cls as [|c r IH]; cbn; [reflexivity|]. now rewrite IH. Qed.

Lemma proj_clean cls : map proj (map clean cls) = map proj cls.
Proof. induction cls as [|c r IH]; cbn; [reflexivity|]. now rewrite IH. Qed.

(* ---- hook order ---- *)
Definition aborted (w : world) : bool := match s_res w with RFetchErr => true | _ => false end.
Definition late (w : world) (st : stage) : hs :=
  if aborted w then {| h_open := true; h_stage := match st with SCleanup => SAborted | _ => st end; h_ending := ending w; h_failed := false; h_claims := [] |}
  else {| h_open := true; h_stage := st; h_ending := ending w; h_failed := negb (s_spawned w); h_claims := map proj (s_claims w) |}.
Definition habs (w : world) : hs :=
  match w_phase w with
  | PIdle => hs_idle
  | PJoin _ _ => {| h_open := true; h_stage := SNone; h_ending := ending w; h_failed := false; h_claims := [] |}
  | PManage todo => {| h_open := true; h_stage := SAssigned; h_ending := ending w; h_failed := false;
                       h_claims := map proj (s_claims w) ++ map pend todo |}
  | PSetup => {| h_open := true; h_stage := SAssigned; h_ending := ending w; h_failed := false; h_claims := map proj (s_claims w) |}
  | PRunning | PReleasing =>
    {| h_open := true; h_stage := SSetup; h_ending := ending w; h_failed := negb (s_spawned w); h_claims := map proj (s_claims w) |}
  | PCommit _ => late w SCleanup
  | PHbStop => late w SCommitted
  end.
Definition hside (w : world) : Prop :=
  match w_phase w with
  | PManage _ | PSetup => aborted w = false /\ s_spawned w = false
  | PRunning => aborted w = false /\ s_spawned w = true
  | PReleasing => aborted w = false /\ s_ctx w = true
  | PCommit _ | PHbStop => aborted w = true -> s_ctx w = true
  | _ => True
  end.

Ltac dmatch :=
  match goal with
  | |- context [match ?x with _ => _ end] =>
    lazymatch x with
    | context [match _ with _ => _ end] => fail
    | _ => destruct x eqn:?
    end
  end.

