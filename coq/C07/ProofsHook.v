(* C07 — hook order and identity: the model's traces are accepted by the acceptors of Spec.v.
   Proof: an abstraction function from model states to acceptor states that commutes with every step. *)
From Coq Require Import List ZArith Bool Lia.
From SV Require Import C07.Model C07.Spec.
Import ListNotations.
Open Scope Z_scope.

Lemma accept_app {S} (f : S -> event -> option S) s a b :
  accept f s (a ++ b) = match accept f s a with Some s' => accept f s' b | None => None end.
Proof. revert s; induction a as [|e a IH]; intros s; cbn; [reflexivity|]. destruct (f s e); auto. Qed.

Lemma run_app cf w a b :
  run cf w (a ++ b) = let '(w1, e1) := run cf w a in let '(w2, e2) := run cf w1 b in (w2, e1 ++ e2).
Proof.
  revert w; induction a as [|i a IH]; intros w; cbn.
  - destruct (run cf w b); reflexivity.
  - destruct (step cf w i) as [w1 e1]. rewrite IH. destruct (run cf w1 a) as [w2 e2].
    destruct (run cf w2 b) as [w3 e3]. now rewrite app_assoc.
Qed.

(* generic: a step-wise simulation gives acceptance of every trace *)
Lemma sim_accept {S} (f : S -> event -> option S) (abs : world -> S) (side : world -> Prop) cf :
  (forall w i, side w -> accept f (abs w) (snd (step cf w i)) = Some (abs (fst (step cf w i))) /\ side (fst (step cf w i))) ->
  forall ins w, side w -> accept f (abs w) (snd (run cf w ins)) = Some (abs (fst (run cf w ins))) /\ side (fst (run cf w ins)).
Proof.
  intros H ins; induction ins as [|i r IH]; intros w Hs; cbn; [auto|].
  destruct (H w i Hs) as [Ha Hs']. destruct (step cf w i) as [w1 e1]; cbn in *.
  destruct (IH w1 Hs') as [Hb Hs'']. destruct (run cf w1 r) as [w2 e2]; cbn in *.
  rewrite accept_app, Ha. auto.
Qed.

(* ---- claims bookkeeping: the acceptor's list mirrors the model's ---- *)
Definition proj (c : claim) : part * cstate := (cl_part c, cl_state c).
Definition pend (p : part) : part * cstate := (p, CSpawned).

Lemma sfind_proj cls p : sfind (map proj cls) p = option_map cl_state (claim_find cls p).
Proof. induction cls as [|c r IH]; cbn; [reflexivity|]. destruct (Z.eqb (cl_part c) p); auto. Qed.

Lemma claim_find_part cls p c : claim_find cls p = Some c -> cl_part c = p.
Proof.
  induction cls as [|x r IH]; cbn; [discriminate|]. destruct (Z.eqb (cl_part x) p) eqn:E; auto.
  intros H; injection H as <-. now apply Z.eqb_eq.
Qed.

Lemma proj_put cls c' : map proj (claim_put cls c') = sput (map proj cls) (cl_part c') (cl_state c').
Proof.
  induction cls as [|x r IH]; cbn; [reflexivity|]. destruct (Z.eqb (cl_part x) (cl_part c')) eqn:E; cbn.
  - unfold proj at 1. apply Z.eqb_eq in E. now rewrite E.
  - now rewrite IH.
Qed.

Lemma sput_same l p s : sfind l p = Some s -> sput l p s = l.
Proof.
  induction l as [|[q s0] r IH]; cbn; [reflexivity|]. destruct (Z.eqb q p); intros H.
  - now injection H as ->.
  - now rewrite IH.
Qed.

Lemma forallb_sdone cls : forallb sdone (map proj cls) = forallb is_done cls.
Proof. induction cls as [|c r IH]; cbn; [reflexivity|]. now rewrite IH. Qed.

Lemma proj_clean cls : map proj (map clean cls) = map proj cls.
Proof. induction cls as [|c r IH]; cbn; [reflexivity|]. now rewrite IH. Qed.

(* ---- hook order ---- *)
Definition aborted (w : world) : bool := match s_res w with RFetchErr => true | _ => false end.
Definition late (w : world) (st : stage) : hs :=
  if aborted w then {| h_open := true; h_stage := match st with SCleanup => SAborted | _ => st end; h_ending := ending w; h_failed := false; h_claims := [] |}
  else {| h_open := true; h_stage := st; h_ending := ending w; h_failed := negb (s_spawned w); h_claims := map proj (s_claims w) |}.
Definition habs (w : world) : hs :=
  match w_phase w with
  | PIdle => hs_idle
  | PJoin _ _ => {| h_open := true; h_stage := SNone; h_ending := ending w; h_failed := false; h_claims := [] |}
  | PManage todo => {| h_open := true; h_stage := SAssigned; h_ending := ending w; h_failed := false;
                       h_claims := map proj (s_claims w) ++ map pend todo |}
  | PSetup => {| h_open := true; h_stage := SAssigned; h_ending := ending w; h_failed := false; h_claims := map proj (s_claims w) |}
  | PRunning | PReleasing =>
    {| h_open := true; h_stage := SSetup; h_ending := ending w; h_failed := negb (s_spawned w); h_claims := map proj (s_claims w) |}
  | PCommit _ => late w SCleanup
  | PHbStop => late w SCommitted
  end.
Definition hside (w : world) : Prop :=
  match w_phase w with
  | PManage _ | PSetup => aborted w = false /\ s_spawned w = false
  | PRunning => aborted w = false /\ s_spawned w = true
  | PReleasing => aborted w = false /\ s_ctx w = true
  | PCommit _ | PHbStop => aborted w = true -> s_ctx w = true
  | _ => True
  end.

Ltac dmatch :=
  match goal with
  | |- context [match ?x with _ => _ end] =>
    lazymatch x with
    | context [match _ with _ => _ end] => fail
    | _ => destruct x eqn:?
    end
  end.

Lemma enter_commit_hook w n :
  (aborted w = true -> s_ctx w = true) ->
  let st := {| h_open := true; h_stage := if aborted w then SAborted else SCleanup; h_ending := ending w;
               h_failed := if aborted w then false else negb (s_spawned w);
               h_claims := if aborted w then [] else map proj (s_claims w) |} in
  accept hook_step st (snd (enter_commit w n)) = Some (habs (fst (enter_commit w n))) /\ hside (fst (enter_commit w n)).
Proof.
  destruct w; unfold enter_commit; cbn [Model.s_claims]. intros Hc.
  destruct n as [|n]; [|destruct (dirty_blocks s_claims)];
    unfold aborted, ending, habs, hside, late in *; cbn in *; destruct s_res; cbn; try (rewrite Hc by reflexivity); auto.
Qed.



Ltac uf := unfold habs, hside, late, aborted, ending, ret, retry_or, enter_new_session, enter_manage, claim_exit, hb_exit, in_call, claims_live, new_call, new_session in *.
Ltac rw := repeat match goal with H : ?x = _ |- context [?x] => rewrite H end.
Ltac fin := repeat (match goal with
  | H : _ /\ _ |- _ => destruct H
  | |- _ /\ _ => split
  | |- _ -> _ => intro
  end); rw; cbn; rewrite ?orb_true_r, ?orb_false_r; cbn; try congruence; auto;
  try (repeat (dmatch; cbn; rw; cbn); rewrite ?orb_true_r, ?orb_false_r; cbn; try congruence; auto; fail).
Ltac split_step :=
  repeat (cbn [fst snd]; match goal with
  | |- context [snd ?X] =>
    match X with
    | context [match ?x with _ => _ end] =>
      lazymatch x with
      | context [match _ with _ => _ end] => fail
      | context [enter_commit] => fail
      | _ => destruct x eqn:?
      end
    end
  end).

Lemma live_inv w : claims_live w = true -> (w_phase w = PRunning \/ w_phase w = PReleasing) /\ s_spawned w = true.
Proof. unfold claims_live. destruct (s_spawned w), (w_phase w); cbn; intros; try discriminate; auto. Qed.

Definition live_hs (e : bool) (l : list (part * cstate)) : hs :=
  {| h_open := true; h_stage := SSetup; h_ending := e; h_failed := false; h_claims := l |}.
Lemma habs_live w : claims_live w = true -> habs w = live_hs (ending w) (map proj (s_claims w)).
Proof. intros H; destruct (live_inv w H) as [[Hp|Hp] Hs]; unfold habs, live_hs; rewrite Hp, Hs; reflexivity. Qed.
Lemma habs_set_claims w cls : claims_live w = true -> habs (set_claims w cls) = live_hs (ending w) (map proj cls) /\ (hside w -> hside (set_claims w cls)).
Proof. intros H; destruct (live_inv w H) as [[Hp|Hp] Hs]; unfold habs, hside, live_hs, aborted, ending; cbn; rewrite Hp, Hs; auto. Qed.
Lemma habs_claim_exit w c : claims_live w = true ->
  habs (claim_exit w c) = live_hs true (map proj (claim_put (s_claims w) (with_state c CDone))) /\ (hside w -> hside (claim_exit w c)).
Proof. intros H; destruct (live_inv w H) as [[Hp|Hp] Hs]; unfold habs, hside, live_hs, aborted, ending, claim_exit; cbn; rewrite Hp, Hs; cbn; intuition. Qed.

Lemma hook_sim_claimgo cf w p a1 a2 : hside w ->
  accept hook_step (habs w) (snd (step cf w (IClaimGo p a1 a2))) = Some (habs (fst (step cf w (IClaimGo p a1 a2)))) /\ hside (fst (step cf w (IClaimGo p a1 a2))).
Proof.
  intros Hs. cbn [step]. destruct (claims_live w) eqn:Hl; [|cbn; auto].
  destruct (claim_find (s_claims w) p) as [c|] eqn:Hf; [|cbn; auto].
  pose proof (claim_find_part _ _ _ Hf) as Hp.
  destruct (cl_state c) eqn:Hc; try (cbn; auto; fail).
  assert (Hsf : sfind (map proj (s_claims w)) p = Some CSpawned) by (rewrite sfind_proj, Hf; cbn; now rewrite Hc).
  rewrite (habs_live w Hl).
  destruct (ending w) eqn:He.
  - cbn [fst snd]. destruct (habs_claim_exit w c Hl) as [-> Hh]. split; [|auto].
    cbn. rewrite Hsf. cbn. rewrite proj_put. cbn. now rewrite Hp.
  - destruct (log_get (w_log w) p) as [lo hi].
    destruct (claim_try cf (cl_pom c) lo hi a1 a2) as [o|].
    + cbn [fst snd]. destruct (habs_set_claims w (claim_put (s_claims w) (started_at c (resolve o lo hi))) Hl) as [-> Hh]. split; [|auto].
      cbn. rewrite Hsf. cbn. rewrite proj_put. cbn. now rewrite Hp, He.
    + cbn [fst snd]. destruct (habs_claim_exit w c Hl) as [-> Hh]. split; [|auto].
      cbn. rewrite Hsf. cbn. rewrite proj_put. cbn. now rewrite Hp.
Qed.

Lemma proj_put_same cls p c c' : claim_find cls p = Some c -> cl_part c' = cl_part c -> cl_state c' = cl_state c ->
  map proj (claim_put cls c') = map proj cls.
Proof.
  intros Hf Hp Hs. rewrite proj_put, Hp, Hs. apply sput_same.
  rewrite sfind_proj. rewrite (claim_find_part _ _ _ Hf). now rewrite Hf.
Qed.

Lemma hook_sim_deliver cf w p : hside w ->
  accept hook_step (habs w) (snd (step cf w (IDeliver p))) = Some (habs (fst (step cf w (IDeliver p)))) /\ hside (fst (step cf w (IDeliver p))).
Proof.
  intros Hs. cbn [step]. destruct (claims_live w) eqn:Hl; [|cbn; auto].
  destruct (claim_find (s_claims w) p) as [c|] eqn:Hf; [|cbn; auto].
  pose proof (claim_find_part _ _ _ Hf) as Hp.
  destruct (cl_state c) eqn:Hc; try (cbn; auto; fail).
  assert (Hsf : sfind (map proj (s_claims w)) p = Some CRunning) by (rewrite sfind_proj, Hf; cbn; now rewrite Hc).
  match goal with |- context [if ?b then _ else _] => destruct b end; [|cbn; auto].
  cbn [fst snd]. rewrite (habs_live w Hl).
  match goal with |- context [set_claims w ?l] => destruct (habs_set_claims w l Hl) as [-> Hh] end.
  split; [|auto]. cbn. rewrite Hsf. cbn. f_equal. unfold live_hs. f_equal.
  symmetry. eapply proj_put_same; eauto.
  - cbn. match goal with |- context [if ?b then _ else _] => destruct b end; cbn; auto. unfold mark. destruct (_ >? _); cbn; auto.
  - cbn. match goal with |- context [if ?b then _ else _] => destruct b end; cbn; auto. unfold mark. destruct (_ >? _); cbn; auto.
Qed.

Lemma hook_sim_claimret cf w p : hside w ->
  accept hook_step (habs w) (snd (step cf w (IClaimReturn p))) = Some (habs (fst (step cf w (IClaimReturn p)))) /\ hside (fst (step cf w (IClaimReturn p))).
Proof.
  intros Hs. cbn [step]. destruct (claims_live w) eqn:Hl; [|cbn; auto].
  destruct (claim_find (s_claims w) p) as [c|] eqn:Hf; [|cbn; auto].
  pose proof (claim_find_part _ _ _ Hf) as Hp.
  destruct (cl_state c) eqn:Hc; try (cbn; auto; fail).
  assert (Hsf : sfind (map proj (s_claims w)) p = Some CRunning) by (rewrite sfind_proj, Hf; cbn; now rewrite Hc).
  match goal with |- context [if ?b then _ else _] => destruct b end; [|cbn; auto].
  cbn [fst snd]. rewrite (habs_live w Hl). destruct (habs_claim_exit w c Hl) as [-> Hh]. split; [|auto].
  cbn. rewrite Hsf. cbn. rewrite proj_put. cbn. now rewrite Hp.
Qed.

Lemma accept_stored h bs : accept hook_step h (stored_events bs) = Some h.
Proof. induction bs as [|b r IH]; cbn; auto. Qed.

Lemma hook_sim_fetch cf w ok : hside w ->
  accept hook_step (habs w) (snd (step cf w (IFetch ok))) = Some (habs (fst (step cf w (IFetch ok)))) /\ hside (fst (step cf w (IFetch ok))).
Proof.
  intros Hs. cbn [step]. destruct (w_phase w) eqn:Hph; try (cbn; auto; fail).
  destruct todo as [|p todo]; [cbn; auto|].
  unfold hside in Hs; rewrite Hph in Hs. destruct Hs as [Ha Hsp].
  match goal with |- context [if ?b then _ else _] => destruct b end.
  - cbn [fst snd]. unfold habs at 1. rewrite Hph. unfold enter_manage.
    destruct todo as [|q todo]; unfold habs, hside, aborted, ending in *; cbn in *; rewrite ?map_app; cbn; rewrite <- ?app_assoc; cbn; auto.
  - pose proof (enter_commit_hook (set_res (set_ctx w) RFetchErr) (c_commit_attempts cf)) as H.
    destruct (enter_commit (set_res (set_ctx w) RFetchErr) (c_commit_attempts cf)) as [w' e].
    cbn [fst snd] in *. unfold habs at 1. rewrite Hph. cbn. apply H. reflexivity.
Qed.

Lemma hook_sim_cleanup cf w : hside w ->
  accept hook_step (habs w) (snd (step cf w ICleanup)) = Some (habs (fst (step cf w ICleanup))) /\ hside (fst (step cf w ICleanup)).
Proof.
  intros Hs. cbn [step]. destruct (w_phase w) eqn:Hph; try (cbn; auto; fail).
  destruct (all_done w) eqn:Hd; [|cbn; auto].
  unfold hside in Hs; rewrite Hph in Hs. destruct Hs as [Ha Hc].
  match goal with |- context [enter_commit ?w1 ?n] => pose proof (enter_commit_hook w1 n) as H; destruct (enter_commit w1 n) as [w' e] end.
  cbn [fst snd] in *. unfold habs at 1. rewrite Hph. cbn.
  unfold ending. rewrite Hc. cbn. unfold all_done in Hd. rewrite forallb_sdone, Hd. cbn.
  unfold aborted in *.
  destruct (hd_cleanup_ok (s_handler w)); [|destruct (s_res w) eqn:Hr]; cbn in *; unfold ending in H; cbn in H; rewrite ?Ha, ?Hc, ?Hr in H; cbn in H;
    try discriminate; apply H; intros; discriminate.
Qed.

Lemma hook_sim_commit cf w ok : hside w ->
  accept hook_step (habs w) (snd (step cf w (ICommit ok))) = Some (habs (fst (step cf w (ICommit ok)))) /\ hside (fst (step cf w (ICommit ok))).
Proof.
  intros Hs. cbn [step]. destruct (w_phase w) eqn:Hph; try (cbn; auto; fail).
  destruct n as [|n]; [cbn; auto|].
  unfold hside in Hs; rewrite Hph in Hs.
  destruct ok.
  - match goal with |- context [enter_commit ?w1 ?n] => pose proof (enter_commit_hook w1 n) as H; destruct (enter_commit w1 n) as [w' e] end.
    cbn [fst snd] in *. unfold habs at 1. rewrite Hph. cbn. rewrite accept_app, accept_stored.
    unfold late. unfold aborted, ending in *. cbn in H. rewrite proj_clean in H. destruct (s_res w); apply H; auto.
  - match goal with |- context [enter_commit ?w1 ?n] => pose proof (enter_commit_hook w1 n) as H; destruct (enter_commit w1 n) as [w' e] end.
    cbn [fst snd] in *. unfold habs at 1. rewrite Hph. cbn.
    unfold late. unfold aborted, ending in *. destruct (s_res w); apply H; auto.
Qed.

(* an error report changes nothing in the member *)
Lemma step_claimerr_state cf w p d : fst (step cf w (IClaimError p d)) = w.
Proof. cbn [step]. destruct (claims_live w); [|reflexivity]. destruct (claim_find _ _) as [c|]; [destruct (cl_state c)|]; reflexivity. Qed.

Lemma step_pomerr_state cf w p d : fst (step cf w (IPomError p d)) = w.
Proof. cbn [step]. destruct (w_phase w); reflexivity. Qed.

Lemma hook_sim_pomerr cf w p d : hside w ->
  accept hook_step (habs w) (snd (step cf w (IPomError p d))) = Some (habs (fst (step cf w (IPomError p d)))) /\ hside (fst (step cf w (IPomError p d))).
Proof.
  intros Hs. rewrite step_pomerr_state. split; [|exact Hs]. cbn [step].
  unfold habs, late. destruct (w_phase w); try reflexivity; cbn; destruct (aborted w); reflexivity.
Qed.

Lemma hook_sim_claimerr cf w p d : hside w ->
  accept hook_step (habs w) (snd (step cf w (IClaimError p d))) = Some (habs (fst (step cf w (IClaimError p d)))) /\ hside (fst (step cf w (IClaimError p d))).
Proof.
  intros Hs. rewrite step_claimerr_state. split; [|exact Hs]. cbn [step].
  destruct (claims_live w) eqn:Hl; [|reflexivity]. destruct (claim_find (s_claims w) p) as [c|] eqn:Hf; [|reflexivity].
  destruct (cl_state c) eqn:Hc; try reflexivity.
  rewrite (habs_live w Hl). cbn. rewrite sfind_proj, Hf. cbn. now rewrite Hc.
Qed.

Lemma hook_sim cf w i : hside w ->
  accept hook_step (habs w) (snd (step cf w i)) = Some (habs (fst (step cf w i))) /\ hside (fst (step cf w i)).
Proof.
  intros Hs. pose proof Hs as Hs0.
  destruct i; try (now apply hook_sim_claimgo); try (now apply hook_sim_deliver); try (now apply hook_sim_claimret); try (now apply hook_sim_claimerr); try (now apply hook_sim_pomerr);
    try (now apply hook_sim_fetch); try (now apply hook_sim_cleanup); try (now apply hook_sim_commit).
  all: cbn [step]; destruct (w_phase w) eqn:Hph; try (cbn; split; [reflexivity | exact Hs0]).
  all: unfold retry_or, ret.
  all: split_step; cbn [fst snd]; uf; rewrite ?Hph in *; cbn; fin.
Qed.

Lemma hook_run cf ins w : hside w ->
  accept hook_step (habs w) (snd (run cf w ins)) = Some (habs (fst (run cf w ins))) /\ hside (fst (run cf w ins)).
Proof. apply (sim_accept hook_step habs hside cf). intros; now apply hook_sim. Qed.

(* every trace of the member, from the initial state, under every input list, respects the hook order *)
Theorem hook_order_holds cf st lg ins : hook_ok (trace cf (init_world st lg) ins).
Proof.
  unfold hook_ok, trace. destruct (hook_run cf ins (init_world st lg)) as [H _]; [exact I|].
  change (habs (init_world st lg)) with hs_idle in H. rewrite H. discriminate.
Qed.
