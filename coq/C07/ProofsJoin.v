(* C07 — how long joining can take: JoinGroup requests <= fencing answers + (Rebalance.Retry.Max + 1) per Consume call.
   A coordinator that fences only finitely often (any faithful one) therefore cannot keep newSession joining forever;
   one that fences for ever can (Examples.fencing_forever): the recursion on UnknownMemberId / IllegalGeneration does
   not use up a retry. *)
From Coq Require Import List ZArith Bool Lia.
From SV Require Import C07.Model C07.Spec C07.ProofsHook C07.ProofsId.
Import ListNotations.
Open Scope Z_scope.

Record cnt := { n_join : Z; n_fenced : Z; n_call : Z }.
Definition cnt_step (s : cnt) (e : event) : option cnt :=
  match e with
  | EvReq RJoin _ _ => Some {| n_join := n_join s + 1; n_fenced := n_fenced s; n_call := n_call s |}
  | EvFenced => Some {| n_join := n_join s; n_fenced := n_fenced s + 1; n_call := n_call s |}
  | EvCall => Some {| n_join := n_join s; n_fenced := n_fenced s; n_call := n_call s + 1 |}
  | _ => Some s
  end.
Definition count (tr : list event) : cnt :=
  match accept cnt_step {| n_join := 0; n_fenced := 0; n_call := 0 |} tr with Some s => s | None => {| n_join := 0; n_fenced := 0; n_call := 0 |} end.

(* JoinGroup requests the current newSession can still send without being fenced *)
Definition budget (w : world) : Z :=
  match w_phase w with
  | PJoin r JCoord | PJoin r JJoin => Z.max r 0 + 1
  | PJoin r (JSync _ _ _) => Z.max r 0
  | PJoin r (JBackoff _) | PJoin r JRefresh => Z.max (r - 1) 0 + 1
  | _ => 0
  end.
Definition cntR (cf : cfg) (w : world) (s : cnt) : Prop :=
  0 <= n_fenced s /\ 0 <= n_call s /\
  n_join s + budget w <= n_fenced s + (Z.max (c_retries cf) 0 + 1) * n_call s /\
  match w_phase w with PJoin r (JBackoff _) | PJoin r JRefresh => 0 < r | _ => True end.

Definition nxtc (s : cnt) (evs : list event) : cnt := match accept cnt_step s evs with Some s' => s' | None => s end.
Lemma accept_stored_cnt s bs : accept cnt_step s (stored_events bs) = Some s.
Proof. induction bs as [|b r IH]; cbn; auto. Qed.
Lemma ec_cnt w n s : accept cnt_step s (snd (enter_commit w n)) = Some s.
Proof. unfold enter_commit. destruct n; [|destruct (dirty_blocks _)]; reflexivity. Qed.
Lemma ec_budget w n : (w_phase w = PReleasing \/ (exists t, w_phase w = PManage t) \/ (exists m, w_phase w = PCommit m)) -> budget (fst (enter_commit w n)) = 0.
Proof. intros _. unfold enter_commit, budget. destruct n; [|destruct (dirty_blocks _)]; reflexivity. Qed.

Ltac dmatch_top := match goal with |- context [fst (match ?x with _ => _ end)] => lazymatch x with context [enter_commit] => fail | _ => destruct x eqn:? end end.
Lemma cnt_total tr : forall s, accept cnt_step s tr <> None.
Proof. induction tr as [|e r IH]; intros s; cbn; [discriminate|]. destruct e; cbn; auto. destruct k; cbn; auto. Qed.
Definition neutral (e : event) : bool := match e with EvReq RJoin _ _ | EvFenced | EvCall => false | _ => true end.
Lemma nxtc_neutral evs : forall s, forallb neutral evs = true -> nxtc s evs = s.
Proof.
  unfold nxtc. induction evs as [|e r IH]; intros s H; cbn; [reflexivity|]. cbn in H. apply andb_prop in H as [H1 H2].
  destruct e; cbn in *; try discriminate; try (now apply IH). destruct k; cbn in *; try discriminate; now apply IH.
Qed.
Lemma ec_neutral w n : forallb neutral (snd (enter_commit w n)) = true.
Proof. unfold enter_commit. destruct n; [|destruct (dirty_blocks _)]; reflexivity. Qed.
Lemma stored_neutral bs : forallb neutral (stored_events bs) = true.
Proof. induction bs; cbn; auto. Qed.
Lemma ec_phase w n : budget (fst (enter_commit w n)) = 0 /\ match w_phase (fst (enter_commit w n)) with PJoin _ _ => False | _ => True end.
Proof. unfold enter_commit, budget. destruct n; [|destruct (dirty_blocks _)]; cbn; auto. Qed.

Lemma cnt_special cf w s evs w' : cntR cf w s -> budget w = 0 -> forallb neutral evs = true -> budget w' = 0 ->
  match w_phase w' with PJoin _ _ => False | _ => True end -> cntR cf w' (nxtc s evs).
Proof.
  intros (A & B & C & D) Hb Hn Hb' Hp. rewrite nxtc_neutral by exact Hn. unfold cntR. rewrite Hb' . rewrite Hb in C. repeat split; auto.
  destruct (w_phase w'); auto; contradiction.
Qed.

Ltac ec_case HR0 Hph :=
  repeat match goal with |- context [enter_commit ?w1 ?n] =>
     let E1 := fresh "E" in let E2 := fresh "E" in let E3 := fresh "E" in
     destruct (ec_phase w1 n) as [E1 E2]; pose proof (ec_neutral w1 n) as E3; destruct (enter_commit w1 n) as [? ?] end;
  cbn [fst snd] in *; eapply cnt_special;
  [exact HR0 | unfold budget; rewrite Hph; reflexivity | cbn; rewrite ?forallb_app, ?stored_neutral; cbn; auto | auto | auto].

Lemma cnt_sim cf w s i : cntR cf w s -> cntR cf (fst (step cf w i)) (nxtc s (snd (step cf w i))).
Proof.
  intros HR. pose proof HR as HR0.
  destruct i; cbn [step]; unfold claims_live; destruct (w_phase w) eqn:Hph; rewrite ?andb_false_r;
    try (cbn [fst snd]; exact HR0).
  all: unfold retry_or, ret.
  7: { (* IFetch *) destruct todo as [|p todo]; [exact HR0|]. match goal with |- context [if ?b then _ else _] => destruct b end; [|ec_case HR0 Hph].
       cbn [fst snd]. eapply cnt_special; [exact HR0 | unfold budget; rewrite Hph; reflexivity | reflexivity | |]; unfold enter_manage, budget; destruct todo; cbn; auto. }
  all: try solve [destruct (all_done w); [ec_case HR0 Hph | exact HR0]].
  all: try solve [destruct n as [|n]; [exact HR0|]; destruct ok; ec_case HR0 Hph].
  all: destruct s as [j f c]; destruct HR as (Hf & Hc & Hb & Hr); cbn in Hf, Hc, Hb.
  all: unfold budget in Hb; rewrite Hph in Hb, Hr; cbn in Hr; split_step2;
       cbn [fst snd]; repeat dmatch; unfold nxtc, cntR, budget, enter_new_session, enter_manage, hb_exit, claim_exit, new_call, new_session; cbn;
       rewrite ?Hph; cbn; repeat (dmatch; cbn);
       repeat match goal with H : (_ <=? _) = true |- _ => apply Z.leb_le in H | H : (_ <=? _) = false |- _ => apply Z.leb_gt in H end;
       pose proof (Z.le_max_r (c_retries cf) 0) as HM; set (RR := Z.max (c_retries cf) 0) in *; clearbody RR;
       repeat split; try lia; try nia.
Qed.

(* Over any run: JoinGroup requests <= fencing answers + (Retry.Max + 1) * Consume calls. *)
Theorem join_bound_holds cf st lg ins :
  let c := count (trace cf (init_world st lg) ins) in
  n_join c <= n_fenced c + (Z.max (c_retries cf) 0 + 1) * n_call c.
Proof.
  assert (H : forall ins w s, cntR cf w s -> cntR cf (fst (run cf w ins)) (nxtc s (snd (run cf w ins)))).
  { clear ins. induction ins as [|i r IH]; intros w s HR; cbn; [exact HR|].
    pose proof (cnt_sim cf w s i HR) as H1. destruct (step cf w i) as [w1 e1]. cbn in H1.
    specialize (IH w1 _ H1). destruct (run cf w1 r) as [w2 e2]. cbn in *.
    unfold nxtc in *. rewrite accept_app. destruct (accept cnt_step s e1) as [s1|] eqn:E; [|exfalso; eapply cnt_total; eauto].
    destruct (accept cnt_step s1 e2) eqn:E2; [exact IH|]. exfalso; eapply cnt_total; eauto. }
  specialize (H ins (init_world st lg) {| n_join := 0; n_fenced := 0; n_call := 0 |}).
  unfold count, trace, nxtc in *. destruct H as (A & B & C & _).
  - unfold cntR, budget; cbn. repeat split; lia.
  - destruct (accept cnt_step _ _) as [s|]; cbn in *; [|lia].
    assert (0 <= budget (fst (run cf (init_world st lg) ins))) by (unfold budget; repeat dmatch; lia). lia.
Qed.
