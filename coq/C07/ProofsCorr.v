(* C07 — the correspondence executes Model.run: the trace [Corr.run_call] compares with the observation is the
   trace of [run] on the input list it returns, so every theorem about all input lists covers it. *)
From Coq Require Import List ZArith Bool.
From SV Require Import C07.Model C07.Corr C07.ProofsHook.
Import ListNotations.

Lemma drive_is_run cf c : forall fuel w d,
  let '(ins, w2, e2) := drive fuel cf c w d in run cf w ins = (w2, e2).
Proof.
  induction fuel as [|f IH]; intros w d; cbn; [reflexivity|].
  destruct (w_phase w) eqn:Hp; try reflexivity.
  all: destruct (chunk c w d) as [ins d'] eqn:Hc; destruct (run cf w ins) as [w1 e1] eqn:Hr;
    specialize (IH w1 d'); destruct (drive f cf c w1 d') as [[ins2 w2] e2];
    rewrite run_app, Hr, IH; reflexivity.
Qed.

Theorem run_call_is_run cf lv0 c w :
  let '(ins, w', tr) := run_call cf lv0 c w in run cf w ins = (w', tr).
Proof.
  unfold run_call.
  destruct (run cf w (call_inputs_head c lv0)) as [w1 e1] eqn:H1.
  match goal with |- context [drive ?f cf c w1 ?d] => pose proof (drive_is_run cf c f w1 d) as H2; destruct (drive f cf c w1 d) as [[ins2 w2] e2] end.
  match goal with |- context [run cf w2 ?t] => destruct (run cf w2 t) as [w3 e3] eqn:H3 end.
  rewrite run_app, H1, run_app, H2, H3. reflexivity.
Qed.
