(* C07 — claims start at the committed offset; across sessions nothing is committed that was not delivered. *)
From Coq Require Import List ZArith Bool Lia.
From SV Require Import C07.Model C07.Spec C07.ProofsHook.
Import ListNotations.
Open Scope Z_scope.

(* ---- small facts about the containers ---- *)
Lemma claim_put_in cls c' x : In x (claim_put cls c') -> x = c' \/ In x cls.
Proof.
  induction cls as [|c r IH]; cbn; [tauto|]. destruct (Z.eqb (cl_part c) (cl_part c')); cbn; intros [H|H]; auto.
  destruct (IH H); auto.
Qed.
Lemma claim_find_in cls p c : claim_find cls p = Some c -> In c cls.
Proof.
  induction cls as [|x r IH]; cbn; [discriminate|]. destruct (Z.eqb (cl_part x) p); intros H; [injection H as <-|]; auto.
Qed.
Lemma store_get_set s p q o : store_get (store_set s q o) p = if Z.eqb p q then Some o else store_get s p.
Proof.
  unfold store_set. cbn. destruct (Z.eqb p q) eqn:E; [reflexivity|].
  induction s as [|[k v] r IH]; cbn; [reflexivity|]. destruct (Z.eqb k q) eqn:E2; cbn.
  - apply Z.eqb_eq in E2. subst k. now rewrite E.
  - destruct (Z.eqb p k); auto.
Qed.
Lemma store_set_all_get bs : forall s p v, store_get (store_set_all s bs) p = Some v -> In (p, v) bs \/ store_get s p = Some v.
Proof.
  induction bs as [|[q o] r IH]; cbn; intros s p v H; [auto|].
  destruct (IH _ _ _ H) as [H1|H1]; [auto|]. rewrite store_get_set in H1.
  destruct (Z.eqb p q) eqn:E; [|auto]. apply Z.eqb_eq in E. injection H1 as <-. subst. auto.
Qed.
Lemma store_set_all_none bs : forall s p, store_get (store_set_all s bs) p = None -> store_get s p = None.
Proof.
  induction bs as [|[q o] r IH]; cbn; intros s p H; [auto|].
  apply IH in H. rewrite store_get_set in H. destruct (Z.eqb p q); [discriminate|auto].
Qed.
Lemma dirty_blocks_in cls q v : In (q, v) (dirty_blocks cls) -> exists c, In c cls /\ cl_part c = q /\ cl_pom c = v /\ cl_dirty c = true.
Proof.
  unfold dirty_blocks. rewrite in_flat_map. intros [c [Hc H]]. destruct (cl_dirty c) eqn:E; [|contradiction].
  destruct H as [H|[]]. injection H as <- <-. eauto.
Qed.
Lemma log_produce_get l q p :
  fst (log_get (log_produce l q) p) = fst (log_get l p) /\ snd (log_get l p) <= snd (log_get (log_produce l q) p).
Proof.
  induction l as [|[k [lo hi]] r IH]; cbn; [lia|].
  destruct (Z.eqb q k) eqn:E; cbn.
  - destruct (Z.eqb p k); cbn; lia.
  - destruct (Z.eqb p k); cbn; [lia|auto].
Qed.

(* ---- start offset ---- *)
Lemma claim_offset_spec cf c lo hi o : valid_initial cf -> claim_offset cf c lo hi = Some o -> o = start_spec cf c lo hi.
Proof.
  unfold claim_offset, start_spec, next_offset, in_range, valid_initial, OffsetNewest, OffsetOldest. intros Hv.
  destruct (c >=? 0) eqn:E1.
  - assert (0 <=? c = true) as -> by lia. cbn.
    assert (c =? -1 = false) as -> by lia. assert (c =? -2 = false) as -> by lia. cbn.
    destruct ((lo <=? c) && (c <=? hi)); [congruence|].
    destruct Hv as [-> | ->]; cbn; congruence.
  - assert (0 <=? c = false) as -> by lia. cbn.
    destruct Hv as [-> | ->]; cbn; congruence.
Qed.

Lemma claim_try_offset cf pom lo hi a1 a2 o : claim_try cf pom lo hi a1 a2 = Some o -> claim_offset cf pom lo hi = Some o /\ a1 = true.
Proof.
  unfold claim_try, claim_offset. destruct a1; [|discriminate]. destruct (in_range (next_offset cf pom) lo hi); [auto|].
  destruct a2; cbn; [|discriminate]. destruct (in_range (c_initial cf) lo hi); [auto|discriminate].
Qed.

(* J: a claim whose ConsumeClaim has not started still holds the offset fetched from the coordinator,
   and the coordinator's store does not change while claims can start *)
Definition Jphase (w : world) : bool := match w_phase w with PManage _ | PSetup | PRunning | PReleasing => true | _ => false end.
Definition J (w : world) : Prop :=
  Jphase w = true -> forall c, In c (s_claims w) -> cl_state c = CSpawned -> cl_pom c = committed (w_store w) (cl_part c).

Ltac dis := let H := fresh in intros H; discriminate H.
Lemma enter_commit_J w n : J (fst (enter_commit w n)).
Proof. unfold enter_commit, J, Jphase. destruct n; [|destruct (dirty_blocks _)]; cbn; dis. Qed.

Ltac njt HJ Hph :=
  unfold retry_or, ret, enter_new_session, enter_manage, hb_exit, claim_exit, new_call, new_session in *; cbn;
  repeat (dmatch; cbn); rewrite ?Hph in *; cbn in *; try dis; try exact HJ; try (intros _; apply HJ; reflexivity); try (intros _ ? []).
Lemma J_step cf w i : J w -> J (fst (step cf w i)).
Proof.
  intros HJ. destruct i; cbn [step].
  all: try (lazymatch goal with |- context [claims_live] => fail | _ => destruct (w_phase w) eqn:Hph; try exact HJ end).
  all: unfold J, Jphase in *.
  all: try solve [njt HJ Hph].
  - (* IFetch *) rewrite Hph in HJ. destruct todo as [|q todo]; [cbn [fst]; rewrite Hph; exact HJ|].
    match goal with |- context [if ?b then _ else _] => destruct b end.
    + assert (Hall : forall c, In c (s_claims w ++ [mk_claim q (committed (w_store w) q)]) -> cl_state c = CSpawned -> cl_pom c = committed (w_store w) (cl_part c)).
      { intros c Hin Hc. apply in_app_or in Hin as [Hin|[<-|[]]]; [now apply HJ|reflexivity]. }
      unfold enter_manage. destruct todo; cbn; intros _; exact Hall.
    + match goal with |- context [enter_commit ?w1 ?n] => pose proof (enter_commit_J w1 n) as H; destruct (enter_commit w1 n) end. exact H.
  - (* IClaimGo *)
    destruct (claims_live w) eqn:Hl; [|exact HJ]. destruct (claim_find (s_claims w) p) as [c|] eqn:Hf; [|exact HJ].
    destruct (cl_state c) eqn:Hc; try exact HJ.
    destruct (live_inv w Hl) as [Hp _].
    assert (HJ' : forall x, In x (s_claims w) -> cl_state x = CSpawned -> cl_pom x = committed (w_store w) (cl_part x)) by (apply HJ; destruct Hp as [-> | ->]; reflexivity).
    destruct (ending w); [|destruct (log_get (w_log w) p) as [lo hi]; destruct (claim_try _ _ _ _ _ _)]; cbn [fst]; unfold claim_exit; cbn;
      intros _ x Hx Hs; apply claim_put_in in Hx as [-> | Hx]; try (cbn in Hs; discriminate Hs); auto.
  - (* IDeliver *)
    destruct (claims_live w) eqn:Hl; [|exact HJ]. destruct (claim_find (s_claims w) p) as [c|] eqn:Hf; [|exact HJ].
    destruct (cl_state c) eqn:Hc; try exact HJ.
    destruct (live_inv w Hl) as [Hp _].
    assert (HJ' : forall x, In x (s_claims w) -> cl_state x = CSpawned -> cl_pom x = committed (w_store w) (cl_part x)) by (apply HJ; destruct Hp as [-> | ->]; reflexivity).
    match goal with |- context [if ?b then _ else _] => destruct b end; [|exact HJ]. cbn.
    intros _ x Hx Hs; apply claim_put_in in Hx as [-> | Hx]; auto.
    exfalso. revert Hs. cbn. match goal with |- context [if ?b then _ else _] => destruct b end; cbn; [unfold mark; match goal with |- context [if ?b then _ else _] => destruct b end; cbn|]; congruence.
  - (* IClaimReturn *)
    destruct (claims_live w) eqn:Hl; [|exact HJ]. destruct (claim_find (s_claims w) p) as [c|] eqn:Hf; [|exact HJ].
    destruct (cl_state c) eqn:Hc; try exact HJ.
    destruct (live_inv w Hl) as [Hp _].
    assert (HJ' : forall x, In x (s_claims w) -> cl_state x = CSpawned -> cl_pom x = committed (w_store w) (cl_part x)) by (apply HJ; destruct Hp as [-> | ->]; reflexivity).
    match goal with |- context [if ?b then _ else _] => destruct b end; [|exact HJ]. unfold claim_exit; cbn.
    intros _ x Hx Hs; apply claim_put_in in Hx as [-> | Hx]; try (cbn in Hs; discriminate Hs); auto.
  - (* ICleanup *) destruct (all_done w); [|cbn [fst]; exact HJ].
    match goal with |- context [enter_commit ?w1 ?n] => pose proof (enter_commit_J w1 n) as H; destruct (enter_commit w1 n) end. exact H.
  - (* ICommit *) destruct n as [|n]; [cbn [fst]; exact HJ|].
    destruct ok; match goal with |- context [enter_commit ?w1 ?n] => pose proof (enter_commit_J w1 n) as H; destruct (enter_commit w1 n) end; exact H.
Qed.


Lemma J_run cf ins : forall w, J w -> J (fst (run cf w ins)).
Proof.
  induction ins as [|i r IH]; intros w HJ; cbn; [exact HJ|].
  pose proof (J_step cf w i HJ) as H1. destruct (step cf w i) as [w1 e1]. cbn in H1.
  pose proof (IH w1 H1) as H2. destruct (run cf w1 r) as [w2 e2]. exact H2.
Qed.

(* At any reachable state: a ConsumeClaim that starts on partition p gets, as its InitialOffset, the offset the
   coordinator currently stores for p when that lies inside the log, else Consumer.Offsets.Initial; and the first
   record it will receive is that offset resolved against the log. *)
Theorem claim_start_holds cf st lg ins p a1 a2 o :
  valid_initial cf ->
  let w := final cf (init_world st lg) ins in
  In (EvClaimStart p o) (snd (step cf w (IClaimGo p a1 a2))) ->
  let '(lo, hi) := log_get (w_log w) p in
  a1 = true /\ o = start_spec cf (committed (w_store w) p) lo hi /\
  exists c, claim_find (s_claims (fst (step cf w (IClaimGo p a1 a2)))) p = Some c /\ cl_state c = CRunning /\
            cl_start c = resolve o lo hi /\ cl_consumed c = 0%nat.
Proof.
  intros Hv w. assert (HJ : J w) by (apply J_run; unfold J, Jphase; cbn; intros H; discriminate H).
  cbn [step]. destruct (claims_live w) eqn:Hl; [|intros []].
  destruct (claim_find (s_claims w) p) as [c|] eqn:Hf; [|intros []].
  destruct (cl_state c) eqn:Hc; try (intros []; fail).
  destruct (ending w).
  { cbn. intros [H|[H|[]]]; discriminate H. }
  destruct (log_get (w_log w) p) as [lo hi] eqn:Hlog.
  destruct (claim_try cf (cl_pom c) lo hi a1 a2) as [o'|] eqn:Ho.
  - cbn [fst snd]. intros [H|[]]. injection H as ->.
    apply claim_try_offset in Ho as [Ho Ha1]. split; [exact Ha1|].
    destruct (live_inv w Hl) as [Hp _].
    assert (Hpom : cl_pom c = committed (w_store w) (cl_part c)).
    { apply HJ; [unfold Jphase; destruct Hp as [-> | ->]; reflexivity | eapply claim_find_in; eauto | exact Hc]. }
    rewrite (claim_find_part _ _ _ Hf) in Hpom. rewrite <- Hpom. split; [now apply claim_offset_spec|].
    exists (started_at c (resolve o lo hi)). cbn. repeat split; auto.
    clear - Hf. pose proof (claim_find_part _ _ _ Hf) as Hp.
    revert Hf. generalize (s_claims w). induction l as [|x r IH]; cbn; [discriminate|].
    destruct (Z.eqb (cl_part x) p) eqn:E.
    + intros H. injection H as ->. rewrite Hp, Z.eqb_refl. cbn. now rewrite Hp, Z.eqb_refl.
    + intros H. rewrite Hp, E. cbn. rewrite E. auto.
  - cbn. intros [H|[H|[]]]; discriminate H.
Qed.

(* ---- nothing is committed that was not delivered ---- *)
Section NoSkip.
  Variables (cf : cfg) (st : list (part * Z)) (lg : list (part * (Z * Z))) (p : part).
  Let lo0 := fst (log_get lg p).
  Let hi0 := snd (log_get lg p).
  (* where the group stands on p before the first session: the committed offset, or the start of the log *)
  Definition base : Z := match store_get st p with Some c => c | None => lo0 end.
  (* offsets are not negative; a committed offset lies inside the log; without one, Initial = oldest *)
  Definition wf0 : Prop :=
    0 <= lo0 <= hi0 /\ match store_get st p with Some c => lo0 <= c <= hi0 | None => c_initial cf = OffsetOldest end.
  Hypothesis Hwf : wf0.

  Definition del (tr : list event) (o : Z) : Prop := In (EvDeliver p o) tr.
  Definition covered (tr : list event) (x : Z) : Prop := forall o, base <= o < x -> del tr o.
  Definition lo_of (w : world) := fst (log_get (w_log w) p).
  Definition hi_of (w : world) := snd (log_get (w_log w) p).
  Definition okpos (w : world) (tr : list event) (x : Z) : Prop := lo_of w <= x <= hi_of w /\ base <= x /\ covered tr x.
  Definition Kclaim (w : world) (tr : list event) (c : claim) : Prop :=
    cl_part c = p ->
    ((cl_pom c = -1 /\ store_get st p = None /\ cl_dirty c = false) \/ okpos w tr (cl_pom c)) /\
    (cl_state c = CRunning -> lo_of w <= cl_start c /\ next_off c <= hi_of w /\ base <= cl_start c /\ covered tr (next_off c)).
  Definition K (w : world) (tr : list event) : Prop :=
    (lo_of w = lo0 /\ lo0 <= hi_of w) /\
    match store_get (w_store w) p with Some c => okpos w tr c | None => store_get st p = None end /\
    forall c, In c (s_claims w) -> Kclaim w tr c.

  Lemma covered_mono tr e x : covered tr x -> covered (tr ++ e) x.
  Proof. intros H o Ho. apply in_or_app. left. now apply H. Qed.
  Lemma okpos_frame w w' tr e x : w_log w' = w_log w -> okpos w tr x -> okpos w' (tr ++ e) x.
  Proof. unfold okpos, lo_of, hi_of. intros ->. intros (H1 & H2 & H3). repeat split; try tauto. now apply covered_mono. Qed.
  Lemma Kclaim_frame w w' tr e c : w_log w' = w_log w -> Kclaim w tr c -> Kclaim w' (tr ++ e) c.
  Proof.
    unfold Kclaim. intros Hl H Hp. destruct (H Hp) as [Ha Hb]. split.
    - destruct Ha as [Ha|Ha]; [left; exact Ha | right; eapply okpos_frame; eauto].
    - intros Hc. destruct (Hb Hc) as (H1 & H2 & H3 & H4). unfold lo_of, hi_of in *. rewrite Hl. repeat split; auto. now apply covered_mono.
  Qed.
  (* a step that leaves store, log and claims alone *)
  Lemma K_frame w w' tr e : w_store w' = w_store w -> w_log w' = w_log w -> s_claims w' = s_claims w -> K w tr -> K w' (tr ++ e).
  Proof.
    unfold K. intros Hs Hl Hc ((H1 & H2) & H3 & H4). unfold lo_of, hi_of in *. rewrite Hs, Hl, Hc. split; [|split]; auto.
    - destruct (store_get (w_store w) p); [eapply okpos_frame; eauto | auto].
    - intros x Hin. eapply Kclaim_frame; eauto.
  Qed.
  Lemma K_frame_noclaims w w' tr e : w_store w' = w_store w -> w_log w' = w_log w -> s_claims w' = [] -> K w tr -> K w' (tr ++ e).
  Proof.
    unfold K. intros Hs Hl Hc ((H1 & H2) & H3 & H4). unfold lo_of, hi_of in *. rewrite Hs, Hl, Hc. split; [|split]; auto.
    - destruct (store_get (w_store w) p); [eapply okpos_frame; eauto | auto].
    - intros x [].
  Qed.

  Lemma enter_commit_frame w n : let w' := fst (enter_commit w n) in w_store w' = w_store w /\ w_log w' = w_log w /\ s_claims w' = s_claims w.
  Proof. unfold enter_commit. destruct n; [|destruct (dirty_blocks _)]; cbn; auto. Qed.

  Definition quiet (i : input) : bool :=
    match i with IFetch _ | IClaimGo _ _ _ | IDeliver _ | IClaimReturn _ | ICommit _ | IProduce _ | ICleanup => false | _ => true end.
  Lemma quiet_frame w i : quiet i = true ->
    let w' := fst (step cf w i) in w_store w' = w_store w /\ w_log w' = w_log w /\ (s_claims w' = s_claims w \/ s_claims w' = []).
  Proof.
    destruct i; try discriminate; intros _; cbn [step]; destruct (w_phase w);
      unfold retry_or, ret, enter_new_session, enter_manage, hb_exit, new_call, new_session; cbn; repeat (dmatch; cbn); auto.
  Qed.

  Lemma K_quiet w tr i : quiet i = true -> K w tr -> K (fst (step cf w i)) (tr ++ snd (step cf w i)).
  Proof.
    intros Hq HK. destruct (quiet_frame w i Hq) as (H1 & H2 & [H3|H3]); [eapply K_frame | eapply K_frame_noclaims]; eauto.
  Qed.

  Lemma K_exit w tr e c q : K w tr -> claim_find (s_claims w) q = Some c -> K (claim_exit w c) (tr ++ e).
  Proof.
    intros ((H1 & H2) & H3 & H4) Hf. unfold K, claim_exit, lo_of, hi_of in *. cbn. split; [|split]; auto.
    - destruct (store_get (w_store w) p); [eapply okpos_frame with (w := w); eauto | auto].
    - intros x Hx. apply claim_put_in in Hx as [-> | Hx].
      + pose proof (H4 c (claim_find_in _ _ _ Hf)) as Hc. intros Hp. destruct (Hc Hp) as [Ha _]. split; [|cbn; intros Hd; discriminate Hd].
        cbn. destruct Ha as [Ha|Ha]; [left; exact Ha | right; eapply okpos_frame with (w := w); eauto].
      + eapply Kclaim_frame with (w := w); eauto.
  Qed.

  Lemma fst_let {A B C} (x : A * B) (f : B -> C) : fst (let '(a, b) := x in (a, f b)) = fst x.
  Proof. now destruct x. Qed.
  Lemma snd_let {A B C} (x : A * B) (f : B -> C) : snd (let '(a, b) := x in (a, f b)) = f (snd x).
  Proof. now destruct x. Qed.

  Lemma K_cleanup w tr : K w tr -> K (fst (step cf w ICleanup)) (tr ++ snd (step cf w ICleanup)).
  Proof.
    intros HK. cbn [step]. destruct (w_phase w); try (cbn; rewrite app_nil_r; exact HK).
    destruct (all_done w); [|cbn; rewrite app_nil_r; exact HK].
    rewrite fst_let. match goal with |- context [enter_commit ?w1 ?n] => destruct (enter_commit_frame w1 n) as (E1 & E2 & E3) end.
    eapply K_frame; [ | | |exact HK]; destruct (hd_cleanup_ok _); try destruct (s_res w); cbn in *; congruence.
  Qed.

  Lemma K_fetch w tr ok : K w tr -> K (fst (step cf w (IFetch ok))) (tr ++ snd (step cf w (IFetch ok))).
  Proof.
    intros HK. cbn [step]. destruct (w_phase w); try (cbn; rewrite app_nil_r; exact HK).
    destruct todo as [|q todo]; [cbn; rewrite app_nil_r; exact HK|].
    match goal with |- context [if ?b then _ else _] => destruct b end.
    - cbn [fst snd]. destruct HK as ((H1 & H2) & H3 & H4).
      assert (HK' : K (set_claims w (s_claims w ++ [mk_claim q (committed (w_store w) q)])) (tr ++ [EvReq (RFetch q) 0 0])).
      { unfold K, lo_of, hi_of in *. cbn. split; [|split]; auto.
        - destruct (store_get (w_store w) p); [eapply okpos_frame with (w := w); eauto | auto].
        - intros x Hx. apply in_app_or in Hx as [Hx|[<-|[]]]; [eapply Kclaim_frame with (w := w); eauto|].
          intros Hp. cbn in Hp. subst q. cbn. split; [|intros Hd; discriminate Hd].
          unfold committed. destruct (store_get (w_store w) p) as [v|].
          + right. eapply okpos_frame with (w := w); eauto.
          + left. auto. }
      unfold enter_manage. destruct todo; (eapply K_frame with (e := []) in HK'; [rewrite app_nil_r in HK'; exact HK' | | | ]; reflexivity).
    - rewrite fst_let. match goal with |- context [enter_commit ?w1 ?n] => destruct (enter_commit_frame w1 n) as (E1 & E2 & E3) end.
      eapply K_frame; [ | | |exact HK]; cbn in *; congruence.
  Qed.

  Lemma K_produce w tr q : K w tr -> K (fst (step cf w (IProduce q))) (tr ++ snd (step cf w (IProduce q))).
  Proof.
    intros ((H1 & H2) & H3 & H4). cbn. rewrite app_nil_r. destruct (log_produce_get (w_log w) q p) as [L1 L2].
    unfold K, lo_of, hi_of in *. cbn. rewrite L1. split; [split; lia|]. split.
    - destruct (store_get (w_store w) p); [|auto]. unfold okpos, lo_of, hi_of in *; cbn. rewrite L1.
      destruct H3 as (A & B & C). repeat split; auto; lia.
    - intros x Hx Hp. destruct (H4 x Hx Hp) as [Ha Hb]. unfold okpos, lo_of, hi_of in *; cbn. rewrite L1. split.
      + destruct Ha as [Ha|(A & B & C)]; [auto|right]. repeat split; auto; lia.
      + intros Hc. destruct (Hb Hc) as (A & B & C & D). repeat split; auto; lia.
  Qed.

  Lemma K_claimret w tr q : K w tr -> K (fst (step cf w (IClaimReturn q))) (tr ++ snd (step cf w (IClaimReturn q))).
  Proof.
    intros HK. cbn [step]. destruct (claims_live w); [|cbn; rewrite app_nil_r; exact HK].
    destruct (claim_find (s_claims w) q) as [c|] eqn:Hf; [|cbn; rewrite app_nil_r; exact HK].
    destruct (cl_state c); try (cbn; rewrite app_nil_r; exact HK).
    match goal with |- context [if ?b then _ else _] => destruct b end; [|cbn; rewrite app_nil_r; exact HK].
    cbn [fst snd]. eapply K_exit; eauto.
  Qed.

  Lemma K_put w tr e c' : K w tr -> Kclaim (set_claims w (claim_put (s_claims w) c')) (tr ++ e) c' ->
    K (set_claims w (claim_put (s_claims w) c')) (tr ++ e).
  Proof.
    intros ((H1 & H2) & H3 & H4) Hc. unfold K, lo_of, hi_of in *. cbn. split; [|split]; auto.
    - destruct (store_get (w_store w) p); [eapply okpos_frame with (w := w); eauto | auto].
    - intros x Hx. apply claim_put_in in Hx as [-> | Hx]; [exact Hc|]. eapply Kclaim_frame with (w := w); eauto.
  Qed.

  Lemma K_claimgo w tr q a1 a2 : K w tr -> K (fst (step cf w (IClaimGo q a1 a2))) (tr ++ snd (step cf w (IClaimGo q a1 a2))).
  Proof.
    intros HK. cbn [step]. destruct (claims_live w); [|cbn; rewrite app_nil_r; exact HK].
    destruct (claim_find (s_claims w) q) as [c|] eqn:Hf; [|cbn; rewrite app_nil_r; exact HK].
    destruct (cl_state c) eqn:Hst; try (cbn; rewrite app_nil_r; exact HK).
    destruct (ending w); [cbn [fst snd]; eapply K_exit; eauto|].
    destruct (log_get (w_log w) q) as [lo hi] eqn:Hlog.
    destruct (claim_try cf (cl_pom c) lo hi a1 a2) as [o|] eqn:Ho; [|cbn [fst snd]; eapply K_exit; eauto].
    cbn [fst snd]. apply K_put; [exact HK|].
    apply claim_try_offset in Ho as [Ho _].
    pose proof (claim_find_part _ _ _ Hf) as Hq.
    destruct HK as ((H1 & H2) & H3 & H4). pose proof (H4 c (claim_find_in _ _ _ Hf)) as Hc.
    intros Hp. cbn in Hp. rewrite Hq in Hp. rewrite Hp in *. clear Hp. destruct (Hc Hq) as [Ha _]. unfold lo_of, hi_of in *. rewrite Hlog in *. cbn in H1, H2.
    split.
    - cbn. destruct Ha as [Ha|Ha]; [left; exact Ha | right; eapply okpos_frame with (w := w); eauto].
    - intros _. cbn. unfold next_off. cbn. rewrite Z.add_0_r. rewrite Hlog. cbn.
      unfold claim_offset, next_offset, in_range, OffsetNewest, OffsetOldest in Ho.
      destruct Hwf as [W1 W2]. fold lo0 in H1. subst lo.
      destruct Ha as [(A1 & A2 & A3) | (B1 & B2 & B3)].
      + rewrite A1 in Ho. rewrite A2 in W2. unfold OffsetOldest in W2. rewrite W2 in Ho. cbn in Ho. injection Ho as <-.
        unfold resolve, OffsetNewest, OffsetOldest. cbn. unfold base. rewrite A2. repeat split; try lia. intros o Hx. unfold base in Hx. rewrite A2 in Hx. lia.
      + unfold lo_of, hi_of in B1. rewrite Hlog in B1. cbn in B1.
        assert (E1 : cl_pom c >=? 0 = true) by lia. rewrite E1 in Ho.
        assert (E2 : cl_pom c =? -1 = false) by lia. assert (E3 : cl_pom c =? -2 = false) by lia. rewrite E2, E3 in Ho.
        assert (E4 : (lo0 <=? cl_pom c) && (cl_pom c <=? hi) = true) by (apply andb_true_intro; split; lia). rewrite E4 in Ho. cbn in Ho. injection Ho as <-.
        unfold resolve, OffsetNewest, OffsetOldest. rewrite E2, E3. repeat split; try lia. now apply covered_mono.
  Qed.

  Lemma K_deliver w tr q : K w tr -> K (fst (step cf w (IDeliver q))) (tr ++ snd (step cf w (IDeliver q))).
  Proof.
    intros HK. cbn [step]. destruct (claims_live w); [|cbn; rewrite app_nil_r; exact HK].
    destruct (claim_find (s_claims w) q) as [c|] eqn:Hf; [|cbn; rewrite app_nil_r; exact HK].
    destruct (cl_state c) eqn:Hst; try (cbn; rewrite app_nil_r; exact HK).
    destruct ((next_off c <? snd (log_get (w_log w) q)) && quota_open (beh_of (s_handler w) q) (cl_consumed c)) eqn:Hcond;
      [|cbn; rewrite app_nil_r; exact HK].
    cbn [fst snd]. apply K_put; [exact HK|].
    pose proof (claim_find_part _ _ _ Hf) as Hq.
    destruct HK as ((H1 & H2) & H3 & H4). pose proof (H4 c (claim_find_in _ _ _ Hf)) as Hc.
    apply andb_prop in Hcond as [Hlt _]. apply Z.ltb_lt in Hlt.
    set (c1 := if (cl_consumed c <? h_mark (beh_of (s_handler w) q))%nat then mark c (next_off c + 1) else c).
    assert (Hc1 : cl_part c1 = cl_part c /\ cl_state c1 = cl_state c /\ cl_start c1 = cl_start c /\ cl_consumed c1 = cl_consumed c /\
                  ((cl_pom c1 = cl_pom c /\ cl_dirty c1 = cl_dirty c) \/ (cl_pom c1 = next_off c + 1 /\ cl_dirty c1 = true))).
    { unfold c1, mark. destruct (_ <? _)%nat; [destruct (_ >? _)|]; cbn; auto 10. }
    destruct Hc1 as (P1 & P2 & P3 & P4 & P5).
    intros Hp. cbn in Hp. rewrite P1, Hq in Hp. rewrite Hp in *. clear Hp.
    destruct (Hc Hq) as [Ha Hb]. specialize (Hb Hst). destruct Hb as (B1 & B2 & B3 & B4).
    unfold lo_of, hi_of in *. cbn [w_log set_claims].
    assert (Hnext : next_off (consumed_one c1) = next_off c + 1).
    { unfold next_off. cbn. rewrite P3, P4. lia. }
    assert (Hcov : covered (tr ++ [EvDeliver p (next_off c)]) (next_off c + 1)).
    { intros o Ho. destruct (Z.eq_dec o (next_off c)) as [->|Hne].
      - apply in_or_app. right. left. reflexivity.
      - apply in_or_app. left. apply B4. lia. }
    assert (Hno : cl_start c <= next_off c) by (unfold next_off; lia).
    split.
    - cbn. destruct P5 as [[-> ->] | [-> ->]].
      + destruct Ha as [Ha|Ha]; [left; exact Ha | right; eapply okpos_frame with (w := w); eauto].
      + right. unfold okpos, lo_of, hi_of. cbn. repeat split; auto; lia.
    - intros _. rewrite Hnext. cbn. rewrite P3. repeat split; auto; lia.
  Qed.

  Lemma K_commit w tr ok : K w tr -> K (fst (step cf w (ICommit ok))) (tr ++ snd (step cf w (ICommit ok))).
  Proof.
    intros HK. cbn [step]. destruct (w_phase w); try (cbn; rewrite app_nil_r; exact HK).
    destruct n as [|n]; [cbn; rewrite app_nil_r; exact HK|].
    destruct ok.
    - rewrite fst_let. match goal with |- context [enter_commit ?w1 ?n] => destruct (enter_commit_frame w1 n) as (E1 & E2 & E3); set (w' := fst (enter_commit w1 n)) in * end.
      cbn in E1, E2, E3. destruct HK as ((H1 & H2) & H3 & H4).
      match goal with |- K _ (_ ++ ?ee) => generalize ee; intros e end.
      split; [|split].
      + unfold lo_of, hi_of in *. rewrite E2. auto.
      + rewrite E1. destruct (store_get (store_set_all (w_store w) (dirty_blocks (s_claims w))) p) as [v|] eqn:Hg.
        * apply store_set_all_get in Hg as [Hg|Hg].
          -- apply dirty_blocks_in in Hg as (c & Hin & P1 & P2 & P3). destruct (H4 c Hin P1) as [[(A1 & A2 & A3)|Ha] _]; [congruence|].
             rewrite <- P2. eapply okpos_frame with (w := w); eauto.
          -- rewrite Hg in H3. eapply okpos_frame with (w := w); eauto.
        * apply store_set_all_none in Hg. now rewrite Hg in H3.
      + rewrite E3. intros x Hx. apply in_map_iff in Hx as (c & <- & Hin).
        pose proof (Kclaim_frame w w' tr e c E2 (H4 c Hin)) as Hk.
        intros Hp. cbn in Hp. destruct (Hk Hp) as [Ha Hb]. split; [|exact Hb].
        cbn. destruct Ha as [(A1 & A2 & A3)|Ha]; [left; auto|right; exact Ha].
    - rewrite fst_let. match goal with |- context [enter_commit ?w1 ?n] => destruct (enter_commit_frame w1 n) as (E1 & E2 & E3) end.
      eapply K_frame; [ | | |exact HK]; cbn in *; congruence.
  Qed.

  Lemma K_step w tr i : K w tr -> K (fst (step cf w i)) (tr ++ snd (step cf w i)).
  Proof.
    intros HK. destruct (quiet i) eqn:Hq; [now apply K_quiet|].
    destruct i; try discriminate Hq.
    - now apply K_fetch. - now apply K_claimgo. - now apply K_deliver. - now apply K_claimret. - now apply K_cleanup.
    - now apply K_commit. - now apply K_produce.
  Qed.

  Lemma K_run ins : forall w tr, K w tr -> K (fst (run cf w ins)) (tr ++ snd (run cf w ins)).
  Proof.
    induction ins as [|i r IH]; intros w tr HK; cbn; [now rewrite app_nil_r|].
    pose proof (K_step w tr i HK) as H1. destruct (step cf w i) as [w1 e1]. cbn in H1.
    pose proof (IH w1 _ H1) as H2. destruct (run cf w1 r) as [w2 e2]. cbn in *. now rewrite app_assoc.
  Qed.

  Lemma K_init : K (init_world st lg) [].
  Proof.
    destruct Hwf as [W1 W2]. unfold K, okpos, lo_of, hi_of, covered, base. cbn. fold lo0 hi0. split; [split; lia|]. split.
    - destruct (store_get st p); [|reflexivity]. split; [lia|]. split; [lia|]. intros o Ho. lia.
    - intros c [].
  Qed.

  (* Over any number of successive sessions (any inputs): every record of p from where the group stood before the
     first session up to the offset the coordinator now stores has been handed to a handler. *)
  Theorem no_skip_holds ins c o :
    let '(w, tr) := run cf (init_world st lg) ins in
    store_get (w_store w) p = Some c -> base <= o < c -> In (EvDeliver p o) tr.
  Proof.
    pose proof (K_run ins _ _ K_init) as H. destruct (run cf (init_world st lg) ins) as [w tr]. cbn in H.
    destruct H as (_ & H3 & _). intros Hs Ho. rewrite Hs in H3. destruct H3 as (_ & _ & Hc). now apply Hc.
  Qed.
End NoSkip.
