(* C07 — correspondence: the harness (go/harness/cmd/c07corr) runs the real ConsumerGroup against a
   scripted coordinator and writes, per Consume call, the script that was played (verdicts actually
   given), the handler behaviour, the choices the run made that the property leaves open (which claim
   goroutines got as far as ConsumeClaim, how many records each handler received) and what was observed.
   [ok_case] turns script + choices into an input list (a schedule), runs [Model.run] on it and compares
   the projected observables:
     - the sequence of the main goroutine's requests (with member id / generation / commit contents),
       Setup, Cleanup and the result of Consume;
     - per partition: ConsumeClaim start (InitialOffset), the offsets delivered, ConsumeClaim return;
     - the identities carried by heartbeats. *)
From Coq Require Import List ZArith Bool Arith.
From SV Require Import Base.Corr C07.Model.
Import ListNotations.
Open Scope Z_scope.

Inductive trig := TNone | TCtxBefore | TCtxSetup | TCtxSteady | TCloseBefore | TCloseJoin | TCloseSetup
                | TCloseSteady | THbFirst | THbSteady | TPartSteady.

Record ccall := {
  cc_trig : trig; cc_arg : nat; cc_handler : handler;
  cc_coords : list bool; cc_joins : list jv; cc_syncs : list sv; cc_fetches : list bool;
  cc_attempts : list (part * (bool * bool));   (* outcome of the ConsumePartition attempts (Model.claim_try), default both fine *)
  cc_hbs : list hv; cc_commits : list bool;
  cc_started : list part; cc_consumed : list (part * nat); cc_produce : list part;
  cc_errs : list (part * (nat * nat));  (* partition-consumer errors served while the claim lived: read from Errors() / not *)
  cc_reported : bool;               (* a refused commit is answered with an error the offset manager reports (pom.handleError) *)
  cc_mid : list part;               (* blocks of refused Commit() calls made by the handler during the session *)
  cc_pomerrs : nat;                 (* offset-manager errors reported during the call (observed: refused blocks) *)
  cc_fired : bool;                 (* the steady-state trigger was pulled before Consume returned *)
  (* observed *)
  cc_main : list event; cc_claims : list (part * list event); cc_hbids : list (Z * Z) }.

Record ccase := { k_cfg : cfg; k_store : list (part * Z); k_log : list (part * (Z * Z)); k_calls : list ccall;
                  k_close : bool; k_leave : lv; k_tail : list event }.

(* ---- decidable equality of events ---- *)
Definition cres_eq_dec : forall a b : cres, {a = b} + {a <> b}.
Proof. decide equality; apply Z.eq_dec. Defined.
Definition cause_eq_dec : forall a b : cause, {a = b} + {a <> b}.
Proof. decide equality. Defined.
Definition zz_eq_dec : forall a b : Z * Z, {a = b} + {a <> b}.
Proof. decide equality; apply Z.eq_dec. Defined.
Definition rkind_eq_dec : forall a b : rkind, {a = b} + {a <> b}.
Proof. decide equality; try apply Z.eq_dec; try apply Bool.bool_dec; apply (list_eq_dec zz_eq_dec). Defined.
Definition event_eq_dec : forall a b : event, {a = b} + {a <> b}.
Proof.
  decide equality; try apply Z.eq_dec; try apply rkind_eq_dec; try apply cause_eq_dec; try apply cres_eq_dec; try apply Bool.bool_dec;
  apply (list_eq_dec Z.eq_dec).
Defined.
Definition event_eqb (a b : event) : bool := if event_eq_dec a b then true else false.
Definition zz_eqb (a b : Z * Z) : bool := Z.eqb (fst a) (fst b) && Z.eqb (snd a) (snd b).

(* ---- projections ---- *)
Definition is_main (e : event) : bool :=
  match e with
  | EvReq RHeartbeat _ _ => false
  | EvReq _ _ _ => true
  | EvSetup | EvCleanup | EvReturn _ => true
  | _ => false
  end.
Definition main_proj (tr : list event) : list event := filter is_main tr.
Definition is_claim (p : part) (e : event) : bool :=
  match e with
  | EvClaimStart q _ | EvDeliver q _ | EvClaimReturn q => Z.eqb p q
  | _ => false
  end.
Definition claim_proj (p : part) (tr : list event) : list event := filter (is_claim p) tr.
Fixpoint memz (x : Z) (l : list Z) : bool := match l with [] => false | y :: r => Z.eqb x y || memz x r end.
Fixpoint memzz (x : Z * Z) (l : list (Z * Z)) : bool := match l with [] => false | y :: r => zz_eqb x y || memzz x r end.
Fixpoint hb_ids (tr : list event) (acc : list (Z * Z)) : list (Z * Z) :=
  match tr with
  | [] => rev acc
  | EvReq RHeartbeat m g :: r => if memzz (m, g) acc then hb_ids r acc else hb_ids r ((m, g) :: acc)
  | _ :: r => hb_ids r acc
  end.
Fixpoint parts_of (tr : list event) (acc : list part) : list part :=
  match tr with
  | [] => rev acc
  | EvClaimStart p _ :: r => if memz p acc then parts_of r acc else parts_of r (p :: acc)
  | _ :: r => parts_of r acc
  end.

(* ---- the schedule ---- *)
Record dst := { d_coords : list bool; d_joins : list jv; d_syncs : list sv; d_fetches : list bool;
                d_commits : list bool; d_njoin : nat }.
Definition pop {A} (l : list A) (d : A) : A * list A := match l with [] => (d, []) | x :: r => (x, r) end.

Definition trig_inputs (c : ccall) : list input :=
  match cc_trig c with
  | TCtxSteady => if cc_fired c then [ICancel] else []
  | TCloseSteady => if cc_fired c then [IClose] else []
  | THbFirst | THbSteady => map IHeartbeat (cc_hbs c)
  | TPartSteady => if cc_fired c then [IPartChange] else []
  | _ => []
  end.

Fixpoint att_lookup (l : list (part * (bool * bool))) (p : part) : bool * bool :=
  match l with [] => (true, true) | (q, a) :: r => if Z.eqb p q then a else att_lookup r p end.
Definition go (c : ccall) (p : part) : input := let a := att_lookup (cc_attempts c) p in IClaimGo p (fst a) (snd a).
Definition faulty (c : ccall) (p : part) : bool := let a := att_lookup (cc_attempts c) p in negb (fst a && snd a).
Definition running_chunk (c : ccall) (plan : list part) : list input :=
  let rest := filter (fun p => negb (memz p (cc_started c))) plan in
  map (go c) (cc_started c)
  ++ flat_map (fun pn => repeat (IDeliver (fst pn)) (snd pn)) (cc_consumed c)
  ++ flat_map (fun pe => repeat (IClaimError (fst pe) true) (fst (snd pe)) ++ repeat (IClaimError (fst pe) false) (snd (snd pe))) (cc_errs c)
  ++ map (fun p => IPomError p false) (cc_mid c)
  ++ trig_inputs c
  ++ map IClaimReturn (cc_started c)
  ++ map (go c) (filter (faulty c) rest)
  ++ map IClaimReturn (cc_started c)
  ++ map (go c) (filter (fun p => negb (faulty c p)) rest)
  ++ map IClaimReturn (cc_started c)
  ++ [IWatch; IRelease].

Definition chunk (c : ccall) (w : world) (d : dst) : list input * dst :=
  match w_phase w with
  | PIdle => ([], d)
  | PJoin _ JCoord | PJoin _ JRefresh =>
    let '(v, r) := pop (d_coords d) true in
    ([ICoord v], {| d_coords := r; d_joins := d_joins d; d_syncs := d_syncs d; d_fetches := d_fetches d; d_commits := d_commits d; d_njoin := d_njoin d |})
  | PJoin _ JJoin =>
    let '(v, r) := pop (d_joins d) JFatal in
    let n := S (d_njoin d) in
    ((match cc_trig c with TCloseJoin => if Nat.eqb n (cc_arg c) then [IClose] else [] | _ => [] end) ++ [IJoin v],
     {| d_coords := d_coords d; d_joins := r; d_syncs := d_syncs d; d_fetches := d_fetches d; d_commits := d_commits d; d_njoin := n |})
  | PJoin _ (JSync _ _ _) =>
    let '(v, r) := pop (d_syncs d) SFatal in
    ([ISync v], {| d_coords := d_coords d; d_joins := d_joins d; d_syncs := r; d_fetches := d_fetches d; d_commits := d_commits d; d_njoin := d_njoin d |})
  | PJoin _ (JBackoff _) => ([if w_closed w then IBackoffClosed else IBackoff], d)
  | PManage _ =>
    let '(v, r) := pop (d_fetches d) true in
    ([IHeartbeat HOk; IFetch v], {| d_coords := d_coords d; d_joins := d_joins d; d_syncs := d_syncs d; d_fetches := r; d_commits := d_commits d; d_njoin := d_njoin d |})
  | PSetup =>
    ([IHeartbeat HOk; ISetup] ++ match cc_trig c with TCtxSetup => [ICancel] | TCloseSetup => [IClose] | _ => [] end, d)
  | PRunning => (running_chunk c (map cl_part (s_claims w)), d)
  | PReleasing => (trig_inputs c ++ [ICleanup], d)   (* a trigger pulled while Setup was failing *)
  | PCommit _ =>
    let '(v, r) := pop (d_commits d) true in
    ((if negb v && cc_reported c then map (fun b => IPomError (fst b) false) (dirty_blocks (s_claims w)) else []) ++ [ICommit v], {| d_coords := d_coords d; d_joins := d_joins d; d_syncs := d_syncs d; d_fetches := d_fetches d; d_commits := r; d_njoin := d_njoin d |})
  | PHbStop => ([IHbStop], d)
  end.

(* run chunks until the call is over; returns the inputs used, the final world, and the trace *)
Fixpoint drive (fuel : nat) (cf : cfg) (c : ccall) (w : world) (d : dst) : list input * world * list event :=
  match fuel with
  | O => ([], w, [])
  | S f =>
    match w_phase w with
    | PIdle => ([], w, [])
    | _ =>
      let '(ins, d') := chunk c w d in
      let '(w1, e1) := run cf w ins in
      let '(ins2, w2, e2) := drive f cf c w1 d' in
      (ins ++ ins2, w2, e1 ++ e2)
    end
  end.

Definition call_inputs_head (c : ccall) (lv0 : lv) : list input :=
  match cc_trig c with
  | TCloseBefore => [IClose; ILeave lv0; IConsume false (cc_handler c)]
  | TCtxBefore => [IConsume true (cc_handler c)]
  | _ => [IConsume false (cc_handler c)]
  end.

Definition run_call (cf : cfg) (lv0 : lv) (c : ccall) (w : world) : list input * world * list event :=
  let h := call_inputs_head c lv0 in
  let '(w1, e1) := run cf w h in
  let d0 := {| d_coords := cc_coords c; d_joins := cc_joins c; d_syncs := cc_syncs c; d_fetches := cc_fetches c;
               d_commits := cc_commits c; d_njoin := 0 |} in
  let '(ins2, w2, e2) := drive 200 cf c w1 d0 in
  let t := (if w_closed w2 && negb (w_left w2) then [ILeave lv0] else []) ++ map IProduce (cc_produce c) in
  let '(w3, e3) := run cf w2 t in
  (h ++ ins2 ++ t, w3, e1 ++ e2 ++ e3).

Definition ev_list_eqb := list_eqb event_eqb.
Definition claims_ok (tr : list event) (obs : list (part * list event)) : bool :=
  forallb (fun po => ev_list_eqb (claim_proj (fst po) tr) (snd po)) obs
  && forallb (fun p => memz p (map fst obs)) (parts_of tr []).

Definition err_count (p : part) (d : bool) (tr : list event) : nat :=
  length (filter (fun e => match e with EvClaimError q b => Z.eqb p q && Bool.eqb b d | _ => false end) tr).
Definition errs_ok (tr : list event) (c : ccall) : bool :=
  forallb (fun pe => Nat.eqb (err_count (fst pe) true tr) (fst (snd pe)) && Nat.eqb (err_count (fst pe) false tr) (snd (snd pe))) (cc_errs c)
  && Nat.eqb (length (filter (fun e => match e with EvPomError _ _ => true | _ => false end) tr)) (cc_pomerrs c).
Definition call_ok (tr : list event) (c : ccall) : bool :=
  ev_list_eqb (main_proj tr) (cc_main c) && claims_ok tr (cc_claims c) && list_eqb zz_eqb (hb_ids tr []) (cc_hbids c) && errs_ok tr c.

Fixpoint calls_ok (cf : cfg) (lv0 : lv) (w : world) (cs : list ccall) : bool * world :=
  match cs with
  | [] => (true, w)
  | c :: r =>
    let '(_, w', tr) := run_call cf lv0 c w in
    let '(b, w'') := calls_ok cf lv0 w' r in
    (call_ok tr c && b, w'')
  end.

Definition ok_case (k : ccase) : bool :=
  let '(b, w) := calls_ok (k_cfg k) (k_leave k) (init_world (k_store k) (k_log k)) (k_calls k) in
  let '(_, e) := run (k_cfg k) w (if k_close k then [IClose; ILeave (k_leave k)] else []) in
  b && ev_list_eqb (main_proj e) (k_tail k).

Definition mismatches_c07 := mismatches ok_case.

(* all inputs of a case, for statements that the correspondence runs [Model.run] *)
Fixpoint case_inputs (cf : cfg) (lv0 : lv) (w : world) (cs : list ccall) : list input :=
  match cs with
  | [] => []
  | c :: r => let '(ins, w', _) := run_call cf lv0 c w in ins ++ case_inputs cf lv0 w' r
  end.
