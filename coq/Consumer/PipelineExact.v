(* Consumer — proofs about Pipeline.v, part 2: what the composition delivers.
   For every reachable state (any schedule, any faults) and every partition:
     - Messages() ++ (what the slow-reader path still holds) = concatenation of the parseResponse outputs of the
       responses handed to its feeder, in order;
     - child.offset / fetchSize are exactly the result of folding parseResponse over those responses from the
       starting state: redispatch, re-subscription and abort never move them;
     - every response was parsed in the state its request was built from, so with a faithful broker the
       handed responses form a run in the sense of Log.run and c03_parse_exact applies: exactly once, in order,
       nothing skipped, across leader changes, worker deaths and slow readers;
     - some step on the partition's path is always enabled (progress), and the pointers the code dereferences
       are never nil, the acks counter never goes negative. *)
From Coq Require Import List ZArith Bool Lia Arith Sorting.Sorted.
From SV Require Import Consumer.Parse Consumer.Log Consumer.ParseProofs Consumer.RunProofs Consumer.Pipeline Consumer.PipelineProofs.
Import ListNotations.
Open Scope Z_scope.

(* folding parseResponse over a list of responses *)
Fixpoint replay (c : cfg) (s : pstate) (rs : list response) : pstate * list cmsg :=
  match rs with
  | [] => (s, [])
  | r :: t => let '(m, s1, _, _) := parse_response c s r in
              let '(s2, out) := replay c s1 t in (s2, m ++ out)
  end.

Lemma replay_snoc : forall c rs s r s1 out m s2 v e,
  replay c s rs = (s1, out) -> parse_response c s1 r = (m, s2, v, e) -> replay c s (rs ++ [r]) = (s2, out ++ m).
Proof.
  induction rs as [|a t IH]; intros s r s1 out m s2 v e H P; cbn in *.
  - injection H as <- <-. rewrite P. cbn. now rewrite app_nil_r.
  - destruct (parse_response c s a) as [[[m0 s0] v0] e0]. destruct (replay c s0 t) as [s3 o3] eqn:E.
    injection H as <- <-. rewrite (IH _ _ _ _ _ _ _ _ E P). now rewrite app_assoc.
Qed.

Section Exact.
  Variable size : sbatch -> Z.
  Variable c : cfg.
  Variable logs : Z -> list sbatch.
  Variable ess : Z -> list entry.
  Variable pst0 : Z -> pstate.

  Lemma run_snoc : forall log es s0 o0 s1 o1 r m s2 v e,
    run size c log es s0 o0 s1 o1 -> faithful size c log es s1 r -> parse_response c s1 r = (m, s2, v, e) ->
    run size c log es s0 o0 s2 (o1 ++ m).
  Proof.
    intros log es s0 o0 s1 o1 r m s2 v e H. induction H; intros Hf P.
    - eapply run_step; eauto. constructor.
    - eapply run_step; eauto.
  Qed.

  (* the environment: whatever the worker fetches for a subscribed partition is a faithful result for the state the
     request was built from (data, partial, or any fault answer) *)
  Definition env_ok (s : pipe) (o : op) : Prop :=
    match o with
    | ORound adds (ROk f) =>
        forall q, In q (add_new (w_subs (wk s)) adds) ->
                  faithful size c (logs q) (ess q) (c_pst (ch s q)) (f q)
    | _ => True
    end.

  Inductive reach : pipe -> Prop :=
  | reach_init : reach (init_pipe pst0)
  | reach_step : forall s o, reach s -> pre s o = true -> env_ok s o -> reach (step c s o).

  Lemma reach_inv : forall s, reach s -> Inv s.
  Proof. induction 1; [apply Inv_init|now apply step_inv]. Qed.

  (* the part of a child only parseResponse / the fetch touch *)
  Definition core (x : child) := (c_pst x, c_in x, c_parsed x, c_handed x).

  Lemma core_join : forall s p q, core (ch (join s p) q) = core (ch s q).
  Proof.
    intros s p q. unfold join. destruct (w_dead (wk s)); cbn [ch]; unfold updc; destruct (q =? p) eqn:E; auto;
      apply Z.eqb_eq in E; subst; reflexivity.
  Qed.

  Lemma core_other_ops : forall s o q,
    match o with OTake _ _ => False | ORound _ (ROk _) => False | _ => True end ->
    core (ch (step c s o) q) = core (ch s q).
  Proof.
    intros s o q Ho. destruct o as [p|n e|p k|p| |p ok]; cbn [step].
    - rewrite core_join. cbn [ch]. unfold updc. destruct (q =? p) eqn:E; auto. apply Z.eqb_eq in E; subst; reflexivity.
    - destruct e; [|contradiction]. destruct (add_new (w_subs (wk s)) n); cbn [ch]; auto.
      match goal with |- context [if ?b then _ else _] => destruct b end; reflexivity.
    - contradiction.
    - destruct (c_broker (ch s p)) as [g|].
      + unfold enqueue. cbn [wk ch]. destruct (live (wk s) && (g =? w_gen (wk s))); cbn [ch]; unfold updc;
          destruct (q =? p) eqn:E; auto; apply Z.eqb_eq in E; subst; rewrite ?Z.eqb_refl; reflexivity.
      + cbn [ch]. unfold updc. destruct (q =? p) eqn:E; auto. apply Z.eqb_eq in E; subst; reflexivity.
    - cbn [ch]. destruct (memz q (w_subs (wk s))); reflexivity.
    - destruct ok.
      + rewrite core_join. cbn [ch]. unfold updc. destruct (q =? p) eqn:E; auto. apply Z.eqb_eq in E; subst; reflexivity.
      + cbn [ch]. unfold updc. destruct (q =? p) eqn:E; auto. apply Z.eqb_eq in E; subst; reflexivity.
  Qed.

  Record Good (s : pipe) : Prop := {
    g_inv : Inv s;
    g_in : forall p sn r, In (sn, r) (c_in (ch s p)) -> faithful size c (logs p) (ess p) sn r;
    g_run : forall p, run size c (logs p) (ess p) (pst0 p) [] (c_pst (ch s p)) (c_parsed (ch s p));
    g_replay : forall p, replay c (pst0 p) (map snd (c_handed (ch s p))) = (c_pst (ch s p), c_parsed (ch s p))
  }.

  Lemma core_fields : forall x y, core x = core y ->
    c_pst x = c_pst y /\ c_in x = c_in y /\ c_parsed x = c_parsed y /\ c_handed x = c_handed y.
  Proof. unfold core. intros x y H. injection H. auto. Qed.

  Lemma good_core : forall s s', Good s -> Inv s' -> (forall q, core (ch s' q) = core (ch s q)) -> Good s'.
  Proof.
    intros s s' [HI Gin Grun Grep] HI' Hc. constructor; [exact HI'| | | ]; intros q;
      destruct (core_fields _ _ (Hc q)) as (E1 & E2 & E3 & E4); rewrite ?E1, ?E2, ?E3, ?E4; auto.
  Qed.

  Lemma good_take : forall s p k, Good s -> pre s (OTake p k) = true -> Good (step c s (OTake p k)).
  Proof.
    intros s p k G Hpre. pose proof G as [HI Gin Grun Grep]. pose proof (step_inv c s _ HI Hpre) as HI'.
    cbn [pre] in Hpre. pose proof (inv_p _ HI p) as Hp. set (x := ch s p) in *.
    destruct (c_in x) as [|[sn r0] rest] eqn:Ein; [discriminate|].
    destruct (pi_in _ _ _ Hp ltac:(rewrite Ein; discriminate)) as (_ & _ & _ & (r & Er) & _ & _).
    rewrite Ein in Er. injection Er as -> -> ->.
    assert (Hf : faithful size c (logs p) (ess p) (c_pst x) r) by (apply (Gin p); fold x; rewrite Ein; now left).
    destruct (parse_response c (c_pst x) r) as [[[msgs st'] v] e] eqn:Ep.
    assert (Etake : c_pst (take c x k) = st' /\ c_in (take c x k) = [] /\ c_parsed (take c x k) = c_parsed x ++ msgs /\
                    c_handed (take c x k) = c_handed x ++ [(c_pst x, r)]).
    { unfold take. rewrite Ein, Ep. cbn. auto. }
    destruct Etake as (T1 & T2 & T3 & T4).
    constructor; [exact HI'| | | ]; cbn [step ch]; fold x; intros q; unfold updc; destruct (q =? p) eqn:Eq;
      try (apply Z.eqb_eq in Eq; subst q); auto.
    - intros sn r'. rewrite T2. intros [].
    - rewrite T1, T3. eapply run_snoc; [apply Grun|exact Hf|exact Ep].
    - rewrite T1, T3, T4, map_app. cbn [map snd]. eapply replay_snoc; [apply Grep|exact Ep].
  Qed.

  Lemma good_round_ok : forall s n f, Good s -> pre s (ORound n (ROk f)) = true -> env_ok s (ORound n (ROk f)) ->
    Good (step c s (ORound n (ROk f))).
  Proof.
    intros s n f G Hpre Henv. pose proof G as [HI Gin Grun Grep]. pose proof (step_inv c s _ HI Hpre) as HI'.
    cbn [env_ok] in Henv. cbn [pre] in Hpre. apply andb_true_iff in Hpre as [Hpre _]. apply andb_true_iff in Hpre as [Hpre _].
    apply andb_true_iff in Hpre as [Hl Hw]. apply negb_true_iff in Hw.
    assert (Hquiet : forall q, c_in (ch s q) = []).
    { intros q. destruct (c_in (ch s q)) eqn:E; auto. destruct (pi_in _ _ _ (inv_p _ HI q) ltac:(congruence)) as (_ & A & _). congruence. }
    remember (add_new (w_subs (wk s)) n) as subs' eqn:Es.
    destruct subs' as [|a0 r0].
    - apply (good_core s); auto. intros q. cbn [step]. rewrite <- Es. reflexivity.
    - assert (Hch : forall q, ch (step c s (ORound n (ROk f))) q = if memz q (a0 :: r0) then push_in (ch s q) (f q) else ch s q).
      { intros q. cbn [step]. rewrite <- Es. reflexivity. }
      constructor; [exact HI'| | | ]; intros q; rewrite Hch; destruct (memz q (a0 :: r0)) eqn:Em;
        cbn [push_in c_in c_pst c_parsed c_handed]; auto.
      intros sn r. rewrite Hquiet. cbn. intros [E|[]]. injection E as <- <-. apply Henv. now apply memz_In.
  Qed.

  Lemma reach_good : forall s, reach s -> Good s.
  Proof.
    induction 1 as [|s o Hr IH Hpre Henv].
    - constructor; cbn; [apply Inv_init| contradiction | constructor | reflexivity].
    - pose proof (step_inv c s o (g_inv _ IH) Hpre) as HI'.
      destruct o as [p|n [|f]|p k|p| |p ok].
      + apply (good_core s); auto. intros q. now apply core_other_ops.
      + apply (good_core s); auto. intros q. now apply core_other_ops.
      + now apply good_round_ok.
      + now apply good_take.
      + apply (good_core s); auto. intros q. now apply core_other_ops.
      + apply (good_core s); auto. intros q. now apply core_other_ops.
      + apply (good_core s); auto. intros q. now apply core_other_ops.
  Qed.

  (* ---------------------------------------------------------------- c03_pipeline_exact *)
  Theorem pipeline_stream : forall s, reach s -> forall p,
    c_out (ch s p) ++ c_rem (ch s p) = c_parsed (ch s p) /\
    (c_drain (ch s p) = false -> c_out (ch s p) = c_parsed (ch s p)) /\
    replay c (pst0 p) (map snd (c_handed (ch s p))) = (c_pst (ch s p), c_parsed (ch s p)) /\
    run size c (logs p) (ess p) (pst0 p) [] (c_pst (ch s p)) (c_parsed (ch s p)).
  Proof.
    intros s Hr p. destruct (reach_good s Hr) as [HI _ Grun Grep]. destruct (pi_stream _ _ _ (inv_p _ HI p)) as [S1 S2].
    split; [auto|]. split; [|split; auto]. intros Hd. rewrite (S2 Hd), app_nil_r in S1. exact S1.
  Qed.

  Theorem pipeline_exact : forall s, reach s -> forall p,
    wf_log (logs p) -> fits size c (logs p) ->
    (read_committed c = true -> index_wf (logs p) (ess p) /\ index_complete (logs p) (ess p)) ->
    let S := offset (pst0 p) in
    c_out (ch s p) ++ c_rem (ch s p) = filter (in_range S (offset (c_pst (ch s p)))) (visible c (logs p)) /\
    S <= offset (c_pst (ch s p)) /\
    (exists rest, filter (geo S) (visible c (logs p)) = (c_out (ch s p) ++ c_rem (ch s p)) ++ rest) /\
    StronglySorted Z.lt (offs (c_out (ch s p) ++ c_rem (ch s p))).
  Proof.
    intros s Hr p Hwf Hfits Hidx S. destruct (pipeline_stream s Hr p) as (E & _ & _ & Hrun). rewrite E.
    destruct (run_exact size c (logs p) (ess p) S Hwf Hfits Hidx (pst0 p) _ _ eq_refl Hrun) as (A & B & C & D & _). auto.
  Qed.

  (* ---------------------------------------------------------------- safety of the pointers and of the counter *)
  Theorem pipeline_no_nil : forall s, reach s -> forall p,
    (forall k, pre s (OTake p k) = true -> c_broker (ch s p) = Some (w_gen (wk s)) /\ 0 < w_acks (wk s)) /\
    (pre s (ODrain p) = true -> exists g, c_broker (ch s p) = Some g).
  Proof.
    intros s Hr p. pose proof (reach_inv s Hr) as HI. pose proof (inv_p _ HI p) as Hp. split.
    - intros k Hpre. cbn [pre] in Hpre. destruct (c_in (ch s p)) eqn:Ein; [discriminate|].
      destruct (pi_in _ _ _ Hp ltac:(congruence)) as (Hl & Hw & Hs & _). destruct (pi_sub _ _ _ Hp Hl Hs) as (_ & _ & B & _).
      split; auto. rewrite (inv_acks _ HI Hl Hw). unfold pend.
      assert (In p (filter (fun q => negb (nilb (c_in (ch s q)))) (w_subs (wk s)))) by (apply filter_In; split; auto; now rewrite Ein).
      destruct (filter _ _); [contradiction|cbn [length]; lia].
    - intros Hpre. cbn [pre] in Hpre. destruct (pi_drain _ _ _ Hp Hpre) as (_ & _ & _ & A & _). exact A.
  Qed.

  (* ---------------------------------------------------------------- progress *)
  Definition on_path (p : Z) (o : op) : Prop :=
    o = ODispatch p true \/ o = ODrain p \/ (exists q k, o = OTake q k) \/ o = OHandle \/ (exists n e, o = ORound n e).

  Theorem pipeline_progress : forall s, reach s -> forall p,
    c_started (ch s p) = true -> c_closed (ch s p) = false ->
    exists o, pre s o = true /\ on_path p o.
  Proof.
    intros s Hr p Hs Hc. pose proof (reach_inv s Hr) as HI. pose proof (inv_p _ HI p) as Hp.
    destruct (pi_where _ _ _ Hp Hs Hc) as [Ht|[Hd|[Hl Hin]]].
    - exists (ODispatch p true). split; [cbn; now rewrite Ht, Hc|left; auto].
    - exists (ODrain p). split; [exact Hd|right; left; auto].
    - destruct (w_wait (wk s)) eqn:Hw.
      + pose proof (inv_acks _ HI Hl Hw) as Ha. destruct (pend s) eqn:Ep.
        * exists OHandle. split; [cbn; rewrite Hl, Hw, Ha; reflexivity|right; right; right; left; auto].
        * unfold pend in Ep. destruct (filter_pos_ex (fun q => negb (nilb (c_in (ch s q)))) (w_subs (wk s)) ltac:(rewrite Ep; lia)) as (q & Hq & Hne).
          exists (OTake q None). split; [|right; right; left; eauto]. cbn [pre].
          destruct (c_in (ch s q)) eqn:Ein; [discriminate|].
          destruct (pi_in _ _ _ (inv_p _ HI q) ltac:(congruence)) as (_ & _ & _ & _ & Hdq & _). now rewrite Hdq.
      + exists (ORound [] RFail). split; [cbn; rewrite Hl, Hw; reflexivity|right; right; right; right; eauto].
  Qed.
End Exact.

(* ------------------------------------------------------------------ Example: the hypotheses are satisfiable *)
From SV Require Import Consumer.MoreProofs.

(* one partition on the compacted log of [holes_log], started at offset 13: subscribe, one round with the faithful
   two-batch answer, the feeder hands the record over, handleResponses keeps the subscription *)
Definition ex_ops : list op := [OStart 0; ORound [0] (ROk (fun _ => holes_resp)); OTake 0 None; OHandle].
Definition ex_state : pipe := fold_left (step cfg0) ex_ops (init_pipe (fun _ => st13)).

Example pipeline_example :
  reach (fun _ => 0) cfg0 (fun _ => holes_log) (fun _ => []) (fun _ => st13) ex_state /\
  map cm_offset (c_out (ch ex_state 0)) = [17] /\ offset (c_pst (ch ex_state 0)) = 18 /\ w_subs (wk ex_state) = [0].
Proof.
  split; [|repeat split; reflexivity]. unfold ex_state, ex_ops. cbn [fold_left].
  repeat (apply reach_step; [| reflexivity | ]); try exact I; try apply reach_init.
  cbn [env_ok]. intros q Hq. cbn in Hq. destruct Hq as [<-|[]]. right; right. exact holes_resp_faithful.
Qed.
