(* Consumer — proofs about Feeder.v: for every schedule (reader pace / ticks) and every split of the messages
   into responses, the feeder delivers every parsed message exactly once and in order (both variants), and —
   with the repaired slow-reader path — runs every interceptor exactly once per message, in configuration
   order, before the delivery, whatever the interceptors do (panic included).  The pinned variant
   (reapply = true) intercepts the message the feeder was blocked on twice: a concrete witness. *)
From Coq Require Import List ZArith Bool Arith Lia.
From SV Require Import Consumer.Feeder.
Import ListNotations.

Section Proofs.
  Variable P : Type.
  Notation msg := (msg P).
  Notation icpt := (icpt P).
  Notation fev := (fev P).

  Definition final (is : list icpt) (m : msg) : msg := (fst m, apply_all is (fst m) (snd m)).

  (* events that concern message id *)
  Definition about (id : Z) (e : fev) : bool :=
    match e with
    | Intercept _ id' _ => Z.eqb id id'
    | Deliver m => Z.eqb id (fst m)
    | _ => false
    end.

  Lemma delivered_app : forall a b : list fev, delivered (a ++ b) = delivered a ++ delivered b.
  Proof. induction a as [|e a IH]; intros; cbn; auto. destruct e; cbn; rewrite IH; auto. Qed.
  Lemma calls_app : forall k id (a b : list fev), calls k id (a ++ b) = calls k id a + calls k id b.
  Proof. induction a as [|e a IH]; intros; cbn; auto. destruct e; cbn; rewrite IH; lia. Qed.

  (* ---------------------------------------------------------------- the chain *)
  Lemma chain_fst : forall is k m, fst (chain P k is m) = final is m.
  Proof.
    induction is as [|f r IH]; intros k [id p]; cbn; auto.
    destruct (f id p) as [p' pan] eqn:E. specialize (IH (S k) (id, p')).
    destruct (chain P (S k) r (id, p')) as [m' evs]. cbn in *. rewrite IH. unfold final. cbn. now rewrite E.
  Qed.

  Lemma chain_delivered : forall is k m, delivered (snd (chain P k is m)) = [].
  Proof.
    induction is as [|f r IH]; intros k [id p]; cbn; auto.
    destruct (f id p) as [p' pan]. specialize (IH (S k) (id, p')).
    destruct (chain P (S k) r (id, p')) as [m' evs]. cbn in *. auto.
  Qed.

  Lemma chain_calls : forall is k0 m k id,
    calls k id (snd (chain P k0 is m)) =
    if Z.eqb id (fst m) && (k0 <=? k) && (k <? k0 + length is) then 1 else 0.
  Proof.
    induction is as [|f r IH]; intros k0 [id0 p] k id; cbn [chain snd fst length].
    - cbn [calls snd fst length].
      assert (E : (k0 <=? k) && (k <? k0 + 0) = false).
      { destruct (k0 <=? k) eqn:E1; cbn [andb]; auto. apply Nat.ltb_ge. apply Nat.leb_le in E1. lia. }
      now rewrite <- andb_assoc, E, andb_false_r.
    - destruct (f id0 p) as [p' pan]. specialize (IH (S k0) (id0, p') k id).
      destruct (chain P (S k0) r (id0, p')) as [m' evs]. cbn [snd fst] in *. cbn [calls]. rewrite IH.
      destruct (Z.eqb id id0); [|now rewrite andb_false_r].
      cbn [andb]. rewrite andb_true_r.
      repeat match goal with
             | |- context [?a <=? ?b] => destruct (Nat.leb_spec a b)
             | |- context [?a <? ?b] => destruct (Nat.ltb_spec a b)
             | |- context [Nat.eqb ?a ?b] => destruct (Nat.eqb_spec a b)
             end; cbn; try lia; auto.
  Qed.

  (* the chain's events are the interceptors 0.., in order, all about the same message *)
  Definition calls_of (e : fev) : option (nat * Z) := match e with Intercept k i _ => Some (k, i) | _ => None end.
  Lemma chain_shape : forall is k0 m,
    map calls_of (snd (chain P k0 is m)) = map (fun j => Some (k0 + j, fst m)) (seq 0 (length is)).
  Proof.
    induction is as [|f r IH]; intros k0 [id p]; cbn [chain snd fst length seq map]; auto.
    destruct (f id p) as [p' pan]. specialize (IH (S k0) (id, p')).
    destruct (chain P (S k0) r (id, p')) as [m' evs]. cbn [snd fst map calls_of] in *. rewrite IH.
    rewrite Nat.add_0_r. f_equal. rewrite <- seq_shift, map_map. apply map_ext. intros j. f_equal. f_equal. lia.
  Qed.

  Lemma chain_about : forall is k0 m id,
    filter (about id) (snd (chain P k0 is m)) = if Z.eqb id (fst m) then snd (chain P k0 is m) else [].
  Proof.
    induction is as [|f r IH]; intros k0 [id0 p] id; cbn [chain snd fst].
    - cbn. now destruct (Z.eqb id id0).
    - destruct (f id0 p) as [p' pan]. specialize (IH (S k0) (id0, p') id).
      destruct (chain P (S k0) r (id0, p')) as [m' evs]. cbn [snd fst filter about] in *. rewrite IH.
      now destruct (Z.eqb id id0).
  Qed.

  (* ---------------------------------------------------------------- one response *)
  Section Variant.
    Variable reapply : bool.
    Variable is : list icpt.

    Lemma remaining_delivered : forall ms, delivered (remaining P is ms) = map (final is) ms.
    Proof.
      induction ms as [|m r IH]; cbn; auto. pose proof (chain_fst is 0 m) as F. pose proof (chain_delivered is 0 m) as D.
      destruct (chain P 0 is m) as [m' evs]. cbn in *. rewrite delivered_app, D. cbn. now rewrite IH, F.
    Qed.

    (* c03_feeder_exact: identities of the delivered messages = identities of the parsed ones, in order *)
    Lemma feed_ids : forall ms fa sched, map fst (delivered (snd (feed P reapply is fa ms sched))) = map fst ms.
    Proof.
      induction ms as [|m r IH]; intros fa sched; cbn [feed]; auto.
      pose proof (chain_fst is 0 m) as F. pose proof (chain_delivered is 0 m) as D.
      destruct (chain P 0 is m) as [m' evs]. cbn [fst snd] in *. destruct (expires fa (hd 0 sched)).
      - cbn [snd]. rewrite delivered_app, D. cbn [app delivered]. rewrite delivered_app, delivered_app, remaining_delivered.
        cbn [delivered]. rewrite app_nil_r, map_app. rewrite map_map. cbn [map].
        match goal with |- map fst (delivered ?X) ++ _ = _ => assert (H : map fst (delivered X) = [fst m]) end.
        { destruct reapply.
          - pose proof (chain_fst is 0 m') as F2. pose proof (chain_delivered is 0 m') as D2.
            destruct (chain P 0 is m') as [m'' evs2]. cbn in *. rewrite delivered_app, D2. cbn. rewrite F2, F. reflexivity.
          - cbn. now rewrite F. }
        unfold Feeder.msg in *. rewrite H. cbn. f_equal.
      - specialize (IH true (tl sched)). destruct (feed P reapply is true r (tl sched)) as [fa' evs']. cbn [snd] in *.
        rewrite delivered_app, D. cbn. rewrite IH, F. reflexivity.
    Qed.
  End Variant.

  (* ---------------------------------------------------------------- the repaired feeder *)
  Section Fixed.
    Variable is : list icpt.

    Lemma feed_delivered : forall ms fa sched, delivered (snd (feed P false is fa ms sched)) = map (final is) ms.
    Proof.
      induction ms as [|m r IH]; intros fa sched; cbn [feed]; auto.
      pose proof (chain_fst is 0 m) as F. pose proof (chain_delivered is 0 m) as D.
      destruct (chain P 0 is m) as [m' evs]. cbn [fst snd] in *. destruct (expires fa (hd 0 sched)).
      - cbn [snd]. rewrite delivered_app, D. cbn [app delivered]. rewrite delivered_app, remaining_delivered.
        cbn [delivered]. now rewrite app_nil_r, F.
      - specialize (IH true (tl sched)). destruct (feed P false is true r (tl sched)) as [fa' evs']. cbn [snd] in *.
        rewrite delivered_app, D. cbn. now rewrite IH, F.
    Qed.

    (* events about id, for a list of messages none of which / exactly the head of which is id *)
    Lemma remaining_about_out : forall ms id, ~ In id (map fst ms) -> filter (about id) (remaining P is ms) = [].
    Proof.
      induction ms as [|m r IH]; intros id Hn; cbn; auto. cbn in Hn.
      pose proof (chain_about is 0 m id) as A. pose proof (chain_fst is 0 m) as F.
      destruct (chain P 0 is m) as [m' evs]. cbn [fst snd] in *. rewrite filter_app, A.
      assert (Z.eqb id (fst m) = false) as E by (apply Z.eqb_neq; intro; subst; tauto). rewrite E. cbn [app filter about].
      rewrite F. cbn [fst final]. rewrite E. apply IH. tauto.
    Qed.

    Lemma remaining_about_in : forall ms id p, NoDup (map fst ms) -> In (id, p) ms ->
      filter (about id) (remaining P is ms) = snd (chain P 0 is (id, p)) ++ [Deliver (final is (id, p))].
    Proof.
      induction ms as [|m r IH]; intros id p Hnd Hin; [contradiction|]. cbn in Hnd. inversion Hnd as [|? ? Hni Hnd']; subst.
      cbn [remaining]. pose proof (chain_about is 0 m id) as A. pose proof (chain_fst is 0 m) as F.
      destruct (chain P 0 is m) as [m' evs] eqn:Ec. cbn [fst snd] in *. rewrite filter_app, A. rewrite F. cbn [app filter about final fst].
      destruct Hin as [->|Hin].
      - cbn [fst]. rewrite Z.eqb_refl. rewrite Ec. cbn [snd]. rewrite remaining_about_out; auto.
      - assert (Z.eqb id (fst m) = false) as E.
        { apply Z.eqb_neq. intro; subst. apply Hni. change (fst m) with (fst (fst m, p)). now apply in_map. }
        rewrite E. cbn [app]. now apply IH.
    Qed.

    Lemma feed_about_out : forall ms fa sched id, ~ In id (map fst ms) ->
      filter (about id) (snd (feed P false is fa ms sched)) = [].
    Proof.
      induction ms as [|m r IH]; intros fa sched id Hn; cbn [feed]; auto. cbn in Hn.
      pose proof (chain_about is 0 m id) as A. pose proof (chain_fst is 0 m) as F.
      destruct (chain P 0 is m) as [m' evs]. cbn [fst snd] in *.
      assert (Z.eqb id (fst m) = false) as E by (apply Z.eqb_neq; intro; subst; tauto).
      destruct (expires fa (hd 0 sched)).
      - cbn [snd]. rewrite filter_app, A, E. rewrite F. cbn [app filter about final fst]. rewrite E.
        rewrite filter_app, remaining_about_out by tauto. reflexivity.
      - specialize (IH true (tl sched) id). destruct (feed P false is true r (tl sched)) as [fa' evs']. cbn [snd] in *.
        rewrite filter_app, A, E. rewrite F. cbn [app filter about final fst]. rewrite E. apply IH. tauto.
    Qed.

    (* everything that happens to message id: the chain once, in order, then its delivery *)
    Lemma feed_about_in : forall ms fa sched id p, NoDup (map fst ms) -> In (id, p) ms ->
      filter (about id) (snd (feed P false is fa ms sched)) = snd (chain P 0 is (id, p)) ++ [Deliver (final is (id, p))].
    Proof.
      induction ms as [|m r IH]; intros fa sched id p Hnd Hin; [contradiction|]. cbn in Hnd. inversion Hnd as [|? ? Hni Hnd']; subst.
      cbn [feed]. pose proof (chain_about is 0 m id) as A. pose proof (chain_fst is 0 m) as F.
      destruct (chain P 0 is m) as [m' evs] eqn:Ec. cbn [fst snd] in *.
      destruct Hin as [->|Hin].
      - cbn [fst] in *. rewrite Z.eqb_refl in A. destruct (expires fa (hd 0 sched)).
        + cbn [snd]. rewrite filter_app, A. rewrite F. cbn [app filter about final fst]. rewrite Z.eqb_refl.
          rewrite filter_app, remaining_about_out by auto. cbn. rewrite Ec. reflexivity.
        + pose proof (feed_about_out r true (tl sched) id Hni) as O.
          destruct (feed P false is true r (tl sched)) as [fa' evs']. cbn [snd] in *.
          rewrite filter_app, A. rewrite F. cbn [app filter about final fst]. rewrite Z.eqb_refl, O, Ec. reflexivity.
      - assert (Z.eqb id (fst m) = false) as E.
        { apply Z.eqb_neq. intro; subst. apply Hni. change (fst m) with (fst (fst m, p)). now apply in_map. }
        destruct (expires fa (hd 0 sched)).
        + cbn [snd]. rewrite filter_app, A, E. rewrite F. cbn [app filter about final fst]. rewrite E.
          rewrite filter_app. rewrite (remaining_about_in r id p Hnd' Hin). cbn. now rewrite app_nil_r.
        + specialize (IH true (tl sched) id p Hnd' Hin). destruct (feed P false is true r (tl sched)) as [fa' evs']. cbn [snd] in *.
          rewrite filter_app, A, E. rewrite F. cbn [app filter about final fst]. rewrite E. exact IH.
    Qed.

    Lemma remaining_calls : forall ms k id, calls k id (remaining P is ms) =
      if k <? length is then count_occ Z.eq_dec (map fst ms) id else 0.
    Proof.
      induction ms as [|m r IH]; intros k id; cbn [remaining map count_occ]; [cbn [calls snd]; now destruct (k <? length is)|].
      pose proof (chain_calls is 0 m k id) as C. destruct (chain P 0 is m) as [m' evs]. cbn [snd] in *.
      rewrite calls_app, C. cbn [calls]. rewrite IH. cbn [Nat.add Nat.leb andb]. rewrite andb_true_r.
      destruct (Z.eq_dec (fst m) id) as [->|Hne].
      - rewrite Z.eqb_refl. cbn [andb]. destruct (k <? length is); lia.
      - assert (Z.eqb id (fst m) = false) as -> by (apply Z.eqb_neq; congruence). cbn [andb]. destruct (k <? length is); lia.
    Qed.

    Lemma feed_calls : forall ms fa sched k id, calls k id (snd (feed P false is fa ms sched)) =
      if k <? length is then count_occ Z.eq_dec (map fst ms) id else 0.
    Proof.
      induction ms as [|m r IH]; intros fa sched k id; cbn [feed map count_occ]; [cbn [calls snd]; now destruct (k <? length is)|].
      pose proof (chain_calls is 0 m k id) as C. destruct (chain P 0 is m) as [m' evs]. cbn [snd] in *.
      assert (Hc : calls k id evs + (if k <? length is then count_occ Z.eq_dec (map fst r) id else 0) =
                   if k <? length is then (if Z.eq_dec (fst m) id then S (count_occ Z.eq_dec (map fst r) id) else count_occ Z.eq_dec (map fst r) id) else 0).
      { rewrite C. cbn [Nat.add Nat.leb andb]. rewrite andb_true_r. destruct (Z.eq_dec (fst m) id) as [->|Hne].
        - rewrite Z.eqb_refl. cbn [andb]. destruct (k <? length is); lia.
        - assert (Z.eqb id (fst m) = false) as -> by (apply Z.eqb_neq; congruence). cbn [andb]. destruct (k <? length is); lia. }
      destruct (expires fa (hd 0 sched)).
      - cbn [snd]. rewrite calls_app. cbn [calls app]. rewrite calls_app, remaining_calls. cbn [calls]. rewrite <- Hc. lia.
      - specialize (IH true (tl sched) k id). destruct (feed P false is true r (tl sched)) as [fa' evs']. cbn [snd] in *.
        rewrite calls_app. cbn [calls]. rewrite IH. exact Hc.
    Qed.
  End Fixed.

  (* ---------------------------------------------------------------- sequences of responses *)
  Lemma feed_all_ids : forall reapply is rs fa scheds,
    map fst (delivered (snd (feed_all P reapply is fa rs scheds))) = map fst (concat rs).
  Proof.
    induction rs as [|ms r IH]; intros fa scheds; cbn [feed_all concat]; auto.
    pose proof (feed_ids reapply is ms fa (hd [] scheds)) as F. destruct (feed P reapply is fa ms (hd [] scheds)) as [fa1 e1].
    specialize (IH fa1 (tl scheds)). destruct (feed_all P reapply is fa1 r (tl scheds)) as [fa2 e2]. cbn [snd] in *.
    rewrite delivered_app, !map_app. unfold Feeder.msg in *. now rewrite F, IH.
  Qed.

  Lemma feed_all_delivered : forall is rs fa scheds,
    delivered (snd (feed_all P false is fa rs scheds)) = map (final is) (concat rs).
  Proof.
    induction rs as [|ms r IH]; intros fa scheds; cbn [feed_all concat]; auto.
    pose proof (feed_delivered is ms fa (hd [] scheds)) as F. destruct (feed P false is fa ms (hd [] scheds)) as [fa1 e1].
    specialize (IH fa1 (tl scheds)). destruct (feed_all P false is fa1 r (tl scheds)) as [fa2 e2]. cbn [snd] in *.
    rewrite delivered_app, map_app. unfold Feeder.msg in *. now rewrite F, IH.
  Qed.

  Lemma count_occ_app' : forall (l1 l2 : list Z) x,
    count_occ Z.eq_dec (l1 ++ l2) x = count_occ Z.eq_dec l1 x + count_occ Z.eq_dec l2 x.
  Proof. induction l1 as [|a l1 IH]; intros; cbn; auto. rewrite IH. destruct (Z.eq_dec a x); lia. Qed.

  Lemma feed_all_calls : forall is rs fa scheds k id,
    calls k id (snd (feed_all P false is fa rs scheds)) =
    if k <? length is then count_occ Z.eq_dec (map fst (concat rs)) id else 0.
  Proof.
    induction rs as [|ms r IH]; intros fa scheds k id; cbn [feed_all concat]; [cbn [calls snd]; now destruct (k <? length is)|].
    pose proof (feed_calls is ms fa (hd [] scheds) k id) as F. destruct (feed P false is fa ms (hd [] scheds)) as [fa1 e1].
    specialize (IH fa1 (tl scheds) k id). destruct (feed_all P false is fa1 r (tl scheds)) as [fa2 e2]. cbn [snd] in *.
    rewrite calls_app, F, IH. unfold Feeder.msg in *. rewrite map_app, count_occ_app'. destruct (k <? length is); lia.
  Qed.

  Lemma feed_all_about_out : forall is rs fa scheds id, ~ In id (map fst (concat rs)) ->
    filter (about id) (snd (feed_all P false is fa rs scheds)) = [].
  Proof.
    induction rs as [|ms r IH]; intros fa scheds id Hn; cbn [feed_all concat]; auto.
    cbn [concat] in Hn. rewrite map_app in Hn.
    pose proof (feed_about_out is ms fa (hd [] scheds) id) as F. destruct (feed P false is fa ms (hd [] scheds)) as [fa1 e1].
    specialize (IH fa1 (tl scheds) id). destruct (feed_all P false is fa1 r (tl scheds)) as [fa2 e2]. cbn [snd] in *.
    rewrite filter_app, F, IH; auto; intro; apply Hn, in_or_app; auto.
  Qed.

  Lemma NoDup_app_inv : forall (a b : list Z), NoDup (a ++ b) ->
    NoDup a /\ NoDup b /\ forall x, In x a -> ~ In x b.
  Proof.
    induction a as [|x a IH]; cbn; intros b H; [repeat split; auto; constructor|].
    inversion H as [|? ? Hn Hd]; subst. destruct (IH b Hd) as (Na & Nb & Hab). repeat split; auto.
    - constructor; auto. intro; apply Hn, in_or_app; auto.
    - intros y [->|Hy] Hb; [apply Hn, in_or_app; auto|eapply Hab; eauto].
  Qed.

  (* c18_consumer_once: everything that happens to a message is: interceptors 0..n-1 once each, in order,
     then its delivery with the content they produced — for every schedule and split into responses *)
  Theorem consumer_once : forall is rs fa scheds id p,
    NoDup (map fst (concat rs)) -> In (id, p) (concat rs) ->
    let evs := snd (feed_all P false is fa rs scheds) in
    filter (about id) evs = snd (chain P 0 is (id, p)) ++ [Deliver (final is (id, p))] /\
    map calls_of (snd (chain P 0 is (id, p))) = map (fun k => Some (k, id)) (seq 0 (length is)) /\
    (forall k, k < length is -> calls k id evs = 1).
  Proof.
    intros is rs fa scheds id p Hnd Hin evs. split; [|split].
    - subst evs. revert fa scheds Hnd Hin. induction rs as [|ms r IH]; intros fa scheds Hnd Hin; [contradiction|].
      cbn [feed_all]. cbn [concat] in Hnd, Hin. rewrite map_app in Hnd.
      pose proof (feed_about_in is ms fa (hd [] scheds) id p) as FI. pose proof (feed_about_out is ms fa (hd [] scheds) id) as FO.
      destruct (feed P false is fa ms (hd [] scheds)) as [fa1 e1].
      pose proof (feed_all_about_out is r fa1 (tl scheds) id) as AO. specialize (IH fa1 (tl scheds)).
      destruct (feed_all P false is fa1 r (tl scheds)) as [fa2 e2]. cbn [snd] in *. rewrite filter_app.
      destruct (NoDup_app_inv _ _ Hnd) as (Hnd1 & Hnd2 & Hdisj).
      apply in_app_or in Hin as [Hin|Hin].
      + rewrite (FI Hnd1 Hin), AO; [now rewrite app_nil_r|].
        apply Hdisj. change id with (fst (id, p)). now apply in_map.
      + rewrite FO, (IH Hnd2 Hin); auto.
        intro Hx. apply (Hdisj id Hx). change id with (fst (id, p)). now apply in_map.
    - rewrite chain_shape. cbn [fst]. apply map_ext. intros; reflexivity.
    - intros k Hk. subst evs. rewrite feed_all_calls. assert (k <? length is = true) as -> by (now apply Nat.ltb_lt).
      assert (Hi : In id (map fst (concat rs))) by (change id with (fst (id, p)); now apply in_map).
      pose proof (NoDup_count_occ Z.eq_dec (map fst (concat rs))) as [Hc _]. specialize (Hc Hnd id).
      apply (count_occ_In Z.eq_dec) in Hi. unfold Feeder.msg in *. lia.
  Qed.
End Proofs.

(* ------------------------------------------------------------------ the pinned variant: a witness *)
(* content = the marks the interceptors left; interceptor k appends k *)
Definition mark (k : nat) : icpt (list nat) := fun _ p => (p ++ [k], false).
Definition boom : icpt (list nat) := fun _ p => (p, true).

(* three messages in one response, unbuffered channel; the reader takes 0 and 1 at once and lets two ticks
   pass before taking 2 *)
Definition witness_msgs : list (msg (list nat)) := [(0%Z, []); (1%Z, []); (2%Z, [])].
Definition witness_sched : list nat := [0; 0; 2].

Lemma pinned_intercepts_twice :
  calls 0 2%Z (snd (feed_all (list nat) true [mark 0] true [witness_msgs] [witness_sched])) = 2 /\
  delivered (snd (feed_all (list nat) true [mark 0] true [witness_msgs] [witness_sched])) =
    [(0%Z, [0]); (1%Z, [0]); (2%Z, [0; 0])].
Proof. split; reflexivity. Qed.

Lemma fixed_witness :
  calls 0 2%Z (snd (feed_all (list nat) false [mark 0] true [witness_msgs] [witness_sched])) = 1 /\
  delivered (snd (feed_all (list nat) false [mark 0] true [witness_msgs] [witness_sched])) =
    [(0%Z, [0]); (1%Z, [0]); (2%Z, [0])].
Proof. split; reflexivity. Qed.
