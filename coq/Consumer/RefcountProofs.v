(* Consumer — proofs about Refcount.v: for every sequence of ConsumePartition / dispatcher iterations (failing
   or succeeding, any broker) / dispatcher exits, the count of every worker equals the number of partition
   consumers whose child.broker is that worker, and no partition consumer points to a worker that was shut down.
   Without the `child.broker = nil` a failing dispatch followed by another iteration shuts a worker down under
   a sibling: a concrete witness. *)
From Coq Require Import List ZArith Bool Lia Arith.
From SV Require Import Consumer.Refcount.
Import ListNotations.
Open Scope Z_scope.

Definition ind (o : option Z) (w : Z) : Z := match o with Some x => if x =? w then 1 else 0 | None => 0 end.

Lemma cnt_nonneg : forall w k, 0 <= cnt w k.
Proof. induction k as [|[x|] k IH]; cbn; try lia. destruct (x =? w); lia. Qed.

Lemma cnt_app1 : forall w k v, cnt w (k ++ [v]) = cnt w k + ind v w.
Proof. induction k as [|[x|] k IH]; intros v; cbn; [destruct v; cbn; lia| |]; rewrite IH; lia. Qed.

Lemma cnt_set : forall w k i v, (i < length k)%nat ->
  cnt w (set_nth i v k) = cnt w k - ind (nth i k None) w + ind v w.
Proof.
  induction k as [|x k IH]; intros i v Hi; cbn in Hi; [lia|].
  destruct i as [|j]; cbn [set_nth nth].
  - destruct x as [x|], v as [v|]; cbn; lia.
  - specialize (IH j v ltac:(lia)). destruct x as [x|]; cbn [cnt]; rewrite IH; lia.
Qed.

Lemma set_nth_length : forall (A : Type) (k : list A) i v, length (set_nth i v k) = length k.
Proof. induction k as [|x k IH]; intros [|j] v; cbn; auto. Qed.

Lemma cnt_nth : forall w k i, nth i k None = Some w -> 1 <= cnt w k.
Proof.
  induction k as [|x k IH]; intros [|j] H; cbn in H; try discriminate.
  - subst x. cbn. rewrite Z.eqb_refl. pose proof (cnt_nonneg w k). lia.
  - specialize (IH j H). destruct x as [x|]; cbn; [destruct (x =? w)|]; lia.
Qed.

Lemma upd_same : forall (A : Type) (f : Z -> A) k v, upd f k v k = v.
Proof. intros. unfold upd. now rewrite Z.eqb_refl. Qed.
Lemma upd_other : forall (A : Type) (f : Z -> A) k v x, x <> k -> upd f k v x = f x.
Proof. intros. unfold upd. now assert (x =? k = false) as -> by (now apply Z.eqb_neq). Qed.

(* the consumer's map and the identities *)
Definition W (s : rstate) : Prop :=
  (forall b w, wmap s b = Some w -> w < fresh s /\ closed s w = false /\ wbroker s w = b) /\
  (forall w, fresh s <= w -> closed s w = false).
(* the counts; [pend] = references taken but not yet stored in a child.broker *)
Definition C (pend : Z -> Z) (s : rstate) : Prop :=
  forall w, refs s w = cnt w (kids s) + pend w /\
            (closed s w = true -> cnt w (kids s) = 0 /\ pend w = 0) /\
            (fresh s <= w -> cnt w (kids s) = 0 /\ pend w = 0).
Definition Inv (s : rstate) : Prop := W s /\ C (fun _ => 0) s.

Lemma ref_spec : forall s b w s1, W s -> C (fun _ => 0) s -> ref s b = (w, s1) ->
  W s1 /\ kids s1 = kids s /\ C (fun x => if x =? w then 1 else 0) s1 /\ closed s1 w = false.
Proof.
  intros s b w s1 [W1 W2] HC E. unfold ref in E. destruct (wmap s b) as [w0|] eqn:Em.
  - injection E as <- <-. destruct (W1 b w0 Em) as (Hlt & Hcl & Hb). cbn. split; [split; auto|]. split; [auto|]. split; [|auto].
    intros x. destruct (HC x) as (R & Cl & Fr). cbn. unfold upd. destruct (x =? w0) eqn:Ex.
    + apply Z.eqb_eq in Ex; subst. split; [lia|]. split.
      * intros Hc. congruence.
      * intros Hf. lia.
    + split; [lia|]. split.
      * intros Hc. destruct (Cl Hc). lia.
      * intros Hf. destruct (Fr Hf). lia.
  - injection E as <- <-. cbn. split; [split|].
    + intros b' w'. cbn [wmap fresh closed wbroker refs kids]. unfold upd. destruct (b' =? b) eqn:Eb.
      * intros Hm. injection Hm as Hm. subst w'. rewrite !Z.eqb_refl. apply Z.eqb_eq in Eb. subst. split; [lia|]. split; [apply W2; lia|reflexivity].
      * intros Hm. destruct (W1 b' w' Hm) as (Hlt & Hcl & Hb). assert (w' =? fresh s = false) as -> by (apply Z.eqb_neq; lia).
        split; [lia|]. split; auto.
    + intros x Hx. cbn [wmap fresh closed wbroker refs kids] in *. apply W2. lia.
    + cbn [wmap fresh closed wbroker refs kids]. split; [auto|]. split; [|apply W2; lia].
      intros x. destruct (HC x) as (R & Cl & Fr). cbn. unfold upd. destruct (x =? fresh s) eqn:Ex.
      * apply Z.eqb_eq in Ex; subst. destruct (Fr ltac:(lia)) as [F1 _]. split; [lia|]. split.
        -- intros Hc. rewrite W2 in Hc by lia. discriminate.
        -- intros Hf. lia.
      * apply Z.eqb_neq in Ex. split; [lia|]. split.
        -- intros Hc. destruct (Cl Hc). lia.
        -- intros Hf. destruct (Fr ltac:(lia)). lia.
Qed.

Ltac proj := cbn [wmap fresh closed wbroker refs kids] in *.

Lemma unref_spec : forall s w pend, W s -> C pend s -> 1 <= cnt w (kids s) -> pend w = 0 ->
  W (unref s w) /\ kids (unref s w) = kids s /\ fresh (unref s w) = fresh s /\
  (forall x, refs (unref s w) x = refs s x - (if x =? w then 1 else 0)) /\
  (forall x, closed (unref s w) x = true -> closed s x = true \/ (x = w /\ cnt w (kids s) = 1)).
Proof.
  intros s w pend [W1 W2] HC Hc Hp. destruct (HC w) as (R & Cl & Fr).
  assert (Hlt : w < fresh s) by (destruct (Z_lt_ge_dec w (fresh s)); auto; destruct (Fr ltac:(lia)); lia).
  assert (Hrefs : forall x, refs (unref s w) x = refs s x - (if x =? w then 1 else 0)).
  { intros x. unfold unref. destruct (refs s w - 1 =? 0); proj; unfold upd;
      (destruct (x =? w) eqn:Ex; [apply Z.eqb_eq in Ex; subst; lia|lia]). }
  assert (Hkids : kids (unref s w) = kids s) by (unfold unref; destruct (refs s w - 1 =? 0); reflexivity).
  assert (Hfresh : fresh (unref s w) = fresh s) by (unfold unref; destruct (refs s w - 1 =? 0); reflexivity).
  assert (Hclosed : forall x, closed (unref s w) x = true -> closed s x = true \/ (x = w /\ cnt w (kids s) = 1)).
  { intros x. unfold unref. destruct (refs s w - 1 =? 0) eqn:E0; proj; auto. unfold upd.
    destruct (x =? w) eqn:Ex; auto. apply Z.eqb_eq in Ex; subst. apply Z.eqb_eq in E0. intros _. right. split; auto. lia. }
  split; [|auto]. split.
  - intros b w' Hm. rewrite Hfresh.
    assert (Hold : wmap s b = Some w' /\ (closed (unref s w) w' = true -> closed s w' = true)).
    { revert Hm. unfold unref. destruct (refs s w - 1 =? 0) eqn:E0; proj; [|intros Hm; split; auto].
      destruct (wmap s (wbroker s w)) as [w2|] eqn:Em.
      - destruct (w2 =? w) eqn:E2.
        + apply Z.eqb_eq in E2; subst w2. unfold upd. destruct (b =? wbroker s w) eqn:Eb; [discriminate|].
          intros Hm. split; auto. destruct (w' =? w) eqn:E3; auto.
          apply Z.eqb_eq in E3; subst w'. destruct (W1 b w Hm) as (_ & _ & A3). apply Z.eqb_neq in Eb. congruence.
        + intros Hm. split; auto. unfold upd. destruct (w' =? w) eqn:E3; auto.
          apply Z.eqb_eq in E3; subst w'. destruct (W1 b w Hm) as (_ & _ & A3). subst b. rewrite Em in Hm. injection Hm as ->.
          rewrite Z.eqb_refl in E2. discriminate.
      - intros Hm. split; auto. unfold upd. destruct (w' =? w) eqn:E3; auto.
        apply Z.eqb_eq in E3; subst w'. destruct (W1 b w Hm) as (_ & _ & A3). subst b. congruence. }
    destruct Hold as [Hm0 Hcl0]. destruct (W1 b w' Hm0) as (A1 & A2 & A3).
    assert (wbroker (unref s w) w' = wbroker s w') as -> by (unfold unref; destruct (refs s w - 1 =? 0); reflexivity).
    split; [auto|]. split; [|auto]. destruct (closed (unref s w) w') eqn:E; auto. rewrite (Hcl0 eq_refl) in A2. discriminate.
  - intros x Hx. rewrite Hfresh in Hx. destruct (closed (unref s w) x) eqn:E; auto.
    destruct (Hclosed x E) as [H1|[-> _]]; [rewrite W2 in H1 by auto; discriminate|lia].
Qed.

Lemma Inv_init : Inv rc_init.
Proof. split; [split; cbn; [discriminate|auto]|]. intros w. cbn. repeat split; lia. Qed.

(* dropping child i's pointer after an unref of the worker it pointed to *)
Lemma release : forall s i w, Inv s -> (i < length (kids s))%nat -> nth i (kids s) None = Some w ->
  Inv (set_kids (unref s w) (set_nth i None (kids (unref s w)))).
Proof.
  intros s i w [HW HC] Hi Hn. pose proof (cnt_nth w _ _ Hn) as Hc.
  destruct (unref_spec s w _ HW HC Hc eq_refl) as (HW' & Hk & Hf & Hr & Hcl).
  split; [exact HW'|]. intros x. cbn [set_kids refs closed fresh kids]. rewrite Hk, Hr, Hf, (cnt_set x _ i None Hi), Hn.
  destruct (HC x) as (R & Cl & Fr). cbn [ind]. rewrite (Z.eqb_sym w x).
  pose proof (cnt_nonneg x (kids s)) as Hnn. destruct (x =? w) eqn:Exw.
  - apply Z.eqb_eq in Exw; subst x. split; [lia|]. split.
    + intros Hc'. destruct (Hcl w Hc') as [H1|[_ H1]]; [destruct (Cl H1); lia|lia].
    + intros Hf'. destruct (Fr Hf'); lia.
  - apply Z.eqb_neq in Exw. split; [lia|]. split.
    + intros Hc'. destruct (Hcl x Hc') as [H1|[H1 _]]; [destruct (Cl H1); lia|contradiction].
    + intros Hf'. destruct (Fr Hf'); lia.
Qed.

(* storing a freshly taken reference in child i, whose pointer is nil *)
Lemma acquire : forall s i b w s1, Inv s -> (i < length (kids s))%nat -> nth i (kids s) None = None -> ref s b = (w, s1) ->
  Inv (set_kids s1 (set_nth i (Some w) (kids s1))).
Proof.
  intros s i b w s1 [HW HC] Hi Hn E. destruct (ref_spec s b w s1 HW HC E) as (HW1 & Hk & HC1 & Hcw).
  split; [exact HW1|]. intros x. cbn [set_kids refs closed fresh kids]. rewrite Hk, (cnt_set x _ i (Some w) Hi), Hn.
  destruct (HC1 x) as (R & Cl & Fr). rewrite Hk in *. cbn [ind]. rewrite (Z.eqb_sym w x).
  destruct (x =? w) eqn:Exw; (split; [lia|]; split; [intros Hc'; destruct (Cl Hc') as [C1 C2]; lia|intros Hf'; destruct (Fr Hf') as [F1 F2]; lia]).
Qed.

Lemma step_inv : forall s o, Inv s -> Inv (rc_step true s o).
Proof.
  intros s o HI. destruct o as [b|i res|i]; cbn [rc_step].
  - destruct (ref s b) as [w s1] eqn:E. destruct HI as [HW HC]. destruct (ref_spec s b w s1 HW HC E) as (HW1 & Hk & HC1 & Hcw).
    split; [exact HW1|]. intros x. cbn [set_kids refs closed fresh kids]. rewrite Hk, cnt_app1. cbn [ind]. rewrite (Z.eqb_sym w x).
    destruct (HC1 x) as (R & Cl & Fr). rewrite Hk in *.
    destruct (x =? w) eqn:Exw; (split; [lia|]; split; [intros Hc'; destruct (Cl Hc'); lia|intros Hf'; destruct (Fr Hf'); lia]).
  - destruct (Nat.ltb i (length (kids s))) eqn:Ei; [|exact HI]. apply Nat.ltb_lt in Ei.
    set (s1 := match nth i (kids s) None with Some w => _ | None => s end).
    assert (H1 : Inv s1 /\ (i < length (kids s1))%nat /\ nth i (kids s1) None = None).
    { subst s1. destruct (nth i (kids s) None) as [w|] eqn:En; [|auto].
      split; [now apply release|]. cbn [set_kids kids]. rewrite set_nth_length.
      destruct HI as [HW HC]. destruct (unref_spec s w _ HW HC (cnt_nth w _ _ En) eq_refl) as (_ & Hk & _). rewrite Hk. split; [auto|].
      clear -Ei. revert i Ei. induction (kids s) as [|x k IH]; intros [|j] H; cbn in *; try lia; auto. apply IH. lia. }
    destruct H1 as (HI1 & Hi1 & Hn1). destruct res as [b|]; [|exact HI1].
    destruct (ref s1 b) as [w s2] eqn:E. eapply acquire; eauto.
  - destruct (Nat.ltb i (length (kids s))) eqn:Ei; [|exact HI]. apply Nat.ltb_lt in Ei.
    destruct (nth i (kids s) None) as [w|] eqn:En; [now apply release|exact HI].
Qed.

Theorem run_inv : forall ops, Inv (rc_run true ops).
Proof.
  intros ops. unfold rc_run. generalize Inv_init. generalize rc_init.
  induction ops as [|o r IH]; intros s HI; cbn; auto. apply IH. now apply step_inv.
Qed.

(* the statement in plain terms *)
Theorem refcount_exact : forall ops w,
  refs (rc_run true ops) w = cnt w (kids (rc_run true ops)) /\
  (closed (rc_run true ops) w = true -> cnt w (kids (rc_run true ops)) = 0).
Proof.
  intros ops w. destruct (run_inv ops) as [_ HC]. destruct (HC w) as (R & Cl & _). split; [lia|]. intros H. now destruct (Cl H).
Qed.

(* stale pointer: partitions 0 and 1 share worker 0; partition 0's dispatch fails once, then finds the same
   broker again: worker 0 is shut down while partition 1 still points to it *)
Definition stale_ops : list op := [Start 7; Start 7; Iter 0 None; Iter 0 (Some 7)].
Lemma stale_pointer_closes_sibling :
  let s := rc_run false stale_ops in
  nth 1 (kids s) None = Some 0 /\ closed s 0 = true /\ refs s 0 = 0 /\ cnt 0 (kids s) = 1.
Proof. cbn. repeat split; reflexivity. Qed.
