(* Consumer — proofs about Parse.v over the broker model of Log.v, part 1: offsets.
   accept / bump on sorted candidates, one Records element, the RecordsSet loop (Lemma parse_set_offsets):
   the loop delivers exactly the selected candidates at or above the requested offset and leaves the
   offset just behind everything it has seen. *)
From Coq Require Import List ZArith Bool Lia Sorting.Sorted.
From SV Require Import Consumer.Parse Consumer.Log.
Import ListNotations.
Open Scope Z_scope.

Definition geo (o : Z) (m : cmsg) : bool := o <=? cm_offset m.

(* ------------------------------------------------------------------ accept *)
Lemma accept_spec : forall cs o, StronglySorted Z.lt (offs cs) ->
  fst (accept o cs) = filter (geo o) cs /\ o <= snd (accept o cs) /\
  Forall (fun c => cm_offset c < snd (accept o cs)) (filter (geo o) cs) /\
  (forall H, Forall (fun c => cm_offset c <= H) cs -> snd (accept o cs) <= Z.max o (H + 1)) /\
  (filter (geo o) cs = [] -> snd (accept o cs) = o).
Proof.
  induction cs as [|c r IH]; intros o Hs; cbn [accept filter].
  - cbn. split; [|split; [|split; [|split]]]; auto; try lia.
  - cbn [offs map] in Hs. apply StronglySorted_inv in Hs as [Hs Hall].
    destruct (cm_offset c <? o) eqn:E.
    + apply Z.ltb_lt in E. assert (geo o c = false) as -> by (apply Z.leb_gt; lia).
      destruct (IH o Hs) as (A & B & C & D & F). split; [|split; [|split; [|split]]]; auto.
      intros H HF. inversion HF; subst. auto.
    + apply Z.ltb_ge in E. assert (geo o c = true) as -> by (apply Z.leb_le; lia).
      destruct (IH (cm_offset c + 1) Hs) as (A & B & C & D & F).
      destruct (accept (cm_offset c + 1) r) as [m o'] eqn:Ea. cbn [fst snd] in *.
      assert (Hext : filter (geo (cm_offset c + 1)) r = filter (geo o) r).
      { apply filter_ext_in. intros x Hx. unfold geo.
        rewrite Forall_forall in Hall. specialize (Hall (cm_offset x)).
        assert (cm_offset c < cm_offset x) by (apply Hall; unfold offs; now apply in_map).
        assert (cm_offset c + 1 <=? cm_offset x = true) as -> by (apply Z.leb_le; lia).
        symmetry; apply Z.leb_le; lia. }
      rewrite <- Hext. split; [|split; [|split; [|split]]].
      * now rewrite A.
      * lia.
      * constructor; [lia | exact C].
      * intros H HF. inversion HF; subst. specialize (D H H3). lia.
      * discriminate.
Qed.

Lemma filter_nil_all : forall (A : Type) (f : A -> bool) l, filter f l = [] -> forall x, In x l -> f x = false.
Proof.
  induction l as [|a l IH]; cbn; intros E x Hx; [contradiction|].
  destruct (f a) eqn:Fa; [discriminate|]. destruct Hx as [->|Hx]; auto.
Qed.

(* accept followed by the `len(messages)==0 => offset++` rule, on sorted candidates bounded by H, when the
   requested offset is not beyond H *)
Lemma bump_accept_spec : forall cs o H, StronglySorted Z.lt (offs cs) ->
  Forall (fun c => cm_offset c <= H) cs -> o <= H ->
  let res := bump (accept o cs) in
  fst res = filter (geo o) cs /\ o < snd res <= H + 1 /\ Forall (fun c => cm_offset c < snd res) cs.
Proof.
  intros cs o H Hs Hb Ho. destruct (accept_spec cs o Hs) as (A & B & C & D & F).
  specialize (D H Hb). unfold bump. cbn zeta. rewrite A.
  destruct (filter (geo o) cs) as [|x l] eqn:Fl.
  - cbn [fst snd]. rewrite (F eq_refl). split; [reflexivity|]. split; [lia|].
    rewrite Forall_forall. intros c Hc. pose proof (filter_nil_all _ _ _ Fl c Hc) as G.
    unfold geo in G. apply Z.leb_gt in G. lia.
  - rewrite A. split; [reflexivity|].
    assert (Hx : o <= cm_offset x < snd (accept o cs)).
    { inversion C; subst. assert (In x (filter (geo o) cs)) by (rewrite Fl; now left).
      apply filter_In in H0 as [_ G]. unfold geo in G. apply Z.leb_le in G. lia. }
    split; [lia|].
    rewrite Forall_forall. intros c Hc. destruct (geo o c) eqn:G.
    + rewrite Forall_forall in C. apply C. rewrite <- Fl. apply filter_In; auto.
    + unfold geo in G. apply Z.leb_gt in G. lia.
Qed.

(* ------------------------------------------------------------------ groups of stored units *)
Lemma wf_lo_hi : forall s, wf_sbatch s -> lo s <= hi s.
Proof.
  intros s (_ & Hb & Hne & _). destruct (cands s) as [|c r]; [congruence|].
  inversion Hb; subst. lia.
Qed.

Lemma ordered_app : forall a b, ordered (a ++ b) ->
  ordered a /\ ordered b /\ forall x y, In x a -> In y b -> hi x < lo y.
Proof.
  induction a as [|s a IH]; cbn; intros b H.
  - repeat split; auto. contradiction.
  - destruct H as [HF HO]. destruct (IH b HO) as (Oa & Ob & Hab).
    apply Forall_app in HF as [HFa HFb]. repeat split; auto.
    intros x y [->|Hx] Hy; [|now apply Hab]. rewrite Forall_forall in HFb. now apply HFb.
Qed.

Lemma ordered_in_lt : forall l a r, ordered (a :: r) -> In l r -> hi a < lo l.
Proof. intros l a r [HF _] Hl. rewrite Forall_forall in HF. now apply HF. Qed.

Lemma ordered_last_max : forall l d y, Forall wf_sbatch l -> ordered l -> In y l -> hi y <= hi (last l d).
Proof.
  induction l as [|a r IH]; intros d y Hw Ho Hy; [contradiction|].
  inversion Hw; subst. destruct r as [|b r'].
  - destruct Hy as [->|[]]. cbn. lia.
  - change (last (a :: b :: r') d) with (last (b :: r') d). destruct Ho as [HF Ho].
    destruct Hy as [->|Hy].
    + assert (hi b <= hi (last (b :: r') d)) by (apply IH; auto; now left).
      inversion HF; subst. pose proof (wf_lo_hi b ltac:(inversion H2; auto)). lia.
    + apply IH; auto.
Qed.

(* candidates of an ordered group of well-formed units are sorted and lie inside the units' ranges *)
Lemma group_cands : forall l, Forall wf_sbatch l -> ordered l ->
  StronglySorted Z.lt (offs (flat_map cands l)) /\
  Forall (fun c => exists y, In y l /\ lo y <= cm_offset c <= hi y) (flat_map cands l).
Proof.
  induction l as [|a r IH]; intros Hw Ho; cbn [flat_map].
  - split; constructor.
  - inversion Hw as [|? ? Ha Hr]; subst. destruct Ho as [HF Ho]. destruct (IH Hr Ho) as [Ss Sb].
    destruct Ha as (Sa & Ba & _). split.
    + unfold offs. rewrite map_app. fold (offs (cands a)). fold (offs (flat_map cands r)).
      clear IH. induction (cands a) as [|c cs IHc]; cbn; auto.
      cbn in Sa. apply StronglySorted_inv in Sa as [Sa1 Sa2]. inversion Ba; subst.
      constructor; [apply IHc; auto|]. apply Forall_app; split; auto.
      rewrite Forall_forall. intros z Hz. unfold offs in Hz. apply in_map_iff in Hz as (m & <- & Hm).
      rewrite Forall_forall in Sb. destruct (Sb m Hm) as (y & Hy & Hlo & _).
      rewrite Forall_forall in HF. specialize (HF y Hy). lia.
    + apply Forall_app; split.
      * rewrite Forall_forall in *. intros c Hc. exists a; split; [now left|auto].
      * rewrite Forall_forall in *. intros c Hc. destruct (Sb c Hc) as (y & Hy & Hb). exists y; split; [now right|auto].
Qed.

(* one Records element = a non-empty ordered group G whose candidates are exactly what the loop body scans *)
Lemma group_step : forall G o, G <> [] -> Forall wf_sbatch G -> ordered G ->
  (forall y, hd_error G = Some y -> o <= hi y) ->
  let res := bump (accept o (flat_map cands G)) in
  fst res = filter (geo o) (flat_map cands G) /\
  o < snd res <= hi (last G (SBatch (Build_rbatch 0 0 0 0 false 0 false false false []))) + 1 /\
  Forall (fun c => cm_offset c < snd res) (flat_map cands G).
Proof.
  intros G o Hne Hw Ho Hhd. set (d := SBatch _).
  destruct (group_cands G Hw Ho) as [Ss Sb].
  apply bump_accept_spec; auto.
  - rewrite Forall_forall. rewrite Forall_forall in Sb. intros c Hc. destruct (Sb c Hc) as (y & Hy & _ & Hh).
    pose proof (ordered_last_max G d y Hw Ho Hy). lia.
  - destruct G as [|a r]; [congruence|]. specialize (Hhd a eq_refl).
    pose proof (ordered_last_max (a :: r) d a Hw Ho (or_introl eq_refl)). lia.
Qed.

(* ------------------------------------------------------------------ the model's own keep/drop decisions *)
Fixpoint flags (c : cfg) (idx : list (Z * Z)) (A : list Z) (rs : list records) : list bool :=
  match rs with
  | [] => []
  | RLegacy _ _ bl :: r => map (fun _ => true) bl ++ flags c idx A r
  | RBatch b :: r =>
      let '(idx1, A1) := pop_aborted (rb_first b + rb_lastdelta b) idx A in
      if rb_control b then
        false :: flags c idx1 (match control_type b with
                               | Some t => if t =? 0 then removeZ (rb_pid b) A1 else A1
                               | None => A1 end) r
      else negb (read_committed c && rb_txn b && memZ (rb_pid b) A1) :: flags c idx1 A1 r
  end.

Fixpoint select (fl : list bool) (l : list sbatch) : list cmsg :=
  match fl, l with
  | f :: fr, s :: r => (if f then cands s else []) ++ select fr r
  | _, _ => []
  end.

Lemma select_app_true : forall (bl : list lblock) fl l,
  select (map (fun _ => true) bl ++ fl) (map SBlock bl ++ l) = flat_map cands (map SBlock bl) ++ select fl l.
Proof. induction bl as [|b bl IH]; intros; cbn; auto. rewrite IH. now rewrite app_assoc. Qed.

Lemma flat_map_block_cands : forall bl, flat_map block_cands bl = flat_map cands (map SBlock bl).
Proof. induction bl as [|b bl IH]; cbn; auto. now rewrite IH. Qed.

Lemma select_in : forall fl l c, In c (select fl l) -> exists y, In y l /\ In c (cands y).
Proof.
  induction fl as [|f fl IH]; intros [|s l] c H; cbn in H; try contradiction.
  apply in_app_or in H as [H|H].
  - destruct f; [|contradiction]. exists s; split; [now left|auto].
  - destruct (IH l c H) as (y & Hy & Hc). exists y; split; [now right|auto].
Qed.

Definition dummy : sbatch := SBatch (Build_rbatch 0 0 0 0 false 0 false false false []).

Lemma last_app_ne : forall (A : Type) (a b : list A) d, b <> [] -> last (a ++ b) d = last b d.
Proof.
  induction a as [|x a IH]; intros b d Hb; cbn [app]; auto.
  destruct (a ++ b) eqn:E; [destruct a; cbn in E; congruence|]. rewrite <- E. cbn. rewrite E. rewrite <- E. now apply IH.
Qed.

Lemma last_In : forall (A : Type) (l : list A) d, l <> [] -> In (last l d) l.
Proof.
  intros A l d H. apply exists_last in H as (l' & a & ->). rewrite last_last. apply in_or_app; right; now left.
Qed.

(* filters at o and at o1 agree on candidates that all lie at or above o1 >= o *)
Lemma filter_geo_above : forall l o o1, o <= o1 -> Forall (fun c => o1 <= cm_offset c) l ->
  filter (geo o1) l = filter (geo o) l.
Proof.
  intros l o o1 Ho Hf. apply filter_ext_in. intros x Hx. rewrite Forall_forall in Hf. specialize (Hf x Hx).
  unfold geo. assert (o1 <=? cm_offset x = true) as -> by (apply Z.leb_le; lia). symmetry; apply Z.leb_le; lia.
Qed.

Definition ctl_ok (rs : list records) : Prop :=
  forall b, In (RBatch b) rs -> rb_control b = true -> control_type b <> None.

(* Lemma A: offsets.  [mid] = the stored units of the response. *)
Lemma parse_set_offsets : forall c rs o idx A,
  let mid := flat_map chunk rs in
  Forall wf_sbatch mid -> ordered mid -> Forall (fun x => chunk x <> []) rs ->
  (forall y, hd_error mid = Some y -> o <= hi y) ->
  exists o', parse_set c o idx A rs = (filter (geo o) (select (flags c idx A rs) mid), o', VOk) /\
    (mid = [] -> o' = o) /\ (mid <> [] -> o < o' <= hi (last mid dummy) + 1) /\
    Forall (fun m => cm_offset m < o') (flat_map cands mid).
Proof.
  intros c rs. induction rs as [|x r IH]; intros o idx A mid Hw Ho Hne Hhd.
  - exists o. cbn. repeat split; auto; congruence.
  - subst mid. cbn [flat_map] in *. inversion Hne as [|? ? Hx Hr]; subst.
    apply Forall_app in Hw as [Hwx Hwr]. destruct (ordered_app _ _ Ho) as (Ox & Or & Oxr).
    assert (Hhdx : forall y, hd_error (chunk x) = Some y -> o <= hi y).
    { intros y Hy. apply Hhd. destruct (chunk x); [congruence|]. cbn in *. auto. }
    pose proof (group_step (chunk x) o Hx Hwx Ox Hhdx) as G. cbn zeta in G.
    fold dummy in G. destruct G as (G1 & G2 & G3).
    set (o1 := snd (bump (accept o (flat_map cands (chunk x))))) in *.
    (* the tail starts above everything in chunk x *)
    assert (Htl : forall y, In y (flat_map chunk r) -> o1 <= lo y).
    { intros y Hy. pose proof (last_In _ (chunk x) dummy Hx) as H.
      specialize (Oxr _ _ H Hy). lia. }
    assert (Hhdr : forall y, hd_error (flat_map chunk r) = Some y -> o1 <= hi y).
    { intros y Hy. assert (In y (flat_map chunk r)) by (destruct (flat_map chunk r); cbn in Hy; [congruence|injection Hy as ->; now left]).
      specialize (Htl y H). rewrite Forall_forall in Hwr. pose proof (wf_lo_hi y (Hwr y H)). lia. }
    assert (Habove : forall fl, Forall (fun m => o1 <= cm_offset m) (select fl (flat_map chunk r))).
    { intros fl. rewrite Forall_forall. intros m Hm. apply select_in in Hm as (y & Hy & Hm).
      specialize (Htl y Hy). rewrite Forall_forall in Hwr. destruct (Hwr y Hy) as (_ & Hb & _).
      rewrite Forall_forall in Hb. specialize (Hb m Hm). lia. }
    (* final-offset bookkeeping shared by all branches *)
    assert (Hfin : forall o2, (flat_map chunk r = [] -> o2 = o1) ->
              (flat_map chunk r <> [] -> o1 < o2 <= hi (last (flat_map chunk r) dummy) + 1) ->
              Forall (fun m => cm_offset m < o2) (flat_map cands (flat_map chunk r)) ->
              (chunk x ++ flat_map chunk r = [] -> o2 = o) /\
              (chunk x ++ flat_map chunk r <> [] -> o < o2 <= hi (last (chunk x ++ flat_map chunk r) dummy) + 1) /\
              Forall (fun m => cm_offset m < o2) (flat_map cands (chunk x ++ flat_map chunk r))).
    { intros o2 E1 E2 E3. split; [intros E; apply app_eq_nil in E as [E _]; congruence|]. split.
      - intros _. destruct (flat_map chunk r) eqn:Er.
        + rewrite app_nil_r. rewrite (E1 eq_refl). exact G2.
        + rewrite <- Er in *. assert (flat_map chunk r <> []) by (rewrite Er; congruence).
          rewrite last_app_ne by auto. specialize (E2 H). lia.
      - rewrite flat_map_app. apply Forall_app; split; auto.
        assert (o1 <= o2) by (destruct (flat_map chunk r) eqn:Er; [rewrite (E1 eq_refl); lia | assert (flat_map chunk r <> []) by (rewrite Er; congruence); rewrite <- Er in E2; specialize (E2 H); lia]).
        eapply Forall_impl; [|exact G3]. cbn. intros; lia. }
    destruct x as [p ov bl | b]; cbn [chunk] in *.
    + (* legacy message set *)
      cbn [parse_set flags]. unfold parse_messages. rewrite flat_map_block_cands.
      destruct (bump (accept o (flat_map cands (map SBlock bl)))) as [m o1'] eqn:Eb. cbn [fst snd] in *. subst o1.
      destruct (IH o1' idx A Hwr Or Hr Hhdr) as (o2 & P & E1 & E2 & E3). cbn zeta in P. rewrite P.
      exists o2. rewrite select_app_true, filter_app, G1.
      rewrite (filter_geo_above _ o o1') by (try lia; apply Habove).
      split; [reflexivity|]. apply Hfin; auto.
    + (* record batch *)
      cbn [parse_set flags]. destruct (pop_aborted (rb_first b + rb_lastdelta b) idx A) as [idx1 A1].
      unfold parse_records. change (batch_cands b) with (cands (SBatch b)).
      assert (Ec : flat_map cands [SBatch b] = cands (SBatch b)) by (cbn; now rewrite app_nil_r).
      subst o1. rewrite Ec in *.
      destruct (bump (accept o (cands (SBatch b)))) as [m o1'] eqn:Eb. cbn [fst snd] in *.
      destruct (rb_control b) eqn:Ectl.
      * inversion Hwx as [|? ? Hb _]; subst. destruct Hb as (_ & _ & _ & Hc). destruct (Hc Ectl) as [_ Hct].
        destruct (control_type b) as [t|] eqn:Et; [|congruence].
        destruct (IH o1' idx1 (if t =? 0 then removeZ (rb_pid b) A1 else A1) Hwr Or Hr Hhdr) as (o2 & P & E1 & E2 & E3).
        cbn zeta in P. rewrite P. exists o2. cbn [select app].
        rewrite (filter_geo_above _ o o1') by (try lia; apply Habove).
        split; [reflexivity|]. apply Hfin; auto.
      * destruct (read_committed c && rb_txn b && memZ (rb_pid b) A1) eqn:Edrop; cbn [negb].
        -- destruct (IH o1' idx1 A1 Hwr Or Hr Hhdr) as (o2 & P & E1 & E2 & E3).
           cbn zeta in P. rewrite P. exists o2. cbn [select app].
           rewrite (filter_geo_above _ o o1') by (try lia; apply Habove).
           split; [reflexivity|]. apply Hfin; auto.
        -- destruct (IH o1' idx1 A1 Hwr Or Hr Hhdr) as (o2 & P & E1 & E2 & E3).
           cbn zeta in P. rewrite P. exists o2. cbn [select app]. rewrite filter_app, G1.
           rewrite (filter_geo_above _ o o1') by (try lia; apply Habove).
           split; [reflexivity|]. apply Hfin; auto.
Qed.
