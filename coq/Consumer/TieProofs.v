(* Consumer — the hand model tied to the definitions go/decgen regenerates from consumer.go on every check
   (golden: Gen/DecC03.v): chooseStartingOffset's switch and the fetch-size escalation block of parseResponse. *)
From Coq Require Import List ZArith Bool Lia String.
From SV Require Import Gen.GoInt Gen.DecTypes Gen.DecC03 Consumer.Parse.
Import ListNotations.
Open Scope Z_scope.

(* with both offset queries answered, the generated function is the model's choose_start *)
Lemma tie_choose_start : forall child_offset req newest oldest,
  choose_starting_offset child_offset req newest ENil oldest ENil =
  match choose_start req oldest newest with Some o => (o, ENil) | None => (child_offset, EK 1) end.
Proof.
  intros. unfold choose_starting_offset, choose_start, offset_newest, offset_oldest. cbn [gerr_eqb negb].
  destruct (req =? -1); [reflexivity|]. destruct (req =? -2); [reflexivity|].
  rewrite Z.geb_leb. destruct ((oldest <=? req) && (req <=? newest)); reflexivity.
Qed.

(* a failing offset query leaves child.offset alone and is returned *)
Lemma tie_choose_start_error : forall child_offset req newest oldest e1 e2,
  (e1 <> ENil -> choose_starting_offset child_offset req newest e1 oldest e2 = (child_offset, e1)) /\
  (e2 <> ENil -> choose_starting_offset child_offset req newest ENil oldest e2 = (child_offset, e2)).
Proof.
  intros. unfold choose_starting_offset. split; intros H.
  - destruct (gerr_eqb e1 ENil) eqn:E; [|reflexivity]. apply gerr_eqb_eq in E. contradiction.
  - cbn [gerr_eqb negb]. destruct (gerr_eqb e2 ENil) eqn:E; [|reflexivity]. apply gerr_eqb_eq in E. contradiction.
Qed.

(* the generated escalation block is the model's partial-trailing branch: ErrMessageTooLarge + offset++ when
   Fetch.Max is reached, [grow] otherwise (offset + 1 inside int64) *)
Lemma tie_fetch_size : forall c fs off, -9223372036854775808 <= off + 1 < 9223372036854775808 ->
  fetch_size_escalation fs off (fetch_max c) =
  if (0 <? fetch_max c) && (fs =? fetch_max c)
  then (fs, off + 1, [CA_send_error (EVar "ErrMessageTooLarge"%string)], @ExFall unit)
  else (grow c fs, off, [], @ExFall unit).
Proof.
  intros c fs off Hr. unfold fetch_size_escalation, grow, max_int32. rewrite !Z.gtb_ltb.
  destruct ((0 <? fetch_max c) && (fs =? fetch_max c)); [now rewrite wrap64_small|].
  change (GoInt.wrap32 (fs * 2)) with (Parse.wrap32 (fs * 2)).
  destruct (Parse.wrap32 (fs * 2) <? 0); reflexivity.
Qed.
