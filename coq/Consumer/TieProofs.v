(* Consumer — the hand model tied to the definitions go/decgen regenerates from consumer.go on every check
   (golden: Gen/DecC03.v): chooseStartingOffset's switch and the fetch-size escalation block of parseResponse. *)
From Coq Require Import String List ZArith Bool Lia.
From SV Require Import Gen.GoInt Gen.DecTypes Gen.DecTypes2 Gen.DecC03 Gen.DecC11 Consumer.Parse Consumer.Log.
Import ListNotations.
Open Scope Z_scope.

(* with both offset queries answered, the generated function is the model's choose_start *)
Lemma tie_choose_start : forall child_offset req newest oldest,
  choose_starting_offset child_offset req newest ENil oldest ENil =
  match choose_start req oldest newest with Some o => (o, ENil) | None => (child_offset, EK 1) end.
Proof.
  intros. unfold choose_starting_offset, choose_start, offset_newest, offset_oldest. cbn [gerr_eqb negb].
  destruct (req =? -1); [reflexivity|]. destruct (req =? -2); [reflexivity|].
  rewrite Z.geb_leb. destruct ((oldest <=? req) && (req <=? newest)); reflexivity.
Qed.

(* a failing offset query leaves child.offset alone and is returned *)
Lemma tie_choose_start_error : forall child_offset req newest oldest e1 e2,
  (e1 <> ENil -> choose_starting_offset child_offset req newest e1 oldest e2 = (child_offset, e1)) /\
  (e2 <> ENil -> choose_starting_offset child_offset req newest ENil oldest e2 = (child_offset, e2)).
Proof.
  intros. unfold choose_starting_offset. split; intros H.
  - destruct (gerr_eqb e1 ENil) eqn:E; [|reflexivity]. apply gerr_eqb_eq in E. contradiction.
  - cbn [gerr_eqb negb]. destruct (gerr_eqb e2 ENil) eqn:E; [|reflexivity]. apply gerr_eqb_eq in E. contradiction.
Qed.

(* the generated escalation block is the model's partial-trailing branch: ErrMessageTooLarge + offset++ when
   Fetch.Max is reached, [grow] otherwise (offset + 1 inside int64) *)
Lemma tie_fetch_size : forall c fs off, -9223372036854775808 <= off + 1 < 9223372036854775808 ->
  fetch_size_escalation fs off (fetch_max c) =
  if (0 <? fetch_max c) && (fs =? fetch_max c)
  then (fs, off + 1, [CA_send_error (EVar "ErrMessageTooLarge"%string)], @ExFall unit)
  else (grow c fs, off, [], @ExFall unit).
Proof.
  intros c fs off Hr. unfold fetch_size_escalation, grow, max_int32. rewrite !Z.gtb_ltb.
  destruct ((0 <? fetch_max c) && (fs =? fetch_max c)); [now rewrite wrap64_small|].
  change (GoInt.wrap32 (fs * 2)) with (Parse.wrap32 (fs * 2)).
  destruct (Parse.wrap32 (fs * 2) <? 0); reflexivity.
Qed.

Open Scope list_scope.

(* ------------------------------------------------------------------ parseRecords / parseMessages loops *)
Definition in64 (z : Z) : Prop := -9223372036854775808 <= z < 9223372036854775807.   (* z and z + 1 fit int64 *)

Lemma w64 : forall z, in64 z -> wrap64 z = z /\ wrap64 (z + 1) = z + 1.
Proof. intros z H. unfold in64 in H. split; apply wrap64_small; lia. Qed.

Lemma zlen_app_nil : forall (a b : list Z), (zlen (a ++ b) =? 0) = (zlen a =? 0) && (zlen b =? 0).
Proof.
  intros [|x a] b; cbn [app]; [reflexivity|]. unfold zlen. cbn [List.length].
  assert (forall n, Z.of_nat (S n) =? 0 = false) as H by (intros; apply Z.eqb_neq; lia). now rewrite !H.
Qed.

(* the generated loop of parseRecords = accept over the batch's candidates, on an accumulator *)
Lemma tie_parse_records_loop : forall (b : rbatch) recs o acc (all : list Z) lat,
  Forall (fun r => in64 (rb_first b + rc_delta r)) recs ->
  parse_records_loop1 (map rc_delta recs) o (rb_first b) all lat acc =
  let '(m, o') := accept o (map (batch_cand b) recs) in
  (if zlen (acc ++ offs m) =? 0 then wrap64 (o' + 1) else o', acc ++ offs m, ENil).
Proof.
  intros b recs. induction recs as [|r t IH]; intros o acc all lat Hf; cbn [map parse_records_loop1 accept].
  - cbn [offs map]. now rewrite app_nil_r.
  - inversion Hf as [|? ? Hr Ht]; subst. destruct (w64 _ Hr) as [W1 W2]. rewrite W1. cbn [batch_cand cm_offset].
    destruct (rb_first b + rc_delta r <? o) eqn:E.
    + apply IH; auto.
    + rewrite W2, IH by auto. destruct (accept (rb_first b + rc_delta r + 1) (map (batch_cand b) t)) as [m o'].
      cbn [offs map cm_offset batch_cand]. now rewrite <- app_assoc.
Qed.

Lemma tie_parse_records : forall (b : rbatch) o,
  Forall (fun r => in64 (rb_first b + rc_delta r)) (rb_recs b) -> in64 o ->
  DecC03.parse_records o (rb_first b) (map rc_delta (rb_recs b)) (rb_logappend b) =
  (snd (Parse.parse_records o b), offs (fst (Parse.parse_records o b)), ENil).
Proof.
  intros b o Hf Ho. unfold DecC03.parse_records, Parse.parse_records, batch_cands, bump.
  rewrite tie_parse_records_loop by auto. destruct (accept o (map (batch_cand b) (rb_recs b))) as [m o'] eqn:Ea.
  cbn [app fst snd]. destruct m as [|x m'].
  - cbn. f_equal. f_equal. (* nothing accepted: accept leaves the offset alone *)
    assert (o' = o).
    { clear -Ea. revert o o' Ea. induction (map (batch_cand b) (rb_recs b)) as [|c r IH]; cbn; intros o o' E; [congruence|].
      destruct (cm_offset c <? o); [eauto|]. destruct (accept (cm_offset c + 1) r); discriminate. }
    subst. apply (w64 _ Ho).
  - cbn [offs map]. assert (zlen (cm_offset x :: map cm_offset m') =? 0 = false) as -> by (unfold zlen; cbn [length]; apply Z.eqb_neq; lia).
    reflexivity.
Qed.

Definition lmsg_triple (m : lmsg) : Z * Z * bool := (lm_offset m, lm_version m, lm_logappend m).

(* the generated loop over msgBlock.Messages() = accept over the block's candidates (the `len(messages)==0` rule
   is outside the loop, over the whole set) *)
Lemma tie_parse_messages_inner_loop : forall (b : lblock) ms o acc (all : list (Z * Z * bool)),
  Forall (fun m => in64 (lm_offset (lb_own b) - last_offset (block_msgs b)) /\ in64 (cm_offset (legacy_cand b m))) ms ->
  parse_messages_inner_loop1 (map lmsg_triple ms) o acc all (lm_offset (lb_own b)) (last_offset (block_msgs b)) =
  let '(m, o') := accept o (map (legacy_cand b) ms) in (o', acc ++ offs m, @ExFall unit).
Proof.
  intros b ms. induction ms as [|x t IH]; intros o acc all Hf; cbn [map parse_messages_inner_loop1 accept].
  - cbn. now rewrite app_nil_r.
  - inversion Hf as [|? ? [Hb Hc] Ht]; subst. cbn [lmsg_triple fst snd]. rewrite Z.geb_leb.
    assert (Eoff : (if 1 <=? lm_version x
                    then (wrap64 (lm_offset x + wrap64 (lm_offset (lb_own b) - last_offset (block_msgs b))), tt)
                    else (lm_offset x, tt)) = (cm_offset (legacy_cand b x), tt)).
    { unfold legacy_cand. cbn [cm_offset]. destruct (1 <=? lm_version x) eqn:Ev; [|reflexivity].
      destruct (w64 _ Hb) as [W1 _]. rewrite W1. unfold legacy_cand in Hc. cbn [cm_offset] in Hc. rewrite Ev in Hc.
      destruct (w64 _ Hc) as [W2 _]. now rewrite W2. }
    destruct (lm_logappend x); rewrite Eoff; destruct (w64 _ Hc) as [_ W3];
      (destruct (cm_offset (legacy_cand b x) <? o) eqn:E;
       [apply IH; auto
       |rewrite W3, IH by auto; destruct (accept (cm_offset (legacy_cand b x) + 1) (map (legacy_cand b) t)) as [m o'];
        cbn [offs map]; now rewrite <- app_assoc]).
Qed.

Lemma tie_parse_messages_inner : forall (b : lblock) o acc,
  Forall (fun m => in64 (lm_offset (lb_own b) - last_offset (block_msgs b)) /\ in64 (cm_offset (legacy_cand b m))) (block_msgs b) ->
  parse_messages_inner o acc (map lmsg_triple (block_msgs b)) (lm_offset (lb_own b)) (last_offset (block_msgs b)) =
  (snd (accept o (block_cands b)), acc ++ offs (fst (accept o (block_cands b))), @ExFall unit).
Proof.
  intros b o acc Hf. unfold parse_messages_inner, block_cands. rewrite tie_parse_messages_inner_loop by auto.
  now destruct (accept o (map (legacy_cand b) (block_msgs b))).
Qed.

(* ------------------------------------------------------------------ C11: aborted walk, batch verdict, kept Records, sort order *)
Definition swap (e : Z * Z) : Z * Z := (snd e, fst e).     (* model entries are (pid, first); the generated ones (first, pid) *)

(* the generated consumption loop = pop_aborted: the same entries leave, their pids are marked in that order *)
Fixpoint popped (last : Z) (idx : list (Z * Z)) : list Z :=
  match idx with [] => [] | (p, f) :: r => if last <? f then [] else p :: popped last r end.

Lemma pop_aborted_popped : forall idx last A, snd (pop_aborted last idx A) = rev (popped last idx) ++ A.
Proof.
  induction idx as [|[p f] r IH]; intros last A; cbn [pop_aborted popped]; auto.
  destruct (last <? f); cbn; auto. rewrite IH. cbn. now rewrite <- app_assoc.
Qed.

Lemma tie_consume_aborted_loop : forall idx last acts,
  consume_aborted_loop1 (map swap idx) (map swap idx) last acts =
  (map swap (fst (pop_aborted last idx [])), acts ++ map CT_begin_aborted (popped last idx), @ExFall unit).
Proof.
  induction idx as [|[p f] r IH]; intros last acts; cbn [map consume_aborted_loop1 pop_aborted popped swap fst snd].
  - now rewrite app_nil_r.
  - rewrite Z.gtb_ltb. destruct (last <? f) eqn:E.
    + cbn [fst map swap snd]. now rewrite app_nil_r.
    + cbn [skipn Z.to_nat Pos.to_nat Pos.iter_op Nat.add]. rewrite IH. cbn [map]. rewrite <- app_assoc. cbn [app].
      f_equal. f_equal. f_equal.
      (* the remaining index does not depend on the accumulated pid set *)
      clear. generalize (@nil Z) at 1. generalize [p]. induction r as [|[q g] t IHt]; intros a b; cbn [pop_aborted]; auto.
      destruct (last <? g); auto.
Qed.

Lemma tie_consume_aborted : forall idx last A,
  consume_aborted (map swap idx) last =
  (map swap (fst (pop_aborted last idx A)), map CT_begin_aborted (popped last idx), @ExFall unit) /\
  snd (pop_aborted last idx A) = rev (popped last idx) ++ A.
Proof.
  intros idx last A. split; [|apply pop_aborted_popped]. unfold consume_aborted. rewrite tie_consume_aborted_loop. cbn [app].
  f_equal. f_equal. f_equal. clear. generalize (@nil Z). revert A. induction idx as [|[q g] t IH]; intros a b; cbn [pop_aborted]; auto.
  destruct (last <? g); auto.
Qed.

(* the generated per-batch verdict is the model's loop body: control batches are never exposed and an abort marker
   ends the producer's aborted range; under ReadCommitted a transactional batch of a marked producer is dropped *)
Definition iso_of (c : cfg) : Z := if read_committed c then 1 else 0.

Lemma tie_batch_verdict_data : forall c is_aborted is_txn t,
  batch_verdict ENil false ENil (iso_of c) ENil t is_aborted is_txn =
  (ENil, [], if read_committed c && is_txn && is_aborted then @ExContinue (list Z * gerr) else @ExFall (list Z * gerr)).
Proof.
  intros c ab tx t. unfold batch_verdict, iso_of. cbn [gerr_eqb negb]. destruct (read_committed c); cbn [Z.eqb andb]; auto.
  destruct (tx && ab); reflexivity.
Qed.

Lemma tie_batch_verdict_control : forall c is_aborted is_txn t,
  batch_verdict ENil true ENil (iso_of c) ENil t is_aborted is_txn =
  (ENil, (if t =? 0 then [CT_end_aborted] else []), @ExContinue (list Z * gerr)).
Proof. intros. unfold batch_verdict. cbn [gerr_eqb negb]. destruct (t =? 0); reflexivity. Qed.

Lemma tie_batch_verdict_control_error : forall c e is_aborted is_txn t, e <> ENil ->
  batch_verdict ENil true ENil (iso_of c) e t is_aborted is_txn = (e, [], @ExReturn (list Z * gerr) ([], e)).
Proof.
  intros c e ab tx t He. unfold batch_verdict. cbn [gerr_eqb negb]. destruct (gerr_eqb e ENil) eqn:E; [|reflexivity].
  apply gerr_eqb_eq in E. contradiction.
Qed.

(* parse_set's step for a record batch, phrased with the generated verdict *)
Lemma tie_parse_set_batch : forall c o idx A b r,
  parse_set c o idx A (RBatch b :: r) =
  let '(idx1, A1) := pop_aborted (rb_first b + rb_lastdelta b) idx A in
  let '(m, o1) := Parse.parse_records o b in
  if rb_control b then
    match control_type b with
    | None => ([], o1, VCtrlErr)
    | Some t => match snd (fst (batch_verdict ENil true ENil (iso_of c) ENil t (memZ (rb_pid b) A1) (rb_txn b))) with
                | [CT_end_aborted] => parse_set c o1 idx1 (removeZ (rb_pid b) A1) r
                | _ => parse_set c o1 idx1 A1 r
                end
    end
  else
    match snd (batch_verdict ENil false ENil (iso_of c) ENil 0 (memZ (rb_pid b) A1) (rb_txn b)) with
    | ExContinue => parse_set c o1 idx1 A1 r
    | _ => let '(ms, o2, v) := parse_set c o1 idx1 A1 r in
           match v with VOk => (m ++ ms, o2, VOk) | _ => ([], o2, v) end
    end.
Proof.
  intros. cbn [parse_set]. destruct (pop_aborted (rb_first b + rb_lastdelta b) idx A) as [idx1 A1].
  destruct (Parse.parse_records o b) as [m o1]. destruct (rb_control b).
  - destruct (control_type b) as [t|]; auto. rewrite tie_batch_verdict_control. cbn [fst snd]. destruct (t =? 0); reflexivity.
  - rewrite tie_batch_verdict_data. cbn [snd]. destruct (read_committed c && rb_txn b && memZ (rb_pid b) A1); reflexivity.
Qed.

(* FetchResponseBlock.decode keeps a Records element iff it has records, or it is a partial first one: every kept
   element after the first has records (the shape the faithful-fetch hypothesis relies on) *)
Lemma tie_keep_records : forall rs n partial id first_unset,
  keep_records rs n partial id first_unset =
  (if (0 <? n) || (partial && (zlen rs =? 0)) then rs ++ [id] else rs,
   if (0 <? n) || (partial && (zlen rs =? 0)) then (if first_unset then [FB_set_first] else []) else [],
   @ExFall gerr).
Proof.
  intros. unfold keep_records. rewrite Z.gtb_ltb. destruct ((0 <? n) || (partial && (zlen rs =? 0))); [|reflexivity].
  destruct first_unset; reflexivity.
Qed.

Lemma tie_keep_records_later : forall rs n partial id fu, rs <> [] ->
  fst (fst (keep_records rs n partial id fu)) = rs ++ [id] -> 0 < n.
Proof.
  intros rs n partial id fu Hne. rewrite tie_keep_records. cbn [fst].
  assert (zlen rs =? 0 = false) as -> by (destruct rs; [congruence|unfold zlen; cbn [List.length]; apply Z.eqb_neq; lia]).
  rewrite andb_false_r, orb_false_r. destruct (0 <? n) eqn:E; [intros _; now apply Z.ltb_lt|].
  intros H. exfalso. assert (List.length rs = List.length (rs ++ [id])) by (now rewrite <- H). rewrite List.app_length in H0. cbn in H0. lia.
Qed.

(* the comparator of getAbortedTransactions orders by first offset; the model's sort_idx output is sorted for it *)
Lemma tie_aborted_less : forall i j fi fj, aborted_less i j fi fj = (fi <? fj).
Proof. reflexivity. Qed.

From Coq Require Import Sorting.Sorted.
From SV Require Import Consumer.ParseProofs Consumer.TxnProofs.

Lemma tie_sort_idx : forall l i j,
  StronglySorted (fun a b => aborted_less i j (snd b) (snd a) = false) (sort_idx l) /\ (forall x, In x (sort_idx l) <-> In x l).
Proof.
  intros l i j. split; [|intros x; apply sort_idx_In].
  pose proof (sort_idx_sorted l) as H. induction H as [|a r Hs IH Hall]; constructor; auto.
  eapply Forall_impl; [|exact Hall]. intros b Hb. unfold le_snd in Hb. rewrite tie_aborted_less. apply Z.ltb_ge. lia.
Qed.
