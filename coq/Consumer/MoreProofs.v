(* Consumer — proofs, part 4: progress, fetch-size growth, the oversized-batch skip, legacy rebase, starting
   offset, and the readable characterisations of [visible] used by the C11 statements; plus the Examples
   showing that the hypotheses of the main theorems are satisfiable on non-trivial logs. *)
From Coq Require Import List ZArith Bool Lia Sorting.Sorted.
From SV Require Import Consumer.Parse Consumer.Log Consumer.ParseProofs Consumer.TxnProofs Consumer.RunProofs.
Import ListNotations.
Open Scope Z_scope.

(* ------------------------------------------------------------------ progress *)
Lemma wrap32_small : forall x, -2147483648 <= x <= 2147483647 -> wrap32 x = x.
Proof. intros x H. unfold wrap32. rewrite Z.mod_small; lia. Qed.

Lemma wrap32_double_big : forall f, 1073741824 <= f <= 2147483647 -> wrap32 (f * 2) < 0.
Proof.
  intros f H. unfold wrap32.
  assert ((f * 2 + 2147483648) mod 4294967296 = f * 2 + 2147483648 - 4294967296).
  { symmetry. apply Z.mod_unique with (q := 1); lia. }
  lia.
Qed.

(* fetchSize *= 2, int32 overflow -> MaxInt32, capped by Fetch.Max *)
Lemma grow_spec : forall c f, 0 < f <= max_int32 -> 0 <= fetch_max c ->
  grow c f = (if 0 <? fetch_max c then Z.min (Z.min (2 * f) max_int32) (fetch_max c) else Z.min (2 * f) max_int32).
Proof.
  intros c f Hf Hm. unfold grow, max_int32 in *.
  destruct (Z_lt_ge_dec f 1073741824) as [Hs|Hb].
  - rewrite wrap32_small by lia. assert (f * 2 <? 0 = false) as -> by (apply Z.ltb_ge; lia).
    destruct (0 <? fetch_max c) eqn:E0; cbn [andb].
    + destruct (fetch_max c <? f * 2) eqn:E1; [apply Z.ltb_lt in E1|apply Z.ltb_ge in E1]; lia.
    + lia.
  - pose proof (wrap32_double_big f ltac:(lia)) as Hn. assert (wrap32 (f * 2) <? 0 = true) as -> by (now apply Z.ltb_lt).
    destruct (0 <? fetch_max c) eqn:E0; cbn [andb].
    + destruct (fetch_max c <? 2147483647) eqn:E1; [apply Z.ltb_lt in E1|apply Z.ltb_ge in E1]; lia.
    + lia.
Qed.

Lemma grow_increases : forall c f, 0 < f < max_int32 -> 0 <= fetch_max c ->
  (fetch_max c = 0 \/ f < fetch_max c) -> f < grow c f <= max_int32.
Proof.
  intros c f Hf Hm Hc. rewrite grow_spec by (unfold max_int32 in *; lia). unfold max_int32 in *.
  destruct (0 <? fetch_max c) eqn:E0; [apply Z.ltb_lt in E0|apply Z.ltb_ge in E0]; lia.
Qed.

Section Progress.
  Variable size : sbatch -> Z.
  Variables (c : cfg) (log : list sbatch) (es : list entry).
  Hypothesis Hwf : wf_log log.
  Hypothesis Hmax : 0 <= fetch_max c.
  Hypothesis Hindex : read_committed c = true -> index_wf log es /\ index_complete log es.

  (* a faithful response with at least one whole batch strictly advances the offset, past everything in it *)
  Lemma data_progress : forall s r msgs s1 v errs, data c log es s r -> parse_response c s r = (msgs, s1, v, errs) ->
    v = VOk /\ errs = [] /\ offset s < offset s1 /\
    (forall b, rs_block r = Some b ->
       Forall (fun m => cm_offset m < offset s1) (flat_map cands (flat_map chunk (bl_set b)))).
  Proof.
    intros s r msgs s1 v errs Hd E.
    assert (Hf : fits (fun _ => 0) c log) by (right; intros; lia).
    assert (HI : Inv c log (offset s) s []) by (now apply Inv_init).
    destruct (data_step (fun _ => 0) c log es (offset s) Hwf Hf Hindex s r msgs s1 v errs [] Hd E HI) as (_ & H1 & H2 & H3 & H4).
    auto.
  Qed.

  (* only the beginning of a batch: nothing delivered, offset kept, fetch size grown *)
  Lemma partial_progress : forall s r msgs s1 v errs, fits size c log -> partial_only size log s r ->
    parse_response c s r = (msgs, s1, v, errs) -> 0 < fetch_size s < max_int32 ->
    msgs = [] /\ offset s1 = offset s /\ errs = [] /\ fetch_size s < fetch_size s1 <= max_int32.
  Proof.
    intros s r msgs s1 v errs Hf Hp E Hfs. destruct (partial_noskip size c log Hf s r msgs s1 v errs Hp E) as (A & B & C & _ & D).
    repeat split; auto; rewrite D.
    - apply grow_increases; auto. destruct Hp as (b & y & _ & _ & _ & _ & _ & Hy & Hsz).
      destruct Hf as [H0|Hall]; [now left|right]. specialize (Hall y Hy). lia.
    - apply grow_increases; auto. destruct Hp as (b & y & _ & _ & _ & _ & _ & Hy & Hsz).
      destruct Hf as [H0|Hall]; [now left|right]. specialize (Hall y Hy). lia.
  Qed.

  (* outside the hypothesis: Fetch.Max reached and still only a partial batch: ErrMessageTooLarge is handed to
     sendError and exactly one offset is stepped over *)
  Lemma oversized_skip : forall s r b, rs_block r = Some b -> (rs_throttle r = 0 \/ rs_noblocks r = false) -> bl_err b = 0 ->
    n_records b = 0 -> is_partial b = true -> 0 < fetch_max c -> fetch_size s = fetch_max c ->
    exists s1, parse_response c s r = ([], s1, VOk, [err_message_too_large]) /\ offset s1 = offset s + 1 /\ fetch_size s1 = fetch_size s.
  Proof.
    intros s r b Hb Hthr He Hn Hp H0 Hfs. unfold parse_response.
    assert (negb (rs_throttle r =? 0) && rs_noblocks r = false) as -> by (destruct Hthr as [-> | ->]; [cbn; auto|now rewrite andb_false_r]).
    rewrite Hb, He, Hn, Hp. cbn [negb Z.eqb].
    assert ((0 <? fetch_max c) && (fetch_size s =? fetch_max c) = true) as ->.
    { apply andb_true_iff; split; [now apply Z.ltb_lt|now apply Z.eqb_eq]. }
    eexists. split; [reflexivity|]. cbn. auto.
  Qed.
End Progress.

(* ------------------------------------------------------------------ legacy rebase *)
(* v1 inner offsets are rebased on the wrapper offset; v0 inner offsets are taken as they are *)
Lemma legacy_rebase_v1 : forall b m, In m (block_msgs b) -> 1 <= lm_version m ->
  cm_offset (legacy_cand b m) = lm_offset m + (lm_offset (lb_own b) - last_offset (block_msgs b)).
Proof. intros b m _ Hv. unfold legacy_cand. cbn. now assert (1 <=? lm_version m = true) as -> by (now apply Z.leb_le). Qed.

Lemma legacy_rebase_v0 : forall b m, In m (block_msgs b) -> lm_version m < 1 ->
  cm_offset (legacy_cand b m) = lm_offset m.
Proof. intros b m _ Hv. unfold legacy_cand. cbn. now assert (1 <=? lm_version m = false) as -> by (now apply Z.leb_gt). Qed.

(* relative inner offsets 0, 1, .., n-1 (what a broker writes for v1): the i-th inner message gets
   wrapper offset - (n-1) + i, the last one the wrapper offset itself *)
Fixpoint rel_msgs (i : Z) (ps : list (option bytes * option bytes)) : list lmsg :=
  match ps with [] => [] | (k, v) :: r => Build_lmsg i 1 false 0 k v :: rel_msgs (i + 1) r end.

Lemma rel_msgs_last : forall ps i d, ps <> [] -> lm_offset (last (rel_msgs i ps) d) = i + Z.of_nat (length ps) - 1.
Proof.
  induction ps as [|[k v] r IH]; intros i d Hne; [congruence|]. destruct r as [|x r'].
  - cbn. lia.
  - change (rel_msgs i ((k, v) :: x :: r')) with (Build_lmsg i 1 false 0 k v :: rel_msgs (i + 1) (x :: r')).
    assert (rel_msgs (i + 1) (x :: r') <> []) by (destruct x; cbn; congruence).
    destruct (rel_msgs (i + 1) (x :: r')) eqn:E; [congruence|]. rewrite <- E.
    change (last (Build_lmsg i 1 false 0 k v :: rel_msgs (i + 1) (x :: r')) d) with (last (rel_msgs (i + 1) (x :: r')) d) at 1 || idtac.
    cbn [last]. rewrite E. rewrite <- E. rewrite IH by congruence. cbn [length]. lia.
Qed.

Lemma rel_msgs_offsets : forall ps i base,
  map (fun m => lm_offset m + base) (rel_msgs i ps) = map (fun j => i + base + Z.of_nat j) (seq 0 (length ps)).
Proof.
  induction ps as [|[k v] r IH]; intros i base; cbn [rel_msgs map length seq]; auto.
  f_equal; [cbn; lia|]. rewrite IH, <- seq_shift, map_map. apply map_ext. intros j. lia.
Qed.

Lemma legacy_rebase_relative : forall own ps, ps <> [] ->
  let b := Build_lblock own (Some (rel_msgs 0 ps)) in
  offs (block_cands b) = map (fun j => lm_offset own - (Z.of_nat (length ps) - 1) + Z.of_nat j) (seq 0 (length ps)).
Proof.
  intros own ps Hne b. unfold offs, block_cands. rewrite map_map. subst b. cbn [block_msgs lb_inner].
  transitivity (map (fun m => lm_offset m + (lm_offset own - (0 + Z.of_nat (length ps) - 1))) (rel_msgs 0 ps)).
  - apply map_ext_in. intros m Hm. unfold legacy_cand. cbn [cm_offset block_msgs lb_inner lb_own].
    assert (lm_version m = 1) as Hv.
    { clear -Hm. revert Hm. generalize 0. induction ps as [|[k v] r IH]; intros i Hm; [contradiction|].
      destruct Hm as [<-|Hm]; [reflexivity|eauto]. }
    rewrite Hv. cbn [Z.leb]. unfold last_offset. now rewrite rel_msgs_last.
  - rewrite rel_msgs_offsets. apply map_ext. intros j. lia.
Qed.

(* ------------------------------------------------------------------ chooseStartingOffset *)
Lemma choose_start_spec : forall req oldest newest,
  choose_start req oldest newest =
    if Z.eq_dec req offset_newest then Some newest
    else if Z.eq_dec req offset_oldest then Some oldest
    else if Z_le_dec oldest req then (if Z_le_dec req newest then Some req else None) else None.
Proof.
  intros. unfold choose_start. destruct (Z.eq_dec req offset_newest) as [->|H1]; [now rewrite Z.eqb_refl|].
  assert (req =? offset_newest = false) as -> by (now apply Z.eqb_neq).
  destruct (Z.eq_dec req offset_oldest) as [->|H2]; [now rewrite Z.eqb_refl|].
  assert (req =? offset_oldest = false) as -> by (now apply Z.eqb_neq).
  destruct (Z_le_dec oldest req) as [H3|H3], (Z_le_dec req newest) as [H4|H4];
    try (assert (oldest <=? req = true) as -> by (now apply Z.leb_le));
    try (assert (oldest <=? req = false) as -> by (apply Z.leb_gt; lia));
    try (assert (req <=? newest = true) as -> by (now apply Z.leb_le));
    try (assert (req <=? newest = false) as -> by (apply Z.leb_gt; lia)); reflexivity.
Qed.

Lemma choose_start_literal : forall req oldest newest o, req <> offset_newest -> req <> offset_oldest ->
  (choose_start req oldest newest = Some o <-> o = req /\ oldest <= req <= newest) /\
  (choose_start req oldest newest = None <-> ~ (oldest <= req <= newest)).
Proof.
  intros req oldest newest o H1 H2. rewrite choose_start_spec.
  destruct (Z.eq_dec req offset_newest); [contradiction|]. destruct (Z.eq_dec req offset_oldest); [contradiction|].
  destruct (Z_le_dec oldest req), (Z_le_dec req newest); split; split; intros H; try discriminate; try lia;
    try (injection H as <-; lia); try (destruct H as [-> _]; reflexivity); try reflexivity; try (exfalso; lia).
Qed.

(* ------------------------------------------------------------------ what [visible] is *)
Lemma visible_in : forall c log m, In m (visible c log) <->
  exists pre s rest, log = pre ++ s :: rest /\ deliverable c rest s = true /\ In m (cands s).
Proof.
  intros c log m. induction log as [|s r IH]; cbn [visible].
  - split; [contradiction|]. intros (pre & s & rest & E & _). destruct pre; discriminate.
  - rewrite in_app_iff, IH. split.
    + intros [H|(pre & s' & rest & E & D & Hm)].
      * destruct (deliverable c r s) eqn:D; [|contradiction]. exists [], s, r. auto.
      * exists (s :: pre), s', rest. subst r. auto.
    + intros (pre & s' & rest & E & D & Hm). destruct pre as [|x pre]; cbn in E; injection E as -> ->.
      * left. now rewrite D.
      * right. exists pre, s', rest. auto.
Qed.

(* a delivered unit is never a control batch; under ReadCommitted it is not part of an aborted transaction *)
Lemma deliverable_spec : forall c rest s, deliverable c rest s = true <->
  match s with
  | SBlock _ => True
  | SBatch b => rb_control b = false /\
                (read_committed c = true -> rb_txn b = true -> next_marker (rb_pid b) rest <> Some 0)
  end.
Proof.
  intros c rest [b|b]; cbn [deliverable]; [|tauto]. unfold aborted_fate.
  destruct (rb_control b); cbn [negb andb]; [split; [discriminate|intros [H _]; discriminate]|].
  destruct (read_committed c); cbn [andb negb]; [|split; [intros _; split; [reflexivity|discriminate]|reflexivity]].
  destruct (rb_txn b); cbn [andb negb]; [|split; [intros _; split; [reflexivity|discriminate]|reflexivity]].
  destruct (next_marker (rb_pid b) rest) as [[|?|?]|]; cbn [negb]; split; intros H; try reflexivity; try discriminate;
    try (split; [reflexivity|intros _ _; discriminate]).
  destruct H as [_ H]. exfalso. now apply H.
Qed.

(* when every transaction is decided, "not aborted" is "committed" *)
Lemma decided_committed : forall rest b, rb_txn b = true -> next_marker (rb_pid b) rest <> None ->
  (next_marker (rb_pid b) rest <> Some 0 <-> committed_fate rest b = true).
Proof.
  intros rest b Ht Hd. unfold committed_fate. rewrite Ht. cbn [andb].
  assert (Hm : forall p l t, next_marker p l = Some t -> t = 0 \/ t = 1).
  { intros p l. induction l as [|[x|x] l IH]; cbn; intros t H; try discriminate; auto.
    destruct (marker_of x) as [t'|] eqn:E; auto. destruct (rb_pid x =? p); auto. injection H as ->.
    unfold marker_of in E. destruct (rb_control x); [|discriminate]. destruct (control_type x) as [u|]; [|discriminate].
    destruct ((u =? 0) || (u =? 1)) eqn:E2; [|discriminate]. injection E as ->. apply orb_true_iff in E2 as [E2|E2]; apply Z.eqb_eq in E2; auto. }
  destruct (next_marker (rb_pid b) rest) as [t|] eqn:E; [|congruence]. destruct (Hm _ _ _ E) as [->| ->]; split; intros H; try congruence; auto.
Qed.

(* ReadUncommitted: all data records, whatever happened to their transaction *)
Lemma visible_uncommitted : forall c log, read_committed c = false ->
  visible c log = flat_map (fun s => match s with SBatch b => if rb_control b then [] else cands s | SBlock _ => cands s end) log.
Proof.
  intros c log Hrc. induction log as [|s r IH]; cbn [visible flat_map]; auto. rewrite IH. f_equal.
  destruct s as [b|b]; cbn [deliverable]; auto. rewrite Hrc. cbn [andb negb]. rewrite andb_true_r. now destruct (rb_control b).
Qed.

(* ------------------------------------------------------------------ Examples: the hypotheses are satisfiable *)
Definition rec0 (d : Z) (v : Z) : record := Build_record d 0 (Some [v]) (Some [v; v]) [].
Definition data_batch (first lastd pid : Z) (txn : bool) (rs : list record) : sbatch :=
  SBatch (Build_rbatch first lastd 1000 1060 false pid txn false false rs).
Definition marker_batch (off pid typ : Z) : sbatch :=
  SBatch (Build_rbatch off 0 1000 1000 false pid true true false [Build_record 0 0 (Some [0; 0; 0; typ]) (Some [0; 0; 0; 0; 0; 7]) []]).

(* a compacted log: batch [10..14] kept records 10 and 12, batch [15..19] kept 17, then a legacy-free tail *)
Definition holes_log : list sbatch :=
  [data_batch 10 4 (-1) false [rec0 0 1; rec0 2 2]; data_batch 15 4 (-1) false [rec0 2 3]; data_batch 22 1 (-1) false [rec0 0 4; rec0 1 5]].

Ltac wf_tac := repeat split; cbn; repeat constructor; cbn; try lia; try discriminate; try congruence.

Example holes_log_wf : wf_log holes_log.
Proof. unfold holes_log, wf_log. split; [repeat constructor|]; wf_tac. Qed.

(* a fetch at offset 13 (inside the first batch, in a hole) answered with the first two batches is faithful,
   and the model delivers exactly record 17 and moves to 20 (then 22.. with the next fetch) *)
Definition holes_resp : response :=
  Build_response 0 false (Some (Build_block 0 24 false [] (-1)
    [RBatch (Build_rbatch 10 4 1000 1060 false (-1) false false false [rec0 0 1; rec0 2 2]);
     RBatch (Build_rbatch 15 4 1000 1060 false (-1) false false false [rec0 2 3])])).
Definition cfg0 : cfg := Build_cfg 1048576 0 false.
Definition st13 : pstate := Build_pstate 13 1048576 0 0.

Example holes_resp_faithful : data cfg0 holes_log [] st13 holes_resp.
Proof.
  unfold data. exists (Build_block 0 24 false [] (-1)
    [RBatch (Build_rbatch 10 4 1000 1060 false (-1) false false false [rec0 0 1; rec0 2 2]);
     RBatch (Build_rbatch 15 4 1000 1060 false (-1) false false false [rec0 2 3])]), [], [data_batch 22 1 (-1) false [rec0 0 4; rec0 1 5]].
  repeat split; auto; cbn; try discriminate.
  - repeat constructor; discriminate.
  - intros y [= <-]. cbn. lia.
Qed.

Example holes_resp_parsed :
  map cm_offset (fst (fst (fst (parse_response cfg0 st13 holes_resp)))) = [17] /\
  offset (snd (fst (fst (parse_response cfg0 st13 holes_resp)))) = 18.
Proof. split; reflexivity. Qed.

(* a transactional log: producer 1 aborts [30..31], producer 2 commits [32], producer 1 then commits [35] *)
Definition txn_log : list sbatch :=
  [data_batch 30 1 1 true [rec0 0 1; rec0 1 2]; data_batch 32 0 2 true [rec0 0 3]; marker_batch 33 1 0;
   marker_batch 34 2 1; data_batch 35 0 1 true [rec0 0 4]; data_batch 36 0 (-1) false [rec0 0 5]; marker_batch 37 1 1].
Definition txn_index : list entry := [(1, 30, 33)].

Example txn_log_wf : wf_log txn_log.
Proof. unfold txn_log, wf_log. split; [repeat constructor|]; wf_tac. Qed.

Example txn_index_wf : index_wf txn_log txn_index.
Proof.
  intros p f m [[= <- <- <-]|[]]. split; [lia|]. split; [|split].
  - right. eexists. split; [left; reflexivity|]. cbn. auto.
  - eexists. split; [right; right; left; reflexivity|]. cbn. auto.
  - intros b Hb Hm Hp Hr. cbn in Hb.
    repeat (destruct Hb as [Hb|Hb]; [injection Hb as <-; cbn in *; try congruence; try lia|]); auto.
Qed.

Example txn_index_complete : index_complete txn_log txn_index.
Proof.
  intros pre b rest E Hc Ht. unfold txn_log in E.
  repeat (destruct pre as [|? pre]; cbn in E;
          [injection E as <- <-; cbn in *; try discriminate;
           (split; [intros H; try discriminate; try (eexists _, _; split; [left; reflexivity|cbn; lia])
                   |intros (f & m & [[= <- <-]|[]] & H1 & H2); cbn in *; try lia; try reflexivity])
          |injection E as <- E]);
  destruct pre; discriminate.
Qed.

(* the head of the log deleted in the middle of an aborted transaction: producer 1 began at 20 (gone), its batch
   [30..31] and the abort marker 33 survive; the broker still reports first offset 20 *)
Definition cut_log : list sbatch :=
  [data_batch 30 1 1 true [rec0 0 1; rec0 1 2]; data_batch 32 0 (-1) false [rec0 0 3]; marker_batch 33 1 0; data_batch 34 0 1 true [rec0 0 4]; marker_batch 35 1 1].
Definition cut_index : list entry := [(1, 20, 33)].

Example cut_log_wf : wf_log cut_log.
Proof. unfold cut_log, wf_log. split; [repeat constructor|]; wf_tac. Qed.

Example cut_index_wf : index_wf cut_log cut_index.
Proof.
  intros p f m [[= <- <- <-]|[]]. split; [lia|]. split; [|split].
  - left. cbn. lia.
  - eexists. split; [right; right; left; reflexivity|]. cbn. auto.
  - intros b Hb Hm Hp Hr. cbn in Hb.
    repeat (destruct Hb as [Hb|Hb]; [injection Hb as <-; cbn in *; try congruence; try lia|]); auto.
Qed.

Example cut_index_complete : index_complete cut_log cut_index.
Proof.
  intros pre b rest E Hc Ht. unfold cut_log in E.
  repeat (destruct pre as [|? pre]; cbn in E;
          [injection E as <- <-; cbn in *; try discriminate;
           (split; [intros H; try discriminate; try (eexists _, _; split; [left; reflexivity|cbn; lia])
                   |intros (f & m & [[= <- <-]|[]] & H1 & H2); cbn in *; try lia; try reflexivity])
          |injection E as <- E]);
  destruct pre; discriminate.
Qed.

Example cut_visible :
  map cm_offset (visible (Build_cfg 1048576 0 true) cut_log) = [32; 34] /\
  aborted_txns [(1, 20)] cut_log = cut_index.
Proof. split; reflexivity. Qed.

Example txn_visible :
  map cm_offset (visible (Build_cfg 1048576 0 true) txn_log) = [32; 35; 36] /\
  map cm_offset (visible (Build_cfg 1048576 0 false) txn_log) = [30; 31; 32; 35; 36] /\
  aborted_txns [] txn_log = txn_index.
Proof. repeat split; reflexivity. Qed.

(* ------------------------------------------------------------------ what was delivered, unit by unit *)
Definition unit_delivered (c : cfg) (rest : list sbatch) (s : sbatch) : Prop :=
  match s with
  | SBlock _ => True
  | SBatch b => rb_control b = false /\
                (read_committed c = true -> rb_txn b = true -> next_marker (rb_pid b) rest <> Some 0)
  end.

Lemma ordered_disjoint : forall l x y, ordered l -> In x l -> In y l -> x = y \/ hi x < lo y \/ hi y < lo x.
Proof.
  induction l as [|a r IH]; intros x y Ho Hx Hy; [contradiction|]. destruct Ho as [HF Ho]. rewrite Forall_forall in HF.
  destruct Hx as [<-|Hx], Hy as [<-|Hy]; auto.
Qed.

Section Delivered.
  Variable size : sbatch -> Z.
  Variables (c : cfg) (log : list sbatch) (es : list entry) (S : Z).
  Hypothesis Hwf : wf_log log.
  Hypothesis Hfits : fits size c log.
  Hypothesis Hindex : read_committed c = true -> index_wf log es /\ index_complete log es.

  Lemma run_delivered_spec : forall s0 s' out, offset s0 = S -> run size c log es s0 [] s' out ->
    forall m, In m out <->
      S <= cm_offset m < offset s' /\
      exists pre s rest, log = pre ++ s :: rest /\ In m (cands s) /\ unit_delivered c rest s.
  Proof.
    intros s0 s' out H0 Hr m. destruct (run_exact size c log es S Hwf Hfits Hindex s0 s' out H0 Hr) as (-> & _).
    rewrite filter_In, visible_in. unfold in_range. rewrite andb_true_iff, Z.leb_le, Z.ltb_lt. split.
    - intros [(pre & s & rest & E & D & Hm) Hrange]. split; [lia|]. exists pre, s, rest. repeat split; auto.
      apply deliverable_spec in D. exact D.
    - intros [Hrange (pre & s & rest & E & Hm & D)]. split; [|lia]. exists pre, s, rest. repeat split; auto.
      apply deliverable_spec. exact D.
  Qed.

  (* nothing delivered sits at an offset occupied by a control batch *)
  Lemma run_no_control : forall s0 s' out, offset s0 = S -> run size c log es s0 [] s' out ->
    forall m b, In m out -> In (SBatch b) log -> rb_control b = true ->
      ~ (rb_first b <= cm_offset m <= rb_first b + rb_lastdelta b).
  Proof.
    intros s0 s' out H0 Hr m b Hm Hb Hc Hrange.
    apply (run_delivered_spec s0 s' out H0 Hr) in Hm as (_ & pre & s & rest & E & Hms & D).
    assert (Hs : In s log) by (rewrite E; apply in_or_app; right; now left).
    destruct Hwf as [Hw Ho]. rewrite Forall_forall in Hw. destruct (Hw s Hs) as (_ & Hbnd & _).
    rewrite Forall_forall in Hbnd. specialize (Hbnd m Hms).
    destruct (ordered_disjoint log s (SBatch b) Ho Hs Hb) as [->|[H|H]]; cbn [hi lo] in *; try lia.
    cbn in D. destruct D as [D _]. congruence.
  Qed.
End Delivered.

Lemma legacy_rebase : forall b m, In m (block_msgs b) ->
  (1 <= lm_version m -> cm_offset (legacy_cand b m) = lm_offset m + (lm_offset (lb_own b) - last_offset (block_msgs b))) /\
  (lm_version m < 1 -> cm_offset (legacy_cand b m) = lm_offset m).
Proof. intros b m H. split; [exact (legacy_rebase_v1 b m H) | exact (legacy_rebase_v0 b m H)]. Qed.

Lemma holes_example : wf_log holes_log /\ data cfg0 holes_log [] st13 holes_resp /\
  map cm_offset (fst (fst (fst (parse_response cfg0 st13 holes_resp)))) = [17] /\
  offset (snd (fst (fst (parse_response cfg0 st13 holes_resp)))) = 18.
Proof. exact (conj holes_log_wf (conj holes_resp_faithful holes_resp_parsed)). Qed.

Lemma cut_example : wf_log cut_log /\ index_wf cut_log cut_index /\ index_complete cut_log cut_index /\
  map cm_offset (visible (Build_cfg 1048576 0 true) cut_log) = [32; 34] /\ aborted_txns [(1, 20)] cut_log = cut_index.
Proof. exact (conj cut_log_wf (conj cut_index_wf (conj cut_index_complete cut_visible))). Qed.

Lemma txn_example : wf_log txn_log /\ index_wf txn_log txn_index /\ index_complete txn_log txn_index /\
  map cm_offset (visible (Build_cfg 1048576 0 true) txn_log) = [32; 35; 36] /\
  map cm_offset (visible (Build_cfg 1048576 0 false) txn_log) = [30; 31; 32; 35; 36] /\
  aborted_txns [] txn_log = txn_index.
Proof. exact (conj txn_log_wf (conj txn_index_wf (conj txn_index_complete txn_visible))). Qed.


(* ------------------------------------------------------------------ the fetch request carries the configured isolation level *)
Lemma kv_at_least_trans_011 : forall v w, kv_at_least v w = true -> kv_at_least w (0, 11, 0, 0) = true -> kv_at_least v (0, 11, 0, 0) = true.
Proof.
  intros [[[a b] c0] d] [[[a' b'] c'] d']. unfold kv_at_least.
  repeat rewrite ?orb_true_iff, ?andb_true_iff, ?Z.ltb_lt, ?Z.eqb_eq, ?Z.leb_le. lia.
Qed.

Lemma request_isolation : forall v rc, 4 <= fst (fetch_request_fields v rc) ->
  snd (fetch_request_fields v rc) = (if rc then 1 else 0).
Proof.
  intros v rc. unfold fetch_request_fields.
  destruct (kv_at_least v (0, 11, 0, 0)) eqn:E11; [reflexivity|]. cbn [snd].
  assert (H : forall w, kv_at_least w (0, 11, 0, 0) = true -> kv_at_least v w = false).
  { intros w Hw. destruct (kv_at_least v w) eqn:E; auto. rewrite (kv_at_least_trans_011 v w E Hw) in E11. discriminate. }
  rewrite (H (1, 1, 0, 0) eq_refl), (H (2, 1, 0, 0) eq_refl), (H (2, 3, 0, 0) eq_refl). cbn [fst].
  destruct (kv_at_least v (0, 10, 1, 0)), (kv_at_least v (0, 10, 0, 0)), (kv_at_least v (0, 9, 0, 0)); lia.
Qed.

Lemma request_fields_table :
  fetch_request_fields (0, 8, 2, 0) true = (0, 0) /\ fetch_request_fields (0, 10, 0, 0) true = (2, 0) /\
  fetch_request_fields (0, 11, 0, 0) true = (4, 1) /\ fetch_request_fields (1, 0, 0, 0) true = (4, 1) /\
  fetch_request_fields (1, 1, 0, 0) true = (7, 1) /\ fetch_request_fields (2, 0, 0, 0) true = (7, 1) /\
  fetch_request_fields (2, 1, 0, 0) true = (10, 1) /\ fetch_request_fields (2, 3, 0, 0) true = (11, 1) /\
  fetch_request_fields (2, 8, 0, 0) false = (11, 0).
Proof. repeat split; reflexivity. Qed.
