(* Consumer — correspondence for the consumer half of C18 (harness: go/harness/cmd/c18cons).
   A case carries what a real PartitionConsumer with counting / marking / panicking interceptors did when
   consuming a generated log: the offsets parsed from each data response (in order), the offsets at which
   the feeder's slow-reader path fired (hook feeder.expiry; empty on a tree without the hook), the number
   of calls of every interceptor per delivered offset, and the marks found on every delivered message.
   [ok_feeder] replays the responses through the model of the repaired feeder with a schedule that makes
   the slow-reader path fire at exactly those offsets. *)
From Coq Require Import List ZArith Bool Arith.
From SV Require Import Base.Corr Consumer.Parse Consumer.Feeder Consumer.FeederProofs.
Import ListNotations.

Record ccase := {
  cc_panics : list bool;                (* per configured interceptor: does OnConsume panic *)
  cc_resps : list (list Z);             (* offsets parseResponse produced, per data response *)
  cc_expired : list Z;                  (* offsets the feeder gave up on *)
  cc_calls : list (Z * list nat);       (* per delivered offset: calls of interceptor 0, 1, ... *)
  cc_marks : list (Z * list nat) }.     (* delivered messages in order, with the marks in their headers *)

Fixpoint icpts_of (k : nat) (panics : list bool) : list (icpt (list nat)) :=
  match panics with [] => [] | p :: r => (if p then boom else mark k) :: icpts_of (S k) r end.

Definition nat_list_eqb := list_eqb Nat.eqb.
Definition marked_eqb (a b : Z * list nat) : bool := Z.eqb (fst a) (fst b) && nat_list_eqb (snd a) (snd b).

Definition ok_feeder (a : ccase) : bool :=
  let n := length (cc_panics a) in
  let is := icpts_of 0 (cc_panics a) in
  let rs := map (map (fun id : Z => (id, @nil nat))) (cc_resps a) in
  let scheds := map (map (fun id : Z => if memZ id (cc_expired a) then 2%nat else 0%nat)) (cc_resps a) in
  let evs := snd (feed_all (list nat) false is true rs scheds) in
  list_eqb marked_eqb (delivered evs) (cc_marks a) &&
  forallb (fun ic => nat_list_eqb (map (fun k => calls k (fst ic) evs) (seq 0 n)) (snd ic)) (cc_calls a) &&
  Nat.eqb (length (cc_calls a)) (length (concat (cc_resps a))).
Definition mismatches_feeder := mismatches ok_feeder.
