(* Consumer — executable model of the response-parsing half of /repo/consumer.go:
     partitionConsumer.parseMessages / parseRecords / parseResponse / chooseStartingOffset
   over *decoded* structures (FetchResponse, FetchResponseBlock, Records, RecordBatch, MessageSet).
   No proofs here.  Shared by C03, C11 and C18 (consumer half).
   Conventions: offsets / sizes are Z (Go int64 / int32; the only wrap-around that matters,
   fetchSize *= 2, is explicit); a time.Time is its Unix time in ms, the zero Time being
   [zero_time]; nil byte slices are [None]. *)
From Coq Require Import List ZArith Bool.
Import ListNotations.
Open Scope Z_scope.

Definition bytes := list Z.
Definition zero_time : Z := -62135596800000.       (* time.Time{} as Unix ms *)
Definition max_int32 : Z := 2147483647.
Definition wrap32 (x : Z) : Z := (x + 2147483648) mod 4294967296 - 2147483648.

(* ------------------------------------------------------------------ decoded structures *)
(* Record (record.go) *)
Record record := { rc_delta : Z; rc_tsdelta : Z; rc_key : option bytes; rc_val : option bytes;
                   rc_hdrs : list (bytes * bytes) }.
(* RecordBatch (record_batch.go); rb_partial = PartialTrailingRecord *)
Record rbatch := { rb_first : Z; rb_lastdelta : Z; rb_first_ts : Z; rb_max_ts : Z; rb_logappend : bool;
                   rb_pid : Z; rb_txn : bool; rb_control : bool; rb_partial : bool; rb_recs : list record }.
(* Message inside a MessageBlock (message.go, message_set.go) *)
Record lmsg := { lm_offset : Z; lm_version : Z; lm_logappend : bool; lm_ts : Z;
                 lm_key : option bytes; lm_val : option bytes }.
(* MessageBlock: its own message (lm_offset = MessageBlock.Offset) and Msg.Set.Messages when it wraps a set *)
Record lblock := { lb_own : lmsg; lb_inner : option (list lmsg) }.
(* Records (records.go): legacy message set (PartialTrailingMessage, OverflowMessage, Messages) or a batch *)
Inductive records := RLegacy (partial overflow : bool) (blocks : list lblock) | RBatch (b : rbatch).
(* FetchResponseBlock *)
Record block := { bl_err : Z; bl_hwm : Z; bl_partial : bool; bl_aborted : list (Z * Z) (* pid, first offset *);
                  bl_pref : Z; bl_set : list records }.
(* FetchResponse as far as parseResponse looks at it: ThrottleTime, len(Blocks)==0, GetBlock(topic, partition) *)
Record response := { rs_throttle : Z; rs_noblocks : bool; rs_block : option block }.

(* ConsumerMessage *)
Record cmsg := { cm_offset : Z; cm_key : option bytes; cm_val : option bytes; cm_hdrs : list (bytes * bytes);
                 cm_ts : Z; cm_blockts : Z }.

Record cfg := { fetch_default : Z; fetch_max : Z; read_committed : bool }.
(* the fields of partitionConsumer that parseResponse reads or writes *)
Record pstate := { offset : Z; fetch_size : Z; hwm : Z; pref_replica : Z }.

Inductive verdict := VOk | VKError (code : Z) | VIncomplete | VCtrlErr.
(* id of sarama.ErrMessageTooLarge (a plain error value, not a KError) in the harness' encoding of sendError calls *)
Definition err_message_too_large : Z := 1000.

(* ------------------------------------------------------------------ the two inner loops *)
(* `if offset < child.offset { continue }; append; child.offset = offset + 1` over the candidates in order *)
Fixpoint accept (o : Z) (cs : list cmsg) : list cmsg * Z :=
  match cs with
  | [] => ([], o)
  | c :: r => if cm_offset c <? o then accept o r
              else let '(m, o') := accept (cm_offset c + 1) r in (c :: m, o')
  end.

(* `if len(messages) == 0 { child.offset++ }` *)
Definition bump (res : list cmsg * Z) : list cmsg * Z :=
  match fst res with [] => ([], snd res + 1) | _ => res end.

(* parseRecords: candidates of a record batch *)
Definition batch_cand (b : rbatch) (r : record) : cmsg :=
  {| cm_offset := rb_first b + rc_delta r; cm_key := rc_key r; cm_val := rc_val r; cm_hdrs := rc_hdrs r;
     cm_ts := if rb_logappend b then rb_max_ts b else rb_first_ts b + rc_tsdelta r;
     cm_blockts := zero_time |}.
Definition batch_cands (b : rbatch) : list cmsg := map (batch_cand b) (rb_recs b).
Definition parse_records (o : Z) (b : rbatch) : list cmsg * Z := bump (accept o (batch_cands b)).

(* parseMessages: msgBlock.Messages() and the v1 rebase on the wrapper offset *)
Definition block_msgs (b : lblock) : list lmsg :=
  match lb_inner b with Some l => l | None => [lb_own b] end.
Definition last_offset (l : list lmsg) : Z := lm_offset (last l (Build_lmsg 0 0 false 0 None None)).
Definition legacy_cand (b : lblock) (m : lmsg) : cmsg :=
  let v1 := 1 <=? lm_version m in
  {| cm_offset := if v1 then lm_offset m + (lm_offset (lb_own b) - last_offset (block_msgs b)) else lm_offset m;
     cm_key := lm_key m; cm_val := lm_val m; cm_hdrs := [];
     cm_ts := if v1 && lm_logappend m then lm_ts (lb_own b) else lm_ts m;
     cm_blockts := lm_ts (lb_own b) |}.
Definition block_cands (b : lblock) : list cmsg := map (legacy_cand b) (block_msgs b).
Definition parse_messages (o : Z) (blocks : list lblock) : list cmsg * Z :=
  bump (accept o (flat_map block_cands blocks)).

(* ------------------------------------------------------------------ aborted-transaction bookkeeping *)
(* getAbortedTransactions: sorted by FirstOffset (insertion sort = specification of sort.Slice up to ties,
   and ties are consumed together) *)
Fixpoint insert_idx (e : Z * Z) (l : list (Z * Z)) : list (Z * Z) :=
  match l with
  | [] => [e]
  | x :: r => if snd e <=? snd x then e :: l else x :: insert_idx e r
  end.
Fixpoint sort_idx (l : list (Z * Z)) : list (Z * Z) :=
  match l with [] => [] | e :: r => insert_idx e (sort_idx r) end.

Fixpoint memZ (x : Z) (l : list Z) : bool :=
  match l with [] => false | y :: r => (x =? y) || memZ x r end.
Fixpoint removeZ (x : Z) (l : list Z) : list Z :=
  match l with [] => [] | y :: r => if x =? y then removeZ x r else y :: removeZ x r end.

(* `for _, txn := range abortedTransactions { if txn.FirstOffset > LastOffset() {break}; add; pop }` *)
Fixpoint pop_aborted (last : Z) (idx : list (Z * Z)) (A : list Z) : list (Z * Z) * list Z :=
  match idx with
  | [] => ([], A)
  | (p, f) :: r => if last <? f then (idx, A) else pop_aborted last r (p :: A)
  end.

(* Records.getControlRecord on the first record: 0 abort, 1 commit, 2 unknown; None = decode error *)
Definition be16 (a b : Z) : Z := let v := a * 256 + b in if 32768 <=? v then v - 65536 else v.
Definition opt_bytes (o : option bytes) : bytes := match o with Some l => l | None => [] end.
Definition control_type (b : rbatch) : option Z :=
  match rb_recs b with
  | [] => None
  | r :: _ =>
    match opt_bytes (rc_key r) with
    | _ :: _ :: t1 :: t2 :: _ =>
        let t := be16 t1 t2 in
        if (t =? 0) || (t =? 1) then
          (if 6 <=? Z.of_nat (length (opt_bytes (rc_val r))) then Some t else None)
        else Some 2
    | _ => None
    end
  end.

(* ------------------------------------------------------------------ parseResponse *)
(* the `for _, records := range block.RecordsSet` loop; on an error the messages gathered so far are
   dropped (`return nil, err`) but child.offset keeps what the loop did to it *)
Fixpoint parse_set (c : cfg) (o : Z) (idx : list (Z * Z)) (A : list Z) (rs : list records)
  : list cmsg * Z * verdict :=
  match rs with
  | [] => ([], o, VOk)
  | RLegacy _ _ blocks :: r =>
      let '(m, o1) := parse_messages o blocks in
      let '(ms, o2, v) := parse_set c o1 idx A r in
      match v with VOk => (m ++ ms, o2, VOk) | _ => ([], o2, v) end
  | RBatch b :: r =>
      let '(idx1, A1) := pop_aborted (rb_first b + rb_lastdelta b) idx A in
      let '(m, o1) := parse_records o b in
      if rb_control b then
        match control_type b with
        | None => ([], o1, VCtrlErr)
        | Some t => parse_set c o1 idx1 (if t =? 0 then removeZ (rb_pid b) A1 else A1) r
        end
      else if read_committed c && rb_txn b && memZ (rb_pid b) A1 then parse_set c o1 idx1 A1 r
      else let '(ms, o2, v) := parse_set c o1 idx1 A1 r in
           match v with VOk => (m ++ ms, o2, VOk) | _ => ([], o2, v) end
  end.

Definition n_records_of (r : records) : Z :=
  match r with RLegacy _ _ bl => Z.of_nat (length bl) | RBatch b => Z.of_nat (length (rb_recs b)) end.
Definition n_records (b : block) : Z := fold_right (fun r a => n_records_of r + a) 0 (bl_set b).
Definition records_partial (r : records) : bool :=
  match r with RLegacy p _ _ => p | RBatch b => rb_partial b end.
Definition is_partial (b : block) : bool :=
  bl_partial b || match bl_set b with [r] => records_partial r | _ => false end.

(* `child.fetchSize *= 2` with the int32 overflow check and the Fetch.Max cap *)
Definition grow (c : cfg) (f : Z) : Z :=
  let f2 := wrap32 (f * 2) in
  let f3 := if f2 <? 0 then max_int32 else f2 in
  if (0 <? fetch_max c) && (fetch_max c <? f3) then fetch_max c else f3.

Definition set_offset (s : pstate) (o : Z) : pstate :=
  {| offset := o; fetch_size := fetch_size s; hwm := hwm s; pref_replica := pref_replica s |}.
Definition set_fetch_size (s : pstate) (f : Z) : pstate :=
  {| offset := offset s; fetch_size := f; hwm := hwm s; pref_replica := pref_replica s |}.
Definition set_pref (s : pstate) (p : Z) : pstate :=
  {| offset := offset s; fetch_size := fetch_size s; hwm := hwm s; pref_replica := p |}.
Definition set_hwm (s : pstate) (h : Z) : pstate :=
  {| offset := offset s; fetch_size := fetch_size s; hwm := h; pref_replica := pref_replica s |}.

(* result: messages, new state, responseResult, errors handed to sendError *)
Definition parse_response (c : cfg) (s : pstate) (r : response) : list cmsg * pstate * verdict * list Z :=
  if negb (rs_throttle r =? 0) && rs_noblocks r then ([], s, VOk, [])
  else match rs_block r with
  | None => ([], s, VIncomplete, [])
  | Some b =>
    if negb (bl_err b =? 0) then ([], s, VKError (bl_err b), [])
    else
      let s1 := set_pref s (bl_pref b) in
      if n_records b =? 0 then
        if is_partial b then
          if (0 <? fetch_max c) && (fetch_size s =? fetch_max c)
          then ([], set_offset s1 (offset s + 1), VOk, [err_message_too_large])
          else ([], set_fetch_size s1 (grow c (fetch_size s)), VOk, [])
        else ([], s1, VOk, [])
      else
        let s2 := set_hwm (set_fetch_size s1 (fetch_default c)) (bl_hwm b) in
        let '(msgs, o', v) := parse_set c (offset s) (sort_idx (bl_aborted b)) [] (bl_set b) in
        (msgs, set_offset s2 o', v, [])
  end.

(* ------------------------------------------------------------------ chooseStartingOffset *)
Definition offset_newest : Z := -1.
Definition offset_oldest : Z := -2.
(* None = ErrOffsetOutOfRange *)
Definition choose_start (req oldest newest : Z) : option Z :=
  if req =? offset_newest then Some newest
  else if req =? offset_oldest then Some oldest
  else if (oldest <=? req) && (req <=? newest) then Some req
  else None.

(* ------------------------------------------------------------------ brokerConsumer.fetchNewMessages: the version ladder *)
(* a KafkaVersion is its four numbers; IsAtLeast is the lexicographic comparison *)
Definition kversion := (Z * Z * Z * Z)%type.
Definition kv_at_least (v w : kversion) : bool :=
  let '(a, b, c, d) := v in let '(a', b', c', d') := w in
  (a' <? a) || ((a =? a') && ((b' <? b) || ((b =? b') && ((c' <? c) || ((c =? c') && (d' <=? d)))))).
(* FetchRequest.Version and FetchRequest.Isolation (0 = ReadUncommitted, 1 = ReadCommitted) as a function of
   Config.Version and Consumer.IsolationLevel; the isolation field is only assigned in the 0.11 step and is on the wire
   from request version 4 on *)
Definition fetch_request_fields (v : kversion) (rc : bool) : Z * Z :=
  let ver0 := 0 in
  let ver1 := if kv_at_least v (0, 9, 0, 0) then 1 else ver0 in
  let ver2 := if kv_at_least v (0, 10, 0, 0) then 2 else ver1 in
  let ver3 := if kv_at_least v (0, 10, 1, 0) then 3 else ver2 in
  let '(ver4, iso) := if kv_at_least v (0, 11, 0, 0) then (4, if rc then 1 else 0) else (ver3, 0) in
  let ver7 := if kv_at_least v (1, 1, 0, 0) then 7 else ver4 in
  let ver10 := if kv_at_least v (2, 1, 0, 0) then 10 else ver7 in
  let ver11 := if kv_at_least v (2, 3, 0, 0) then 11 else ver10 in
  (ver11, iso).
