(* Consumer — model of the brokerConsumer reference count (consumer.go: refBrokerConsumer,
   unrefBrokerConsumer, partitionConsumer.dispatcher, ConsumePartition).  No proofs here.
   A worker (brokerConsumer) is shared by the partition consumers whose leader is its broker; it is shut
   down (close(input)) and dropped from consumer.brokerConsumers when its count reaches 0.
   [clear] = true is the code (the dispatcher sets child.broker = nil after the unref); [clear] = false is the
   variant that keeps the stale pointer, so that a failing dispatch() makes the next iteration unref again. *)
From Coq Require Import List ZArith Bool.
Import ListNotations.
Open Scope Z_scope.

Record rstate := {
  refs : Z -> Z;                 (* brokerConsumer.refs *)
  closed : Z -> bool;            (* close(brokerWorker.input) happened *)
  wbroker : Z -> Z;              (* brokerWorker.broker *)
  wmap : Z -> option Z;          (* consumer.brokerConsumers: broker -> worker *)
  kids : list (option Z);        (* child.broker of every partition consumer *)
  fresh : Z }.                   (* next worker identity *)

Definition upd {A} (f : Z -> A) (k : Z) (v : A) : Z -> A := fun x => if x =? k then v else f x.

Definition rc_init : rstate :=
  {| refs := fun _ => 0; closed := fun _ => false; wbroker := fun _ => 0; wmap := fun _ => None; kids := []; fresh := 0 |}.

(* refBrokerConsumer *)
Definition ref (s : rstate) (b : Z) : Z * rstate :=
  match wmap s b with
  | Some w => (w, {| refs := upd (refs s) w (refs s w + 1); closed := closed s; wbroker := wbroker s; wmap := wmap s;
                     kids := kids s; fresh := fresh s |})
  | None => let w := fresh s in
            (w, {| refs := upd (refs s) w (refs s w + 1); closed := closed s; wbroker := upd (wbroker s) w b;
                   wmap := upd (wmap s) b (Some w); kids := kids s; fresh := fresh s + 1 |})
  end.

(* unrefBrokerConsumer *)
Definition unref (s : rstate) (w : Z) : rstate :=
  let r := refs s w - 1 in
  if r =? 0 then
    {| refs := upd (refs s) w r; closed := upd (closed s) w true; wbroker := wbroker s;
       wmap := (match wmap s (wbroker s w) with
                | Some w' => if w' =? w then upd (wmap s) (wbroker s w) None else wmap s
                | None => wmap s end);
       kids := kids s; fresh := fresh s |}
  else {| refs := upd (refs s) w r; closed := closed s; wbroker := wbroker s; wmap := wmap s; kids := kids s; fresh := fresh s |}.

Fixpoint set_nth {A} (i : nat) (v : A) (l : list A) : list A :=
  match l, i with
  | [], _ => []
  | _ :: r, O => v :: r
  | x :: r, S j => x :: set_nth j v r
  end.

Definition set_kids (s : rstate) (k : list (option Z)) : rstate :=
  {| refs := refs s; closed := closed s; wbroker := wbroker s; wmap := wmap s; kids := k; fresh := fresh s |}.

Inductive op :=
| Start (b : Z)                      (* ConsumePartition on a partition led by broker b *)
| Iter (i : nat) (res : option Z)    (* one iteration of child i's dispatcher loop; Some b: dispatch() found broker b *)
| Exit (i : nat).                    (* the dispatcher leaves its loop (partition consumer closed) *)

Definition rc_step (clear : bool) (s : rstate) (o : op) : rstate :=
  match o with
  | Start b => let '(w, s1) := ref s b in set_kids s1 (kids s1 ++ [Some w])
  | Iter i res =>
      if Nat.ltb i (length (kids s)) then
        let s1 := match nth i (kids s) None with
                  | Some w => let s' := unref s w in if clear then set_kids s' (set_nth i None (kids s')) else s'
                  | None => s end in
        match res with
        | Some b => let '(w, s2) := ref s1 b in set_kids s2 (set_nth i (Some w) (kids s2))
        | None => s1
        end
      else s
  | Exit i =>
      if Nat.ltb i (length (kids s)) then
        match nth i (kids s) None with
        | Some w => let s' := unref s w in set_kids s' (set_nth i None (kids s'))
        | None => s end
      else s
  end.

Definition rc_run (clear : bool) (ops : list op) : rstate := fold_left (rc_step clear) ops rc_init.

(* number of partition consumers whose child.broker is worker w *)
Fixpoint cnt (w : Z) (k : list (option Z)) : Z :=
  match k with
  | [] => 0
  | Some w' :: r => (if w' =? w then 1 else 0) + cnt w r
  | None :: r => cnt w r
  end.
