(* Consumer — proofs, part 2: the aborted-transaction walk of parseResponse decides exactly like the
   log's ground truth (Lemma flags_deliverable): under ReadCommitted a transactional batch is dropped iff
   the next marker of its producer id is an abort marker; control batches are always dropped. *)
From Coq Require Import List ZArith Bool Lia Sorting.Sorted.
From SV Require Import Consumer.Parse Consumer.Log Consumer.ParseProofs.
Import ListNotations.
Open Scope Z_scope.

(* ------------------------------------------------------------------ small facts *)
Lemma memZ_In : forall p l, memZ p l = true <-> In p l.
Proof.
  induction l as [|x l IH]; cbn; [split; [discriminate|contradiction]|].
  rewrite orb_true_iff, IH, Z.eqb_eq. split; intros [H|H]; auto.
Qed.

Lemma memZ_removeZ : forall p q l, memZ p (removeZ q l) = negb (p =? q) && memZ p l.
Proof.
  induction l as [|x l IH]; cbn; [now rewrite andb_false_r|].
  destruct (q =? x) eqn:E.
  - apply Z.eqb_eq in E; subst. rewrite IH. destruct (p =? x); cbn; auto.
  - cbn. rewrite IH. destruct (p =? q) eqn:E2; cbn; auto.
    apply Z.eqb_eq in E2; subst. now rewrite E.
Qed.

Definition le_snd (a b : Z * Z) : Prop := snd a <= snd b.

Lemma insert_idx_In : forall e x l, In x (insert_idx e l) <-> x = e \/ In x l.
Proof.
  induction l as [|y l IH]; cbn; [intuition|].
  destruct (snd e <=? snd y); cbn; [intuition|]. rewrite IH. intuition.
Qed.
Lemma sort_idx_In : forall x l, In x (sort_idx l) <-> In x l.
Proof. induction l as [|y l IH]; cbn; [tauto|]. rewrite insert_idx_In, IH. intuition. Qed.

Lemma insert_idx_sorted : forall e l, StronglySorted le_snd l -> StronglySorted le_snd (insert_idx e l).
Proof.
  induction l as [|y l IH]; intros Hs; cbn; [repeat constructor|].
  apply StronglySorted_inv in Hs as [Hs Hall]. destruct (snd e <=? snd y) eqn:E.
  - apply Z.leb_le in E. constructor; [constructor; auto|]. constructor; [exact E|].
    eapply Forall_impl; [|exact Hall]. unfold le_snd. intros; lia.
  - apply Z.leb_gt in E. constructor; [auto|]. rewrite Forall_forall. intros x Hx.
    apply insert_idx_In in Hx as [->|Hx]; [unfold le_snd; lia|]. rewrite Forall_forall in Hall. auto.
Qed.
Lemma sort_idx_sorted : forall l, StronglySorted le_snd (sort_idx l).
Proof. induction l; cbn; [constructor|now apply insert_idx_sorted]. Qed.

(* the pop loop on a sorted index: exactly the entries with first offset <= h leave, their pids are added *)
Lemma pop_spec : forall idx h A idx1 A1, StronglySorted le_snd idx -> pop_aborted h idx A = (idx1, A1) ->
  StronglySorted le_snd idx1 /\ (forall e, In e idx1 <-> In e idx /\ h < snd e) /\
  (forall p, memZ p A1 = true <-> memZ p A = true \/ exists f, In (p, f) idx /\ f <= h).
Proof.
  induction idx as [|[q f] r IH]; intros h A idx1 A1 Hs E; cbn in E.
  - injection E as <- <-. split; [auto|]. split; [intros e; cbn; tauto|].
    intros p. split; [auto|]. intros [Hm|(f & [] & _)]; auto.
  - pose proof Hs as Hs0. apply StronglySorted_inv in Hs as [Hs Hall]. destruct (h <? f) eqn:Ef.
    + apply Z.ltb_lt in Ef. injection E as <- <-. split; [auto|]. split.
      * intros e. split; [|tauto]. intros He. split; auto. destruct He as [<-|He]; [cbn; lia|].
        rewrite Forall_forall in Hall. specialize (Hall e He). unfold le_snd in Hall. cbn in Hall. lia.
      * intros p. split; [auto|]. intros [H|(f' & Hin & Hf)]; auto. exfalso.
        destruct Hin as [Heq|Hin]; [injection Heq as -> ->; lia|].
        rewrite Forall_forall in Hall. specialize (Hall _ Hin). unfold le_snd in Hall. cbn in Hall. lia.
    + apply Z.ltb_ge in Ef. destruct (IH h (q :: A) idx1 A1 Hs E) as (S1 & I1 & M1). split; [auto|]. split.
      * intros e. rewrite I1. split; [intros [H1 H2]; split; [now right|auto]|].
        intros [[<-|H1] H2]; [cbn in H2; lia|auto].
      * intros p. rewrite M1. cbn [memZ]. rewrite orb_true_iff, Z.eqb_eq. split.
        -- intros [[->|H]|(f' & Hin & Hf)]; auto.
           ++ right. exists f. split; [now left|auto].
           ++ right. exists f'. split; [now right|auto].
        -- intros [H|(f' & [Heq|Hin] & Hf)]; auto.
           ++ injection Heq as -> ->. auto.
           ++ right. exists f'. auto.
Qed.

Lemma marker_ctl : forall b t, marker_of b = Some t -> rb_control b = true.
Proof. intros b t. unfold marker_of. destruct (rb_control b); [auto|discriminate]. Qed.

Lemma marker_abort_ct : forall b, marker_of b = Some 0 -> control_type b = Some 0.
Proof.
  intros b. unfold marker_of. destruct (rb_control b); [|discriminate].
  destruct (control_type b) as [t|]; [|discriminate].
  destruct ((t =? 0) || (t =? 1)); [|discriminate]. now intros [= ->].
Qed.

Lemma not_abort_ct : forall b t, rb_control b = true -> control_type b = Some t -> marker_of b <> Some 0 -> (t =? 0) = false.
Proof.
  intros b t Hc Ht Hm. unfold marker_of in Hm. rewrite Hc, Ht in Hm.
  destruct (t =? 0) eqn:E; auto. apply Z.eqb_eq in E; subst. cbn in Hm. congruence.
Qed.

Lemma wf_marker_hi : forall b t, wf_sbatch (SBatch b) -> marker_of b = Some t -> hi (SBatch b) = rb_first b.
Proof.
  intros b t (_ & _ & _ & Hc) Hm. apply marker_ctl in Hm. destruct (Hc Hm) as [E _]. cbn. lia.
Qed.

(* ------------------------------------------------------------------ ground-truth flags *)
Fixpoint dflags (c : cfg) (l post : list sbatch) : list bool :=
  match l with [] => [] | s :: r => deliverable c (r ++ post) s :: dflags c r post end.

Lemma select_dflags : forall c l post, select (dflags c l post) l ++ visible c post = visible c (l ++ post).
Proof. induction l as [|s r IH]; intros post; cbn; auto. now rewrite <- app_assoc, IH. Qed.

Lemma dflags_app : forall c a b post, dflags c (a ++ b) post = dflags c a (b ++ post) ++ dflags c b post.
Proof. induction a as [|s a IH]; intros; cbn; auto. now rewrite IH, app_assoc. Qed.

Lemma dflags_blocks : forall c (bl : list lblock) post, dflags c (map SBlock bl) post = map (fun _ => true) bl.
Proof. induction bl as [|b bl IH]; intros; cbn; auto. now rewrite IH. Qed.

(* without ReadCommitted the walk is irrelevant *)
Lemma flags_uncommitted : forall c rs idx A post, read_committed c = false ->
  flags c idx A rs = dflags c (flat_map chunk rs) post.
Proof.
  intros c rs. induction rs as [|x r IH]; intros idx A post Hrc; cbn [flags flat_map dflags]; auto.
  destruct x as [p ov bl|b]; cbn [chunk].
  - rewrite dflags_app, dflags_blocks. now rewrite (IH idx A post Hrc).
  - destruct (pop_aborted _ idx A) as [idx1 A1]. cbn [app dflags deliverable]. rewrite Hrc. cbn [andb negb].
    destruct (rb_control b); cbn [negb andb]; f_equal; auto.
Qed.

(* ------------------------------------------------------------------ the walk under ReadCommitted *)
Section Walk.
  Variables (c : cfg) (log : list sbatch) (es : list entry) (idx0 : list (Z * Z)) (o0 top : Z).
  Hypothesis Hwf : wf_log log.
  Hypothesis Hiw : index_wf log es.
  Hypothesis Hic : index_complete log es.
  Hypothesis Hidx : index_for es o0 top idx0.
  Hypothesis Hrc : read_committed c = true.

  (* f was popped while the batches of D were processed / the marker m was not among D *)
  Definition Pop (f : Z) (D : list sbatch) : Prop := exists b, In (SBatch b) D /\ f <= hi (SBatch b).
  Definition NotProc (m : Z) (D : list sbatch) : Prop := forall y, In y D -> hi y < m.
  Definition TxInv (D : list sbatch) (A : list Z) (idx : list (Z * Z)) : Prop :=
    StronglySorted le_snd idx /\
    (forall e, In e idx <-> In e idx0 /\ ~ Pop (snd e) D) /\
    (forall p, memZ p A = true <->
       exists f m, In (p, f) idx0 /\ In (p, f, m) es /\ o0 <= m /\ Pop f D /\ NotProc m D).

  Lemma Pop_dec : forall f D, Pop f D \/ ~ Pop f D.
  Proof.
    intros f. induction D as [|y D IH]; [right; intros (b & [] & _)|].
    destruct IH as [(b & Hb & Hf)|IH]; [left; exists b; split; [now right|auto]|].
    destruct y as [b|b].
    - destruct (Z_le_gt_dec f (hi (SBatch b))) as [H|H].
      + left. exists b. split; [now left|auto].
      + right. intros (b' & [Heq|Hb'] & Hf); [injection Heq as ->; lia|]. apply IH. exists b'. auto.
    - right. intros (b' & [Heq|Hb'] & Hf); [discriminate|]. apply IH. exists b'. auto.
  Qed.

  Lemma Pop_app : forall f D E, Pop f (D ++ E) <-> Pop f D \/ Pop f E.
  Proof.
    intros. unfold Pop. split.
    - intros (b & Hb & Hf). apply in_app_or in Hb as [Hb|Hb]; [left|right]; exists b; auto.
    - intros [(b & Hb & Hf)|(b & Hb & Hf)]; exists b; split; auto; apply in_or_app; auto.
  Qed.

  Lemma wf_in : forall y, In y log -> wf_sbatch y.
  Proof. intros y Hy. destruct Hwf as [H _]. rewrite Forall_forall in H. auto. Qed.

  (* where a batch of the log can sit relative to the batch being processed *)
  Lemma position : forall pre D b rest y, log = pre ++ D ++ SBatch b :: rest -> In y log ->
    (In y pre \/ In y D) /\ hi y < rb_first b \/ y = SBatch b \/ In y rest /\ hi (SBatch b) < lo y.
  Proof.
    intros pre D b rest y E Hy. destruct Hwf as [_ Ho]. rewrite E in Ho, Hy.
    rewrite app_assoc in Ho, Hy. destruct (ordered_app _ _ Ho) as (_ & O2 & O12).
    apply in_app_or in Hy as [Hy|Hy].
    - left. split; [apply in_app_or in Hy; tauto|]. apply (O12 y (SBatch b)); auto. now left.
    - destruct Hy as [<-|Hy]; [right; now left|]. right; right. split; auto.
      now apply (ordered_in_lt y (SBatch b) rest).
  Qed.

  Section Step.
    Variables (pre D : list sbatch) (b : rbatch) (rest : list sbatch).
    Hypothesis Elog : log = pre ++ D ++ SBatch b :: rest.
    Hypothesis Hpre : Forall (fun y => hi y < o0) pre.
    Hypothesis Hlow : o0 <= hi (SBatch b).
    Hypothesis Htop : hi (SBatch b) <= top.

    Let hb := hi (SBatch b).

    Lemma b_in_log : In (SBatch b) log.
    Proof. rewrite Elog. apply in_or_app; right. apply in_or_app; right. now left. Qed.

    Lemma first_le_hb : rb_first b <= hb.
    Proof. pose proof (wf_lo_hi _ (wf_in _ b_in_log)). cbn in H. unfold hb. cbn. lia. Qed.

    (* an abort marker at offset m >= o0 that is not among D lies at b or behind it *)
    Lemma marker_ahead : forall p f m, In (p, f, m) es -> o0 <= m -> NotProc m D ->
      (marker_of b = Some 0 /\ rb_pid b = p /\ m = rb_first b) \/ hb < m.
    Proof.
      intros p f m He Hm Hn. destruct (Hiw p f m He) as (_ & _ & (bm & Hbm & Hfm & Hmk & Hpm) & _).
      pose proof (wf_marker_hi bm 0 (wf_in _ Hbm) Hmk) as Hhi.
      destruct (position pre D b rest (SBatch bm) Elog Hbm) as [[[Hp|Hd] _]|[Heq|[_ Hlt]]].
      - rewrite Forall_forall in Hpre. specialize (Hpre _ Hp). lia.
      - specialize (Hn _ Hd). lia.
      - injection Heq as ->. left. auto.
      - right. cbn in Hlt. unfold hb. cbn. lia.
    Qed.

    (* the first offset f of an entry that was not popped by D and is <= hb is at most first(b) *)
    (* the log starts no later than b *)
    Lemma log_start_le : log_start log <= rb_first b.
    Proof.
      destruct log as [|s0 l0] eqn:El; [exfalso; destruct pre, D; discriminate|]. cbn [log_start].
      assert (Hin : In s0 log) by (rewrite El; now left).
      rewrite <- El in *. destruct (position pre D b rest s0 Elog Hin) as [[_ Hlt]|[Heq|[Hr Hlt]]].
      - pose proof (wf_lo_hi _ (wf_in _ Hin)). lia.
      - subst s0. cbn. lia.
      - (* s0 is the head of an ordered log, so it cannot come after b *)
        exfalso. destruct Hwf as [_ Ho]. rewrite El in Ho. destruct Ho as [HF _]. rewrite Forall_forall in HF.
        pose proof b_in_log as Hb. rewrite El in Hb. destruct Hb as [Hb|Hb].
        + subst s0. pose proof (wf_lo_hi _ (wf_in _ Hin)). cbn in *. lia.
        + specialize (HF _ Hb). pose proof (wf_lo_hi _ (wf_in _ Hin)). pose proof (wf_lo_hi _ (wf_in _ b_in_log)). cbn in *. lia.
    Qed.

    (* the first offset f of an entry that was not popped by D and is <= hb is at most first(b) *)
    Lemma start_behind : forall p f m, In (p, f, m) es -> ~ Pop f D -> f <= hb -> f <= rb_first b.
    Proof.
      intros p f m He Hnp Hf. destruct (Hiw p f m He) as (_ & [Hbefore|(bf & Hbf & Hff & _)] & _).
      { pose proof log_start_le. lia. }
      destruct (position pre D b rest (SBatch bf) Elog Hbf) as [[[Hp|Hd] Hlt]|[Heq|[_ Hlt]]].
      - pose proof (wf_lo_hi _ (wf_in _ Hbf)) as Hl. cbn in Hl. cbn in Hlt. lia.
      - exfalso. apply Hnp. exists bf. split; auto.
        pose proof (wf_lo_hi _ (wf_in _ Hbf)) as Hl. cbn in *. lia.
      - injection Heq as ->. lia.
      - cbn in Hlt. unfold hb in Hf. cbn in Hf. lia.
    Qed.

    Lemma D_below : forall y, In y D -> hi y < rb_first b.
    Proof.
      intros y Hy. assert (In y log) by (rewrite Elog; apply in_or_app; right; apply in_or_app; now left).
      destruct (position pre D b rest y Elog H) as [[_ Hlt]|[Heq|[Hr Hlt]]]; auto.
      - (* y = SBatch b would put b twice into an ordered log *)
        subst y. destruct Hwf as [_ Ho]. rewrite Elog in Ho. apply ordered_app in Ho as (_ & Ho & _).
        apply ordered_app in Ho as (_ & _ & Hx). specialize (Hx (SBatch b) (SBatch b) Hy (or_introl eq_refl)).
        pose proof (wf_lo_hi _ (wf_in _ b_in_log)). lia.
      - destruct Hwf as [_ Ho]. rewrite Elog in Ho. apply ordered_app in Ho as (_ & Ho & _).
        apply ordered_app in Ho as (_ & _ & Hx). specialize (Hx y (SBatch b) Hy (or_introl eq_refl)). cbn in Hx. lia.
    Qed.

    Variables (A : list Z) (idx idx1 : list (Z * Z)) (A1 : list Z).
    Hypothesis Hinv : TxInv D A idx.
    Hypothesis Hpop : pop_aborted hb idx A = (idx1, A1).

    (* A1: popped through b, marker not among D *)
    Lemma A1_char : forall p, memZ p A1 = true <->
      exists f m, In (p, f) idx0 /\ In (p, f, m) es /\ o0 <= m /\ Pop f (D ++ [SBatch b]) /\ NotProc m D.
    Proof.
      destruct Hinv as (S0 & I0 & M0). destruct (pop_spec idx hb A idx1 A1 S0 Hpop) as (_ & _ & M1).
      intros p. rewrite M1. split.
      - intros [H|(f & Hin & Hf)].
        + apply M0 in H as (f & m & H1 & H2 & H3 & H4 & H5). exists f, m. repeat split; auto.
          apply Pop_app; auto.
        + apply I0 in Hin as [Hin Hnp]. cbn in Hnp. destruct Hidx as [F1 _]. destruct (F1 p f Hin) as (m & He & Hm).
          exists f, m. repeat split; auto.
          * apply Pop_app; right. exists b. split; [now left|auto].
          * (* the marker of a not-yet-popped entry is not among D *)
            intros y Hy. destruct (Hiw p f m He) as (Hfm & _ & (bm & Hbm & Hfm' & Hmk & Hpm) & _).
            pose proof (wf_marker_hi bm 0 (wf_in _ Hbm) Hmk) as Hhi.
            destruct (position pre D b rest (SBatch bm) Elog Hbm) as [[[Hp|Hd] _]|[Heq|[_ Hlt]]].
            -- rewrite Forall_forall in Hpre. specialize (Hpre _ Hp). lia.
            -- exfalso. apply Hnp. exists bm. split; auto. lia.
            -- injection Heq as ->. pose proof (D_below y Hy). lia.
            -- pose proof (D_below y Hy) as Hdb. pose proof first_le_hb as Hfl. unfold hb in Hfl. cbn [hi lo] in Hlt, Hfl. lia.
      - intros (f & m & H1 & H2 & H3 & H4 & H5). apply Pop_app in H4.
        destruct (Pop_dec f D) as [Hp|Hnp].
        + left. apply M0. exists f, m. auto.
        + right. exists f. split.
          * apply I0. split; auto.
          * destruct H4 as [H4|(b' & [Heq|[]] & Hf)]; [contradiction|]. injection Heq as <-. exact Hf.
    Qed.

    (* the decision for a transactional data batch *)
    Lemma decision : rb_control b = false -> rb_txn b = true ->
      (memZ (rb_pid b) A1 = true <-> next_marker (rb_pid b) rest = Some 0).
    Proof.
      intros Hc Ht. rewrite A1_char. rewrite (Hic (pre ++ D) b rest) by (auto; now rewrite <- app_assoc).
      change (rb_first b + rb_lastdelta b) with hb. split.
      - intros (f & m & H1 & H2 & H3 & H4 & H5). exists f, m. split; auto.
        assert (Hm : hb < m).
        { destruct (marker_ahead _ _ _ H2 H3 H5) as [(Hmk & _)|H]; auto.
          apply marker_ctl in Hmk. congruence. }
        split; auto. apply Pop_app in H4 as [(b' & Hb' & Hf)|(b' & [Heq|[]] & Hf)].
        + pose proof (D_below _ Hb'). lia.
        + injection Heq as <-. destruct (Pop_dec f D) as [(b' & Hb' & Hf')|Hnp].
          * pose proof (D_below _ Hb'). lia.
          * eapply start_behind; eauto.
      - intros (f & m & He & Hf & Hm). pose proof first_le_hb as Hfl.
        destruct Hidx as [_ F2]. assert (Hin : In (rb_pid b, f) idx0) by (apply (F2 _ f m); auto; lia).
        exists f, m. repeat split; auto; try lia.
        + apply Pop_app; right. exists b. split; [now left|]. fold hb. lia.
        + intros y Hy. pose proof (D_below y Hy). lia.
    Qed.

    (* the invariant after b has been processed *)
    Lemma inv_after :
      TxInv (D ++ [SBatch b])
            (match marker_of b with Some 0 => removeZ (rb_pid b) A1 | _ => A1 end) idx1.
    Proof.
      destruct Hinv as (S0 & I0 & M0). destruct (pop_spec idx hb A idx1 A1 S0 Hpop) as (S1 & I1 & _).
      split; [exact S1|]. split.
      - intros e. rewrite I1, I0, Pop_app. split.
        + intros [[H1 H2] H3]. split; auto. intros [H|(b' & [Heq|[]] & Hf)]; auto.
          injection Heq as <-. fold hb in Hf. lia.
        + intros [H1 H2]. split; [split; auto|].
          destruct (Z_lt_ge_dec hb (snd e)); auto. exfalso. apply H2. right. exists b. split; [now left|]. fold hb. lia.
      - intros p.
        assert (Hnp : forall m, NotProc m (D ++ [SBatch b]) <-> NotProc m D /\ hb < m).
        { intros m. unfold NotProc. split.
          - intros H. split; [intros y Hy; apply H, in_or_app; auto|]. apply (H (SBatch b)), in_or_app; right; now left.
          - intros [H1 H2] y Hy. apply in_app_or in Hy as [Hy|[<-|[]]]; auto. }
        destruct (marker_of b) as [t|] eqn:Emk; [destruct (Z.eq_dec t 0) as [->|Hne]|].
        + (* abort marker *)
          rewrite memZ_removeZ. destruct (Z.eq_dec p (rb_pid b)) as [->|Hp].
          * rewrite Z.eqb_refl. cbn. split; [discriminate|]. intros (f & m & H1 & H2 & H3 & H4 & H5). exfalso.
            apply Hnp in H5 as [H5 H6]. destruct (Hiw _ _ _ H2) as (_ & _ & _ & Hno).
            apply (Hno b b_in_log); [congruence|auto|]. pose proof (wf_marker_hi b 0 (wf_in _ b_in_log) Emk) as Hh.
            fold hb in Hh. split; [|lia].
            apply Pop_app in H4 as [(b' & Hb' & Hf)|(b' & [Heq|[]] & Hf)].
            -- pose proof (D_below _ Hb'). lia.
            -- injection Heq as <-. fold hb in Hf. lia.
          * assert ((p =? rb_pid b) = false) as -> by (now apply Z.eqb_neq). cbn. rewrite A1_char. split.
            -- intros (f & m & H1 & H2 & H3 & H4 & H5). exists f, m. repeat split; auto. apply Hnp. split; auto.
               destruct (marker_ahead _ _ _ H2 H3 H5) as [(_ & Hq & _)|H]; auto. congruence.
            -- intros (f & m & H1 & H2 & H3 & H4 & H5). exists f, m. repeat split; auto. now apply Hnp in H5.
        + (* commit marker *)
          assert (Hx : match t with 0 => removeZ (rb_pid b) A1 | _ => A1 end = A1) by (destruct t; congruence).
          rewrite Hx. rewrite A1_char. split.
          * intros (f & m & H1 & H2 & H3 & H4 & H5). exists f, m. repeat split; auto. apply Hnp. split; auto.
            destruct (marker_ahead _ _ _ H2 H3 H5) as [(Hq & _)|H]; auto. congruence.
          * intros (f & m & H1 & H2 & H3 & H4 & H5). exists f, m. repeat split; auto. now apply Hnp in H5.
        + rewrite A1_char. split.
          * intros (f & m & H1 & H2 & H3 & H4 & H5). exists f, m. repeat split; auto. apply Hnp. split; auto.
            destruct (marker_ahead _ _ _ H2 H3 H5) as [(Hq & _)|H]; auto. congruence.
          * intros (f & m & H1 & H2 & H3 & H4 & H5). exists f, m. repeat split; auto. now apply Hnp in H5.
    Qed.
  End Step.

  (* legacy blocks neither pop nor end anything *)
  Lemma inv_blocks : forall pre D (bl : list lblock) rest A idx,
    log = pre ++ D ++ map SBlock bl ++ rest -> Forall (fun y => hi y < o0) pre ->
    TxInv D A idx -> TxInv (D ++ map SBlock bl) A idx.
  Proof.
    intros pre D bl rest A idx Elog Hpre (S0 & I0 & M0).
    assert (HP : forall f, Pop f (D ++ map SBlock bl) <-> Pop f D).
    { intros f. rewrite Pop_app. split; auto. intros [H|(b & Hb & _)]; auto.
      apply in_map_iff in Hb as (x & Hx & _). discriminate. }
    split; [auto|]. split.
    - intros e. rewrite I0. now rewrite HP.
    - intros p. rewrite M0. split; intros (f & m & H1 & H2 & H3 & H4 & H5); exists f, m; repeat split; auto;
        try (now apply HP).
      + intros y Hy. apply in_app_or in Hy as [Hy|Hy]; [auto|].
        destruct (Hiw _ _ _ H2) as (_ & _ & (bm & Hbm & Hfm & Hmk & _) & _).
        pose proof (wf_marker_hi bm 0 (wf_in _ Hbm) Hmk) as Hhi.
        destruct Hwf as [_ Ho]. rewrite Elog in Ho, Hbm.
        apply in_app_or in Hbm as [Hp|Hbm].
        { rewrite Forall_forall in Hpre. specialize (Hpre _ Hp). lia. }
        apply in_app_or in Hbm as [Hd|Hbm]; [specialize (H5 _ Hd); lia|].
        apply in_app_or in Hbm as [Hb|Hr].
        { apply in_map_iff in Hb as (x & Hx & _). discriminate. }
        apply ordered_app in Ho as (_ & Ho & _). apply ordered_app in Ho as (_ & Ho & _).
        apply ordered_app in Ho as (_ & _ & Hx). specialize (Hx y (SBatch bm) Hy Hr). cbn in Hx. lia.
      + intros y Hy. apply H5, in_or_app. auto.
  Qed.

  (* Lemma B: the model's decisions are the ground truth *)
  Lemma flags_deliverable : forall rs pre D A idx post,
    log = pre ++ D ++ flat_map chunk rs ++ post -> Forall (fun y => hi y < o0) pre ->
    Forall (fun y => o0 <= hi y /\ hi y <= top) (flat_map chunk rs) ->
    TxInv D A idx ->
    flags c idx A rs = dflags c (flat_map chunk rs) post.
  Proof.
    induction rs as [|x r IH]; intros pre D A idx post Elog Hpre Hrng Hinv; cbn [flags flat_map dflags]; auto.
    cbn [flat_map] in Elog, Hrng. apply Forall_app in Hrng as [Hx Hr].
    destruct x as [p ov bl|b]; cbn [chunk] in *.
    - rewrite dflags_app, dflags_blocks. f_equal.
      apply (IH pre (D ++ map SBlock bl)); auto.
      + rewrite Elog. now rewrite <- !app_assoc.
      + eapply inv_blocks; eauto. rewrite Elog. now rewrite <- !app_assoc.
    - apply Forall_inv in Hx as [Hlow Htop].
      destruct (pop_aborted (rb_first b + rb_lastdelta b) idx A) as [idx1 A1] eqn:Hpop.
      cbn [app] in Elog. cbn [app dflags deliverable].
      assert (Hafter : TxInv (D ++ [SBatch b]) (match marker_of b with Some 0 => removeZ (rb_pid b) A1 | _ => A1 end) idx1)
        by (eapply inv_after; eauto).
      assert (Elog' : log = pre ++ (D ++ [SBatch b]) ++ flat_map chunk r ++ post)
        by (rewrite Elog; now rewrite <- !app_assoc).
      destruct (rb_control b) eqn:Ectl.
      + cbn [negb andb]. f_equal.
        assert (Hb : In (SBatch b) log) by (rewrite Elog; apply in_or_app; right; apply in_or_app; right; now left).
        destruct (wf_in _ Hb) as (_ & _ & _ & Hc). destruct (Hc Ectl) as [_ Hct].
        destruct (control_type b) as [t|] eqn:Et; [|congruence].
        apply (IH pre (D ++ [SBatch b])); auto.
        destruct (marker_of b) as [t'|] eqn:Emk.
        * unfold marker_of in Emk. rewrite Ectl, Et in Emk.
          destruct ((t =? 0) || (t =? 1)) eqn:E01; [|discriminate]. injection Emk as <-.
          destruct (t =? 0) eqn:E0; [apply Z.eqb_eq in E0; subst; exact Hafter|].
          apply Z.eqb_neq in E0. destruct t; try congruence; exact Hafter.
        * unfold marker_of in Emk. rewrite Ectl, Et in Emk.
          destruct (t =? 0) eqn:E0; [cbn in Emk; discriminate|exact Hafter].
      + cbn [negb andb]. rewrite Hrc. cbn [andb].
        assert (Hmk : marker_of b = None) by (unfold marker_of; now rewrite Ectl).
        rewrite Hmk in Hafter. f_equal; [|apply (IH pre (D ++ [SBatch b])); auto].
        unfold aborted_fate. destruct (rb_txn b) eqn:Etx; cbn [andb]; auto. f_equal.
        assert (Hd : memZ (rb_pid b) A1 = true <-> next_marker (rb_pid b) (flat_map chunk r ++ post) = Some 0)
          by (eapply decision; eauto).
        destruct (memZ (rb_pid b) A1).
        * destruct Hd as [Hd _]. now rewrite (Hd eq_refl).
        * destruct (next_marker (rb_pid b) (flat_map chunk r ++ post)) as [[|?|?]|] eqn:En; auto.
          destruct Hd as [_ Hd]. specialize (Hd eq_refl). discriminate.
  Qed.

  Lemma TxInv_init : TxInv [] [] (sort_idx idx0).
  Proof.
    split; [apply sort_idx_sorted|]. split.
    - intros e. rewrite sort_idx_In. split; [intros H; split; auto; intros (b & [] & _)|tauto].
    - intros p. cbn. split; [discriminate|]. intros (f & m & _ & _ & _ & (b & [] & _) & _).
  Qed.
End Walk.
