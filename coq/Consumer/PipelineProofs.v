(* Consumer — proofs about Pipeline.v, part 1: the protocol invariant.  For every sequence of enabled steps
   (any schedule of the worker, the dispatchers and the feeders, any fetch failures, per-partition verdicts,
   dispatch failures, reader paces) every partition is in exactly one place (at its dispatcher, in the
   worker's input buffer, subscribed, on the slow-reader path, closed), a response is put into a feeder
   channel only when that feeder is idle and holds nothing, the acks counter equals the number of
   subscribed children that have not yet processed the response, and no pointer the code dereferences is nil. *)
From Coq Require Import List ZArith Bool Lia Arith Setoid.
From SV Require Import Consumer.Parse Consumer.Pipeline.
Import ListNotations.
Open Scope Z_scope.

(* ------------------------------------------------------------------ lists of partition ids *)
Lemma memz_In : forall p l, memz p l = true <-> In p l.
Proof.
  intros p l. unfold memz. rewrite existsb_exists. split.
  - intros (x & Hx & E). apply Z.eqb_eq in E. now subst.
  - intros H. exists p. split; auto. apply Z.eqb_refl.
Qed.
Lemma memz_false : forall p l, memz p l = false <-> ~ In p l.
Proof. intros. rewrite <- memz_In. destruct (memz p l); split; congruence. Qed.

Lemma add_new_disjoint : forall adds l, NoDup adds -> (forall x, In x adds -> ~ In x l) -> add_new l adds = l ++ adds.
Proof.
  induction adds as [|a r IH]; intros l Hnd Hd; cbn [add_new]; [now rewrite app_nil_r|].
  inversion Hnd as [|? ? Ha Hr]; subst.
  assert (memz a l = false) as -> by (apply memz_false, Hd; now left).
  rewrite IH; auto.
  - now rewrite <- app_assoc.
  - intros x Hx Hin. apply in_app_or in Hin as [Hin|[<-|[]]]; [apply (Hd x); auto; now right|contradiction].
Qed.

Lemma firstn_skipn_in : forall (n : nat) (l : list Z) x, In x l <-> In x (firstn n l) \/ In x (skipn n l).
Proof. intros. rewrite <- (firstn_skipn n l) at 1. apply in_app_iff. Qed.

Lemma NoDup_firstn_skipn : forall (n : nat) (l : list Z), NoDup l ->
  NoDup (firstn n l) /\ NoDup (skipn n l) /\ forall x, In x (firstn n l) -> ~ In x (skipn n l).
Proof.
  intros n l H. rewrite <- (firstn_skipn n l) in H. revert H. generalize (firstn n l) (skipn n l).
  induction l0 as [|a r IH]; cbn; intros l1 H; [repeat split; auto; constructor|].
  inversion H as [|? ? Ha Hr]; subst. destruct (IH l1 Hr) as (A & B & C). repeat split; auto.
  - constructor; auto. intro; apply Ha, in_or_app; auto.
  - intros x [<-|Hx] Hin; [apply Ha, in_or_app; auto|eapply C; eauto].
Qed.

Definition nilb {A} (l : list A) : bool := match l with [] => true | _ => false end.
(* subscribed children whose feeder still holds the response *)
Definition pend (s : pipe) : nat := length (filter (fun q => negb (nilb (c_in (ch s q)))) (w_subs (wk s))).

Lemma filter_length_upd : forall (f g : Z -> bool) l p, NoDup l -> In p l -> f p = true -> g p = false ->
  (forall q, q <> p -> g q = f q) -> S (length (filter g l)) = length (filter f l).
Proof.
  induction l as [|a r IH]; intros p Hnd Hin Hf Hg Hext; [contradiction|]. inversion Hnd as [|? ? Ha Hr]; subst. cbn [filter].
  destruct Hin as [->|Hin].
  - rewrite Hf, Hg. cbn [length]. f_equal. f_equal. apply filter_ext_in. intros q Hq. apply Hext. intro; subst; contradiction.
  - assert (a <> p) by (intro; subst; contradiction). rewrite (Hext a H). destruct (f a); cbn [length]; [f_equal|]; eapply IH; eauto.
Qed.

Lemma filter_length_ext : forall (f g : Z -> bool) l, (forall q, In q l -> g q = f q) -> length (filter g l) = length (filter f l).
Proof. intros. f_equal. now apply filter_ext_in. Qed.

Lemma filter_all_length : forall (f : Z -> bool) l, (forall q, In q l -> f q = true) -> length (filter f l) = length l.
Proof. induction l as [|a r IH]; intros H; cbn; auto. rewrite (H a (or_introl eq_refl)). cbn. f_equal. apply IH. intros; apply H; now right. Qed.

Lemma filter_none_length : forall (f : Z -> bool) l, length (filter f l) = 0%nat -> forall q, In q l -> f q = false.
Proof.
  induction l as [|a r IH]; intros H q Hq; [contradiction|]. cbn in H. destruct (f a) eqn:E; [discriminate|].
  destruct Hq as [<-|Hq]; auto.
Qed.

Lemma filter_pos_ex : forall (f : Z -> bool) l, (0 < length (filter f l))%nat -> exists q, In q l /\ f q = true.
Proof.
  induction l as [|a r IH]; cbn; intros H; [lia|]. destruct (f a) eqn:E; [exists a; auto|].
  destruct (IH H) as (q & Hq & Hf). exists q; auto.
Qed.

(* ------------------------------------------------------------------ the invariant *)
Record PInv (w : worker) (p : Z) (x : child) : Prop := {
  pi_fresh : c_started x = false ->
             c_in x = [] /\ c_drain x = false /\ c_res x = RNil /\ c_trig x = false /\ c_closed x = false /\
             ~ In p (w_subs w) /\ ~ In p (w_buf w);
  pi_in : c_in x <> [] ->
          live w = true /\ w_wait w = true /\ In p (w_subs w) /\ (exists r, c_in x = [(c_pst x, r)]) /\
          c_drain x = false /\ c_res x = RNil;
  pi_idle : live w = true -> w_wait w = false -> In p (w_subs w) ->
            c_in x = [] /\ c_drain x = false /\ c_res x = RNil /\ ~ In p (w_buf w);
  pi_sub : live w = true -> In p (w_subs w) ->
           c_trig x = false /\ c_closed x = false /\ c_broker x = Some (w_gen w) /\ c_started x = true;
  pi_buf : live w = true -> In p (w_buf w) ->
           c_trig x = false /\ c_closed x = false /\ c_broker x = Some (w_gen w) /\ c_in x = [] /\ c_drain x = false /\
           c_started x = true /\ (In p (w_subs w) -> w_wait w = true /\ c_res x = RTimedOut);
  pi_drain : c_drain x = true ->
             c_in x = [] /\ c_trig x = false /\ c_closed x = false /\ (exists g, c_broker x = Some g) /\ c_started x = true /\
             (live w = true -> ~ In p (w_buf w)) /\
             (live w = true -> In p (w_subs w) -> w_wait w = true /\ c_res x = RTimedOut);
  pi_trig : c_trig x = true ->
            c_closed x = false /\ c_in x = [] /\ c_drain x = false /\ c_started x = true /\
            (live w = true -> ~ In p (w_subs w) /\ ~ In p (w_buf w));
  pi_closed : c_closed x = true ->
              c_in x = [] /\ c_drain x = false /\ (live w = true -> ~ In p (w_subs w) /\ ~ In p (w_buf w));
  pi_res : c_res x <> RNil -> live w = true /\ w_wait w = true /\ In p (w_subs w) /\ c_in x = [];
  pi_to : c_res x = RTimedOut -> c_drain x = true \/ In p (w_buf w);
  pi_where : c_started x = true -> c_closed x = false ->
             c_trig x = true \/ c_drain x = true \/ (live w = true /\ (In p (w_subs w) \/ In p (w_buf w)));
  pi_stream : c_out x ++ c_rem x = c_parsed x /\ (c_drain x = false -> c_rem x = [])
}.

Record Inv (s : pipe) : Prop := {
  inv_p : forall p, PInv (wk s) p (ch s p);
  inv_subs : NoDup (w_subs (wk s));
  inv_buf : NoDup (w_buf (wk s));
  inv_acks : live (wk s) = true -> w_wait (wk s) = true -> w_acks (wk s) = Z.of_nat (pend s)
}.

Lemma Inv_init : forall pst0, Inv (init_pipe pst0).
Proof.
  intros pst0. constructor.
  - intros q. constructor; cbn; intros; try discriminate; try congruence; try tauto; repeat split; auto.
  - cbn. constructor.
  - cbn. constructor.
  - cbn. discriminate.
Qed.

Lemma updc_same : forall f p v, updc f p v p = v.
Proof. intros. unfold updc. now rewrite Z.eqb_refl. Qed.
Lemma updc_other : forall f p v q, q <> p -> updc f p v q = f q.
Proof. intros. unfold updc. now assert (q =? p = false) as -> by (now apply Z.eqb_neq). Qed.

Ltac inv_fields H :=
  let f := fresh "Hfresh" in let i := fresh "Hin" in let d := fresh "Hidle" in let sb := fresh "Hsub" in
  let b := fresh "Hbuf" in let dr := fresh "Hdrain" in let t := fresh "Htrig" in let cl := fresh "Hclosed" in
  let r := fresh "Hres" in let o := fresh "Hto" in let wh := fresh "Hwhere" in let st := fresh "Hstream" in
  destruct H as [f i d sb b dr t cl r o wh st].

(* a child that nothing happened to, under a worker that differs only in acks *)
Lemma PInv_acks : forall w a p x, PInv w p x ->
  PInv {| w_gen := w_gen w; w_dead := w_dead w; w_subs := w_subs w; w_buf := w_buf w; w_acks := a; w_wait := w_wait w |} p x.
Proof. intros w a p x H. inv_fields H. constructor; auto. Qed.

Lemma NoDup_app_intro_single : forall (l : list Z) p, NoDup l -> ~ In p l -> NoDup (l ++ [p]).
Proof.
  induction l as [|a r IH]; intros p Hn Hp; cbn; [repeat constructor; auto|].
  inversion Hn; subst. constructor.
  - intro Hin. apply in_app_or in Hin as [Hin|[<-|[]]]; [contradiction|apply Hp; now left].
  - apply IH; auto. intro; apply Hp; now right.
Qed.

(* ------------------------------------------------------------------ generic moves of one partition *)
Definition push (w : worker) (p : Z) : worker :=
  {| w_gen := w_gen w; w_dead := false; w_subs := w_subs w; w_buf := w_buf w ++ [p]; w_acks := w_acks w; w_wait := w_wait w |}.

Lemma PInv_push_other : forall w p q x, PInv w q x -> q <> p -> live w = true -> PInv (push w p) q x.
Proof.
  intros w p q x H Hq Hl. inv_fields H.
  assert (Hb : In q (w_buf w ++ [p]) <-> In q (w_buf w)).
  { rewrite in_app_iff. cbn [In]. split.
    - intros [A|[A|[]]]; [auto|congruence].
    - intros A. left. exact A. }
  unfold live in *. constructor; cbn [push w_subs w_buf w_wait w_gen w_dead live negb]; unfold live; cbn [w_dead negb].
  - intros Hs. destruct (Hfresh Hs) as (A1 & A2 & A3 & A4 & A5 & A6 & A7). rewrite Hb. repeat split; auto.
  - intros Hi. destruct (Hin Hi) as (A1 & A2 & A3 & A4 & A5 & A6). repeat split; auto.
  - intros _ Hw Hs. rewrite Hb. apply Hidle; auto.
  - intros _ Hs. apply Hsub; auto.
  - intros _. rewrite Hb. intros Hq'. apply Hbuf; auto.
  - intros Hd. destruct (Hdrain Hd) as (A1 & A2 & A3 & A4 & A5 & A6 & A7). rewrite Hb.
    split; [auto|]. split; [auto|]. split; [auto|]. split; [auto|]. split; [auto|]. split; [auto|]. intros _ Hs. apply A7; auto.
  - intros Ht. destruct (Htrig Ht) as (A1 & A2 & A3 & A4 & A5). rewrite Hb. repeat split; auto; apply A5; auto.
  - intros Hc. destruct (Hclosed Hc) as (A1 & A2 & A3). rewrite Hb. repeat split; auto; apply A3; auto.
  - intros Hr. destruct (Hres Hr) as (A1 & A2 & A3 & A4). repeat split; auto.
  - intros Hr. rewrite Hb. auto.
  - intros Hs Hc. rewrite Hb. destruct (Hwhere Hs Hc) as [A|[A|[_ A]]]; auto.
  - auto.
Qed.

(* p is received by the (live) worker's manager *)
Lemma push_inv : forall w (ch0 ch' : Z -> child) p y,
  (forall q, q <> p -> PInv w q (ch0 q)) -> (forall q, q <> p -> ch' q = ch0 q) -> ch' p = y ->
  NoDup (w_subs w) -> NoDup (w_buf w) -> live w = true ->
  (w_wait w = true -> w_acks w = Z.of_nat (length (filter (fun q => negb (nilb (c_in (ch' q)))) (w_subs w)))) ->
  c_started y = true -> c_in y = [] -> c_drain y = false -> c_trig y = false -> c_closed y = false ->
  c_broker y = Some (w_gen w) -> c_out y ++ c_rem y = c_parsed y -> c_rem y = [] ->
  ~ In p (w_buf w) -> (In p (w_subs w) -> w_wait w = true /\ c_res y = RTimedOut) -> (~ In p (w_subs w) -> c_res y = RNil) ->
  Inv {| wk := push w p; ch := ch' |}.
Proof.
  intros w ch0 ch' p y HP Hoth Hy Hns Hnb Hl Hacks Y1 Y2 Y3 Y4 Y5 Y6 Y7 Y8 Hnin Hsub Hnsub.
  constructor; cbn [wk ch push w_subs w_buf w_wait w_acks].
  - intros q. destruct (Z.eq_dec q p) as [->|Hq].
    + rewrite Hy. constructor; cbn [push w_subs w_buf w_wait w_gen live w_dead negb].
      * intros E. congruence.
      * intros E. congruence.
      * intros _ Hw Hs. destruct (Hsub Hs). congruence.
      * intros _ Hs. repeat split; auto.
      * intros _ _. split; [auto|]. split; [auto|]. split; [auto|]. split; [auto|]. split; [auto|]. split; [auto|]. exact Hsub.
      * intros E. congruence.
      * intros E. congruence.
      * intros E. congruence.
      * intros Hr. destruct (in_dec Z.eq_dec p (w_subs w)) as [Hs|Hs]; [|rewrite (Hnsub Hs) in Hr; congruence].
        destruct (Hsub Hs). repeat split; auto.
      * intros _. right. apply in_or_app. right. now left.
      * intros _ _. right; right. split; auto. right. apply in_or_app. right. now left.
      * split; auto.
    + rewrite Hoth by auto. apply PInv_push_other; auto.
  - auto.
  - apply NoDup_app_intro_single; auto.
  - intros _ Hw. auto.
Qed.

(* the worker had aborted: refBrokerConsumer creates the next incarnation, with p as its first input *)
Definition newgen (w : worker) (p : Z) : worker :=
  {| w_gen := w_gen w + 1; w_dead := false; w_subs := []; w_buf := [p]; w_acks := 0; w_wait := false |}.

Lemma PInv_newgen_other : forall w p q x, PInv w q x -> q <> p -> w_dead w = true -> PInv (newgen w p) q x.
Proof.
  intros w p q x H Hq Hd. inv_fields H. unfold live in *. rewrite Hd in *. cbn [negb] in *.
  assert (Hnb : ~ In q [p]) by (intros [E|[]]; congruence).
  constructor; cbn [newgen w_subs w_buf w_wait w_gen live w_dead negb].
  - intros Hs. destruct (Hfresh Hs) as (A1 & A2 & A3 & A4 & A5 & _). repeat split; auto.
  - intros Hi. destruct (Hin Hi) as (A1 & _). discriminate.
  - intros _ _ [].
  - intros _ [].
  - intros _ Hb. contradiction.
  - intros Hdr. destruct (Hdrain Hdr) as (A1 & A2 & A3 & A4 & A5 & _ & _).
    split; [auto|]. split; [auto|]. split; [auto|]. split; [auto|]. split; [auto|]. split; [intros _; exact Hnb|]. intros _ [].
  - intros Ht. destruct (Htrig Ht) as (A1 & A2 & A3 & A4 & _). repeat split; auto.
  - intros Hc. destruct (Hclosed Hc) as (A1 & A2 & _). repeat split; auto.
  - intros Hr. destruct (Hres Hr) as (A1 & _). discriminate.
  - intros Hr. assert (Hne : c_res x <> RNil) by congruence. destruct (Hres Hne) as (A1 & _). discriminate.
  - intros Hs Hc. destruct (Hwhere Hs Hc) as [A|[A|[A _]]]; auto. discriminate.
  - auto.
Qed.

Lemma newgen_inv : forall w (ch0 ch' : Z -> child) p y,
  (forall q, q <> p -> PInv w q (ch0 q)) -> (forall q, q <> p -> ch' q = ch0 q) -> ch' p = y -> w_dead w = true ->
  c_started y = true -> c_in y = [] -> c_drain y = false -> c_trig y = false -> c_closed y = false ->
  c_broker y = Some (w_gen w + 1) -> c_out y ++ c_rem y = c_parsed y -> c_rem y = [] -> c_res y = RNil ->
  Inv {| wk := newgen w p; ch := ch' |}.
Proof.
  intros w ch0 ch' p y HP Hoth Hy Hd Y1 Y2 Y3 Y4 Y5 Y6 Y7 Y8 Y9.
  constructor; cbn [wk ch newgen w_subs w_buf w_wait w_acks].
  - intros q. destruct (Z.eq_dec q p) as [->|Hq].
    + rewrite Hy. constructor; cbn [newgen w_subs w_buf w_wait w_gen live w_dead negb].
      * intros E. congruence.
      * intros E. congruence.
      * intros _ _ [].
      * intros _ [].
      * intros _ _. split; [auto|]. split; [auto|]. split; [auto|]. split; [auto|]. split; [auto|]. split; [auto|]. intros [].
      * intros E. congruence.
      * intros E. congruence.
      * intros E. congruence.
      * intros E. congruence.
      * intros E. congruence.
      * intros _ _. right; right. split; auto. right. now left.
      * split; auto.
    + rewrite Hoth by auto. apply PInv_newgen_other; auto.
  - constructor.
  - repeat constructor. intros [].
  - intros _ E. discriminate.
Qed.

(* p gets a trigger token; nothing else moves *)
Lemma settrig_inv : forall w (ch0 ch' : Z -> child) p y,
  (forall q, q <> p -> PInv w q (ch0 q)) -> (forall q, q <> p -> ch' q = ch0 q) -> ch' p = y ->
  NoDup (w_subs w) -> NoDup (w_buf w) ->
  (live w = true -> w_wait w = true -> w_acks w = Z.of_nat (length (filter (fun q => negb (nilb (c_in (ch' q)))) (w_subs w)))) ->
  c_started y = true -> c_in y = [] -> c_drain y = false -> c_trig y = true -> c_closed y = false ->
  c_out y ++ c_rem y = c_parsed y -> c_rem y = [] -> c_res y = RNil ->
  (live w = true -> ~ In p (w_subs w) /\ ~ In p (w_buf w)) ->
  Inv {| wk := w; ch := ch' |}.
Proof.
  intros w ch0 ch' p y HP Hoth Hy Hns Hnb Hacks Y1 Y2 Y3 Y4 Y5 Y7 Y8 Y9 Hnot.
  constructor; cbn [wk ch]; auto.
  intros q. destruct (Z.eq_dec q p) as [->|Hq]; [|rewrite Hoth by auto; auto].
  rewrite Hy. constructor.
  - intros E. congruence.
  - intros E. congruence.
  - intros Hl _ Hs. destruct (Hnot Hl). contradiction.
  - intros Hl Hs. destruct (Hnot Hl). contradiction.
  - intros Hl Hb. destruct (Hnot Hl). contradiction.
  - intros E. congruence.
  - intros _. repeat split; auto; apply Hnot; auto.
  - intros E. congruence.
  - intros E. congruence.
  - intros E. congruence.
  - intros _ _. auto.
  - split; auto.
Qed.

Lemma res_nil_dec : forall r : res, r = RNil \/ r <> RNil.
Proof. intros [| |v]; [now left|right; discriminate|right; discriminate]. Qed.

Section Preservation.
  Variable c : cfg.

  (* ---------------------------------------------------------------- OTake *)
  Lemma take_inv : forall s p k, Inv s -> pre s (OTake p k) = true -> Inv (step c s (OTake p k)).
  Proof.
    intros s p k HI Hpre. destruct HI as [HP Hns Hnb Hacks]. cbn [pre] in Hpre.
    pose proof (HP p) as Hp. set (x := ch s p) in *.
    destruct (c_in x) as [|[sn r0] rest] eqn:Ein; [discriminate|]. apply negb_true_iff in Hpre.
    inv_fields Hp. destruct (Hin ltac:(rewrite Ein; discriminate)) as (Hl & Hw & Hs & (r & Er) & _ & Hr).
    rewrite Ein in Er. injection Er as -> -> ->. destruct (Hsub Hl Hs) as (Ht & Hc & Hb & Hst).
    assert (Hnbuf : ~ In p (w_buf (wk s))).
    { intro Hb'. destruct (Hbuf Hl Hb') as (_ & _ & _ & E & _). rewrite Ein in E. discriminate. }
    cbn [step]. fold x. rewrite Hb. unfold acks_done. rewrite Z.eqb_refl.
    assert (Etake : exists msgs st' v j,
              take c x k = {| c_started := c_started x; c_pst := st'; c_in := [];
                              c_rem := if Nat.ltb j (length msgs) then skipn j msgs else [];
                              c_drain := Nat.ltb j (length msgs);
                              c_res := if Nat.ltb j (length msgs) then RTimedOut else res_of v;
                              c_out := c_out x ++ (if Nat.ltb j (length msgs) then firstn j msgs else msgs);
                              c_parsed := c_parsed x ++ msgs; c_handed := c_handed x ++ [(c_pst x, r)];
                              c_trig := c_trig x; c_closed := c_closed x; c_broker := c_broker x |}).
    { unfold take. rewrite Ein. destruct (parse_response c (c_pst x) r) as [[[msgs st'] v] e].
      exists msgs, st', v, (match k with Some j => j | None => length msgs end). reflexivity. }
    destruct Etake as (msgs & st' & v & j & Etake). set (ex := Nat.ltb j (length msgs)) in *.
    constructor; cbn [wk ch w_subs w_buf w_acks w_wait w_gen w_dead].
    - intros q. destruct (Z.eq_dec q p) as [->|Hq].
      + rewrite updc_same, Etake. destruct Hstream as [Hs1 Hs2]. specialize (Hs2 Hpre).
        constructor; cbn [c_started c_pst c_in c_rem c_drain c_res c_out c_parsed c_handed c_trig c_closed c_broker
                          w_subs w_buf w_wait w_gen live w_dead]; unfold live in *; cbn [w_dead] in *.
        * congruence.
        * congruence.
        * congruence.
        * auto.
        * intros _ Hb'. contradiction.
        * intros Hex. split; [reflexivity|]. split; [auto|]. split; [auto|]. split; [eauto|]. split; [auto|].
          split; [intros _; auto|]. intros _ _. split; [auto|now rewrite Hex].
        * congruence.
        * congruence.
        * intros _. auto.
        * destruct ex; [auto|]. destruct v; discriminate.
        * intros _ _. right; right. auto.
        * rewrite Hs2, app_nil_r in Hs1. rewrite <- Hs1. split.
          -- destruct ex; [now rewrite <- app_assoc, firstn_skipn|now rewrite app_nil_r].
          -- intros ->. reflexivity.
      + rewrite updc_other by auto. apply PInv_acks with (a := w_acks (wk s) - 1). destruct (wk s); exact (HP q).
    - auto.
    - auto.
    - intros _ _. unfold live in *. specialize (Hacks Hl Hw). rewrite Hacks. unfold pend. cbn [wk ch w_subs].
      assert (Hcount : S (length (filter (fun q => negb (nilb (c_in (updc (ch s) p (take c x k) q)))) (w_subs (wk s)))) =
                       length (filter (fun q => negb (nilb (c_in (ch s q)))) (w_subs (wk s)))).
      { apply filter_length_upd with (p := p); auto.
        - fold x. now rewrite Ein.
        - now rewrite updc_same, Etake.
        - intros q Hq. now rewrite updc_other. }
      lia.
  Qed.

  Lemma pend_same_in : forall (ch0 ch' : Z -> child) l, (forall q, c_in (ch' q) = c_in (ch0 q)) ->
    length (filter (fun q => negb (nilb (c_in (ch' q)))) l) = length (filter (fun q => negb (nilb (c_in (ch0 q)))) l).
  Proof. intros. apply filter_length_ext. intros q _. now rewrite H. Qed.

  (* ---------------------------------------------------------------- ODrain *)
  Lemma drain_inv : forall s p, Inv s -> pre s (ODrain p) = true -> Inv (step c s (ODrain p)).
  Proof.
    intros s p HI Hpre. destruct HI as [HP Hns Hnb Hacks]. cbn [pre] in Hpre.
    pose proof (HP p) as Hp. set (x := ch s p) in *. inv_fields Hp.
    destruct (Hdrain Hpre) as (D1 & D2 & D3 & (g & D4) & D5 & D6 & D7). destruct Hstream as [S1 _].
    cbn [step]. fold x. rewrite D4. unfold enqueue. cbn [wk ch].
    set (ch1 := updc (ch s) p (drained x)).
    assert (Hcin : forall q, c_in (ch1 q) = c_in (ch s q)).
    { intros q. subst ch1. destruct (Z.eq_dec q p) as [->|Hq]; [rewrite updc_same; reflexivity|now rewrite updc_other]. }
    assert (A_oth : forall q, q <> p -> ch1 q = ch s q) by (intros q Hq; subst ch1; now rewrite updc_other).
    assert (A_str : c_out (drained x) ++ c_rem (drained x) = c_parsed (drained x)) by (cbn; now rewrite app_nil_r).
    destruct (live (wk s) && (g =? w_gen (wk s))) eqn:El.
    - apply andb_true_iff in El as [Hl Hg]. apply Z.eqb_eq in Hg. subst g.
      assert (A_same : ch1 p = drained x) by (subst ch1; apply updc_same).
      assert (A_acks : w_wait (wk s) = true ->
                w_acks (wk s) = Z.of_nat (length (filter (fun q => negb (nilb (c_in (ch1 q)))) (w_subs (wk s))))).
      { intros Hw. rewrite pend_same_in with (ch0 := ch s) by exact Hcin. apply Hacks; auto. }
      assert (A_sub : In p (w_subs (wk s)) -> w_wait (wk s) = true /\ c_res (drained x) = RTimedOut) by (intros Hs; apply D7; auto).
      assert (A_ns : ~ In p (w_subs (wk s)) -> c_res (drained x) = RNil).
      { intros Hs. cbn. destruct (res_nil_dec (c_res x)) as [E|Hne]; [exact E|exfalso].
        destruct (Hres Hne) as (_ & _ & A & _); contradiction. }
      apply (push_inv (wk s) (ch s) ch1 p (drained x)); auto.
    - assert (Hnot : live (wk s) = true -> ~ In p (w_subs (wk s)) /\ ~ In p (w_buf (wk s))).
      { intros Hl. split; [|auto]. intros Hs. destruct (Hsub Hl Hs) as (_ & _ & B & _). rewrite D4 in B. injection B as ->.
        rewrite Hl, Z.eqb_refl in El. discriminate. }
      assert (Hrn : c_res x = RNil).
      { destruct (res_nil_dec (c_res x)) as [E|Hne]; [exact E|exfalso].
        destruct (Hres Hne) as (A1 & _ & A & _); destruct (Hnot A1); contradiction. }
      set (ch2 := updc ch1 p (set_trig (ch1 p) true)).
      assert (B_oth : forall q, q <> p -> ch2 q = ch s q) by (intros q Hq; subst ch2; rewrite updc_other by auto; auto).
      assert (B_same : ch2 p = set_trig (drained x) true) by (subst ch2 ch1; now rewrite !updc_same).
      assert (B_acks : live (wk s) = true -> w_wait (wk s) = true ->
                w_acks (wk s) = Z.of_nat (length (filter (fun q => negb (nilb (c_in (ch2 q)))) (w_subs (wk s))))).
      { intros Hl Hw. rewrite pend_same_in with (ch0 := ch s); [apply Hacks; auto|].
        intros q. destruct (Z.eq_dec q p) as [->|Hq]; [rewrite B_same; cbn; now rewrite D1|now rewrite B_oth]. }
      apply (settrig_inv (wk s) (ch s) ch2 p (set_trig (drained x) true)); auto.
  Qed.

  (* the two outcomes of refBrokerConsumer + input <- child, for a child that is nowhere *)
  Lemma join_inv : forall s (ch1 : Z -> child) p y,
    Inv s -> (forall q, q <> p -> ch1 q = ch s q) -> ch1 p = y ->
    c_started y = true -> c_in y = [] -> c_drain y = false -> c_trig y = false -> c_closed y = false ->
    c_out y ++ c_rem y = c_parsed y -> c_rem y = [] -> c_res y = RNil -> c_in (ch s p) = [] ->
    (live (wk s) = true -> ~ In p (w_subs (wk s)) /\ ~ In p (w_buf (wk s))) ->
    Inv (join {| wk := wk s; ch := ch1 |} p).
  Proof.
    intros s ch1 p y HI Hoth Hy Y1 Y2 Y3 Y4 Y5 Y7 Y8 Y9 Hcin0 Hnot. destruct HI as [HP Hns Hnb Hacks].
    unfold join. cbn [wk ch]. rewrite Hy. destruct (w_dead (wk s)) eqn:Hd.
    - set (ch2 := updc ch1 p (set_broker y (Some (w_gen (wk s) + 1)))).
      assert (B_oth : forall q, q <> p -> ch2 q = ch s q) by (intros q Hq; subst ch2; rewrite updc_other by auto; auto).
      assert (B_same : ch2 p = set_broker y (Some (w_gen (wk s) + 1))) by (subst ch2; apply updc_same).
      apply (newgen_inv (wk s) (ch s) ch2 p (set_broker y (Some (w_gen (wk s) + 1)))); auto.
    - assert (Hl : live (wk s) = true) by (unfold live; now rewrite Hd). destruct (Hnot Hl) as [N1 N2].
      set (ch2 := updc ch1 p (set_broker y (Some (w_gen (wk s))))).
      assert (B_oth : forall q, q <> p -> ch2 q = ch s q) by (intros q Hq; subst ch2; rewrite updc_other by auto; auto).
      assert (B_same : ch2 p = set_broker y (Some (w_gen (wk s)))) by (subst ch2; apply updc_same).
      assert (B_acks : w_wait (wk s) = true ->
                w_acks (wk s) = Z.of_nat (length (filter (fun q => negb (nilb (c_in (ch2 q)))) (w_subs (wk s))))).
      { intros Hw. rewrite pend_same_in with (ch0 := ch s); [apply Hacks; auto|].
        intros q. destruct (Z.eq_dec q p) as [->|Hq]; [rewrite B_same; cbn; now rewrite Y2, Hcin0|now rewrite B_oth]. }
      assert (B_sub : In p (w_subs (wk s)) -> w_wait (wk s) = true /\ c_res (set_broker y (Some (w_gen (wk s)))) = RTimedOut) by (intros Hs; contradiction).
      apply (push_inv (wk s) (ch s) ch2 p (set_broker y (Some (w_gen (wk s))))); auto.
  Qed.

  (* ---------------------------------------------------------------- ODispatch *)
  Lemma dispatch_inv : forall s p ok, Inv s -> pre s (ODispatch p ok) = true -> Inv (step c s (ODispatch p ok)).
  Proof.
    intros s p ok HI Hpre. pose proof HI as HI0. destruct HI as [HP Hns Hnb Hacks]. cbn [pre] in Hpre.
    apply andb_true_iff in Hpre as [Ht Hc]. apply negb_true_iff in Hc.
    pose proof (HP p) as Hp. set (x := ch s p) in *. inv_fields Hp.
    destruct (Htrig Ht) as (T1 & T2 & T3 & T4 & T5). destruct Hstream as [S1 S2]. specialize (S2 T3).
    assert (Hrn : c_res x = RNil).
    { destruct (res_nil_dec (c_res x)) as [E|Hne]; [exact E|exfalso].
      destruct (Hres Hne) as (A1 & _ & A & _); destruct (T5 A1); contradiction. }
    cbn [step]. fold x. set (x1 := set_broker (set_trig x false) None). set (ch1 := updc (ch s) p x1).
    assert (A_oth : forall q, q <> p -> ch1 q = ch s q) by (intros q Hq; subst ch1; now rewrite updc_other).
    assert (A_same : ch1 p = x1) by (subst ch1; apply updc_same).
    destruct ok.
    - apply (join_inv s ch1 p x1); auto.
    - set (ch2 := updc (ch s) p (set_trig x1 true)).
      assert (B_oth : forall q, q <> p -> ch2 q = ch s q) by (intros q Hq; subst ch2; now rewrite updc_other).
      assert (B_same : ch2 p = set_trig x1 true) by (subst ch2; apply updc_same).
      assert (B_acks : live (wk s) = true -> w_wait (wk s) = true ->
                w_acks (wk s) = Z.of_nat (length (filter (fun q => negb (nilb (c_in (ch2 q)))) (w_subs (wk s))))).
      { intros Hl Hw. rewrite pend_same_in with (ch0 := ch s); [apply Hacks; auto|].
        intros q. destruct (Z.eq_dec q p) as [->|Hq]; [rewrite B_same; reflexivity|now rewrite B_oth]. }
      apply (settrig_inv (wk s) (ch s) ch2 p (set_trig x1 true)); auto.
  Qed.

  (* ---------------------------------------------------------------- OStart *)
  Lemma start_inv : forall s p, Inv s -> pre s (OStart p) = true -> Inv (step c s (OStart p)).
  Proof.
    intros s p HI Hpre. pose proof HI as HI0. destruct HI as [HP Hns Hnb Hacks]. cbn [pre] in Hpre.
    apply negb_true_iff in Hpre. pose proof (HP p) as Hp. set (x := ch s p) in *. inv_fields Hp.
    destruct (Hfresh Hpre) as (F1 & F2 & F3 & F4 & F5 & F6 & F7). destruct Hstream as [S1 S2]. specialize (S2 F2).
    cbn [step]. fold x. set (ch1 := updc (ch s) p (set_started x)).
    assert (A_oth : forall q, q <> p -> ch1 q = ch s q) by (intros q Hq; subst ch1; now rewrite updc_other).
    assert (A_same : ch1 p = set_started x) by (subst ch1; apply updc_same).
    apply (join_inv s ch1 p (set_started x)); auto.
  Qed.

  (* ---------------------------------------------------------------- OHandle *)
  Lemma class_keep : forall r, handle_class r = HKeep <-> r = RNil.
  Proof.
    intros [| |v]; cbn; split; intros H; try discriminate; auto.
    destruct v as [|k| |]; try discriminate. destruct k as [|[?|?|]|]; discriminate.
  Qed.
  Lemma class_drop : forall r, handle_class r = HDrop <-> r = RTimedOut.
  Proof.
    intros [| |v]; cbn; split; intros H; try discriminate; auto.
    destruct v as [|k| |]; try discriminate. destruct k as [|[?|?|]|]; discriminate.
  Qed.
  Lemma class_err : forall r, handle_class r = HClose \/ handle_class r = HRedispatch -> exists v, r = RErr v.
  Proof. intros [| |v]; cbn; intros [H|H]; try discriminate; eauto. Qed.

  Definition keepb (s : pipe) (q : Z) : bool := match handle_class (c_res (ch s q)) with HKeep => true | _ => false end.

  Lemma handle_inv : forall s, Inv s -> pre s OHandle = true -> Inv (step c s OHandle).
  Proof.
    intros s HI Hpre. destruct HI as [HP Hns Hnb Hacks]. cbn [pre] in Hpre.
    apply andb_true_iff in Hpre as [Hpre Ha]. apply andb_true_iff in Hpre as [Hl Hw]. apply Z.eqb_eq in Ha.
    specialize (Hacks Hl Hw). rewrite Ha in Hacks. assert (Hp0 : pend s = 0%nat) by lia.
    assert (Hnil : forall q, In q (w_subs (wk s)) -> c_in (ch s q) = []).
    { intros q Hq. pose proof (filter_none_length _ _ Hp0 q Hq) as E. cbn in E. apply negb_false_iff in E.
      destruct (c_in (ch s q)); [reflexivity|discriminate]. }
    cbn [step]. fold (keepb s).
    assert (Hsubs' : forall q, In q (filter (keepb s) (w_subs (wk s))) <-> In q (w_subs (wk s)) /\ c_res (ch s q) = RNil).
    { intros q. rewrite filter_In. unfold keepb. split; intros [A B]; split; auto.
      - apply class_keep. destruct (handle_class (c_res (ch s q))); congruence.
      - apply class_keep in B. now rewrite B. }
    constructor; cbn [wk ch w_subs w_buf w_wait w_acks].
    - intros q. pose proof (HP q) as Hq. pose proof (Hsubs' q) as Hsq. pose proof (Hnil q) as Hnq. clear Hsubs'.
      remember (ch s q) as x eqn:Ex. inv_fields Hq. unfold live in *. cbn [w_dead] in *.
      destruct (memz q (w_subs (wk s))) eqn:Em.
      + apply memz_In in Em. pose proof (Hnq Em) as Ecin.
        destruct (Hsub Hl Em) as (B1 & B2 & B3 & B4).
        assert (Hnd : c_res x <> RTimedOut -> c_drain x = false).
        { intros Hne. destruct (c_drain x) eqn:Ed; auto. destruct (Hdrain eq_refl) as (_ & _ & _ & _ & _ & _ & A). destruct (A Hl Em). congruence. }
        assert (Hnbuf : c_res x <> RTimedOut -> ~ In q (w_buf (wk s))).
        { intros Hne Hb. destruct (Hbuf Hl Hb) as (_ & _ & _ & _ & _ & _ & A). destruct (A Em). congruence. }
        constructor; cbn [handled c_started c_pst c_in c_rem c_drain c_res c_out c_parsed c_handed c_trig c_closed c_broker
                          w_subs w_buf w_wait w_gen live w_dead negb]; rewrite ?Hsq.
        * intros E. congruence.
        * intros E. congruence.
        * intros _ _ [_ Er]. assert (Hne : c_res x <> RTimedOut) by congruence. repeat split; auto.
        * intros _ [_ Er]. rewrite Er. cbn. repeat split; auto.
        * intros _ Hb. destruct (Hbuf Hl Hb) as (A1 & A2 & A3 & A4 & A5 & A6 & A7). destruct (A7 Em) as [_ Er]. rewrite Er. cbn.
          split; [auto|]. split; [auto|]. split; [auto|]. split; [auto|]. split; [auto|]. split; [auto|]. intros [_ E]. congruence.
        * intros Hd. destruct (Hdrain Hd) as (A1 & A2 & A3 & A4 & A5 & A6 & A7). destruct (A7 Hl Em) as [_ Er]. rewrite Er. cbn.
          split; [auto|]. split; [auto|]. split; [auto|]. split; [auto|]. split; [auto|]. split; [auto|]. intros _ [_ E]. congruence.
        * destruct (handle_class (c_res x)) eqn:Ec; try congruence. intros _.
          destruct (class_err (c_res x) (or_intror Ec)) as (v & Ev).
          assert (Hne : c_res x <> RTimedOut) by congruence.
          split; [auto|]. split; [auto|]. split; [auto|]. split; [auto|]. intros _. split; [intros [_ E]; congruence|auto].
        * destruct (handle_class (c_res x)) eqn:Ec; try congruence. intros _.
          destruct (class_err (c_res x) (or_introl Ec)) as (v & Ev).
          assert (Hne : c_res x <> RTimedOut) by congruence.
          split; [auto|]. split; [auto|]. intros _. split; [intros [_ E]; congruence|auto].
        * intros E. congruence.
        * intros E. congruence.
        * intros _. destruct (handle_class (c_res x)) eqn:Ec.
          -- intros _. right; right. split; auto. left. split; auto. now apply class_keep.
          -- intros _. apply class_drop in Ec. destruct (Hto Ec) as [A|A]; auto.
          -- intros E. discriminate.
          -- intros _. auto.
        * auto.
      + apply memz_false in Em.
        constructor; cbn [w_subs w_buf w_wait w_gen live w_dead negb]; rewrite ?Hsq.
        * intros E. destruct (Hfresh E) as (A1 & A2 & A3 & A4 & A5 & A6 & A7). repeat split; auto. intros [A _]. contradiction.
        * intros E. destruct (Hin E) as (_ & _ & A & _). contradiction.
        * intros _ _ [A _]. contradiction.
        * intros _ [A _]. contradiction.
        * intros _ Hb. destruct (Hbuf Hl Hb) as (A1 & A2 & A3 & A4 & A5 & A6 & A7).
          split; [auto|]. split; [auto|]. split; [auto|]. split; [auto|]. split; [auto|]. split; [auto|]. intros [A _]. contradiction.
        * intros Hd. destruct (Hdrain Hd) as (A1 & A2 & A3 & A4 & A5 & A6 & A7).
          split; [auto|]. split; [auto|]. split; [auto|]. split; [auto|]. split; [auto|]. split; [auto|]. intros _ [A _]. contradiction.
        * intros Ht. destruct (Htrig Ht) as (A1 & A2 & A3 & A4 & A5). destruct (A5 Hl).
          split; [auto|]. split; [auto|]. split; [auto|]. split; [auto|]. intros _. split; [intros [A _]; contradiction|auto].
        * intros Hc. destruct (Hclosed Hc) as (A1 & A2 & A3). destruct (A3 Hl).
          split; [auto|]. split; [auto|]. intros _. split; [intros [A _]; contradiction|auto].
        * intros E. destruct (Hres E) as (_ & _ & A & _). contradiction.
        * intros E. assert (Hne : c_res x <> RNil) by congruence. destruct (Hres Hne) as (_ & _ & A & _). contradiction.
        * intros Hs Hc. destruct (Hwhere Hs Hc) as [A|[A|[_ [A|A]]]]; auto; contradiction.
        * auto.
    - now apply NoDup_filter.
    - auto.
    - intros _ E. discriminate.
  Qed.

  (* ---------------------------------------------------------------- ORound *)
  Lemma PInv_same : forall w w' p x, w_gen w = w_gen w' -> w_dead w = w_dead w' -> w_subs w = w_subs w' ->
    w_buf w = w_buf w' -> w_wait w = w_wait w' -> PInv w p x -> PInv w' p x.
  Proof.
    intros [g d sb bf a wt] [g' d' sb' bf' a' wt'] p x. cbn. intros -> -> -> -> -> H. inv_fields H. constructor; auto.
  Qed.

  Lemma nodupb_NoDup : forall l, nodupb l = true -> NoDup l.
  Proof.
    induction l as [|a r IH]; cbn; intros H; constructor.
    - apply andb_true_iff in H as [H _]. apply negb_true_iff in H. now apply memz_false.
    - apply IH. now apply andb_true_iff in H as [_ H].
  Qed.

  Lemma round_inv : forall s adds e, Inv s -> pre s (ORound adds e) = true -> Inv (step c s (ORound adds e)).
  Proof.
    intros s adds e HI Hpre. destruct HI as [HP Hns Hnb Hacks]. cbn [pre] in Hpre.
    apply andb_true_iff in Hpre as [Hpre Hincl]. apply andb_true_iff in Hpre as [Hpre Hnd].
    apply andb_true_iff in Hpre as [Hl Hw]. apply negb_true_iff in Hw.
    pose proof (nodupb_NoDup _ Hnd) as Nadds. rewrite forallb_forall in Hincl.
    set (buf' := filter (fun q => negb (memz q adds)) (w_buf (wk s))).
    assert (Nbuf' : NoDup buf') by (subst buf'; now apply NoDup_filter).
    assert (Hbufsplit : forall q, In q (w_buf (wk s)) <-> In q adds \/ In q buf').
    { intros q. subst buf'. rewrite filter_In. split.
      - intros Hb. destruct (memz q adds) eqn:Em; [left; now apply memz_In|right; split; auto; now rewrite Em].
      - intros [Ha|[Hb _]]; auto. apply memz_In. now apply Hincl. }
    assert (Ndis : forall q, In q adds -> ~ In q buf').
    { intros q Ha Hb. subst buf'. apply filter_In in Hb as [_ Hb]. apply negb_true_iff in Hb. apply memz_false in Hb. contradiction. }
    (* a buffered child is not subscribed while the worker is between rounds *)
    assert (Hbs : forall q, In q (w_buf (wk s)) -> ~ In q (w_subs (wk s))).
    { intros q Hb Hs. destruct (pi_buf _ _ _ (HP q) Hl Hb) as (_ & _ & _ & _ & _ & _ & A). destruct (A Hs). congruence. }
    assert (Esubs : add_new (w_subs (wk s)) adds = w_subs (wk s) ++ adds).
    { apply add_new_disjoint; auto. intros q Hq. apply Hbs, Hbufsplit. now left. }
    assert (Nsubs' : NoDup (w_subs (wk s) ++ adds)).
    { clear -Hns Nadds Hbs Hbufsplit. induction (w_subs (wk s)) as [|a r IH]; cbn; auto. inversion Hns; subst. constructor.
      - intro Hin. apply in_app_or in Hin as [Hin|Hin]; [contradiction|]. apply (Hbs a); [apply Hbufsplit; now left|now left].
      - apply IH; auto. intros q Hb Hs. apply (Hbs q Hb). now right. }
    (* what is known about a child that is subscribed after the update *)
    assert (Hnew : forall q, In q (w_subs (wk s) ++ adds) ->
              c_in (ch s q) = [] /\ c_drain (ch s q) = false /\ c_res (ch s q) = RNil /\ c_trig (ch s q) = false /\
              c_closed (ch s q) = false /\ c_broker (ch s q) = Some (w_gen (wk s)) /\ c_started (ch s q) = true /\ ~ In q buf').
    { intros q Hq. pose proof (HP q) as Hpq. inv_fields Hpq. apply in_app_or in Hq as [Hq|Hq].
      - destruct (Hidle Hl Hw Hq) as (A1 & A2 & A3 & A4). destruct (Hsub Hl Hq) as (B1 & B2 & B3 & B4).
        repeat split; auto. intro Hb. apply A4, Hbufsplit. now right.
      - assert (Hb : In q (w_buf (wk s))) by (apply Hbufsplit; now left).
        destruct (Hbuf Hl Hb) as (B1 & B2 & B3 & B4 & B5 & B6 & _).
        assert (c_res (ch s q) = RNil).
        { destruct (res_nil_dec (c_res (ch s q))) as [E|Hne]; auto. destruct (Hres Hne) as (_ & A & _). congruence. }
        repeat split; auto. }
    (* nobody holds a response or a result between rounds *)
    assert (Hquiet : forall q, c_in (ch s q) = [] /\ c_res (ch s q) = RNil).
    { intros q. pose proof (HP q) as Hpq. inv_fields Hpq. split.
      - destruct (c_in (ch s q)) eqn:E; auto. destruct (Hin ltac:(congruence)) as (_ & A & _). congruence.
      - destruct (res_nil_dec (c_res (ch s q))) as [E|Hne]; auto. destruct (Hres Hne) as (_ & A & _). congruence. }
    cbn [step]. fold buf'. rewrite Esubs.
    destruct (w_subs (wk s) ++ adds) as [|a0 r0] eqn:Es'.
    - (* nothing to fetch for *)
      apply app_eq_nil in Es' as [Es Ea].
      assert (Eb : buf' = w_buf (wk s)).
      { subst buf'. rewrite Ea. cbn. clear. induction (w_buf (wk s)) as [|a r IH]; cbn; auto. now rewrite IH. }
      constructor; cbn [wk ch w_subs w_buf w_wait w_acks].
      + intros q. apply PInv_same with (w := wk s); cbn; auto. unfold live in Hl. now apply negb_true_iff in Hl.
      + constructor.
      + exact Nbuf'.
      + intros _ E. discriminate.
    - rewrite <- Es' in *. clear Es'. destruct e as [|f].
      + (* the fetch failed: abort *)
        constructor; cbn [wk ch w_subs w_buf w_wait w_acks live w_dead negb]; auto; try discriminate.
        intros q. pose proof (HP q) as Hpq. destruct (Hquiet q) as [Q1 Q2].
        destruct (memz q (w_subs (wk s) ++ adds) || memz q buf') eqn:Em.
        * assert (Hfacts : c_drain (ch s q) = false /\ c_closed (ch s q) = false /\ c_started (ch s q) = true).
          { apply orb_true_iff in Em as [Em|Em]; apply memz_In in Em.
            - destruct (Hnew q Em) as (_ & A2 & _ & _ & A5 & _ & A7 & _). auto.
            - assert (Hb : In q (w_buf (wk s))) by (apply Hbufsplit; now right).
              destruct (pi_buf _ _ _ Hpq Hl Hb) as (_ & B2 & _ & _ & B5 & B6 & _). auto. }
          destruct Hfacts as (F1 & F2 & F3). inv_fields Hpq.
          constructor; cbn [set_trig c_started c_pst c_in c_rem c_drain c_res c_out c_parsed c_handed c_trig c_closed c_broker
                            w_subs w_buf w_wait w_gen live w_dead negb].
          -- intros E. congruence.
          -- intros E. congruence.
          -- intros E. discriminate.
          -- intros E. discriminate.
          -- intros E. discriminate.
          -- intros E. congruence.
          -- intros _. split; [auto|]. split; [auto|]. split; [auto|]. split; [auto|]. intros E. discriminate.
          -- intros E. congruence.
          -- intros E. congruence.
          -- intros E. congruence.
          -- intros _ _. left. reflexivity.
          -- exact Hstream.
        * apply orb_false_iff in Em as [Em1 Em2]. apply memz_false in Em1, Em2. inv_fields Hpq.
          constructor; cbn [w_subs w_buf w_wait w_gen live w_dead negb].
          -- intros E. destruct (Hfresh E) as (A1 & A2 & A3 & A4 & A5 & _). repeat split; auto.
          -- intros E. congruence.
          -- intros E. discriminate.
          -- intros E. discriminate.
          -- intros E. discriminate.
          -- intros Hd. destruct (Hdrain Hd) as (A1 & A2 & A3 & A4 & A5 & _).
             split; [auto|]. split; [auto|]. split; [auto|]. split; [auto|]. split; [auto|]. split; intros E; discriminate.
          -- intros Ht. destruct (Htrig Ht) as (A1 & A2 & A3 & A4 & _).
             split; [auto|]. split; [auto|]. split; [auto|]. split; [auto|]. intros E; discriminate.
          -- intros Hc. destruct (Hclosed Hc) as (A1 & A2 & _). split; [auto|]. split; [auto|]. intros E; discriminate.
          -- intros E. congruence.
          -- intros E. congruence.
          -- intros Hs Hc. destruct (Hwhere Hs Hc) as [A|[A|[_ [A|A]]]]; auto; exfalso.
             ++ apply Em1, in_or_app. now left.
             ++ apply Hbufsplit in A as [A|A]; [apply Em1, in_or_app; now right|contradiction].
          -- exact Hstream.
      + (* responses handed to every subscribed child *)
        constructor; cbn [wk ch w_subs w_buf w_wait w_acks live w_dead negb]; auto.
        * intros q. pose proof (HP q) as Hpq. destruct (Hquiet q) as [Q1 Q2].
          destruct (memz q (w_subs (wk s) ++ adds)) eqn:Em.
          -- apply memz_In in Em. destruct (Hnew q Em) as (A1 & A2 & A3 & A4 & A5 & A6 & A7 & A8). inv_fields Hpq.
             constructor; cbn [push_in c_started c_pst c_in c_rem c_drain c_res c_out c_parsed c_handed c_trig c_closed c_broker
                               w_subs w_buf w_wait w_gen live w_dead negb].
             ++ intros E. congruence.
             ++ intros _. rewrite A1. cbn [app]. split; [auto|]. split; [auto|]. split; [auto|]. split; [eauto|]. split; auto.
             ++ intros _ E. discriminate.
             ++ intros _ _. repeat split; auto.
             ++ intros _ Hb. contradiction.
             ++ intros E. congruence.
             ++ intros E. congruence.
             ++ intros E. congruence.
             ++ intros E. congruence.
             ++ intros E. congruence.
             ++ intros _ _. right; right. split; auto.
             ++ exact Hstream.
          -- apply memz_false in Em. inv_fields Hpq.
             assert (Hsubq : ~ In q (w_subs (wk s))) by (intro; apply Em, in_or_app; now left).
             constructor; cbn [w_subs w_buf w_wait w_gen live w_dead negb].
             ++ intros E. destruct (Hfresh E) as (B1 & B2 & B3 & B4 & B5 & B6 & B7). repeat split; auto.
                intro Hb. apply B7, Hbufsplit. now right.
             ++ intros E. congruence.
             ++ intros _ E. discriminate.
             ++ intros _ Hs. contradiction.
             ++ intros _ Hb. assert (Hb0 : In q (w_buf (wk s))) by (apply Hbufsplit; now right).
                destruct (Hbuf Hl Hb0) as (B1 & B2 & B3 & B4 & B5 & B6 & _).
                split; [auto|]. split; [auto|]. split; [auto|]. split; [auto|]. split; [auto|]. split; [auto|]. intros Hs. contradiction.
             ++ intros Hd. destruct (Hdrain Hd) as (B1 & B2 & B3 & B4 & B5 & B6 & B7).
                split; [auto|]. split; [auto|]. split; [auto|]. split; [auto|]. split; [auto|].
                split; [intros _ Hb; apply (B6 Hl), Hbufsplit; now right|]. intros _ Hs. contradiction.
             ++ intros Ht. destruct (Htrig Ht) as (B1 & B2 & B3 & B4 & B5). destruct (B5 Hl) as [B6 B7].
                split; [auto|]. split; [auto|]. split; [auto|]. split; [auto|]. intros _. split; [auto|]. intro Hb. apply B7, Hbufsplit. now right.
             ++ intros Hc. destruct (Hclosed Hc) as (B1 & B2 & B3). destruct (B3 Hl) as [B6 B7].
                split; [auto|]. split; [auto|]. intros _. split; [auto|]. intro Hb. apply B7, Hbufsplit. now right.
             ++ intros E. congruence.
             ++ intros E. congruence.
             ++ intros Hs Hc. destruct (Hwhere Hs Hc) as [A|[A|[_ [A|A]]]]; [auto|auto| |].
                ** exfalso. apply Hsubq. exact A.
                ** apply Hbufsplit in A as [A|A]; [exfalso; apply Em, in_or_app; now right|]. right; right. auto.
             ++ exact Hstream.
        * intros _ _. unfold pend. cbn [wk ch w_subs]. rewrite filter_all_length; auto.
          intros q Hq. apply memz_In in Hq. rewrite Hq. cbn. destruct (c_in (ch s q)); reflexivity.
  Qed.

  Theorem step_inv : forall s o, Inv s -> pre s o = true -> Inv (step c s o).
  Proof.
    intros s [p|n e|p k|p| |p ok] HI Hpre.
    - now apply start_inv. - now apply round_inv. - now apply take_inv. - now apply drain_inv.
    - now apply handle_inv. - now apply dispatch_inv.
  Qed.
End Preservation.
