(* Consumer — executable model of partitionConsumer.responseFeeder (consumer.go): the hand-off of the parsed
   messages of each fetch response to the Messages() channel.  No proofs here.

   Per response: for every message, run the interceptor chain, then block in a select on
     child.messages <- msg      (the reader takes it: firstAttempt = true)
     <-expiryTicker.C           (MaxProcessingTime ticks while blocked)
   The first tick with firstAttempt = true only clears the flag and returns to the select; a tick with the flag
   clear takes the slow-reader path: responseResult = errTimedOut, the broker worker is released (acks.Done),
   the remaining messages msgs[i:] are sent with plain blocking sends, and the partition re-subscribes.
   The flag is not reset on that path, so it is carried into the next response.

   [reapply] selects the pinned tree's behaviour (true): on the slow-reader path the chain is applied again to
   every element of msgs[i:], including msgs[i] which already went through it before the select; with
   fixes/c18_consumer_interceptor.patch (false) msgs[i] is not intercepted again.

   Time is abstract: the schedule gives, per message reached on the fast path, how many ticks fire while the
   feeder is blocked on it before the reader is ready.  Shutdown (child.dying) is not modelled (C12). *)
From Coq Require Import List ZArith Bool Arith.
Import ListNotations.

Section Feeder.
  Variable P : Type.                          (* mutable content of a ConsumerMessage *)
  Definition msg : Type := (Z * P)%type.      (* identity (offset) and content *)
  (* interceptor: new content, and whether OnConsume panicked (safelyApplyInterceptor recovers) *)
  Definition icpt : Type := Z -> P -> P * bool.

  Inductive fev :=
  | Intercept (k : nat) (id : Z) (panicked : bool)   (* interceptor k called on message id *)
  | Deliver (m : msg)                                 (* sent on child.messages *)
  | TimedOut                                          (* responseResult = errTimedOut *)
  | AckDone                                           (* child.broker.acks.Done() *)
  | Resubscribe.                                      (* child.broker.input <- child *)

  (* child.interceptors(msg): the chain from interceptor index k on *)
  Fixpoint chain (k : nat) (is : list icpt) (m : msg) : msg * list fev :=
    match is with
    | [] => (m, [])
    | f :: r => let '(p, pan) := f (fst m) (snd m) in
                let '(m', evs) := chain (S k) r (fst m, p) in
                (m', Intercept k (fst m) pan :: evs)
    end.

  Variable reapply : bool.
  Variable is : list icpt.

  (* remainingLoop over msgs[i+1:] *)
  Fixpoint remaining (ms : list msg) : list fev :=
    match ms with
    | [] => []
    | m :: r => let '(m', evs) := chain 0 is m in evs ++ Deliver m' :: remaining r
    end.

  (* does the feeder give up on the message it is blocked on after t ticks? *)
  Definition expires (first_attempt : bool) (t : nat) : bool :=
    if first_attempt then 2 <=? t else 1 <=? t.

  (* one response: returns the flag left behind and the events *)
  Fixpoint feed (fa : bool) (ms : list msg) (sched : list nat) : bool * list fev :=
    match ms with
    | [] => (fa, [AckDone])
    | m :: r =>
        let '(m', evs) := chain 0 is m in
        let t := hd 0 sched in
        if expires fa t then
          (* slow-reader path; m' is msgs[i], already intercepted *)
          let first := if reapply then (let '(m'', evs2) := chain 0 is m' in evs2 ++ [Deliver m''])
                       else [Deliver m'] in
          (false, evs ++ TimedOut :: AckDone :: first ++ remaining r ++ [Resubscribe])
        else
          let '(fa', evs') := feed true r (tl sched) in
          (fa', evs ++ Deliver m' :: evs')
    end.

  (* a sequence of responses with their schedules *)
  Fixpoint feed_all (fa : bool) (rs : list (list msg)) (scheds : list (list nat)) : bool * list fev :=
    match rs with
    | [] => (fa, [])
    | ms :: r => let '(fa1, e1) := feed fa ms (hd [] scheds) in
                 let '(fa2, e2) := feed_all fa1 r (tl scheds) in (fa2, e1 ++ e2)
    end.
End Feeder.

Arguments Intercept {P}.
Arguments Deliver {P}.
Arguments TimedOut {P}.
Arguments AckDone {P}.
Arguments Resubscribe {P}.

(* projections of an event list *)
Fixpoint delivered {P} (evs : list (fev P)) : list (msg P) :=
  match evs with [] => [] | Deliver m :: r => m :: delivered r | _ :: r => delivered r end.
Fixpoint calls {P} (k : nat) (id : Z) (evs : list (fev P)) : nat :=
  match evs with
  | [] => 0
  | Intercept k' id' _ :: r => (if Nat.eqb k k' && Z.eqb id id' then 1 else 0) + calls k id r
  | _ :: r => calls k id r
  end.

(* the content a message must arrive with: every interceptor applied once, in configuration order *)
Fixpoint apply_all {P} (is : list (icpt P)) (id : Z) (p : P) : P :=
  match is with [] => p | f :: r => apply_all r id (fst (f id p)) end.
