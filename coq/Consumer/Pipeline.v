(* Consumer — executable model of the composition around one broker (consumer.go): the broker worker
   (brokerConsumer: subscriptionManager batching, subscriptionConsumer fetch loop, the acks barrier as a
   counter, handleResponses, abort), the per-partition dispatcher (trigger, dispatch success / failure,
   child.broker = nil) and the per-partition response feeder (parseResponse, hand-off, slow-reader path,
   re-subscription).  Any number of partitions; the worker may die (abort on a failed fetch) and be
   re-created (refBrokerConsumer after abandonBrokerConsumer): worker incarnations are numbered.  No proofs here.

   Granularity (one step = one atomic action of one goroutine, split at every access to shared state):
     OStart p        ConsumePartition: child.broker = refBrokerConsumer(leader); broker.input <- child
     ORound adds env subscriptionConsumer, one loop iteration: updateSubscriptions with the batch the manager handed
                     over (any subset [adds] of the buffered children), then fetchNewMessages: failure => abort (every subscribed
                     and every buffered child is triggered, the worker is dead); success => acks.Add(len), the
                     response is put into every subscribed child's feeder channel
     OTake p k       responseFeeder of p takes a response: parseResponse (the only place child.offset / fetchSize
                     change), hands the messages over; k = Some j: MaxProcessingTime expired while blocked on the
                     j-th message (responseResult = errTimedOut, acks.Done, the rest is sent by ODrain);
                     otherwise all messages are handed over, responseResult = the verdict, acks.Done
     ODrain p        slow-reader path finished: remaining messages sent, child.broker.input <- child
     OHandle         acks.Wait returned: handleResponses over all subscriptions
     ODispatch p ok  dispatcher of p after its back-off: unref + child.broker = nil, dispatch(): failure => error and
                     trigger again; success => child.broker = worker, broker.input <- child
   Not modelled: shutdown (child.dying, C12), preferred-read-replica redispatch, the errors channel. *)
From Coq Require Import List ZArith Bool.
From SV Require Import Consumer.Parse.
Import ListNotations.
Open Scope Z_scope.

(* child.responseResult *)
Inductive res := RNil | RTimedOut | RErr (v : verdict).
Definition res_of (v : verdict) : res := match v with VOk => RNil | _ => RErr v end.

(* what handleResponses does with a subscription *)
Inductive hclass := HKeep | HDrop | HClose | HRedispatch.
Definition handle_class (r : res) : hclass :=
  match r with
  | RNil => HKeep
  | RTimedOut => HDrop                       (* abandoned: consuming was taking too long; the feeder re-subscribes *)
  | RErr (VKError 1) => HClose               (* ErrOffsetOutOfRange: error, close(trigger) *)
  | RErr _ => HRedispatch                    (* 3, 6, 5, 9: silently; anything else: error; trigger <- none, unsubscribe *)
  end.

Record child := {
  c_started : bool;
  c_pst : pstate;                          (* offset, fetchSize, ... *)
  c_in : list (pstate * response);         (* child.feeder channel; ghost: the state the request was built from *)
  c_rem : list cmsg;                       (* slow-reader path: messages still to be sent *)
  c_drain : bool;                          (* the feeder is on the slow-reader path *)
  c_res : res;                             (* child.responseResult *)
  c_out : list cmsg;                       (* everything sent on child.messages *)
  c_parsed : list cmsg;                    (* ghost: concatenation of the parseResponse outputs *)
  c_handed : list (pstate * response);     (* ghost: (state before, response) of every parseResponse call *)
  c_trig : bool;                           (* child.trigger holds a token *)
  c_closed : bool;                         (* child.trigger closed *)
  c_broker : option Z }.                   (* child.broker: incarnation number of the worker *)

Record worker := {
  w_gen : Z; w_dead : bool;
  w_subs : list Z;                         (* bc.subscriptions *)
  w_buf : list Z;                          (* children received on bc.input, not yet in subscriptions *)
  w_acks : Z;                              (* bc.acks *)
  w_wait : bool }.                         (* between acks.Add and handleResponses *)

Record pipe := { wk : worker; ch : Z -> child }.

Definition updc (f : Z -> child) (p : Z) (v : child) : Z -> child := fun q => if q =? p then v else f q.

Definition init_child (s0 : pstate) : child :=
  {| c_started := false; c_pst := s0; c_in := []; c_rem := []; c_drain := false; c_res := RNil; c_out := []; c_parsed := [];
     c_handed := []; c_trig := false; c_closed := false; c_broker := None |}.
Definition init_pipe (pst0 : Z -> pstate) : pipe :=
  {| wk := {| w_gen := 0; w_dead := false; w_subs := []; w_buf := []; w_acks := 0; w_wait := false |};
     ch := fun p => init_child (pst0 p) |}.

(* field updates *)
Definition set_trig (c : child) (t : bool) : child :=
  {| c_started := c_started c; c_pst := c_pst c; c_in := c_in c; c_rem := c_rem c; c_drain := c_drain c; c_res := c_res c;
     c_out := c_out c; c_parsed := c_parsed c; c_handed := c_handed c; c_trig := t; c_closed := c_closed c; c_broker := c_broker c |}.
Definition set_broker (c : child) (b : option Z) : child :=
  {| c_started := c_started c; c_pst := c_pst c; c_in := c_in c; c_rem := c_rem c; c_drain := c_drain c; c_res := c_res c;
     c_out := c_out c; c_parsed := c_parsed c; c_handed := c_handed c; c_trig := c_trig c; c_closed := c_closed c; c_broker := b |}.
Definition set_started (c : child) : child :=
  {| c_started := true; c_pst := c_pst c; c_in := c_in c; c_rem := c_rem c; c_drain := c_drain c; c_res := c_res c;
     c_out := c_out c; c_parsed := c_parsed c; c_handed := c_handed c; c_trig := c_trig c; c_closed := c_closed c; c_broker := c_broker c |}.
Definition push_in (c : child) (r : response) : child :=
  {| c_started := c_started c; c_pst := c_pst c; c_in := c_in c ++ [(c_pst c, r)]; c_rem := c_rem c; c_drain := c_drain c;
     c_res := c_res c; c_out := c_out c; c_parsed := c_parsed c; c_handed := c_handed c; c_trig := c_trig c;
     c_closed := c_closed c; c_broker := c_broker c |}.
(* handleResponses on one subscription: result consumed; closed / triggered by class *)
Definition handled (c : child) : child :=
  {| c_started := c_started c; c_pst := c_pst c; c_in := c_in c; c_rem := c_rem c; c_drain := c_drain c; c_res := RNil;
     c_out := c_out c; c_parsed := c_parsed c; c_handed := c_handed c;
     c_trig := match handle_class (c_res c) with HRedispatch => true | _ => c_trig c end;
     c_closed := match handle_class (c_res c) with HClose => true | _ => c_closed c end;
     c_broker := c_broker c |}.

Definition memz (p : Z) (l : list Z) : bool := existsb (Z.eqb p) l.
Fixpoint add_new (l adds : list Z) : list Z :=
  match adds with [] => l | p :: r => add_new (if memz p l then l else l ++ [p]) r end.

Fixpoint nodupb (l : list Z) : bool := match l with [] => true | a :: r => negb (memz a r) && nodupb r end.

Definition live (w : worker) : bool := negb (w_dead w).

(* broker.input <- child on incarnation g: received by the manager of a live worker, or - for a worker that
   aborted - by abort's drain loop, which triggers the child *)
Definition enqueue (s : pipe) (p : Z) (g : Z) : pipe :=
  let w := wk s in
  if live w && (g =? w_gen w) then
    {| wk := {| w_gen := w_gen w; w_dead := false; w_subs := w_subs w; w_buf := w_buf w ++ [p]; w_acks := w_acks w; w_wait := w_wait w |};
       ch := ch s |}
  else {| wk := w; ch := updc (ch s) p (set_trig (ch s p) true) |}.

(* refBrokerConsumer(broker) + child.broker = it + broker.input <- child *)
Definition join (s : pipe) (p : Z) : pipe :=
  let w := wk s in
  if w_dead w then
    {| wk := {| w_gen := w_gen w + 1; w_dead := false; w_subs := []; w_buf := [p]; w_acks := 0; w_wait := false |};
       ch := updc (ch s) p (set_broker (ch s p) (Some (w_gen w + 1))) |}
  else
    {| wk := {| w_gen := w_gen w; w_dead := false; w_subs := w_subs w; w_buf := w_buf w ++ [p]; w_acks := w_acks w; w_wait := w_wait w |};
       ch := updc (ch s) p (set_broker (ch s p) (Some (w_gen w))) |}.

Inductive fetched := RFail | ROk (f : Z -> response).
Inductive op :=
| OStart (p : Z)
| ORound (adds : list Z) (e : fetched)
| OTake (p : Z) (k : option nat)
| ODrain (p : Z)
| OHandle
| ODispatch (p : Z) (ok : bool).

Section Steps.
  Variable c : cfg.

  Definition pre (s : pipe) (o : op) : bool :=
    let w := wk s in
    match o with
    | OStart p => negb (c_started (ch s p))
    | ORound adds _ => live w && negb (w_wait w) && nodupb adds && forallb (fun a => memz a (w_buf w)) adds
    | OTake p _ => match c_in (ch s p) with [] => false | _ => negb (c_drain (ch s p)) end
    | ODrain p => c_drain (ch s p)
    | OHandle => live w && w_wait w && (w_acks w =? 0)
    | ODispatch p _ => c_trig (ch s p) && negb (c_closed (ch s p))
    end.

  Definition take (x : child) (k : option nat) : child :=
    match c_in x with
    | [] => x
    | (_, r) :: rest =>
        let '(msgs, st', v, _) := parse_response c (c_pst x) r in
        let j := match k with Some j => j | None => length msgs end in
        let expired := Nat.ltb j (length msgs) in
        {| c_started := c_started x; c_pst := st'; c_in := rest;
           c_rem := if expired then skipn j msgs else [];
           c_drain := expired;
           c_res := if expired then RTimedOut else res_of v;
           c_out := c_out x ++ (if expired then firstn j msgs else msgs);
           c_parsed := c_parsed x ++ msgs;
           c_handed := c_handed x ++ [(c_pst x, r)];
           c_trig := c_trig x; c_closed := c_closed x; c_broker := c_broker x |}
    end.

  Definition drained (x : child) : child :=
    {| c_started := c_started x; c_pst := c_pst x; c_in := c_in x; c_rem := []; c_drain := false; c_res := c_res x;
       c_out := c_out x ++ c_rem x; c_parsed := c_parsed x; c_handed := c_handed x; c_trig := c_trig x; c_closed := c_closed x;
       c_broker := c_broker x |}.

  (* acks.Done() through child.broker *)
  Definition acks_done (w : worker) (b : option Z) : worker :=
    match b with
    | Some g => if g =? w_gen w then
                  {| w_gen := w_gen w; w_dead := w_dead w; w_subs := w_subs w; w_buf := w_buf w; w_acks := w_acks w - 1; w_wait := w_wait w |}
                else w
    | None => w
    end.

  Definition step (s : pipe) (o : op) : pipe :=
    let w := wk s in
    match o with
    | OStart p => join {| wk := w; ch := updc (ch s) p (set_started (ch s p)) |} p
    | ORound adds e =>
        let subs' := add_new (w_subs w) adds in
        let buf' := filter (fun q => negb (memz q adds)) (w_buf w) in
        match subs' with
        | [] => {| wk := {| w_gen := w_gen w; w_dead := false; w_subs := subs'; w_buf := buf'; w_acks := w_acks w; w_wait := false |}; ch := ch s |}
        | _ =>
          match e with
          | RFail => (* abort *)
              {| wk := {| w_gen := w_gen w; w_dead := true; w_subs := subs'; w_buf := buf'; w_acks := w_acks w; w_wait := false |};
                 ch := fun q => if memz q subs' || memz q buf' then set_trig (ch s q) true else ch s q |}
          | ROk f =>
              {| wk := {| w_gen := w_gen w; w_dead := false; w_subs := subs'; w_buf := buf'; w_acks := Z.of_nat (length subs'); w_wait := true |};
                 ch := fun q => if memz q subs' then push_in (ch s q) (f q) else ch s q |}
          end
        end
    | OTake p k => {| wk := acks_done w (c_broker (ch s p)); ch := updc (ch s) p (take (ch s p) k) |}
    | ODrain p =>
        let s1 := {| wk := w; ch := updc (ch s) p (drained (ch s p)) |} in
        match c_broker (ch s p) with
        | Some g => enqueue s1 p g
        | None => s1            (* nil pointer in the code; unreachable (Pipeline invariant) *)
        end
    | OHandle =>
        {| wk := {| w_gen := w_gen w; w_dead := false;
                    w_subs := filter (fun q => match handle_class (c_res (ch s q)) with HKeep => true | _ => false end) (w_subs w);
                    w_buf := w_buf w; w_acks := w_acks w; w_wait := false |};
           ch := fun q => if memz q (w_subs w) then handled (ch s q) else ch s q |}
    | ODispatch p ok =>
        let x := set_broker (set_trig (ch s p) false) None in
        if ok then join {| wk := w; ch := updc (ch s) p x |} p
        else {| wk := w; ch := updc (ch s) p (set_trig x true) |}
    end.

  (* a trace: every step enabled *)
  Fixpoint exec (s : pipe) (ops : list op) : option pipe :=
    match ops with
    | [] => Some s
    | o :: r => if pre s o then exec (step s o) r else None
    end.
End Steps.
