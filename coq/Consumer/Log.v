(* Consumer — broker side for the C03 / C11 theorems: the partition log as a list of stored batches,
   what a faithful broker may answer to a fetch at a given offset, the application-visible records,
   and the aborted-transaction index.  Definitions only (no proofs). *)
From Coq Require Import List ZArith Bool Sorting.Sorted.
From SV Require Import Consumer.Parse.
Import ListNotations.
Open Scope Z_scope.

(* a stored unit of the log: a v2 record batch, or one top-level legacy message block (plain message or
   compressed wrapper) *)
Inductive sbatch := SBatch (b : rbatch) | SBlock (b : lblock).

Definition cands (s : sbatch) : list cmsg :=
  match s with SBatch b => batch_cands b | SBlock b => block_cands b end.
(* offset range the unit occupies in the log *)
Definition lo (s : sbatch) : Z :=
  match s with
  | SBatch b => rb_first b
  | SBlock b => match block_cands b with c :: _ => cm_offset c | [] => lm_offset (lb_own b) end
  end.
Definition hi (s : sbatch) : Z :=
  match s with SBatch b => rb_first b + rb_lastdelta b | SBlock b => lm_offset (lb_own b) end.

(* the stored units a decoded Records element consists of *)
Definition chunk (r : records) : list sbatch :=
  match r with RBatch b => [SBatch b] | RLegacy _ _ bl => map SBlock bl end.

Definition offs (l : list cmsg) : list Z := map cm_offset l.

Definition wf_sbatch (s : sbatch) : Prop :=
  StronglySorted Z.lt (offs (cands s)) /\
  Forall (fun c => lo s <= cm_offset c <= hi s) (cands s) /\
  cands s <> [] /\
  match s with
  | SBatch b => rb_control b = true -> rb_lastdelta b = 0 /\ control_type b <> None
  | SBlock _ => True
  end.

Fixpoint ordered (l : list sbatch) : Prop :=
  match l with [] => True | a :: r => Forall (fun y => hi a < lo y) r /\ ordered r end.

Definition wf_log (log : list sbatch) : Prop := Forall wf_sbatch log /\ ordered log.

(* ------------------------------------------------------------------ transactions *)
(* a control batch that ends a transaction: Some 0 = abort marker, Some 1 = commit marker *)
Definition marker_of (b : rbatch) : option Z :=
  if rb_control b then
    match control_type b with Some t => if (t =? 0) || (t =? 1) then Some t else None | None => None end
  else None.

(* the next transaction marker of producer id p *)
Fixpoint next_marker (p : Z) (l : list sbatch) : option Z :=
  match l with
  | [] => None
  | SBatch b :: r =>
      match marker_of b with
      | Some t => if rb_pid b =? p then Some t else next_marker p r
      | None => next_marker p r
      end
  | SBlock _ :: r => next_marker p r
  end.

(* a transactional data batch whose transaction is (later) aborted *)
Definition aborted_fate (rest : list sbatch) (b : rbatch) : bool :=
  rb_txn b && match next_marker (rb_pid b) rest with Some 0 => true | _ => false end.
Definition committed_fate (rest : list sbatch) (b : rbatch) : bool :=
  rb_txn b && match next_marker (rb_pid b) rest with Some 1 => true | _ => false end.

(* is the stored unit delivered to the application?  [rest] = the log after it *)
Definition deliverable (c : cfg) (rest : list sbatch) (s : sbatch) : bool :=
  match s with
  | SBlock _ => true
  | SBatch b => negb (rb_control b) && negb (read_committed c && aborted_fate rest b)
  end.

(* the application-visible records of the log, in log order *)
Fixpoint visible (c : cfg) (log : list sbatch) : list cmsg :=
  match log with
  | [] => []
  | s :: r => (if deliverable c r s then cands s else []) ++ visible c r
  end.

(* The broker's aborted-transaction index: entries (producer id, first offset, offset of the abort marker).
   [index_wf]: every entry starts at a transactional data batch of its producer - or before the start of the
   log, when the head of the log was deleted (retention / DeleteRecords) in the middle of the transaction: the
   broker keeps reporting the original first offset -, ends at an abort marker of that producer, and no
   marker of that producer lies in between.
   [index_complete]: a transactional data batch is aborted exactly when it lies inside an entry's span. *)
Definition entry := (Z * Z * Z)%type.
Definition log_start (log : list sbatch) : Z := match log with [] => 0 | s :: _ => lo s end.
Definition index_wf (log : list sbatch) (es : list entry) : Prop :=
  forall p f m, In (p, f, m) es ->
    f < m /\
    (f < log_start log \/
     exists b, In (SBatch b) log /\ rb_first b = f /\ rb_control b = false /\ rb_txn b = true /\ rb_pid b = p) /\
    (exists b, In (SBatch b) log /\ rb_first b = m /\ marker_of b = Some 0 /\ rb_pid b = p) /\
    (forall b, In (SBatch b) log -> marker_of b <> None -> rb_pid b = p -> ~ (f <= rb_first b < m)).
Definition index_complete (log : list sbatch) (es : list entry) : Prop :=
  forall pre b rest, log = pre ++ SBatch b :: rest -> rb_control b = false -> rb_txn b = true ->
    (next_marker (rb_pid b) rest = Some 0 <->
     exists f m, In (rb_pid b, f, m) es /\ f <= rb_first b /\ rb_first b + rb_lastdelta b < m).

(* what a faithful broker puts into FetchResponseBlock.AbortedTransactions for a fetch at offset o whose
   last returned batch ends at [top]: every aborted transaction whose span meets [o, top], none that ended
   before o, in any order (entries beyond [top] are allowed) *)
Definition index_for (es : list entry) (o top : Z) (idx : list (Z * Z)) : Prop :=
  (forall p f, In (p, f) idx -> exists m, In (p, f, m) es /\ o <= m) /\
  (forall p f m, In (p, f, m) es -> o <= m -> f <= top -> In (p, f) idx).

(* the index computed from the log by a forward scan; [open] = producer ids with an open transaction and
   its first offset *)
Fixpoint lookupZ (p : Z) (l : list (Z * Z)) : option Z :=
  match l with [] => None | (q, f) :: r => if p =? q then Some f else lookupZ p r end.
Fixpoint dropZ (p : Z) (l : list (Z * Z)) : list (Z * Z) :=
  match l with [] => [] | (q, f) :: r => if p =? q then dropZ p r else (q, f) :: dropZ p r end.
Fixpoint aborted_txns (open : list (Z * Z)) (l : list sbatch) : list entry :=
  match l with
  | [] => []
  | SBlock _ :: r => aborted_txns open r
  | SBatch b :: r =>
      if rb_control b then
        match marker_of b with
        | Some t =>
            let rest := aborted_txns (dropZ (rb_pid b) open) r in
            match lookupZ (rb_pid b) open with
            | Some f => if t =? 0 then (rb_pid b, f, rb_first b) :: rest else rest
            | None => rest
            end
        | None => aborted_txns open r
        end
      else if rb_txn b then
        match lookupZ (rb_pid b) open with
        | Some _ => aborted_txns open r
        | None => aborted_txns ((rb_pid b, rb_first b) :: open) r
        end
      else aborted_txns open r
  end.

(* ------------------------------------------------------------------ faithful fetch results *)
Section Faithful.
  Variable size : sbatch -> Z.          (* encoded size of a stored unit *)
  Variable c : cfg.
  Variable log : list sbatch.
  Variable es : list entry.

  (* "every stored batch fits into Consumer.Fetch.Max" (or no maximum is set) *)
  Definition fits : Prop := fetch_max c = 0 \/ forall y, In y log -> size y <= fetch_max c.

  (* nothing for the consumer in it: throttled and empty, block missing, error code, or no data and not partial *)
  Definition quiet (r : response) : Prop :=
    (rs_throttle r <> 0 /\ rs_noblocks r = true) \/ rs_block r = None \/
    exists b, rs_block r = Some b /\ (bl_err b <> 0 \/ (n_records b = 0 /\ is_partial b = false)).

  (* only the beginning of a batch that does not fit into the requested size *)
  Definition partial_only (s : pstate) (r : response) : Prop :=
    exists b y, rs_block r = Some b /\ (rs_throttle r = 0 \/ rs_noblocks r = false) /\ bl_err b = 0 /\
      n_records b = 0 /\ is_partial b = true /\ In y log /\ fetch_size s < size y.

  Definition top_of (l : list sbatch) (d : Z) : Z := hi (last l (SBlock (Build_lblock (Build_lmsg d 0 false 0 None None) None))).

  (* whole stored batches, consecutive in the log, starting at the first batch whose last offset >= o
     (anything after them, e.g. a partial trailing batch, was dropped by the decoder) *)
  Definition data (s : pstate) (r : response) : Prop :=
    exists b pre post, rs_block r = Some b /\ (rs_throttle r = 0 \/ rs_noblocks r = false) /\ bl_err b = 0 /\
      log = pre ++ flat_map chunk (bl_set b) ++ post /\
      Forall (fun y => hi y < offset s) pre /\
      bl_set b <> [] /\ Forall (fun x => chunk x <> []) (bl_set b) /\
      (forall y, hd_error (flat_map chunk (bl_set b)) = Some y -> offset s <= hi y) /\
      (read_committed c = true ->
         index_for es (offset s) (top_of (flat_map chunk (bl_set b)) 0) (bl_aborted b)).

  Definition faithful (s : pstate) (r : response) : Prop := quiet r \/ partial_only s r \/ data s r.

  (* a consumer run: any sequence of faithful fetch results (faults included), each parsed in the state the
     previous one left; [out] accumulates what was handed to the feeder *)
  Inductive run : pstate -> list cmsg -> pstate -> list cmsg -> Prop :=
  | run_done : forall s out, run s out s out
  | run_step : forall s out r msgs s1 v errs s2 out2,
      faithful s r -> parse_response c s r = (msgs, s1, v, errs) ->
      run s1 (out ++ msgs) s2 out2 -> run s out s2 out2.
End Faithful.

Definition in_range (lo_ hi_ : Z) (m : cmsg) : bool := (lo_ <=? cm_offset m) && (cm_offset m <? hi_).
