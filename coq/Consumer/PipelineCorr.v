(* Consumer — local trace validation for Pipeline.v (harness: go/harness/cmd/c03corr, pipeline cases).
   The hooks in consumer.go (pc.start, pc.dispatched, pc.dispatch.failed, bc.subscribe, bc.fetched, bc.abort,
   bc.handle / bc.verdict, feeder.parsed, feeder.handoff, feeder.expiry, feeder.done, feeder.resubscribe) are logged
   in the order they happen; every goroutine's events become the model's steps.  [ok_pipe] replays the log
   through [step]: every step must be enabled ([pre]), what the code observed at the step (messages parsed,
   offset / fetch size after parseResponse, verdict class per subscription) must be what the model computes, and
   at the end every partition's Messages() stream and offset must be the model's. *)
From Coq Require Import List ZArith Bool Arith.
From SV Require Import Base.Corr Consumer.Parse Consumer.Log Consumer.Corr Consumer.Pipeline.
Import ListNotations.
Open Scope Z_scope.

Inductive vop :=
| VStart (p : Z)
| VRound (adds : list Z) (e : option (list (Z * response)))     (* None: fetchNewMessages failed *)
| VTake (p : Z) (k : option nat) (nmsgs : nat) (off fs : Z)     (* observed: len(msgs), child.offset, child.fetchSize after *)
| VDrain (p : Z)
| VHandle (cls : list (Z * Z))                                  (* observed class per subscription *)
| VDispatch (p : Z) (ok : bool).

Record tcase := { tc_cfg : cfg; tc_pst0 : list (Z * pstate); tc_ops : list vop;
                  tc_final : list (Z * list cmsg * Z) }.        (* partition, Messages() stream, child.offset *)

Fixpoint assoc {A} (d : A) (l : list (Z * A)) (q : Z) : A :=
  match l with [] => d | (k, v) :: r => if q =? k then v else assoc d r q end.

Definition no_block : response := Build_response 0 false None.

Definition op_of (v : vop) : op :=
  match v with
  | VStart p => OStart p
  | VRound adds None => ORound adds RFail
  | VRound adds (Some l) => ORound adds (ROk (assoc no_block l))
  | VTake p k _ _ _ => OTake p k
  | VDrain p => ODrain p
  | VHandle _ => OHandle
  | VDispatch p ok => ODispatch p ok
  end.

Definition class_id (h : hclass) : Z := match h with HKeep => 0 | HDrop => 1 | HClose => 2 | HRedispatch => 3 end.

Definition obs_ok (s s' : pipe) (v : vop) : bool :=
  match v with
  | VTake p _ n off fs =>
      Nat.eqb (length (c_parsed (ch s' p)) - length (c_parsed (ch s p))) n &&
      (offset (c_pst (ch s' p)) =? off) && (fetch_size (c_pst (ch s' p)) =? fs)
  | VHandle cls =>
      Nat.eqb (length cls) (length (w_subs (wk s))) &&
      forallb (fun pc => memz (fst pc) (w_subs (wk s)) && (class_id (handle_class (c_res (ch s (fst pc)))) =? snd pc)) cls
  | _ => true
  end.

(* Some final state, or the index of the first step that is not enabled / whose observation differs *)
Fixpoint vexec (c : cfg) (s : pipe) (i : nat) (ops : list vop) : pipe + nat :=
  match ops with
  | [] => inl s
  | v :: r =>
      let o := op_of v in
      if pre s o then
        let s' := step c s o in
        if obs_ok s s' v then vexec c s' (S i) r else inr i
      else inr i
  end.

Definition pst_zero : pstate := Build_pstate 0 0 0 0.

Definition final_ok (s : pipe) (f : Z * list cmsg * Z) : bool :=
  let '(p, del, off) := f in
  (* the log may end while a feeder is still on its slow-reader path (everything was delivered, the re-subscription
     not yet logged) *)
  eqb_of (list_eq_dec cmsg_eq_dec) (c_out (ch s p) ++ c_rem (ch s p)) del && (offset (c_pst (ch s p)) =? off).

Definition ok_pipe (a : tcase) : bool :=
  match vexec (tc_cfg a) (init_pipe (assoc pst_zero (tc_pst0 a))) 0 (tc_ops a) with
  | inl s => forallb (final_ok s) (tc_final a)
  | inr _ => false
  end.
Definition mismatches_pipe := mismatches ok_pipe.

(* for debugging a mismatch: where the replay stopped *)
Definition where_pipe (a : tcase) : option nat :=
  match vexec (tc_cfg a) (init_pipe (assoc pst_zero (tc_pst0 a))) 0 (tc_ops a) with inl _ => None | inr i => Some i end.
