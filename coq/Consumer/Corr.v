(* Consumer — correspondence functions for C03 / C11 (harness: go/harness/cmd/c03corr, c11corr).
   A parse case carries a generated log, the fetch script the simulated broker followed, the decoded
   FetchResponse of every step (as decoded by the real decoder) and what the real parseResponse did with it.
   [ok_parse] re-runs the model step by step and compares; it also checks that the harness' broker stayed
   inside the hypotheses of the theorems (well-formed log, faithful slices, faithful aborted index) and
   evaluates the theorem's conclusion on the run.  An end-to-end case carries what a real PartitionConsumer
   delivered on Messages() when served that log by a MockBroker. *)
From Coq Require Import List ZArith Bool.
From SV Require Import Base.Corr Consumer.Parse Consumer.Log.
Import ListNotations.
Open Scope Z_scope.

(* ------------------------------------------------------------------ decidable equalities *)
Definition bytes_eq_dec : forall a b : bytes, {a = b} + {a <> b} := list_eq_dec Z.eq_dec.
Definition obytes_eq_dec : forall a b : option bytes, {a = b} + {a <> b}.
Proof. decide equality; apply bytes_eq_dec. Defined.
Definition hdr_eq_dec : forall a b : bytes * bytes, {a = b} + {a <> b}.
Proof. decide equality; apply bytes_eq_dec. Defined.
Definition hdrs_eq_dec : forall a b : list (bytes * bytes), {a = b} + {a <> b} := list_eq_dec hdr_eq_dec.
Definition cmsg_eq_dec : forall a b : cmsg, {a = b} + {a <> b}.
Proof. decide equality; try apply Z.eq_dec; try apply obytes_eq_dec; apply hdrs_eq_dec. Defined.
Definition record_eq_dec : forall a b : record, {a = b} + {a <> b}.
Proof. decide equality; try apply Z.eq_dec; try apply obytes_eq_dec; apply hdrs_eq_dec. Defined.
Definition rbatch_eq_dec : forall a b : rbatch, {a = b} + {a <> b}.
Proof. decide equality; try apply Z.eq_dec; try apply Bool.bool_dec; apply (list_eq_dec record_eq_dec). Defined.
Definition lmsg_eq_dec : forall a b : lmsg, {a = b} + {a <> b}.
Proof. decide equality; try apply Z.eq_dec; try apply Bool.bool_dec; apply obytes_eq_dec. Defined.
Definition lblock_eq_dec : forall a b : lblock, {a = b} + {a <> b}.
Proof. decide equality; [decide equality; apply (list_eq_dec lmsg_eq_dec) | apply lmsg_eq_dec]. Defined.
Definition sbatch_eq_dec : forall a b : sbatch, {a = b} + {a <> b}.
Proof. decide equality; [apply rbatch_eq_dec | apply lblock_eq_dec]. Defined.
Definition verdict_eq_dec : forall a b : verdict, {a = b} + {a <> b}.
Proof. decide equality; apply Z.eq_dec. Defined.

Definition eqb_of {A} (d : forall a b : A, {a = b} + {a <> b}) (a b : A) : bool := if d a b then true else false.

(* ------------------------------------------------------------------ boolean versions of the hypotheses *)
Fixpoint increasingb (l : list Z) : bool :=
  match l with a :: (b :: _) as r => (a <? b) && increasingb r | _ => true end.
Definition wf_sbatchb (s : sbatch) : bool :=
  increasingb (offs (cands s)) &&
  forallb (fun c => (lo s <=? cm_offset c) && (cm_offset c <=? hi s)) (cands s) &&
  negb (Nat.eqb (length (cands s)) 0) &&
  match s with
  | SBatch b => if rb_control b then (rb_lastdelta b =? 0) && match control_type b with Some _ => true | None => false end else true
  | SBlock _ => true
  end.
Fixpoint orderedb (l : list sbatch) : bool :=
  match l with a :: (b :: _) as r => (hi a <? lo b) && orderedb r | _ => true end.
Definition wf_logb (log : list sbatch) : bool := forallb wf_sbatchb log && orderedb log.

Definition entry_eqb (a b : entry) : bool :=
  let '(p, f, m) := a in let '(q, g, n) := b in (p =? q) && (f =? g) && (m =? n).
Definition pair_zeqb (a b : Z * Z) : bool := (fst a =? fst b) && (snd a =? snd b).

(* index_complete for the scanned index *)
Fixpoint index_completeb (es : list entry) (l : list sbatch) : bool :=
  match l with
  | [] => true
  | SBatch b :: r =>
      (if negb (rb_control b) && rb_txn b then
         Bool.eqb (match next_marker (rb_pid b) r with Some 0 => true | _ => false end)
                  (existsb (fun e => let '(p, f, m) := e in
                              (p =? rb_pid b) && (f <=? rb_first b) && (rb_first b + rb_lastdelta b <? m)) es)
       else true) && index_completeb es r
  | SBlock _ :: r => index_completeb es r
  end.

(* index_wf for the scanned index *)
Definition index_wfb (log : list sbatch) (es : list entry) : bool :=
  forallb (fun e => let '(p, f, m) := e in
    (f <? m) &&
    ((f <? log_start log) ||
     existsb (fun s => match s with SBatch b => (rb_first b =? f) && negb (rb_control b) && rb_txn b && (rb_pid b =? p) | _ => false end) log) &&
    existsb (fun s => match s with SBatch b => (rb_first b =? m) && (rb_pid b =? p) &&
                                              match marker_of b with Some 0 => true | _ => false end | _ => false end) log &&
    forallb (fun s => match s with
                      | SBatch b => match marker_of b with
                                    | Some _ => negb ((rb_pid b =? p) && (f <=? rb_first b) && (rb_first b <? m))
                                    | None => true end
                      | _ => true end) log) es.

(* index_for *)
Definition index_forb (es : list entry) (o top : Z) (idx : list (Z * Z)) : bool :=
  forallb (fun pf => existsb (fun e => let '(p, f, m) := e in (p =? fst pf) && (f =? snd pf) && (o <=? m)) es) idx &&
  forallb (fun e => let '(p, f, m) := e in
             if (o <=? m) && (f <=? top) then existsb (pair_zeqb (p, f)) idx else true) es.

(* ------------------------------------------------------------------ parse cases *)
(* what the simulated broker did for this fetch: served whole stored batches [from, to) of the log
   (kind 0), only the beginning of batch [from] (kind 1), or something without data (kind 2: error code,
   missing block, empty, throttled) *)
Record pstep := {
  ps_kind : Z; ps_from : nat; ps_to : nat;
  ps_resp : response;                                   (* the decoded response *)
  ps_msgs : list cmsg; ps_offset : Z; ps_fetch : Z; ps_hwm : Z; ps_pref : Z;
  ps_verdict : verdict; ps_errs : list Z }.
(* pc_exact = false: the script contains a batch larger than Consumer.Fetch.Max (outside the hypotheses of
   c03_parse_exact: the code reports ErrMessageTooLarge and steps over one offset); only model = code is compared *)
(* pc_open: transactions (producer id, original first offset) open at the start of the log, when its head was
   deleted in the middle of them *)
Record pcase := { pc_cfg : cfg; pc_log : list sbatch; pc_open : list (Z * Z); pc_start : pstate; pc_exact : bool; pc_steps : list pstep }.

Definition slice (log : list sbatch) (i j : nat) : list sbatch := firstn (j - i) (skipn i log).

Definition step_faithfulb (c : cfg) (log : list sbatch) (es : list entry) (s : pstate) (p : pstep) : bool :=
  match ps_kind p, rs_block (ps_resp p) with
  | 0, Some b =>
      let mid := slice log (ps_from p) (ps_to p) in
      eqb_of (list_eq_dec sbatch_eq_dec) (flat_map chunk (bl_set b)) mid &&
      forallb (fun y => hi y <? offset s) (firstn (ps_from p) log) &&
      match mid with y :: _ => offset s <=? hi y | [] => false end &&
      (bl_err b =? 0) &&
      (if read_committed c then index_forb es (offset s) (top_of mid 0) (bl_aborted b) else true)
  | 0, None => false
  | 1, Some b => (n_records b =? 0) && is_partial b && (bl_err b =? 0)
  | 1, None => false
  | _, Some b => negb (bl_err b =? 0) || ((n_records b =? 0) && negb (is_partial b))
  | _, None => true
  end.

Definition pstate_obs_eqb (s : pstate) (p : pstep) : bool :=
  (offset s =? ps_offset p) && (fetch_size s =? ps_fetch p) && (hwm s =? ps_hwm p) && (pref_replica s =? ps_pref p).

(* returns the final model state and everything delivered *)
Fixpoint run_steps (c : cfg) (log : list sbatch) (es : list entry) (s : pstate) (steps : list pstep)
  : bool * pstate * list cmsg :=
  match steps with
  | [] => (true, s, [])
  | p :: r =>
      let '(msgs, s1, v, errs) := parse_response c s (ps_resp p) in
      let here := step_faithfulb c log es s p &&
                  eqb_of (list_eq_dec cmsg_eq_dec) msgs (ps_msgs p) && pstate_obs_eqb s1 p &&
                  eqb_of verdict_eq_dec v (ps_verdict p) && eqb_of (list_eq_dec Z.eq_dec) errs (ps_errs p) in
      let '(okr, s2, out) := run_steps c log es s1 r in
      (here && okr, s2, msgs ++ out)
  end.

Definition ok_parse (a : pcase) : bool :=
  let log := pc_log a in
  let es := aborted_txns (pc_open a) log in
  let '(okr, s2, out) := run_steps (pc_cfg a) log es (pc_start a) (pc_steps a) in
  wf_logb log && index_wfb log es && index_completeb es log && okr &&
  (* the theorem's conclusion on this run *)
  (negb (pc_exact a) ||
   eqb_of (list_eq_dec cmsg_eq_dec) out
          (filter (in_range (offset (pc_start a)) (offset s2)) (visible (pc_cfg a) log))).
Definition mismatches_parse := mismatches ok_parse.

(* ------------------------------------------------------------------ end-to-end cases *)
(* ec_req: offset passed to ConsumePartition; ec_oldest / ec_newest: what the broker answers to the offset
   queries; ec_started: None if ConsumePartition failed with ErrOffsetOutOfRange, else the offset of the
   first fetch request; ec_complete: the reader consumed until the end of the log *)
(* ec_kafka: Config.Version; ec_reqs: (FetchRequest.Version, FetchRequest.Isolation) of the fetch requests the broker
   decoded (distinct values) *)
Record ecase := { ec_cfg : cfg; ec_log : list sbatch; ec_req : Z; ec_oldest : Z; ec_newest : Z;
                  ec_started : option Z; ec_complete : bool; ec_delivered : list cmsg;
                  ec_kafka : kversion; ec_reqs : list (Z * Z) }.

Fixpoint prefixb (a b : list cmsg) : bool :=
  match a, b with
  | [], _ => true
  | x :: a', y :: b' => eqb_of cmsg_eq_dec x y && prefixb a' b'
  | _, _ => false
  end.

Definition ok_e2e (a : ecase) : bool :=
  wf_logb (ec_log a) &&
  option_eqb Z.eqb (choose_start (ec_req a) (ec_oldest a) (ec_newest a)) (ec_started a) &&
  forallb (pair_zeqb (fetch_request_fields (ec_kafka a) (read_committed (ec_cfg a)))) (ec_reqs a) &&
  match ec_started a with
  | None => match ec_delivered a with [] => true | _ => false end
  | Some s =>
      let want := filter (fun m => s <=? cm_offset m) (visible (ec_cfg a) (ec_log a)) in
      if ec_complete a then eqb_of (list_eq_dec cmsg_eq_dec) (ec_delivered a) want
      else prefixb (ec_delivered a) want
  end.
Definition mismatches_e2e := mismatches ok_e2e.
