(* Consumer — proofs, part 3: one faithful response, and any run of faithful responses and faults
   (Theorem run_exact): what was handed on is exactly the visible records of [S, offset), as stored. *)
From Coq Require Import List ZArith Bool Lia Sorting.Sorted.
From SV Require Import Consumer.Parse Consumer.Log Consumer.ParseProofs Consumer.TxnProofs.
Import ListNotations.
Open Scope Z_scope.

(* ------------------------------------------------------------------ list facts *)
Lemma SS_app_inv : forall (l1 l2 : list Z), StronglySorted Z.lt (l1 ++ l2) ->
  StronglySorted Z.lt l1 /\ StronglySorted Z.lt l2 /\ forall x y, In x l1 -> In y l2 -> x < y.
Proof.
  induction l1 as [|a l1 IH]; cbn; intros l2 H.
  - repeat split; auto; [constructor|contradiction].
  - apply StronglySorted_inv in H as [H Ha]. destruct (IH l2 H) as (S1 & S2 & L).
    apply Forall_app in Ha as [Ha1 Ha2]. repeat split; auto; [constructor; auto|].
    intros x y [<-|Hx] Hy; [|auto]. rewrite Forall_forall in Ha2. auto.
Qed.

Lemma SS_app : forall (l1 l2 : list Z), StronglySorted Z.lt l1 -> StronglySorted Z.lt l2 ->
  (forall x y, In x l1 -> In y l2 -> x < y) -> StronglySorted Z.lt (l1 ++ l2).
Proof.
  induction l1 as [|a l1 IH]; cbn; intros l2 S1 S2 L; auto.
  apply StronglySorted_inv in S1 as [S1 Ha]. constructor.
  - apply IH; auto.
  - apply Forall_app; split; auto. rewrite Forall_forall. intros y Hy. apply L; auto.
Qed.

Lemma select_sorted : forall fl l, StronglySorted Z.lt (offs (flat_map cands l)) -> StronglySorted Z.lt (offs (select fl l)).
Proof.
  induction fl as [|f fl IH]; intros [|s l] H; cbn [select]; try constructor.
  cbn [flat_map] in H. unfold offs in *. rewrite map_app in *. apply SS_app_inv in H as (S1 & S2 & L).
  apply SS_app.
  - destruct f; [auto|constructor].
  - now apply IH.
  - intros x y Hx Hy. apply L; [destruct f; [auto|contradiction]|].
    apply in_map_iff in Hy as (m & <- & Hm). apply select_in in Hm as (z & Hz & Hm).
    apply in_map, in_flat_map. exists z; auto.
Qed.

Lemma filter_none : forall (A : Type) (f : A -> bool) l, (forall x, In x l -> f x = false) -> filter f l = [].
Proof.
  induction l as [|a l IH]; cbn; intros H; auto. rewrite (H a (or_introl eq_refl)). apply IH. intros; apply H; now right.
Qed.

(* on a list sorted by offset, [S,o') = [S,o) followed by [o,..) when everything is below o' *)
Lemma split_sorted : forall l S o o', StronglySorted Z.lt (offs l) -> S <= o -> o <= o' ->
  Forall (fun m => cm_offset m < o') l ->
  filter (in_range S o') l = filter (in_range S o) l ++ filter (geo o) l.
Proof.
  induction l as [|x l IH]; intros S o o' Hs HS Ho Hb; cbn [filter]; auto.
  cbn [offs map] in Hs. apply StronglySorted_inv in Hs as [Hs Hx]. inversion Hb as [|? ? Hb1 Hb2]; subst.
  destruct (Z_lt_ge_dec (cm_offset x) o) as [Hlt|Hge].
  - assert (G : geo o x = false) by (apply Z.leb_gt; lia).
    assert (R : in_range S o' x = in_range S o x).
    { unfold in_range. assert (cm_offset x <? o = true) as -> by (now apply Z.ltb_lt).
      now assert (cm_offset x <? o' = true) as -> by (apply Z.ltb_lt; lia). }
    rewrite G, R. destruct (in_range S o x); cbn [app]; [f_equal|]; apply IH; auto.
  - assert (G : geo o x = true) by (apply Z.leb_le; lia).
    assert (R : in_range S o' x = true).
    { unfold in_range. apply andb_true_iff; split; [apply Z.leb_le|apply Z.ltb_lt]; lia. }
    assert (R2 : in_range S o x = false).
    { unfold in_range. apply andb_false_iff; right. apply Z.ltb_ge; lia. }
    rewrite G, R, R2.
    assert (E1 : filter (in_range S o) l = []).
    { apply filter_none. intros y Hy. rewrite Forall_forall in Hx. specialize (Hx (cm_offset y) (in_map _ _ _ Hy)).
      unfold in_range. apply andb_false_iff; right. apply Z.ltb_ge. lia. }
    rewrite E1. cbn [app]. f_equal.
    transitivity l; [|symmetry]; apply forallb_filter_id || idtac.
    + assert (forall y, In y l -> in_range S o' y = true).
      { intros y Hy. rewrite Forall_forall in Hx, Hb2. specialize (Hx (cm_offset y) (in_map _ _ _ Hy)). specialize (Hb2 y Hy).
        unfold in_range. apply andb_true_iff; split; [apply Z.leb_le|apply Z.ltb_lt]; lia. }
      clear -H. induction l as [|a l IHl]; cbn; auto. rewrite (H a (or_introl eq_refl)). f_equal. apply IHl. intros; apply H; now right.
    + assert (forall y, In y l -> geo o y = true).
      { intros y Hy. rewrite Forall_forall in Hx. specialize (Hx (cm_offset y) (in_map _ _ _ Hy)). apply Z.leb_le. lia. }
      clear -H. induction l as [|a l IHl]; cbn; auto. rewrite (H a (or_introl eq_refl)). f_equal. apply IHl. intros; apply H; now right.
Qed.

Lemma range_prefix : forall l S o, StronglySorted Z.lt (offs l) -> S <= o ->
  filter (geo S) l = filter (in_range S o) l ++ filter (geo o) l.
Proof.
  induction l as [|x l IH]; intros S o Hs HS; cbn [filter]; auto.
  cbn [offs map] in Hs. apply StronglySorted_inv in Hs as [Hs Hx]. specialize (IH S o Hs HS).
  destruct (Z_lt_ge_dec (cm_offset x) S) as [H1|H1]; [|destruct (Z_lt_ge_dec (cm_offset x) o) as [H2|H2]].
  - assert (geo S x = false) as -> by (apply Z.leb_gt; lia).
    assert (geo o x = false) as -> by (apply Z.leb_gt; lia).
    assert (in_range S o x = false) as -> by (unfold in_range; apply andb_false_iff; left; apply Z.leb_gt; lia).
    exact IH.
  - assert (geo S x = true) as -> by (apply Z.leb_le; lia).
    assert (geo o x = false) as -> by (apply Z.leb_gt; lia).
    assert (in_range S o x = true) as -> by (unfold in_range; apply andb_true_iff; split; [apply Z.leb_le|apply Z.ltb_lt]; lia).
    cbn [app]. now f_equal.
  - assert (geo S x = true) as -> by (apply Z.leb_le; lia).
    assert (geo o x = true) as -> by (apply Z.leb_le; lia).
    assert (in_range S o x = false) as -> by (unfold in_range; apply andb_false_iff; right; apply Z.ltb_ge; lia).
    assert (E : filter (in_range S o) l = []).
    { apply filter_none. intros y Hy. rewrite Forall_forall in Hx. specialize (Hx (cm_offset y) (in_map _ _ _ Hy)).
      unfold in_range. apply andb_false_iff; right. apply Z.ltb_ge. lia. }
    rewrite E in *. cbn [app] in *. now f_equal.
Qed.

Lemma in_range_ext_below : forall l S o o', o <= o' -> Forall (fun m => cm_offset m < o) l ->
  filter (in_range S o') l = filter (in_range S o) l.
Proof.
  intros l S o o' Ho Hb. apply filter_ext_in. intros x Hx. rewrite Forall_forall in Hb. specialize (Hb x Hx).
  unfold in_range. assert (cm_offset x <? o' = true) as -> by (apply Z.ltb_lt; lia).
  now assert (cm_offset x <? o = true) as -> by (apply Z.ltb_lt; lia).
Qed.

Lemma in_range_none_above : forall l S o, Forall (fun m => o <= cm_offset m) l -> filter (in_range S o) l = [].
Proof.
  intros l S o Hb. apply filter_none. intros x Hx. rewrite Forall_forall in Hb. specialize (Hb x Hx).
  unfold in_range. apply andb_false_iff; right. apply Z.ltb_ge. lia.
Qed.

Lemma select_bound : forall fl l (P : cmsg -> Prop), Forall P (flat_map cands l) -> Forall P (select fl l).
Proof.
  intros fl l P H. rewrite Forall_forall in *. intros m Hm. apply select_in in Hm as (y & Hy & Hm).
  apply H, in_flat_map. exists y; auto.
Qed.

Lemma visible_split : forall c a b, visible c (a ++ b) = select (dflags c a b) a ++ visible c b.
Proof. intros. symmetry. apply select_dflags. Qed.

Lemma visible_sub : forall c l m, In m (visible c l) -> exists y, In y l /\ In m (cands y).
Proof.
  induction l as [|s r IH]; cbn; intros m H; [contradiction|].
  apply in_app_or in H as [H|H].
  - destruct (deliverable c r s); [|contradiction]. exists s; auto.
  - destruct (IH m H) as (y & Hy & Hm). exists y; auto.
Qed.

Lemma visible_sorted : forall c l, Forall wf_sbatch l -> ordered l -> StronglySorted Z.lt (offs (visible c l)).
Proof.
  intros c l Hw Ho. pose proof (visible_split c l []) as E. rewrite app_nil_r in E. cbn in E. rewrite app_nil_r in E.
  rewrite E. apply select_sorted. now apply group_cands.
Qed.

(* ------------------------------------------------------------------ parse_response on the three classes *)
Lemma n_records_pos : forall rs, rs <> [] -> Forall (fun x => chunk x <> []) rs ->
  Forall wf_sbatch (flat_map chunk rs) -> 0 < fold_right (fun r a => n_records_of r + a) 0 rs.
Proof.
  induction rs as [|x r IH]; intros Hne Hc Hw; [congruence|]. cbn [fold_right].
  inversion Hc as [|? ? Hx Hr]; subst. cbn [flat_map] in Hw. apply Forall_app in Hw as [Hwx Hwr].
  assert (0 < n_records_of x).
  { destruct x as [p ov bl|b]; cbn in *.
    - destruct bl; [cbn in Hx; congruence|]. cbn [length]. lia.
    - inversion Hwx as [|? ? (_ & _ & Hn & _) _]; subst.
      assert (rb_recs b <> []) by (intro E; apply Hn; cbn; unfold batch_cands; now rewrite E).
      destruct (rb_recs b); [congruence|]. cbn [length]. lia. }
  assert (0 <= fold_right (fun r0 a => n_records_of r0 + a) 0 r).
  { clear. induction r as [|y r IH]; cbn; [lia|]. assert (0 <= n_records_of y) by (destruct y; cbn; lia). lia. }
  lia.
Qed.

Lemma head_min : forall l o, Forall wf_sbatch l -> ordered l ->
  (forall y0, hd_error l = Some y0 -> o <= hi y0) -> forall y, In y l -> o <= hi y.
Proof.
  intros [|y0 l] o Hw Ho Hhd y Hy; [contradiction|]. specialize (Hhd y0 eq_refl).
  destruct Hy as [<-|Hy]; auto. destruct Ho as [HF _]. rewrite Forall_forall in HF. specialize (HF y Hy).
  inversion Hw as [|? ? H1 H2]; subst. pose proof (wf_lo_hi y0 H1). rewrite Forall_forall in H2.
  pose proof (wf_lo_hi y (H2 y Hy)). lia.
Qed.

Section Run.
  Variable size : sbatch -> Z.
  Variables (c : cfg) (log : list sbatch) (es : list entry) (S : Z).
  Hypothesis Hwf : wf_log log.
  Hypothesis Hfits : fits size c log.
  Hypothesis Hindex : read_committed c = true -> index_wf log es /\ index_complete log es.

  Definition Inv (s : pstate) (out : list cmsg) : Prop :=
    S <= offset s /\ out = filter (in_range S (offset s)) (visible c log).

  Lemma quiet_noop : forall s r msgs s1 v errs, quiet r -> parse_response c s r = (msgs, s1, v, errs) ->
    msgs = [] /\ offset s1 = offset s /\ errs = [].
  Proof.
    intros s r msgs s1 v errs Hq E. unfold parse_response in E.
    destruct (negb (rs_throttle r =? 0) && rs_noblocks r) eqn:Et; [injection E as <- <- <- <-; auto|].
    destruct (rs_block r) as [b|] eqn:Eb; [|injection E as <- <- <- <-; auto].
    destruct (negb (bl_err b =? 0)) eqn:Ee; [injection E as <- <- <- <-; auto|].
    destruct Hq as [[H1 H2]|[H|(b' & Hb' & H)]].
    - rewrite H2 in Et. apply Z.eqb_neq in H1. rewrite H1 in Et. discriminate.
    - congruence.
    - assert (b' = b) by congruence. subst b'. destruct H as [H|[H1 H2]].
      + apply Z.eqb_neq in H. rewrite H in Ee. discriminate.
      + rewrite H1, H2 in E. cbn in E. injection E as <- <- <- <-. auto.
  Qed.

  Lemma partial_noskip : forall s r msgs s1 v errs, partial_only size log s r -> parse_response c s r = (msgs, s1, v, errs) ->
    msgs = [] /\ offset s1 = offset s /\ errs = [] /\ v = VOk /\ fetch_size s1 = grow c (fetch_size s).
  Proof.
    intros s r msgs s1 v errs (b & y & Hb & Hthr & He & Hn & Hp & Hy & Hsz) E. unfold parse_response in E.
    assert (negb (rs_throttle r =? 0) && rs_noblocks r = false) as Et.
    { destruct Hthr as [-> | ->]; [cbn; auto|now rewrite andb_false_r]. }
    rewrite Et, Hb, He, Hn, Hp in E. cbn [negb Z.eqb] in E.
    assert ((0 <? fetch_max c) && (fetch_size s =? fetch_max c) = false) as Em.
    { destruct Hfits as [H0|Hall]; [rewrite H0; auto|]. specialize (Hall y Hy).
      apply andb_false_iff; right. apply Z.eqb_neq. lia. }
    rewrite Em in E. injection E as <- <- <- <-. auto.
  Qed.

  (* a faithful data response *)
  Lemma data_step : forall s r msgs s1 v errs out, data c log es s r -> parse_response c s r = (msgs, s1, v, errs) ->
    Inv s out -> Inv s1 (out ++ msgs) /\ v = VOk /\ errs = [] /\ offset s < offset s1 /\
    (forall b, rs_block r = Some b -> Forall (fun m => cm_offset m < offset s1) (flat_map cands (flat_map chunk (bl_set b)))).
  Proof.
    intros s r msgs s1 v errs out (b & pre & post & Hb & Hthr & He & Elog & Hpre & Hne & Hch & Hhd & Hix) E [HS Hout].
    unfold parse_response in E.
    assert (negb (rs_throttle r =? 0) && rs_noblocks r = false) as Et.
    { destruct Hthr as [-> | ->]; [cbn; auto|now rewrite andb_false_r]. }
    rewrite Et, Hb, He in E. cbn [negb Z.eqb] in E.
    set (mid := flat_map chunk (bl_set b)) in *.
    destruct Hwf as [Hw Ho]. pose proof Hw as Hw0. pose proof Ho as Ho0. rewrite Elog in Hw, Ho.
    apply Forall_app in Hw as [Hwp Hw]. apply Forall_app in Hw as [Hwm Hwq].
    destruct (ordered_app _ _ Ho) as (Op & Omq & Opmq). destruct (ordered_app _ _ Omq) as (Om & Oq & Omq').
    assert (Hn : n_records b =? 0 = false).
    { apply Z.eqb_neq. pose proof (n_records_pos (bl_set b) Hne Hch Hwm). unfold n_records. lia. }
    rewrite Hn in E.
    destruct (parse_set_offsets c (bl_set b) (offset s) (sort_idx (bl_aborted b)) [] Hwm Om Hch Hhd) as (o' & P & _ & P2 & P3).
    fold mid in P, P2, P3. rewrite P in E. injection E as <- <- <- <-. cbn [offset set_offset].
    assert (Hmid : mid <> []).
    { destruct (bl_set b) as [|x rs]; [congruence|]. subst mid. cbn. inversion Hch; subst.
      destruct (chunk x); [congruence|discriminate]. }
    specialize (P2 Hmid).
    (* the model's decisions are the ground truth *)
    assert (Hfl : flags c (sort_idx (bl_aborted b)) [] (bl_set b) = dflags c mid post).
    { destruct (read_committed c) eqn:Erc.
      - destruct (Hindex eq_refl) as [Hiw Hic]. specialize (Hix eq_refl).
        apply (flags_deliverable c log es (bl_aborted b) (offset s) (top_of mid 0) (conj Hw0 Ho0) Hiw Hic Hix Erc
                 (bl_set b) pre [] [] (sort_idx (bl_aborted b)) post); auto.
        + rewrite Forall_forall. intros y Hy. split.
          * now apply (head_min mid (offset s) Hwm Om Hhd).
          * unfold top_of. apply ordered_last_max; auto.
        + apply TxInv_init.
      - now apply flags_uncommitted. }
    rewrite Hfl in *. unfold Inv. cbn [offset set_offset].
    split; [|split; [auto|split; [auto|split; [lia|]]]].
    - split; [lia|]. rewrite Hout, Elog. rewrite (visible_split c pre), (visible_split c mid post).
      rewrite !filter_app.
      assert (Hq : forall o2, o2 <= o' -> filter (in_range S o2) (visible c post) = []).
      { intros o2 Ho2. apply in_range_none_above. rewrite Forall_forall. intros m Hm.
        apply visible_sub in Hm as (y & Hy & Hm).
        pose proof (last_In _ mid dummy Hmid) as Hl. specialize (Omq' _ _ Hl Hy).
        rewrite Forall_forall in Hwq. destruct (Hwq y Hy) as (_ & Hb' & _). rewrite Forall_forall in Hb'.
        specialize (Hb' m Hm). lia. }
      rewrite (Hq (offset s)) by lia. rewrite (Hq o') by lia. rewrite !app_nil_r, <- app_assoc. f_equal.
      + symmetry. apply in_range_ext_below; [lia|]. apply select_bound. rewrite Forall_forall. intros m Hm.
        apply in_flat_map in Hm as (y & Hy & Hm). rewrite Forall_forall in Hpre, Hwp. specialize (Hpre y Hy).
        destruct (Hwp y Hy) as (_ & Hb' & _). rewrite Forall_forall in Hb'. specialize (Hb' m Hm). lia.
      + symmetry. apply split_sorted; auto; try lia.
        * apply select_sorted. now apply group_cands.
        * now apply select_bound.
    - intros b' Hb'. assert (b' = b) by congruence. subst b'. exact P3.
  Qed.

  Lemma step_inv : forall s r msgs s1 v errs out, faithful size c log es s r ->
    parse_response c s r = (msgs, s1, v, errs) -> Inv s out -> Inv s1 (out ++ msgs).
  Proof.
    intros s r msgs s1 v errs out [Hq|[Hp|Hd]] E HI.
    - destruct (quiet_noop _ _ _ _ _ _ Hq E) as (-> & Eo & _). rewrite app_nil_r. unfold Inv. now rewrite Eo.
    - destruct (partial_noskip _ _ _ _ _ _ Hp E) as (-> & Eo & _). rewrite app_nil_r. unfold Inv. now rewrite Eo.
    - now destruct (data_step _ _ _ _ _ _ out Hd E HI).
  Qed.

  Theorem run_inv : forall s out s' out', run size c log es s out s' out' -> Inv s out -> Inv s' out'.
  Proof. induction 1; intros HI; auto. apply IHrun. eapply step_inv; eauto. Qed.

  Lemma Inv_init : forall s, offset s = S -> Inv s [].
  Proof.
    intros s H0. split; [lia|]. symmetry. apply filter_none. intros x _. unfold in_range. rewrite H0.
    destruct (S <=? cm_offset x) eqn:E1; cbn; auto. apply Z.leb_le in E1. apply Z.ltb_ge. lia.
  Qed.

  (* exactly once, in order, unaltered, nothing skipped *)
  Theorem run_exact : forall s0 s' out, offset s0 = S -> run size c log es s0 [] s' out ->
    out = filter (in_range S (offset s')) (visible c log) /\ S <= offset s' /\
    (exists rest, filter (geo S) (visible c log) = out ++ rest) /\
    StronglySorted Z.lt (offs out) /\
    (forall m, In m out -> exists y, In y log /\ In m (cands y)).
  Proof.
    intros s0 s' out H0 Hr. destruct (run_inv _ _ _ _ Hr (Inv_init s0 H0)) as [HS Hout].
    destruct Hwf as [Hw Ho]. pose proof (visible_sorted c log Hw Ho) as Hvs.
    split; [auto|]. split; [auto|]. split; [|split].
    - exists (filter (geo (offset s')) (visible c log)). rewrite Hout. now apply range_prefix.
    - rewrite Hout. clear Hout. induction (visible c log) as [|x l IH]; cbn [filter]; [constructor|].
      cbn [offs map] in Hvs. apply StronglySorted_inv in Hvs as [Hvs Hx]. destruct (in_range S (offset s') x); auto.
      cbn [offs map]. constructor; auto. rewrite Forall_forall in *. intros z Hz. apply in_map_iff in Hz as (m & <- & Hm).
      apply filter_In in Hm as [Hm _]. apply Hx. now apply in_map.
    - intros m Hm. rewrite Hout in Hm. apply filter_In in Hm as [Hm _]. now apply visible_sub in Hm.
  Qed.
End Run.
