(* C19 — the hand model's retry loop and error classification are the definitions regenerated from admin.go by
   go/decgen (golden SV.Gen.DecC19, re-derived from the source and compared on every run). *)
From Coq Require Import List ZArith Bool String Lia.
From SV Require Import Gen.GoInt Gen.DecTypes Gen.DecC19 C19.Model.
Import ListNotations.
Open Scope Z_scope.

(* the model's error classes as Go error values *)
Definition to_gerr (e : err) : gerr :=
  match e with
  | EKafka WTopicError c => ETopicError c
  | EKafka WKError c => EK c
  | EKafka WTopicPartitionError c => ETopicPartitionError c
  | EIncomplete => EVar "ErrIncompleteResponse"
  | ETransport => EOther 0
  | ECtrlNotAvailable => EVar "ErrControllerNotAvailable"
  | EMulti _ => EOther 1                  (* ErrReassignPartitions{...}: a struct no case of the type switch matches *)
  end.
Definition og (r : option err) : gerr := match r with None => ENil | Some e => to_gerr e end.

(* isErrNoController *)
Lemma tie_retryable : forall e, retryable e = is_err_no_controller (to_gerr e).
Proof. intros [[| |] c| | | |l]; reflexivity. Qed.

Lemma to_gerr_not_nil : forall e, gerr_eqb (to_gerr e) ENil = false.
Proof. intros [[| |] c| | | |l]; reflexivity. Qed.

(* the results of the first n calls of the closure, if each of them is followed by another call *)
Fixpoint results (c : cfg) (n : nat) (s : st) : list gerr :=
  match n with
  | O => []
  | S n' => let '(s1, r, _) := attempt c s in og r :: results c n' s1
  end.

Lemma tie_loop : forall c fuel s last att rest,
  snd (retry_on_error_loop1 fuel att (results c fuel s ++ rest) is_err_no_controller (c_max c) (og last)) =
  og (snd (fst (retry_loop c fuel s last))).
Proof.
  intros c fuel. induction fuel as [|fuel IH]; intros s last att rest; [reflexivity|].
  simpl. destruct (attempt c s) as [[s1 r] ev] eqn:A. simpl.
  destruct r as [e|]; simpl.
  - rewrite to_gerr_not_nil, <- tie_retryable. simpl. destruct (retryable e) eqn:R; simpl; [|reflexivity].
    specialize (IH s1 (Some e) (att + 1) rest). simpl in IH. rewrite IH.
    now destruct (retry_loop c fuel s1 (Some e)) as [[s2 r2] ev2].
  - reflexivity.
Qed.

(* retryOnError: what the operation returns is what the regenerated loop returns on the script of the closure's
   successive results *)
Theorem tie_retry_on_error : forall c s, c_flav c = fixed ->
  snd (retry_on_error (results c (budget fixed (c_max c)) s) is_err_no_controller (c_max c)) =
  og (snd (fst (run c s))).
Proof.
  intros c s F. unfold retry_on_error, run. rewrite F.
  replace (Z.to_nat (Z.max 1 (c_max c - 0))) with (budget fixed (c_max c)) by (unfold budget; simpl; f_equal; lia).
  rewrite <- (app_nil_r (results c _ s)). apply (tie_loop c _ s None 0 []).
Qed.

(* ------------------------------------------------------------------------------------------------ *)
(* second wave of goldens: the attempt closures and the two loops of DescribeConsumerGroups *)
From SV Require Import Gen.DecTypes2 C19.ProofsRetry C19.ProofsRoute.

(* the closure of CreateTopic / DeleteTopic / CreatePartitions as regenerated *)
Definition gen_attempt (o : op) : gerr -> gerr -> Z -> bool -> list ad_action * gerr :=
  match o with
  | OpCreateTopic => create_topic_attempt
  | OpDeleteTopic => delete_topic_attempt
  | OpCreatePartitions => create_partitions_attempt
  | OpAlter => fun _ _ _ _ => ([], ENil)        (* not regenerated: its closure builds a MultiError *)
  end.

(* how the model's script presents itself to the closure *)
Definition controller_gerr (c : cfg) (s : st) : gerr :=       (* ca.Controller() *)
  if valid (c_n c) (ctrl (resolve c s)) then ENil else EVar "ErrControllerNotAvailable".
Definition request_gerr (c : cfg) (a : answer) : gerr :=      (* b.CreateTopics(request) etc. *)
  if c_kver c <? min_kver (c_op c) then EK unsupported_version
  else match a with ADrop => EOther 0 | _ => ENil end.
Definition answer_code (a : answer) : Z := match a with ACode x | AParts x _ => x | _ => 0 end.
Definition answer_present (a : answer) : bool := match a with AIncomplete => false | _ => true end.

(* did this attempt send its request and then call refreshController? *)
Definition attempt_refreshes (c : cfg) (s : st) : bool :=
  let s1 := resolve c s in
  valid (c_n c) (ctrl s1) && negb (c_kver c <? min_kver (c_op c)) &&
  refreshes (c_flav c) (c_op c) (answer_of (hd [] (answers s1)) (ctrl s1)).

Theorem tie_attempt : forall c s, c_op c <> OpAlter ->
  let s1 := resolve c s in
  let a := answer_of (hd [] (answers s1)) (ctrl s1) in
  gen_attempt (c_op c) (controller_gerr c s) (request_gerr c a) (answer_code a) (answer_present a) =
  ((if attempt_refreshes c s then [AD_refresh_controller] else []), og (snd (fst (attempt c s)))).
Proof.
  intros c s Ho s1 a. rewrite attempt_eq. cbv zeta. fold s1. fold a.
  unfold controller_gerr, request_gerr, attempt_refreshes. fold s1. fold a.
  destruct (valid (c_n c) (ctrl s1)); simpl.
  2:{ destruct (c_op c); try congruence; reflexivity. }
  destruct (c_kver c <? min_kver (c_op c)); simpl.
  { destruct (c_op c); try congruence; reflexivity. }
  destruct (c_op c); try congruence; destruct a as [x|x ps| |];
    unfold gen_attempt, create_topic_attempt, delete_topic_attempt, create_partitions_attempt,
      interpret, refreshes, answer_code, answer_present, not_controller, wrap_of; simpl; try reflexivity;
    (destruct (x =? 0) eqn:E0; simpl; [apply Z.eqb_eq in E0; subst x; reflexivity|]);
    destruct (x =? 41); reflexivity.
Qed.

(* ---- DescribeConsumerGroups, first loop: client.Coordinator per group, first error aborts ---- *)
Fixpoint first_err (e : grp_env) (gs : list Z) : option Z :=
  match gs with
  | [] => None
  | g :: r => match coord_lookup e g with inr c => Some c | inl _ => first_err e r end
  end.

Lemma find_all_first_err : forall e gs seen,
  (forall g, In g seen -> exists b, coord_lookup e g = inl b) ->
  fst (find_all e gs seen) = first_err e gs.
Proof.
  intros e gs. induction gs as [|g gs IH]; intros seen S; simpl; [reflexivity|].
  destruct (mem g seen) eqn:M.
  - apply mem_in in M. destruct (S g M) as [b ->]. now apply IH.
  - destruct (coord_lookup e g) as [b|c] eqn:L; [|reflexivity].
    destruct (find_all e gs (g :: seen)) as [x ev] eqn:F. simpl.
    rewrite <- (IH (g :: seen)); [now rewrite F|]. intros g' [<-|H]; eauto.
Qed.

(* the results of client.Coordinator(group) for the groups in order *)
Definition coordinator_script (e : grp_env) (gs : list Z) : list (unit * gerr) :=
  map (fun g => (tt, match coord_lookup e g with inl _ => ENil | inr c => EK c end)) gs.

Lemma lookup_loop : forall e (name : Z -> string) gs rest names acts,
  let r := describe_groups_lookup_loop1 (map name gs) (coordinator_script e gs ++ rest) names acts in
  snd r = match first_err e gs with Some c => ExReturn ([], EK c) | None => ExFall end /\
  (first_err e gs = None -> fst r = (rest, acts ++ map (fun g => AD_group_to_coordinator (name g)) gs)).
Proof.
  intros e name gs. induction gs as [|g gs IH]; intros rest names acts; simpl.
  - split; [reflexivity|]. intros _. now rewrite app_nil_r.
  - destruct (coord_lookup e g) as [b|c]; simpl.
    + destruct (IH rest names (acts ++ [AD_group_to_coordinator (name g)])) as [H1 H2].
      split; [exact H1|]. intro F. rewrite (H2 F). now rewrite <- app_assoc.
    + split; [reflexivity|discriminate].
Qed.

Theorem tie_describe_lookup : forall e (name : Z -> string) gs,
  let r := describe_groups_lookup (coordinator_script e gs) (map name gs) in
  match fst (find_all e gs []) with
  | Some c => snd r = ExReturn ([], EK c) /\ fst (group_op GDescribe e gs []) = RErr (EKafka WKError c)
  | None => snd r = ExFall /\ snd (fst r) = map (fun g => AD_group_to_coordinator (name g)) gs
  end.
Proof.
  intros e name gs r. unfold r, describe_groups_lookup.
  destruct (lookup_loop e name gs [] (map name gs) []) as [H1 H2]. rewrite app_nil_r in H1, H2.
  rewrite (find_all_first_err e gs [] (fun _ (x : In _ []) => match x with end)).
  destruct (first_err e gs) as [c|] eqn:F.
  - split; [exact H1|]. simpl.
    destruct (find_all e gs []) as [x ev] eqn:FA.
    pose proof (find_all_first_err e gs [] (fun _ (x : In _ []) => match x with end)) as E.
    rewrite FA, F in E. simpl in E. now subst x.
  - split; [exact H1|]. now rewrite (H2 eq_refl).
Qed.

(* ---- second loop: one DescribeGroups call per coordinator, first failure aborts, answers concatenated ---- *)
Definition broker_response (e : grp_env) (enc : Z * Z -> Z) (bg : Z * list Z) : list Z * gerr :=
  match assoc_def BNormal (fst bg) (g_modes e) with
  | BDrop => ([], EOther 0)
  | BMissing => ([], ENil)
  | BNormal => (map (fun g => enc (g, assoc_def 0 g (g_codes e))) (snd bg), ENil)
  end.

Lemma collect_loop : forall e enc plan res0 rest pbs,
  let r := describe_groups_collect_loop1 (map (fun bg => (fst bg, 0)) plan) res0
             (map (broker_response e enc) plan ++ rest) pbs in
  match fst (describe_plan e plan) with
  | RItems l => r = (res0 ++ map enc l, rest, ExFall)
  | _ => snd r = ExReturn ([], EOther 0)
  end.
Proof.
  intros e enc plan. induction plan as [|[b gs] plan IH]; intros res0 rest pbs; simpl.
  - now rewrite app_nil_r.
  - destruct (assoc_def BNormal b (g_modes e)) eqn:M.
    + assert (BR : broker_response e enc (b, gs) = (map (fun g => enc (g, assoc_def 0 g (g_codes e))) gs, ENil))
        by (unfold broker_response; simpl; now rewrite M).
      rewrite BR. simpl.
      specialize (IH (res0 ++ map (fun g => enc (g, assoc_def 0 g (g_codes e))) gs) rest pbs).
      destruct (describe_plan e plan) as [res' ev']. simpl in *.
      destruct res' as [|x|l]; simpl; try exact IH.
      rewrite IH. now rewrite map_app, map_map, app_assoc.
    + assert (BR : broker_response e enc (b, gs) = ([], EOther 0))
        by (unfold broker_response; simpl; now rewrite M).
      rewrite BR. reflexivity.
    + assert (BR : broker_response e enc (b, gs) = ([], ENil))
        by (unfold broker_response; simpl; now rewrite M).
      rewrite BR. simpl.
      specialize (IH (res0 ++ []) rest pbs).
      destruct (describe_plan e plan) as [res' ev']. simpl in *.
      destruct res' as [|x|l]; simpl; try exact IH.
      rewrite IH. now rewrite app_nil_r.
Qed.

Theorem tie_describe_collect : forall e enc gs,
  let plan := group_by (coord_key e) gs in
  let r := describe_groups_collect [] (map (broker_response e enc) plan) (map (fun bg => (fst bg, 0)) plan) in
  match fst (describe_plan e plan) with
  | RItems l => r = (map enc l, [], ExFall)
  | _ => snd r = ExReturn ([], to_gerr ETransport)
  end.
Proof.
  intros e enc gs plan r. unfold r, describe_groups_collect.
  pose proof (collect_loop e enc plan [] [] (map (fun bg => (fst bg, 0)) plan)) as H.
  rewrite app_nil_r in H. exact H.
Qed.
