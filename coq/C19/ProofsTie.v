(* C19 — the hand model's retry loop and error classification are the definitions regenerated from admin.go by
   go/decgen (golden SV.Gen.DecC19, re-derived from the source and compared on every run). *)
From Coq Require Import List ZArith Bool String Lia.
From SV Require Import Gen.GoInt Gen.DecTypes Gen.DecC19 C19.Model.
Import ListNotations.
Open Scope Z_scope.

(* the model's error classes as Go error values *)
Definition to_gerr (e : err) : gerr :=
  match e with
  | EKafka WTopicError c => ETopicError c
  | EKafka WKError c => EK c
  | EKafka WTopicPartitionError c => ETopicPartitionError c
  | EIncomplete => EVar "ErrIncompleteResponse"
  | ETransport => EOther 0
  | ECtrlNotAvailable => EVar "ErrControllerNotAvailable"
  | EMulti _ => EOther 1                  (* ErrReassignPartitions{...}: a struct no case of the type switch matches *)
  end.
Definition og (r : option err) : gerr := match r with None => ENil | Some e => to_gerr e end.

(* isErrNoController *)
Lemma tie_retryable : forall e, retryable e = is_err_no_controller (to_gerr e).
Proof. intros [[| |] c| | | |l]; reflexivity. Qed.

Lemma to_gerr_not_nil : forall e, gerr_eqb (to_gerr e) ENil = false.
Proof. intros [[| |] c| | | |l]; reflexivity. Qed.

(* the results of the first n calls of the closure, if each of them is followed by another call *)
Fixpoint results (c : cfg) (n : nat) (s : st) : list gerr :=
  match n with
  | O => []
  | S n' => let '(s1, r, _) := attempt c s in og r :: results c n' s1
  end.

Lemma tie_loop : forall c fuel s last att rest,
  snd (retry_on_error_loop1 fuel att (results c fuel s ++ rest) is_err_no_controller (c_max c) (og last)) =
  og (snd (fst (retry_loop c fuel s last))).
Proof.
  intros c fuel. induction fuel as [|fuel IH]; intros s last att rest; [reflexivity|].
  simpl. destruct (attempt c s) as [[s1 r] ev] eqn:A. simpl.
  destruct r as [e|]; simpl.
  - rewrite to_gerr_not_nil, <- tie_retryable. simpl. destruct (retryable e) eqn:R; simpl; [|reflexivity].
    specialize (IH s1 (Some e) (att + 1) rest). simpl in IH. rewrite IH.
    now destruct (retry_loop c fuel s1 (Some e)) as [[s2 r2] ev2].
  - reflexivity.
Qed.

(* retryOnError: what the operation returns is what the regenerated loop returns on the script of the closure's
   successive results *)
Theorem tie_retry_on_error : forall c s, c_flav c = fixed ->
  snd (retry_on_error (results c (budget fixed (c_max c)) s) is_err_no_controller (c_max c)) =
  og (snd (fst (run c s))).
Proof.
  intros c s F. unfold retry_on_error, run. rewrite F.
  replace (Z.to_nat (Z.max 1 (c_max c - 0))) with (budget fixed (c_max c)) by (unfold budget; simpl; f_equal; lia).
  rewrite <- (app_nil_r (results c _ s)). apply (tie_loop c _ s None 0 []).
Qed.
