(* C19 — executable model of sarama's ClusterAdmin (admin.go) for the operations the property names.
   No proofs here.

   Part 1: controller-bound operations (CreateTopic, DeleteTopic, CreatePartitions,
           AlterPartitionReassignments): `retryOnError` around an attempt that asks the client for the
           controller (`Controller`, cached or refreshed from metadata), sends the request there, interprets
           the answer and, on NOT_CONTROLLER, refreshes the controller (`refreshController`).
           The cluster is a script: a stream of controller ids named by successive metadata responses and a
           stream of answers (one row per request sent, one answer per broker that could receive it).
   Part 2: DeleteRecords (partitions grouped per leader) and the group operations routed per coordinator
           (DescribeConsumerGroups, ListConsumerGroupOffsets, DeleteConsumerGroup).

   Brokers are 1..n; broker 1 is the seed that serves metadata / FindCoordinator. Error codes are Kafka's
   numeric codes. A [flavour] says which repairs of the pinned tree the modelled code contains. *)
From Coq Require Import List ZArith Bool.
Import ListNotations.
Open Scope Z_scope.

Record flavour := {
  f_first_attempt : bool;   (* retryOnError always makes the first attempt (fixes/c19_retry0.patch) *)
  f_alter_retry : bool;     (* Alter returns a bare NOT_CONTROLLER after refreshing (fixes/c19_alter.patch) *)
  f_alter_any_code : bool   (* Alter treats every non-zero top-level code as an error, not only codes > 0 *)
}.
Definition pinned : flavour := {| f_first_attempt := false; f_alter_retry := false; f_alter_any_code := false |}.
Definition fixed : flavour := {| f_first_attempt := true; f_alter_retry := true; f_alter_any_code := true |}.

Inductive op := OpCreateTopic | OpDeleteTopic | OpCreatePartitions | OpAlter.
(* Go type that carries a broker's error code back to the caller *)
Inductive wrap := WTopicError | WKError | WTopicPartitionError.

Definition not_controller : Z := 41.
Definition unsupported_version : Z := 35.
Definition transport_item : Z * Z := (-2, 0).

Inductive answer :=
| ACode (c : Z)                          (* the topic's error code, 0 = none; for Alter the top-level code *)
| AParts (top : Z) (ps : list (Z * Z))   (* Alter only: top-level code and (partition, code) entries *)
| AIncomplete                            (* a response without an entry for the topic *)
| ADrop.                                 (* the connection is closed instead of an answer *)

Inductive err :=
| EKafka (w : wrap) (c : Z)       (* a Kafka error code in the operation's own error type *)
| EIncomplete                     (* ErrIncompleteResponse *)
| ETransport                      (* a transport-level failure, returned as is *)
| ECtrlNotAvailable               (* ErrControllerNotAvailable *)
| EMulti (items : list (Z * Z)).  (* ErrReassignPartitions / ErrDeleteRecords: (-1, top code), (partition, code), (-2, 0) transport *)

Inductive result := ROk | RErr (e : err) | RItems (items : list (Z * Z)).

Inductive event :=
| LMeta                          (* a metadata request (controller refresh) *)
| LReq (b v : Z) (a : answer).   (* the operation's request, version v, received by broker b, which answered a *)

(* Kafka versions that matter, as ranks:
   0: 0.10.0.0   1: 0.10.1.0   2: 0.10.2.0   3: 0.11.0.0   4: 1.0.0.0   5: 1.1.0.0   6: 2.0.0.0   7: 2.4.0.0 *)
Definition req_version (o : op) (k : Z) : Z :=
  match o with
  | OpCreateTopic => if 4 <=? k then 2 else if 3 <=? k then 1 else 0
  | OpDeleteTopic => if 3 <=? k then 1 else 0
  | OpCreatePartitions => 0
  | OpAlter => 0
  end.
(* requiredVersion() of the request the operation builds *)
Definition min_kver (o : op) : Z :=
  match o with OpCreateTopic => 1 | OpDeleteTopic => 1 | OpCreatePartitions => 4 | OpAlter => 7 end.

Definition wrap_of (o : op) : wrap :=
  match o with
  | OpCreateTopic => WTopicError | OpDeleteTopic => WKError
  | OpCreatePartitions => WTopicPartitionError | OpAlter => WKError
  end.

Record cfg := { c_flav : flavour; c_op : op; c_kver : Z; c_max : Z; c_n : Z }.

(* client + scripted cluster *)
Record st := {
  ctrl : Z;                         (* client.controllerID; its broker is registered iff it is one of 1..n *)
  metas : list Z;                   (* controller ids the next metadata responses will name *)
  answers : list (list answer)      (* row j: what broker 1, 2, ... answers to the j-th request sent *)
}.

Definition valid (n c : Z) : bool := (1 <=? c) && (c <=? n).

(* client.RefreshMetadata as far as the controller is concerned; an exhausted script repeats its last answer *)
Definition refresh (s : st) : st :=
  match metas s with
  | [] => s
  | m :: r => {| ctrl := m; metas := r; answers := answers s |}
  end.

Definition answer_of (row : list answer) (b : Z) : answer := nth (Z.to_nat (b - 1)) row (ACode 0).

Definition nonzero (x : Z * Z) : bool := negb (snd x =? 0).

(* what the attempt closure returns for the answer it got; None = nil *)
Definition interpret (f : flavour) (o : op) (a : answer) : option err :=
  match o with
  | OpAlter =>
    match a with
    | ADrop => Some (EMulti [transport_item])
    | AIncomplete => None
    | ACode c | AParts c _ =>
      if f_alter_retry f && (c =? not_controller) then Some (EKafka WKError c) else
      let top := if (if f_alter_any_code f then negb (c =? 0) else 0 <? c) then [(-1, c)] else [] in
      let parts := match a with AParts _ ps => filter nonzero ps | _ => [] end in
      match top ++ parts with [] => None | l => Some (EMulti l) end
    end
  | _ =>
    match a with
    | ACode c | AParts c _ => if c =? 0 then None else Some (EKafka (wrap_of o) c)
    | AIncomplete => Some EIncomplete
    | ADrop => Some ETransport
    end
  end.

(* does the attempt call refreshController before returning? *)
Definition refreshes (f : flavour) (o : op) (a : answer) : bool :=
  match a with
  | ACode c | AParts c _ => (c =? not_controller) && match o with OpAlter => f_alter_retry f | _ => true end
  | _ => false
  end.

(* isErrNoController *)
Definition retryable (e : err) : bool :=
  match e with EKafka _ c => c =? not_controller | _ => false end.

(* Broker.send refuses a request the configured version does not support (ErrUnsupportedVersion, nothing is
   sent); Alter puts whatever the broker call returned into its ErrReassignPartitions list *)
Definition unsupported_err (o : op) : err :=
  match o with
  | OpAlter => EMulti [(-1, unsupported_version)]
  | _ => EKafka WKError unsupported_version
  end.

(* one call of the closure handed to retryOnError *)
Definition attempt (c : cfg) (s : st) : st * option err * list event :=
  (* ca.Controller(): cached, else refresh metadata once *)
  let '(s1, ev1) := if valid (c_n c) (ctrl s) then (s, []) else (refresh s, [LMeta]) in
  if negb (valid (c_n c) (ctrl s1)) then (s1, Some ECtrlNotAvailable, ev1) else
  if c_kver c <? min_kver (c_op c) then (s1, Some (unsupported_err (c_op c)), ev1) else
  let b := ctrl s1 in
  let a := answer_of (hd [] (answers s1)) b in
  let s2 := {| ctrl := ctrl s1; metas := metas s1; answers := tl (answers s1) |} in
  let ev2 := ev1 ++ [LReq b (req_version (c_op c) (c_kver c)) a] in
  match interpret (c_flav c) (c_op c) a with
  | None => (s2, None, ev2)
  | Some e => if refreshes (c_flav c) (c_op c) a then (refresh s2, Some e, ev2 ++ [LMeta]) else (s2, Some e, ev2)
  end.

(* retryOnError: [fuel] iterations remain, [last] is the value of `err` *)
Fixpoint retry_loop (c : cfg) (fuel : nat) (s : st) (last : option err) : st * option err * list event :=
  match fuel with
  | O => (s, last, [])
  | S f =>
    let '(s1, r, ev) := attempt c s in
    match r with
    | None => (s1, None, ev)
    | Some e =>
      if retryable e
      then let '(s2, r2, ev2) := retry_loop c f s1 (Some e) in (s2, r2, ev ++ ev2)
      else (s1, Some e, ev)
    end
  end.

(* number of times the loop body can run *)
Definition budget (f : flavour) (max : Z) : nat :=
  if f_first_attempt f then Z.to_nat (Z.max 1 max) else Z.to_nat max.

Definition run (c : cfg) (s : st) : st * option err * list event :=
  retry_loop c (budget (c_flav c) (c_max c)) s None.

Definition result_of (r : option err) : result := match r with None => ROk | Some e => RErr e end.

(* ------------------------------------------------------------------------------------------------ *)
(* Part 2: routing per leader / per coordinator *)

Section Grouping.
  Context {A : Type}.
  (* partitionPerBroker[broker] = append(partitionPerBroker[broker], item) *)
  Fixpoint add_to (k : Z) (x : A) (m : list (Z * list A)) : list (Z * list A) :=
    match m with
    | [] => [(k, [x])]
    | (k', xs) :: r => if k =? k' then (k', xs ++ [x]) :: r else (k', xs) :: add_to k x r
    end.
  Fixpoint group_from (key : A -> Z) (items : list A) (m : list (Z * list A)) : list (Z * list A) :=
    match items with
    | [] => m
    | x :: r => group_from key r (add_to (key x) x m)
    end.
  Definition group_by (key : A -> Z) (items : list A) : list (Z * list A) := group_from key items [].
End Grouping.

Fixpoint assoc {B : Type} (k : Z) (l : list (Z * B)) : option B :=
  match l with [] => None | (k', v) :: r => if k =? k' then Some v else assoc k r end.
Definition assoc_def {B : Type} (d : B) (k : Z) (l : list (Z * B)) : B :=
  match assoc k l with Some v => v | None => d end.

Inductive bmode := BNormal | BDrop | BMissing.   (* answers / closes the connection / omits the topic or group *)

(* --- DeleteRecords --- *)
Record rec_env := {
  r_n : Z;
  r_leaders : list (Z * Z);     (* partition -> leader id named by the metadata; absent = unknown partition *)
  r_modes : list (Z * bmode);   (* per broker, default BNormal *)
  r_codes : list (Z * Z)        (* partition -> error code in the broker's answer, default 0 *)
}.

(* client.Leader: inl broker, inr Kafka error code (3 unknown topic or partition, 5 leader not available) *)
Definition leader_lookup (e : rec_env) (p : Z) : Z + Z :=
  match assoc p (r_leaders e) with
  | None => inr 3
  | Some l => if valid (r_n e) l then inl l else inr 5
  end.
Definition leader_key (e : rec_env) (p : Z) : Z := match leader_lookup e p with inl b => b | inr _ => 0 end.

Fixpoint lookup_failures (e : rec_env) (ps : list Z) : list Z :=
  match ps with
  | [] => []
  | p :: r => match leader_lookup e p with inl _ => lookup_failures e r | inr c => c :: lookup_failures e r end
  end.

Definition rec_errs (e : rec_env) (b : Z) (ps : list Z) : list (Z * Z) :=
  match assoc_def BNormal b (r_modes e) with
  | BDrop => [transport_item]
  | BMissing => [(-3, 0)]                                            (* ErrIncompleteResponse *)
  | BNormal => filter nonzero (map (fun p => (p, assoc_def 0 p (r_codes e))) ps)
  end.

Definition rec_plan (e : rec_env) (ps : list Z) : list (Z * list Z) := group_by (leader_key e) ps.

(* result, requests sent (broker, partitions); when a leader lookup fails the first failing item decides
   (Go iterates a map: any failing item may be first, see Corr) and nothing is sent *)
Definition delete_records (e : rec_env) (ps : list Z) : result * list (Z * list Z) :=
  match lookup_failures e ps with
  | c :: _ => (RErr (EKafka WKError c), [])
  | [] =>
    let plan := rec_plan e ps in
    let errs := flat_map (fun bp => rec_errs e (fst bp) (snd bp)) plan in
    (match errs with [] => ROk | _ => RErr (EMulti errs) end, plan)
  end.

(* --- group operations --- *)
Inductive gop := GDescribe | GListOffsets | GDelete.

Record grp_env := {
  g_n : Z;
  g_kver : Z;
  g_coord : list (Z * (Z + Z));  (* group -> inl coordinator broker | inr FindCoordinator error code; default broker 1 *)
  g_modes : list (Z * bmode);    (* per broker *)
  g_codes : list (Z * Z);        (* group -> error code (describe, delete); for ListOffsets: partition -> code *)
  g_top : Z                      (* ListOffsets: top-level error code of the answer *)
}.

Inductive gevent :=
| GFind (g : Z)                        (* FindCoordinator for group g, sent to the seed broker *)
| GReq (b v : Z) (items : list Z).     (* the operation's request: broker, version, groups (or partitions) *)

Definition coord_lookup (e : grp_env) (g : Z) : Z + Z := assoc_def (inl 1) g (g_coord e).
Definition coord_key (e : grp_env) (g : Z) : Z := match coord_lookup e g with inl b => b | inr _ => 0 end.

Fixpoint mem (x : Z) (l : list Z) : bool := match l with [] => false | y :: r => (x =? y) || mem x r end.

(* client.Coordinator for each group in order; coordinators already found are cached *)
Fixpoint find_all (e : grp_env) (gs seen : list Z) : option Z * list gevent :=
  match gs with
  | [] => (None, [])
  | g :: r =>
    if mem g seen then find_all e r seen else
    match coord_lookup e g with
    | inr c => (Some c, [GFind g])
    | inl _ => let '(x, ev) := find_all e r (g :: seen) in (x, GFind g :: ev)
    end
  end.

Definition offset_fetch_version (k : Z) : Z := if 2 <=? k then 2 else 1.

(* DescribeConsumerGroups walks its broker -> groups map and stops at the first transport failure *)
Fixpoint describe_plan (e : grp_env) (plan : list (Z * list Z)) : result * list gevent :=
  match plan with
  | [] => (RItems [], [])
  | (b, gs) :: r =>
    match assoc_def BNormal b (g_modes e) with
    | BDrop => (RErr ETransport, [GReq b 0 gs])
    | m =>
      let '(res, ev) := describe_plan e r in
      (match res with
       | RItems l => RItems (match m with
                             | BMissing => []                    (* an answer without the descriptions is accepted *)
                             | _ => map (fun g => (g, assoc_def 0 g (g_codes e))) gs
                             end ++ l)
       | x => x
       end, GReq b 0 gs :: ev)
    end
  end.

Definition group_op (o : gop) (e : grp_env) (gs : list Z) (parts : list Z) : result * list gevent :=
  match o with
  | GDescribe =>
    match find_all e gs [] with
    | (Some c, ev) => (RErr (EKafka WKError c), ev)
    | (None, ev) => let '(res, ev2) := describe_plan e (group_by (coord_key e) gs) in (res, ev ++ ev2)
    end
  | GListOffsets =>
    let g := hd 0 gs in
    match coord_lookup e g with
    | inr c => (RErr (EKafka WKError c), [GFind g])
    | inl b =>
      let v := offset_fetch_version (g_kver e) in
      (match assoc_def BNormal b (g_modes e) with
       | BDrop => RErr ETransport
       | BMissing => RItems [(-1, if 2 <=? v then g_top e else 0)]
       | BNormal => RItems ((-1, if 2 <=? v then g_top e else 0) :: map (fun p => (p, assoc_def 0 p (g_codes e))) parts)
       end, [GFind g; GReq b v parts])
    end
  | GDelete =>
    let g := hd 0 gs in
    match coord_lookup e g with
    | inr c => (RErr (EKafka WKError c), [GFind g])
    | inl b =>
      (match assoc_def BNormal b (g_modes e) with
       | BDrop => RErr ETransport
       | BMissing => RErr EIncomplete
       | BNormal => let c := assoc_def 0 g (g_codes e) in if c =? 0 then ROk else RErr (EKafka WKError c)
       end, [GFind g; GReq b 0 [g]])
    end
  end.
