(* C19 — proofs about routing: per-leader / per-coordinator grouping, one request per broker, nothing dropped
   or duplicated, and an error anywhere makes the operation report an error. *)
From Coq Require Import List ZArith Bool Lia Permutation.
From SV Require Import C19.Model.
Import ListNotations.
Open Scope Z_scope.

Lemma NoDup_app_snoc : forall (l : list Z) k, NoDup l -> ~ In k l -> NoDup (l ++ [k]).
Proof.
  induction l as [|y l IH]; intros k N H; simpl.
  - constructor; [intros []|constructor].
  - inversion N; subst. constructor.
    + intro Hin. apply in_app_or in Hin as [Hin|[->|[]]]; [contradiction|]. apply H. now left.
    + apply IH; [assumption|]. intro; apply H; now right.
Qed.

(* ------------------------------------------------------------------------------------------------ *)
(* group_by *)
Section Grouping.
  Context {A : Type} (key : A -> Z).

  Definition keyed (m : list (Z * list A)) : Prop :=
    forall k xs, In (k, xs) m -> xs <> [] /\ forall x, In x xs -> key x = k.

  Lemma add_to_in : forall k (x : A) (m : list (Z * list A)) k' xs', In (k', xs') (add_to k x m) ->
    In (k', xs') m \/ (k' = k /\ (xs' = [x] \/ exists xs, In (k, xs) m /\ xs' = xs ++ [x])).
  Proof.
    intros k x m. induction m as [|[k0 xs0] m IH]; intros k' xs' H; simpl in H.
    - destruct H as [[= <- <-]|[]]. right; auto.
    - destruct (Z.eqb_spec k k0) as [->|N].
      + destruct H as [[= <- <-]|H]; [|left; now right].
        right. split; [reflexivity|]. right. exists xs0. split; [now left|reflexivity].
      + destruct H as [[= <- <-]|H]; [left; now left|].
        destruct (IH _ _ H) as [H1|(-> & [->|(xs & Hin & ->)])]; [left; now right| |].
        * right; auto.
        * right. split; [reflexivity|]. right. exists xs. split; [now right|reflexivity].
  Qed.

  Lemma add_to_keyed : forall (x : A) m, keyed m -> keyed (add_to (key x) x m).
  Proof.
    intros x m K k xs H. destruct (add_to_in _ _ _ _ _ H) as [H1|(-> & [->|(xs0 & Hin & ->)])].
    - now apply K.
    - split; [discriminate|]. intros y [<-|[]]. reflexivity.
    - split; [destruct xs0; discriminate|]. intros y Hy. apply in_app_or in Hy as [Hy|[<-|[]]]; [|reflexivity].
      now apply (proj2 (K _ _ Hin)).
  Qed.

  Lemma add_to_keys : forall k (x : A) (m : list (Z * list A)),
    map fst (add_to k x m) = if existsb (Z.eqb k) (map fst m) then map fst m else map fst m ++ [k].
  Proof.
    intros k x m. induction m as [|[k0 xs0] m IH]; simpl; [reflexivity|].
    destruct (Z.eqb_spec k k0) as [->|N]; simpl; [reflexivity|].
    rewrite IH. destruct (existsb _ _); reflexivity.
  Qed.

  Lemma add_to_nodup : forall k (x : A) (m : list (Z * list A)), NoDup (map fst m) -> NoDup (map fst (add_to k x m)).
  Proof.
    intros k x m H. rewrite add_to_keys. destruct (existsb (Z.eqb k) (map fst m)) eqn:E; [assumption|].
    apply NoDup_app_snoc; [assumption|]. intro Hin.
    assert (existsb (Z.eqb k) (map fst m) = true) by (apply existsb_exists; exists k; split; [assumption|apply Z.eqb_refl]).
    congruence.
  Qed.

  Lemma add_to_perm : forall k (x : A) (m : list (Z * list A)),
    Permutation (concat (map snd (add_to k x m))) (x :: concat (map snd m)).
  Proof.
    intros k x m. induction m as [|[k0 xs0] m IH]; simpl; [reflexivity|].
    destruct (Z.eqb_spec k k0) as [->|N]; simpl.
    - rewrite <- app_assoc. simpl. symmetry. apply Permutation_middle.
    - rewrite IH. symmetry. apply Permutation_middle.
  Qed.

  Lemma group_from_props : forall items m, keyed m -> NoDup (map fst m) ->
    keyed (group_from key items m) /\ NoDup (map fst (group_from key items m)) /\
    Permutation (concat (map snd (group_from key items m))) (concat (map snd m) ++ items).
  Proof.
    induction items as [|x items IH]; intros m K N; simpl.
    - rewrite app_nil_r. auto.
    - destruct (IH (add_to (key x) x m) (add_to_keyed x m K) (add_to_nodup _ x m N)) as (K' & N' & P').
      split; [assumption|split; [assumption|]].
      rewrite P', add_to_perm. simpl. apply Permutation_middle.
  Qed.

  (* every group holds only items of its key, no key has two groups, the groups partition the items *)
  Theorem group_by_props : forall items,
    keyed (group_by key items) /\ NoDup (map fst (group_by key items)) /\
    Permutation (concat (map snd (group_by key items))) items.
  Proof.
    intro items. apply (group_from_props items []); [intros k xs []|constructor].
  Qed.

  (* hence every item sits in the group of its key *)
  Corollary group_by_complete : forall items x, In x items ->
    exists xs, In (key x, xs) (group_by key items) /\ In x xs.
  Proof.
    intros items x Hx. destruct (group_by_props items) as (K & _ & P).
    apply (Permutation_in _ (Permutation_sym P)) in Hx.
    apply in_concat in Hx as (xs & Hxs & Hin). apply in_map_iff in Hxs as ([k xs'] & <- & Hm).
    simpl in Hin. exists xs'. rewrite (proj2 (K _ _ Hm) _ Hin). auto.
  Qed.
End Grouping.

(* ------------------------------------------------------------------------------------------------ *)
(* small list facts *)
Lemma flat_map_nil : forall {A B} (f : A -> list B) l, flat_map f l = [] -> forall x, In x l -> f x = [].
Proof.
  induction l as [|y l IH]; simpl; intros H x Hx; [contradiction|].
  apply app_eq_nil in H as [H1 H2]. destruct Hx as [<-|Hx]; auto.
Qed.

Lemma filter_nonzero_nil : forall {A} (g : A -> Z * Z) l, filter nonzero (map g l) = [] ->
  forall x, In x l -> snd (g x) = 0.
Proof.
  induction l as [|y l IH]; simpl; intros H x Hx; [contradiction|].
  unfold nonzero at 1 in H. destruct (Z.eqb_spec (snd (g y)) 0) as [E|E]; simpl in H; [|discriminate].
  destruct Hx as [<-|Hx]; auto.
Qed.

(* ------------------------------------------------------------------------------------------------ *)
(* DeleteRecords *)

Lemma lookup_failures_nil : forall e ps, lookup_failures e ps = [] ->
  forall p, In p ps -> exists b, leader_lookup e p = inl b.
Proof.
  induction ps as [|q ps IH]; simpl; intros H p Hp; [contradiction|].
  destruct (leader_lookup e q) as [b|c] eqn:L; [|discriminate].
  destruct Hp as [<-|Hp]; eauto.
Qed.

(* c19_routing, DeleteRecords: one request per leader, each partition in the request of its leader, every
   partition in exactly one request *)
Theorem routing_records : forall e ps, lookup_failures e ps = [] ->
  let reqs := snd (delete_records e ps) in
  (forall b qs, In (b, qs) reqs -> qs <> [] /\ forall p, In p qs -> leader_lookup e p = inl b) /\
  NoDup (map fst reqs) /\
  Permutation (concat (map snd reqs)) ps.
Proof.
  intros e ps F. unfold delete_records. rewrite F. simpl.
  destruct (group_by_props (leader_key e) ps) as (K & N & P). fold (rec_plan e ps) in *.
  split; [|split; assumption].
  intros b qs Hin. destruct (K _ _ Hin) as [NE Hk]. split; [assumption|].
  intros p Hp. specialize (Hk p Hp).
  assert (In p ps).
  { apply (Permutation_in _ P). apply in_concat. exists qs. split; [|assumption].
    apply in_map_iff. exists (b, qs). auto. }
  destruct (lookup_failures_nil e ps F p H) as (b' & L). unfold leader_key in Hk. rewrite L in *. now subst.
Qed.

(* a partition without an available leader: nothing is sent and an error of that class is returned *)
Theorem records_unknown_leader : forall e ps, lookup_failures e ps <> [] ->
  snd (delete_records e ps) = [] /\
  exists c, fst (delete_records e ps) = RErr (EKafka WKError c) /\ In c (lookup_failures e ps).
Proof.
  intros e ps F. unfold delete_records. destruct (lookup_failures e ps) as [|c l]; [congruence|].
  simpl. split; [reflexivity|]. exists c. auto.
Qed.

(* c19_any_error, DeleteRecords: success is reported only if every leader was found, every contacted broker
   answered with the topic, and no partition carried an error code *)
Theorem any_error_records : forall e ps, fst (delete_records e ps) = ROk ->
  forall p, In p ps -> exists b, leader_lookup e p = inl b /\
    assoc_def BNormal b (r_modes e) = BNormal /\ assoc_def 0 p (r_codes e) = 0.
Proof.
  intros e ps H p Hp. unfold delete_records in H.
  destruct (lookup_failures e ps) eqn:F; [|discriminate]. simpl in H.
  destruct (flat_map _ _) eqn:E; [|discriminate].
  destruct (lookup_failures_nil e ps F p Hp) as (b & L). exists b. split; [assumption|].
  destruct (group_by_complete (leader_key e) ps p Hp) as (qs & Hin & Hq).
  pose proof (flat_map_nil _ _ E _ Hin) as R. simpl in R.
  unfold leader_key in R at 1. rewrite L in R. unfold rec_errs in R.
  destruct (assoc_def BNormal b (r_modes e)); try discriminate. split; [reflexivity|].
  apply (filter_nonzero_nil (fun p => (p, assoc_def 0 p (r_codes e))) qs R p Hq).
Qed.

(* ------------------------------------------------------------------------------------------------ *)
(* group operations *)

Definition plan_reqs (plan : list (Z * list Z)) : list gevent := map (fun bg => GReq (fst bg) 0 (snd bg)) plan.

Lemma mem_in : forall x l, mem x l = true <-> In x l.
Proof.
  induction l as [|y l IH]; simpl; [split; [discriminate|contradiction]|].
  rewrite orb_true_iff, IH. split; intros [H|H]; auto; [left; now apply Z.eqb_eq in H | left; subst; apply Z.eqb_refl].
Qed.

Lemma find_all_found : forall e gs seen ev,
  (forall g, In g seen -> exists b, coord_lookup e g = inl b) ->
  find_all e gs seen = (None, ev) ->
  forall g, In g gs -> exists b, coord_lookup e g = inl b.
Proof.
  intros e gs. induction gs as [|g0 gs IH]; intros seen ev S H g Hg; [contradiction|].
  simpl in H. destruct (mem g0 seen) eqn:M.
  - destruct Hg as [<-|Hg]; [apply S; now apply mem_in|]. eapply IH; eauto.
  - destruct (coord_lookup e g0) as [b|c] eqn:L; [|discriminate].
    destruct (find_all e gs (g0 :: seen)) as [x ev'] eqn:F. injection H as -> <-.
    destruct Hg as [<-|Hg]; [eauto|].
    eapply (IH (g0 :: seen)); eauto. intros g' [<-|Hs]; eauto.
Qed.

Lemma find_all_failed : forall e gs seen c ev, find_all e gs seen = (Some c, ev) ->
  exists g, In g gs /\ coord_lookup e g = inr c.
Proof.
  intros e gs. induction gs as [|g0 gs IH]; intros seen c ev H; simpl in H; [discriminate|].
  destruct (mem g0 seen).
  - destruct (IH _ _ _ H) as (g & Hg & L). exists g; split; [now right|assumption].
  - destruct (coord_lookup e g0) as [b|c'] eqn:L.
    + destruct (find_all e gs (g0 :: seen)) as [x ev'] eqn:F. injection H as -> <-.
      destruct (IH _ _ _ F) as (g & Hg & L'). exists g; split; [now right|assumption].
    + injection H as <- <-. exists g0; split; [now left|assumption].
Qed.

(* DescribeConsumerGroups walks the plan and stops at the first failing broker *)
Lemma describe_plan_spec : forall e plan res ev, describe_plan e plan = (res, ev) ->
  (exists rest, plan_reqs plan = ev ++ rest /\ (forall l, res = RItems l -> rest = [])) /\
  (res = RErr ETransport \/ exists l, res = RItems l) /\
  (forall l, res = RItems l -> forall b gs, In (b, gs) plan ->
     assoc_def BNormal b (g_modes e) <> BDrop /\
     (assoc_def BNormal b (g_modes e) = BNormal -> forall g, In g gs -> In (g, assoc_def 0 g (g_codes e)) l)).
Proof.
  intros e plan. induction plan as [|[b gs] plan IH]; intros res ev H; simpl in H.
  - injection H as <- <-. split; [exists []; auto|]. split; [right; eauto|]. intros l _ b gs [].
  - destruct (assoc_def BNormal b (g_modes e)) eqn:M.
    + destruct (describe_plan e plan) as [res' ev'] eqn:D. injection H as <- <-.
      destruct (IH _ _ eq_refl) as ((rest & E & R) & C & I). split; [|split].
      * exists rest. simpl. rewrite E. split; [reflexivity|]. intros l Hl. destruct res'; try discriminate. eauto.
      * destruct C as [->|(l & ->)]; [left; reflexivity|right; eauto].
      * intros l Hl b' gs' [[= <- <-]|Hin].
        { rewrite M. split; [discriminate|]. intros _ g Hg. destruct res'; try discriminate.
          injection Hl as <-. apply in_or_app. left. apply in_map_iff. exists g. auto. }
        { destruct res'; try discriminate. injection Hl as <-.
          destruct (I _ eq_refl _ _ Hin) as [ND Hn]. split; [assumption|].
          intros Hm g Hg. apply in_or_app. right. now apply Hn. }
    + injection H as <- <-. split; [|split].
      * exists (plan_reqs plan). split; [reflexivity|discriminate].
      * now left.
      * discriminate.
    + destruct (describe_plan e plan) as [res' ev'] eqn:D. injection H as <- <-.
      destruct (IH _ _ eq_refl) as ((rest & E & R) & C & I). split; [|split].
      * exists rest. simpl. rewrite E. split; [reflexivity|]. intros l Hl. destruct res'; try discriminate. eauto.
      * destruct C as [->|(l & ->)]; [left; reflexivity|right; eauto].
      * intros l Hl b' gs' [[= <- <-]|Hin].
        { rewrite M. split; [discriminate|discriminate]. }
        { destruct res'; try discriminate. injection Hl as <-. simpl.
          destruct (I _ eq_refl _ _ Hin) as [ND Hn]. split; assumption. }
Qed.

(* c19_routing, DescribeConsumerGroups: every group is looked up, the groups are partitioned per coordinator,
   one request per coordinator; the requests sent are a prefix of that plan, the whole plan on success *)
Theorem routing_describe : forall e gs res ev fev, find_all e gs [] = (None, fev) ->
  group_op GDescribe e gs [] = (res, ev) ->
  let plan := group_by (coord_key e) gs in
  (forall b xs, In (b, xs) plan -> xs <> [] /\ forall g, In g xs -> coord_lookup e g = inl b) /\
  NoDup (map fst plan) /\ Permutation (concat (map snd plan)) gs /\
  exists rest, fev ++ plan_reqs plan = ev ++ rest /\ (forall l, res = RItems l -> rest = []).
Proof.
  intros e gs res ev fev F H plan. simpl in H. rewrite F in H.
  destruct (describe_plan e (group_by (coord_key e) gs)) as [res' ev2] eqn:D. injection H as <- <-.
  destruct (group_by_props (coord_key e) gs) as (K & N & P). fold plan in K, N, P, D.
  split; [|split; [assumption|split; [assumption|]]].
  - intros b xs Hin. destruct (K _ _ Hin) as [NE Hk]. split; [assumption|]. intros g Hg.
    assert (In g gs).
    { apply (Permutation_in _ P). apply in_concat. exists xs. split; [|assumption].
      apply in_map_iff. exists (b, xs). auto. }
    destruct (find_all_found e gs [] fev (fun _ (x : In _ []) => match x with end) F g H) as (b' & L).
    specialize (Hk g Hg). unfold coord_key in Hk. rewrite L in *. now subst.
  - destruct (describe_plan_spec _ _ _ _ D) as ((rest & E & R) & _). exists rest. rewrite E, app_assoc. auto.
Qed.

(* c19_any_error, DescribeConsumerGroups: a result is returned only if every coordinator was found and none
   of them failed, and it then carries every group's error code as the coordinator reported it *)
Theorem any_error_describe : forall e gs l ev, group_op GDescribe e gs [] = (RItems l, ev) ->
  forall g, In g gs -> exists b, coord_lookup e g = inl b /\
    assoc_def BNormal b (g_modes e) <> BDrop /\
    (assoc_def BNormal b (g_modes e) = BNormal -> In (g, assoc_def 0 g (g_codes e)) l).
Proof.
  intros e gs l ev H g Hg. simpl in H.
  destruct (find_all e gs []) as [[c|] fev] eqn:F; [discriminate|].
  destruct (describe_plan e (group_by (coord_key e) gs)) as [res' ev2] eqn:D. injection H as -> <-.
  destruct (find_all_found e gs [] fev (fun _ (x : In _ []) => match x with end) F g Hg) as (b & L).
  exists b. split; [assumption|].
  destruct (group_by_complete (coord_key e) gs g Hg) as (xs & Hin & Hx).
  unfold coord_key in Hin at 1. rewrite L in Hin.
  destruct (describe_plan_spec _ _ _ _ D) as (_ & _ & I). destruct (I _ eq_refl _ _ Hin) as [ND Hn].
  split; [assumption|]. intro M. now apply Hn.
Qed.

Theorem describe_coordinator_error : forall e gs c fev, find_all e gs [] = (Some c, fev) ->
  group_op GDescribe e gs [] = (RErr (EKafka WKError c), fev) /\
  exists g, In g gs /\ coord_lookup e g = inr c.
Proof.
  intros e gs c fev F. simpl. rewrite F. split; [reflexivity|]. eapply find_all_failed; eauto.
Qed.

(* single-group operations: the request goes to the group's coordinator, and only there *)
Theorem routing_single : forall o e g parts res ev, o <> GDescribe ->
  group_op o e [g] parts = (res, ev) ->
  match coord_lookup e g with
  | inl b => exists v items, ev = [GFind g; GReq b v items]
  | inr c => ev = [GFind g] /\ res = RErr (EKafka WKError c)
  end.
Proof.
  intros o e g parts res ev Ho H. destruct o; [congruence| |]; simpl in H;
    destruct (coord_lookup e g) as [b|c]; injection H as <- <-; eauto.
Qed.

(* c19_any_error, DeleteConsumerGroup *)
Theorem any_error_delete_group : forall e g ev, group_op GDelete e [g] [] = (ROk, ev) ->
  exists b, coord_lookup e g = inl b /\ assoc_def BNormal b (g_modes e) = BNormal /\
    assoc_def 0 g (g_codes e) = 0 /\ ev = [GFind g; GReq b 0 [g]].
Proof.
  intros e g ev H. simpl in H. destruct (coord_lookup e g) as [b|c]; [|discriminate].
  exists b. destruct (assoc_def BNormal b (g_modes e)); try discriminate.
  destruct (Z.eqb_spec (assoc_def 0 g (g_codes e)) 0); [|discriminate].
  injection H as <-. auto.
Qed.

(* the coordinator's error code comes back unchanged *)
Theorem delete_group_code : forall e g b c, coord_lookup e g = inl b ->
  assoc_def BNormal b (g_modes e) = BNormal -> assoc_def 0 g (g_codes e) = c -> c <> 0 ->
  fst (group_op GDelete e [g] []) = RErr (EKafka WKError c).
Proof.
  intros e g b c L M C N. simpl. rewrite L, M, C. destruct (Z.eqb_spec c 0); [contradiction|reflexivity].
Qed.

(* c19_any_error, ListConsumerGroupOffsets: what is returned carries the top-level code (request version 2)
   and every partition's code as the coordinator reported them *)
Theorem any_error_list_offsets : forall e g parts l ev, group_op GListOffsets e [g] parts = (RItems l, ev) ->
  exists b, coord_lookup e g = inl b /\ assoc_def BNormal b (g_modes e) <> BDrop /\
    ev = [GFind g; GReq b (offset_fetch_version (g_kver e)) parts] /\
    (assoc_def BNormal b (g_modes e) = BNormal ->
       In (-1, if 2 <=? offset_fetch_version (g_kver e) then g_top e else 0) l /\
       forall p, In p parts -> In (p, assoc_def 0 p (g_codes e)) l).
Proof.
  intros e g parts l ev H. simpl in H. destruct (coord_lookup e g) as [b|c]; [|discriminate].
  exists b. split; [reflexivity|].
  destruct (assoc_def BNormal b (g_modes e)) eqn:M; try discriminate; injection H as <- <-;
    (split; [discriminate|]); (split; [reflexivity|]); intro; try discriminate.
  split; [now left|]. intros p Hp. right. apply in_map_iff. exists p. auto.
Qed.

(* Examples *)
Example routing_records_example :
  let e := {| r_n := 3; r_leaders := [(0, 2); (1, 1); (2, 2); (3, 3)]; r_modes := []; r_codes := [(2, 7)] |} in
  lookup_failures e [3; 0; 2; 1] = [] /\
  delete_records e [3; 0; 2; 1] = (RErr (EMulti [(2, 7)]), [(3, [3]); (2, [0; 2]); (1, [1])]).
Proof. split; reflexivity. Qed.

Example describe_example :
  let e := {| g_n := 2; g_kver := 4; g_coord := [(0, inl 2); (1, inl 1); (2, inl 2)]; g_modes := [];
              g_codes := [(2, 16)]; g_top := 0 |} in
  group_op GDescribe e [0; 1; 2; 0] [] =
  (RItems [(0, 0); (2, 16); (0, 0); (1, 0)], [GFind 0; GFind 1; GFind 2; GReq 2 0 [0; 2; 0]; GReq 1 0 [1]]).
Proof. reflexivity. Qed.
