(* C19 — proofs about the controller-bound operations: retryOnError around the attempt closure. *)
From Coq Require Import List ZArith Bool Lia.
From SV Require Import C19.Model.
Import ListNotations.
Open Scope Z_scope.

(* ------------------------------------------------------------------------------------------------ *)
(* Reference notions the statements use (independent of the loop) *)

(* ca.Controller(): the cached controller if its broker is registered, else one metadata refresh *)
Definition resolve (c : cfg) (s : st) : st := if valid (c_n c) (ctrl s) then s else refresh s.
Definition resolve_ev (c : cfg) (s : st) : list event := if valid (c_n c) (ctrl s) then [] else [LMeta].

Definition supported (c : cfg) : bool := min_kver (c_op c) <=? c_kver c.

(* the broker the next attempt addresses and the answer it gets there; None: no controller known even after
   a refresh, or the configured version does not support the request *)
Definition sees (c : cfg) (s : st) : option (Z * answer) :=
  let s1 := resolve c s in
  if valid (c_n c) (ctrl s1) && supported c
  then Some (ctrl s1, answer_of (hd [] (answers s1)) (ctrl s1)) else None.

Definition consume (s : st) : st := {| ctrl := ctrl s; metas := metas s; answers := tl (answers s) |}.

(* client and cluster after an attempt that was answered NOT_CONTROLLER: the answer is consumed and the
   controller refreshed from the next metadata *)
Definition nc_round (c : cfg) (s : st) : st := refresh (consume (resolve c s)).
Fixpoint after_rounds (c : cfg) (k : nat) (s : st) : st :=
  match k with O => s | S k' => after_rounds c k' (nc_round c s) end.

Definition is_nc (a : answer) : bool :=
  match a with ACode x | AParts x _ => x =? not_controller | _ => false end.
Definition nc_seen (c : cfg) (s : st) : Prop := exists b a, sees c s = Some (b, a) /\ is_nc a = true.

(* does this operation, in this flavour of the code, treat NOT_CONTROLLER as retryable? *)
Definition nc_retried (c : cfg) : bool :=
  match c_op c with OpAlter => f_alter_retry (c_flav c) | _ => true end.

Definition nc_err (c : cfg) : err := EKafka (wrap_of (c_op c)) not_controller.

(* the log of the first k attempts when each of them is answered NOT_CONTROLLER *)
Definition nc_events (c : cfg) (s : st) : list event :=
  resolve_ev c s ++
  [LReq (ctrl (resolve c s)) (req_version (c_op c) (c_kver c))
        (answer_of (hd [] (answers (resolve c s))) (ctrl (resolve c s))); LMeta].
Fixpoint nc_log (c : cfg) (k : nat) (s : st) : list event :=
  match k with O => [] | S k' => nc_events c s ++ nc_log c k' (nc_round c s) end.

Definition final (r : option err) : Prop := match r with None => True | Some e => retryable e = false end.

Fixpoint requests (l : list event) : list (Z * Z * answer) :=
  match l with [] => [] | LMeta :: r => requests r | LReq b v a :: r => (b, v, a) :: requests r end.

(* every request but the first is preceded, since the previous request, by a metadata refresh *)
Fixpoint spaced (need : bool) (l : list event) : bool :=
  match l with
  | [] => true
  | LMeta :: r => spaced false r
  | LReq _ _ _ :: r => negb need && spaced true r
  end.

(* the broker reported no error (stated on the answer, not through [interpret]) *)
Definition reports_none (o : op) (a : answer) : Prop :=
  match a with
  | ACode x => x = 0
  | AParts top ps => top = 0 /\ (o = OpAlter -> Forall (fun p => snd p = 0) ps)   (* partition entries exist for Alter only *)
  | AIncomplete => o = OpAlter     (* an answer that lists no partition reports no error *)
  | ADrop => False
  end.

(* ------------------------------------------------------------------------------------------------ *)
(* The attempt, case by case *)

Lemma attempt_eq : forall c s,
  attempt c s =
  let s1 := resolve c s in
  let ev1 := resolve_ev c s in
  if negb (valid (c_n c) (ctrl s1)) then (s1, Some ECtrlNotAvailable, ev1) else
  if c_kver c <? min_kver (c_op c) then (s1, Some (unsupported_err (c_op c)), ev1) else
  let b := ctrl s1 in
  let a := answer_of (hd [] (answers s1)) b in
  let ev2 := ev1 ++ [LReq b (req_version (c_op c) (c_kver c)) a] in
  match interpret (c_flav c) (c_op c) a with
  | None => (consume s1, None, ev2)
  | Some e => if refreshes (c_flav c) (c_op c) a then (refresh (consume s1), Some e, ev2 ++ [LMeta])
              else (consume s1, Some e, ev2)
  end.
Proof.
  intros c s. unfold attempt, resolve, resolve_ev, consume.
  destruct (valid (c_n c) (ctrl s)); reflexivity.
Qed.

Lemma sees_some : forall c s b a, sees c s = Some (b, a) ->
  valid (c_n c) (ctrl (resolve c s)) = true /\ (c_kver c <? min_kver (c_op c)) = false /\
  b = ctrl (resolve c s) /\ a = answer_of (hd [] (answers (resolve c s))) b.
Proof.
  unfold sees, supported. intros c s b a H.
  destruct (valid (c_n c) (ctrl (resolve c s))) eqn:V; simpl in H; try discriminate.
  destruct (min_kver (c_op c) <=? c_kver c) eqn:K; try discriminate.
  injection H as <- <-. repeat split. apply Z.ltb_ge. now apply Z.leb_le.
Qed.

Lemma nc_interpret : forall c a, nc_retried c = true -> is_nc a = true ->
  interpret (c_flav c) (c_op c) a = Some (nc_err c) /\ refreshes (c_flav c) (c_op c) a = true.
Proof.
  intros c a R N. unfold nc_retried in R. unfold nc_err, interpret, refreshes.
  destruct a as [x | x ps | |]; simpl in N; try discriminate; apply Z.eqb_eq in N; subst x;
    destruct (c_op c); simpl; try rewrite R; simpl; split; reflexivity.
Qed.

Lemma nc_err_retryable : forall c, retryable (nc_err c) = true.
Proof. reflexivity. Qed.

(* an attempt answered NOT_CONTROLLER *)
Lemma attempt_nc : forall c s, nc_retried c = true -> nc_seen c s ->
  attempt c s = (nc_round c s, Some (nc_err c), nc_events c s).
Proof.
  intros c s R (b & a & S & N). apply sees_some in S as (V & K & -> & ->).
  rewrite attempt_eq. cbv zeta. rewrite V, K. simpl negb. cbv iota.
  destruct (nc_interpret c _ R N) as [-> ->].
  unfold nc_round, nc_events. now rewrite <- app_assoc.
Qed.

(* ------------------------------------------------------------------------------------------------ *)
(* The loop *)

Lemma retry_loop_spec : forall c, nc_retried c = true ->
  forall k fuel s last, (k < fuel)%nat ->
  (forall j, (j < k)%nat -> nc_seen c (after_rounds c j s)) ->
  forall s' r ev, attempt c (after_rounds c k s) = (s', r, ev) -> final r ->
  retry_loop c fuel s last = (s', r, nc_log c k s ++ ev).
Proof.
  intros c R k. induction k as [|k IH]; intros fuel s last Hk Hnc s' r ev Ha Hf.
  - destruct fuel as [|fuel]; [lia|]. simpl in *. rewrite Ha.
    destruct r as [e|]; [|reflexivity]. simpl in Hf. now rewrite Hf.
  - destruct fuel as [|fuel]; [lia|]. simpl retry_loop.
    rewrite (attempt_nc c s R (Hnc O ltac:(lia))). rewrite nc_err_retryable.
    rewrite (IH fuel (nc_round c s) (Some (nc_err c)) ltac:(lia)
               (fun j Hj => Hnc (S j) ltac:(lia)) s' r ev Ha Hf).
    simpl nc_log. now rewrite app_assoc.
Qed.

Lemma retry_loop_exhausted : forall c, nc_retried c = true ->
  forall fuel s last, (forall j, (j < fuel)%nat -> nc_seen c (after_rounds c j s)) ->
  retry_loop c fuel s last =
  (after_rounds c fuel s, match fuel with O => last | _ => Some (nc_err c) end, nc_log c fuel s).
Proof.
  intros c R fuel. induction fuel as [|fuel IH]; intros s last Hnc; [reflexivity|].
  simpl retry_loop. rewrite (attempt_nc c s R (Hnc O ltac:(lia))). rewrite nc_err_retryable.
  rewrite (IH (nc_round c s) (Some (nc_err c)) (fun j Hj => Hnc (S j) ltac:(lia))).
  simpl. destruct fuel; reflexivity.
Qed.

(* shape of the NOT_CONTROLLER prefix of the log *)
Lemma requests_app : forall a b, requests (a ++ b) = requests a ++ requests b.
Proof. induction a as [|[|]]; simpl; intros; try rewrite IHa; reflexivity. Qed.

Lemma requests_resolve_ev : forall c s, requests (resolve_ev c s) = [].
Proof. intros; unfold resolve_ev; destruct valid; reflexivity. Qed.

Lemma nc_log_length : forall c k s, length (requests (nc_log c k s)) = k.
Proof.
  intros c k; induction k; intros s; simpl; [reflexivity|].
  unfold nc_events. rewrite !requests_app, requests_resolve_ev. simpl. now rewrite IHk.
Qed.

(* the j-th request of the prefix went to the controller the client believed in after j rounds *)
Lemma nc_log_targets : forall c k s,
  map (fun x => fst (fst x)) (requests (nc_log c k s)) =
  map (fun j => ctrl (resolve c (after_rounds c j s))) (seq 0 k).
Proof.
  intros c k; induction k; intros s; [reflexivity|].
  simpl nc_log. unfold nc_events. rewrite !requests_app, requests_resolve_ev. simpl.
  f_equal. rewrite IHk. rewrite <- seq_shift, map_map. reflexivity.
Qed.

Lemma spaced_app_meta : forall l b r, spaced b (l ++ LMeta :: r) = spaced b l && spaced false r.
Proof.
  induction l as [|[|]]; intros; simpl.
  - reflexivity.
  - apply IHl.
  - rewrite IHl. now rewrite andb_assoc.
Qed.

Lemma spaced_resolve_ev : forall c s b r, spaced false r = true -> spaced b (resolve_ev c s ++ r) = true \/ (resolve_ev c s = [] ).
Proof. intros. unfold resolve_ev. destruct valid; simpl; auto. Qed.

Lemma nc_log_spaced : forall c k s r, spaced false r = true -> spaced false (nc_log c k s ++ r) = true.
Proof.
  intros c k; induction k; intros s r Hr; simpl; [assumption|].
  unfold nc_events. rewrite <- !app_assoc.
  assert (E : forall t, spaced false (resolve_ev c s ++ t) = spaced false t)
    by (intro t; unfold resolve_ev; destruct valid; reflexivity).
  rewrite E. simpl. now apply IHk.
Qed.

(* an attempt's own events: possibly a refresh, at most one request, possibly a refresh *)
Lemma attempt_events : forall c s s' r ev, attempt c s = (s', r, ev) ->
  spaced false ev = true /\ (length (requests ev) <= 1)%nat.
Proof.
  intros c s s' r ev. rewrite attempt_eq. cbv zeta.
  assert (E : forall t, spaced false (resolve_ev c s ++ t) = spaced false t)
    by (intro t; unfold resolve_ev; destruct valid; reflexivity).
  assert (Q : requests (resolve_ev c s) = []) by apply requests_resolve_ev.
  destruct (negb _).
  { intros [= <- <- <-]. specialize (E []). rewrite app_nil_r in E. rewrite E, Q. simpl; split; auto. }
  destruct (_ <? _).
  { intros [= <- <- <-]. specialize (E []). rewrite app_nil_r in E. rewrite E, Q. simpl; split; auto. }
  destruct (interpret _ _ _); [destruct (refreshes _ _ _)|]; intros [= <- <- <-];
    rewrite <- ?app_assoc, E, !requests_app, Q; simpl; split; auto.
Qed.

(* ------------------------------------------------------------------------------------------------ *)
(* Property theorems (general in the flavour; Properties/C19.v instantiates them) *)

Definition enough_budget (c : cfg) (k : nat) : Prop := (k < budget (c_flav c) (c_max c))%nat.

(* the k+1-th attempt is the first not answered NOT_CONTROLLER: its outcome is the operation's outcome,
   k+1 requests are sent, to the successive controllers, with a refresh between any two *)
Theorem retry_general : forall c s k, nc_retried c = true -> enough_budget c k ->
  (forall j, (j < k)%nat -> nc_seen c (after_rounds c j s)) ->
  forall s' r ev, attempt c (after_rounds c k s) = (s', r, ev) -> final r ->
  run c s = (s', r, nc_log c k s ++ ev) /\
  spaced false (nc_log c k s ++ ev) = true /\
  (length (requests (nc_log c k s ++ ev)) <= S k)%nat.
Proof.
  intros c s k R B Hnc s' r ev Ha Hf. split; [|split].
  - unfold run. now apply retry_loop_spec.
  - apply nc_log_spaced. now apply (attempt_events _ _ _ _ _ Ha).
  - rewrite requests_app, app_length, nc_log_length.
    pose proof (proj2 (attempt_events _ _ _ _ _ Ha)). lia.
Qed.

(* what the attempt does with an answer *)
Lemma attempt_answer : forall c s b a, sees c s = Some (b, a) ->
  exists s' ev, attempt c s = (s', interpret (c_flav c) (c_op c) a, ev) /\
    requests ev = [(b, req_version (c_op c) (c_kver c), a)].
Proof.
  intros c s b a S. apply sees_some in S as (V & K & -> & ->).
  rewrite attempt_eq. cbv zeta. rewrite V, K. simpl negb. cbv iota.
  destruct (interpret _ _ _); [destruct (refreshes _ _ _)|]; eexists; eexists; split; try reflexivity;
    rewrite !requests_app, requests_resolve_ev; reflexivity.
Qed.

(* c19_controller_retry *)
Theorem controller_retry : forall c s k b a, nc_retried c = true -> enough_budget c k ->
  (forall j, (j < k)%nat -> nc_seen c (after_rounds c j s)) ->
  sees c (after_rounds c k s) = Some (b, a) ->
  interpret (c_flav c) (c_op c) a = None ->
  exists s' log, run c s = (s', None, log) /\
    map (fun x => fst (fst x)) (requests log) = map (fun j => ctrl (resolve c (after_rounds c j s))) (seq 0 (S k)) /\
    spaced false log = true.
Proof.
  intros c s k b a R B Hnc S I.
  destruct (attempt_answer _ _ _ _ S) as (s' & ev & Ha & Q). rewrite I in Ha.
  destruct (retry_general c s k R B Hnc s' None ev Ha Logic.I) as (Hr & Hs & _).
  exists s', (nc_log c k s ++ ev). split; [assumption|split; [|assumption]].
  rewrite requests_app, map_app, nc_log_targets, Q. simpl map at 2.
  apply sees_some in S as (_ & _ & -> & _).
  replace (S k) with (k + 1)%nat by lia. rewrite seq_app, map_app. reflexivity.
Qed.

(* c19_other_error_unchanged: an answer that is an error other than NOT_CONTROLLER ends the operation with
   exactly that error, and no request follows it *)
Theorem other_error_unchanged : forall c s k b a e, nc_retried c = true -> enough_budget c k ->
  (forall j, (j < k)%nat -> nc_seen c (after_rounds c j s)) ->
  sees c (after_rounds c k s) = Some (b, a) ->
  interpret (c_flav c) (c_op c) a = Some e -> retryable e = false ->
  exists s' log, run c s = (s', Some e, log) /\ length (requests log) = S k /\
    exists pre post, log = pre ++ LReq b (req_version (c_op c) (c_kver c)) a :: post /\ requests post = [].
Proof.
  intros c s k b a e R B Hnc S I NR.
  destruct (attempt_answer _ _ _ _ S) as (s' & ev & Ha & Q). rewrite I in Ha.
  destruct (retry_general c s k R B Hnc s' (Some e) ev Ha NR) as (Hr & _ & _).
  exists s', (nc_log c k s ++ ev). split; [assumption|split].
  - rewrite requests_app, app_length, nc_log_length, Q. simpl. lia.
  - clear - Q. revert Q. generalize (req_version (c_op c) (c_kver c)) as v. intros v Q.
    assert (exists p q, ev = p ++ LReq b v a :: q /\ requests q = []) as (p & q & -> & Hq).
    { clear - Q. induction ev as [|[|b' v' a'] ev IH]; simpl in Q; try discriminate.
      - destruct (IH Q) as (p & q & -> & Hq). exists (LMeta :: p), q. auto.
      - injection Q as -> -> -> Q. exists [], ev. auto. }
    exists (nc_log c k s ++ p), q. now rewrite <- app_assoc.
Qed.

(* the code a broker puts in place of success comes back as that very code, in the operation's error type *)
Lemma interpret_code : forall f o x, o <> OpAlter -> x <> 0 ->
  interpret f o (ACode x) = Some (EKafka (wrap_of o) x).
Proof.
  intros f o x Ho Hx. destruct o; try congruence; simpl; destruct (Z.eqb_spec x 0); congruence.
Qed.

Lemma interpret_alter_top : forall f x ps, f_alter_any_code f = true -> x <> 0 -> x <> not_controller ->
  exists l, interpret f OpAlter (AParts x ps) = Some (EMulti ((-1, x) :: l)).
Proof.
  intros f x ps F Hx Hn. simpl. rewrite F.
  destruct (Z.eqb_spec x not_controller); [congruence|]. rewrite andb_false_r.
  destruct (Z.eqb_spec x 0); [congruence|]. simpl. eauto.
Qed.

(* errors met before any request (no controller, unsupported version) are final as well *)
Lemma attempt_no_answer : forall c s, sees c s = None ->
  exists e, attempt c s = (resolve c s, Some e, resolve_ev c s) /\ retryable e = false /\
    (e = ECtrlNotAvailable \/ e = unsupported_err (c_op c)).
Proof.
  intros c s S. unfold sees, supported in S. rewrite attempt_eq. cbv zeta.
  destruct (valid (c_n c) (ctrl (resolve c s))); simpl in *.
  - destruct (Z.leb_spec (min_kver (c_op c)) (c_kver c)); [discriminate|].
    assert ((c_kver c <? min_kver (c_op c)) = true) as -> by (apply Z.ltb_lt; lia).
    eexists; split; [reflexivity|]. split; [destruct (c_op c); reflexivity | auto].
  - eexists; split; [reflexivity|]. split; auto.
Qed.

(* c19_success_only_if_none *)
Lemma interpret_none : forall f o a,
  (o = OpAlter -> f_alter_any_code f = true) ->
  interpret f o a = None -> reports_none o a.
Proof.
  intros f o a F.
  assert (NZ : forall ps, filter nonzero ps = [] -> Forall (fun p : Z * Z => snd p = 0) ps).
  { induction ps as [|p ps IH]; simpl; [constructor|].
    unfold nonzero at 1. destruct (Z.eqb_spec (snd p) 0); simpl; [|discriminate].
    intro H; constructor; auto. }
  assert (Simple : o <> OpAlter -> interpret f o a = None -> reports_none o a).
  { intros Ho. destruct o; try congruence; destruct a as [x | x ps | |]; simpl; try discriminate;
      (destruct (Z.eqb_spec x 0); [|discriminate]); intros _; try assumption; (split; [assumption|discriminate]). }
  destruct o; try (apply Simple; discriminate).
  specialize (F eq_refl). clear Simple.
  destruct a as [x | x ps | |]; simpl; try discriminate; auto; rewrite F.
  - destruct (f_alter_retry f && (x =? not_controller)); [discriminate|].
    destruct (Z.eqb_spec x 0); simpl; [auto|discriminate].
  - destruct (f_alter_retry f && (x =? not_controller)); [discriminate|].
    destruct (Z.eqb_spec x 0); simpl; [|discriminate].
    destruct (filter nonzero ps) eqn:E; [|discriminate]. auto.
Qed.

Lemma attempt_success : forall c s s' ev, attempt c s = (s', None, ev) ->
  exists pre b v a, ev = pre ++ [LReq b v a] /\ interpret (c_flav c) (c_op c) a = None.
Proof.
  intros c s s' ev. rewrite attempt_eq. cbv zeta.
  destruct (negb _); [discriminate|]. destruct (_ <? _); [discriminate|].
  destruct (interpret _ _ _) eqn:I; [destruct (refreshes _ _ _); discriminate|].
  intros [= <- <-]. do 4 eexists. split; [reflexivity|exact I].
Qed.

Lemma retry_loop_success : forall c fuel s last s' log,
  retry_loop c fuel s last = (s', None, log) ->
  (fuel = O /\ last = None /\ log = []) \/
  exists pre b v a, log = pre ++ [LReq b v a] /\ interpret (c_flav c) (c_op c) a = None.
Proof.
  intros c fuel. induction fuel as [|fuel IH]; intros s last s' log H; simpl in H.
  - injection H as <- -> <-. auto.
  - right. destruct (attempt c s) as [[s1 r] ev] eqn:A. destruct r as [e|].
    + destruct (retryable e); [|discriminate].
      destruct (retry_loop c fuel s1 (Some e)) as [[s2 r2] ev2] eqn:L.
      injection H as <- -> <-.
      destruct (IH _ _ _ _ L) as [(_ & D & _) | (pre & b & v & a & -> & I)]; [discriminate|].
      exists (ev ++ pre), b, v, a. now rewrite app_assoc.
    + injection H as <- <-. apply (attempt_success _ _ _ _ A).
Qed.

Theorem success_only_if_none : forall c s s' log,
  (budget (c_flav c) (c_max c) >= 1)%nat ->
  (c_op c = OpAlter -> f_alter_any_code (c_flav c) = true) ->
  run c s = (s', None, log) ->
  exists pre b v a, log = pre ++ [LReq b v a] /\ reports_none (c_op c) a.
Proof.
  intros c s s' log B F H. unfold run in H.
  destruct (retry_loop_success _ _ _ _ _ _ H) as [(Z0 & _) | (pre & b & v & a & -> & I)]; [lia|].
  exists pre, b, v, a. split; [reflexivity|]. now apply (interpret_none (c_flav c)).
Qed.

Lemma budget_fixed : forall max, (budget fixed max >= 1)%nat.
Proof. intro max. unfold budget. simpl. lia. Qed.

Lemma budget_pos : forall f max, 1 <= max -> (budget f max >= 1)%nat.
Proof. intros f max H. unfold budget. destruct (f_first_attempt f); lia. Qed.

(* only NOT_CONTROLLER is retryable, and it always comes with a controller refresh *)
Lemma retryable_refreshes : forall f o a e,
  interpret f o a = Some e -> retryable e = true -> refreshes f o a = true.
Proof.
  intros f o a e.
  assert (Simple : forall w x, (if x =? 0 then None else Some (EKafka w x)) = Some e ->
                               retryable e = true -> (x =? not_controller) && true = true).
  { intros w x. destruct (x =? 0); [discriminate|]. intros [= <-]. simpl. intros ->. reflexivity. }
  assert (Alter : forall x l,
     (if f_alter_retry f && (x =? not_controller) then Some (EKafka WKError x)
      else match (if if f_alter_any_code f then negb (x =? 0) else 0 <? x then [(-1, x)] else []) ++ l with
           | [] => None | y :: r => Some (EMulti (y :: r)) end) = Some e ->
     retryable e = true -> (x =? not_controller) && f_alter_retry f = true).
  { intros x l. destruct (f_alter_retry f && (x =? not_controller)) eqn:E.
    - intros _ _. now rewrite andb_comm.
    - destruct (_ ++ l); [discriminate|]. intros [= <-]. discriminate. }
  destruct o; destruct a as [x | x ps | |]; simpl; try discriminate;
    try (apply Simple); try (apply (Alter x [])); try (apply (Alter x (filter nonzero ps)));
    try (intros [= <-]; discriminate).
Qed.

(* the budget is never exceeded, whatever the answers *)
Lemma retry_loop_bound : forall c fuel s last s' r log,
  retry_loop c fuel s last = (s', r, log) -> (length (requests log) <= fuel)%nat /\ spaced false log = true.
Proof.
  intros c fuel. induction fuel as [|fuel IH]; intros s last s' r log H; simpl in H.
  - injection H as <- <- <-. simpl. auto.
  - destruct (attempt c s) as [[s1 r1] ev] eqn:A.
    destruct (attempt_events _ _ _ _ _ A) as [Hs Hl].
    destruct r1 as [e|].
    + destruct (retryable e) eqn:Re.
      * destruct (retry_loop c fuel s1 (Some e)) as [[s2 r2] ev2] eqn:L.
        injection H as <- <- <-. destruct (IH _ _ _ _ _ L) as [Hb Hs2].
        rewrite requests_app, app_length. split; [lia|].
        (* a retryable error comes from an attempt that ended with a refresh *)
        revert A. rewrite attempt_eq. cbv zeta.
        destruct (negb _); [intros [= <- <- <-]; discriminate|].
        destruct (_ <? _).
        { intros [= <- E <-]. subst e. destruct (c_op c); discriminate. }
        destruct (interpret _ _ _) eqn:I; [|discriminate].
        destruct (refreshes _ _ _) eqn:Rf.
        { intros [= <- <- <-]. rewrite <- !app_assoc.
          assert (E : forall t, spaced false (resolve_ev c s ++ t) = spaced false t)
            by (intro t; unfold resolve_ev; destruct valid; reflexivity).
          rewrite E. simpl. exact Hs2. }
        { intros [= <- <- <-]. exfalso.
          rewrite (retryable_refreshes _ _ _ _ I Re) in Rf. discriminate. }
      * injection H as <- <- <-. split; [lia|assumption].
    + injection H as <- <- <-. split; [lia|assumption].
Qed.

Theorem budget_respected : forall c s s' r log, run c s = (s', r, log) ->
  (length (requests log) <= budget (c_flav c) (c_max c))%nat /\ spaced false log = true.
Proof. intros c s s' r log H. now apply (retry_loop_bound _ _ _ _ _ _ _ H). Qed.

(* budget exhausted by NOT_CONTROLLER answers: the last one is what the caller gets *)
Theorem budget_exhausted : forall c s, nc_retried c = true ->
  (budget (c_flav c) (c_max c) >= 1)%nat ->
  (forall j, (j < budget (c_flav c) (c_max c))%nat -> nc_seen c (after_rounds c j s)) ->
  exists s' log, run c s = (s', Some (nc_err c), log) /\
    length (requests log) = budget (c_flav c) (c_max c).
Proof.
  intros c s R B H. unfold run. rewrite (retry_loop_exhausted c R _ s None H).
  destruct (budget _ _) eqn:E; [lia|]. eexists; eexists; split; [reflexivity|].
  now rewrite nc_log_length.
Qed.

(* ------------------------------------------------------------------------------------------------ *)
(* Refutations on the pinned flavours *)

Definition success_only_if_none_stmt (f : flavour) : Prop :=
  forall c s s' log, c_flav c = f -> run c s = (s', None, log) ->
  exists pre b v a, log = pre ++ [LReq b v a] /\ reports_none (c_op c) a.

Definition controller_retry_stmt (f : flavour) : Prop :=
  forall c s k b a, c_flav c = f -> enough_budget c k ->
  (forall j, (j < k)%nat -> nc_seen c (after_rounds c j s)) ->
  sees c (after_rounds c k s) = Some (b, a) -> reports_none (c_op c) a ->
  exists s' log, run c s = (s', None, log).

Definition w_cfg (f : flavour) (o : op) (k max : Z) : cfg :=
  {| c_flav := f; c_op := o; c_kver := k; c_max := max; c_n := 2 |}.

(* Admin.Retry.Max = 0 on the pinned tree: success, and nothing was sent *)
Theorem retry0_refuted : ~ success_only_if_none_stmt pinned.
Proof.
  intro H.
  destruct (H (w_cfg pinned OpCreateTopic 4 0) {| ctrl := 1; metas := []; answers := [[ACode 36]] |} _ _ eq_refl eq_refl)
    as (pre & b & v & a & E & _).
  destruct pre; discriminate.
Qed.

Lemma retry0_witness :
  run (w_cfg pinned OpCreateTopic 4 0) {| ctrl := 1; metas := []; answers := [[ACode 36]] |} =
  ({| ctrl := 1; metas := []; answers := [[ACode 36]] |}, None, []).
Proof. reflexivity. Qed.

(* with only the first-attempt repair, Alter still reports success on top-level code -1 *)
Theorem alter_unknown_refuted :
  ~ success_only_if_none_stmt {| f_first_attempt := true; f_alter_retry := false; f_alter_any_code := false |}.
Proof.
  intro H.
  destruct (H (w_cfg _ OpAlter 7 3) {| ctrl := 1; metas := []; answers := [[ACode (-1)]] |} _ _ eq_refl eq_refl)
    as (pre & b & v & a & E & N).
  apply app_inj_tail in E as [_ E]. injection E as <- <- <-. simpl in N. discriminate.
Qed.

(* with only the first-attempt repair, Alter never retries NOT_CONTROLLER *)
Theorem alter_not_retried_refuted :
  ~ controller_retry_stmt {| f_first_attempt := true; f_alter_retry := false; f_alter_any_code := false |}.
Proof.
  intro H.
  assert (P : exists s' log, run (w_cfg {| f_first_attempt := true; f_alter_retry := false; f_alter_any_code := false |} OpAlter 7 3)
             {| ctrl := 1; metas := [2]; answers := [[ACode 41; ACode 0]; [ACode 41; ACode 0]] |} = (s', None, log)).
  { apply (H (w_cfg {| f_first_attempt := true; f_alter_retry := false; f_alter_any_code := false |} OpAlter 7 3)
               _ 1%nat 2 (ACode 0) eq_refl).
    - unfold enough_budget. vm_compute. lia.
    - intros j Hj. assert (j = O) by lia. subst j. exists 1, (ACode 41). split; reflexivity.
    - reflexivity.
    - reflexivity. }
  destruct P as (s' & log & E). discriminate.
Qed.

(* Examples: the hypotheses of the theorems are satisfiable on non-trivial scripts *)
Example ex_cfg : cfg := w_cfg fixed OpCreateTopic 4 3.
Example ex_st : st := {| ctrl := 1; metas := [2; 1]; answers := [[ACode 41; ACode 0]; [ACode 41; ACode 0]; [ACode 0; ACode 41]] |}.

Example controller_retry_example :
  nc_retried ex_cfg = true /\ enough_budget ex_cfg 1 /\
  (forall j, (j < 1)%nat -> nc_seen ex_cfg (after_rounds ex_cfg j ex_st)) /\
  sees ex_cfg (after_rounds ex_cfg 1 ex_st) = Some (2, ACode 0) /\
  run ex_cfg ex_st = ({| ctrl := 2; metas := [1]; answers := [[ACode 0; ACode 41]] |}, None,
                      [LReq 1 2 (ACode 41); LMeta; LReq 2 2 (ACode 0)]).
Proof.
  split; [reflexivity|]. split; [unfold enough_budget; vm_compute; lia|].
  split; [|split; reflexivity].
  intros j Hj. assert (j = O) by lia. subst. exists 1, (ACode 41). split; reflexivity.
Qed.

Example other_error_example :
  let s := {| ctrl := 1; metas := [2]; answers := [[ACode 41; ACode 0]; [ACode 41; ACode 36]] |} in
  sees ex_cfg (after_rounds ex_cfg 1 s) = Some (2, ACode 36) /\
  interpret fixed OpCreateTopic (ACode 36) = Some (EKafka WTopicError 36) /\
  snd (fst (run ex_cfg s)) = Some (EKafka WTopicError 36).
Proof. repeat split. Qed.

Example alter_retry_example :
  run (w_cfg fixed OpAlter 7 3) {| ctrl := 1; metas := [2]; answers := [[ACode 41; ACode 0]; [ACode 41; ACode 0]] |} =
  ({| ctrl := 2; metas := []; answers := [] |}, None, [LReq 1 0 (ACode 41); LMeta; LReq 2 0 (ACode 0)]).
Proof. reflexivity. Qed.

(* ------------------------------------------------------------------------------------------------ *)
(* Instances exported by Properties/C19.v *)

Lemma nc_retried_fixed : forall c, c_flav c = fixed -> nc_retried c = true.
Proof. intros c E. unfold nc_retried. rewrite E. destruct (c_op c); reflexivity. Qed.

Lemma nc_retried_not_alter : forall c, c_op c <> OpAlter -> nc_retried c = true.
Proof. intros c E. unfold nc_retried. destruct (c_op c); congruence. Qed.

(* an answer that reports no error is interpreted as success by the repaired code *)
Lemma reports_none_interpret : forall o a, reports_none o a -> interpret fixed o a = None.
Proof.
  intros o a N. destruct a as [x|x ps| |]; simpl in N.
  - subst x. destruct o; reflexivity.
  - destruct N as [-> N]. destruct o; try reflexivity. specialize (N eq_refl). simpl.
    assert (E : filter nonzero ps = []).
    { induction N as [|p ps Hp _ IH]; simpl; [reflexivity|].
      unfold nonzero at 1. rewrite Hp. simpl. exact IH. }
    now rewrite E.
  - subst o. reflexivity.
  - contradiction.
Qed.

Theorem controller_retry_fixed : forall c s k b a, c_flav c = fixed ->
  (k < Z.to_nat (Z.max 1 (c_max c)))%nat ->
  (forall j, (j < k)%nat -> nc_seen c (after_rounds c j s)) ->
  sees c (after_rounds c k s) = Some (b, a) -> reports_none (c_op c) a ->
  exists s' log, run c s = (s', None, log) /\
    map (fun x => fst (fst x)) (requests log) = map (fun j => ctrl (resolve c (after_rounds c j s))) (seq 0 (S k)) /\
    spaced false log = true.
Proof.
  intros c s k b a F B Hnc S N.
  apply (controller_retry c s k b a (nc_retried_fixed c F)); try assumption.
  - unfold enough_budget. rewrite F. exact B.
  - rewrite F. now apply reports_none_interpret.
Qed.

Theorem other_error_unchanged_fixed : forall c s k b a e, c_flav c = fixed ->
  (k < Z.to_nat (Z.max 1 (c_max c)))%nat ->
  (forall j, (j < k)%nat -> nc_seen c (after_rounds c j s)) ->
  sees c (after_rounds c k s) = Some (b, a) ->
  interpret fixed (c_op c) a = Some e -> retryable e = false ->
  exists s' log, run c s = (s', Some e, log) /\ length (requests log) = S k /\
    exists pre post, log = pre ++ LReq b (req_version (c_op c) (c_kver c)) a :: post /\ requests post = [].
Proof.
  intros c s k b a e F B Hnc S I NR.
  apply (other_error_unchanged c s k b a e (nc_retried_fixed c F)); try assumption.
  - unfold enough_budget. rewrite F. exact B.
  - now rewrite F.
Qed.

Theorem success_only_if_none_fixed : success_only_if_none_stmt fixed.
Proof.
  intros c s s' log F H. apply (success_only_if_none c s s' log); try assumption.
  - rewrite F. apply budget_fixed.
  - rewrite F. reflexivity.
Qed.

(* the pinned tree: everything holds for Admin.Retry.Max >= 1 and operations other than Alter *)
Theorem controller_retry_pinned_partial : forall c s k b a, c_flav c = pinned ->
  1 <= c_max c -> c_op c <> OpAlter ->
  (k < Z.to_nat (c_max c))%nat ->
  (forall j, (j < k)%nat -> nc_seen c (after_rounds c j s)) ->
  sees c (after_rounds c k s) = Some (b, a) -> interpret pinned (c_op c) a = None ->
  exists s' log, run c s = (s', None, log) /\
    map (fun x => fst (fst x)) (requests log) = map (fun j => ctrl (resolve c (after_rounds c j s))) (seq 0 (S k)) /\
    spaced false log = true.
Proof.
  intros c s k b a F M O B Hnc S I.
  apply (controller_retry c s k b a (nc_retried_not_alter c O)); try assumption.
  - unfold enough_budget. rewrite F. exact B.
  - now rewrite F.
Qed.

Theorem success_only_if_none_pinned_partial : forall c s s' log, c_flav c = pinned ->
  1 <= c_max c -> c_op c <> OpAlter ->
  run c s = (s', None, log) ->
  exists pre b v a, log = pre ++ [LReq b v a] /\ reports_none (c_op c) a.
Proof.
  intros c s s' log F M O H. apply (success_only_if_none c s s' log); try assumption.
  - now apply budget_pos.
  - congruence.
Qed.
