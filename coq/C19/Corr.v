(* C19 — correspondence: go/harness/cmd/c19corr runs the real ClusterAdmin against scripted MockBrokers and
   writes what it observed (returned error class, request log) as [ccase]/[rcase]/[gcase] values; these
   functions re-run the model on the same script and compare projected observables. Where Go iterates a map
   (order of per-broker requests, order of collected errors) both sides are canonicalised by sorting. *)
From Coq Require Import List ZArith Bool.
From SV Require Import Base.Corr C19.Model.
Import ListNotations.
Open Scope Z_scope.

(* which code the correspondence runs against: the tree with fixes/c19_retry0.patch and fixes/c19_alter.patch *)
Definition code_flavour : flavour := fixed.

Definition zz_eqb (a b : Z * Z) : bool := (fst a =? fst b) && (snd a =? snd b).
Definition wrap_eqb (a b : wrap) : bool :=
  match a, b with
  | WTopicError, WTopicError | WKError, WKError | WTopicPartitionError, WTopicPartitionError => true
  | _, _ => false
  end.
Definition err_eqb (a b : err) : bool :=
  match a, b with
  | EKafka w c, EKafka w' c' => wrap_eqb w w' && (c =? c')
  | EIncomplete, EIncomplete | ETransport, ETransport | ECtrlNotAvailable, ECtrlNotAvailable => true
  | EMulti l, EMulti l' => list_eqb zz_eqb l l'
  | _, _ => false
  end.
Definition result_eqb (a b : result) : bool :=
  match a, b with
  | ROk, ROk => true
  | RErr e, RErr e' => err_eqb e e'
  | RItems l, RItems l' => list_eqb zz_eqb l l'
  | _, _ => false
  end.
Definition answer_eqb (a b : answer) : bool :=
  match a, b with
  | ACode c, ACode c' => c =? c'
  | AParts t l, AParts t' l' => (t =? t') && list_eqb zz_eqb l l'
  | AIncomplete, AIncomplete | ADrop, ADrop => true
  | _, _ => false
  end.
Definition event_eqb (a b : event) : bool :=
  match a, b with
  | LMeta, LMeta => true
  | LReq b1 v1 a1, LReq b2 v2 a2 => (b1 =? b2) && (v1 =? v2) && answer_eqb a1 a2
  | _, _ => false
  end.

(* insertion sort, used only to canonicalise map-ordered output *)
Section Sort.
  Context {A : Type} (leb : A -> A -> bool).
  Fixpoint insert (x : A) (l : list A) : list A :=
    match l with [] => [x] | y :: r => if leb x y then x :: l else y :: insert x r end.
  Fixpoint isort (l : list A) : list A := match l with [] => [] | x :: r => insert x (isort r) end.
End Sort.
Definition zz_leb (a b : Z * Z) : bool := (fst a <? fst b) || ((fst a =? fst b) && (snd a <=? snd b)).

(* ---- controller-bound operations ---- *)
Record ccase := {
  cc_op : op; cc_kver : Z; cc_max : Z; cc_n : Z; cc_c0 : Z;
  cc_metas : list Z; cc_answers : list (list answer);
  cc_res : result; cc_log : list event }.

Definition cc_cfg (c : ccase) : cfg :=
  {| c_flav := code_flavour; c_op := cc_op c; c_kver := cc_kver c; c_max := cc_max c; c_n := cc_n c |}.
Definition cc_init (c : ccase) : st := {| ctrl := cc_c0 c; metas := cc_metas c; answers := cc_answers c |}.

Definition ok_ctl (c : ccase) : bool :=
  let '(_, r, log) := run (cc_cfg c) (cc_init c) in
  result_eqb (result_of r) (cc_res c) && list_eqb event_eqb log (cc_log c).
Definition mismatches_ctl := mismatches ok_ctl.

(* ---- DeleteRecords ---- *)
(* the Go error list carries codes only: transport -> -999, incomplete -> -998 *)
Definition item_code (x : Z * Z) : Z * Z :=
  if fst x =? -2 then (0, -999) else if fst x =? -3 then (0, -998) else (0, snd x).
Definition canon_rec_result (r : result) : result :=
  match r with RErr (EMulti l) => RErr (EMulti (isort zz_leb (map item_code l))) | x => x end.
Definition plan_leb (a b : Z * list Z) : bool := fst a <=? fst b.
Definition canon_plan (p : list (Z * list Z)) : list (Z * list Z) :=
  isort plan_leb (map (fun bp => (fst bp, isort Z.leb (snd bp))) p).
Definition plan_eqb (a b : Z * list Z) : bool := (fst a =? fst b) && list_eqb Z.eqb (snd a) (snd b).

Record rcase := {
  rc_env : rec_env; rc_parts : list Z;
  rc_res : result;                 (* EMulti items as (0, code), sorted *)
  rc_reqs : list (Z * list Z) }.   (* (broker, sorted partitions), sorted by broker *)

Definition ok_rec (c : rcase) : bool :=
  let '(res, plan) := delete_records (rc_env c) (rc_parts c) in
  match lookup_failures (rc_env c) (rc_parts c) with
  | [] => result_eqb (canon_rec_result res) (rc_res c) && list_eqb plan_eqb (canon_plan plan) (rc_reqs c)
  | fails =>   (* Go ranges over a map: any failing partition may be met first *)
    match rc_res c, rc_reqs c with
    | RErr (EKafka WKError x), [] => mem x fails
    | _, _ => false
    end
  end.
Definition mismatches_rec := mismatches ok_rec.

(* ---- group operations ---- *)
Record gcase := {
  gc_op : gop; gc_env : grp_env; gc_groups : list Z; gc_parts : list Z;
  gc_res : result;              (* RItems sorted *)
  gc_log : list gevent }.       (* GFind in order, then GReq sorted by broker *)

Definition gevent_eqb (a b : gevent) : bool :=
  match a, b with
  | GFind g, GFind g' => g =? g'
  | GReq b1 v1 l1, GReq b2 v2 l2 => (b1 =? b2) && (v1 =? v2) && list_eqb Z.eqb l1 l2
  | _, _ => false
  end.
Definition is_find (e : gevent) : bool := match e with GFind _ => true | _ => false end.
Definition gev_leb (a b : gevent) : bool :=
  match a, b with
  | GFind _, _ => true
  | GReq _ _ _, GFind _ => false
  | GReq b1 _ _, GReq b2 _ _ => b1 <=? b2
  end.
Definition canon_items (r : result) : result :=
  match r with RItems l => RItems (isort zz_leb l) | x => x end.
Fixpoint all_in (l full : list gevent) : bool :=
  match l with [] => true | x :: r => existsb (gevent_eqb x) full && all_in r full end.
Definition to_dropper (e : grp_env) (x : gevent) : bool :=
  match x with GReq b _ _ => match assoc_def BNormal b (g_modes e) with BDrop => true | _ => false end | _ => false end.
Fixpoint nodup_brokers (l : list gevent) (seen : list Z) : bool :=
  match l with
  | [] => true
  | GReq b _ _ :: r => negb (mem b seen) && nodup_brokers r (b :: seen)
  | _ :: r => nodup_brokers r seen
  end.

Definition ok_grp (c : gcase) : bool :=
  let '(res, ev) := group_op (gc_op c) (gc_env c) (gc_groups c) (gc_parts c) in
  let finds := filter is_find ev in
  let ofinds := filter is_find (gc_log c) in
  let oreqs := filter (fun x => negb (is_find x)) (gc_log c) in
  list_eqb gevent_eqb finds ofinds &&
  match gc_op c, res with
  | GDescribe, RErr ETransport =>
    (* DescribeConsumerGroups stops at the first broker that fails, in map order: the requests seen are
       some of the planned ones, one per broker at most, and one of them went to a failing broker *)
    let full := map (fun bg => GReq (fst bg) 0 (snd bg)) (group_by (coord_key (gc_env c)) (gc_groups c)) in
    result_eqb res (gc_res c) && all_in oreqs full && nodup_brokers oreqs [] && existsb (to_dropper (gc_env c)) oreqs
  | _, _ =>
    result_eqb (canon_items res) (gc_res c) &&
    list_eqb gevent_eqb (isort gev_leb (filter (fun x => negb (is_find x)) ev)) oreqs
  end.
Definition mismatches_grp := mismatches ok_grp.
