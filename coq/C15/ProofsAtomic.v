(* C15 — atomicity: every access to the cluster state happens in one critical section of client.lock (audited
   syntactically by go/lockaudit on every run), so a concurrent execution is a sequence of atomic actions —
   updates (updateMetadata) and single reads — and every read sees the state produced by the updates that
   precede it: the state before or after a refresh, never a mixture. *)
From Coq Require Import List ZArith Bool Lia.
From SV Require Import C15.Model C15.ProofsView.
Import ListNotations.
Open Scope Z_scope.

(* the reads, each one critical section under the read lock *)
Inductive query :=
| QAll (t : Z) | QWritable (t : Z) | QMeta (t p : Z) | QLeader (t p : Z) | QBrokers | QTopics | QController.

Inductive qres :=
| RLists (l : option (list Z)) | RMeta (m : option pmeta) | RLeader (r : rd (Z * Z))
| RBrokers (l : list (Z * option Z)) | RTopics (l : list Z) | RController (c : option (Z * Z)).

Definition answer (s : cstate) (q : query) : qres :=
  match q with
  | QAll t => RLists (cached_all s t)
  | QWritable t => RLists (cached_writable s t)
  | QMeta t p => RMeta (cached_meta s t p)
  | QLeader t p => RLeader (cached_leader s t p)
  | QBrokers => RBrokers (map (fun id => (id, broker_addr s id)) (brokers_view s))
  | QTopics => RTopics (topics_view s)
  | QController => RController (cached_controller s)
  end.

(* an action of some goroutine; the lock serialises them *)
Inductive action := AUpdate (r : response) (full : bool) | ARead (q : query).

Definition act (s : cstate) (a : action) : cstate * option (query * qres) :=
  match a with
  | AUpdate r full => (apply s (r, full), None)
  | ARead q => (s, Some (q, answer s q))
  end.

(* the observations of a serialised execution *)
Fixpoint exec (s : cstate) (l : list action) : list (query * qres) :=
  match l with
  | [] => []
  | a :: r => let '(s', o) := act s a in match o with Some x => x :: exec s' r | None => exec s' r end
  end.

Fixpoint updates (l : list action) : hist :=
  match l with [] => [] | AUpdate r full :: l' => (r, full) :: updates l' | ARead _ :: l' => updates l' end.

(* c15_atomic: whatever the interleaving, the read at position i returns the answer of the state made by
   exactly the updates before position i *)
Theorem reads_see_a_prefix : forall l s i q,
  nth_error l i = Some (ARead q) ->
  In (q, answer (fold_left apply (updates (firstn i l)) s) q) (exec s l).
Proof.
  induction l as [|a l IH]; intros s i q H; [destruct i; discriminate|].
  destruct i as [|i]; simpl in H.
  - injection H as ->. simpl. now left.
  - destruct a as [r full|q']; simpl.
    + now apply IH.
    + right. now apply IH.
Qed.

(* and nothing else is ever observed: every observation is such a read *)
Theorem observations_are_reads : forall l s q res, In (q, res) (exec s l) ->
  exists i, nth_error l i = Some (ARead q) /\ res = answer (fold_left apply (updates (firstn i l)) s) q.
Proof.
  induction l as [|a l IH]; intros s q res H; [contradiction|].
  destruct a as [r full|q']; simpl in H.
  - destruct (IH _ _ _ H) as (i & Hi & ->). exists (S i). auto.
  - destruct H as [[= <- <-]|H]; [exists O; auto|].
    destruct (IH _ _ _ H) as (i & Hi & ->). exists (S i). auto.
Qed.

Lemma firstn_In' : forall {A} n (l : list A) a, In a (firstn n l) -> In a l.
Proof.
  induction n; intros l a H; [contradiction|]. destruct l; [contradiction|]. simpl in H.
  destruct H as [<-|H]; [now left|right; now apply IHn].
Qed.

(* with one update in flight: a reader sees the state before it or the state after it *)
Corollary before_or_after : forall s r full pre post q res,
  (forall a, In a (pre ++ post) -> exists q', a = ARead q') ->
  In (q, res) (exec s (pre ++ AUpdate r full :: post)) ->
  res = answer s q \/ res = answer (apply s (r, full)) q.
Proof.
  intros s r full pre post q res Hr H.
  destruct (observations_are_reads _ _ _ _ H) as (i & Hi & ->).
  assert (U : forall l, (forall a, In a l -> exists q', a = ARead q') -> updates l = []).
  { induction l as [|a l IHl]; intros Hl; [reflexivity|]. destruct (Hl a (or_introl eq_refl)) as [q' ->].
    simpl. apply IHl. intros; apply Hl; now right. }
  destruct (Nat.le_gt_cases i (length pre)) as [Le|Gt].
  - left. rewrite firstn_app. replace (i - length pre)%nat with O by lia. simpl. rewrite app_nil_r.
    rewrite U; [reflexivity|]. intros a Ha. apply Hr, in_or_app. left. eapply firstn_In'; eauto.
  - right. rewrite firstn_app, firstn_all2 by lia.
    destruct (i - length pre)%nat as [|k] eqn:E; [lia|]. simpl.
    assert (updates pre = []) as Up by (apply U; intros a Ha; apply Hr, in_or_app; now left).
    assert (forall l1 l2, updates (l1 ++ l2) = updates l1 ++ updates l2) as Uapp.
    { induction l1 as [|[|] l1 IHl]; intros; simpl; try rewrite IHl; reflexivity. }
    rewrite Uapp, Up. simpl. rewrite U; [reflexivity|].
    intros a Ha. apply Hr, in_or_app. right. eapply firstn_In'; eauto.
Qed.
