(* C15 — executable model of sarama's client metadata cache (client.go). No proofs here.

   Part 1: [update_metadata] (updateMetadata + updateBroker + setPartitionCache) and the read functions as
           pure functions of the client state; the API reads (`Partitions`, `Leader`, ...) as steps that
           refresh once on a miss against the cluster's current view.
   Part 2: [refresh]: tryRefreshMetadata's candidate iteration (`any`, `deregisterBroker`,
           `resurrectDeadBrokers`, retry budget) against an oracle saying how each candidate behaves.

   Topics, partitions, broker ids are integers; a broker address is an integer naming the listener. *)
From Coq Require Import List ZArith Bool.
Import ListNotations.
Open Scope Z_scope.

(* ------------------------------------------------------------------------------------------------ *)
(* finite maps as association lists with unique keys (first match wins; [set] removes older bindings) *)
Section Maps.
  Context {V : Type}.
  Fixpoint lookup (k : Z) (m : list (Z * V)) : option V :=
    match m with [] => None | (k', v) :: r => if k =? k' then Some v else lookup k r end.
  Fixpoint remove (k : Z) (m : list (Z * V)) : list (Z * V) :=
    match m with [] => [] | (k', v) :: r => if k =? k' then remove k r else (k', v) :: remove k r end.
  Definition set (k : Z) (v : V) (m : list (Z * V)) : list (Z * V) := (k, v) :: remove k m.
End Maps.

(* insertion sort: the specification of sort.Sort(int32Slice) *)
Fixpoint insert (x : Z) (l : list Z) : list Z :=
  match l with [] => [x] | y :: r => if x <=? y then x :: l else y :: insert x r end.
Fixpoint isort (l : list Z) : list Z := match l with [] => [] | x :: r => insert x (isort r) end.

(* Kafka error codes that updateMetadata and the reads distinguish *)
Definition e_unknown_topic_or_partition : Z := 3.
Definition e_leader_not_available : Z := 5.
Definition e_replica_not_available : Z := 9.
Definition e_invalid_topic : Z := 17.
Definition e_topic_authorization_failed : Z := 29.

Record pmeta := { p_id : Z; p_leader : Z; p_replicas : list Z; p_isr : list Z; p_offline : list Z; p_err : Z }.
Record tmeta := { t_name : Z; t_err : Z; t_parts : list pmeta }.
Record response := { r_brokers : list (Z * Z);   (* (id, address) in the order of the response *)
                     r_ctrl : Z; r_topics : list tmeta }.

Record cstate := {
  brokers : list (Z * Z);                       (* client.brokers: id -> address *)
  controller : Z;                               (* client.controllerID *)
  metadata : list (Z * list (Z * pmeta));       (* client.metadata: topic -> partition id -> metadata *)
  mtopics : list Z;                             (* client.metadataTopics (a set) *)
  cache : list (Z * (list Z * list Z))          (* client.cachedPartitionsResults: topic -> (all, writable) *)
}.

Definition init_state : cstate := {| brokers := []; controller := 0; metadata := []; mtopics := []; cache := [] |}.

(* updateBroker: register new, replace re-addressed (the last entry for an id wins), drop absent *)
Fixpoint register_all (bs : list (Z * Z)) (m : list (Z * Z)) : list (Z * Z) :=
  match bs with
  | [] => m
  | (id, a) :: r =>
    register_all r (match lookup id m with
                    | None => set id a m
                    | Some a' => if a =? a' then m else set id a m
                    end)
  end.
Definition mem (x : Z) (l : list Z) : bool := existsb (Z.eqb x) l.
Definition update_brokers (bs : list (Z * Z)) (m : list (Z * Z)) : list (Z * Z) :=
  filter (fun b => mem (fst b) (map fst bs)) (register_all bs m).

Fixpoint parts_map (ps : list pmeta) (m : list (Z * pmeta)) : list (Z * pmeta) :=
  match ps with [] => m | p :: r => parts_map r (set (p_id p) p m) end.

(* setPartitionCache *)
Definition all_ids (m : list (Z * pmeta)) : list Z := isort (map fst m).
Definition writable_ids (m : list (Z * pmeta)) : list Z :=
  isort (map fst (filter (fun kp => negb (p_err (snd kp) =? e_leader_not_available)) m)).

Definition add_topic (t : Z) (l : list Z) : list Z := if mem t l then l else t :: l.

(* what the topic error switch does: store the partitions? ask for a retry? report the error? *)
Definition stores (e : Z) : bool := (e =? 0) || (e =? e_leader_not_available).
Definition topic_retry (e : Z) : bool := (e =? e_unknown_topic_or_partition) || (e =? e_leader_not_available).
Definition topic_reports (e : Z) : bool := negb (stores e).

(* the body of `for _, topic := range data.Topics`: its effect on the state ... *)
Definition topic_state (s : cstate) (t : tmeta) : cstate :=
  let md := remove (t_name t) (metadata s) in
  let ch := remove (t_name t) (cache s) in
  let pm := parts_map (t_parts t) [] in
  {| brokers := brokers s; controller := controller s;
     metadata := if stores (t_err t) then set (t_name t) pm md else md;
     mtopics := add_topic (t_name t) (mtopics s);
     cache := if stores (t_err t) then set (t_name t) (all_ids pm, writable_ids pm) ch else ch |}.
(* ... and on `retry` and `err` *)
Definition topic_flags (f : bool * option Z) (t : tmeta) : bool * option Z :=
  if stores (t_err t)
  then (fst f || topic_retry (t_err t) || existsb (fun p => p_err p =? e_leader_not_available) (t_parts t), snd f)
  else (fst f || topic_retry (t_err t), Some (t_err t)).
Definition update_topic (acc : cstate * bool * option Z) (t : tmeta) : cstate * bool * option Z :=
  let f := topic_flags (snd (fst acc), snd acc) t in
  (topic_state (fst (fst acc)) t, fst f, snd f).

(* updateMetadata(data, allKnownMetaData): new state, shouldRetry, err *)
Definition update_metadata (s : cstate) (r : response) (full : bool) : cstate * bool * option Z :=
  let s0 := {| brokers := update_brokers (r_brokers r) (brokers s);
               controller := r_ctrl r;
               metadata := if full then [] else metadata s;
               mtopics := if full then [] else mtopics s;
               cache := if full then [] else cache s |} in
  fold_left update_topic (r_topics r) (s0, false, None).

(* ---- reads on the state (each one critical section under the read lock) ---- *)
Inductive rd (A : Type) := Hit (x : A) | Miss (e : Z).
Arguments Hit {A} x. Arguments Miss {A} e.

Definition cached_all (s : cstate) (t : Z) : option (list Z) := option_map fst (lookup t (cache s)).
Definition cached_writable (s : cstate) (t : Z) : option (list Z) := option_map snd (lookup t (cache s)).
Definition cached_meta (s : cstate) (t p : Z) : option pmeta :=
  match lookup t (metadata s) with Some m => lookup p m | None => None end.
(* cachedLeader: broker id and address, or an error *)
Definition cached_leader (s : cstate) (t p : Z) : rd (Z * Z) :=
  match cached_meta s t p with
  | None => Miss e_unknown_topic_or_partition
  | Some pm =>
    if p_err pm =? e_leader_not_available then Miss e_leader_not_available else
    match lookup (p_leader pm) (brokers s) with
    | None => Miss e_leader_not_available
    | Some a => Hit (p_leader pm, a)
    end
  end.
Definition brokers_view (s : cstate) : list Z := isort (map fst (brokers s)).
Definition broker_addr (s : cstate) (id : Z) : option Z := lookup id (brokers s).
Definition topics_view (s : cstate) : list Z := isort (map fst (metadata s)).
Definition cached_controller (s : cstate) : option (Z * Z) :=
  match lookup (controller s) (brokers s) with Some a => Some (controller s, a) | None => None end.

(* ---- the cluster as the client sees it, and the API calls as steps ---- *)
(* a metadata request for [ts] ([] = all topics): the brokers, the controller, and per requested topic its
   entry, or UNKNOWN_TOPIC_OR_PARTITION when the cluster does not have it *)
Definition respond (view : response) (ts : list Z) : response :=
  match ts with
  | [] => view
  | _ => {| r_brokers := r_brokers view; r_ctrl := r_ctrl view;
            r_topics := map (fun t => match find (fun x => t_name x =? t) (r_topics view) with
                                      | Some x => x
                                      | None => {| t_name := t; t_err := e_unknown_topic_or_partition; t_parts := [] |}
                                      end) ts |}
  end.

(* RefreshMetadata(ts...) against a seed that answers; the retry budget only repeats the same exchange *)
Definition refresh_metadata (s : cstate) (view : response) (ts : list Z) : cstate * option Z :=
  let '(s', _, err) := update_metadata s (respond view ts) (match ts with [] => true | _ => false end) in (s', err).

Inductive call :=
| CRefresh (ts : list Z)
| CPartitions (t : Z) | CWritable (t : Z)
| CLeader (t p : Z) | CReplicas (t p : Z) | CIsr (t p : Z) | COffline (t p : Z)
| CBrokers | CTopics | CController.

Inductive obs :=
| OErr (e : Z)                     (* an error, Kafka code (or -1001 controller not available) *)
| ONil                             (* nil error from a refresh *)
| OList (l : list Z)
| OListErr (l : list Z) (e : Z)    (* replicas together with ErrReplicaNotAvailable *)
| OBroker (id addr : Z)
| OBrokers (l : list (Z * Z)).

Definition e_controller_not_available : Z := -1001.

Definition replica_obs (l : list Z) (pm : pmeta) : obs :=
  if p_err pm =? e_replica_not_available then OListErr l e_replica_not_available else OList l.

(* `x := cached(); if miss { err := RefreshMetadata(topic); if err != nil { return err }; x = cached() }` *)
Definition with_refresh {A} (s : cstate) (view : response) (t : Z) (get : cstate -> option A)
           (miss : option A -> bool) (fin : option A -> obs) : cstate * obs :=
  if miss (get s) then
    let '(s', err) := refresh_metadata s view [t] in
    match err with Some e => (s', OErr e) | None => (s', fin (get s')) end
  else (s, fin (get s)).

Definition is_empty (o : option (list Z)) : bool := match o with Some (_ :: _) => false | _ => true end.
Definition is_none {A} (o : option A) : bool := match o with None => true | _ => false end.

Definition step (view : response) (s : cstate) (c : call) : cstate * obs :=
  match c with
  | CRefresh ts => let '(s', err) := refresh_metadata s view ts in
                   (s', match err with Some e => OErr e | None => ONil end)
  | CPartitions t =>
    with_refresh s view t (fun s => cached_all s t) is_empty
      (fun o => match o with Some (x :: l) => OList (x :: l) | _ => OErr e_unknown_topic_or_partition end)
  | CWritable t =>
    with_refresh s view t (fun s => cached_writable s t) is_empty
      (fun o => match o with Some l => OList l | None => OErr e_unknown_topic_or_partition end)
  | CLeader t p =>
    with_refresh s view t (fun s => Some (cached_leader s t p))
      (fun o => match o with Some (Hit _) => false | _ => true end)
      (fun o => match o with Some (Hit (id, a)) => OBroker id a | Some (Miss e) => OErr e | None => OErr 0 end)
  | CReplicas t p =>
    with_refresh s view t (fun s => cached_meta s t p) is_none
      (fun o => match o with Some pm => replica_obs (p_replicas pm) pm | None => OErr e_unknown_topic_or_partition end)
  | CIsr t p =>
    with_refresh s view t (fun s => cached_meta s t p) is_none
      (fun o => match o with Some pm => replica_obs (p_isr pm) pm | None => OErr e_unknown_topic_or_partition end)
  | COffline t p =>
    with_refresh s view t (fun s => cached_meta s t p) is_none
      (fun o => match o with Some pm => replica_obs (p_offline pm) pm | None => OErr e_unknown_topic_or_partition end)
  | CBrokers => (s, OBrokers (map (fun id => (id, match broker_addr s id with Some a => a | None => -1 end)) (brokers_view s)))
  | CTopics => (s, OList (topics_view s))
  | CController =>
    match cached_controller s with
    | Some (id, a) => (s, OBroker id a)
    | None =>   (* refreshMetadata(): a full refresh (Metadata.Full), then look again *)
      let '(s', err) := refresh_metadata s view [] in
      match err with
      | Some e => (s', OErr e)
      | None => (s', match cached_controller s' with Some (id, a) => OBroker id a | None => OErr e_controller_not_available end)
      end
    end
  end.

(* a history: the cluster's view may change before each call *)
Fixpoint run_calls (s : cstate) (h : list (response * call)) : list obs :=
  match h with
  | [] => []
  | (view, c) :: r => let '(s', o) := step view s c in o :: run_calls s' r
  end.

(* ------------------------------------------------------------------------------------------------ *)
(* Part 2: tryRefreshMetadata's candidate iteration *)

Inductive outcome := Answers | Fails | AuthFails.   (* metadata response / transport-level failure / SASL or topic authorization error *)
Inductive rresult := RSuccess (c : Z) | RAuth (c : Z) | ROutOfBrokers.

Record cands := { seeds : list Z; dead : list Z; known : list Z }.   (* seedBrokers, deadSeeds, client.brokers (in the order `any` meets them) *)

Definition any (c : cands) : option Z :=
  match seeds c with s :: _ => Some s | [] => match known c with k :: _ => Some k | [] => None end end.

(* deregisterBroker: the head seed goes to the dead list, any other broker is forgotten *)
Definition deregister (c : cands) (b : Z) : cands :=
  match seeds c with
  | s :: r => if b =? s then {| seeds := r; dead := dead c ++ [b]; known := known c |}
              else {| seeds := seeds c; dead := dead c; known := filter (fun k => negb (k =? b)) (known c) |}
  | [] => {| seeds := []; dead := dead c; known := filter (fun k => negb (k =? b)) (known c) |}
  end.
Definition resurrect (c : cands) : cands := {| seeds := seeds c ++ dead c; dead := []; known := known c |}.

(* one pass of the `for broker := any(); broker != nil; broker = any()` loop; [fuel] bounds its length *)
Fixpoint pass (answer : Z -> outcome) (fuel : nat) (c : cands) (tried : list Z) : cands * option rresult * list Z :=
  match fuel with
  | O => (c, None, tried)
  | S f =>
    match any c with
    | None => (c, None, tried)
    | Some b =>
      match answer b with
      | Answers => (c, Some (RSuccess b), tried ++ [b])
      | AuthFails => (c, Some (RAuth b), tried ++ [b])
      | Fails => pass answer f (deregister c b) (tried ++ [b])
      end
    end
  end.

Definition size (c : cands) : nat := length (seeds c) + length (known c).

(* tryRefreshMetadata with [attempts] retries left; the candidates' behaviour does not change during the call *)
Fixpoint refresh (answer : Z -> outcome) (attempts : nat) (c : cands) (tried : list Z) : cands * rresult * list Z :=
  let '(c1, r, tr) := pass answer (S (size c)) c tried in
  match r with
  | Some x => (c1, x, tr)
  | None =>
    let c2 := resurrect c1 in
    match attempts with
    | O => (c2, ROutOfBrokers, tr)
    | S a => refresh answer a c2 tr
    end
  end.

(* ---- the same iteration with Metadata.Timeout set: the deadline is an environment event ---- *)
(* [dl] answers the successive `pastDeadline(..)` tests of one call (an exhausted stream says "not yet").
   The loop tests it before asking each candidate (only when there is one: `broker != nil && !pastDeadline(0)`);
   `retry` tests it before sleeping and trying again. *)
Inductive pstop :=
| PAnswer (r : rresult)   (* a candidate answered (all leaders known) / failed authentication *)
| PRetry (b : Z)          (* candidate b answered, the response was applied, but a partition is leaderless:
                             updateMetadata asks for a retry (`return retry(err)` with err = nil) *)
| PNoBroker               (* `any` found nobody: out of brokers *)
| PDeadline.              (* a candidate is left but the deadline has passed *)

Definition pop_dl (dl : list bool) : bool * list bool := match dl with [] => (false, []) | b :: r => (b, r) end.

(* [ll b]: candidate b's answer contains a leaderless partition *)
Fixpoint pass_d (answer : Z -> outcome) (ll : Z -> bool) (fuel : nat) (c : cands) (tried : list Z) (dl : list bool)
  : cands * pstop * list Z * list bool :=
  match fuel with
  | O => (c, PNoBroker, tried, dl)
  | S f =>
    match any c with
    | None => (c, PNoBroker, tried, dl)
    | Some b =>
      let '(past, dl1) := pop_dl dl in
      if past then (c, PDeadline, tried, dl1) else
      match answer b with
      | Answers => (c, (if ll b then PRetry b else PAnswer (RSuccess b)), tried ++ [b], dl1)
      | AuthFails => (c, PAnswer (RAuth b), tried ++ [b], dl1)
      | Fails => pass_d answer ll f (deregister c b) (tried ++ [b]) dl1
      end
    end
  end.

(* tryRefreshMetadata. Exits: an answer; a leaderless answer once the retries are used up (or the deadline
   forbids another one) — the call then returns nil; the two give-up exits: with a candidate left (deadline)
   nothing is resurrected, with nobody left the seeds set aside are resurrected (live ++ dead, as the code
   appends); all retries go through `retry`. A retry after a leaderless answer re-enters with the candidate
   lists as they are — the live seeds stay — and with the brokers the applied response advertised, in the order
   [adv a] in which `any` meets them on the re-entry with [a] retries left (client.brokers is a Go map: every
   re-entry iterates it afresh, so the order is chosen anew each time). *)
Fixpoint refresh_d (answer : Z -> outcome) (ll : Z -> bool) (adv : nat -> list Z) (attempts : nat) (c : cands)
         (tried : list Z) (dl : list bool) : cands * rresult * list Z * list bool :=
  let '(c1, st, tr, dl1) := pass_d answer ll (S (size c)) c tried dl in
  match st with
  | PAnswer x => (c1, x, tr, dl1)
  | PRetry b =>
    match attempts with
    | O => (c1, RSuccess b, tr, dl1)
    | S a =>
      let '(past, dl2) := pop_dl dl1 in
      if past then (c1, RSuccess b, tr, dl2)
      else refresh_d answer ll adv a {| seeds := seeds c1; dead := dead c1; known := adv a |} tr dl2
    end
  | _ =>
    let c2 := match st with PDeadline => c1 | _ => resurrect c1 end in
    match attempts with
    | O => (c2, ROutOfBrokers, tr, dl1)
    | S a =>
      let '(past, dl2) := pop_dl dl1 in
      if past then (c2, ROutOfBrokers, tr, dl2)      (* "skipping last retries as we would go past the metadata timeout" *)
      else refresh_d answer ll adv a c2 tr dl2
    end
  end.
