(* C15 — the hand model's leader lookup, partition-list filter and topic error classes are the definitions
   regenerated from client.go by go/decgen (golden SV.Gen.DecC15, re-derived from the source on every run). *)
From Coq Require Import List ZArith Bool String Lia.
From SV Require Import Gen.GoInt Gen.DecTypes Gen.DecC15 C15.Model.
Import ListNotations.
Open Scope Z_scope.

(* cachedLeader *)
Definition rd_to_go (r : rd (Z * Z)) : option Z * gerr :=
  match r with Hit (_, a) => (Some a, ENil) | Miss e => (None, EK e) end.

Theorem tie_cached_leader : forall s t p name,
  rd_to_go (Model.cached_leader s t p) =
  DecC15.cached_leader name p
    (option_map (fun _ => tt) (lookup t (metadata s)))
    (is_some (cached_meta s t p))
    (match cached_meta s t p with Some pm => p_err pm | None => 0 end)
    (match cached_meta s t p with Some pm => lookup (p_leader pm) (brokers s) | None => None end).
Proof.
  intros s t p name. unfold Model.cached_leader, DecC15.cached_leader, cached_meta.
  destruct (lookup t (metadata s)) as [m|]; simpl; [|reflexivity].
  destruct (lookup p m) as [pm|]; simpl; [|reflexivity].
  unfold e_leader_not_available. destruct (p_err pm =? 5); [reflexivity|].
  destruct (lookup (p_leader pm) (brokers s)); reflexivity.
Qed.

(* setPartitionCache: the loop that collects the ids (all, or those not flagged leader-not-available) *)
Definition id_err (kp : Z * pmeta) : Z * Z := (fst kp, p_err (snd kp)).

Lemma filter_loop : forall l ret set parts,
  fst (partition_filter_loop1 l ret set parts) =
  ret ++ map fst (filter (fun x => negb ((set =? 1) && (snd x =? 5))) l).
Proof.
  induction l as [|x l IH]; intros ret set parts; simpl; [now rewrite app_nil_r|].
  destruct ((set =? 1) && (snd x =? 5)); simpl; rewrite IH; [reflexivity|]. now rewrite <- app_assoc.
Qed.

Theorem tie_all_ids : forall m, all_ids m = isort (fst (partition_filter [] 0 (map id_err m))).
Proof.
  intro m. unfold all_ids, partition_filter. rewrite filter_loop. simpl. f_equal.
  induction m as [|kp m IH]; simpl; [reflexivity|]. now rewrite <- IH.
Qed.

Theorem tie_writable_ids : forall m, writable_ids m = isort (fst (partition_filter [] 1 (map id_err m))).
Proof.
  intro m. unfold writable_ids, partition_filter. rewrite filter_loop. simpl. f_equal.
  induction m as [|kp m IH]; simpl; [reflexivity|]. unfold e_leader_not_available.
  destruct (p_err (snd kp) =? 5); simpl; now rewrite <- IH.
Qed.

(* updateMetadata's `switch topic.Err` *)
Theorem tie_topic_error_class : forall retry err e,
  topic_error_class retry err e =
  (retry || topic_retry e, (if stores e then err else EK e), if stores e then ExFall else ExContinue).
Proof.
  intros retry err e. unfold topic_error_class, topic_retry, stores,
    e_unknown_topic_or_partition, e_leader_not_available.
  destruct (Z.eqb_spec e 0) as [->|N0]; [simpl; now rewrite orb_false_r|].
  destruct (Z.eqb_spec e 17) as [->|N17]; [simpl; now rewrite orb_false_r|].
  destruct (Z.eqb_spec e 29) as [->|N29]; [simpl; now rewrite orb_false_r|]. simpl.
  destruct (Z.eqb_spec e 3) as [->|N3]; [simpl; now rewrite orb_true_r|].
  destruct (Z.eqb_spec e 5) as [->|N5]; [simpl; now rewrite orb_true_r|]. simpl. now rewrite orb_false_r.
Qed.
