(* C15 — the hand model's leader lookup, partition-list filter and topic error classes are the definitions
   regenerated from client.go by go/decgen (golden SV.Gen.DecC15, re-derived from the source on every run). *)
From Coq Require Import List ZArith Bool String Lia.
From SV Require Import Gen.GoInt Gen.DecTypes Gen.DecC15 C15.Model.
Import ListNotations.
Open Scope Z_scope.

(* cachedLeader *)
Definition rd_to_go (r : rd (Z * Z)) : option Z * gerr :=
  match r with Hit (_, a) => (Some a, ENil) | Miss e => (None, EK e) end.

Theorem tie_cached_leader : forall s t p name,
  rd_to_go (Model.cached_leader s t p) =
  DecC15.cached_leader name p
    (option_map (fun _ => tt) (lookup t (metadata s)))
    (is_some (cached_meta s t p))
    (match cached_meta s t p with Some pm => p_err pm | None => 0 end)
    (match cached_meta s t p with Some pm => lookup (p_leader pm) (brokers s) | None => None end).
Proof.
  intros s t p name. unfold Model.cached_leader, DecC15.cached_leader, cached_meta.
  destruct (lookup t (metadata s)) as [m|]; simpl; [|reflexivity].
  destruct (lookup p m) as [pm|]; simpl; [|reflexivity].
  unfold e_leader_not_available. destruct (p_err pm =? 5); [reflexivity|].
  destruct (lookup (p_leader pm) (brokers s)); reflexivity.
Qed.

(* setPartitionCache: the loop that collects the ids (all, or those not flagged leader-not-available) *)
Definition id_err (kp : Z * pmeta) : Z * Z := (fst kp, p_err (snd kp)).

Lemma filter_loop : forall l ret set parts,
  fst (partition_filter_loop1 l ret set parts) =
  ret ++ map fst (filter (fun x => negb ((set =? 1) && (snd x =? 5))) l).
Proof.
  induction l as [|x l IH]; intros ret set parts; simpl; [now rewrite app_nil_r|].
  destruct ((set =? 1) && (snd x =? 5)); simpl; rewrite IH; [reflexivity|]. now rewrite <- app_assoc.
Qed.

Theorem tie_all_ids : forall m, all_ids m = isort (fst (partition_filter [] 0 (map id_err m))).
Proof.
  intro m. unfold all_ids, partition_filter. rewrite filter_loop. simpl. f_equal.
  induction m as [|kp m IH]; simpl; [reflexivity|]. now rewrite <- IH.
Qed.

Theorem tie_writable_ids : forall m, writable_ids m = isort (fst (partition_filter [] 1 (map id_err m))).
Proof.
  intro m. unfold writable_ids, partition_filter. rewrite filter_loop. simpl. f_equal.
  induction m as [|kp m IH]; simpl; [reflexivity|]. unfold e_leader_not_available.
  destruct (p_err (snd kp) =? 5); simpl; now rewrite <- IH.
Qed.

(* updateMetadata's `switch topic.Err` *)
Theorem tie_topic_error_class : forall retry err e,
  topic_error_class retry err e =
  (retry || topic_retry e, (if stores e then err else EK e), if stores e then ExFall else ExContinue).
Proof.
  intros retry err e. unfold topic_error_class, topic_retry, stores,
    e_unknown_topic_or_partition, e_leader_not_available.
  destruct (Z.eqb_spec e 0) as [->|N0]; [simpl; now rewrite orb_false_r|].
  destruct (Z.eqb_spec e 17) as [->|N17]; [simpl; now rewrite orb_false_r|].
  destruct (Z.eqb_spec e 29) as [->|N29]; [simpl; now rewrite orb_false_r|]. simpl.
  destruct (Z.eqb_spec e 3) as [->|N3]; [simpl; now rewrite orb_true_r|].
  destruct (Z.eqb_spec e 5) as [->|N5]; [simpl; now rewrite orb_true_r|]. simpl. now rewrite orb_false_r.
Qed.

(* ------------------------------------------------------------------------------------------------ *)
(* second wave: updateBroker as a whole (register new, replace re-addressed, sweep absent) *)
From SV Require Import Gen.DecTypes2 C15.ProofsView.

Section UpdateBroker.
  (* the model names an address by an integer; Go compares address strings *)
  Variable enc : Z -> string.
  Hypothesis enc_inj : forall a b, enc a = enc b -> a = b.

  Definition go_broker (id a : Z) : Z * string := (id, enc a).
  Definition go_list (bs : list (Z * Z)) : list (Z * string) := map (fun b => go_broker (fst b) (snd b)) bs.
  (* a Go broker map represents a model map when both answer every lookup alike *)
  Definition represents (zm : zmap (Z * string)) (m : list (Z * Z)) : Prop :=
    forall id, zmap_get zm id = option_map (go_broker id) (lookup id m).

  Lemma enc_eqb : forall a b, String.eqb (enc a) (enc b) = (a =? b).
  Proof.
    intros a b. destruct (Z.eqb_spec a b) as [->|N]; [apply String.eqb_refl|].
    apply String.eqb_neq. intro E. now apply N, enc_inj.
  Qed.

  Lemma zget_set : forall {V} (m : zmap V) k v k', zmap_get (zmap_set m k v) k' = if k' =? k then Some v else zmap_get m k'.
  Proof.
    induction m as [|[k0 v0] m IH]; intros k v k'; simpl; [reflexivity|].
    destruct (Z.eqb_spec k k0) as [->|N]; simpl.
    - destruct (k' =? k0); reflexivity.
    - rewrite IH. destruct (Z.eqb_spec k' k0) as [->|]; [|reflexivity].
      destruct (Z.eqb_spec k0 k); [congruence|reflexivity].
  Qed.

  Lemma zget_del : forall {V} (m : zmap V) k k', zmap_get (zmap_del m k) k' = if k' =? k then None else zmap_get m k'.
  Proof.
    induction m as [|[k0 v0] m IH]; intros k k'; simpl; [now destruct (k' =? k)|].
    destruct (Z.eqb_spec k k0) as [->|N]; simpl.
    - rewrite IH. destruct (Z.eqb_spec k' k0); reflexivity.
    - rewrite IH. destruct (Z.eqb_spec k' k0) as [->|]; [|reflexivity].
      destruct (Z.eqb_spec k0 k); [congruence|reflexivity].
  Qed.

  (* the sweep: whatever is not in currentBroker is deleted *)
  Lemma sweep : forall (l : list (Z * (Z * string))) zm nb acts cur id,
    zmap_get (fst (update_broker_loop2 l zm nb acts cur)) id =
    if existsb (fun it => (id =? fst it) && negb (zmap_has cur (fst it))) l then None else zmap_get zm id.
  Proof.
    induction l as [|it l IH]; intros zm nb acts cur id; simpl; [reflexivity|].
    destruct (zmap_has cur (fst it)) eqn:H; simpl.
    - rewrite IH. now rewrite andb_false_r.
    - rewrite IH, andb_true_r. destruct (existsb _ l); [now rewrite orb_true_r|].
      rewrite orb_false_r, zget_del. reflexivity.
  Qed.

  Lemma zget_in_items : forall {V} (m : zmap V) id, zmap_get m id <> None -> existsb (fun it => id =? fst it) m = true.
  Proof.
    induction m as [|[k v] m IH]; intros id H; simpl in *; [congruence|].
    destruct (id =? k); [reflexivity|]. now apply IH.
  Qed.

  (* the first loop registers / replaces like the model's register_all and collects the ids seen *)
  Lemma first_loop : forall bs zm m nb acts cur,
    represents zm m ->
    exists zm' acts',
      update_broker_loop1 (go_list bs) zm nb acts cur =
      update_broker_loop2 (zmap_items zm') zm' nb acts' (fold_left (fun c b => zmap_set c (fst b) (go_broker (fst b) (snd b))) bs cur) /\
      represents zm' (register_all bs m).
  Proof.
    induction bs as [|[i a] bs IH]; intros zm m nb acts cur R; simpl.
    - exists zm, acts. auto.
    - rewrite (R i). destruct (lookup i m) as [a'|] eqn:L; simpl.
      + rewrite enc_eqb. destruct (Z.eqb_spec a a') as [->|N]; simpl.
        * apply IH. exact R.
        * apply IH. intro id. rewrite zget_set, lookup_set.
          destruct (Z.eqb_spec id i) as [->|]; [reflexivity|apply R].
      + apply IH. intro id. rewrite zget_set, lookup_set.
        destruct (Z.eqb_spec id i) as [->|]; [reflexivity|apply R].
  Qed.

  Lemma cur_has : forall bs cur id,
    zmap_has (fold_left (fun c b => zmap_set c (fst b) (go_broker (fst b) (snd b))) bs cur) id =
    zmap_has cur id || mem id (map fst bs).
  Proof.
    induction bs as [|[i a] bs IH]; intros cur id; simpl; [now rewrite orb_false_r|].
    rewrite IH. unfold zmap_has at 1. rewrite zget_set. unfold mem. simpl.
    destruct (Z.eqb_spec id i) as [->|]; simpl; [now rewrite orb_true_r|reflexivity].
  Qed.

  (* updateBroker: the regenerated function computes the model's broker reconciliation *)
  Theorem tie_update_broker : forall bs zm m, represents zm m ->
    represents (fst (update_broker zm (go_list bs))) (update_brokers bs m).
  Proof.
    intros bs zm m R id. unfold update_broker.
    destruct (first_loop bs zm m (go_list bs) [] [] R) as (zm' & acts' & -> & R').
    rewrite sweep. unfold update_brokers.
    rewrite (lookup_filter_key (fun k => mem k (map fst bs))).
    destruct (mem id (map fst bs)) eqn:M.
    - (* listed by the response: never swept *)
      assert (E : existsb (fun it => (id =? fst it) && negb (zmap_has
                  (fold_left (fun c b => zmap_set c (fst b) (go_broker (fst b) (snd b))) bs []) (fst it))) (zmap_items zm') = false).
      { apply not_true_is_false. intro H. apply existsb_exists in H as (it & _ & H).
        apply andb_true_iff in H as [H1 H2]. apply Z.eqb_eq in H1. subst id.
        rewrite cur_has, M, orb_true_r in H2. discriminate. }
      rewrite E. apply R'.
    - (* absent from the response: swept if it was there *)
      destruct (zmap_get zm' id) eqn:G.
      + assert (E : existsb (fun it => (id =? fst it) && negb (zmap_has
                  (fold_left (fun c b => zmap_set c (fst b) (go_broker (fst b) (snd b))) bs []) (fst it))) (zmap_items zm') = true).
        { assert (H : existsb (fun it => id =? fst it) zm' = true) by (apply zget_in_items; congruence).
          apply existsb_exists in H as (it & Hin & H). apply existsb_exists. exists it. split; [exact Hin|].
          rewrite H. apply Z.eqb_eq in H. subst id. now rewrite cur_has, M. }
        now rewrite E.
      + now destruct (existsb _ (zmap_items zm')).
  Qed.
End UpdateBroker.
