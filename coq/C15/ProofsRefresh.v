(* C15 — tryRefreshMetadata's candidate iteration: if some seed or known broker answers, the refresh reaches it
   in the first pass, whatever the order of the candidates and however many of the others fail. *)
From Coq Require Import List ZArith Bool Lia.
From SV Require Import C15.Model.
Import ListNotations.
Open Scope Z_scope.

Definition live (c : cands) : list Z := seeds c ++ known c.

Lemma any_none : forall c, any c = None -> seeds c = [] /\ known c = [].
Proof. intros [s d k]; unfold any; simpl. destruct s; [destruct k|]; try discriminate; auto. Qed.

Lemma any_some : forall c b, any c = Some b -> In b (live c).
Proof.
  intros [s d k] b; unfold any, live; simpl. destruct s as [|x s]; [destruct k as [|y k]|]; try discriminate;
    intros [= <-]; simpl; auto.
Qed.

Lemma filter_length_le : forall {A} (f : A -> bool) l, (length (filter f l) <= length l)%nat.
Proof. induction l; simpl; [lia|]. destruct (f a); simpl; lia. Qed.

(* setting the asked candidate aside shrinks the live set by at least one and loses nobody else *)
Lemma deregister_facts : forall c b, any c = Some b ->
  (size (deregister c b) < size c)%nat /\
  (forall x, In x (live c) -> x = b \/ In x (live (deregister c b))) /\
  (forall x, In x (live (deregister c b)) -> In x (live c)) /\
  incl (dead c) (dead (deregister c b)) /\
  incl (dead (deregister c b)) (dead c ++ seeds c) /\
  incl (seeds c) (seeds (deregister c b) ++ dead (deregister c b)).
Proof.
  intros [s d k] b H. unfold any in H. unfold deregister, size, live. simpl in *.
  destruct s as [|x s].
  - destruct k as [|y k]; [discriminate|]. injection H as <-. simpl. rewrite Z.eqb_refl. simpl.
    split; [pose proof (filter_length_le (fun k0 => negb (k0 =? y)) k); lia|]. split; [|split; [|split; [|split]]].
    + intros z [<-|Hz]; [now left|]. destruct (Z.eqb_spec z y) as [->|N]; [now left|].
      right. apply filter_In. split; [assumption|]. now apply negb_true_iff, Z.eqb_neq.
    + intros z Hz. apply filter_In in Hz as [Hz _]. now right.
    + apply incl_refl.
    + rewrite app_nil_r. apply incl_refl.
    + intros z [].
  - injection H as <-. rewrite Z.eqb_refl. simpl. split; [lia|]. split; [|split; [|split; [|split]]].
    + intros z [<-|Hz]; auto.
    + intros z Hz. now right.
    + apply incl_appl, incl_refl.
    + intros z Hz. apply in_app_or in Hz as [Hz|[<-|[]]]; apply in_or_app; [now left|right; now left].
    + intros z [<-|Hz]; apply in_or_app; [right; apply in_or_app; right; now left|now left].
Qed.

(* one pass, with enough fuel and no authentication-class failure among the live candidates *)
Lemma pass_inv : forall answer fuel c tried c' r tr,
  pass answer fuel c tried = (c', r, tr) -> (size c < fuel)%nat ->
  (forall b, In b (live c) -> answer b <> AuthFails) ->
  incl (dead c) (dead c') /\ incl (dead c') (dead c ++ seeds c) /\
  exists asked, tr = tried ++ asked /\ incl asked (live c) /\
    match r with
    | Some (RSuccess b) =>
      answer b = Answers /\ exists failed, asked = failed ++ [b] /\ forall x, In x failed -> answer x = Fails
    | Some _ => False
    | None => seeds c' = [] /\ known c' = [] /\ incl (seeds c) (dead c') /\ forall b, In b (live c) -> answer b = Fails
    end.
Proof.
  intros answer fuel. induction fuel as [|fuel IH]; intros c tried c' r tr H F NA; [lia|].
  simpl in H. destruct (any c) as [b|] eqn:A.
  - pose proof (any_some _ _ A) as Hb. destruct (deregister_facts c b A) as (Hs & Hl & Hl' & Hd & Hd' & Hsd).
    destruct (answer b) eqn:Ab.
    + injection H as <- <- <-. split; [apply incl_refl|]. split; [apply incl_appl, incl_refl|].
      exists [b]. split; [reflexivity|]. split; [intros x [<-|[]]; assumption|].
      split; [assumption|]. exists []. split; [reflexivity|intros x []].
    + destruct (IH (deregister c b) (tried ++ [b]) c' r tr H ltac:(lia)
                   (fun x Hx => NA x (Hl' x Hx))) as (D1 & D2 & asked & -> & Ia & R).
      split; [eapply incl_tran; eassumption|]. split.
      { intros x Hx. apply D2 in Hx. apply in_app_or in Hx as [Hx|Hx].
        - now apply Hd'.
        - (* a seed of the shrunk state is a seed of c *)
          apply in_or_app. right. clear - Hx A. destruct c as [s d k]. unfold deregister, any in *. simpl in *.
          destruct s as [|y s]; [contradiction|]. injection A as <-. rewrite Z.eqb_refl in Hx. simpl in Hx. now right. }
      exists (b :: asked). rewrite <- app_assoc. split; [reflexivity|]. split.
      { intros x [<-|Hx]; [assumption|]. apply Hl'. now apply Ia. }
      destruct r as [[b'| |]|]; try contradiction.
      * destruct R as (Ra & failed & -> & Ff). split; [assumption|].
        exists (b :: failed). split; [reflexivity|]. intros x [<-|Hx]; [assumption|now apply Ff].
      * destruct R as (R1 & R2 & R4 & R3). split; [assumption|]. split; [assumption|]. split.
        { intros x Hx. apply Hsd in Hx. apply in_app_or in Hx as [Hx|Hx]; [now apply R4|now apply D1]. }
        intros x Hx. destruct (Hl x Hx) as [->|Hx']; [assumption|]. now apply R3.
    + exfalso. now apply (NA b Hb).
  - injection H as <- <- <-. destruct (any_none _ A) as [S K].
    split; [apply incl_refl|]. split; [apply incl_appl, incl_refl|].
    exists []. rewrite app_nil_r. split; [reflexivity|]. split; [intros x []|].
    split; [assumption|]. split; [assumption|]. split; [rewrite S; intros x []|]. unfold live. rewrite S, K. intros b [].
Qed.

Lemma refresh_unfold : forall answer attempts c tried,
  refresh answer attempts c tried =
  let '(c1, r, tr) := pass answer (S (size c)) c tried in
  match r with
  | Some x => (c1, x, tr)
  | None => match attempts with
            | O => (resurrect c1, ROutOfBrokers, tr)
            | S a => refresh answer a (resurrect c1) tr
            end
  end.
Proof. intros. destruct attempts; reflexivity. Qed.

(* c15_refresh_succeeds, from any log of candidates tried so far *)
Lemma refresh_succeeds_from : forall answer attempts c tried,
  (exists b, In b (live c) /\ answer b = Answers) ->
  (forall b, In b (live c) -> answer b <> AuthFails) ->
  exists c' b failed, refresh answer attempts c tried = (c', RSuccess b, tried ++ failed ++ [b]) /\
    answer b = Answers /\ In b (live c) /\ incl failed (live c) /\ forall x, In x failed -> answer x = Fails.
Proof.
  intros answer attempts c tried (b0 & Hb0 & Ab0) NA. rewrite refresh_unfold.
  destruct (pass answer (S (size c)) c tried) as [[c1 r] tr] eqn:P.
  destruct (pass_inv _ _ _ _ _ _ _ P ltac:(lia) NA) as (_ & _ & asked & -> & Ia & R).
  destruct r as [[b| |]|]; try contradiction.
  - destruct R as (Ab & failed & -> & Ff). exists c1, b, failed.
    split; [reflexivity|]. split; [assumption|]. split; [apply Ia, in_or_app; right; now left|].
    split; [|assumption]. intros x Hx. apply Ia, in_or_app. now left.
  - destruct R as (_ & _ & _ & Fall). rewrite (Fall b0 Hb0) in Ab0. discriminate.
Qed.

(* c15_refresh_succeeds: some live seed or known broker answers, none of them fails authentication: the first
   pass reaches an answering candidate after asking only failing ones, whatever the order *)
Theorem refresh_succeeds : forall answer attempts c,
  (exists b, In b (live c) /\ answer b = Answers) ->
  (forall b, In b (live c) -> answer b <> AuthFails) ->
  exists c' b failed, refresh answer attempts c [] = (c', RSuccess b, failed ++ [b]) /\
    answer b = Answers /\ In b (live c) /\ incl failed (live c) /\ forall x, In x failed -> answer x = Fails.
Proof. intros answer attempts c H NA. exact (refresh_succeeds_from answer attempts c [] H NA). Qed.

(* a seed set aside earlier is asked again on the next attempt *)
Theorem refresh_resurrects : forall answer attempts c,
  (exists b, In b (live c ++ dead c) /\ answer b = Answers) ->
  (forall b, In b (live c ++ dead c) -> answer b <> AuthFails) ->
  exists c' b tr, refresh answer (S attempts) c [] = (c', RSuccess b, tr) /\ answer b = Answers.
Proof.
  intros answer attempts c (b0 & Hb0 & Ab0) NA. rewrite refresh_unfold.
  destruct (pass answer (S (size c)) c []) as [[c1 r] tr] eqn:P.
  assert (NA1 : forall b, In b (live c) -> answer b <> AuthFails) by (intros b Hb; apply NA, in_or_app; now left).
  destruct (pass_inv _ _ _ _ _ _ _ P ltac:(lia) NA1) as (D1 & D2 & asked & _ & _ & R).
  destruct r as [[b| |]|]; try contradiction.
  - destruct R as (Ab & _). eauto.
  - destruct R as (S1 & K1 & _ & Fall).
    assert (Hd : In b0 (dead c)).
    { apply in_app_or in Hb0 as [H|H]; [|assumption]. rewrite (Fall b0 H) in Ab0. discriminate. }
    assert (L2 : live (resurrect c1) = dead c1) by (unfold live, resurrect; simpl; rewrite S1, K1, app_nil_r; reflexivity).
    destruct (refresh_succeeds_from answer attempts (resurrect c1) tr) as (c' & b & failed & E & Ab & _).
    + exists b0. rewrite L2. split; [now apply D1|assumption].
    + intros x Hx. rewrite L2 in Hx. apply D2 in Hx. apply NA.
      apply in_app_or in Hx as [Hx|Hx]; apply in_or_app; [now right|left; unfold live; apply in_or_app; now left].
    + eauto.
Qed.

(* an authentication-class failure ends the refresh at once, by design *)
Theorem refresh_auth_ends : forall answer attempts c b, any c = Some b -> answer b = AuthFails ->
  refresh answer attempts c [] = (c, RAuth b, [b]).
Proof.
  intros answer attempts c b A Ab. rewrite refresh_unfold. simpl. now rewrite A, Ab.
Qed.

(* nobody answers: out of brokers, and the seeds set aside are back for the next call *)
Theorem refresh_out_of_brokers : forall answer c,
  (forall b, In b (live c) -> answer b = Fails) ->
  exists c' tr, refresh answer 0 c [] = (c', ROutOfBrokers, tr) /\ known c' = [] /\
    incl (dead c ++ seeds c) (seeds c') /\ dead c' = [].
Proof.
  intros answer c Fall. rewrite refresh_unfold.
  destruct (pass answer (S (size c)) c []) as [[c1 r] tr] eqn:P.
  assert (NA : forall b, In b (live c) -> answer b <> AuthFails) by (intros b Hb; rewrite (Fall b Hb); discriminate).
  destruct (pass_inv _ _ _ _ _ _ _ P ltac:(lia) NA) as (D1 & D2 & asked & _ & Ia & R).
  destruct r as [[b| |]|]; try contradiction.
  - destruct R as (Ab & failed & -> & _).
    rewrite (Fall b (Ia b ltac:(apply in_or_app; right; now left))) in Ab. discriminate.
  - destruct R as (S1 & K1 & SD & _). exists (resurrect c1), tr. split; [reflexivity|].
    unfold resurrect; simpl. rewrite S1. simpl. split; [assumption|]. split; [|reflexivity].
    intros x Hx. apply in_app_or in Hx as [Hx|Hx]; [now apply D1|now apply SD].
Qed.

Example refresh_example :
  let answer := fun b => if (b =? 3) then Answers else Fails in
  refresh answer 0 {| seeds := [101; 102]; dead := []; known := [2; 3; 1] |} [] =
  ({| seeds := []; dead := [101; 102]; known := [3; 1] |}, RSuccess 3, [101; 102; 2; 3]).
Proof. reflexivity. Qed.
