(* C15 — tryRefreshMetadata with a metadata deadline (Metadata.Timeout): every exit leaves the candidate lists
   usable — no seed is ever lost, and a call never returns with nobody to ask while seeds are set aside. *)
From Coq Require Import List ZArith Bool Lia.
From SV Require Import C15.Model C15.ProofsRefresh.
Import ListNotations.
Open Scope Z_scope.

(* without a deadline (an empty stream) and without leaderless answers this is the iteration of ProofsRefresh *)
Definition no_ll : Z -> bool := fun _ => false.

Lemma pass_d_nil : forall answer fuel c tried,
  pass_d answer no_ll fuel c tried [] =
  let '(c', r, tr) := pass answer fuel c tried in
  (c', match r with Some x => PAnswer x | None => PNoBroker end, tr, []).
Proof.
  intros answer fuel. induction fuel as [|fuel IH]; intros c tried; simpl; [reflexivity|].
  destruct (any c) as [b|]; [|reflexivity]. destruct (answer b); try reflexivity. apply IH.
Qed.

Lemma refresh_d_unfold : forall answer ll adv attempts c tried dl,
  refresh_d answer ll adv attempts c tried dl =
  let '(c1, st, tr, dl1) := pass_d answer ll (S (size c)) c tried dl in
  match st with
  | PAnswer x => (c1, x, tr, dl1)
  | PRetry b =>
    match attempts with
    | O => (c1, RSuccess b, tr, dl1)
    | S a => let '(past, dl2) := pop_dl dl1 in
             if past then (c1, RSuccess b, tr, dl2)
             else refresh_d answer ll adv a {| seeds := seeds c1; dead := dead c1; known := adv a |} tr dl2
    end
  | _ =>
    let c2 := match st with PDeadline => c1 | _ => resurrect c1 end in
    match attempts with
    | O => (c2, ROutOfBrokers, tr, dl1)
    | S a => let '(past, dl2) := pop_dl dl1 in
             if past then (c2, ROutOfBrokers, tr, dl2) else refresh_d answer ll adv a c2 tr dl2
    end
  end.
Proof. intros. destruct attempts; reflexivity. Qed.

Lemma refresh_d_nil : forall answer adv attempts c tried,
  refresh_d answer no_ll adv attempts c tried [] = let '(c', r, tr) := refresh answer attempts c tried in (c', r, tr, []).
Proof.
  intros answer adv attempts. induction attempts as [|a IH]; intros c tried;
    rewrite refresh_d_unfold, refresh_unfold, pass_d_nil;
    destruct (pass answer (S (size c)) c tried) as [[c1 r] tr]; destruct r as [x|]; try reflexivity.
  simpl. apply IH.
Qed.

(* the seeds the client was given: those in the seed list and those set aside *)
Definition seedset (c : cands) : list Z := seeds c ++ dead c.
Definition same_elements (a b : list Z) : Prop := forall x, In x a <-> In x b.

Lemma deregister_seedset : forall c b, any c = Some b -> same_elements (seedset (deregister c b)) (seedset c).
Proof.
  intros [s d k] b A x. unfold any, deregister, seedset in *. simpl in *.
  destruct s as [|y s].
  - destruct k; [discriminate|]. reflexivity.
  - injection A as <-. rewrite Z.eqb_refl. simpl. rewrite !in_app_iff. simpl. tauto.
Qed.

Lemma resurrect_seedset : forall c, same_elements (seedset (resurrect c)) (seedset c).
Proof. intros c x. unfold seedset, resurrect. simpl. now rewrite app_nil_r. Qed.

Lemma pass_d_inv : forall answer ll fuel c tried dl c1 st tr dl1,
  pass_d answer ll fuel c tried dl = (c1, st, tr, dl1) ->
  same_elements (seedset c1) (seedset c) /\
  match st with PNoBroker => True | _ => any c1 <> None end.
Proof.
  intros answer ll fuel. induction fuel as [|fuel IH]; intros c tried dl c1 st tr dl1 H; simpl in H.
  - injection H as <- <- <- <-. split; [intro; reflexivity|exact I].
  - destruct (any c) as [b|] eqn:A.
    + destruct (pop_dl dl) as [past dl0]. destruct past.
      * injection H as <- <- <- <-. split; [intro; reflexivity|congruence].
      * destruct (answer b).
        -- injection H as <- <- <- <-. split; [intro; reflexivity|destruct (ll b); congruence].
        -- destruct (IH _ _ _ _ _ _ _ H) as [S1 S2]. split; [|exact S2].
           intro x. rewrite (S1 x). apply deregister_seedset. exact A.
        -- injection H as <- <- <- <-. split; [intro; reflexivity|congruence].
    + injection H as <- <- <- <-. split; [intro; reflexivity|exact I].
Qed.

(* every exit — an answer, a leaderless answer (after its retries: the re-entry is one of the paths), out of
   brokers, past the deadline — : no seed lost, and nobody-to-ask implies nothing is set aside *)
Theorem refresh_d_exits : forall answer ll adv attempts c tried dl c' r tr dl',
  refresh_d answer ll adv attempts c tried dl = (c', r, tr, dl') ->
  same_elements (seedset c') (seedset c) /\ (any c' = None -> dead c' = []).
Proof.
  intros answer ll adv attempts. induction attempts as [|a IH]; intros c tried dl c' r tr dl' H;
    rewrite refresh_d_unfold in H;
    destruct (pass_d answer ll (S (size c)) c tried dl) as [[[c1 st] tr1] dl1] eqn:P;
    destruct (pass_d_inv _ _ _ _ _ _ _ _ _ _ P) as [S1 S2]; destruct st as [x|b| |].
  - injection H as <- <- <- <-. split; [exact S1|intro; contradiction].
  - injection H as <- <- <- <-. split; [exact S1|intro; contradiction].
  - injection H as <- <- <- <-. split; [|reflexivity].
    intro x. rewrite (resurrect_seedset c1 x). apply S1.
  - injection H as <- <- <- <-. split; [exact S1|intro; contradiction].
  - injection H as <- <- <- <-. split; [exact S1|intro; contradiction].
  - destruct (pop_dl dl1) as [past dl2]. destruct past.
    + injection H as <- <- <- <-. split; [exact S1|intro; contradiction].
    + destruct (IH _ _ _ _ _ _ _ H) as [T1 T2]. split; [|exact T2]. intro x. rewrite (T1 x). apply S1.
  - destruct (pop_dl dl1) as [past dl2]. destruct past.
    + injection H as <- <- <- <-. split; [|reflexivity]. intro x. rewrite (resurrect_seedset c1 x). apply S1.
    + destruct (IH _ _ _ _ _ _ _ H) as [T1 T2]. split; [|exact T2].
      intro x. rewrite (T1 x), (resurrect_seedset c1 x). apply S1.
  - destruct (pop_dl dl1) as [past dl2]. destruct past.
    + injection H as <- <- <- <-. split; [exact S1|intro; contradiction].
    + destruct (IH _ _ _ _ _ _ _ H) as [T1 T2]. split; [|exact T2]. intro x. rewrite (T1 x). apply S1.
Qed.

(* the order of the code: resurrectDeadBrokers appends the seeds set aside to the live ones *)
Lemma resurrect_order : forall c, seeds (resurrect c) = seeds c ++ dead c /\ dead (resurrect c) = [] /\ known (resurrect c) = known c.
Proof. intros; repeat split. Qed.

(* a seed whose answer has a leaderless partition is asked again on every retry and stays the head of the seed
   list: the call returns nil, whatever the retry budget *)
Lemma pass_d_head : forall answer ll n c tried b r,
  seeds c = b :: r -> answer b = Answers ->
  pass_d answer ll (S n) c tried [] = (c, (if ll b then PRetry b else PAnswer (RSuccess b)), tried ++ [b], []).
Proof. intros answer ll n c tried b r E A. simpl. unfold any. rewrite E. simpl. now rewrite A. Qed.

Theorem leaderless_succeeds : forall answer ll adv attempts c tried b r,
  seeds c = b :: r -> answer b = Answers -> ll b = true ->
  exists c' tr, refresh_d answer ll adv attempts c tried [] = (c', RSuccess b, tr, []) /\
    seeds c' = b :: r /\ dead c' = dead c.
Proof.
  intros answer ll adv attempts. induction attempts as [|a IH]; intros c tried b r E A L;
    rewrite refresh_d_unfold, (pass_d_head answer ll (size c) c tried b r E A), L.
  - exists c, (tried ++ [b]). auto.
  - simpl. destruct (IH {| seeds := seeds c; dead := dead c; known := adv a |} (tried ++ [b]) b r E A L)
      as (c' & tr & H & S1 & D1).
    exists c', tr. auto.
Qed.

(* hence: whenever a call has given up and left nothing set aside — which is the case after EVERY exit that
   found nobody left to ask, past the deadline or not (previous theorem: any c' = None -> dead c' = [], and the
   resurrected seeds are then the seed list) — the next refresh asks every seed the client was ever given, and
   succeeds as soon as one of them (or a known broker) answers *)
Theorem refresh_after_give_up : forall answer1 ll adv attempts1 c tried dl c' r tr dl',
  refresh_d answer1 ll adv attempts1 c tried dl = (c', r, tr, dl') ->
  dead c' = [] ->
  forall answer2 attempts2,
  (exists b, In b (seedset c ++ known c') /\ answer2 b = Answers) ->
  (forall b, In b (seedset c ++ known c') -> answer2 b <> AuthFails) ->
  exists c'' b failed, refresh answer2 attempts2 c' [] = (c'', RSuccess b, failed ++ [b]) /\ answer2 b = Answers.
Proof.
  intros answer1 ll adv attempts1 c tried dl c' r tr dl' H D answer2 attempts2 (b0 & Hb0 & Ab0) NA.
  destruct (refresh_d_exits _ _ _ _ _ _ _ _ _ _ _ H) as [S1 _].
  assert (L : forall x, In x (live c') <-> In x (seedset c ++ known c')).
  { intro x. unfold live. rewrite !in_app_iff, <- (S1 x). unfold seedset. rewrite D, app_nil_r. reflexivity. }
  destruct (refresh_succeeds answer2 attempts2 c') as (c'' & b & failed & E & Ab & _).
  - exists b0. split; [now apply L|assumption].
  - intros b Hb. apply NA. now apply L.
  - eauto.
Qed.

(* the scenario of a timed-out pass: one seed, no known broker, the seed fails and the deadline passes meanwhile;
   the seed is back in the seed list, and a recovered seed makes the next refresh succeed *)
Example deadline_example :
  refresh_d (fun _ => Fails) no_ll (fun _ => []) 0 {| seeds := [101]; dead := []; known := [] |} [] [false; true] =
  ({| seeds := [101]; dead := []; known := [] |}, ROutOfBrokers, [101], [true]) /\
  refresh (fun _ => Answers) 0 {| seeds := [101]; dead := []; known := [] |} [] =
  ({| seeds := [101]; dead := []; known := [] |}, RSuccess 101, [101]).
Proof. split; reflexivity. Qed.
