(* C15 — correspondence: go/harness/cmd/c15corr drives the real Client against scripted MockBrokers and writes
   what it observed as [scase] (a history of cluster views and API calls with every call's result) and
   [rcase] (rounds of client creation / RefreshMetadata against candidates that answer, fail mid-request or
   are unreachable); these functions re-run the model and compare. *)
From Coq Require Import List ZArith Bool.
From SV Require Import Base.Corr C15.Model.
Import ListNotations.
Open Scope Z_scope.

Definition zz_eqb (a b : Z * Z) : bool := (fst a =? fst b) && (snd a =? snd b).
Definition obs_eqb (a b : obs) : bool :=
  match a, b with
  | OErr e, OErr e' => e =? e'
  | ONil, ONil => true
  | OList l, OList l' => list_eqb Z.eqb l l'
  | OListErr l e, OListErr l' e' => list_eqb Z.eqb l l' && (e =? e')
  | OBroker i a, OBroker i' a' => (i =? i') && (a =? a')
  | OBrokers l, OBrokers l' => list_eqb zz_eqb l l'
  | _, _ => false
  end.

Record scase := {
  sc_views : list response;         (* the cluster views used, as decoded under the request version *)
  sc_calls : list (nat * call);     (* (index of the view current at the call, call) *)
  sc_obs : list obs }.
Definition empty_view : response := {| r_brokers := []; r_ctrl := -1; r_topics := [] |}.
Definition sc_hist (c : scase) : list (response * call) :=
  map (fun ic => (nth (fst ic) (sc_views c) empty_view, snd ic)) (sc_calls c).
Definition ok_seq (c : scase) : bool := list_eqb obs_eqb (run_calls init_state (sc_hist c)) (sc_obs c).
Definition mismatches_seq := mismatches ok_seq.

(* ---- candidate iteration ---- *)
(* candidates: known broker k (1..3) listens at listener k; seed candidate 100+l is the seed object for
   listener l (a seed may be the address of a known broker). Behaviour is per listener. *)
Definition listener (b : Z) : Z := if 100 <? b then b - 100 else b.

Record round := {
  rd_fail : list Z;        (* listeners that fail in this round (closed, or the connection is dropped mid-request) *)
  rd_ll : list Z;          (* listeners whose answer contains a leaderless partition (the refresh retries) *)
  rd_ok : bool;            (* the call returned nil *)
  rd_tried : list Z        (* listeners that received a metadata request, in order *)
}.
Record rcase := {
  rc_seeds : list Z;       (* client.seedBrokers after the constructor's shuffle, as candidates 100+l *)
  rc_attempts : nat;       (* Metadata.Retry.Max *)
  rc_brokers : list Z;     (* the brokers every metadata response lists *)
  rc_unreachable : list Z; (* listeners that are closed: they fail, and no request is observed there *)
  rc_deadline : bool;      (* Metadata.Timeout is set *)
  rc_rounds : list round }.

Definition answer_of (fail : list Z) (b : Z) : outcome := if mem (listener b) fail then Fails else Answers.

(* client.brokers is a Go map: `any` meets the known brokers in some order; accept any *)
Fixpoint insert_all (x : Z) (l : list Z) : list (list Z) :=
  match l with [] => [[x]] | y :: r => (x :: l) :: map (cons y) (insert_all x r) end.
Fixpoint perms (l : list Z) : list (list Z) :=
  match l with [] => [[]] | x :: r => flat_map (insert_all x) (perms r) end.

Fixpoint run_rounds (attempts : nat) (brokers unreachable : list Z) (c : cands) (rs : list round) : bool :=
  match rs with
  | [] => true
  | r :: rest =>
    existsb (fun order =>
      let c0 := {| seeds := seeds c; dead := dead c; known := order |} in
      let '(c1, res, tr) := refresh (answer_of (rd_fail r)) attempts c0 [] in
      let seen := filter (fun l => negb (mem l unreachable)) (map listener tr) in
      list_eqb Z.eqb seen (rd_tried r) &&
      match res with
      | RSuccess b => rd_ok r && run_rounds attempts brokers unreachable {| seeds := seeds c1; dead := dead c1; known := brokers |} rest
      | ROutOfBrokers => negb (rd_ok r) && run_rounds attempts brokers unreachable c1 rest
      | RAuth _ => false
      end) (perms (known c))
  end.

Definition ok_ref (c : rcase) : bool :=
  run_rounds (rc_attempts c) (rc_brokers c) (rc_unreachable c) {| seeds := rc_seeds c; dead := []; known := [] |} (rc_rounds c).
Definition mismatches_ref := mismatches ok_ref.

(* ---- readers concurrent with refreshes ---- *)
(* the client is refreshed (full) alternately from views A and B while other goroutines read; both views are
   complete (no read misses), so every single read must equal its value in the state made from A or in the
   state made from B: a reader sees the state before or after a refresh, never a mixture *)
Record ncase := { nc_a : response; nc_b : response; nc_reads : list (call * obs) }.
Definition ok_conc (c : ncase) : bool :=
  let sa := fst (refresh_metadata init_state (nc_a c) []) in
  let sb := fst (refresh_metadata sa (nc_b c) []) in
  let sa' := fst (refresh_metadata sb (nc_a c) []) in
  forallb (fun co => obs_eqb (snd (step (nc_a c) sa (fst co))) (snd co) ||
                     obs_eqb (snd (step (nc_b c) sb (fst co))) (snd co) ||
                     obs_eqb (snd (step (nc_a c) sa' (fst co))) (snd co)) (nc_reads c).
Definition mismatches_conc := mismatches ok_conc.

(* ---- candidate iteration with Metadata.Timeout set and / or leaderless answers ---- *)
(* as [rcase], but the calls may run under a deadline: when it passes is not observable, so any moment is
   accepted (the deadline stream is k times "not yet", then "passed" for ever); without Metadata.Timeout the
   stream is empty. A leaderless answer makes the refresh retry with the advertised brokers as known brokers,
   which `any` meets in some order — a fresh one on every re-entry (Go map iteration), so one order per retry
   is chosen: [adv_choices] lists every assignment of an order to each number of retries left. *)
Definition dl_at (k : nat) : list bool := repeat false k ++ repeat true 24.
Definition dl_choices (deadline : bool) : list (list bool) := if deadline then map dl_at (seq 0 14) else [[]].

Fixpoint adv_lists (n : nat) (ps : list (list Z)) : list (list (list Z)) :=
  match n with O => [[]] | S k => flat_map (fun p => map (cons p) (adv_lists k ps)) ps end.
Definition adv_choices (attempts : nat) (brokers : list Z) : list (nat -> list Z) :=
  map (fun l a => nth a l []) (adv_lists attempts (perms brokers)).

Fixpoint run_rounds_d (deadline : bool) (attempts : nat) (brokers unreachable : list Z) (c : cands) (rs : list round) : bool :=
  match rs with
  | [] => true
  | r :: rest =>
    existsb (fun order => existsb (fun adv => existsb (fun dl =>
      let c0 := {| seeds := seeds c; dead := dead c; known := order |} in
      let '(c1, res, tr, _) := refresh_d (answer_of (rd_fail r)) (fun b => mem (listener b) (rd_ll r)) adv attempts c0 [] dl in
      let seen := filter (fun l => negb (mem l unreachable)) (map listener tr) in
      list_eqb Z.eqb seen (rd_tried r) &&
      match res with
      | RSuccess b => rd_ok r && run_rounds_d deadline attempts brokers unreachable {| seeds := seeds c1; dead := dead c1; known := brokers |} rest
      | ROutOfBrokers => negb (rd_ok r) && run_rounds_d deadline attempts brokers unreachable c1 rest
      | RAuth _ => false
      end) (dl_choices deadline)) (adv_choices attempts brokers)) (perms (known c))
  end.

Definition ok_dl (c : rcase) : bool :=
  run_rounds_d (rc_deadline c) (rc_attempts c) (rc_brokers c) (rc_unreachable c)
               {| seeds := rc_seeds c; dead := []; known := [] |} (rc_rounds c).
Definition mismatches_dl := mismatches ok_dl.
