(* C15 — the client's state after any sequence of metadata responses is the reference view: per topic what
   the newest response that spoke about the topic said; brokers and controller as the newest response said. *)
From Coq Require Import List ZArith Bool Lia Sorted Permutation.
From SV Require Import C15.Model.
Import ListNotations.
Open Scope Z_scope.

(* ------------------------------------------------------------------------------------------------ *)
(* association lists *)
Section MapFacts.
  Context {V : Type}.
  Implicit Types m : list (Z * V).

  Lemma lookup_remove : forall m k k', lookup k (remove k' m) = if k =? k' then None else lookup k m.
  Proof.
    induction m as [|[k0 v] m IH]; intros k k'; simpl; [now destruct (k =? k')|].
    destruct (Z.eqb_spec k' k0) as [->|N].
    - rewrite IH. destruct (Z.eqb_spec k k0); reflexivity.
    - simpl. rewrite IH. destruct (Z.eqb_spec k k0) as [->|]; [|reflexivity].
      destruct (Z.eqb_spec k0 k'); [congruence|reflexivity].
  Qed.

  Lemma lookup_set : forall m k k' v, lookup k (set k' v m) = if k =? k' then Some v else lookup k m.
  Proof. intros. unfold set. simpl. rewrite lookup_remove. now destruct (k =? k'). Qed.

  Lemma lookup_in_keys : forall m k, In k (map fst m) <-> lookup k m <> None.
  Proof.
    induction m as [|[k0 v] m IH]; intros k; simpl; [split; [contradiction|congruence]|].
    destruct (Z.eqb_spec k k0) as [->|N]; [split; [discriminate|auto]|].
    rewrite <- IH. split; [intros [E|H]; [congruence|assumption]|auto].
  Qed.

  (* filtering on the key *)
  Lemma lookup_filter_key : forall (p : Z -> bool) m k,
    lookup k (filter (fun b => p (fst b)) m) = if p k then lookup k m else None.
  Proof.
    intros p. induction m as [|[k0 v] m IH]; intros k; simpl; [now destruct (p k)|].
    destruct (p k0) eqn:P; simpl; rewrite IH.
    - destruct (Z.eqb_spec k k0) as [->|]; [now rewrite P|reflexivity].
    - destruct (Z.eqb_spec k k0) as [->|]; [now rewrite P|reflexivity].
  Qed.

  Lemma remove_keys : forall m k, ~ In k (map fst (remove k m)).
  Proof. intros m k H. apply lookup_in_keys in H. rewrite lookup_remove, Z.eqb_refl in H. congruence. Qed.

  Lemma remove_keys_subset : forall m k x, In x (map fst (remove k m)) -> In x (map fst m).
  Proof.
    intros m k x H. apply lookup_in_keys in H. apply lookup_in_keys. rewrite lookup_remove in H.
    destruct (x =? k); congruence.
  Qed.

  Lemma remove_nodup : forall m k, NoDup (map fst m) -> NoDup (map fst (remove k m)).
  Proof.
    induction m as [|[k0 v] m IH]; intros k N; simpl; [constructor|]. inversion N; subst.
    destruct (k =? k0); [now apply IH|]. simpl. constructor; [|now apply IH].
    intro H. apply remove_keys_subset in H. contradiction.
  Qed.

  Lemma set_nodup : forall m k v, NoDup (map fst m) -> NoDup (map fst (set k v m)).
  Proof. intros. unfold set. simpl. constructor; [apply remove_keys|now apply remove_nodup]. Qed.
End MapFacts.

(* ------------------------------------------------------------------------------------------------ *)
(* sorting *)
Lemma insert_perm : forall x l, Permutation (insert x l) (x :: l).
Proof.
  induction l as [|y l IH]; simpl; [reflexivity|]. destruct (x <=? y); [reflexivity|].
  rewrite IH. apply perm_swap.
Qed.
Lemma isort_perm : forall l, Permutation (isort l) l.
Proof. induction l; simpl; [reflexivity|]. now rewrite insert_perm, IHl. Qed.

Lemma insert_sorted : forall x l, Sorted Z.le l -> Sorted Z.le (insert x l).
Proof.
  induction l as [|y l IH]; intros S; simpl; [repeat constructor|].
  destruct (Z.leb_spec x y).
  - constructor; [assumption|constructor; assumption].
  - inversion S as [|? ? Sl Hd]; subst. constructor; [now apply IH|].
    destruct l as [|z l]; simpl; [constructor; lia|].
    destruct (Z.leb_spec x z); constructor; [lia|]. now inversion Hd.
Qed.
Lemma isort_sorted : forall l, Sorted Z.le (isort l).
Proof. induction l; simpl; [constructor|now apply insert_sorted]. Qed.

Lemma isort_in : forall l x, In x (isort l) <-> In x l.
Proof. intros; split; apply Permutation_in; [apply isort_perm|symmetry; apply isort_perm]. Qed.
Lemma isort_nodup : forall l, NoDup l -> NoDup (isort l).
Proof. intros l N. eapply Permutation_NoDup; [symmetry; apply isort_perm|assumption]. Qed.

(* ------------------------------------------------------------------------------------------------ *)
(* what one response says *)

(* the last entry for a key wins, for brokers, topics and partitions alike *)
Fixpoint last_addr (id : Z) (bs : list (Z * Z)) : option Z :=
  match bs with
  | [] => None
  | (i, a) :: r => match last_addr id r with Some x => Some x | None => if id =? i then Some a else None end
  end.
Fixpoint last_entry (t : Z) (ts : list tmeta) : option tmeta :=
  match ts with
  | [] => None
  | x :: r => match last_entry t r with Some y => Some y | None => if t =? t_name x then Some x else None end
  end.
Fixpoint last_part (p : Z) (ps : list pmeta) : option pmeta :=
  match ps with
  | [] => None
  | x :: r => match last_part p r with Some y => Some y | None => if p =? p_id x then Some x else None end
  end.

(* what the client keeps of a topic entry: its partitions if the error class stores, nothing otherwise *)
Definition entry_result (e : tmeta) : option (list (Z * pmeta)) :=
  if stores (t_err e) then Some (parts_map (t_parts e) []) else None.

Lemma parts_map_lookup : forall ps m p,
  lookup p (parts_map ps m) = match last_part p ps with Some q => Some q | None => lookup p m end.
Proof.
  induction ps as [|x ps IH]; intros m p; simpl; [reflexivity|].
  rewrite IH. destruct (last_part p ps); [reflexivity|]. rewrite lookup_set. now destruct (p =? p_id x).
Qed.

Lemma parts_map_nodup : forall ps m, NoDup (map fst m) -> NoDup (map fst (parts_map ps m)).
Proof. induction ps; intros m N; simpl; [assumption|]. apply IHps. now apply set_nodup. Qed.

(* ---- brokers ---- *)
Lemma register_all_lookup : forall bs m id,
  lookup id (register_all bs m) = match last_addr id bs with Some a => Some a | None => lookup id m end.
Proof.
  induction bs as [|[i a] bs IH]; intros m id; simpl; [reflexivity|].
  rewrite IH. destruct (last_addr id bs); [reflexivity|].
  destruct (lookup i m) as [a'|] eqn:L.
  - destruct (Z.eqb_spec a a') as [->|N].
    + destruct (Z.eqb_spec id i) as [->|]; [assumption|reflexivity].
    + rewrite lookup_set. now destruct (id =? i).
  - rewrite lookup_set. now destruct (id =? i).
Qed.

Lemma last_addr_mem : forall bs id, mem id (map fst bs) = match last_addr id bs with Some _ => true | None => false end.
Proof.
  induction bs as [|[i a] bs IH]; intros id; simpl; [reflexivity|].
  unfold mem in *. simpl. rewrite IH. destruct (last_addr id bs); [apply orb_true_r|].
  rewrite orb_false_r. now destruct (id =? i).
Qed.

(* broker reconciliation: afterwards the client knows exactly the brokers of the response, at the addresses
   the response gives (new ones registered, re-addressed ones replaced, absent ones dropped) *)
Lemma update_brokers_lookup : forall bs m id, lookup id (update_brokers bs m) = last_addr id bs.
Proof.
  intros. unfold update_brokers.
  rewrite (lookup_filter_key (fun k => mem k (map fst bs))), last_addr_mem, register_all_lookup.
  destruct (last_addr id bs); reflexivity.
Qed.

(* ---- topics ---- *)
Definition st_of (acc : cstate * bool * option Z) : cstate := fst (fst acc).

Lemma topic_state_metadata : forall s x t,
  lookup t (metadata (topic_state s x)) = if t =? t_name x then entry_result x else lookup t (metadata s).
Proof.
  intros. unfold topic_state, entry_result. cbn [metadata]. destruct (stores (t_err x)).
  - rewrite lookup_set, lookup_remove. now destruct (t =? t_name x).
  - rewrite lookup_remove. now destruct (t =? t_name x).
Qed.

Definition cache_of (pm : list (Z * pmeta)) : list Z * list Z := (all_ids pm, writable_ids pm).

Lemma topic_state_cache : forall s x t,
  lookup t (cache (topic_state s x)) = if t =? t_name x then option_map cache_of (entry_result x) else lookup t (cache s).
Proof.
  intros. unfold topic_state, entry_result. cbn [cache]. destruct (stores (t_err x)); cbn [option_map].
  - rewrite lookup_set, lookup_remove. now destruct (t =? t_name x).
  - rewrite lookup_remove. now destruct (t =? t_name x).
Qed.

Lemma fold_topics_state : forall ts acc,
  st_of (fold_left update_topic ts acc) = fold_left topic_state ts (st_of acc).
Proof. induction ts as [|x ts IH]; intros acc; simpl; [reflexivity|]. now rewrite IH. Qed.

Lemma fold_topics_metadata : forall ts s t,
  lookup t (metadata (fold_left topic_state ts s)) =
  match last_entry t ts with Some e => entry_result e | None => lookup t (metadata s) end.
Proof.
  induction ts as [|x ts IH]; intros s t; simpl; [reflexivity|].
  rewrite IH. destruct (last_entry t ts); [reflexivity|]. rewrite topic_state_metadata.
  now destruct (t =? t_name x).
Qed.

Lemma fold_topics_cache : forall ts s t,
  lookup t (cache (fold_left topic_state ts s)) =
  match last_entry t ts with Some e => option_map cache_of (entry_result e) | None => lookup t (cache s) end.
Proof.
  induction ts as [|x ts IH]; intros s t; simpl; [reflexivity|].
  rewrite IH. destruct (last_entry t ts); [reflexivity|]. rewrite topic_state_cache.
  now destruct (t =? t_name x).
Qed.

Lemma fold_topics_brokers : forall ts s,
  brokers (fold_left topic_state ts s) = brokers s /\ controller (fold_left topic_state ts s) = controller s.
Proof. induction ts as [|x ts IH]; intros s; simpl; [auto|]. destruct (IH (topic_state s x)) as [-> ->]. auto. Qed.

(* ---- one response ---- *)
Definition apply (s : cstate) (rb : response * bool) : cstate := st_of (update_metadata s (fst rb) (snd rb)).

(* what a single response says about topic t: Some (Some e) an entry, Some None "a full response without t" *)
Definition says (t : Z) (rb : response * bool) : option (option tmeta) :=
  match last_entry t (r_topics (fst rb)) with
  | Some e => Some (Some e)
  | None => if snd rb then Some None else None
  end.

Lemma apply_metadata : forall s rb t,
  lookup t (metadata (apply s rb)) =
  match says t rb with Some (Some e) => entry_result e | Some None => None | None => lookup t (metadata s) end.
Proof.
  intros s [r full] t. unfold apply, update_metadata, says. simpl fst; simpl snd.
  rewrite fold_topics_state, fold_topics_metadata. unfold st_of. simpl.
  destruct (last_entry t (r_topics r)); [reflexivity|]. now destruct full.
Qed.

Lemma apply_cache : forall s rb t,
  lookup t (cache (apply s rb)) =
  match says t rb with Some (Some e) => option_map cache_of (entry_result e) | Some None => None | None => lookup t (cache s) end.
Proof.
  intros s [r full] t. unfold apply, update_metadata, says. simpl fst; simpl snd.
  rewrite fold_topics_state, fold_topics_cache. unfold st_of. simpl.
  destruct (last_entry t (r_topics r)); [reflexivity|]. now destruct full.
Qed.

Lemma apply_brokers : forall s rb id, lookup id (brokers (apply s rb)) = last_addr id (r_brokers (fst rb)).
Proof.
  intros s [r full] id. unfold apply, update_metadata. simpl fst; simpl snd.
  rewrite fold_topics_state. unfold st_of. simpl.
  destruct (fold_topics_brokers (r_topics r)
    {| brokers := update_brokers (r_brokers r) (brokers s); controller := r_ctrl r;
       metadata := if full then [] else metadata s; mtopics := if full then [] else mtopics s;
       cache := if full then [] else cache s |}) as [-> _].
  simpl. apply update_brokers_lookup.
Qed.

Lemma apply_controller : forall s rb, controller (apply s rb) = r_ctrl (fst rb).
Proof.
  intros s [r full]. unfold apply, update_metadata. simpl fst; simpl snd.
  rewrite fold_topics_state. unfold st_of. simpl.
  now destruct (fold_topics_brokers (r_topics r)
    {| brokers := update_brokers (r_brokers r) (brokers s); controller := r_ctrl r;
       metadata := if full then [] else metadata s; mtopics := if full then [] else mtopics s;
       cache := if full then [] else cache s |}) as [_ ->].
Qed.

(* ------------------------------------------------------------------------------------------------ *)
(* histories *)
Definition hist := list (response * bool).    (* responses oldest first, with "was a full refresh" *)
Definition fold_hist (h : hist) : cstate := fold_left apply h init_state.

(* the newest response that spoke about t *)
Fixpoint newest (t : Z) (h : hist) : option (option tmeta) :=
  match h with
  | [] => None
  | rb :: rest => match newest t rest with Some x => Some x | None => says t rb end
  end.

(* the reference view of topic t: the partitions the newest such response gave, if its error class stores *)
Definition ref_parts (t : Z) (h : hist) : option (list (Z * pmeta)) :=
  match newest t h with Some (Some e) => entry_result e | _ => None end.

Lemma fold_metadata_gen : forall h s t,
  lookup t (metadata (fold_left apply h s)) =
  match newest t h with Some (Some e) => entry_result e | Some None => None | None => lookup t (metadata s) end.
Proof.
  induction h as [|rb h IH]; intros s t; simpl; [reflexivity|].
  rewrite IH. destruct (newest t h) as [[e|]|]; try reflexivity. apply apply_metadata.
Qed.

Lemma fold_cache_gen : forall h s t,
  lookup t (cache (fold_left apply h s)) =
  match newest t h with Some (Some e) => option_map cache_of (entry_result e) | Some None => None | None => lookup t (cache s) end.
Proof.
  induction h as [|rb h IH]; intros s t; simpl; [reflexivity|].
  rewrite IH. destruct (newest t h) as [[e|]|]; try reflexivity. apply apply_cache.
Qed.

Theorem fold_metadata : forall h t, lookup t (metadata (fold_hist h)) = ref_parts t h.
Proof. intros. unfold fold_hist, ref_parts. rewrite fold_metadata_gen. now destruct (newest t h) as [[e|]|]. Qed.

Theorem fold_cache : forall h t, lookup t (cache (fold_hist h)) = option_map cache_of (ref_parts t h).
Proof. intros. unfold fold_hist, ref_parts. rewrite fold_cache_gen. now destruct (newest t h) as [[e|]|]. Qed.

Lemma fold_hist_snoc : forall h rb, fold_hist (h ++ [rb]) = apply (fold_hist h) rb.
Proof. intros. unfold fold_hist. now rewrite fold_left_app. Qed.

Theorem fold_brokers : forall h rb id, lookup id (brokers (fold_hist (h ++ [rb]))) = last_addr id (r_brokers (fst rb)).
Proof. intros. rewrite fold_hist_snoc. apply apply_brokers. Qed.

Theorem fold_controller : forall h rb, controller (fold_hist (h ++ [rb])) = r_ctrl (fst rb).
Proof. intros. rewrite fold_hist_snoc. apply apply_controller. Qed.

(* ------------------------------------------------------------------------------------------------ *)
(* the reads *)

(* sorted id lists of a stored topic *)
Lemma all_ids_spec : forall ps,
  let pm := parts_map ps [] in
  Sorted Z.le (all_ids pm) /\ NoDup (all_ids pm) /\
  forall x, In x (all_ids pm) <-> exists q, last_part x ps = Some q.
Proof.
  intros ps pm. unfold all_ids. split; [apply isort_sorted|]. split.
  - apply isort_nodup. apply parts_map_nodup. constructor.
  - intro x. rewrite isort_in, lookup_in_keys. unfold pm. rewrite parts_map_lookup. simpl.
    destruct (last_part x ps); split; eauto; try congruence. intros [q E]; discriminate.
Qed.

Lemma filter_keys_nodup : forall {V} (f : Z * V -> bool) (m : list (Z * V)),
  NoDup (map fst m) -> NoDup (map fst (filter f m)).
Proof.
  induction m as [|b m IH]; intros N; simpl; [constructor|]. inversion N; subst.
  destruct (f b); simpl; [|now apply IH]. constructor; [|now apply IH].
  intro H. apply H1. apply in_map_iff in H as (y & E & Hy). apply filter_In in Hy as [Hy _].
  apply in_map_iff. eauto.
Qed.

Lemma lookup_in_pair : forall {V} (m : list (Z * V)) k v, NoDup (map fst m) -> (In (k, v) m <-> lookup k m = Some v).
Proof.
  induction m as [|[k0 v0] m IH]; intros k v N; simpl; [split; [contradiction|discriminate]|].
  inversion N; subst. destruct (Z.eqb_spec k k0) as [->|NE].
  - split; [intros [[= ->]|H]; [reflexivity|]|intros [= ->]; now left].
    exfalso. apply H1. apply in_map_iff. exists (k0, v). auto.
  - rewrite <- IH by assumption. split; [intros [[= -> ->]|H]; [congruence|assumption]|auto].
Qed.

Lemma writable_ids_spec : forall ps,
  let pm := parts_map ps [] in
  Sorted Z.le (writable_ids pm) /\ NoDup (writable_ids pm) /\
  forall x, In x (writable_ids pm) <-> exists q, last_part x ps = Some q /\ p_err q <> e_leader_not_available.
Proof.
  intros ps pm. unfold writable_ids. split; [apply isort_sorted|].
  assert (N : NoDup (map fst pm)) by (apply parts_map_nodup; constructor).
  split; [apply isort_nodup; now apply filter_keys_nodup|].
  intro x. rewrite isort_in, in_map_iff. split.
  - intros ([k q] & <- & H). apply filter_In in H as [H E]. simpl in *.
    apply (lookup_in_pair pm k q N) in H. unfold pm in H. rewrite parts_map_lookup in H. simpl in H.
    exists q. destruct (last_part k ps); [|discriminate]. injection H as ->. split; [reflexivity|].
    intro C. rewrite C in E. discriminate.
  - intros (q & L & E). exists (x, q). split; [reflexivity|]. apply filter_In. split.
    + apply (lookup_in_pair pm x q N). unfold pm. rewrite parts_map_lookup, L. reflexivity.
    + simpl. destruct (Z.eqb_spec (p_err q) e_leader_not_available); [contradiction|reflexivity].
Qed.

(* the reference view of a partition: its last entry in the newest response for the topic *)
Definition ref_part (t p : Z) (h : hist) : option pmeta :=
  match newest t h with
  | Some (Some e) => if stores (t_err e) then last_part p (t_parts e) else None
  | _ => None
  end.

Lemma ref_part_lookup : forall t p h,
  ref_part t p h = match ref_parts t h with Some pm => lookup p pm | None => None end.
Proof.
  intros. unfold ref_part, ref_parts, entry_result. destruct (newest t h) as [[e|]|]; try reflexivity.
  destruct (stores (t_err e)); [|reflexivity]. rewrite parts_map_lookup. now destruct (last_part p (t_parts e)).
Qed.

Theorem read_meta : forall h t p, cached_meta (fold_hist h) t p = ref_part t p h.
Proof. intros. unfold cached_meta. rewrite fold_metadata, ref_part_lookup. reflexivity. Qed.

Theorem read_all : forall h t, cached_all (fold_hist h) t = option_map all_ids (ref_parts t h).
Proof. intros. unfold cached_all. rewrite fold_cache. now destruct (ref_parts t h). Qed.

Theorem read_writable : forall h t, cached_writable (fold_hist h) t = option_map writable_ids (ref_parts t h).
Proof. intros. unfold cached_writable. rewrite fold_cache. now destruct (ref_parts t h). Qed.

(* Leader: the partition's leader as the newest response for the topic named it, resolved against the brokers
   of the newest response of all; not available when flagged so or when that broker is not listed there *)
Theorem read_leader : forall h rb t p,
  cached_leader (fold_hist (h ++ [rb])) t p =
  match ref_part t p (h ++ [rb]) with
  | None => Miss e_unknown_topic_or_partition
  | Some q =>
    if p_err q =? e_leader_not_available then Miss e_leader_not_available else
    match last_addr (p_leader q) (r_brokers (fst rb)) with
    | None => Miss e_leader_not_available
    | Some a => Hit (p_leader q, a)
    end
  end.
Proof.
  intros. unfold cached_leader. rewrite read_meta. destruct (ref_part t p (h ++ [rb])) as [q|]; [|reflexivity].
  destruct (p_err q =? e_leader_not_available); [reflexivity|]. now rewrite fold_brokers.
Qed.

Theorem read_brokers : forall h rb,
  Sorted Z.le (brokers_view (fold_hist (h ++ [rb]))) /\
  (forall id, In id (brokers_view (fold_hist (h ++ [rb]))) <-> last_addr id (r_brokers (fst rb)) <> None) /\
  (forall id, broker_addr (fold_hist (h ++ [rb])) id = last_addr id (r_brokers (fst rb))).
Proof.
  intros. unfold brokers_view, broker_addr. split; [apply isort_sorted|]. split.
  - intro id. now rewrite isort_in, lookup_in_keys, fold_brokers.
  - intro id. apply fold_brokers.
Qed.

Theorem read_topics : forall h,
  Sorted Z.le (topics_view (fold_hist h)) /\
  forall t, In t (topics_view (fold_hist h)) <-> ref_parts t h <> None.
Proof.
  intros. unfold topics_view. split; [apply isort_sorted|]. intro t.
  now rewrite isort_in, lookup_in_keys, fold_metadata.
Qed.

Theorem read_controller : forall h rb,
  cached_controller (fold_hist (h ++ [rb])) =
  match last_addr (r_ctrl (fst rb)) (r_brokers (fst rb)) with Some a => Some (r_ctrl (fst rb), a) | None => None end.
Proof. intros. unfold cached_controller. now rewrite fold_controller, fold_brokers. Qed.

(* error classes: which topic errors forget, keep, ask for a retry, are reported *)
Theorem error_classes : forall e,
  (entry_result e <> None <-> t_err e = 0 \/ t_err e = e_leader_not_available) /\
  (topic_retry (t_err e) = true <-> t_err e = e_unknown_topic_or_partition \/ t_err e = e_leader_not_available) /\
  (topic_reports (t_err e) = true <-> entry_result e = None).
Proof.
  intro e. unfold entry_result, topic_reports, stores, topic_retry.
  destruct (Z.eqb_spec (t_err e) 0) as [->|N0]; simpl.
  - repeat split; auto; try discriminate; try (intros [H|H]; discriminate).
  - destruct (Z.eqb_spec (t_err e) e_leader_not_available) as [E|N5]; simpl.
    + rewrite E. repeat split; auto; try discriminate.
    + destruct (Z.eqb_spec (t_err e) e_unknown_topic_or_partition); simpl;
        repeat split; auto; try congruence; try (intros [H|H]; congruence); try discriminate.
Qed.

(* the flags one response produces: retry iff some topic is unknown / leaderless or a stored partition is
   leaderless; the error reported is that of the last topic that had to be forgotten *)
Fixpoint last_reported (ts : list tmeta) : option Z :=
  match ts with
  | [] => None
  | x :: r => match last_reported r with Some e => Some e | None => if topic_reports (t_err x) then Some (t_err x) else None end
  end.

Lemma fold_flags_err : forall ts acc,
  snd (fold_left update_topic ts acc) = match last_reported ts with Some e => Some e | None => snd acc end.
Proof.
  induction ts as [|x ts IH]; intros acc; simpl; [reflexivity|]. rewrite IH.
  destruct (last_reported ts); [reflexivity|]. unfold update_topic, topic_flags, topic_reports. simpl.
  now destruct (stores (t_err x)).
Qed.

Theorem update_reports : forall s r full, snd (update_metadata s r full) = last_reported (r_topics r).
Proof. intros. unfold update_metadata. rewrite fold_flags_err. simpl. now destruct (last_reported _). Qed.

(* Examples: a three-response history with a per-topic refresh, a re-addressed broker and a forgotten topic *)
Example ex_p (id leader err : Z) : pmeta :=
  {| p_id := id; p_leader := leader; p_replicas := [leader]; p_isr := [leader]; p_offline := []; p_err := err |}.
Example ex_hist : hist :=
  [ ({| r_brokers := [(1, 10); (2, 20)]; r_ctrl := 1;
        r_topics := [{| t_name := 0; t_err := 0; t_parts := [ex_p 1 2 0; ex_p 0 1 0] |};
                     {| t_name := 1; t_err := 0; t_parts := [ex_p 0 2 0] |}] |}, true);
    ({| r_brokers := [(1, 10); (2, 21)]; r_ctrl := 2;
        r_topics := [{| t_name := 0; t_err := 5; t_parts := [ex_p 2 1 0; ex_p 0 (-1) 5; ex_p 1 3 0] |}] |}, false);
    ({| r_brokers := [(2, 21)]; r_ctrl := 2;
        r_topics := [{| t_name := 1; t_err := 17; t_parts := [] |}] |}, false) ].

Example reference_view_example :
  cached_all (fold_hist ex_hist) 0 = Some [0; 1; 2] /\
  cached_writable (fold_hist ex_hist) 0 = Some [1; 2] /\
  cached_leader (fold_hist ex_hist) 0 2 = Miss e_leader_not_available /\   (* broker 1 was dropped by the newest response *)
  cached_leader (fold_hist ex_hist) 0 1 = Miss e_leader_not_available /\   (* broker 3 was never listed *)
  cached_all (fold_hist ex_hist) 1 = None /\                                (* INVALID_TOPIC: forgotten *)
  brokers (fold_hist ex_hist) = [(2, 21)] /\
  ref_parts 1 ex_hist = None /\ newest 0 ex_hist <> None.
Proof. repeat split; try reflexivity. discriminate. Qed.

(* combined statements exported by Properties/C15.v *)
Theorem reference_view : forall h t,
  cached_all (fold_hist h) t = option_map all_ids (ref_parts t h) /\
  cached_writable (fold_hist h) t = option_map writable_ids (ref_parts t h) /\
  forall p, cached_meta (fold_hist h) t p = ref_part t p h.
Proof. intros h t. split; [apply read_all|split; [apply read_writable|intro p; apply read_meta]]. Qed.

Theorem partitions_sorted_exact : forall ps,
  let pm := parts_map ps [] in
  (Sorted Z.le (all_ids pm) /\ NoDup (all_ids pm) /\
   forall x, In x (all_ids pm) <-> exists q, last_part x ps = Some q) /\
  (Sorted Z.le (writable_ids pm) /\ NoDup (writable_ids pm) /\
   forall x, In x (writable_ids pm) <-> exists q, last_part x ps = Some q /\ p_err q <> e_leader_not_available).
Proof. intros ps pm. split; [apply all_ids_spec|apply writable_ids_spec]. Qed.
