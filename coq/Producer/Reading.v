(* Producer proofs, part 12: a broker worker that stopped reading its input has an empty, closed input.
   (With Liveness.v: every non-empty queue has an owner that reads it, now or after at most two flushes.) *)
From Coq Require Import List ZArith Bool Arith Lia.
From SV Require Import Producer.Msg Producer.Actors Producer.Compose Producer.Weights Producer.Local Producer.Global
                       Producer.Shape Producer.Conservation Producer.Shutdown Producer.Markers Producer.Liveness.
Import ListNotations.
Open Scope Z_scope.

(* ---------------------------------------------------------------- no actor names a broker worker's input directly *)

Definition nodb (l : list effect) : bool := forallb (fun e => match e with ESend (DBp _) _ => false | _ => true end) l.
Lemma nodb_app a b : nodb (a ++ b) = nodb a && nodb b.
Proof. apply forallb_app. Qed.

Lemma nd_retry_msgs c l e : nodb (retry_msgs c l e) = true.
Proof.
  unfold retry_msgs. induction l as [|m l IH]; [reflexivity|]. cbn [map nodb forallb]. fold (nodb (map (fun m0 => retry_msg c m0 e) l)).
  rewrite IH. unfold retry_msg. destruct (c_retry_max c <=? m_retries m)%nat; reflexivity.
Qed.
Lemma nd_retry_msg c m e : nodb [retry_msg c m e] = true.
Proof. unfold retry_msg. destruct (c_retry_max c <=? m_retries m)%nat; reflexivity. Qed.
Lemma nd_return_errors l e : nodb (return_errors l e) = true.
Proof. unfold return_errors. induction l; simpl; auto. Qed.
Lemma nd_successes l b : nodb (successes l b) = true.
Proof. revert b; induction l; intros; simpl; auto. Qed.
Lemma nd_all_retry c ps e : nodb (all_retry c ps e) = true.
Proof. induction ps as [|[k l] r IH]; [reflexivity|]. cbn [all_retry]. rewrite nodb_app, nd_retry_msgs, IH. reflexivity. Qed.
Lemma nd_all_errors ps e : nodb (all_errors ps e) = true.
Proof. induction ps as [|[k l] r IH]; [reflexivity|]. cbn [all_errors]. rewrite nodb_app, nd_return_errors, IH. reflexivity. Qed.

Lemma nd_apply_ics id k ics pan sz h : nodb (snd (apply_ics id k ics pan sz h)) = true.
Proof.
  revert k pan sz h. induction ics as [|ic r IH]; intros; [reflexivity|]. cbn [apply_ics].
  match goal with |- context [apply_ics id (S k) r ?a ?b ?d] => specialize (IH (S k) a b d); destruct (apply_ics id (S k) r a b d) as [res effs] end.
  cbn [snd] in *. cbn [nodb forallb]. exact IH.
Qed.
Lemma nd_disp c d m : nodb (snd (disp_step c d m)) = true.
Proof.
  unfold disp_step. destruct (is_shut m); [reflexivity|]. destruct (fresh_pass m && d_shut d); [reflexivity|].
  assert (P : nodb (if fresh_pass m then [EAccept m] else []) = true) by (destruct (fresh_pass m); reflexivity).
  set (doic := if c_fix_ic c then fresh_pass m && is_data m else true). destruct doic.
  - pose proof (nd_apply_ics (m_id m) 0%nat (c_ics c) (m_ipanic m) (m_size m) (m_hdr m)) as H1.
    destruct (apply_ics _ _ _ _ _ _) as [[sz h] ics]. cbn [snd] in *.
    destruct (negb (c_v2 c) && h); [|destruct (c_max_msg_bytes c <? sz)]; cbn [snd]; rewrite !nodb_app, P, H1; reflexivity.
  - destruct (negb (c_v2 c) && m_hdr m); [|destruct (c_max_msg_bytes c <? m_size m)]; cbn [snd]; rewrite !nodb_app, P; reflexivity.
Qed.
Lemma nd_tp m : nodb (tp_step m) = true.
Proof. unfold tp_step. destruct (fresh_pass m); [destruct (0 <=? m_pres m)|]; reflexivity. Qed.

Lemma nd_do_add c st m : nodb (snd (fst (do_add c st m))) = true.
Proof. unfold do_add. destruct (m_encfail m); [reflexivity|]. match goal with |- context [if ?b then _ else _] => destruct b end; reflexivity. Qed.
Lemma nd_after_over c st m : nodb (snd (fst (after_over c st m))) = true.
Proof. unfold after_over. destruct (c_idem c && negb (s_epoch (b_buf st) =? m_epoch m)); [reflexivity|apply nd_do_add]. Qed.
Lemma nd_recv_data c st m : nodb (snd (fst (recv_data c st m))) = true.
Proof. unfold recv_data. destruct (would_overflow c (b_buf st) m); [reflexivity|apply nd_after_over]. Qed.
Lemma nd_hs_phase1 c b r ps : nodb (hs_phase1 c b r ps) = true.
Proof.
  induction ps as [|[k l] rest IH]; [reflexivity|]. cbn [hs_phase1]. rewrite nodb_app, IH, andb_true_r.
  destruct r as [e enc| |bl]; [reflexivity|apply nd_successes|].
  destruct (block_lookup k bl) as [[e off]|]; [|apply nd_return_errors].
  destruct (e =? 0); [apply nd_successes|]. destruct (e =? E_DUPLICATE); [apply nd_successes|].
  destruct (retriable e); destruct (c_retry_max c =? 0)%nat; cbn [app nodb forallb]; rewrite ?nd_return_errors; try reflexivity;
    fold (nodb (return_errors l e)); rewrite nd_return_errors; reflexivity.
Qed.
Lemma nd_hs_phase2 c bl : forall ps cur buf, nodb (snd (hs_phase2 c bl ps cur buf)) = true.
Proof.
  induction ps as [|[k l] r IH]; intros; [reflexivity|]. cbn [hs_phase2].
  destruct (block_lookup k bl) as [[e off]|]; [|apply IH]. destruct (retriable e); [|apply IH].
  specialize (IH (cur_set k e cur) (part_drop k buf)).
  destruct (hs_phase2 c bl r (cur_set k e cur) (part_drop k buf)) as [[cur' buf'] effs']. cbn [snd] in *.
  rewrite !nodb_app, IH, nd_retry_msgs. destruct (c_idem c); [reflexivity|]. rewrite nd_retry_msgs. reflexivity.
Qed.
Lemma nd_handle_response c ep st sent r : nodb (snd (handle_response c ep st sent r)) = true.
Proof.
  unfold handle_response.
  assert (HX : forall X : bp * list effect, nodb (snd X) = true ->
     nodb (snd (let '(st1, effs) := X in if set_empty (b_buf st1) then (rollover st1 (ep + bumps effs), effs) else (st1, effs))) = true).
  { intros [st1 effs] H. destruct (set_empty (b_buf st1)); exact H. }
  apply HX. destruct r as [e [|]| |bl]; cbn [snd].
  - apply nd_all_errors.
  - cbn [nodb forallb]. fold (nodb (all_retry c (s_parts sent) e ++ all_retry c (s_parts (b_buf st)) e)).
    rewrite nodb_app, !nd_all_retry. reflexivity.
  - apply nd_hs_phase1.
  - destruct (c_retry_max c =? 0)%nat; [apply nd_hs_phase1|].
    pose proof (nd_hs_phase2 c bl (s_parts sent) (b_cur st) (s_parts (b_buf st))) as H2.
    destruct (hs_phase2 c bl (s_parts sent) (b_cur st) (s_parts (b_buf st))) as [[cur buf] e2]. cbn [snd] in *.
    rewrite nodb_app, nd_hs_phase1, H2. reflexivity.
Qed.
Lemma nd_bp c ep st i : nodb (snd (bp_step c ep st i)) = true.
Proof.
  unfold bp_step.
  assert (HX : nodb (snd (fst (bp_core c ep st i))) = true); [|destruct (bp_core c ep st i) as [[st' effs] upd]; exact HX].
  unfold bp_core. destruct i as [m| | | |sent r].
  - destruct (b_mode st); try reflexivity. destruct (b_wait st); try reflexivity.
    destruct (is_syn m); [reflexivity|]. destruct (needs_retry st m); [apply nd_retry_msg|]. destruct (is_fin m); [apply nd_retry_msg|apply nd_recv_data].
  - destruct (b_mode st), (b_wait st); reflexivity.
  - destruct (b_timer st && flush_poll st); reflexivity.
  - destruct (flush_enabled st); [|reflexivity]. destruct (b_wait st) as [|m|m]; [reflexivity| |].
    + pose proof (nd_after_over c (with_wait (rollover st ep) WNone) m) as H.
      destruct (after_over c (with_wait (rollover st ep) WNone) m) as [[st2 e2] u]. cbn [fst snd] in *. exact H.
    + pose proof (nd_do_add c (with_wait (rollover st ep) WNone) m) as H.
      destruct (do_add c (with_wait (rollover st ep) WNone) m) as [[st2 e2] u]. cbn [fst snd] in *. exact H.
  - pose proof (nd_handle_response c ep st sent r) as H.
    destruct (handle_response c ep st sent r) as [st1 effs]. cbn [snd] in H.
    destruct (b_wait st1) as [|m|m]; [exact H| |].
    + destruct (needs_retry st1 m); [cbn [fst snd]; rewrite nodb_app, H, nd_retry_msg; reflexivity|].
      destruct (would_overflow c (b_buf st1) m); [exact H|].
      pose proof (nd_after_over c (with_wait st1 WNone) m) as H2.
      destruct (after_over c (with_wait st1 WNone) m) as [[st2 e2] u]. cbn [fst snd] in *. rewrite nodb_app, H, H2. reflexivity.
    + destruct (needs_retry st1 m); [cbn [fst snd]; rewrite nodb_app, H, nd_retry_msg; reflexivity|exact H].
Qed.
Lemma nd_rb c ep k ms e l : nodb (rb_step c ep k ms e l) = true.
Proof.
  unfold rb_step. destruct (first_exhausted c ms); [destruct (c_fix_rb c); [apply nd_return_errors|reflexivity]|].
  destruct l; [reflexivity|apply nd_return_errors].
Qed.

Lemma ndp_flush_sends c t p : forall buf sq ep, nodb (fst (flush_sends c t p sq ep buf)) = true.
Proof.
  induction buf as [|m r IH]; intros; [reflexivity|]. cbn [flush_sends].
  destruct (c_idem c && fresh_pass m && is_data m && negb (m_hasseq m)).
  - specialize (IH (sq + 1) ep). destruct (flush_sends c t p (sq + 1) ep r) as [e sq']. cbn [fst] in *. cbn [nodb forallb]. exact IH.
  - specialize (IH sq ep). destruct (flush_sends c t p sq ep r) as [e sq']. cbn [fst] in *. cbn [nodb forallb]. exact IH.
Qed.
Lemma ndp_flush c t p : forall h hasbp leader lv stamp ls, nodb (snd (flush c t p h hasbp leader lv stamp ls)) = true.
Proof.
  induction h as [|h' IH]; intros; [reflexivity|]. cbn [flush].
  pose proof (ndp_flush_sends c t p (l_buf (get_level h' lv)) (fst stamp) (snd stamp)) as FS.
  destruct (flush_sends c t p (fst stamp) (snd stamp) (l_buf (get_level h' lv))) as [fe sq']. cbn [fst] in FS.
  destruct hasbp.
  - destruct (l_chaser (get_level h' lv) || (h' =? 0)%nat); cbn [snd]; [exact FS|].
    specialize (IH true leader (set_buf h' [] lv) (sq', snd stamp) ls). destruct (flush c t p h' true leader _ _ ls) as [res e2].
    cbn [snd] in *. rewrite nodb_app, FS, IH. reflexivity.
  - destruct (next_lres ls) as [[b|e] r].
    + destruct (l_chaser (get_level h' lv) || (h' =? 0)%nat); cbn [snd]; [rewrite nodb_app, FS; reflexivity|].
      specialize (IH true b (set_buf h' [] lv) (sq', snd stamp) r). destruct (flush c t p h' true b _ _ r) as [res e2].
      cbn [snd] in *. rewrite !nodb_app, FS, IH. reflexivity.
    + destruct (l_chaser (get_level h' lv) || (h' =? 0)%nat); cbn [snd]; [apply nd_return_errors|].
      match goal with |- context [flush c t p h' false leader (set_buf h' [] lv) ?sx r] => specialize (IH false leader (set_buf h' [] lv) sx r) end. destruct (flush c t p h' false leader _ _ r) as [res e2].
      cbn [snd] in *. rewrite nodb_app, nd_return_errors, IH. reflexivity.
Qed.
Lemma ndp_pp_forward c t p st m stamp ls pre : nodb pre = true -> nodb (snd (pp_forward c t p st m stamp ls pre)) = true.
Proof.
  intros Hp. unfold pp_forward. destruct (p_has_bp st).
  - destruct (c_idem c && fresh_pass m && is_data m); cbn [snd]; rewrite !nodb_app, Hp; reflexivity.
  - destruct (next_lres ls) as [[b|e] r].
    + destruct (c_idem c && fresh_pass m && is_data m); cbn [snd]; rewrite !nodb_app, Hp; reflexivity.
    + cbn [snd]. rewrite nodb_app, Hp. reflexivity.
Qed.
Lemma ndp_pp c t p st m ab stamp ls : nodb (snd (pp_step c t p st m ab stamp ls)) = true.
Proof.
  unfold pp_step.
  set (e1 := if p_has_bp st && ab then [EUnref] else []).
  assert (He1 : nodb e1 = true) by (subst e1; destruct (p_has_bp st && ab); reflexivity).
  set (st1 := if p_has_bp st && ab then _ else st).
  destruct (p_hwm st1 <? m_retries m)%nat.
  - assert (HG : match pp_guard c t p st1 ls with inl (stg, eg, ls1) => nodb eg = true | inr _ => True end).
    { unfold pp_guard. destruct (p_has_bp st1); [reflexivity|]. destruct (next_lres ls) as [[b|e] r]; [reflexivity|exact I]. }
    destruct (pp_guard c t p st1 ls) as [[[stg eg] ls1]|e].
    + destruct (c_retry_max c <? m_retries m)%nat; [cbn [snd]; rewrite !nodb_app, He1, HG; reflexivity|].
      apply ndp_pp_forward. rewrite !nodb_app, He1, HG. reflexivity.
    + cbn [snd]. rewrite nodb_app, He1. reflexivity.
  - destruct (0 <? p_hwm st1)%nat; [|apply ndp_pp_forward, He1].
    destruct (m_retries m <? p_hwm st1)%nat.
    + destruct (length (p_levels st1) <=? m_retries m)%nat; [cbn [snd]; rewrite nodb_app, He1; reflexivity|].
      destruct (is_fin m); cbn [snd]; [rewrite nodb_app, He1; reflexivity|exact He1].
    + destruct (is_fin m); [|apply ndp_pp_forward, He1].
      pose proof (ndp_flush c t p (p_hwm st1) (p_has_bp st1) (p_leader st1) (set_chaser (p_hwm st1) false (p_levels st1)) stamp ls) as Hfl.
      destruct (flush c t p (p_hwm st1) (p_has_bp st1) (p_leader st1) _ stamp ls) as [[[[h' hasbp] leader] lv'] effs].
      cbn [snd] in *. rewrite !nodb_app, He1, Hfl. reflexivity.
Qed.
Lemma ndp_pp_init c t p l : nodb (snd (pp_init c t p l)) = true.
Proof. destruct l; reflexivity. Qed.

(* ---------------------------------------------------------------- the invariant *)

Definition R (q : list (dest * list msg)) (l : list bpi) : Prop :=
  forall b x, nth_error l b = Some x -> b_mode (i_st x) <> MRun -> i_in_closed x = true /\ q_get (DBp b) q = [].
Definition rinv (s : state) : Prop := R (g_q s) (g_bps s).

Lemma nth_error_bp_upd f : forall l i b, nth_error (bp_upd i f l) b = if (b =? i)%nat then option_map f (nth_error l b) else nth_error l b.
Proof.
  induction l as [|x r IH]; intros i b.
  - destruct i, b; cbn; try reflexivity. destruct (b =? i)%nat; reflexivity.
  - destruct i, b; cbn [bp_upd nth_error Nat.eqb option_map]; try reflexivity. apply IH.
Qed.

Definition keeps (f : bpi -> bpi) : Prop :=
  forall x, b_mode (i_st (f x)) = b_mode (i_st x) /\ (i_in_closed x = true -> i_in_closed (f x) = true).

Lemma R_upd q l i f : keeps f -> R q l -> R q (bp_upd i f l).
Proof.
  intros K H b x Hx Hm. rewrite nth_error_bp_upd in Hx. destruct (b =? i)%nat; [|apply (H b x Hx Hm)].
  destruct (nth_error l b) as [y|] eqn:E; [|discriminate]. injection Hx as <-. destruct (K y) as [K1 K2].
  rewrite K1 in Hm. destruct (H b y E Hm) as [A B]. split; [apply K2, A|exact B].
Qed.
Lemma R_app q l x : R q l -> b_mode (i_st x) = MRun -> R q (l ++ [x]).
Proof.
  intros H M b y Hy Hm. destruct (Nat.lt_ge_cases b (length l)) as [L|G].
  - rewrite nth_error_app1 in Hy by exact L. apply (H b y Hy Hm).
  - rewrite nth_error_app2 in Hy by exact G. destruct (b - length l)%nat as [|k]; [injection Hy as <-; congruence|destruct k; discriminate].
Qed.
Lemma dest_eqb_bp b d : dest_eqb (DBp b) d = true -> d = DBp b.
Proof. intros H. symmetry. apply dest_eqb_true. exact H. Qed.
Lemma R_push q l d m : R q l -> (forall b, d = DBp b -> forall x, nth_error l b = Some x -> b_mode (i_st x) = MRun) -> R (q_push d m q) l.
Proof.
  intros H Hd b x Hx Hm. destruct (H b x Hx Hm) as [A B]. split; [exact A|]. rewrite q_get_push.
  destruct (dest_eqb (DBp b) d) eqn:E; [|exact B]. apply dest_eqb_bp in E. exfalso. apply Hm. apply (Hd b E x Hx).
Qed.
Lemma R_pop q l d m r : R q l -> q_get d q = m :: r -> R (q_set d r q) l.
Proof.
  intros H Hq b x Hx Hm. destruct (H b x Hx Hm) as [A B]. split; [exact A|]. rewrite q_get_set.
  destruct (dest_eqb (DBp b) d) eqn:E; [|exact B]. apply dest_eqb_bp in E. subst d. rewrite B in Hq. discriminate.
Qed.

Lemma keeps_id : keeps (fun x => x). Proof. intros x. split; auto. Qed.
Lemma keeps_ref : keeps bi_ref. Proof. intros x. split; auto. Qed.
Lemma keeps_unref : keeps bi_unref. Proof. intros x. unfold bi_unref. destruct (i_refs x - 1 =? 0); split; auto. Qed.
Lemma keeps_abandon c : keeps (bi_abandon c). Proof. intros x. split; auto. Qed.
Lemma keeps_bridge (g : bpi -> list pset) (h : bpi -> option pset) (k : bpi -> list (pset * resp)) :
  keeps (fun x => bi_with_bridge x (g x) (h x) (k x)).
Proof. intros x. split; auto. Qed.

Lemma get_bp_R s br : rinv s -> rinv (fst (get_bp s br)).
Proof.
  unfold rinv, get_bp. intros H. destruct (find_reg br (g_bps s) 0%nat); cbn [fst set_bps g_bps g_q].
  - apply R_upd; [apply keeps_ref|exact H].
  - apply R_app; [exact H|reflexivity].
Qed.

Lemma apply_eff_rinv c w s e : nodb [e] = true -> rinv s -> rinv (apply_eff c w s e).
Proof.
  intros Hn H. destruct e; cbn [apply_eff]; try exact H.
  - destruct d; try (unfold rinv; cbn [set_q g_q g_bps]; apply R_push; [exact H|intros b E; discriminate]).
    + discriminate.
    + destruct (handle_of s w) as [b0|]; [|exact H]. destruct (nth_error (g_bps s) b0) as [x0|] eqn:E0; [|exact H].
      destruct (i_in_closed x0) eqn:Ec; [exact H|]. unfold rinv. cbn [set_q g_q g_bps]. apply R_push; [exact H|].
      intros b E x Hx. injection E as <-. rewrite E0 in Hx. injection Hx as <-.
      destruct (b_mode (i_st x0)) eqn:M; [reflexivity| |]; exfalso;
        (assert (Hm : b_mode (i_st x0) <> MRun) by (rewrite M; discriminate)); destruct (H b0 x0 E0 Hm) as [A _]; congruence.
  - unfold emit. destruct (g_closed s); destruct (m_hasseq m); exact H.
  - unfold emit. destruct (g_closed s); exact H.
  - unfold emit. destruct (g_closed s); exact H.
  - destruct (handle_of s w) as [b0|]; [|exact H]. unfold rinv.
    destruct (set_handle_frame (set_bps s (bp_upd b0 bi_unref (g_bps s))) w None) as (Q & B & _). rewrite Q, B. cbn [set_bps g_bps g_q].
    apply R_upd; [apply keeps_unref|exact H].
  - pose proof (get_bp_R s broker H) as G. destruct (get_bp s broker) as [s1 b]. cbn [fst] in G. unfold rinv.
    destruct (set_handle_frame s1 w (Some b)) as (Q & B & _). rewrite Q, B. exact G.
  - destruct (find_reg broker (g_bps s) 0%nat); [|exact H]. unfold rinv. cbn [set_bps g_bps g_q]. apply R_upd; [apply keeps_abandon|exact H].
  - destruct w; try exact H. destruct (nth_error (g_bps s) b); [|exact H]. unfold rinv. cbn [set_bps g_bps g_q].
    apply R_upd; [intros y; split; auto|exact H].
  - pose proof (get_bp_R s broker H) as G. destruct (get_bp s broker) as [s1 b]. cbn [fst] in G. unfold rinv. cbn [set_bps g_bps g_q].
    apply R_upd; [intros y; split; auto|exact G].
Qed.
Lemma apply_effs_rinv c w l : nodb l = true -> forall s, rinv s -> rinv (apply_effs c w s l).
Proof.
  induction l as [|e l IH]; intros Hn s H; [exact H|]. cbn [apply_effs fold_left]. cbn [nodb forallb] in Hn. apply andb_true_iff in Hn as [H1 H2].
  apply IH; [exact H2|]. apply apply_eff_rinv; [cbn [nodb forallb]; rewrite H1; reflexivity|exact H].
Qed.

(* ---------------------------------------------------------------- a broker worker leaves its run loop only on a closed input *)

Lemma do_add_mode c st m : b_mode (fst (fst (do_add c st m))) = b_mode st.
Proof. unfold do_add. destruct (m_encfail m); [reflexivity|]. destruct (c_v2 c && c_idem c && _); reflexivity. Qed.
Lemma after_over_mode c st m : b_mode (fst (fst (after_over c st m))) = b_mode st.
Proof. unfold after_over. destruct (c_idem c && negb (s_epoch (b_buf st) =? m_epoch m)); [reflexivity|apply do_add_mode]. Qed.
Lemma recv_data_mode c st m : b_mode (fst (fst (recv_data c st m))) = b_mode st.
Proof. unfold recv_data. destruct (would_overflow c (b_buf st) m); [reflexivity|apply after_over_mode]. Qed.
Lemma handle_response_mode c ep st sent r : b_mode (fst (handle_response c ep st sent r)) = b_mode st.
Proof.
  unfold handle_response.
  set (X := match r with RErr e true => _ | RErr e false => _ | RNil => _ | RBlocks bl => _ end).
  assert (HX : b_mode (fst X) = b_mode st).
  { subst X. destruct r as [e [|] | | bl]; cbn [fst]; try reflexivity.
    destruct (c_retry_max c =? 0)%nat; [reflexivity|].
    destruct (hs_phase2 c bl (s_parts sent) (b_cur st) (s_parts (b_buf st))) as [[cur buf] e2]. reflexivity. }
  destruct X as [st1 effs]. cbn [fst] in HX. destruct (set_empty (b_buf st1)); cbn [fst]; [rewrite <- HX; reflexivity|exact HX].
Qed.

Lemma bp_core_mode c ep st i : i <> BClosed -> b_mode (fst (fst (bp_core c ep st i))) = b_mode st.
Proof.
  intros Hi. destruct i as [m| | | |sent r]; cbn [bp_core].
  - destruct (b_mode st) eqn:M; try (cbn [fst]; exact M). destruct (b_wait st); try (cbn [fst]; exact M).
    destruct (is_syn m); [cbn [fst]; exact M|]. destruct (needs_retry st m).
    { destruct (b_closing st); [cbn [fst]; exact M|]. destruct (is_fin m); cbn [fst]; exact M. }
    destruct (is_fin m); [cbn [fst]; exact M|]. rewrite recv_data_mode. exact M.
  - congruence.
  - destruct (b_timer st && flush_poll st); reflexivity.
  - destruct (flush_enabled st); [|reflexivity]. destruct (b_wait st) as [|m|m]; [reflexivity| |].
    + pose proof (after_over_mode c (with_wait (rollover st ep) WNone) m) as H.
      destruct (after_over c (with_wait (rollover st ep) WNone) m) as [[st2 e2] u]. exact H.
    + pose proof (do_add_mode c (with_wait (rollover st ep) WNone) m) as H.
      destruct (do_add c (with_wait (rollover st ep) WNone) m) as [[st2 e2] u]. exact H.
  - pose proof (handle_response_mode c ep st sent r) as H. destruct (handle_response c ep st sent r) as [st1 effs]. cbn [fst] in H.
    destruct (b_wait st1) as [|m|m]; [exact H| |].
    + destruct (needs_retry st1 m); [exact H|]. destruct (would_overflow c (b_buf st1) m); [exact H|].
      pose proof (after_over_mode c (with_wait st1 WNone) m) as H2. destruct (after_over c (with_wait st1 WNone) m) as [[st2 e2] u].
      cbn [fst] in *. rewrite H2. exact H.
    + destruct (needs_retry st1 m); exact H.
Qed.

Lemma bp_step_mode c ep st i : i <> BClosed -> b_mode st = MRun -> b_mode (fst (bp_step c ep st i)) = MRun.
Proof.
  intros Hi M. unfold bp_step. pose proof (bp_core_mode c ep st i Hi) as H. destruct (bp_core c ep st i) as [[st' effs] upd]. cbn [fst] in *.
  assert (E : b_mode (if upd then end_iter c st' else st') = MRun).
  { destruct upd; [|congruence]. unfold end_iter. rewrite H, M. destruct (b_wait st'); [reflexivity|congruence|congruence]. }
  unfold drain_check. rewrite E. exact E.
Qed.

(* one broker-worker iteration *)
Lemma run_bp_rinv c s b x i : rinv s -> nth_error (g_bps s) b = Some x ->
  (i = BClosed -> i_in_closed x = true /\ q_get (DBp b) (g_q s) = []) -> rinv (run_bp c s b x i).
Proof.
  intros H Hx Hc. unfold run_bp. pose proof (nd_bp c (g_epoch s) (i_st x) i) as ND.
  pose proof (bp_step_mode c (g_epoch s) (i_st x) i) as MS.
  destruct (bp_step c (g_epoch s) (i_st x) i) as [st' effs]. cbn [fst snd] in *.
  apply apply_effs_rinv; [exact ND|]. unfold rinv. cbn [set_bps g_bps g_q].
  intros b' y Hy Hm. rewrite nth_error_bp_upd in Hy. destruct (b' =? b)%nat eqn:E; [|apply (H b' y Hy Hm)].
  apply Nat.eqb_eq in E. subst b'. rewrite Hx in Hy. cbn [option_map] in Hy. injection Hy as <-. cbn [bi_with_st i_st i_in_closed] in *.
  destruct (b_mode (i_st x)) eqn:M.
  - (* was running: only BClosed leaves the run loop *)
    destruct i; try (exfalso; apply Hm; apply MS; [discriminate|reflexivity]). apply Hc. reflexivity.
  - apply (H b x Hx). rewrite M. discriminate.
  - apply (H b x Hx). rewrite M. discriminate.
Qed.

Lemma pop_R d s m s1 : pop d s = Some (m, s1) -> rinv s -> rinv s1 /\ g_bps s1 = g_bps s /\ exists r, q_get d (g_q s) = m :: r.
Proof.
  unfold pop. destruct (q_get d (g_q s)) as [|m' r] eqn:E; [discriminate|]. intros H R0. injection H as <- <-.
  split; [|split; [reflexivity|exists r; reflexivity]]. unfold rinv. cbn [set_q g_q g_bps]. eapply R_pop; eauto.
Qed.
Lemma push_rinv s d m : rinv s -> (forall b, d <> DBp b) -> R (q_push d m (g_q s)) (g_bps s).
Proof. intros H Hd. apply R_push; [exact H|]. intros b E. exfalso. apply (Hd b E). Qed.

Lemma rinv_raw c s ch : rinv s -> rinv (raw_step c s ch).
Proof.
  intros H. destruct ch; cbn [raw_step].
  - destruct (g_close_req s); [exact H|]. unfold rinv. cbn [add_submitted set_q g_q g_bps]. apply push_rinv; [exact H|discriminate].
  - destruct (g_close_req s); [exact H|]. unfold rinv. cbn [add_inflight set_flags set_q g_q g_bps]. apply push_rinv; [exact H|discriminate].
  - destruct (pop DDisp s) as [[m s1]|] eqn:Ep; [|exact H]. destruct (pop_R _ _ _ _ Ep H) as (H1 & _).
    pose proof (nd_disp c (g_disp s1) m) as ND. destruct (disp_step c (g_disp s1) m) as [d' effs]. apply apply_effs_rinv; [exact ND|exact H1].
  - destruct (pop (DTopic t) s) as [[m s1]|] eqn:Ep; [|exact H]. destruct (pop_R _ _ _ _ Ep H) as (H1 & _).
    apply apply_effs_rinv; [apply nd_tp|exact H1].
  - destruct (pop (DPart t p) s) as [[m s1]|] eqn:Ep; [|exact H]. destruct (pop_R _ _ _ _ Ep H) as (H1 & _).
    assert (RP : forall s0 x ls0, rinv s0 -> rinv (run_pp c s0 (t, p) x m ls0)).
    { intros s0 x ls0 H0. unfold run_pp.
      match goal with |- context [pp_step c ?a ?b ?d m ?e ?f ls0] => pose proof (ndp_pp c a b d m e f ls0) as ND; destruct (pp_step c a b d m e f ls0) as [st' effs] end.
      apply apply_effs_rinv; [exact ND|exact H0]. }
    destruct (pp_get (t, p) (g_pps s1)); [apply RP; exact H1|].
    destruct (next_lres ls) as [l0 ls']. pose proof (ndp_pp_init c t p l0) as NI. destruct (pp_init c t p l0) as [st0 effs0]. cbn [snd] in NI.
    apply RP. apply apply_effs_rinv; [exact NI|exact H1].
  - destruct (nth_error (g_bps s) b) as [x|] eqn:Ex; [|exact H]. destruct (flush_poll (i_st x)); [|exact H].
    destruct (pop (DBp b) s) as [[m s1]|] eqn:Ep.
    + destruct (pop_R _ _ _ _ Ep H) as (H1 & B1 & _). apply run_bp_rinv; [exact H1|rewrite B1; exact Ex|discriminate].
    + destruct (i_in_closed x) eqn:Ec; [|exact H]. apply run_bp_rinv; [exact H|exact Ex|]. intros _. split; [exact Ec|].
      unfold pop in Ep. destruct (q_get (DBp b) (g_q s)); [reflexivity|discriminate].
  - destruct (nth_error (g_bps s) b) as [x|] eqn:Ex; [|exact H]. apply run_bp_rinv; [exact H|exact Ex|discriminate].
  - destruct (nth_error (g_bps s) b) as [x|] eqn:Ex; [|exact H]. apply run_bp_rinv; [exact H|exact Ex|discriminate].
  - destruct (nth_error (g_bps s) b) as [x|]; [|exact H]. destruct (i_infl x); [exact H|]. destruct (i_bridge x); [exact H|].
    unfold rinv. cbn [set_bps g_bps g_q]. apply R_upd; [intros y; split; auto|exact H].
  - destruct (nth_error (g_bps s) b) as [x|]; [|exact H]. destruct (i_infl x); [|exact H].
    unfold rinv. cbn [set_bps g_bps g_q]. apply R_upd; [intros y; split; auto|exact H].
  - destruct (nth_error (g_bps s) b) as [x|]; [|exact H]. destruct (i_resp x) as [|[st r] rest]; [exact H|].
    set (s1 := set_bps s _). assert (H1 : rinv s1) by (unfold rinv, s1; cbn [set_bps g_bps g_q]; apply R_upd; [intros y; split; auto|exact H]).
    destruct (nth_error (g_bps s1) b) as [x1|] eqn:E1; [|exact H]. apply run_bp_rinv; [exact H1|exact E1|discriminate].
  - destruct (nth_error (g_rbs s) i) as [tk|]; [|exact H]. apply apply_effs_rinv; [apply nd_rb|exact H].
  - destruct (pop DRetry s) as [[m s1]|] eqn:Ep; [|exact H]. destruct (pop_R _ _ _ _ Ep H) as (H1 & _).
    unfold rinv. cbn [set_q g_q g_bps]. apply push_rinv; [exact H1|discriminate].
  - destruct (g_close_req s && negb (g_woken s) && (g_inflight s =? 0)); exact H.
  - destruct (g_woken s && negb (g_closed s)); exact H.
Qed.

(* A broker worker that has left its run loop (shutdown(): draining its buffer, or output closed) did so on a
   closed, empty input, and nothing can be queued for it afterwards: no message is stranded in front of a
   worker that no longer reads. *)
Theorem stopped_reader_has_no_input c sched b x :
  nth_error (g_bps (run c sched)) b = Some x -> b_mode (i_st x) <> MRun ->
  i_in_closed x = true /\ q_get (DBp b) (g_q (run c sched)) = [].
Proof.
  assert (G : forall l s, rinv s -> rinv (fold_left (step c) l s)).
  { induction l as [|ch r IH]; intros s H; [exact H|]. cbn [fold_left]. apply IH. unfold step.
    destruct (g_panic s); [exact H|]. destruct (g_panic (raw_step c s ch)); [exact H|]. apply rinv_raw, H. }
  assert (I : rinv init) by (intros b' y Hy; destruct b'; discriminate).
  intros Hx Hm. exact (G sched init I b x Hx Hm).
Qed.
