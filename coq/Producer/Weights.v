(* Producer proofs, part 1: weights.  A weight is a function msg -> Z that depends on the identity and the
   marker bits only (so it is unchanged by retries++, partition assignment, stamping, interception);
   [total f s] sums it over every place of the composition that can hold a message. *)
From Coq Require Import List ZArith Bool Arith Lia.
From SV Require Import Producer.Msg Producer.Actors Producer.Compose.
Import ListNotations.
Open Scope Z_scope.

Definition wsum (f : msg -> Z) (l : list msg) : Z := fold_right (fun m a => f m + a) 0 l.

Definition stable (f : msg -> Z) : Prop :=
  forall m m', m_id m = m_id m' -> m_flags m = m_flags m' -> f m = f m'.

Lemma wsum_app f a b : wsum f (a ++ b) = wsum f a + wsum f b.
Proof. induction a as [|x a IH]; simpl; [reflexivity | rewrite IH; lia]. Qed.
Lemma wsum_nil f : wsum f [] = 0. Proof. reflexivity. Qed.
Lemma wsum_cons f x l : wsum f (x :: l) = f x + wsum f l. Proof. reflexivity. Qed.
Lemma wsum_map_stable f g l : stable f -> (forall m, m_id (g m) = m_id m /\ m_flags (g m) = m_flags m) ->
  wsum f (map g l) = wsum f l.
Proof.
  intros Hs Hg. induction l as [|x l IH]; simpl; [reflexivity|].
  rewrite IH. destruct (Hg x) as [H1 H2]. rewrite (Hs (g x) x H1 H2). reflexivity.
Qed.

Lemma stable_set_retries f m r : stable f -> f (set_retries m r) = f m.
Proof. intros H; apply H; reflexivity. Qed.
Lemma stable_set_part f m p : stable f -> f (set_part m p) = f m.
Proof. intros H; apply H; reflexivity. Qed.
Lemma stable_set_stamp f m a b : stable f -> f (set_stamp m a b) = f m.
Proof. intros H; apply H; reflexivity. Qed.
Lemma stable_set_body f m a b : stable f -> f (set_body m a b) = f m.
Proof. intros H; apply H; reflexivity. Qed.

(* ---------------------------------------------------------------- produce sets *)

Fixpoint parts_w (f : msg -> Z) (ps : list (tpk * list msg)) : Z :=
  match ps with [] => 0 | (_, l) :: r => wsum f l + parts_w f r end.
Definition set_w (f : msg -> Z) (s : pset) : Z := parts_w f (s_parts s).

Lemma parts_w_add f k m ps : parts_w f (part_add k m ps) = parts_w f ps + f m.
Proof.
  induction ps as [|[k' l] r IH]; simpl; [lia|].
  destruct (tpk_eqb k k'); simpl; [rewrite wsum_app; simpl; lia | rewrite IH; lia].
Qed.
Lemma parts_w_drop f k ps :
  parts_w f (part_drop k ps) + wsum f (match part_lookup k ps with Some d => d | None => [] end) = parts_w f ps.
Proof.
  induction ps as [|[k' l] r IH]; simpl; [reflexivity|].
  destruct (tpk_eqb k k'); simpl; lia.
Qed.

(* ---------------------------------------------------------------- local states *)

Fixpoint levels_w (f : msg -> Z) (ls : list level) : Z :=
  match ls with [] => 0 | l :: r => wsum f (l_buf l) + levels_w f r end.
Definition pp_w (f : msg -> Z) (st : pp) : Z := levels_w f (p_levels st).

Definition wait_w (f : msg -> Z) (w : bwait) : Z :=
  match w with WNone => 0 | WOver m => f m | WForce m => f m end.
Definition bp_w (f : msg -> Z) (st : bp) : Z := set_w f (b_buf st) + wait_w f (b_wait st).

Fixpoint sets_w (f : msg -> Z) (l : list pset) : Z :=
  match l with [] => 0 | s :: r => set_w f s + sets_w f r end.
Fixpoint resps_w (f : msg -> Z) (l : list (pset * resp)) : Z :=
  match l with [] => 0 | (s, _) :: r => set_w f s + resps_w f r end.
Definition bpi_w (f : msg -> Z) (x : bpi) : Z :=
  bp_w f (i_st x) + sets_w f (i_bridge x) + match i_infl x with Some s => set_w f s | None => 0 end + resps_w f (i_resp x).

(* ---------------------------------------------------------------- global measure *)

Fixpoint q_w (f : msg -> Z) (q : list (dest * list msg)) : Z :=
  match q with [] => 0 | (_, l) :: r => wsum f l + q_w f r end.
Fixpoint pps_w (f : msg -> Z) (l : list (tpk * ppr)) : Z :=
  match l with [] => 0 | (_, x) :: r => pp_w f (pr_st x) + pps_w f r end.
Fixpoint bps_w (f : msg -> Z) (l : list bpi) : Z :=
  match l with [] => 0 | x :: r => bpi_w f x + bps_w f r end.
Fixpoint rbs_w (f : msg -> Z) (l : list rbtask) : Z :=
  match l with [] => 0 | t :: r => wsum f (rb_ms t) + rbs_w f r end.
Fixpoint evs_w (f : msg -> Z) (l : list event) : Z :=
  match l with [] => 0 | e :: r => f (ev_msg e) + evs_w f r end.

Definition total (f : msg -> Z) (s : state) : Z :=
  q_w f (g_q s) + pps_w f (g_pps s) + bps_w f (g_bps s) + rbs_w f (g_rbs s).

Lemma sets_w_app f a b : sets_w f (a ++ b) = sets_w f a + sets_w f b.
Proof. induction a as [|x a IH]; simpl; [reflexivity | rewrite IH; lia]. Qed.
Lemma resps_w_app f a b : resps_w f (a ++ b) = resps_w f a + resps_w f b.
Proof. induction a as [|[x y] a IH]; simpl; [reflexivity | rewrite IH; lia]. Qed.
Lemma evs_w_app f a b : evs_w f (a ++ b) = evs_w f a + evs_w f b.
Proof. induction a as [|x a IH]; simpl; [reflexivity | rewrite IH; lia]. Qed.
Lemma rbs_w_app f a b : rbs_w f (a ++ b) = rbs_w f a + rbs_w f b.
Proof. induction a as [|x a IH]; simpl; [reflexivity | rewrite IH; lia]. Qed.
Lemma bps_w_app f a b : bps_w f (a ++ b) = bps_w f a + bps_w f b.
Proof. induction a as [|x a IH]; simpl; [reflexivity | rewrite IH; lia]. Qed.

(* queues *)
Lemma q_w_set f d l q : q_w f (q_set d l q) = q_w f q - wsum f (q_get d q) + wsum f l.
Proof.
  induction q as [|[d' l'] r IH]; simpl; [lia|].
  destruct (dest_eqb d d'); simpl; [lia | rewrite IH; lia].
Qed.
Lemma q_w_push f d m q : q_w f (q_push d m q) = q_w f q + f m.
Proof. unfold q_push. rewrite q_w_set, wsum_app. simpl. lia. Qed.

(* partition workers *)
Lemma pps_w_set f k x l :
  pps_w f (pp_set k x l) = pps_w f l - match pp_get k l with Some y => pp_w f (pr_st y) | None => 0 end + pp_w f (pr_st x).
Proof.
  induction l as [|[k' y] r IH]; simpl; [lia|].
  destruct (tpk_eqb k k'); simpl; [lia | rewrite IH; lia].
Qed.

(* broker workers *)
Lemma bps_w_upd f i g l x : nth_error l i = Some x ->
  bps_w f (bp_upd i g l) = bps_w f l - bpi_w f x + bpi_w f (g x).
Proof.
  revert i. induction l as [|y r IH]; intros [|i] H; simpl in *; try discriminate.
  - injection H as ->. lia.
  - rewrite (IH _ H). lia.
Qed.
Lemma bp_upd_none i (g : bpi -> bpi) l : nth_error l i = None -> bp_upd i g l = l.
Proof.
  revert i. induction l as [|y r IH]; intros [|i] H; simpl in *; try discriminate; try reflexivity.
  rewrite (IH _ H). reflexivity.
Qed.
Lemma bp_upd_length i g l : length (bp_upd i g l) = length l.
Proof. revert i; induction l as [|y r IH]; intros [|i]; simpl; auto. Qed.
Lemma nth_error_bp_upd_same i g l x : nth_error l i = Some x -> nth_error (bp_upd i g l) i = Some (g x).
Proof.
  revert i. induction l as [|y r IH]; intros [|i] H; simpl in *; try discriminate.
  - injection H as ->. reflexivity.
  - apply IH, H.
Qed.

Lemma find_reg_bound br l : forall i j, find_reg br l i = Some j -> (i <= j < i + length l)%nat.
Proof.
  induction l as [|x r IH]; intros i j H; simpl in *; [discriminate|].
  destruct (i_reg x && (i_broker x =? br)).
  - injection H as <-. lia.
  - apply IH in H. lia.
Qed.
Lemma find_reg_some br l j : find_reg br l 0%nat = Some j -> exists x, nth_error l j = Some x.
Proof.
  intros H. apply find_reg_bound in H. destruct (nth_error l j) eqn:E; [eauto|].
  apply nth_error_None in E. lia.
Qed.

(* retryBatch tasks *)
Lemma rbs_w_remove f i l t : nth_error l i = Some t -> rbs_w f (remove_nth i l) = rbs_w f l - wsum f (rb_ms t).
Proof.
  revert i. induction l as [|y r IH]; intros [|i] H; simpl in *; try discriminate.
  - injection H as ->. lia.
  - rewrite (IH _ H). lia.
Qed.

(* levels *)
Lemma levels_w_upd f i g ls :
  levels_w f (upd_level i g ls) =
  levels_w f ls - (if (i <? length ls)%nat then wsum f (l_buf (get_level i ls)) - wsum f (l_buf (g (get_level i ls))) else 0).
Proof.
  revert i. induction ls as [|l r IH]; intros i.
  - destruct i; simpl; lia.
  - destruct i as [|i].
    + cbn [upd_level levels_w length get_level nth]. replace (0 <? S (length r))%nat with true by reflexivity. lia.
    + cbn [upd_level levels_w length]. rewrite IH.
      replace (S i <? S (length r))%nat with (i <? length r)%nat by reflexivity.
      unfold get_level. cbn [nth]. lia.
Qed.
Lemma levels_w_set_chaser f i b ls : levels_w f (set_chaser i b ls) = levels_w f ls.
Proof. unfold set_chaser. rewrite levels_w_upd. simpl. destruct (i <? length ls)%nat; lia. Qed.
