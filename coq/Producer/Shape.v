(* Producer proofs, part 4: which effects an actor can produce at all.
   [shape_ok disp e]: markers are the only messages created (ENew) or consumed (EDone); only the dispatcher
   accepts fresh messages (EAccept) or rejects them outside the counter (ERawErr); nobody sends to the
   dispatcher's input directly, and everything put on the retry path has been through retries++. *)
From Coq Require Import List ZArith Bool Arith Lia.
From SV Require Import Producer.Msg Producer.Actors Producer.Compose Producer.Weights Producer.Local Producer.Global.
Import ListNotations.
Open Scope Z_scope.

Definition shape_ok (disp : bool) (e : effect) : bool :=
  match e with
  | ENew m | EDone m => negb (is_data m)
  | EAccept _ | ERawErr _ _ => disp
  | ESend DDisp _ => false
  | ESend DRetry m => negb (fresh_un m)
  | _ => true
  end.
Definition sh (d : bool) (l : list effect) : bool := forallb (shape_ok d) l.
Lemma sh_app d a b : sh d (a ++ b) = sh d a && sh d b.
Proof. apply forallb_app. Qed.
Lemma sh_cons d x l : sh d (x :: l) = shape_ok d x && sh d l. Proof. reflexivity. Qed.
Lemma sh_mono l : sh false l = true -> sh true l = true.
Proof.
  induction l as [|e l IH]; [reflexivity|]. rewrite !sh_cons. intros H. apply andb_true_iff in H as [H1 H2].
  rewrite (IH H2), andb_true_r. destruct e; try exact H1; try reflexivity.
Qed.

Definition data_only (f : msg -> Z) : Prop := forall m, is_data m = false -> f m = 0.

Definition eff_ra (e : effect) : Z := match e with ERawErr _ _ | EAccept _ => 1 | _ => 0 end.

Lemma shape_sums f d e : data_only f -> shape_ok d e = true ->
  eff_sink f e = 0 /\ eff_new f e = 0 /\ eff_fresh e = 0 /\ (d = false -> eff_ra e = 0).
Proof.
  intros Hd H. destruct e; cbn [shape_ok eff_sink eff_new eff_fresh eff_ra] in *;
    try (split; [reflexivity|split; [reflexivity|split; [reflexivity|intros _; reflexivity]]]).
  - destruct d0; try (split; [reflexivity|split; [reflexivity|split; [reflexivity|intros _; reflexivity]]]); [discriminate|].
    apply negb_true_iff in H. rewrite H. split; [reflexivity|split; [reflexivity|split; [reflexivity|intros _; reflexivity]]].
  - split; [reflexivity|split; [reflexivity|split; [reflexivity|intros E; subst d; discriminate]]].
  - apply negb_true_iff in H. rewrite (Hd _ H). split; [reflexivity|split; [reflexivity|split; [reflexivity|intros _; reflexivity]]].
  - split; [reflexivity|split; [reflexivity|split; [reflexivity|intros E; subst d; discriminate]]].
  - apply negb_true_iff in H. rewrite (Hd _ H). split; [reflexivity|split; [reflexivity|split; [reflexivity|intros _; reflexivity]]].
Qed.

Lemma sh_sums f d l : data_only f -> sh d l = true ->
  esum (eff_sink f) l = 0 /\ esum (eff_new f) l = 0 /\ esum eff_fresh l = 0 /\ (d = false -> esum eff_ra l = 0).
Proof.
  intros Hd. induction l as [|e l IH]; [intros _; split; [reflexivity|split; [reflexivity|split; [reflexivity|intros _; reflexivity]]]|].
  rewrite sh_cons. intros H. apply andb_true_iff in H as [H1 H2]. destruct (IH H2) as (A & B & C & D).
  destruct (shape_sums f d e Hd H1) as (A1 & B1 & C1 & D1).
  rewrite !esum_cons, A, B, C, A1, B1, C1.
  split; [reflexivity|split; [reflexivity|split; [reflexivity|intros E; rewrite (D E), (D1 E); reflexivity]]].
Qed.

(* for the constant weight: the identity that links the counter to the weights *)
Definition f1 : msg -> Z := fun _ => 1.
Lemma f1_stable : stable f1. Proof. intros m m' _ _. reflexivity. Qed.
Lemma eff_infl_split e : eff_infl e = eff_new f1 e - eff_sink f1 e - eff_event f1 e + eff_ra e.
Proof. destruct e; reflexivity. Qed.
Lemma esum_infl_split l :
  esum eff_infl l = esum (eff_new f1) l - esum (eff_sink f1) l - esum (eff_event f1) l + esum eff_ra l.
Proof. induction l as [|e l IH]; [reflexivity|]. rewrite !esum_cons, IH, eff_infl_split. lia. Qed.
Lemma esum_pe_split f l : esum (eff_pe f) l = esum (eff_place f) l + esum (eff_event f) l.
Proof. induction l as [|e l IH]; [reflexivity|]. rewrite !esum_cons, IH, eff_pe_split. lia. Qed.
Lemma esum_net_split f l : esum (eff_net f) l = esum (eff_pe f) l + esum (eff_sink f) l - esum (eff_new f) l.
Proof. induction l as [|e l IH]; [reflexivity|]. rewrite !esum_cons, IH. unfold eff_net. lia. Qed.

(* ---------------------------------------------------------------- marker bits *)

Lemma fin_not_data m : is_fin m = true -> is_data m = false.
Proof. unfold is_fin, is_data, F_FIN, F_DATA. intros H. apply Z.eqb_neq. intros E. rewrite E in H. discriminate. Qed.
Lemma syn_not_data m : is_syn m = true -> is_data m = false.
Proof. unfold is_syn, is_data, F_SYN, F_DATA. intros H. apply Z.eqb_neq. intros E. rewrite E in H. discriminate. Qed.
Lemma shut_not_data m : is_shut m = true -> is_data m = false.
Proof. unfold is_shut, is_data, F_SHUT, F_DATA. intros H. apply Z.eqb_neq. intros E. rewrite E in H. discriminate. Qed.

(* ---------------------------------------------------------------- helper lists *)

Lemma sh_retry_msg d c m e : shape_ok d (retry_msg c m e) = true.
Proof. unfold retry_msg. destruct (c_retry_max c <=? m_retries m)%nat; reflexivity. Qed.
Lemma sh_retry_msgs d c l e : sh d (retry_msgs c l e) = true.
Proof. unfold retry_msgs. induction l as [|m l IH]; [reflexivity|]. cbn [map]. rewrite sh_cons, sh_retry_msg, IH. reflexivity. Qed.
Lemma sh_return_errors d l e : sh d (return_errors l e) = true.
Proof. unfold return_errors. induction l; simpl; auto. Qed.
Lemma sh_successes d l b : sh d (successes l b) = true.
Proof. revert b; induction l; intros; simpl; auto. Qed.
Lemma sh_sends_cur d l : sh d (map (ESend DCur) l) = true.
Proof. induction l; simpl; auto. Qed.
Lemma sh_all_retry d c ps e : sh d (all_retry c ps e) = true.
Proof. induction ps as [|[k l] r IH]; [reflexivity|]. cbn [all_retry]. rewrite sh_app, sh_retry_msgs, IH. reflexivity. Qed.
Lemma sh_all_errors d ps e : sh d (all_errors ps e) = true.
Proof. induction ps as [|[k l] r IH]; [reflexivity|]. cbn [all_errors]. rewrite sh_app, sh_return_errors, IH. reflexivity. Qed.
Lemma sh_leader_effects d c t p b : sh d (leader_effects c t p b) = true.
Proof. reflexivity. Qed.

(* ---------------------------------------------------------------- actors *)

Lemma sh_apply_ics id k ics pan sz h : sh true (snd (apply_ics id k ics pan sz h)) = true.
Proof.
  revert k pan sz h. induction ics as [|ic r IH]; intros; [reflexivity|]. cbn [apply_ics].
  match goal with |- context [apply_ics id (S k) r ?a ?b ?d] => specialize (IH (S k) a b d); destruct (apply_ics id (S k) r a b d) as [res effs] end.
  cbn [snd] in *. rewrite sh_cons, IH. reflexivity.
Qed.

Lemma disp_shape c d m : sh true (snd (disp_step c d m)) = true /\
  esum eff_ra (snd (disp_step c d m)) = (if fresh_un m then 1 else 0).
Proof.
  assert (Hra : forall id k ics pan sz h, esum eff_ra (snd (apply_ics id k ics pan sz h)) = 0).
  { intros id k ics. revert k. induction ics as [|ic r IH]; intros; [reflexivity|]. cbn [apply_ics].
    match goal with |- context [apply_ics id (S k) r ?a ?b ?d] => specialize (IH (S k) a b d); destruct (apply_ics id (S k) r a b d) as [res effs] end.
    cbn [snd] in *. rewrite esum_cons, IH. reflexivity. }
  unfold disp_step, fresh_un.
  destruct (is_shut m) eqn:Es.
  { cbn [snd]. rewrite sh_cons. cbn [shape_ok]. rewrite (shut_not_data _ Es), andb_false_r. split; reflexivity. }
  destruct (fresh_pass m && d_shut d) eqn:Esd.
  { apply andb_true_iff in Esd as [-> _]. split; reflexivity. }
  set (doic := if c_fix_ic c then fresh_pass m && is_data m else true).
  assert (Hpre : sh true (if fresh_pass m then [EAccept m] else []) = true /\
                 esum eff_ra (if fresh_pass m then [EAccept m] else []) = (if fresh_pass m && negb false then 1 else 0))
    by (destruct (fresh_pass m); split; reflexivity).
  destruct Hpre as [P1 P2].
  destruct doic.
  - pose proof (sh_apply_ics (m_id m) 0%nat (c_ics c) (m_ipanic m) (m_size m) (m_hdr m)) as H1.
    pose proof (Hra (m_id m) 0%nat (c_ics c) (m_ipanic m) (m_size m) (m_hdr m)) as H2.
    destruct (apply_ics _ _ _ _ _ _) as [[sz h] ics]. cbn [snd] in *.
    destruct (negb (c_v2 c) && h); [|destruct (c_max_msg_bytes c <? sz)]; cbn [snd];
      rewrite !sh_app, !esum_app, H1, H2, P1, P2; split; cbn; try reflexivity; lia.
  - destruct (negb (c_v2 c) && m_hdr m); [|destruct (c_max_msg_bytes c <? m_size m)]; cbn [snd];
      rewrite !sh_app, !esum_app, P1, P2; split; cbn; try reflexivity; lia.
Qed.

Lemma tp_shape m : sh false (tp_step m) = true.
Proof. unfold tp_step. destruct (fresh_pass m); [destruct (0 <=? m_pres m)|]; reflexivity. Qed.

Lemma flush_shape c t p : forall h hasbp leader lv ls, sh false (snd (flush c t p h hasbp leader lv ls)) = true.
Proof.
  induction h as [|h' IH]; intros; [reflexivity|]. cbn [flush].
  destruct hasbp.
  - destruct (l_chaser (get_level h' lv) || (h' =? 0)%nat); cbn [snd]; [apply sh_sends_cur|].
    specialize (IH true leader (set_buf h' [] lv) ls). destruct (flush c t p h' true leader _ ls) as [res e2].
    cbn [snd] in *. rewrite sh_app, sh_sends_cur, IH. reflexivity.
  - destruct (next_lres ls) as [[b|e] r].
    + destruct (l_chaser (get_level h' lv) || (h' =? 0)%nat); cbn [snd]; [rewrite sh_app, sh_sends_cur; reflexivity|].
      specialize (IH true b (set_buf h' [] lv) r). destruct (flush c t p h' true b _ r) as [res e2].
      cbn [snd] in *. rewrite !sh_app, sh_sends_cur, IH. reflexivity.
    + destruct (l_chaser (get_level h' lv) || (h' =? 0)%nat); cbn [snd]; [apply sh_return_errors|].
      specialize (IH false leader (set_buf h' [] lv) r). destruct (flush c t p h' false leader _ r) as [res e2].
      cbn [snd] in *. rewrite sh_app, sh_return_errors, IH. reflexivity.
Qed.

Lemma pp_forward_shape c t p st m stamp ls pre : sh false pre = true ->
  sh false (snd (pp_forward c t p st m stamp ls pre)) = true.
Proof.
  intros Hp. unfold pp_forward. destruct (p_has_bp st).
  - destruct (c_idem c && fresh_pass m && is_data m); cbn [snd]; rewrite !sh_app, Hp; reflexivity.
  - destruct (next_lres ls) as [[b|e] r].
    + destruct (c_idem c && fresh_pass m && is_data m); cbn [snd]; rewrite !sh_app, Hp; reflexivity.
    + cbn [snd]. rewrite sh_app, Hp. reflexivity.
Qed.

Lemma pp_shape c t p st m ab stamp ls : sh false (snd (pp_step c t p st m ab stamp ls)) = true.
Proof.
  unfold pp_step.
  set (e1 := if p_has_bp st && ab then [EUnref] else []).
  assert (He1 : sh false e1 = true) by (subst e1; destruct (p_has_bp st && ab); reflexivity).
  set (st1 := if p_has_bp st && ab then _ else st).
  destruct (p_hwm st1 <? m_retries m)%nat.
  - destruct (c_retry_max c <? m_retries m)%nat; [cbn [snd]; rewrite sh_app, He1; reflexivity|].
    destruct (negb (p_has_bp st1)); [cbn [snd]; rewrite sh_app, He1; reflexivity|].
    apply pp_forward_shape. rewrite sh_app, He1. reflexivity.
  - destruct (0 <? p_hwm st1)%nat; [|apply pp_forward_shape, He1].
    destruct (m_retries m <? p_hwm st1)%nat.
    + destruct (length (p_levels st1) <=? m_retries m)%nat; [cbn [snd]; rewrite sh_app, He1; reflexivity|].
      destruct (is_fin m) eqn:Ef; cbn [snd]; [|exact He1].
      rewrite sh_app, He1, sh_cons. cbn [shape_ok]. rewrite (fin_not_data _ Ef). reflexivity.
    + destruct (is_fin m) eqn:Ef; [|apply pp_forward_shape, He1].
      pose proof (flush_shape c t p (p_hwm st1) (p_has_bp st1) (p_leader st1) (set_chaser (p_hwm st1) false (p_levels st1)) ls) as Hfl.
      destruct (flush c t p (p_hwm st1) (p_has_bp st1) (p_leader st1) _ ls) as [[[[h' hasbp] leader] lv'] effs].
      cbn [snd] in *. rewrite !sh_app, He1, Hfl, sh_cons. cbn [shape_ok]. rewrite (fin_not_data _ Ef). reflexivity.
Qed.

Lemma pp_init_shape c t p l : sh false (snd (pp_init c t p l)) = true.
Proof. destruct l; reflexivity. Qed.

Lemma do_add_shape c st m : sh false (snd (fst (do_add c st m))) = true.
Proof.
  unfold do_add. destruct (m_encfail m); [reflexivity|].
  match goal with |- context [if ?b then _ else _] => destruct b end; reflexivity.
Qed.
Lemma after_over_shape c st m : sh false (snd (fst (after_over c st m))) = true.
Proof. unfold after_over. destruct (c_idem c && negb (s_epoch (b_buf st) =? m_epoch m)); [reflexivity|apply do_add_shape]. Qed.
Lemma recv_data_shape c st m : sh false (snd (fst (recv_data c st m))) = true.
Proof. unfold recv_data. destruct (would_overflow c (b_buf st) m); [reflexivity|apply after_over_shape]. Qed.

Lemma hs_phase1_shape c b r ps : sh false (hs_phase1 c b r ps) = true.
Proof.
  induction ps as [|[k l] rest IH]; [reflexivity|]. cbn [hs_phase1]. rewrite sh_app, IH, andb_true_r.
  destruct r as [e enc| |bl]; [reflexivity|apply sh_successes|].
  destruct (block_lookup k bl) as [[e off]|]; [|apply sh_return_errors].
  destruct (e =? 0); [apply sh_successes|]. destruct (e =? E_DUPLICATE); [apply sh_successes|].
  destruct (retriable e); destruct (c_retry_max c =? 0)%nat; cbn [app]; rewrite ?sh_cons, ?sh_return_errors; reflexivity.
Qed.
Lemma hs_phase2_shape c bl : forall ps cur buf, sh false (snd (hs_phase2 c bl ps cur buf)) = true.
Proof.
  induction ps as [|[k l] r IH]; intros; [reflexivity|]. cbn [hs_phase2].
  destruct (block_lookup k bl) as [[e off]|]; [|apply IH]. destruct (retriable e); [|apply IH].
  specialize (IH (cur_set k e cur) (part_drop k buf)).
  destruct (hs_phase2 c bl r (cur_set k e cur) (part_drop k buf)) as [[cur' buf'] effs']. cbn [snd] in *.
  rewrite !sh_app, IH, sh_retry_msgs. destruct (c_idem c); [reflexivity|]. rewrite sh_retry_msgs. reflexivity.
Qed.
Lemma handle_response_shape c ep st sent r : sh false (snd (handle_response c ep st sent r)) = true.
Proof.
  unfold handle_response.
  assert (HX : forall X : bp * list effect, sh false (snd X) = true ->
     sh false (snd (let '(st1, effs) := X in if set_empty (b_buf st1) then (rollover st1 (ep + bumps effs), effs) else (st1, effs))) = true).
  { intros [st1 effs] H. destruct (set_empty (b_buf st1)); exact H. }
  apply HX. destruct r as [e [|]| |bl]; cbn [snd].
  - apply sh_all_errors.
  - rewrite sh_cons, sh_app, !sh_all_retry. reflexivity.
  - apply hs_phase1_shape.
  - destruct (c_retry_max c =? 0)%nat; [apply hs_phase1_shape|].
    pose proof (hs_phase2_shape c bl (s_parts sent) (b_cur st) (s_parts (b_buf st))) as H2.
    destruct (hs_phase2 c bl (s_parts sent) (b_cur st) (s_parts (b_buf st))) as [[cur buf] e2]. cbn [snd] in *.
    rewrite sh_app, hs_phase1_shape, H2. reflexivity.
Qed.

Lemma bp_shape c ep st i : has_crash (snd (bp_step c ep st i)) = false -> sh false (snd (bp_step c ep st i)) = true.
Proof.
  unfold bp_step.
  assert (HX : has_crash (snd (fst (bp_core c ep st i))) = false -> sh false (snd (fst (bp_core c ep st i))) = true);
    [|destruct (bp_core c ep st i) as [[st' effs] upd]; exact HX].
  unfold bp_core. destruct i as [m| | | |sent r].
  - destruct (b_mode st); try (cbn; discriminate). destruct (b_wait st); try (cbn; discriminate). intros _.
    destruct (is_syn m) eqn:Es; [cbn [fst snd]; rewrite sh_cons; cbn [shape_ok]; rewrite (syn_not_data _ Es); reflexivity|].
    destruct (needs_retry st m); [cbn [fst snd]; rewrite sh_cons, sh_retry_msg; reflexivity|apply recv_data_shape].
  - intros _. destruct (b_mode st), (b_wait st); reflexivity.
  - intros _. destruct (b_timer st && flush_poll st); reflexivity.
  - intros _. destruct (flush_enabled st); [|reflexivity].
    destruct (b_wait st) as [|m|m].
    + reflexivity.
    + pose proof (after_over_shape c (with_wait (rollover st ep) WNone) m) as H.
      destruct (after_over c (with_wait (rollover st ep) WNone) m) as [[st2 e2] u]. cbn [fst snd] in *. exact H.
    + pose proof (do_add_shape c (with_wait (rollover st ep) WNone) m) as H.
      destruct (do_add c (with_wait (rollover st ep) WNone) m) as [[st2 e2] u]. cbn [fst snd] in *. exact H.
  - intros _. pose proof (handle_response_shape c ep st sent r) as H.
    destruct (handle_response c ep st sent r) as [st1 effs]. cbn [snd] in H.
    destruct (b_wait st1) as [|m|m]; [exact H| |].
    + destruct (needs_retry st1 m); [cbn [fst snd]; rewrite sh_app, H, sh_cons, sh_retry_msg; reflexivity|].
      destruct (would_overflow c (b_buf st1) m); [exact H|].
      pose proof (after_over_shape c (with_wait st1 WNone) m) as H2.
      destruct (after_over c (with_wait st1 WNone) m) as [[st2 e2] u]. cbn [fst snd] in *. rewrite sh_app, H, H2. reflexivity.
    + destruct (needs_retry st1 m); [cbn [fst snd]; rewrite sh_app, H, sh_cons, sh_retry_msg; reflexivity|exact H].
Qed.

Lemma rb_shape c ep k ms e l : sh false (rb_step c ep k ms e l) = true.
Proof.
  unfold rb_step. destruct (first_exhausted c ms); [destruct (c_fix_rb c); [apply sh_return_errors|reflexivity]|].
  destruct l; [reflexivity|apply sh_return_errors].
Qed.
