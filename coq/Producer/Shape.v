(* Producer proofs, part 4: which effects an actor can produce at all.
   [shape_ok disp e]: markers are the only messages created (ENew) or consumed (EDone); only the dispatcher
   accepts fresh messages (EAccept) or rejects them outside the counter (ERawErr); nobody sends to the
   dispatcher's input directly, and everything put on the retry path has been through retries++. *)
From Coq Require Import List ZArith Bool Arith Lia.
From SV Require Import Producer.Msg Producer.Actors Producer.Compose Producer.Weights Producer.Local Producer.Global.
Import ListNotations.
Open Scope Z_scope.

(* the internal markers a partition worker creates: &ProducerMessage{flags: syn} / {flags: fin} *)
Definition is_marker (m : msg) : bool := (m_id m =? -1) && ((m_flags m =? F_SYN) || (m_flags m =? F_FIN)).

Definition shape_ok (disp : bool) (e : effect) : bool :=
  match e with
  | ENew m => is_marker m
  | EDone m => negb (is_data m)
  | EAccept _ | ERawErr _ _ | EIc _ _ _ => disp
  | ESend DDisp _ => false
  | ESend DRetry m => negb (fresh_pass m)
  | _ => true
  end.
Definition sh (d : bool) (l : list effect) : bool := forallb (shape_ok d) l.
Lemma sh_app d a b : sh d (a ++ b) = sh d a && sh d b.
Proof. apply forallb_app. Qed.
Lemma sh_cons d x l : sh d (x :: l) = shape_ok d x && sh d l. Proof. reflexivity. Qed.
Lemma sh_mono l : sh false l = true -> sh true l = true.
Proof.
  induction l as [|e l IH]; [reflexivity|]. rewrite !sh_cons. intros H. apply andb_true_iff in H as [H1 H2].
  rewrite (IH H2), andb_true_r. destruct e; try exact H1; try reflexivity.
Qed.

Definition data_only (f : msg -> Z) : Prop := forall m, is_data m = false -> f m = 0.
Definition marker_free (f : msg -> Z) : Prop :=
  forall m, m_id m = -1 -> (m_flags m = F_SYN \/ m_flags m = F_FIN) -> f m = 0.
Definition nonneg (f : msg -> Z) : Prop := forall m, 0 <= f m.

Lemma data_only_marker_free f : data_only f -> marker_free f.
Proof. intros H m _ [E|E]; apply H; unfold is_data; rewrite E; reflexivity. Qed.
Lemma is_marker_free f m : marker_free f -> is_marker m = true -> f m = 0.
Proof.
  intros H E. unfold is_marker in E. apply andb_true_iff in E as [E1 E2]. apply Z.eqb_eq in E1.
  apply H; [exact E1|]. apply orb_true_iff in E2 as [E2|E2]; apply Z.eqb_eq in E2; auto.
Qed.
Lemma is_marker_not_data m : is_marker m = true -> is_data m = false.
Proof.
  unfold is_marker, is_data. intros E. apply andb_true_iff in E as [_ E2].
  apply orb_true_iff in E2 as [E2|E2]; apply Z.eqb_eq in E2; rewrite E2; reflexivity.
Qed.

Definition eff_ra (e : effect) : Z := match e with ERawErr _ _ | EAccept _ => 1 | _ => 0 end.

Lemma sh_new f d l : marker_free f -> sh d l = true -> esum (eff_new f) l = 0.
Proof.
  intros Hm. induction l as [|e l IH]; [reflexivity|]. rewrite sh_cons. intros H. apply andb_true_iff in H as [H1 H2].
  rewrite esum_cons, (IH H2). destruct e; try reflexivity. cbn in *. rewrite (is_marker_free f m Hm H1). reflexivity.
Qed.
Lemma sh_sink_nonneg f l : nonneg f -> 0 <= esum (eff_sink f) l.
Proof. intros Hn. induction l as [|e l IH]; [cbn; lia|]. rewrite esum_cons. destruct e; cbn [eff_sink]; try lia. specialize (Hn m). lia. Qed.
Lemma sh_sink_data f d l : data_only f -> sh d l = true -> esum (eff_sink f) l = 0.
Proof.
  intros Hd. induction l as [|e l IH]; [reflexivity|]. rewrite sh_cons. intros H. apply andb_true_iff in H as [H1 H2].
  rewrite esum_cons, (IH H2). destruct e; try reflexivity. cbn in *. apply negb_true_iff in H1. rewrite (Hd _ H1). reflexivity.
Qed.
Lemma sh_fresh d l : sh d l = true -> esum eff_fresh l = 0.
Proof.
  induction l as [|e l IH]; [reflexivity|]. rewrite sh_cons. intros H. apply andb_true_iff in H as [H1 H2].
  rewrite esum_cons, (IH H2). destruct e; try reflexivity. destruct d0; try reflexivity; cbn in *; [discriminate|].
  apply negb_true_iff in H1. unfold fresh_un. rewrite H1. reflexivity.
Qed.
Lemma sh_false_ra l : sh false l = true -> esum eff_ra l = 0.
Proof.
  induction l as [|e l IH]; [reflexivity|]. rewrite sh_cons. intros H. apply andb_true_iff in H as [H1 H2].
  rewrite esum_cons, (IH H2). destruct e; try reflexivity; cbn in H1; discriminate.
Qed.

(* for the constant weight: the identity that links the counter to the weights *)
Definition f1 : msg -> Z := fun _ => 1.
Lemma f1_stable : stable f1. Proof. intros m m' _ _. reflexivity. Qed.
Lemma eff_infl_split e : eff_infl e = eff_new f1 e - eff_sink f1 e - eff_event f1 e + eff_ra e.
Proof. destruct e; reflexivity. Qed.
Lemma esum_infl_split l :
  esum eff_infl l = esum (eff_new f1) l - esum (eff_sink f1) l - esum (eff_event f1) l + esum eff_ra l.
Proof. induction l as [|e l IH]; [reflexivity|]. rewrite !esum_cons, IH, eff_infl_split. lia. Qed.
Lemma esum_pe_split f l : esum (eff_pe f) l = esum (eff_place f) l + esum (eff_event f) l.
Proof. induction l as [|e l IH]; [reflexivity|]. rewrite !esum_cons, IH, eff_pe_split. lia. Qed.
Lemma esum_net_split f l : esum (eff_net f) l = esum (eff_pe f) l + esum (eff_sink f) l - esum (eff_new f) l.
Proof. induction l as [|e l IH]; [reflexivity|]. rewrite !esum_cons, IH. unfold eff_net. lia. Qed.

(* ---------------------------------------------------------------- marker bits *)

Lemma fin_not_data m : is_fin m = true -> is_data m = false.
Proof. unfold is_fin, is_data, F_FIN, F_DATA. intros H. apply Z.eqb_neq. intros E. rewrite E in H. discriminate. Qed.
Lemma syn_not_data m : is_syn m = true -> is_data m = false.
Proof. unfold is_syn, is_data, F_SYN, F_DATA. intros H. apply Z.eqb_neq. intros E. rewrite E in H. discriminate. Qed.
Lemma shut_not_data m : is_shut m = true -> is_data m = false.
Proof. unfold is_shut, is_data, F_SHUT, F_DATA. intros H. apply Z.eqb_neq. intros E. rewrite E in H. discriminate. Qed.

(* ---------------------------------------------------------------- helper lists *)

Lemma sh_retry_msg d c m e : shape_ok d (retry_msg c m e) = true.
Proof. unfold retry_msg. destruct (c_retry_max c <=? m_retries m)%nat; reflexivity. Qed.
Lemma sh_retry_msgs d c l e : sh d (retry_msgs c l e) = true.
Proof. unfold retry_msgs. induction l as [|m l IH]; [reflexivity|]. cbn [map]. rewrite sh_cons, sh_retry_msg, IH. reflexivity. Qed.
Lemma sh_return_errors d l e : sh d (return_errors l e) = true.
Proof. unfold return_errors. induction l; simpl; auto. Qed.
Lemma sh_successes d l b : sh d (successes l b) = true.
Proof. revert b; induction l; intros; simpl; auto. Qed.
Lemma sh_sends_cur d l : sh d (map (ESend DCur) l) = true.
Proof. induction l; simpl; auto. Qed.
Lemma sh_all_retry d c ps e : sh d (all_retry c ps e) = true.
Proof. induction ps as [|[k l] r IH]; [reflexivity|]. cbn [all_retry]. rewrite sh_app, sh_retry_msgs, IH. reflexivity. Qed.
Lemma sh_all_errors d ps e : sh d (all_errors ps e) = true.
Proof. induction ps as [|[k l] r IH]; [reflexivity|]. cbn [all_errors]. rewrite sh_app, sh_return_errors, IH. reflexivity. Qed.
Lemma sh_leader_effects d c t p b : sh d (leader_effects c t p b) = true.
Proof. reflexivity. Qed.

(* ---------------------------------------------------------------- actors *)

Lemma sh_apply_ics id k ics pan sz h : sh true (snd (apply_ics id k ics pan sz h)) = true.
Proof.
  revert k pan sz h. induction ics as [|ic r IH]; intros; [reflexivity|]. cbn [apply_ics].
  match goal with |- context [apply_ics id (S k) r ?a ?b ?d] => specialize (IH (S k) a b d); destruct (apply_ics id (S k) r a b d) as [res effs] end.
  cbn [snd] in *. rewrite sh_cons, IH. reflexivity.
Qed.

Lemma disp_shape c d m : sh true (snd (disp_step c d m)) = true /\
  esum eff_ra (snd (disp_step c d m)) = (if fresh_un m then 1 else 0).
Proof.
  assert (Hra : forall id k ics pan sz h, esum eff_ra (snd (apply_ics id k ics pan sz h)) = 0).
  { intros id k ics. revert k. induction ics as [|ic r IH]; intros; [reflexivity|]. cbn [apply_ics].
    match goal with |- context [apply_ics id (S k) r ?a ?b ?d] => specialize (IH (S k) a b d); destruct (apply_ics id (S k) r a b d) as [res effs] end.
    cbn [snd] in *. rewrite esum_cons, IH. reflexivity. }
  unfold disp_step, fresh_un.
  destruct (is_shut m) eqn:Es.
  { cbn [snd]. rewrite sh_cons. cbn [shape_ok]. rewrite (shut_not_data _ Es), andb_false_r. split; reflexivity. }
  destruct (fresh_pass m && d_shut d) eqn:Esd.
  { apply andb_true_iff in Esd as [-> _]. split; reflexivity. }
  set (doic := if c_fix_ic c then fresh_pass m && is_data m else true).
  assert (Hpre : sh true (if fresh_pass m then [EAccept m] else []) = true /\
                 esum eff_ra (if fresh_pass m then [EAccept m] else []) = (if fresh_pass m && negb false then 1 else 0))
    by (destruct (fresh_pass m); split; reflexivity).
  destruct Hpre as [P1 P2].
  destruct doic.
  - pose proof (sh_apply_ics (m_id m) 0%nat (c_ics c) (m_ipanic m) (m_size m) (m_hdr m)) as H1.
    pose proof (Hra (m_id m) 0%nat (c_ics c) (m_ipanic m) (m_size m) (m_hdr m)) as H2.
    destruct (apply_ics _ _ _ _ _ _) as [[sz h] ics]. cbn [snd] in *.
    destruct (negb (c_v2 c) && h); [|destruct (c_max_msg_bytes c <? sz)]; cbn [snd];
      rewrite !sh_app, !esum_app, H1, H2, P1, P2; split; cbn; try reflexivity; lia.
  - destruct (negb (c_v2 c) && m_hdr m); [|destruct (c_max_msg_bytes c <? m_size m)]; cbn [snd];
      rewrite !sh_app, !esum_app, P1, P2; split; cbn; try reflexivity; lia.
Qed.

Lemma tp_shape m : sh false (tp_step m) = true.
Proof. unfold tp_step. destruct (fresh_pass m); [destruct (0 <=? m_pres m)|]; reflexivity. Qed.

Lemma flush_sends_shape c t p : forall buf sq ep, sh false (fst (flush_sends c t p sq ep buf)) = true.
Proof.
  induction buf as [|m r IH]; intros; [reflexivity|]. cbn [flush_sends].
  destruct (c_idem c && fresh_pass m && is_data m && negb (m_hasseq m)).
  - specialize (IH (sq + 1) ep). destruct (flush_sends c t p (sq + 1) ep r) as [e sq']. cbn [fst] in *. rewrite !sh_cons, IH. reflexivity.
  - specialize (IH sq ep). destruct (flush_sends c t p sq ep r) as [e sq']. cbn [fst] in *. rewrite sh_cons, IH. reflexivity.
Qed.

Lemma flush_shape c t p : forall h hasbp leader lv stamp ls, sh false (snd (flush c t p h hasbp leader lv stamp ls)) = true.
Proof.
  induction h as [|h' IH]; intros; [reflexivity|]. cbn [flush].
  pose proof (flush_sends_shape c t p (l_buf (get_level h' lv)) (fst stamp) (snd stamp)) as FS.
  destruct (flush_sends c t p (fst stamp) (snd stamp) (l_buf (get_level h' lv))) as [fe sq']. cbn [fst] in FS.
  destruct hasbp.
  - destruct (l_chaser (get_level h' lv) || (h' =? 0)%nat); cbn [snd]; [exact FS|].
    specialize (IH true leader (set_buf h' [] lv) (sq', snd stamp) ls). destruct (flush c t p h' true leader _ _ ls) as [res e2].
    cbn [snd] in *. rewrite sh_app, FS, IH. reflexivity.
  - destruct (next_lres ls) as [[b|e] r].
    + destruct (l_chaser (get_level h' lv) || (h' =? 0)%nat); cbn [snd]; [rewrite sh_app, FS; reflexivity|].
      specialize (IH true b (set_buf h' [] lv) (sq', snd stamp) r). destruct (flush c t p h' true b _ _ r) as [res e2].
      cbn [snd] in *. rewrite !sh_app, FS, IH. reflexivity.
    + destruct (l_chaser (get_level h' lv) || (h' =? 0)%nat); cbn [snd]; [apply sh_return_errors|].
      match goal with |- context [flush c t p h' false leader (set_buf h' [] lv) ?sx r] => specialize (IH false leader (set_buf h' [] lv) sx r) end. destruct (flush c t p h' false leader _ _ r) as [res e2].
      cbn [snd] in *. rewrite sh_app, sh_return_errors, IH. reflexivity.
Qed.

Lemma pp_forward_shape c t p st m stamp ls pre : sh false pre = true ->
  sh false (snd (pp_forward c t p st m stamp ls pre)) = true.
Proof.
  intros Hp. unfold pp_forward. destruct (p_has_bp st).
  - destruct (c_idem c && fresh_pass m && is_data m); cbn [snd]; rewrite !sh_app, Hp; reflexivity.
  - destruct (next_lres ls) as [[b|e] r].
    + destruct (c_idem c && fresh_pass m && is_data m); cbn [snd]; rewrite !sh_app, Hp; reflexivity.
    + cbn [snd]. rewrite sh_app, Hp. reflexivity.
Qed.

Lemma pp_shape c t p st m ab stamp ls : sh false (snd (pp_step c t p st m ab stamp ls)) = true.
Proof.
  unfold pp_step.
  set (e1 := if p_has_bp st && ab then [EUnref] else []).
  assert (He1 : sh false e1 = true) by (subst e1; destruct (p_has_bp st && ab); reflexivity).
  set (st1 := if p_has_bp st && ab then _ else st).
  destruct (p_hwm st1 <? m_retries m)%nat.
  - assert (HG : match pp_guard c t p st1 ls with inl (stg, eg, ls1) => sh false eg = true | inr _ => True end).
    { unfold pp_guard. destruct (p_has_bp st1); [reflexivity|]. destruct (next_lres ls) as [[b|e] r]; [apply sh_leader_effects|exact I]. }
    destruct (pp_guard c t p st1 ls) as [[[stg eg] ls1]|e].
    + destruct (c_retry_max c <? m_retries m)%nat; [cbn [snd]; rewrite !sh_app, He1, HG; reflexivity|].
      apply pp_forward_shape. rewrite !sh_app, He1, HG. reflexivity.
    + cbn [snd]. rewrite sh_app, He1. reflexivity.
  - destruct (0 <? p_hwm st1)%nat; [|apply pp_forward_shape, He1].
    destruct (m_retries m <? p_hwm st1)%nat.
    + destruct (length (p_levels st1) <=? m_retries m)%nat; [cbn [snd]; rewrite sh_app, He1; reflexivity|].
      destruct (is_fin m) eqn:Ef; cbn [snd]; [|exact He1].
      rewrite sh_app, He1, sh_cons. cbn [shape_ok]. rewrite (fin_not_data _ Ef). reflexivity.
    + destruct (is_fin m) eqn:Ef; [|apply pp_forward_shape, He1].
      pose proof (flush_shape c t p (p_hwm st1) (p_has_bp st1) (p_leader st1) (set_chaser (p_hwm st1) false (p_levels st1)) stamp ls) as Hfl.
      destruct (flush c t p (p_hwm st1) (p_has_bp st1) (p_leader st1) _ stamp ls) as [[[[h' hasbp] leader] lv'] effs].
      cbn [snd] in *. rewrite !sh_app, He1, Hfl, sh_cons. cbn [shape_ok]. rewrite (fin_not_data _ Ef). reflexivity.
Qed.

Lemma pp_init_shape c t p l : sh false (snd (pp_init c t p l)) = true.
Proof. destruct l; reflexivity. Qed.

Lemma do_add_shape c st m : sh false (snd (fst (do_add c st m))) = true.
Proof.
  unfold do_add. destruct (m_encfail m); [reflexivity|].
  match goal with |- context [if ?b then _ else _] => destruct b end; reflexivity.
Qed.
Lemma after_over_shape c st m : sh false (snd (fst (after_over c st m))) = true.
Proof. unfold after_over. destruct (c_idem c && negb (s_epoch (b_buf st) =? m_epoch m)); [reflexivity|apply do_add_shape]. Qed.
Lemma recv_data_shape c st m : sh false (snd (fst (recv_data c st m))) = true.
Proof. unfold recv_data. destruct (would_overflow c (b_buf st) m); [reflexivity|apply after_over_shape]. Qed.

Lemma hs_phase1_shape c b r ps : sh false (hs_phase1 c b r ps) = true.
Proof.
  induction ps as [|[k l] rest IH]; [reflexivity|]. cbn [hs_phase1]. rewrite sh_app, IH, andb_true_r.
  destruct r as [e enc| |bl]; [reflexivity|apply sh_successes|].
  destruct (block_lookup k bl) as [[e off]|]; [|apply sh_return_errors].
  destruct (e =? 0); [apply sh_successes|]. destruct (e =? E_DUPLICATE); [apply sh_successes|].
  destruct (retriable e); destruct (c_retry_max c =? 0)%nat; cbn [app]; rewrite ?sh_cons, ?sh_return_errors; reflexivity.
Qed.
Lemma hs_phase2_shape c bl : forall ps cur buf, sh false (snd (hs_phase2 c bl ps cur buf)) = true.
Proof.
  induction ps as [|[k l] r IH]; intros; [reflexivity|]. cbn [hs_phase2].
  destruct (block_lookup k bl) as [[e off]|]; [|apply IH]. destruct (retriable e); [|apply IH].
  specialize (IH (cur_set k e cur) (part_drop k buf)).
  destruct (hs_phase2 c bl r (cur_set k e cur) (part_drop k buf)) as [[cur' buf'] effs']. cbn [snd] in *.
  rewrite !sh_app, IH, sh_retry_msgs. destruct (c_idem c); [reflexivity|]. rewrite sh_retry_msgs. reflexivity.
Qed.
Lemma handle_response_shape c ep st sent r : sh false (snd (handle_response c ep st sent r)) = true.
Proof.
  unfold handle_response.
  assert (HX : forall X : bp * list effect, sh false (snd X) = true ->
     sh false (snd (let '(st1, effs) := X in if set_empty (b_buf st1) then (rollover st1 (ep + bumps effs), effs) else (st1, effs))) = true).
  { intros [st1 effs] H. destruct (set_empty (b_buf st1)); exact H. }
  apply HX. destruct r as [e [|]| |bl]; cbn [snd].
  - apply sh_all_errors.
  - rewrite sh_cons, sh_app, !sh_all_retry. reflexivity.
  - apply hs_phase1_shape.
  - destruct (c_retry_max c =? 0)%nat; [apply hs_phase1_shape|].
    pose proof (hs_phase2_shape c bl (s_parts sent) (b_cur st) (s_parts (b_buf st))) as H2.
    destruct (hs_phase2 c bl (s_parts sent) (b_cur st) (s_parts (b_buf st))) as [[cur buf] e2]. cbn [snd] in *.
    rewrite sh_app, hs_phase1_shape, H2. reflexivity.
Qed.

Lemma bp_shape c ep st i : has_crash (snd (bp_step c ep st i)) = false -> sh false (snd (bp_step c ep st i)) = true.
Proof.
  unfold bp_step.
  assert (HX : has_crash (snd (fst (bp_core c ep st i))) = false -> sh false (snd (fst (bp_core c ep st i))) = true);
    [|destruct (bp_core c ep st i) as [[st' effs] upd]; exact HX].
  unfold bp_core. destruct i as [m| | | |sent r].
  - destruct (b_mode st); try (cbn; discriminate). destruct (b_wait st); try (cbn; discriminate). intros _.
    destruct (is_syn m) eqn:Es; [cbn [fst snd]; rewrite sh_cons; cbn [shape_ok]; rewrite (syn_not_data _ Es); reflexivity|].
    destruct (needs_retry st m); [cbn [fst snd]; rewrite sh_cons, sh_retry_msg; reflexivity|].
    destruct (is_fin m); [cbn [fst snd]; rewrite sh_cons, sh_retry_msg; reflexivity|apply recv_data_shape].
  - intros _. destruct (b_mode st), (b_wait st); reflexivity.
  - intros _. destruct (b_timer st && flush_poll st); reflexivity.
  - intros _. destruct (flush_enabled st); [|reflexivity].
    destruct (b_wait st) as [|m|m].
    + reflexivity.
    + pose proof (after_over_shape c (with_wait (rollover st ep) WNone) m) as H.
      destruct (after_over c (with_wait (rollover st ep) WNone) m) as [[st2 e2] u]. cbn [fst snd] in *. exact H.
    + pose proof (do_add_shape c (with_wait (rollover st ep) WNone) m) as H.
      destruct (do_add c (with_wait (rollover st ep) WNone) m) as [[st2 e2] u]. cbn [fst snd] in *. exact H.
  - intros _. pose proof (handle_response_shape c ep st sent r) as H.
    destruct (handle_response c ep st sent r) as [st1 effs]. cbn [snd] in H.
    destruct (b_wait st1) as [|m|m]; [exact H| |].
    + destruct (needs_retry st1 m); [cbn [fst snd]; rewrite sh_app, H, sh_cons, sh_retry_msg; reflexivity|].
      destruct (would_overflow c (b_buf st1) m); [exact H|].
      pose proof (after_over_shape c (with_wait st1 WNone) m) as H2.
      destruct (after_over c (with_wait st1 WNone) m) as [[st2 e2] u]. cbn [fst snd] in *. rewrite sh_app, H, H2. reflexivity.
    + destruct (needs_retry st1 m); [cbn [fst snd]; rewrite sh_app, H, sh_cons, sh_retry_msg; reflexivity|exact H].
Qed.

Lemma rb_shape c ep k ms e l : sh false (rb_step c ep k ms e l) = true.
Proof.
  unfold rb_step. destruct (first_exhausted c ms); [destruct (c_fix_rb c); [apply sh_return_errors|reflexivity]|].
  destruct l; [reflexivity|apply sh_return_errors].
Qed.

(* ---------------------------------------------------------------- only partition workers create messages *)

Definition no_new (l : list effect) : bool := forallb (fun e => match e with ENew _ => false | _ => true end) l.
Lemma no_new_app a b : no_new (a ++ b) = no_new a && no_new b.
Proof. apply forallb_app. Qed.
Lemma no_new_sum f l : no_new l = true -> esum (eff_new f) l = 0.
Proof.
  induction l as [|e l IH]; [reflexivity|]. cbn [no_new forallb]. intros H. apply andb_true_iff in H as [H1 H2].
  rewrite esum_cons, (IH H2). destruct e; try reflexivity; discriminate.
Qed.
Lemma nn_retry_msgs c l e : no_new (retry_msgs c l e) = true.
Proof.
  unfold retry_msgs. induction l as [|m l IH]; [reflexivity|]. cbn [map no_new forallb]. fold (no_new (map (fun m0 => retry_msg c m0 e) l)).
  rewrite IH. unfold retry_msg. destruct (c_retry_max c <=? m_retries m)%nat; reflexivity.
Qed.
Lemma nn_retry_msg c m e : no_new [retry_msg c m e] = true.
Proof. unfold retry_msg. destruct (c_retry_max c <=? m_retries m)%nat; reflexivity. Qed.
Lemma nn_return_errors l e : no_new (return_errors l e) = true.
Proof. unfold return_errors. induction l; simpl; auto. Qed.
Lemma nn_successes l b : no_new (successes l b) = true.
Proof. revert b; induction l; intros; simpl; auto. Qed.
Lemma nn_all_retry c ps e : no_new (all_retry c ps e) = true.
Proof. induction ps as [|[k l] r IH]; [reflexivity|]. cbn [all_retry]. rewrite no_new_app, nn_retry_msgs, IH. reflexivity. Qed.
Lemma nn_all_errors ps e : no_new (all_errors ps e) = true.
Proof. induction ps as [|[k l] r IH]; [reflexivity|]. cbn [all_errors]. rewrite no_new_app, nn_return_errors, IH. reflexivity. Qed.

Lemma nn_apply_ics id k ics pan sz h : no_new (snd (apply_ics id k ics pan sz h)) = true.
Proof.
  revert k pan sz h. induction ics as [|ic r IH]; intros; [reflexivity|]. cbn [apply_ics].
  match goal with |- context [apply_ics id (S k) r ?a ?b ?d] => specialize (IH (S k) a b d); destruct (apply_ics id (S k) r a b d) as [res effs] end.
  cbn [snd] in *. cbn [no_new forallb]. exact IH.
Qed.
Lemma nn_disp c d m : no_new (snd (disp_step c d m)) = true.
Proof.
  unfold disp_step. destruct (is_shut m); [reflexivity|]. destruct (fresh_pass m && d_shut d); [reflexivity|].
  assert (P : no_new (if fresh_pass m then [EAccept m] else []) = true) by (destruct (fresh_pass m); reflexivity).
  set (doic := if c_fix_ic c then fresh_pass m && is_data m else true). destruct doic.
  - pose proof (nn_apply_ics (m_id m) 0%nat (c_ics c) (m_ipanic m) (m_size m) (m_hdr m)) as H1.
    destruct (apply_ics _ _ _ _ _ _) as [[sz h] ics]. cbn [snd] in *.
    destruct (negb (c_v2 c) && h); [|destruct (c_max_msg_bytes c <? sz)]; cbn [snd]; rewrite !no_new_app, P, H1; reflexivity.
  - destruct (negb (c_v2 c) && m_hdr m); [|destruct (c_max_msg_bytes c <? m_size m)]; cbn [snd]; rewrite !no_new_app, P; reflexivity.
Qed.
Lemma nn_tp m : no_new (tp_step m) = true.
Proof. unfold tp_step. destruct (fresh_pass m); [destruct (0 <=? m_pres m)|]; reflexivity. Qed.

Lemma nn_do_add c st m : no_new (snd (fst (do_add c st m))) = true.
Proof. unfold do_add. destruct (m_encfail m); [reflexivity|]. match goal with |- context [if ?b then _ else _] => destruct b end; reflexivity. Qed.
Lemma nn_after_over c st m : no_new (snd (fst (after_over c st m))) = true.
Proof. unfold after_over. destruct (c_idem c && negb (s_epoch (b_buf st) =? m_epoch m)); [reflexivity|apply nn_do_add]. Qed.
Lemma nn_recv_data c st m : no_new (snd (fst (recv_data c st m))) = true.
Proof. unfold recv_data. destruct (would_overflow c (b_buf st) m); [reflexivity|apply nn_after_over]. Qed.
Lemma nn_hs_phase1 c b r ps : no_new (hs_phase1 c b r ps) = true.
Proof.
  induction ps as [|[k l] rest IH]; [reflexivity|]. cbn [hs_phase1]. rewrite no_new_app, IH, andb_true_r.
  destruct r as [e enc| |bl]; [reflexivity|apply nn_successes|].
  destruct (block_lookup k bl) as [[e off]|]; [|apply nn_return_errors].
  destruct (e =? 0); [apply nn_successes|]. destruct (e =? E_DUPLICATE); [apply nn_successes|].
  destruct (retriable e); destruct (c_retry_max c =? 0)%nat; cbn [app no_new forallb]; rewrite ?nn_return_errors; try reflexivity;
    fold (no_new (return_errors l e)); rewrite nn_return_errors; reflexivity.
Qed.
Lemma nn_hs_phase2 c bl : forall ps cur buf, no_new (snd (hs_phase2 c bl ps cur buf)) = true.
Proof.
  induction ps as [|[k l] r IH]; intros; [reflexivity|]. cbn [hs_phase2].
  destruct (block_lookup k bl) as [[e off]|]; [|apply IH]. destruct (retriable e); [|apply IH].
  specialize (IH (cur_set k e cur) (part_drop k buf)).
  destruct (hs_phase2 c bl r (cur_set k e cur) (part_drop k buf)) as [[cur' buf'] effs']. cbn [snd] in *.
  rewrite !no_new_app, IH, nn_retry_msgs. destruct (c_idem c); [reflexivity|]. rewrite nn_retry_msgs. reflexivity.
Qed.
Lemma nn_handle_response c ep st sent r : no_new (snd (handle_response c ep st sent r)) = true.
Proof.
  unfold handle_response.
  assert (HX : forall X : bp * list effect, no_new (snd X) = true ->
     no_new (snd (let '(st1, effs) := X in if set_empty (b_buf st1) then (rollover st1 (ep + bumps effs), effs) else (st1, effs))) = true).
  { intros [st1 effs] H. destruct (set_empty (b_buf st1)); exact H. }
  apply HX. destruct r as [e [|]| |bl]; cbn [snd].
  - apply nn_all_errors.
  - cbn [no_new forallb]. fold (no_new (all_retry c (s_parts sent) e ++ all_retry c (s_parts (b_buf st)) e)).
    rewrite no_new_app, !nn_all_retry. reflexivity.
  - apply nn_hs_phase1.
  - destruct (c_retry_max c =? 0)%nat; [apply nn_hs_phase1|].
    pose proof (nn_hs_phase2 c bl (s_parts sent) (b_cur st) (s_parts (b_buf st))) as H2.
    destruct (hs_phase2 c bl (s_parts sent) (b_cur st) (s_parts (b_buf st))) as [[cur buf] e2]. cbn [snd] in *.
    rewrite no_new_app, nn_hs_phase1, H2. reflexivity.
Qed.
Lemma nn_bp c ep st i : no_new (snd (bp_step c ep st i)) = true.
Proof.
  unfold bp_step.
  assert (HX : no_new (snd (fst (bp_core c ep st i))) = true); [|destruct (bp_core c ep st i) as [[st' effs] upd]; exact HX].
  unfold bp_core. destruct i as [m| | | |sent r].
  - destruct (b_mode st); try reflexivity. destruct (b_wait st); try reflexivity.
    destruct (is_syn m); [reflexivity|]. destruct (needs_retry st m); [apply nn_retry_msg|]. destruct (is_fin m); [apply nn_retry_msg|apply nn_recv_data].
  - destruct (b_mode st), (b_wait st); reflexivity.
  - destruct (b_timer st && flush_poll st); reflexivity.
  - destruct (flush_enabled st); [|reflexivity]. destruct (b_wait st) as [|m|m]; [reflexivity| |].
    + pose proof (nn_after_over c (with_wait (rollover st ep) WNone) m) as H.
      destruct (after_over c (with_wait (rollover st ep) WNone) m) as [[st2 e2] u]. cbn [fst snd] in *. exact H.
    + pose proof (nn_do_add c (with_wait (rollover st ep) WNone) m) as H.
      destruct (do_add c (with_wait (rollover st ep) WNone) m) as [[st2 e2] u]. cbn [fst snd] in *. exact H.
  - pose proof (nn_handle_response c ep st sent r) as H.
    destruct (handle_response c ep st sent r) as [st1 effs]. cbn [snd] in H.
    destruct (b_wait st1) as [|m|m]; [exact H| |].
    + destruct (needs_retry st1 m); [cbn [fst snd]; rewrite no_new_app, H, nn_retry_msg; reflexivity|].
      destruct (would_overflow c (b_buf st1) m); [exact H|].
      pose proof (nn_after_over c (with_wait st1 WNone) m) as H2.
      destruct (after_over c (with_wait st1 WNone) m) as [[st2 e2] u]. cbn [fst snd] in *. rewrite no_new_app, H, H2. reflexivity.
    + destruct (needs_retry st1 m); [cbn [fst snd]; rewrite no_new_app, H, nn_retry_msg; reflexivity|exact H].
Qed.
Lemma nn_rb c ep k ms e l : no_new (rb_step c ep k ms e l) = true.
Proof.
  unfold rb_step. destruct (first_exhausted c ms); [destruct (c_fix_rb c); [apply nn_return_errors|reflexivity]|].
  destruct l; [reflexivity|apply nn_return_errors].
Qed.
