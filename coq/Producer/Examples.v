(* Producer model: concrete runs.  The two confirmed defects of the pinned tree on the faithful pre-repair
   configurations (c_fix_rb = false / c_fix_ic = false), and non-trivial instances of the theorems. *)
From Coq Require Import List ZArith Bool Arith Lia.
From SV Require Import Producer.Msg Producer.Actors Producer.Compose Producer.Weights Producer.Global
                       Producer.Shape Producer.Conservation Producer.Shutdown Producer.Interceptors.
Import ListNotations.
Open Scope Z_scope.

Definition ex_msg (i : Z) : msg := mkMsg i 0 0 0%nat 0 50 false 0 false 0 0 false [false; false].

(* idempotent, Retry.Max = 1, Flush.Messages = 2; fixrb says whether fixes/c01_retrybatch.patch is applied *)
Definition cfg_idem (fixrb : bool) : cfg := mkCfg 1%nat true true 1000000 104847360 2 0 true 0 [] fixrb true.
Definition notleader : resp := RBlocks [((0, 0), (6, 0))].

(* two messages form one batch; the broker answers NotLeaderForPartition twice *)
Definition sched_retrybatch : list choice :=
  [CSubmit (ex_msg 1); CSubmit (ex_msg 2); CDisp; CDisp; CTp 0; CTp 0; CPp 0 0 [LOk 1]; CPp 0 0 [];
   CBpRecv 0; CBpRecv 0; CBpRecv 0; CBpFlush 0; CBridge 0; CAnswer 0 notleader; CBpResp 0;
   CRb 0 (LOk 1); CBridge 0; CAnswer 0 notleader; CBpResp 0; CRb 0 (LOk 1)].

(* pre-repair: message 2 has no token left and no outcome, inFlight stays at 1 with an empty pipeline:
   the outcome is lost and Close never returns *)
Theorem refuted_retrybatch :
  let s := run (cfg_idem false) sched_retrybatch in
  submissions 2 s = 1 /\ tokens 2 s = 0 /\ outcomes 2 s = 0 /\ outcomes 1 s = 1 /\
  g_inflight s = 1 /\ total f1 s = 0 /\ g_panic s = None.
Proof. vm_compute. repeat split; reflexivity. Qed.

(* repaired: both messages get their error event and inFlight returns to 0 *)
Example repaired_retrybatch :
  let s := run (cfg_idem true) sched_retrybatch in
  outcomes 1 s = 1 /\ outcomes 2 s = 1 /\ tokens 1 s = 0 /\ tokens 2 s = 0 /\ g_inflight s = 0.
Proof. vm_compute. repeat split; reflexivity. Qed.

(* plain producer, Retry.Max = 2, one counting and one header-adding interceptor *)
Definition cfg_ic (fixic : bool) : cfg :=
  mkCfg 2%nat false true 1000000 104847360 0 0 false 0 [mkIc false 0; mkIc true 13] true fixic.
Definition sched_interceptor_retry : list choice :=
  [CSubmit (ex_msg 1); CDisp; CTp 0; CPp 0 0 [LOk 1]; CBpRecv 0; CBpRecv 0; CBpFlush 0; CBridge 0;
   CAnswer 0 notleader; CBpResp 0;                                  (* message 1 bounces: retries = 1 *)
   CRetry; CDisp; CTp 0; CPp 0 0 [LOk 1];                           (* second pass; the partition worker sends its fin *)
   CBpRecv 0; CRetry; CDisp].                                       (* the fin marker bounces and passes the dispatcher *)

Definition log_count (id : Z) (k : nat) (l : list (Z * nat * bool)) : nat :=
  length (filter (fun x => Z.eqb (fst (fst x)) id && Nat.eqb (snd (fst x)) k) l).

(* pre-repair: interceptor 0 ran twice on message 1 and once on the internal marker (identity -1) *)
Theorem refuted_interceptors :
  let s := run (cfg_ic false) sched_interceptor_retry in
  log_count 1 0 (g_ilog s) = 2%nat /\ log_count (-1) 0 (g_ilog s) = 1%nat /\ submissions 1 s = 1.
Proof. vm_compute. repeat split; reflexivity. Qed.
Example repaired_interceptors :
  let s := run (cfg_ic true) sched_interceptor_retry in
  g_ilog s = [(1, 0%nat, false); (1, 1%nat, false)].
Proof. vm_compute. reflexivity. Qed.

(* a non-trivial reachable state for the invariants: one message delivered, one still buffered behind a retry *)
Definition sched_mixed : list choice :=
  [CSubmit (ex_msg 1); CSubmit (ex_msg 2); CDisp; CTp 0; CPp 0 0 [LOk 1]; CBpRecv 0; CBpRecv 0; CBpFlush 0; CBridge 0;
   CAnswer 0 (RBlocks [((0, 0), (0, 7))]); CBpResp 0; CDisp; CTp 0].
Example mixed_state :
  let s := run (cfg_ic true) sched_mixed in
  outcomes 1 s = 1 /\ tokens 1 s = 0 /\ tokens 2 s = 1 /\ outcomes 2 s = 0 /\ g_inflight s = 1 /\ total f1 s = 1 /\ unacc s = 0.
Proof. vm_compute. repeat split; reflexivity. Qed.

(* shutdown: after AsyncClose the marker passes, inFlight reaches 0, the channels are closed; a late step changes nothing *)
Definition sched_close : list choice := sched_mixed ++
  [CPp 0 0 []; CBpRecv 0; CBpFlush 0; CBridge 0; CAnswer 0 (RBlocks [((0, 0), (0, 8))]); CBpResp 0;
   CAsyncClose; CDisp; CShutWake; CShutClose; CBpFlush 0; CSubmit (ex_msg 3)].
Example closed_state :
  let s := run (cfg_ic true) sched_close in
  g_closed s = true /\ outcomes 1 s = 1 /\ outcomes 2 s = 1 /\ outcomes 3 s = 0 /\ submissions 3 s = 0 /\ g_panic s = None /\ total f1 s = 0.
Proof. vm_compute. repeat split; reflexivity. Qed.
