(* Producer proofs, part 10: no actor of the composition is a dead end (the safety half of "Close returns").
   - a partition worker that holds parked messages is expecting the chaser of its current level, and that chaser
     is in transit towards it (no lost chaser);
   - a broker worker that holds messages can always hand them on (flush enabled, or its timer is armed);
   - a broker worker that stopped reading its input has an empty input.
   Together with Progress.progress_partial (dispatcher, retry handler, shutdown) every place that can hold a
   message has an owner whose next step is enabled.  What is NOT proved here is the ranking function that turns
   this into termination of a completing schedule (see Complete.v for the executable criterion). *)
From Coq Require Import List ZArith Bool Arith Lia.
From SV Require Import Producer.Msg Producer.Actors Producer.Compose Producer.Weights Producer.Local Producer.Global
                       Producer.Shape Producer.Conservation Producer.Shutdown Producer.Markers.
Import ListNotations.
Open Scope Z_scope.

(* ================================================================ partition worker: local invariant *)

Lemma upd_level_length i f ls : length (upd_level i f ls) = length ls.
Proof. revert i; induction ls as [|l r IH]; intros [|i]; simpl; auto. Qed.
Lemma get_upd_level i j f ls :
  get_level i (upd_level j f ls) = if (i =? j)%nat && (j <? length ls)%nat then f (get_level i ls) else get_level i ls.
Proof.
  unfold get_level. revert i j. induction ls as [|l r IH]; intros i j.
  - destruct j; cbn; rewrite andb_false_r; destruct i; reflexivity.
  - destruct j as [|j]; destruct i as [|i]; cbn [upd_level nth length]; try reflexivity.
    + rewrite IH. replace (S i =? S j)%nat with (i =? j)%nat by reflexivity.
      replace (S j <? S (length r))%nat with (j <? length r)%nat by reflexivity. reflexivity.
Qed.

Definition pp_ok (c : cfg) (st : pp) : Prop :=
  length (p_levels st) = S (c_retry_max c) /\
  l_chaser (get_level 0 (p_levels st)) = false /\
  ((0 < p_hwm st)%nat -> l_chaser (get_level (p_hwm st) (p_levels st)) = true) /\
  (p_hwm st <= c_retry_max c)%nat /\
  (forall i, (p_hwm st <= i)%nat -> l_buf (get_level i (p_levels st)) = []) /\
  (forall i, (p_hwm st < i)%nat -> l_chaser (get_level i (p_levels st)) = false).

Lemma repeat_get n i : get_level i (repeat level0 n) = level0.
Proof. unfold get_level. revert i; induction n; intros [|i]; cbn; auto. Qed.
Lemma pp_ok_fresh c hb ld : pp_ok c (mkPp 0%nat (repeat level0 (S (c_retry_max c))) hb ld).
Proof.
  unfold pp_ok. cbn [p_levels p_hwm]. rewrite repeat_length. split; [reflexivity|]. split; [rewrite repeat_get; reflexivity|].
  split; [intros H; lia|]. split; [lia|]. split; intros i _; rewrite repeat_get; reflexivity.
Qed.
Lemma pp_ok_init c t p l : pp_ok c (fst (pp_init c t p l)).
Proof. destruct l; cbn [pp_init fst]; [|unfold pp_init_state]; apply pp_ok_fresh. Qed.

(* what flushRetryBuffers does to the levels *)
Lemma flush_levels c t p : forall h hasbp leader lv stamp ls,
  let '(h', _, _, lv') := fst (flush c t p h hasbp leader lv stamp ls) in
  has_crash (snd (flush c t p h hasbp leader lv stamp ls)) = false ->
  length lv' = length lv /\ (h' < h)%nat /\
  (forall i, l_chaser (get_level i lv') = l_chaser (get_level i lv)) /\
  (l_chaser (get_level h' lv) = true \/ h' = 0%nat) /\
  (forall i, (h' <= i < h)%nat -> l_buf (get_level i lv') = []) /\
  (forall i, (i < h')%nat \/ (h <= i)%nat -> l_buf (get_level i lv') = l_buf (get_level i lv)).
Proof.
  induction h as [|h' IH]; intros hasbp leader lv stamp ls; [cbn; discriminate|].
  cbn [flush].
  assert (SB : length (set_buf h' [] lv) = length lv) by apply upd_level_length.
  assert (GC : forall i, l_chaser (get_level i (set_buf h' [] lv)) = l_chaser (get_level i lv)).
  { intros i. unfold set_buf. rewrite get_upd_level. destruct ((i =? h')%nat && (h' <? length lv)%nat); reflexivity. }
  assert (GB : forall i, l_buf (get_level i (set_buf h' [] lv)) = if (i =? h')%nat && (h' <? length lv)%nat then [] else l_buf (get_level i lv)).
  { intros i. unfold set_buf. rewrite get_upd_level. destruct ((i =? h')%nat && (h' <? length lv)%nat); reflexivity. }
  assert (GE : l_buf (get_level h' (set_buf h' [] lv)) = []).
  { rewrite GB, Nat.eqb_refl. cbn [andb]. destruct (h' <? length lv)%nat eqn:E; [reflexivity|].
    apply Nat.ltb_ge in E. unfold get_level. rewrite nth_overflow by exact E. reflexivity. }
  assert (STOP : l_chaser (get_level h' lv) || (h' =? 0)%nat = true ->
                 length (set_buf h' [] lv) = length lv /\ (h' < S h')%nat /\
                 (forall i, l_chaser (get_level i (set_buf h' [] lv)) = l_chaser (get_level i lv)) /\
                 (l_chaser (get_level h' lv) = true \/ h' = 0%nat) /\
                 (forall i, (h' <= i < S h')%nat -> l_buf (get_level i (set_buf h' [] lv)) = []) /\
                 (forall i, (i < h')%nat \/ (S h' <= i)%nat -> l_buf (get_level i (set_buf h' [] lv)) = l_buf (get_level i lv))).
  { intros Estop. split; [exact SB|]. split; [lia|]. split; [exact GC|]. split.
    - apply orb_true_iff in Estop as [E|E]; [left; exact E|right; apply Nat.eqb_eq, E].
    - split.
      + intros i Hi. assert (i = h') by lia. subst i. exact GE.
      + intros i Hi. rewrite GB. destruct (i =? h')%nat eqn:E; [apply Nat.eqb_eq in E; lia|reflexivity]. }
  assert (REC : forall hb1 ld1 st1 ls1 effs1,
    (let '(h'', _, _, lv'') := fst (flush c t p h' hb1 ld1 (set_buf h' [] lv) st1 ls1) in
     has_crash (snd (flush c t p h' hb1 ld1 (set_buf h' [] lv) st1 ls1)) = false ->
     length lv'' = length (set_buf h' [] lv) /\ (h'' < h')%nat /\
     (forall i, l_chaser (get_level i lv'') = l_chaser (get_level i (set_buf h' [] lv))) /\
     (l_chaser (get_level h'' (set_buf h' [] lv)) = true \/ h'' = 0%nat) /\
     (forall i, (h'' <= i < h')%nat -> l_buf (get_level i lv'') = []) /\
     (forall i, (i < h'')%nat \/ (h' <= i)%nat -> l_buf (get_level i lv'') = l_buf (get_level i (set_buf h' [] lv)))) ->
    let '(h'', _, _, lv'') := fst (let '(res, effs2) := flush c t p h' hb1 ld1 (set_buf h' [] lv) st1 ls1 in (res, effs1 ++ effs2)) in
    has_crash (snd (let '(res, effs2) := flush c t p h' hb1 ld1 (set_buf h' [] lv) st1 ls1 in (res, effs1 ++ effs2))) = false ->
    length lv'' = length lv /\ (h'' < S h')%nat /\
    (forall i, l_chaser (get_level i lv'') = l_chaser (get_level i lv)) /\
    (l_chaser (get_level h'' lv) = true \/ h'' = 0%nat) /\
    (forall i, (h'' <= i < S h')%nat -> l_buf (get_level i lv'') = []) /\
    (forall i, (i < h'')%nat \/ (S h' <= i)%nat -> l_buf (get_level i lv'') = l_buf (get_level i lv))).
  { intros hb1 ld1 st1 ls1 effs1.
    destruct (flush c t p h' hb1 ld1 (set_buf h' [] lv) st1 ls1) as [[[[h'' hb] ld] lv''] effs2]. cbn [fst snd].
    intros IH1 Hc. rewrite has_crash_app in Hc. apply orb_false_iff in Hc as [_ Hc2].
    destruct (IH1 Hc2) as (A & B & C & D & E & F).
    split; [lia|]. split; [lia|]. split; [intros i; rewrite C; apply GC|]. split.
    - destruct D as [D|D]; [left; rewrite <- GC; exact D|right; exact D].
    - split.
      + intros i Hi. destruct (Nat.lt_ge_cases i h') as [L|G]; [apply E; lia|].
        assert (i = h') by lia. subst i. rewrite F by lia. exact GE.
      + intros i Hi. rewrite F by lia. rewrite GB. destruct (i =? h')%nat eqn:E2; [apply Nat.eqb_eq in E2; lia|reflexivity]. }
  destruct (flush_sends c t p (fst stamp) (snd stamp) (l_buf (get_level h' lv))) as [fe sq'].
  destruct hasbp.
  - destruct (l_chaser (get_level h' lv) || (h' =? 0)%nat) eqn:Estop; [cbn [fst snd]; intros _; apply STOP; reflexivity|].
    apply REC, IH.
  - destruct (next_lres ls) as [[b|e] r].
    + destruct (l_chaser (get_level h' lv) || (h' =? 0)%nat) eqn:Estop; [cbn [fst snd]; intros _; apply STOP; reflexivity|].
      apply REC, IH.
    + destruct (l_chaser (get_level h' lv) || (h' =? 0)%nat) eqn:Estop; [cbn [fst snd]; intros _; apply STOP; reflexivity|].
      apply REC, IH.
Qed.

(* the levels flushRetryBuffers passes without stopping are not expecting a chaser *)
Lemma flush_skips c t p : forall h hasbp leader lv stamp ls,
  let '(h', _, _, _) := fst (flush c t p h hasbp leader lv stamp ls) in
  forall i, (h' < i < h)%nat -> l_chaser (get_level i lv) = false.
Proof.
  induction h as [|h' IH]; intros hasbp leader lv stamp ls; [cbn; intros i Hi; lia|].
  cbn [flush].
  assert (GC : forall i, l_chaser (get_level i (set_buf h' [] lv)) = l_chaser (get_level i lv)).
  { intros i. unfold set_buf. rewrite get_upd_level. destruct ((i =? h')%nat && (h' <? length lv)%nat); reflexivity. }
  assert (REC : l_chaser (get_level h' lv) || (h' =? 0)%nat = false -> forall hb1 ld1 st1 ls1 effs1,
    let '(h'', _, _, _) := fst (let '(res, effs2) := flush c t p h' hb1 ld1 (set_buf h' [] lv) st1 ls1 in (res, effs1 ++ effs2)) in
    forall i, (h'' < i < S h')%nat -> l_chaser (get_level i lv) = false).
  { intros Estop hb1 ld1 st1 ls1 effs1. specialize (IH hb1 ld1 (set_buf h' [] lv) st1 ls1).
    destruct (flush c t p h' hb1 ld1 (set_buf h' [] lv) st1 ls1) as [[[[h'' hb] ld] lv''] effs2]. cbn [fst] in *.
    intros i Hi. destruct (Nat.eq_dec i h') as [->|Ne]; [apply orb_false_iff in Estop as [E _]; exact E|].
    rewrite <- GC. apply IH. lia. }
  destruct (flush_sends c t p (fst stamp) (snd stamp) (l_buf (get_level h' lv))) as [fe sq'].
  destruct hasbp.
  - destruct (l_chaser (get_level h' lv) || (h' =? 0)%nat) eqn:Estop; [cbn [fst]; intros i Hi; lia|]. apply REC. reflexivity.
  - destruct (next_lres ls) as [[b|e] r].
    + destruct (l_chaser (get_level h' lv) || (h' =? 0)%nat) eqn:Estop; [cbn [fst]; intros i Hi; lia|]. apply REC. reflexivity.
    + destruct (l_chaser (get_level h' lv) || (h' =? 0)%nat) eqn:Estop; [cbn [fst]; intros i Hi; lia|]. apply REC. reflexivity.
Qed.

Lemma pp_forward_levels c t p st m stamp ls pre :
  p_levels (fst (pp_forward c t p st m stamp ls pre)) = p_levels st /\ p_hwm (fst (pp_forward c t p st m stamp ls pre)) = p_hwm st.
Proof.
  unfold pp_forward. destruct (p_has_bp st).
  - destruct (c_idem c && fresh_pass m && is_data m); split; reflexivity.
  - destruct (next_lres ls) as [[b|e] r]; [destruct (c_idem c && fresh_pass m && is_data m)|]; split; reflexivity.
Qed.

Lemma pp_ok_step c t p st m ab stamp ls : pp_ok c st ->
  has_crash (snd (pp_step c t p st m ab stamp ls)) = false -> pp_ok c (fst (pp_step c t p st m ab stamp ls)).
Proof.
  intros (L & C0 & CH & HM & BE & TOP). unfold pp_step.
  set (st1 := if p_has_bp st && ab then _ else st).
  assert (E1 : p_levels st1 = p_levels st /\ p_hwm st1 = p_hwm st) by (subst st1; destruct (p_has_bp st && ab); split; reflexivity).
  destruct E1 as [EL EH].
  set (e1 := if p_has_bp st && ab then [EUnref] else []).
  assert (SAME : forall s2, p_levels s2 = p_levels st -> p_hwm s2 = p_hwm st -> pp_ok c s2).
  { intros s2 A B. unfold pp_ok. rewrite A, B. repeat split; assumption. }
  destruct (p_hwm st1 <? m_retries m)%nat eqn:Enew.
  - (* newHighWatermark, behind the guard *)
    apply Nat.ltb_lt in Enew.
    destruct (pp_guard c t p st1 ls) as [[[stg eg] ls1]|e] eqn:G; [|intros _; cbn [fst]; apply SAME; assumption].
    destruct (pp_guard_inl (fun _ => 0) _ _ _ _ _ _ _ _ G) as (GL & GH & _ & _ & GC & _).
    destruct (c_retry_max c <? m_retries m)%nat eqn:Emax; [cbn [snd]; rewrite !has_crash_app; simpl; rewrite !orb_true_r; discriminate|].
    apply Nat.ltb_ge in Emax.
    intros _. match goal with |- pp_ok c (fst (pp_forward c t p ?s2 m stamp ls1 ?pre)) => destruct (pp_forward_levels c t p s2 m stamp ls1 pre) as [FL FH] end.
    unfold pp_ok. rewrite FL, FH. cbn [p_levels p_hwm]. rewrite ?GL, ?GH, ?EL, ?EH in *.
    unfold set_chaser. rewrite upd_level_length.
    split; [exact L|]. split.
    + rewrite get_upd_level. destruct ((0 =? m_retries m)%nat && _) eqn:E; [apply andb_true_iff in E as [E _]; apply Nat.eqb_eq in E; lia|exact C0].
    + split.
      * intros _. rewrite get_upd_level, Nat.eqb_refl. cbn [andb]. assert (X : (m_retries m <? length (p_levels st))%nat = true) by (apply Nat.ltb_lt; lia). rewrite X. reflexivity.
      * split; [exact Emax|]. split.
        -- intros i Hi. rewrite get_upd_level. destruct ((i =? m_retries m)%nat && _); cbn [l_buf]; apply BE; lia.
        -- intros i Hi. rewrite get_upd_level. destruct ((i =? m_retries m)%nat) eqn:E; [apply Nat.eqb_eq in E; lia|]. cbn [andb]. apply TOP. lia.
  - apply Nat.ltb_ge in Enew.
    destruct (0 <? p_hwm st1)%nat eqn:Epos.
    + apply Nat.ltb_lt in Epos.
      destruct (m_retries m <? p_hwm st1)%nat eqn:Elow.
      * apply Nat.ltb_lt in Elow.
        destruct (length (p_levels st1) <=? m_retries m)%nat eqn:Elen; [cbn [snd]; rewrite has_crash_app; cbn; rewrite orb_true_r; discriminate|].
        apply Nat.leb_gt in Elen. rewrite ?EL, ?EH in *.
        destruct (is_fin m); intros _; cbn [fst]; unfold pp_ok; cbn [p_levels p_hwm].
        -- unfold set_chaser. rewrite upd_level_length, ?EL, ?EH. split; [exact L|]. split.
           ++ rewrite get_upd_level. destruct ((0 =? m_retries m)%nat && _); [reflexivity|exact C0].
           ++ split.
              ** intros Hp. rewrite get_upd_level. destruct ((p_hwm st =? m_retries m)%nat) eqn:E; [apply Nat.eqb_eq in E; lia|]. cbn [andb]. apply CH, Hp.
              ** split; [exact HM|]. split.
                 --- intros i Hi. rewrite get_upd_level. destruct ((i =? m_retries m)%nat && _); cbn [l_buf]; apply BE; lia.
                 --- intros i Hi. rewrite get_upd_level. destruct ((i =? m_retries m)%nat && _); [reflexivity|apply TOP, Hi].
        -- unfold push_buf. rewrite upd_level_length, ?EL, ?EH. split; [exact L|]. split.
           ++ rewrite get_upd_level. destruct ((0 =? m_retries m)%nat && _); cbn [l_chaser]; exact C0.
           ++ split.
              ** intros Hp. rewrite get_upd_level. destruct ((p_hwm st =? m_retries m)%nat && _); cbn [l_chaser]; apply CH, Hp.
              ** split; [exact HM|]. split.
                 --- intros i Hi. rewrite get_upd_level. destruct ((i =? m_retries m)%nat) eqn:E; [apply Nat.eqb_eq in E; lia|]. cbn [andb]. apply BE, Hi.
                 --- intros i Hi. rewrite get_upd_level. destruct ((i =? m_retries m)%nat && _); cbn [l_chaser]; apply TOP, Hi.
      * apply Nat.ltb_ge in Elow. destruct (is_fin m).
        -- (* the chaser of the current level: flush *)
           pose proof (flush_levels c t p (p_hwm st1) (p_has_bp st1) (p_leader st1) (set_chaser (p_hwm st1) false (p_levels st1)) stamp ls) as FLv.
           pose proof (flush_skips c t p (p_hwm st1) (p_has_bp st1) (p_leader st1) (set_chaser (p_hwm st1) false (p_levels st1)) stamp ls) as FSk.
           destruct (flush c t p (p_hwm st1) (p_has_bp st1) (p_leader st1) _ stamp ls) as [[[[h' hasbp] leader] lv'] effs]. cbn [fst snd] in *.
           intros Hc. rewrite !has_crash_app in Hc. apply orb_false_iff in Hc as [_ Hc]. apply orb_false_iff in Hc as [Hc _].
           destruct (FLv Hc) as (A & B & Cc & D & E & F). rewrite ?EL, ?EH in *.
           assert (SC : forall i, l_chaser (get_level i (set_chaser (p_hwm st) false (p_levels st))) =
                         if (i =? p_hwm st)%nat && (p_hwm st <? length (p_levels st))%nat then false else l_chaser (get_level i (p_levels st))).
           { intros i. unfold set_chaser. rewrite get_upd_level. destruct ((i =? p_hwm st)%nat && _); reflexivity. }
           assert (SBf : forall i, l_buf (get_level i (set_chaser (p_hwm st) false (p_levels st))) = l_buf (get_level i (p_levels st))).
           { intros i. unfold set_chaser. rewrite get_upd_level. destruct ((i =? p_hwm st)%nat && _); reflexivity. }
           unfold set_chaser in A. rewrite upd_level_length in A.
           unfold pp_ok. cbn [p_levels p_hwm]. split; [lia|]. split.
           ++ rewrite Cc, SC. destruct ((0 =? p_hwm st)%nat && _); [reflexivity|exact C0].
           ++ split.
              ** intros Hp. destruct D as [D|D]; [|lia]. rewrite Cc. exact D.
              ** split; [lia|]. split.
                 --- intros i Hi. destruct (Nat.lt_ge_cases i (p_hwm st)) as [Lt|Ge]; [apply E; lia|].
                     rewrite F by lia. rewrite SBf. apply BE, Ge.
                 --- intros i Hi. rewrite Cc. destruct (Nat.lt_ge_cases i (p_hwm st)) as [Lt|Ge]; [apply FSk; lia|].
                     rewrite SC. destruct ((i =? p_hwm st)%nat) eqn:Ei.
                     +++ apply Nat.eqb_eq in Ei. subst i. destruct (p_hwm st <? length (p_levels st))%nat eqn:El; [reflexivity|].
                         cbn [andb]. apply Nat.ltb_ge in El. unfold get_level. rewrite nth_overflow by exact El. reflexivity.
                     +++ cbn [andb]. apply Nat.eqb_neq in Ei. apply TOP. lia.
        -- intros _. match goal with |- pp_ok c (fst (pp_forward c t p ?s2 m stamp ls ?pre)) => destruct (pp_forward_levels c t p s2 m stamp ls pre) as [FL FH] end.
           apply SAME; congruence.
    + intros _. match goal with |- pp_ok c (fst (pp_forward c t p ?s2 m stamp ls ?pre)) => destruct (pp_forward_levels c t p s2 m stamp ls pre) as [FL FH] end.
      apply SAME; congruence.
Qed.

(* ================================================================ frames: worker states and queues under effects *)

Lemma tpk_eqb_true a b : tpk_eqb a b = true -> a = b.
Proof. destruct a, b. unfold tpk_eqb. cbn. intros H. apply andb_true_iff in H as [H1 H2]. apply Z.eqb_eq in H1, H2. congruence. Qed.
Lemma tpk_eqb_refl a : tpk_eqb a a = true.
Proof. destruct a. unfold tpk_eqb. cbn. rewrite !Z.eqb_refl. reflexivity. Qed.

Lemma pp_get_set k' k x l : pp_get k' (pp_set k x l) = if tpk_eqb k' k then Some x else pp_get k' l.
Proof.
  induction l as [|[k0 y] r IH]; cbn [pp_set pp_get].
  - destruct (tpk_eqb k' k); reflexivity.
  - destruct (tpk_eqb k k0) eqn:E; cbn [pp_get].
    + apply tpk_eqb_true in E. subst k0. destruct (tpk_eqb k' k); reflexivity.
    + destruct (tpk_eqb k' k0) eqn:E2.
      * destruct (tpk_eqb k' k) eqn:E3; [|reflexivity]. apply tpk_eqb_true in E2, E3. subst. rewrite tpk_eqb_refl in E. discriminate.
      * exact IH.
Qed.

(* the local state of partition worker k *)
Definition ppst (k : tpk) (s : state) : option pp := option_map pr_st (pp_get k (g_pps s)).

Lemma ppst_set_handle k s w h : ppst k (set_handle s w h) = ppst k s.
Proof.
  unfold ppst, set_handle. destruct w as [k0| |]; try reflexivity.
  destruct (pp_get k0 (g_pps s)) as [x|] eqn:E; [|reflexivity]. cbn [set_pps g_pps]. rewrite pp_get_set.
  destruct (tpk_eqb k k0) eqn:E2; [|reflexivity]. apply tpk_eqb_true in E2. subst. rewrite E. reflexivity.
Qed.
Lemma ppst_apply_eff c w s e k : ppst k (apply_eff c w s e) = ppst k s.
Proof.
  destruct e; cbn [apply_eff]; try reflexivity.
  - destruct d; try reflexivity. destruct (handle_of s w); [|reflexivity]. destruct (nth_error (g_bps s) n); [|reflexivity]. destruct (i_in_closed b); reflexivity.
  - unfold emit. destruct (g_closed s); destruct (m_hasseq m); reflexivity.
  - unfold emit. destruct (g_closed s); reflexivity.
  - unfold emit. destruct (g_closed s); reflexivity.
  - destruct (handle_of s w); [|reflexivity]. rewrite ppst_set_handle. reflexivity.
  - destruct (get_bp s broker) as [s1 b] eqn:E. rewrite ppst_set_handle. unfold get_bp in E.
    destruct (find_reg broker (g_bps s) 0%nat); injection E as <- _; reflexivity.
  - destruct (find_reg broker (g_bps s) 0%nat); reflexivity.
  - destruct w; try reflexivity. destruct (nth_error (g_bps s) b); reflexivity.
  - destruct (get_bp s broker) as [s1 b] eqn:E. unfold get_bp in E.
    destruct (find_reg broker (g_bps s) 0%nat); injection E as <- _; reflexivity.
Qed.
Lemma ppst_apply_effs c w l k : forall s, ppst k (apply_effs c w s l) = ppst k s.
Proof. induction l as [|e l IH]; intros s; [reflexivity|]. cbn [apply_effs fold_left]. fold (apply_effs c w (apply_eff c w s e) l). rewrite IH. apply ppst_apply_eff. Qed.

(* queues only grow under effects *)
Lemma get_bp_q s br : g_q (fst (get_bp s br)) = g_q s.
Proof. unfold get_bp. destruct (find_reg br (g_bps s) 0%nat); reflexivity. Qed.
Lemma apply_eff_q_mono c w s e d m : In m (q_get d (g_q s)) -> In m (q_get d (g_q (apply_eff c w s e))).
Proof.
  intros H.
  assert (PUSH : forall d0 m0, In m (q_get d (g_q (set_q s (q_push d0 m0 (g_q s)))))).
  { intros d0 m0. cbn [set_q g_q]. rewrite q_get_push. destruct (dest_eqb d d0) eqn:E; [|exact H].
    apply dest_eqb_true in E. subst. apply in_or_app. left. exact H. }
  destruct e; cbn [apply_eff]; try exact H.
  - destruct d0; try apply PUSH. destruct (handle_of s w); [|exact H]. destruct (nth_error (g_bps s) n); [|exact H]. destruct (i_in_closed b); [exact H|apply PUSH].
  - unfold emit. destruct (g_closed s); destruct (m_hasseq m0); exact H.
  - unfold emit. destruct (g_closed s); exact H.
  - unfold emit. destruct (g_closed s); exact H.
  - destruct (handle_of s w); [|exact H]. destruct (set_handle_frame (set_bps s (bp_upd n bi_unref (g_bps s))) w None) as (X & _). rewrite X. exact H.
  - destruct (get_bp s broker) as [s1 b] eqn:E. destruct (set_handle_frame s1 w (Some b)) as (X & _). rewrite X.
    replace s1 with (fst (get_bp s broker)) by (rewrite E; reflexivity). rewrite get_bp_q. exact H.
  - destruct (find_reg broker (g_bps s) 0%nat); exact H.
  - destruct w; try exact H. destruct (nth_error (g_bps s) b); exact H.
  - destruct (get_bp s broker) as [s1 b] eqn:E. cbn [set_bps g_q].
    replace s1 with (fst (get_bp s broker)) by (rewrite E; reflexivity). rewrite get_bp_q. exact H.
Qed.
Lemma apply_effs_q_mono c w l d m : forall s, In m (q_get d (g_q s)) -> In m (q_get d (g_q (apply_effs c w s l))).
Proof. induction l as [|e l IH]; intros s H; [exact H|]. cbn [apply_effs fold_left]. apply IH, apply_eff_q_mono, H. Qed.

(* a message sent to a named queue is there afterwards *)
Lemma apply_effs_sent c w l d m : d <> DCur -> In (ESend d m) l -> forall s, In m (q_get d (g_q (apply_effs c w s l))).
Proof.
  intros Hd. induction l as [|e l IH]; intros Hin s; [destruct Hin|]. cbn [apply_effs fold_left].
  destruct Hin as [->|Hin]; [|apply IH, Hin].
  apply apply_effs_q_mono. cbn [apply_eff]. destruct d; try contradiction; cbn [set_q g_q]; rewrite q_get_push, dest_eqb_refl; apply in_or_app; right; left; reflexivity.
Qed.
(* a message sent to "my broker worker" lands in the input of some broker worker *)
Lemma apply_effs_sent_cur c w l m : In (ESend DCur m) l -> forall s, g_panic (apply_effs c w s l) = None ->
  exists b, In m (q_get (DBp b) (g_q (apply_effs c w s l))).
Proof.
  induction l as [|e l IH]; intros Hin s Hp; [destruct Hin|]. cbn [apply_effs fold_left] in *.
  fold (apply_effs c w (apply_eff c w s e) l) in *.
  destruct Hin as [->|Hin]; [|apply IH; assumption].
  assert (Hp1 : g_panic (apply_eff c w s (ESend DCur m)) = None).
  { destruct (g_panic (apply_eff c w s (ESend DCur m))) eqn:E; [|reflexivity].
    exfalso. apply (apply_effs_sticky c w l (apply_eff c w s (ESend DCur m))); [rewrite E; discriminate|exact Hp]. }
  cbn [apply_eff] in *. destruct (handle_of s w) as [b|]; [|discriminate]. destruct (nth_error (g_bps s) b) as [x|]; [|discriminate].
  destruct (i_in_closed x); [discriminate|]. exists b. apply apply_effs_q_mono. cbn [set_q g_q]. rewrite q_get_push, dest_eqb_refl.
  apply in_or_app. right. left. reflexivity.
Qed.

(* ================================================================ the chaser of every expected level is in transit *)

Definition marker_size (c : cfg) : Z := if c_v2 c then 36 else 26.
Definition isfin (c : cfg) (k : tpk) (m : msg) : Prop :=
  m_flags m = F_FIN /\ (m_topic m, m_part m) = k /\ m_hdr m = false /\ m_size m = marker_size c.
Definition good_dest (k : tpk) (d : dest) : bool :=
  match d with
  | DBp _ | DRetry | DDisp => true
  | DTopic t => t =? fst k
  | DPart t p => tpk_eqb (t, p) k
  | DCur => false
  end.
(* the retry level a chaser will have when it is back at the partition worker *)
Definition lvl (d : dest) (m : msg) : nat := match d with DBp _ => S (m_retries m) | _ => m_retries m end.
Definition transit (c : cfg) (k : tpk) (h : nat) (s : state) : Prop :=
  exists d m, In m (q_get d (g_q s)) /\ isfin c k m /\ good_dest k d = true /\ lvl d m = h.

Lemma isfin_is_fin c k m : isfin c k m -> is_fin m = true /\ is_syn m = false /\ is_shut m = false /\ is_data m = false.
Proof. intros (F & _). unfold is_fin, is_syn, is_shut, is_data. rewrite F. repeat split. Qed.
Lemma isfin_marker c t p r : isfin c (t, p) (marker c t p F_FIN r).
Proof. unfold isfin, marker, marker_size. cbn. repeat split. Qed.
Lemma isfin_set_retries c k m r : isfin c k m -> isfin c k (set_retries m r).
Proof. intros H. exact H. Qed.

Lemma pp_forward_in c t p st m stamp ls pre e : In e pre -> In e (snd (pp_forward c t p st m stamp ls pre)).
Proof.
  intros H. unfold pp_forward. destruct (p_has_bp st).
  - destruct (c_idem c && fresh_pass m && is_data m); cbn [snd]; apply in_or_app; left; exact H.
  - destruct (next_lres ls) as [[b|e0] r]; [destruct (c_idem c && fresh_pass m && is_data m)|]; cbn [snd]; apply in_or_app; left; exact H.
Qed.

(* which levels expect a chaser after one partition-worker step *)
Lemma pp_step_chasers c t p st m ab stamp ls h : pp_ok c st ->
  has_crash (snd (pp_step c t p st m ab stamp ls)) = false ->
  l_chaser (get_level h (p_levels (fst (pp_step c t p st m ab stamp ls)))) = true ->
  (h = m_retries m /\ (1 <= h)%nat /\ In (ESend DCur (marker c t p F_FIN (h - 1)%nat)) (snd (pp_step c t p st m ab stamp ls))) \/
  (l_chaser (get_level h (p_levels st)) = true /\ (is_fin m = true -> m_retries m <> h)).
Proof.
  intros (L & C0 & CH & HM & BE & TOP). unfold pp_step.
  set (st1 := if p_has_bp st && ab then _ else st).
  assert (E1 : p_levels st1 = p_levels st /\ p_hwm st1 = p_hwm st) by (subst st1; destruct (p_has_bp st && ab); split; reflexivity).
  destruct E1 as [EL EH].
  set (e1 := if p_has_bp st && ab then [EUnref] else []).
  destruct (p_hwm st1 <? m_retries m)%nat eqn:Enew.
  - apply Nat.ltb_lt in Enew.
    destruct (pp_guard c t p st1 ls) as [[[stg eg] ls1]|e] eqn:G.
    2:{ intros _. cbn [fst]. rewrite EL. intros Hc. right. split; [exact Hc|]. intros _ Hr.
        rewrite TOP in Hc by lia. discriminate. }
    destruct (pp_guard_inl (fun _ => 0) _ _ _ _ _ _ _ _ G) as (GL & GH & _ & _ & GC & _).
    destruct (c_retry_max c <? m_retries m)%nat eqn:Emax; [cbn [snd]; rewrite !has_crash_app; simpl; rewrite !orb_true_r; discriminate|].
    apply Nat.ltb_ge in Emax.
    intros _.
    match goal with |- context [pp_forward c t p ?s2 m stamp ls1 ?pre] =>
      destruct (pp_forward_levels c t p s2 m stamp ls1 pre) as [FL _];
      assert (FI : In (ESend DCur (marker c t p F_FIN (m_retries m - 1)%nat)) (snd (pp_forward c t p s2 m stamp ls1 pre)))
        by (apply pp_forward_in; apply in_or_app; right; apply in_or_app; right; right; left; reflexivity);
      destruct (pp_forward c t p s2 m stamp ls1 pre) as [stf ef] end.
    cbn [fst snd] in *. rewrite FL. cbn [p_levels]. rewrite GL, EL. unfold set_chaser. rewrite get_upd_level.
    destruct (h =? m_retries m)%nat eqn:E.
    + apply Nat.eqb_eq in E. intros _. left. split; [exact E|]. split; [lia|]. subst h. exact FI.
    + cbn [andb]. intros Hc. right. split; [exact Hc|]. intros _ Hr. apply Nat.eqb_neq in E. congruence.
  - apply Nat.ltb_ge in Enew.
    assert (KEEP : l_chaser (get_level h (p_levels st)) = true -> (m_retries m <> h \/ is_fin m = false) ->
                   (h = m_retries m /\ (1 <= h)%nat /\ False) \/ (l_chaser (get_level h (p_levels st)) = true /\ (is_fin m = true -> m_retries m <> h))).
    { intros Hc [Hn|Hf]; right; split; try exact Hc; intros Hfin; [exact Hn|congruence]. }
    destruct (0 <? p_hwm st1)%nat eqn:Epos.
    + apply Nat.ltb_lt in Epos.
      destruct (m_retries m <? p_hwm st1)%nat eqn:Elow.
      * apply Nat.ltb_lt in Elow.
        destruct (length (p_levels st1) <=? m_retries m)%nat eqn:Elen; [cbn [snd]; rewrite has_crash_app; cbn; rewrite orb_true_r; discriminate|].
        destruct (is_fin m) eqn:Ef; intros _; cbn [fst p_levels]; rewrite ?EL.
        -- unfold set_chaser. rewrite get_upd_level. destruct (h =? m_retries m)%nat eqn:E.
           ++ apply Nat.leb_gt in Elen. rewrite EL in Elen. assert (X : (m_retries m <? length (p_levels st))%nat = true) by (apply Nat.ltb_lt; lia).
              rewrite X. cbn. discriminate.
           ++ cbn [andb]. intros Hc. right. split; [exact Hc|]. intros _ Hr. apply Nat.eqb_neq in E. congruence.
        -- unfold push_buf. rewrite get_upd_level. intros Hc. right. split; [|intros; discriminate].
           destruct ((h =? m_retries m)%nat && _); exact Hc.
      * apply Nat.ltb_ge in Elow. destruct (is_fin m) eqn:Ef.
        -- pose proof (flush_levels c t p (p_hwm st1) (p_has_bp st1) (p_leader st1) (set_chaser (p_hwm st1) false (p_levels st1)) stamp ls) as FLv.
           destruct (flush c t p (p_hwm st1) (p_has_bp st1) (p_leader st1) _ stamp ls) as [[[[h' hasbp] leader] lv'] effs]. cbn [fst snd] in *.
           intros Hcr. rewrite !has_crash_app in Hcr. apply orb_false_iff in Hcr as [_ Hcr]. apply orb_false_iff in Hcr as [Hcr _].
           destruct (FLv Hcr) as (_ & _ & Cc & _). cbn [p_levels]. rewrite Cc, EL, EH. unfold set_chaser. rewrite get_upd_level.
           destruct (h =? p_hwm st)%nat eqn:E.
           ++ assert (X : (p_hwm st <? length (p_levels st))%nat = true) by (apply Nat.ltb_lt; lia). rewrite X. cbn. discriminate.
           ++ cbn [andb]. intros Hc. right. split; [exact Hc|]. intros _ Hr. apply Nat.eqb_neq in E. rewrite EH in *. lia.
        -- intros _. match goal with |- context [pp_forward c t p ?s2 m stamp ls ?pre] => destruct (pp_forward_levels c t p s2 m stamp ls pre) as [FL _] end.
           rewrite FL, EL. intros Hc. right. split; [exact Hc|intros; discriminate].
    + apply Nat.ltb_ge in Epos. intros _.
      match goal with |- context [pp_forward c t p ?s2 m stamp ls ?pre] => destruct (pp_forward_levels c t p s2 m stamp ls pre) as [FL _] end.
      rewrite FL, EL. intros Hc. right. split; [exact Hc|].
      (* hwm = 0 and retries <= hwm: the message has retries 0; level 0 never expects a chaser *)
      intros _ Hr. rewrite EH in *. assert (H0 : h = 0%nat) by lia. rewrite H0, C0 in Hc. discriminate.
Qed.

Definition linv (c : cfg) (s : state) : Prop :=
  (forall k st, ppst k s = Some st -> pp_ok c st) /\
  (forall k st h, ppst k s = Some st -> l_chaser (get_level h (p_levels st)) = true -> transit c k h s).

Lemma pop_frame d0 s m0 s1 : pop d0 s = Some (m0, s1) ->
  (forall d m, In m (q_get d (g_q s)) -> In m (q_get d (g_q s1)) \/ (d = d0 /\ m = m0)) /\ g_pps s1 = g_pps s.
Proof.
  unfold pop. destruct (q_get d0 (g_q s)) as [|m' r] eqn:E; [discriminate|]. intros H. injection H as <- <-. split; [|reflexivity].
  intros d m Hin. cbn [set_q g_q]. rewrite q_get_set. destruct (dest_eqb d d0) eqn:Ed; [|left; exact Hin].
  apply dest_eqb_true in Ed. subst d. rewrite E in Hin. destruct Hin as [<-|Hin]; [right; split; reflexivity|left; exact Hin].
Qed.

Lemma transit_keep c k h s s' d0 m0 :
  (forall d m, In m (q_get d (g_q s)) -> In m (q_get d (g_q s')) \/ (d = d0 /\ m = m0)) ->
  transit c k h s -> transit c k h s' \/ (isfin c k m0 /\ good_dest k d0 = true /\ lvl d0 m0 = h).
Proof.
  intros F (d & m & Hin & Hf & Hg & Hl). destruct (F d m Hin) as [H|[-> ->]]; [left; exists d, m; auto|right; auto].
Qed.
Lemma transit_mono c k h s s' : (forall d m, In m (q_get d (g_q s)) -> In m (q_get d (g_q s'))) -> transit c k h s -> transit c k h s'.
Proof. intros F (d & m & Hin & R). exists d, m. split; [apply F, Hin|exact R]. Qed.

Lemma set_body_same m : set_body m (m_size m) (m_hdr m) = m.
Proof. destruct m; reflexivity. Qed.

(* where a chaser goes when its holder handles it *)
Lemma disp_fin_forwarded c d k m : c_fix_ic c = true -> marker_size c <= c_max_msg_bytes c -> isfin c k m -> (1 <= m_retries m)%nat ->
  In (ESend (DTopic (m_topic m)) m) (snd (disp_step c d m)).
Proof.
  intros Hic Hsz Hf Hr. destruct (isfin_is_fin c k m Hf) as (_ & _ & Es & Ed). destruct Hf as (_ & _ & Hh & Hs).
  unfold disp_step. rewrite Es, Hic, Ed.
  assert (Fp : fresh_pass m = false) by (unfold fresh_pass; destruct (m_retries m); [lia|reflexivity]).
  rewrite Fp. cbn [andb]. cbv beta iota zeta. rewrite Hh, andb_false_r.
  assert (X : (c_max_msg_bytes c <? m_size m) = false) by (apply Z.ltb_ge; lia). rewrite X. cbn [snd app].
  rewrite <- Hh, set_body_same. left. reflexivity.
Qed.
Lemma bp_fin_bounced c ep st k m : flush_poll st = true -> isfin c k m -> (m_retries m < c_retry_max c)%nat ->
  In (ESend DRetry (set_retries m (S (m_retries m)))) (snd (bp_step c ep st (BRecv m))).
Proof.
  intros Hp Hf Hr. destruct (isfin_is_fin c k m Hf) as (Ef & Esy & _).
  assert (RM : forall e, retry_msg c m e = ESend DRetry (set_retries m (S (m_retries m)))).
  { intros e. unfold retry_msg. assert (X : (c_retry_max c <=? m_retries m)%nat = false) by (apply Nat.leb_gt; lia). rewrite X. reflexivity. }
  unfold bp_step, bp_core. unfold flush_poll in Hp. destruct (b_mode st); try discriminate. destruct (b_wait st); try discriminate.
  rewrite Esy. destruct (needs_retry st m); [cbn [snd]; rewrite RM; left; reflexivity|]. rewrite Ef. cbn [snd]. rewrite RM. left. reflexivity.
Qed.

Lemma run_bp_frame c s b x i k :
  ppst k (run_bp c s b x i) = ppst k s /\ (forall d m, In m (q_get d (g_q s)) -> In m (q_get d (g_q (run_bp c s b x i)))).
Proof.
  unfold run_bp. destruct (bp_step c (g_epoch s) (i_st x) i) as [st' effs]. split.
  - rewrite ppst_apply_effs. reflexivity.
  - intros d m H. apply apply_effs_q_mono. exact H.
Qed.

Lemma chaser_range c st h : pp_ok c st -> l_chaser (get_level h (p_levels st)) = true -> (1 <= h <= c_retry_max c)%nat.
Proof.
  intros (L & C0 & _) H. split.
  - destruct h; [rewrite C0 in H; discriminate|lia].
  - destruct (le_lt_dec h (c_retry_max c)) as [?|G]; [assumption|]. unfold get_level in H. rewrite nth_overflow in H by lia. discriminate.
Qed.
Lemma pp_init_no_chaser c t p l h : l_chaser (get_level h (p_levels (fst (pp_init c t p l)))) = false.
Proof. destruct l; cbn [pp_init fst]; [|unfold pp_init_state]; cbn [p_levels]; rewrite repeat_get; reflexivity. Qed.
Lemma q_push_mono d0 m0 q d m : In m (q_get d q) -> In m (q_get d (q_push d0 m0 q)).
Proof.
  intros H. rewrite q_get_push. destruct (dest_eqb d d0) eqn:E; [|exact H]. apply dest_eqb_true in E. subst. apply in_or_app. left. exact H.
Qed.
Lemma q_push_in d0 m0 q : In m0 (q_get d0 (q_push d0 m0 q)).
Proof. rewrite q_get_push, dest_eqb_refl. apply in_or_app. right. left. reflexivity. Qed.

(* steps that leave the partition workers alone and only add to queues *)
Lemma linv_mono c s s' : (forall k, ppst k s' = ppst k s) -> (forall d m, In m (q_get d (g_q s)) -> In m (q_get d (g_q s'))) ->
  linv c s -> linv c s'.
Proof.
  intros P Q [A B]. split.
  - intros k st H. rewrite P in H. eapply A, H.
  - intros k st h H Hc. rewrite P in H. eapply transit_mono; [exact Q|]. eapply B; eassumption.
Qed.
(* steps that take one message off a queue and must say where a chaser went *)
Lemma linv_move c s s' d0 m0 : (forall k, ppst k s' = ppst k s) ->
  (forall d m, In m (q_get d (g_q s)) -> In m (q_get d (g_q s')) \/ (d = d0 /\ m = m0)) ->
  (forall k st, ppst k s = Some st -> pp_ok c st -> l_chaser (get_level (lvl d0 m0) (p_levels st)) = true -> isfin c k m0 -> good_dest k d0 = true ->
     transit c k (lvl d0 m0) s') ->
  linv c s -> linv c s'.
Proof.
  intros P Q R [A B]. split.
  - intros k st H. rewrite P in H. eapply A, H.
  - intros k st h H Hc. rewrite P in H. destruct (transit_keep c k h s s' d0 m0 Q (B k st h H Hc)) as [T|(F & G & <-)]; [exact T|].
    eapply R; eauto.
Qed.

(* one partition-worker iteration *)
Lemma run_pp_linv c s k x m ls :
  (forall k' st, ppst k' s = Some st -> pp_ok c st) ->
  (forall k' st h, ppst k' s = Some st -> l_chaser (get_level h (p_levels st)) = true ->
     transit c k' h s \/ (k' = k /\ is_fin m = true /\ m_retries m = h)) ->
  pp_get k (g_pps s) = Some x -> g_panic (run_pp c s k x m ls) = None -> linv c (run_pp c s k x m ls).
Proof.
  intros A B Hx. unfold run_pp.
  set (ab := match pr_h x with Some b => _ | None => false end). set (stamp := (seq_get k (g_seqs s), g_epoch s)).
  pose proof (pp_ok_step c (fst k) (snd k) (pr_st x) m ab stamp ls) as OK.
  pose proof (fun h => pp_step_chasers c (fst k) (snd k) (pr_st x) m ab stamp ls h) as CH.
  destruct (pp_step c (fst k) (snd k) (pr_st x) m ab stamp ls) as [st' effs]. cbn [fst snd] in OK, CH. intros Hp.
  pose proof (no_crash_of_no_panic _ _ _ _ Hp) as Hc.
  assert (Px : ppst k s = Some (pr_st x)) by (unfold ppst; rewrite Hx; reflexivity).
  pose proof (A k _ Px) as OKx.
  set (s1 := set_pps s (pp_set k (mkPpr st' (pr_h x)) (g_pps s))) in *.
  assert (P1 : forall k', ppst k' (apply_effs c (WPp k) s1 effs) = if tpk_eqb k' k then Some st' else ppst k' s).
  { intros k'. rewrite ppst_apply_effs. unfold ppst, s1. cbn [set_pps g_pps]. rewrite pp_get_set. destruct (tpk_eqb k' k); reflexivity. }
  assert (Q1 : forall d m', In m' (q_get d (g_q s)) -> In m' (q_get d (g_q (apply_effs c (WPp k) s1 effs)))).
  { intros d m' H. apply apply_effs_q_mono. exact H. }
  split.
  - intros k' st H. rewrite P1 in H. destruct (tpk_eqb k' k) eqn:E.
    + injection H as <-. apply OK; assumption.
    + eapply A, H.
  - intros k' st h H Hch. rewrite P1 in H. destruct (tpk_eqb k' k) eqn:E.
    + injection H as <-. apply tpk_eqb_true in E. subst k'.
      destruct (CH h OKx Hc Hch) as [(Eh & Hh & Hin)|(Hold & Hne)].
      * destruct (apply_effs_sent_cur c (WPp k) effs _ Hin s1 Hp) as [b Hb].
        exists (DBp b), (marker c (fst k) (snd k) F_FIN (h - 1)). split; [exact Hb|]. split; [destruct k; apply isfin_marker|]. split; [reflexivity|].
        cbn [lvl]. unfold marker. cbn [m_retries]. lia.
      * destruct (B k _ h Px Hold) as [T|(_ & F & R)]; [eapply transit_mono; [exact Q1|exact T]|]. exfalso. apply (Hne F R).
    + destruct (B k' st h H Hch) as [T|(-> & _)]; [eapply transit_mono; [exact Q1|exact T]|]. rewrite tpk_eqb_refl in E. discriminate.
Qed.

Lemma linv_raw c s ch : c_fix_ic c = true -> marker_size c <= c_max_msg_bytes c ->
  linv c s -> g_panic (raw_step c s ch) = None -> linv c (raw_step c s ch).
Proof.
  intros Hic Hsz L. destruct ch; cbn [raw_step].
  - (* submit *) destruct (g_close_req s); [intros; exact L|]. intros _. revert L. apply linv_mono; [reflexivity|].
    intros d m' H. cbn [add_submitted set_q g_q]. apply q_push_mono, H.
  - destruct (g_close_req s); [intros; exact L|]. intros _. revert L. apply linv_mono; [reflexivity|].
    intros d m' H. cbn [add_inflight set_flags set_q g_q]. apply q_push_mono, H.
  - (* dispatcher *)
    destruct (pop DDisp s) as [[m s1]|] eqn:Ep; [|intros; exact L]. destruct (pop_frame _ _ _ _ Ep) as [F Pp].
    pose proof (fun k => disp_fin_forwarded c (g_disp s1) k m) as FW.
    destruct (disp_step c (g_disp s1) m) as [d' effs]. cbn [snd] in FW. intros _. revert L. apply (linv_move c s _ DDisp m).
    + intros k. rewrite ppst_apply_effs. unfold ppst. cbn [set_disp g_pps]. rewrite Pp. reflexivity.
    + intros d m' H. destruct (F d m' H) as [H1|H1]; [left; apply apply_effs_q_mono; exact H1|right; exact H1].
    + intros k st Hs Ok Hc Hf _. cbn [lvl] in *. destruct (chaser_range _ _ _ Ok Hc) as [R1 R2].
      exists (DTopic (m_topic m)), m. split; [apply apply_effs_sent; [discriminate|]; eapply FW; eauto|].
      split; [exact Hf|]. split; [|reflexivity]. destruct Hf as (_ & <- & _). cbn. apply Z.eqb_refl.
  - (* topic worker *)
    destruct (pop (DTopic t) s) as [[m s1]|] eqn:Ep; [|intros; exact L]. destruct (pop_frame _ _ _ _ Ep) as [F Pp].
    intros _. revert L. apply (linv_move c s _ (DTopic t) m).
    + intros k. rewrite ppst_apply_effs. unfold ppst. rewrite Pp. reflexivity.
    + intros d m' H. destruct (F d m' H) as [H1|H1]; [left; apply apply_effs_q_mono; exact H1|right; exact H1].
    + intros k st Hs Ok Hc Hf _. cbn [lvl] in *. destruct (chaser_range _ _ _ Ok Hc) as [R1 R2].
      exists (DPart (m_topic m) (m_part m)), m. split.
      { apply apply_effs_sent; [discriminate|]. unfold tp_step.
        assert (Fp : fresh_pass m = false) by (unfold fresh_pass; destruct (m_retries m); [lia|reflexivity]). rewrite Fp. left. reflexivity. }
      split; [exact Hf|]. split; [|reflexivity]. destruct Hf as (_ & <- & _). cbn [good_dest]. apply tpk_eqb_refl.
  - (* partition worker *)
    destruct (pop (DPart t p) s) as [[m s1]|] eqn:Ep; [|intros; exact L]. destruct (pop_frame _ _ _ _ Ep) as [F Pp].
    destruct L as [A B].
    assert (A1 : forall k' st, ppst k' s1 = Some st -> pp_ok c st) by (intros k' st H; unfold ppst in H; rewrite Pp in H; eapply A, H).
    assert (B1 : forall k' st h, ppst k' s1 = Some st -> l_chaser (get_level h (p_levels st)) = true ->
               transit c k' h s1 \/ (k' = (t, p) /\ is_fin m = true /\ m_retries m = h)).
    { intros k' st h H Hc. unfold ppst in H. rewrite Pp in H.
      destruct (transit_keep c k' h s s1 (DPart t p) m F (B k' st h H Hc)) as [T|(Hf & G & Hl)]; [left; exact T|right].
      cbn [good_dest] in G. apply tpk_eqb_true in G. split; [symmetry; exact G|]. split; [apply (isfin_is_fin c k' m Hf)|exact Hl]. }
    destruct (pp_get (t, p) (g_pps s1)) as [x|] eqn:Ex.
    + apply run_pp_linv; assumption.
    + destruct (next_lres ls) as [l0 ls']. pose proof (pp_ok_init c t p l0) as OKi. pose proof (pp_init_no_chaser c t p l0) as NCi.
      destruct (pp_init c t p l0) as [st0 effs0]. cbn [fst] in OKi, NCi.
      set (s2 := set_pps s1 (pp_set (t, p) (mkPpr st0 None) (g_pps s1))).
      set (s3 := apply_effs c (WPp (t, p)) s2 effs0).
      assert (P3 : forall k', ppst k' s3 = if tpk_eqb k' (t, p) then Some st0 else ppst k' s1).
      { intros k'. unfold s3. rewrite ppst_apply_effs. unfold ppst, s2. cbn [set_pps g_pps]. rewrite pp_get_set. destruct (tpk_eqb k' (t, p)); reflexivity. }
      assert (Q3 : forall d m', In m' (q_get d (g_q s1)) -> In m' (q_get d (g_q s3))) by (intros d m' H; unfold s3; apply apply_effs_q_mono; exact H).
      pose proof (P3 (t, p)) as P3k. rewrite tpk_eqb_refl in P3k. unfold ppst in P3k.
      destruct (pp_get (t, p) (g_pps s3)) as [x3|] eqn:E3; [|discriminate]. apply run_pp_linv; [| |exact E3].
      * intros k' st H. rewrite P3 in H. destruct (tpk_eqb k' (t, p)); [injection H as <-; exact OKi|eapply A1, H].
      * intros k' st h H Hc. rewrite P3 in H. destruct (tpk_eqb k' (t, p)).
        { injection H as <-. rewrite NCi in Hc. discriminate. }
        destruct (B1 k' st h H Hc) as [T|R]; [left; eapply transit_mono; [exact Q3|exact T]|right; exact R].
  - (* broker worker reads *)
    destruct (nth_error (g_bps s) b) as [x|] eqn:Ex; [|intros; exact L]. destruct (flush_poll (i_st x)) eqn:Efp; [|intros; exact L].
    destruct (pop (DBp b) s) as [[m s1]|] eqn:Ep.
    + destruct (pop_frame _ _ _ _ Ep) as [F Pp]. intros _. revert L. apply (linv_move c s _ (DBp b) m).
      * intros k. destruct (run_bp_frame c s1 b x (BRecv m) k) as [-> _]. unfold ppst. rewrite Pp. reflexivity.
      * intros d m' H. destruct (F d m' H) as [H1|H1]; [left; apply (proj2 (run_bp_frame _ _ _ _ _ (0, 0))); exact H1|right; exact H1].
      * intros k st Hs Ok Hc Hf _. cbn [lvl] in *. destruct (chaser_range _ _ _ Ok Hc) as [R1 R2].
        exists DRetry, (set_retries m (S (m_retries m))). split.
        { unfold run_bp. pose proof (bp_fin_bounced c (g_epoch s1) (i_st x) k m Efp Hf) as BB.
          destruct (bp_step c (g_epoch s1) (i_st x) (BRecv m)) as [st' effs]. cbn [snd] in BB. apply apply_effs_sent; [discriminate|]. apply BB. lia. }
        split; [apply isfin_set_retries; exact Hf|]. split; reflexivity.
    + destruct (i_in_closed x); [|intros; exact L]. intros _. revert L. apply linv_mono; [intros k; apply run_bp_frame|intros d m' H; apply (proj2 (run_bp_frame _ _ _ _ _ (0, 0))); exact H].
  - destruct (nth_error (g_bps s) b) as [x|]; [|intros; exact L]. intros _. revert L.
    apply linv_mono; [intros k; apply run_bp_frame|intros d m' H; apply (proj2 (run_bp_frame _ _ _ _ _ (0, 0))); exact H].
  - destruct (nth_error (g_bps s) b) as [x|]; [|intros; exact L]. intros _. revert L.
    apply linv_mono; [intros k; apply run_bp_frame|intros d m' H; apply (proj2 (run_bp_frame _ _ _ _ _ (0, 0))); exact H].
  - destruct (nth_error (g_bps s) b) as [x|]; [|intros; exact L]. destruct (i_infl x); [intros; exact L|]. destruct (i_bridge x); intros; exact L.
  - destruct (nth_error (g_bps s) b) as [x|]; [|intros; exact L]. destruct (i_infl x); intros; exact L.
  - destruct (nth_error (g_bps s) b) as [x|]; [|intros; exact L]. destruct (i_resp x) as [|[st r] rest]; [intros; exact L|].
    set (s1 := set_bps s _). destruct (nth_error (g_bps s1) b) as [x1|]; [|intros; exact L]. intros _.
    assert (L1 : linv c s1) by exact L. revert L1.
    apply linv_mono; [intros k; apply run_bp_frame|intros d m' H; apply (proj2 (run_bp_frame _ _ _ _ _ (0, 0))); exact H].
  - destruct (nth_error (g_rbs s) i) as [tk|]; [|intros; exact L]. intros _. revert L. apply linv_mono.
    + intros k. rewrite ppst_apply_effs. reflexivity.
    + intros d m' H. apply apply_effs_q_mono. exact H.
  - (* retry handler *)
    destruct (pop DRetry s) as [[m s1]|] eqn:Ep; [|intros; exact L]. destruct (pop_frame _ _ _ _ Ep) as [F Pp].
    intros _. revert L. apply (linv_move c s _ DRetry m).
    + intros k. unfold ppst. cbn [set_q g_pps]. rewrite Pp. reflexivity.
    + intros d m' H. destruct (F d m' H) as [H1|H1]; [left; cbn [set_q g_q]; apply q_push_mono; exact H1|right; exact H1].
    + intros k st Hs Ok Hc Hf _. exists DDisp, m. split; [cbn [set_q g_q]; apply q_push_in|]. split; [exact Hf|]. split; reflexivity.
  - destruct (g_close_req s && negb (g_woken s) && (g_inflight s =? 0)); intros; exact L.
  - destruct (g_woken s && negb (g_closed s)); intros; exact L.
Qed.

Lemma linv_step c s ch : c_fix_ic c = true -> marker_size c <= c_max_msg_bytes c -> linv c s -> linv c (step c s ch).
Proof.
  intros Hic Hsz L. unfold step. destruct (g_panic s); [exact L|].
  destruct (g_panic (raw_step c s ch)) eqn:E; [exact L|]. apply linv_raw; assumption.
Qed.
Lemma linv_init c : linv c init.
Proof. split; intros k st; unfold ppst, init; cbn; discriminate. Qed.

(* No lost chaser: in every reachable state every partition worker is well formed, and for every retry level
   whose chaser it is still waiting for (in particular its current level when it holds parked messages) that
   chaser exists, is a well-formed fin marker of the worker's own partition, and sits in a queue whose owner
   forwards it towards that worker at exactly that level. *)
Theorem no_lost_chaser c sched : c_fix_ic c = true -> marker_size c <= c_max_msg_bytes c -> linv c (run c sched).
Proof.
  intros Hic Hsz. unfold run. assert (G : forall s, linv c s -> linv c (fold_left (step c) sched s)).
  { induction sched as [|ch r IH]; intros s L; [exact L|]. cbn [fold_left]. apply IH, linv_step; assumption. }
  apply G, linv_init.
Qed.

(* ================================================================ broker worker: a held buffer can be flushed *)

(* Configurations in which a non-empty buffer does not wait for more traffic: a flush timer exists, or there is
   no flush threshold at all.  (With Flush.Bytes/Messages > 0 and no Flush.Frequency a lone message waits for
   company in sarama too; that class is excluded, not a defect.) *)
Definition fcfg (c : cfg) : Prop := c_flush_freq c = true \/ (c_flush_bytes c = 0 /\ c_flush_msgs c = 0).

Definition b1 (c : cfg) (st : bp) : Prop := c_flush_freq c = true -> set_empty (b_buf st) = false -> b_timer st = true.
Definition b2 (c : cfg) (st : bp) : Prop :=
  c_flush_freq c = false -> b_mode st = MRun -> set_empty (b_buf st) = false -> b_out_en st = true.
Definition binv (c : cfg) (st : bp) : Prop := b1 c st /\ b2 c st.

Lemma ready_nonempty c s : fcfg c -> c_flush_freq c = false -> set_empty s = false -> ready_to_flush c s = true.
Proof.
  intros [F|[F1 F2]] Hf He; [congruence|]. unfold ready_to_flush. rewrite He, Hf, F1, F2. reflexivity.
Qed.

Lemma parts_count_nonneg ps : 0 <= parts_count ps.
Proof. induction ps as [|[k l] r IH]; cbn [parts_count]; lia. Qed.
Lemma part_drop_count k ps : parts_count (part_drop k ps) <= parts_count ps.
Proof. induction ps as [|[k' l] r IH]; cbn [part_drop parts_count]; [lia|]. destruct (tpk_eqb k k'); cbn [parts_count]; lia. Qed.
Lemma hs_phase2_count c bl : forall ps cur buf, parts_count (snd (fst (hs_phase2 c bl ps cur buf))) <= parts_count buf.
Proof.
  induction ps as [|[k l] r IH]; intros cur buf; cbn [hs_phase2]; [cbn; lia|].
  destruct (block_lookup k bl) as [[e o]|]; [|apply IH]. destruct (retriable e); [|apply IH].
  specialize (IH (cur_set k e cur) (part_drop k buf)). destruct (hs_phase2 c bl r (cur_set k e cur) (part_drop k buf)) as [[cur' buf'] effs'].
  cbn [fst snd] in *. pose proof (part_drop_count k buf). lia.
Qed.
Lemma empty_shrinks a b ep ep' : parts_count a <= parts_count b -> set_empty (mkSet a ep) = false -> set_empty (mkSet b ep') = false.
Proof.
  unfold set_empty, set_count. cbn [s_parts]. intros H E. apply Z.eqb_neq in E. apply Z.eqb_neq. pose proof (parts_count_nonneg a). lia.
Qed.

Lemma binv_init c br ep : binv c (bp_init br ep).
Proof. split; intros _; cbn; discriminate. Qed.

Lemma rollover_binv c st ep : binv c (rollover st ep).
Proof. split; intros ?; unfold rollover; cbn [b_buf b_mode]; unfold set_empty, set_count; cbn; discriminate. Qed.

Lemma do_add_post c st m : b1 c st ->
  b1 c (fst (fst (do_add c st m))) /\
  (snd (do_add c st m) = false -> fst (fst (do_add c st m)) = st) /\
  b_wait (fst (fst (do_add c st m))) = b_wait st /\ b_mode (fst (fst (do_add c st m))) = b_mode st.
Proof.
  intros B. unfold do_add. destruct (m_encfail m); [cbn; auto|].
  destruct (c_v2 c && c_idem c && _); [cbn; auto|]. cbn [fst snd]. split; [|split; [discriminate|split; reflexivity]].
  intros F _. cbn [b_timer]. rewrite F. apply orb_true_r.
Qed.

Definition bpost (c : cfg) (r : bp * list effect * bool) : Prop :=
  b1 c (fst (fst r)) /\ (if snd r then b_wait (fst (fst r)) = WNone \/ b_mode (fst (fst r)) <> MRun else b2 c (fst (fst r))).

Lemma do_add_bpost c st m : binv c st -> b_wait st = WNone -> bpost c (do_add c st m).
Proof.
  intros [B1 B2] W. destruct (do_add_post c st m B1) as (P1 & P2 & P3 & P4). split; [exact P1|].
  destruct (snd (do_add c st m)) eqn:E; [left; congruence|]. rewrite (P2 eq_refl). exact B2.
Qed.
Lemma after_over_bpost c st m : binv c st -> b_wait st = WNone -> bpost c (after_over c st m).
Proof.
  intros B W. unfold after_over. destruct (c_idem c && negb (s_epoch (b_buf st) =? m_epoch m)); [|apply do_add_bpost; assumption].
  destruct B as [B1 B2]. split; [exact B1|exact B2].
Qed.

Lemma handle_response_binv c ep st sent r : binv c st ->
  binv c (fst (handle_response c ep st sent r)) /\
  b_wait (fst (handle_response c ep st sent r)) = b_wait st /\ b_mode (fst (handle_response c ep st sent r)) = b_mode st.
Proof.
  intros B. unfold handle_response.
  set (X := match r with RErr e true => _ | RErr e false => _ | RNil => _ | RBlocks bl => _ end).
  assert (HX : binv c (fst X) /\ b_wait (fst X) = b_wait st /\ b_mode (fst X) = b_mode st).
  { subst X. destruct r as [e [|] | | bl]; cbn [fst]; auto.
    - split; [apply rollover_binv|split; reflexivity].
    - destruct (c_retry_max c =? 0)%nat; [cbn [fst]; auto|].
      pose proof (hs_phase2_count c bl (s_parts sent) (b_cur st) (s_parts (b_buf st))) as Hc.
      destruct (hs_phase2 c bl (s_parts sent) (b_cur st) (s_parts (b_buf st))) as [[cur buf] e2]. cbn [fst snd] in *.
      split; [|split; reflexivity]. destruct B as [B1 B2]. split.
      + intros F E. cbn [with_cur with_buf b_buf b_timer] in *. apply B1; [exact F|].
        destruct (b_buf st) as [ps0 ep0]. cbn [s_parts s_epoch] in *. eapply empty_shrinks; [exact Hc|exact E].
      + intros F M E. cbn [with_cur with_buf b_buf b_out_en b_mode] in *. apply B2; [exact F|exact M|].
        destruct (b_buf st) as [ps0 ep0]. cbn [s_parts s_epoch] in *. eapply empty_shrinks; [exact Hc|exact E]. }
  destruct X as [st1 effs]. cbn [fst] in HX. destruct HX as (H1 & H2 & H3).
  destruct (set_empty (b_buf st1)); cbn [fst]; [|auto]. split; [apply rollover_binv|]. split; [rewrite <- H2|rewrite <- H3]; reflexivity.
Qed.

Lemma bp_core_bpost c ep st i : binv c st -> bpost c (bp_core c ep st i).
Proof.
  intros B. pose proof B as [B1 B2]. destruct i as [m| | | |sent r]; cbn [bp_core].
  - destruct (b_mode st) eqn:M; try (split; [exact B1|exact B2]). destruct (b_wait st) eqn:W; try (split; [exact B1|exact B2]).
    destruct (is_syn m); [split; [exact B1|exact B2]|].
    destruct (needs_retry st m).
    { destruct (b_closing st); [split; [exact B1|exact B2]|]. destruct (is_fin m); split; try exact B1; exact B2. }
    destruct (is_fin m); [split; [exact B1|exact B2]|].
    unfold recv_data. destruct (would_overflow c (b_buf st) m); [split; [exact B1|exact B2]|]. apply after_over_bpost; assumption.
  - destruct (b_mode st) eqn:M; try (split; [exact B1|exact B2]). destruct (b_wait st) eqn:W; try (split; [exact B1|exact B2]).
    split; [exact B1|]. cbn [snd fst]. intros _ M'. cbn in M'. discriminate.
  - destruct (b_timer st && flush_poll st) eqn:E; [|split; [exact B1|exact B2]].
    apply andb_true_iff in E as [_ E]. split; [exact B1|]. cbn [snd fst b_wait]. left.
    unfold flush_poll in E. destruct (b_mode st); try discriminate. destruct (b_wait st); try discriminate. reflexivity.
  - destruct (flush_enabled st); [|split; [exact B1|exact B2]].
    set (st1 := with_wait (rollover st ep) WNone).
    assert (I1 : binv c st1) by (split; intros ?; unfold st1, rollover; cbn [with_wait b_buf b_mode]; unfold set_empty, set_count; cbn; discriminate).
    assert (W1 : b_wait st1 = WNone) by reflexivity.
    destruct (b_wait st) as [|m|m].
    + split; [apply I1|]. left. reflexivity.
    + pose proof (after_over_bpost c st1 m I1 W1) as P. destruct (after_over c st1 m) as [[st2 e2] u]. exact P.
    + pose proof (do_add_bpost c st1 m I1 W1) as P. destruct (do_add c st1 m) as [[st2 e2] u]. exact P.
  - destruct (handle_response_binv c ep st sent r B) as ([H1 H2] & HW & HM).
    destruct (handle_response c ep st sent r) as [st1 effs]. cbn [fst] in *.
    destruct (b_wait st1) as [|m|m] eqn:W.
    + split; [exact H1|]. left. exact W.
    + destruct (needs_retry st1 m); [split; [exact H1|exact H2]|].
      destruct (would_overflow c (b_buf st1) m); [split; [exact H1|exact H2]|].
      assert (I1 : binv c (with_wait st1 WNone)) by (split; [exact H1|exact H2]).
      pose proof (after_over_bpost c (with_wait st1 WNone) m I1 eq_refl) as P.
      destruct (after_over c (with_wait st1 WNone) m) as [[st2 e2] u]. exact P.
    + destruct (needs_retry st1 m); split; try exact H1; exact H2.
Qed.

Lemma bp_step_binv c ep st i : fcfg c -> binv c st -> binv c (fst (bp_step c ep st i)).
Proof.
  intros F B. unfold bp_step. pose proof (bp_core_bpost c ep st i B) as [P1 P2].
  destruct (bp_core c ep st i) as [[st' effs] upd]. cbn [fst snd] in *.
  assert (I : binv c (if upd then end_iter c st' else st')).
  { destruct upd; [|split; assumption]. unfold end_iter. destruct (b_mode st') eqn:M; try (split; [exact P1|intros _ M'; congruence]).
    destruct (b_wait st') eqn:W; try (destruct P2; congruence).
    split; [exact P1|]. intros Ff _ E. cbn [b_buf b_out_en] in *. rewrite (ready_nonempty c _ F Ff E). apply orb_true_r. }
  set (st2 := if upd then end_iter c st' else st') in *. unfold drain_check.
  destruct (b_mode st2) eqn:M; try exact I. destruct (set_empty (b_buf st2)); [|exact I].
  destruct I as [I1 I2]. split; [exact I1|]. intros _ M'. cbn in M'. discriminate.
Qed.

(* what the invariant buys: a broker worker in its run loop that holds messages can hand them to its bridge
   now, or its timer is armed and after the timer fires it can *)
Lemma binv_flush c ep st : fcfg c -> binv c st -> b_mode st = MRun -> set_empty (b_buf st) = false ->
  flush_enabled st = true \/
  (flush_poll st = true /\ b_timer st = true /\ flush_enabled (fst (bp_step c ep st BTimer)) = true).
Proof.
  intros F [B1 B2] M E. unfold flush_enabled. rewrite M. destruct (b_wait st) eqn:W; try (left; reflexivity).
  destruct (c_flush_freq c) eqn:Ff; [|left; apply B2; auto].
  destruct (b_out_en st) eqn:O; [left; reflexivity|right]. unfold flush_poll. rewrite M, W. split; [reflexivity|].
  rewrite (B1 Ff E). split; [reflexivity|]. unfold bp_step, bp_core, flush_poll. rewrite (B1 Ff E), M, W. cbn [andb].
  reflexivity.
Qed.

(* ---------------------------------------------------------------- ... for every broker worker of every reachable state *)

Definition bps_ok (c : cfg) (s : state) : Prop := Forall (fun x => binv c (i_st x)) (g_bps s).

Lemma bp_upd_Forall (P : bpi -> Prop) f : (forall x, P x -> P (f x)) -> forall l i, Forall P l -> Forall P (bp_upd i f l).
Proof.
  intros Hf. induction l as [|x r IH]; intros i H; [destruct i; constructor|]. inversion H; subst.
  destruct i; cbn [bp_upd]; constructor; auto.
Qed.
Lemma get_bp_ok c s br : bps_ok c s -> bps_ok c (fst (get_bp s br)).
Proof.
  unfold bps_ok, get_bp. intros H. destruct (find_reg br (g_bps s) 0%nat); cbn [fst set_bps g_bps].
  - apply bp_upd_Forall; [intros x Hx; exact Hx|exact H].
  - apply Forall_app. split; [exact H|]. constructor; [apply binv_init|constructor].
Qed.
Lemma apply_eff_bps_ok c w s e : bps_ok c s -> bps_ok c (apply_eff c w s e).
Proof.
  intros H. destruct e; cbn [apply_eff]; try exact H.
  - destruct d; try exact H. destruct (handle_of s w); [|exact H]. destruct (nth_error (g_bps s) n); [|exact H]. destruct (i_in_closed b); exact H.
  - unfold emit. destruct (g_closed s); destruct (m_hasseq m); exact H.
  - unfold emit. destruct (g_closed s); exact H.
  - unfold emit. destruct (g_closed s); exact H.
  - destruct (handle_of s w); [|exact H]. unfold bps_ok.
    destruct (set_handle_frame (set_bps s (bp_upd n bi_unref (g_bps s))) w None) as (_ & X & _). rewrite X. cbn [set_bps g_bps].
    apply bp_upd_Forall; [|exact H]. intros x Hx. unfold bi_unref. destruct (i_refs x - 1 =? 0); exact Hx.
  - pose proof (get_bp_ok c s broker H) as G. destruct (get_bp s broker) as [s1 b]. cbn [fst] in G. unfold bps_ok.
    destruct (set_handle_frame s1 w (Some b)) as (_ & X & _). rewrite X. exact G.
  - destruct (find_reg broker (g_bps s) 0%nat); [|exact H]. unfold bps_ok. cbn [set_bps g_bps]. apply bp_upd_Forall; [|exact H]. intros x Hx. exact Hx.
  - destruct w; try exact H. destruct (nth_error (g_bps s) b); [|exact H]. unfold bps_ok. cbn [set_bps g_bps]. apply bp_upd_Forall; [|exact H]. intros x Hx. exact Hx.
  - pose proof (get_bp_ok c s broker H) as G. destruct (get_bp s broker) as [s1 b]. cbn [fst] in G. unfold bps_ok. cbn [set_bps g_bps].
    apply bp_upd_Forall; [|exact G]. intros x Hx. exact Hx.
Qed.
Lemma apply_effs_bps_ok c w l : forall s, bps_ok c s -> bps_ok c (apply_effs c w s l).
Proof. induction l as [|e l IH]; intros s H; [exact H|]. cbn [apply_effs fold_left]. apply IH, apply_eff_bps_ok, H. Qed.

Lemma Forall_nth_error {A} (P : A -> Prop) l i x : Forall P l -> nth_error l i = Some x -> P x.
Proof. intros H E. eapply Forall_forall; [exact H|]. eapply nth_error_In, E. Qed.

Lemma run_bp_ok c s b x i : fcfg c -> bps_ok c s -> nth_error (g_bps s) b = Some x -> bps_ok c (run_bp c s b x i).
Proof.
  intros F H Hx. unfold run_bp. pose proof (bp_step_binv c (g_epoch s) (i_st x) i F (Forall_nth_error _ _ _ _ H Hx)) as B.
  destruct (bp_step c (g_epoch s) (i_st x) i) as [st' effs]. cbn [fst] in B. apply apply_effs_bps_ok.
  unfold bps_ok. cbn [set_bps g_bps]. apply bp_upd_Forall; [intros y _; exact B|exact H].
Qed.

Lemma bps_ok_raw c s ch : fcfg c -> bps_ok c s -> bps_ok c (raw_step c s ch).
Proof.
  intros F H. destruct ch; cbn [raw_step].
  - destruct (g_close_req s); exact H.
  - destruct (g_close_req s); exact H.
  - unfold pop. destruct (q_get DDisp (g_q s)); [exact H|]. destruct (disp_step c _ m) as [d' effs]. apply apply_effs_bps_ok. exact H.
  - unfold pop. destruct (q_get (DTopic t) (g_q s)); [exact H|]. apply apply_effs_bps_ok. exact H.
  - unfold pop. destruct (q_get (DPart t p) (g_q s)) as [|m r]; [exact H|]. set (s1 := set_q s _).
    assert (H1 : bps_ok c s1) by exact H.
    assert (RP : forall s0 x ls0, bps_ok c s0 -> bps_ok c (run_pp c s0 (t, p) x m ls0)).
    { intros s0 x ls0 H0. unfold run_pp. destruct (pp_step c _ _ _ _ _ _ _) as [st' effs]. apply apply_effs_bps_ok. exact H0. }
    destruct (pp_get (t, p) (g_pps s1)); [apply RP; exact H1|].
    destruct (next_lres ls) as [l0 ls']. destruct (pp_init c t p l0) as [st0 effs0]. apply RP. apply apply_effs_bps_ok. exact H1.
  - destruct (nth_error (g_bps s) b) as [x|] eqn:Ex; [|exact H]. destruct (flush_poll (i_st x)); [|exact H].
    unfold pop. destruct (q_get (DBp b) (g_q s)) as [|m r].
    + destruct (i_in_closed x); [|exact H]. apply run_bp_ok; assumption.
    + apply run_bp_ok; assumption.
  - destruct (nth_error (g_bps s) b) as [x|] eqn:Ex; [|exact H]. apply run_bp_ok; assumption.
  - destruct (nth_error (g_bps s) b) as [x|] eqn:Ex; [|exact H]. apply run_bp_ok; assumption.
  - destruct (nth_error (g_bps s) b) as [x|]; [|exact H]. destruct (i_infl x); [exact H|]. destruct (i_bridge x); [exact H|].
    unfold bps_ok. cbn [set_bps g_bps]. apply bp_upd_Forall; [|exact H]. intros y Hy. exact Hy.
  - destruct (nth_error (g_bps s) b) as [x|]; [|exact H]. destruct (i_infl x); [|exact H].
    unfold bps_ok. cbn [set_bps g_bps]. apply bp_upd_Forall; [|exact H]. intros y Hy. exact Hy.
  - destruct (nth_error (g_bps s) b) as [x|]; [|exact H]. destruct (i_resp x) as [|[st r] rest]; [exact H|].
    set (s1 := set_bps s _). assert (H1 : bps_ok c s1).
    { unfold bps_ok, s1. cbn [set_bps g_bps]. apply bp_upd_Forall; [|exact H]. intros y Hy. exact Hy. }
    destruct (nth_error (g_bps s1) b) as [x1|] eqn:E1; [|exact H]. apply run_bp_ok; assumption.
  - destruct (nth_error (g_rbs s) i); [|exact H]. apply apply_effs_bps_ok. exact H.
  - unfold pop. destruct (q_get DRetry (g_q s)); exact H.
  - destruct (g_close_req s && negb (g_woken s) && (g_inflight s =? 0)); exact H.
  - destruct (g_woken s && negb (g_closed s)); exact H.
Qed.

Theorem bps_flushable c sched : fcfg c -> bps_ok c (run c sched).
Proof.
  intros F. unfold run. assert (G : forall s, bps_ok c s -> bps_ok c (fold_left (step c) sched s)).
  { induction sched as [|ch r IH]; intros s H; [exact H|]. cbn [fold_left]. apply IH. unfold step.
    destruct (g_panic s); [exact H|]. destruct (g_panic (raw_step c s ch)); [exact H|]. apply bps_ok_raw; assumption. }
  apply G. constructor.
Qed.

(* ================================================================ readable corollaries *)

(* a partition worker that parks a message (at any level) is waiting for the chaser of its current level,
   and that chaser is on its way *)
Corollary parked_has_chaser c sched k x i : c_fix_ic c = true -> marker_size c <= c_max_msg_bytes c ->
  pp_get k (g_pps (run c sched)) = Some x -> l_buf (get_level i (p_levels (pr_st x))) <> [] ->
  (i < p_hwm (pr_st x) <= c_retry_max c)%nat /\ transit c k (p_hwm (pr_st x)) (run c sched).
Proof.
  intros Hic Hsz Hx Hb. destruct (no_lost_chaser c sched Hic Hsz) as [A B].
  assert (P : ppst k (run c sched) = Some (pr_st x)) by (unfold ppst; rewrite Hx; reflexivity).
  pose proof (A k _ P) as (L & C0 & CH & HM & BE).
  assert (Hi : (i < p_hwm (pr_st x))%nat) by (destruct (le_lt_dec (p_hwm (pr_st x)) i) as [G|G]; [exfalso; apply Hb, BE, G|exact G]).
  split; [lia|]. apply (B k _ _ P). apply CH. lia.
Qed.

(* a broker worker in its run loop that holds messages can hand them to its bridge now, or its timer is armed
   and it can right after the timer fired *)
Corollary held_buffer_flushable c sched b x ep : fcfg c ->
  nth_error (g_bps (run c sched)) b = Some x -> b_mode (i_st x) = MRun -> set_empty (b_buf (i_st x)) = false ->
  flush_enabled (i_st x) = true \/
  (flush_poll (i_st x) = true /\ b_timer (i_st x) = true /\ flush_enabled (fst (bp_step c ep (i_st x) BTimer)) = true).
Proof.
  intros F Hx M E. apply binv_flush; try assumption. exact (Forall_nth_error _ _ _ _ (bps_flushable c sched F) Hx).
Qed.

(* flushRetryBuffers reaches the ground whatever the leader lookups answer: it stops at level 0 or at a level whose own
   chaser is still expected (which, by no_lost_chaser, is in transit); every level it passed is empty and expects no
   chaser.  In particular a failed lookup at an intermediate level does not strand the levels below it. *)
Corollary flush_reaches_ground c t p h hasbp leader lv stamp ls :
  has_crash (snd (flush c t p h hasbp leader lv stamp ls)) = false ->
  let r := fst (flush c t p h hasbp leader lv stamp ls) in
  let h' := fst (fst (fst r)) in let lv' := snd r in
  (h' < h)%nat /\ (h' = 0%nat \/ l_chaser (get_level h' lv') = true) /\
  (forall i, (h' <= i < h)%nat -> l_buf (get_level i lv') = []) /\
  (forall i, (h' < i < h)%nat -> l_chaser (get_level i lv') = false).
Proof.
  intros Hc. pose proof (flush_levels c t p h hasbp leader lv stamp ls) as FL. pose proof (flush_skips c t p h hasbp leader lv stamp ls) as FS.
  destruct (flush c t p h hasbp leader lv stamp ls) as [[[[h' hb] ld] lv'] effs]. cbn [fst snd] in *.
  destruct (FL Hc) as (A & B & C & D & E & F). split; [exact B|]. split.
  - destruct D as [D|D]; [right; rewrite C; exact D|left; exact D].
  - split; [exact E|]. intros i Hi. rewrite C. apply FS, Hi.
Qed.
